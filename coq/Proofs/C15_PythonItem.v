(* C15 for Python WITHOUT the neutrality hypothesis: on the items of c15_py_item_ok (Spec/C15RenderScPy.v), with
   Unicode tables that are right on ASCII and plain type_mappings targets, the code py_write_item prints around the
   docstrings and `# ` lines keeps the reference lexer of Python in code mode.
   Layout first (declarations whose names are plain and whose raw-quoted strings are fine), then the decisions
   (the declarations py_decl_of computes for an item of the class are such declarations). *)
From Coq Require Import List NArith Bool Lia ZifyBool ZifyN String.
From TS Require Import Model.Str Model.Outcome Model.Unicode Model.Types Model.Parse Model.Rename
                       Model.Lang.Common Model.Lang.ConvertCase Model.Lang.Decl Model.Lang.Python.
From TS Require Import Spec.Lexers Spec.C10Spec Spec.C15Spec Spec.C15Render Spec.C15RenderScPy.
From TS Require Import Proofs.BackCommon Proofs.C15 Proofs.C15_Render Proofs.C15_Python Proofs.C15_Kotlin Proofs.C15_Front.
From TS Require Proofs.C10_TSFile Proofs.C10_PYFile.
Import ListNotations.
Local Open Scope N_scope.

Notation NP := (c15_neutral C15py).
Notation plain := (c15_plain C15py).
Notation DP := (Decomp C15py NP).

Ltac py_sites_norm :=
  unfold c15_sites; cbn [app]; rewrite ?app_nil_r, ?map_app, ?c15_map_flat_map; cbn [app map]; rewrite ?app_nil_r; reflexivity.

(* ================= the Python reference lexer on code ================= *)
Lemma py_plain_char_iff c : c15_plain_char C15py c = negb (c =? 35) && negb (c =? 34) && negb (c =? 39).
Proof.
  unfold c15_plain_char, lex_code. cbn [c15_cfg cfg_py lc_slash lc_hash lc_triple lc_quotes lc_long andb].
  unfold isin, ch_hash, ch_dq, ch_sq. cbn [existsb].
  destruct (c =? 35), (c =? 34), (c =? 39); reflexivity.
Qed.

Lemma py_plain_chars s : plain s = true <-> forallb (fun c => negb (c =? 35) && negb (c =? 34) && negb (c =? 39)) s = true.
Proof.
  unfold c15_plain. induction s as [|c r IH]; [tauto|]. cbn [forallb]. rewrite py_plain_char_iff, !andb_true_iff, IH. tauto.
Qed.

(* a string printed RAW between double quotes: non-empty (two adjacent quotes may open a triple-quoted string),
   no double quote, no backslash, no line end *)
Definition py_raw_char (c : char) : bool := negb (c =? ch_dq) && negb (c =? ch_bs) && negb (c =? ch_nl) && negb (c =? ch_cr).
Definition py_raw_ok (s : str) : bool := match s with [] => false | _ => forallb py_raw_char s end.
Definition py_in_str (S : lstate) : Prop := S = LOpen ch_dq false \/ S = LStr ch_dq false.

Lemma py_raw_char_lex S c : py_in_str S -> py_raw_char c = true -> lex_gen cfg_py S c = LStr ch_dq false.
Proof.
  unfold py_raw_char, ch_dq, ch_bs, ch_nl, ch_cr. intros HS H.
  destruct HS as [-> | ->]; cbn [lex_gen lex_quoted cfg_py lc_eol]; unfold ch_bs, ch_dq, eol_lf_cr, ch_nl, ch_cr.
  - replace (c =? 34) with false by lia. replace (c =? 92) with false by lia.
    replace (false || ((c =? 10) || (c =? 13))) with false by lia. reflexivity.
  - replace (c =? 92) with false by lia. replace ((c =? 34) || ((c =? 10) || (c =? 13))) with false by lia. reflexivity.
Qed.

Lemma py_raw_neutral s : py_raw_ok s = true -> NP ([ch_dq] ++ s ++ [ch_dq]).
Proof.
  intros H. unfold c15_neutral. rewrite lex_str_app.
  change (lex_str_gen (c15_cfg C15py) LCode [ch_dq]) with (LOpen ch_dq false). rewrite lex_str_app.
  change (c15_cfg C15py) with cfg_py.
  assert (E : forall S, py_in_str S -> s <> [] -> forallb py_raw_char s = true -> lex_str_gen cfg_py S s = LStr ch_dq false).
  { clear H. induction s as [|c r IH]; intros S HS Hne Hr; [congruence|].
    cbn [forallb] in Hr. apply andb_true_iff in Hr as [Hc Hr]. cbn [lex_str_gen fold_left]. rewrite (py_raw_char_lex S c HS Hc).
    destruct r as [|c2 r2]; [reflexivity|]. apply IH; [now right|discriminate|exact Hr]. }
  destruct s as [|c r]; [discriminate|]. rewrite E; [reflexivity|now left|discriminate|exact H].
Qed.

(* pre"s"  where pre is code *)
Lemma py_quoted_neutral pre s : NP pre -> py_raw_ok s = true -> NP (pre ++ [ch_dq] ++ s ++ [ch_dq]).
Proof. intros Hp Hs. apply c15_neutral_app; [exact Hp|now apply py_raw_neutral]. Qed.

Lemma py_alias_neutral k : py_raw_ok k = true -> NP (lit "alias=""" ++ k ++ lit """").
Proof. intros H. apply (py_quoted_neutral (lit "alias=") k); [vm_compute; reflexivity|exact H]. Qed.
Lemma py_eq_quoted_neutral w : py_raw_ok w = true -> NP (lit " = """ ++ w ++ lit """").
Proof. intros H. apply (py_quoted_neutral (lit " = ") w); [vm_compute; reflexivity|exact H]. Qed.

(* ---- alphabets ---- *)
Lemma py_forallb_impl {A} (p q : A -> bool) l : (forall x, p x = true -> q x = true) -> forallb p l = true -> forallb q l = true.
Proof. intros Hpq H. rewrite forallb_forall in H |- *. intros x Hx. apply Hpq, H, Hx. Qed.

Lemma py_key_char_plain c : c10_key_char c = true -> c15_plain_char C15py c = true.
Proof. rewrite py_plain_char_iff. unfold c10_key_char, is_aalpha, is_alower, is_aupper, is_adigit, ch_us, ch_dash. lia. Qed.
Lemma py_key_char_raw c : c10_key_char c = true -> py_raw_char c = true.
Proof. unfold py_raw_char, c10_key_char, is_aalpha, is_alower, is_aupper, is_adigit, ch_us, ch_dash, ch_dq, ch_bs, ch_nl, ch_cr. lia. Qed.
Lemma py_keychars_plain s : forallb c10_key_char s = true -> plain s = true.
Proof. apply py_forallb_impl. exact py_key_char_plain. Qed.
Lemma py_key_ok_raw s : c10_key_ok s = true -> py_raw_ok s = true.
Proof. unfold c10_key_ok, py_raw_ok. destruct s as [|c r]; [discriminate|]. apply py_forallb_impl. exact py_key_char_raw. Qed.
Lemma py_key_ok_chars s : c10_key_ok s = true -> forallb c10_key_char s = true.
Proof. unfold c10_key_ok. destruct s; [discriminate|auto]. Qed.
Lemma py_identchars_plain s : forallb c10_ident_char s = true -> plain s = true.
Proof. intros H. apply py_keychars_plain. revert H. apply py_forallb_impl. intros c. unfold c10_ident_char, c10_key_char. lia. Qed.

Lemma py_ident_parts s : c15_ident_ok C15py s = true -> plain s = true /\ py_raw_ok s = true.
Proof.
  unfold c15_ident_ok, py_raw_ok, c15_plain. destruct s as [|c r]; [discriminate|].
  generalize (c :: r). intros l H. split; revert H; apply py_forallb_impl; intros x Hx; unfold c15_ident_char in Hx.
  - lia.
  - rewrite py_plain_char_iff in Hx. unfold py_raw_char, c15_lit_char, ch_dq, ch_bs, ch_nl, ch_cr in *. lia.
Qed.

(* str::replace of a double quote by backslash quote is the identity on strings without double quote *)
Lemma py_replace_dq_id t s : forallb (fun c => negb (c =? ch_dq)) s = true -> replace_sub [ch_dq] t s = s.
Proof.
  change (replace_sub [ch_dq] t s) with (replace_sub_fuel (S (List.length s)) [ch_dq] t s).
  generalize (S (List.length s)). intros f. revert s. induction f as [|f IH]; intros s H; [reflexivity|].
  cbn [replace_sub_fuel]. destruct s as [|c r]; [reflexivity|]. cbn [forallb] in H. apply andb_true_iff in H as [Hc Hr].
  cbn [starts_with]. replace (ch_dq =? c) with false by (unfold ch_dq in *; lia). cbn [andb]. now rewrite IH.
Qed.
Lemma py_raw_no_dq s : py_raw_ok s = true -> forallb (fun c => negb (c =? ch_dq)) s = true.
Proof. unfold py_raw_ok. destruct s as [|c r]; [discriminate|]. apply py_forallb_impl. intros x. unfold py_raw_char. lia. Qed.

Lemma py_plain_generics_list gs : forallb plain gs = true -> plain (py_generics_list gs) = true.
Proof. intros H. unfold py_generics_list. rewrite !c15_plain_app, c15_plain_join; [reflexivity|reflexivity|exact H]. Qed.

(* ================= layout ================= *)
Definition py_opt_raw_ok (o : option str) : bool := match o with Some k => py_raw_ok k | None => true end.
Definition py_ann_ok (o : option (str * str)) : bool := match o with Some (de, ser) => plain de && plain ser | None => true end.
Definition py_member_ok (m : py_member) : bool :=
  plain (pym_name m) && plain (py_show (pym_type m)) && py_opt_raw_ok (pym_alias m) && py_ann_ok (pym_annotated m).
Definition py_content_ok (c : py_content) : bool :=
  match c with PYCNone => true | PYCType ty => plain (py_show ty) | PYCInner inner => plain inner end.
Definition py_variant_ok (v : py_variant) : bool :=
  plain (pyv_class v) && plain (pyv_types v) && plain (pyv_type_key v) && py_content_ok (pyv_content v).
Definition py_entry_ok (kw : str * str) : bool := plain (fst kw) && py_raw_ok (snd kw).
Definition py_unit_ok (v : list str * str * str) : bool := plain (snd (fst v)) && py_raw_ok (snd v).
Definition py_decl_ok (d : py_decl) : bool :=
  match d with
  | PYAlias _ name gs ty => plain name && forallb plain gs && plain (py_show ty)
  | PYConst name ty value => plain name && plain (py_show ty) && plain value
  | PYClass _ name gs _ ms => plain name && forallb plain gs && forallb py_member_ok ms
  | PYUnitEnum _ name vs => plain name && forallb py_unit_ok vs
  | PYAlgebraic _ name tn entries tag content vs =>
    plain name && plain tn && forallb py_entry_ok entries && plain tag && plain content && forallb py_variant_ok vs
  end.

Lemma pyn_comments_decomp b ds i : DP (py_write_comments b ds i) (c15_sites b ds).
Proof. exact (py_comments_decomp NP b ds i). Qed.

(* pre ++ w ++ quote in front of more text, as one code part *)
Lemma DP_quoted pre w rest s : NP (pre ++ w ++ lit """") -> DP rest s -> DP (pre ++ w ++ lit """" ++ rest) s.
Proof.
  intros Hq Hr. replace (pre ++ w ++ lit """" ++ rest) with ((pre ++ w ++ lit """") ++ rest) by now rewrite <- !app_assoc.
  change s with ([] ++ s). apply Decomp_app; [now apply Decomp_code|exact Hr].
Qed.

Ltac py_atom :=
  first [ apply c15_neutral_plain; assumption
        | match goal with |- c15_neutral _ (match ?x with _ => _ end) => destruct x end; vm_compute; reflexivity
        | vm_compute; reflexivity ].
(* syntactic dispatch (a unification-based one is slow on long texts) *)
Ltac py_quoted :=
  match goal with
  | |- Decomp _ _ (lit " = """ ++ _ ++ lit """" ++ _) _ => apply DP_quoted; [apply py_eq_quoted_neutral; assumption|]
  | |- Decomp _ _ (lit "alias=""" ++ _ ++ lit """") _ => apply Decomp_code; apply py_alias_neutral; assumption
  | |- Decomp _ _ (py_generics_list _) _ =>
    apply Decomp_code; apply c15_neutral_plain; apply py_plain_generics_list; assumption
  end.
Ltac pyn_decomp tac := c15_decomp ltac:(apply pyn_comments_decomp) ltac:(first [tac | py_quoted]) py_atom.

Lemma pyn_member_decomp m : py_member_ok m = true -> DP (py_render_member m) (c15_sites true (pym_docs m)).
Proof.
  unfold py_member_ok, py_render_member. cbv zeta. intros H.
  destruct m as [docs name esc alias ty ann dn].
  cbn [pym_docs pym_name pym_escaped pym_alias pym_type pym_annotated pym_default_none] in *.
  destruct ann as [[de ser]|], alias as [k|], dn; cbn [py_opt_raw_ok py_ann_ok app join] in *; c15_split_andb;
    (eapply Decomp_eq; [pyn_decomp ltac:(fail)|]; py_sites_norm).
Qed.

Lemma pyn_variant_decomp tag content v : plain tag = true -> plain content = true -> py_variant_ok v = true ->
  DP (py_render_variant tag content v) (c15_sites true (pyv_docs v)).
Proof.
  unfold py_variant_ok, py_render_variant. cbv zeta. intros Ht Hc H. c15_split_andb.
  destruct (pyv_content v); cbn [py_content_ok] in *; (eapply Decomp_eq; [pyn_decomp ltac:(fail)|]; py_sites_norm).
Qed.

Lemma py_entries_neutral entries : forallb py_entry_ok entries = true ->
  NP (join py_nl (map (fun kw => lit "    " ++ fst kw ++ lit " = """ ++ snd kw ++ lit """") entries)).
Proof.
  intros H. apply c15_neutral_join; [vm_compute; reflexivity|]. apply Forall_map. rewrite Forall_forall. intros kw Hin.
  rewrite forallb_forall in H. specialize (H kw Hin). unfold py_entry_ok in H. apply andb_true_iff in H as [Hk Hw].
  apply c15_neutral_app; [vm_compute; reflexivity|]. apply c15_neutral_app; [now apply c15_neutral_plain|].
  now apply py_eq_quoted_neutral.
Qed.

Lemma py_union_neutral name (ms : list str) : plain name = true -> forallb plain ms = true ->
  NP (match ms with
      | [] => name ++ lit " = Union[" ++ join (lit ", ") [] ++ lit "]" ++ py_nl
      | [m] => name ++ lit " = " ++ m ++ py_nl
      | m :: s :: l0 => name ++ lit " = Union[" ++ join (lit ", ") (m :: s :: l0) ++ lit "]" ++ py_nl
      end).
Proof.
  intros Hn Hm. apply c15_neutral_plain.
  assert (E : plain (name ++ lit " = Union[" ++ join (lit ", ") ms ++ lit "]" ++ py_nl) = true).
  { rewrite !c15_plain_app, Hn, c15_plain_join; [reflexivity|reflexivity|exact Hm]. }
  destruct ms as [|m [|m2 r]]; try exact E.
  cbn [forallb] in Hm. apply andb_true_iff in Hm as [Hm _]. now rewrite !c15_plain_app, Hn, Hm.
Qed.

Theorem pyn_decl_decomp d : py_decl_ok d = true -> DP (py_render_decl d) (py_decl_sites d).
Proof.
  intros H.
  destruct d as [docs name gs ty|name ty value|docs name gs config ms|docs name vs|docs name tn entries tag content vs];
    cbn [py_decl_ok py_render_decl py_decl_sites] in *; c15_split_andb.
  - destruct gs; (eapply Decomp_eq; [pyn_decomp ltac:(fail)|]; py_sites_norm).
  - eapply Decomp_eq; [pyn_decomp ltac:(fail)|]. py_sites_norm.
  - match goal with Hm : forallb py_member_ok ms = true |- _ => rename Hm into Hms end.
    destruct gs, config;
      (eapply Decomp_eq;
       [pyn_decomp ltac:(apply (Decomp_concat_map C15py NP) with (g := fun m => c15_sites true (pym_docs m));
                         intros m Hin; rewrite forallb_forall in Hms; apply pyn_member_decomp, Hms, Hin)|];
       py_sites_norm).
  - match goal with Hm : forallb py_unit_ok vs = true |- _ => rename Hm into Hvs end.
    destruct vs as [|v r].
    + eapply Decomp_eq; [pyn_decomp ltac:(fail)|]. py_sites_norm.
    + eapply Decomp_eq;
        [pyn_decomp ltac:(apply (Decomp_concat_map C15py NP) with (g := fun v => c15_sites true (fst (fst v)));
                          intros [[vdocs case] wire] Hin; rewrite forallb_forall in Hvs; specialize (Hvs _ Hin);
                          unfold py_unit_ok in Hvs; cbn [fst snd] in *; c15_split_andb;
                          rewrite (py_replace_dq_id _ wire) by (now apply py_raw_no_dq);
                          eapply Decomp_eq)|..].
      all: py_sites_norm.
  - match goal with Hm : forallb py_variant_ok vs = true |- _ => rename Hm into Hvs end.
    eapply Decomp_eq;
      [pyn_decomp ltac:(first
         [ apply (Decomp_concat_map C15py NP) with (g := fun v => c15_sites true (pyv_docs v));
           intros v Hin; rewrite forallb_forall in Hvs; apply pyn_variant_decomp; auto
         | apply Decomp_code; apply py_entries_neutral; assumption
         | apply Decomp_code; apply py_union_neutral; [assumption|];
           rewrite c15_forallb_map; revert Hvs; apply py_forallb_impl; intros v Hv; unfold py_variant_ok in Hv;
           c15_split_andb; assumption ])|].
    py_sites_norm.
Qed.

(* ================= decisions: items of the class give declarations with neutral code ================= *)
Section PYStrict.
Variable uc : unicode.
Hypothesis Huc : unicode_ok uc.
Variable cfg : py_config.
Hypothesis Hmap : c15_mappings_plain C15py (py_type_mappings cfg) = true.

Ltac inv_ret H := unfold ret in H; injection H as <- _.

Lemma py_special_mapped (b : bool) mapped s x s' :
  (mdo _ <- (if b then py_add_custom_type mapped else ret tt); ret (XRaw mapped)) s = Ok (x, s') -> x = XRaw mapped.
Proof. intros H. apply mbind_ok in H as (a & s1 & _ & H). inv_ret H. reflexivity. Qed.

Lemma py_texp_plain gs t : c15_rtype_plain C15py t = true ->
  forall s x s', py_texp cfg gs t s = Ok (x, s') -> plain (py_show x) = true.
Proof.
  induction t as [id|id ps IH|t IH|t n IH|t IH|k v IHk IHv|t IH|p] using rtype_ind'; intros Hp s x s' H;
    cbn [py_texp c15_rtype_plain] in *.
  - apply mbind_ok in H as (u & s1 & _ & H). inv_ret H.
    destruct (tmap_get (py_type_mappings cfg) id) eqn:E; cbn [py_show]; [eapply c15_tmap_get_plain; eauto|exact Hp].
  - apply andb_true_iff in Hp as [Hid Hps]. apply mbind_ok in H as (u & s1 & _ & H).
    destruct (tmap_get (py_type_mappings cfg) id) eqn:E.
    + inv_ret H. cbn [py_show]. eapply c15_tmap_get_plain; eauto.
    + rewrite c15_go_is_mmapM in H. apply mbind_ok in H as (parts & s2 & Hparts & H). inv_ret H.
      assert (HQ : Forall (fun y => plain (py_show y) = true) parts).
      { eapply c15_mmapM_Forall; [|exact Hparts]. rewrite Forall_forall in IH |- *. intros t Ht.
        apply IH; [exact Ht|]. rewrite forallb_forall in Hps. now apply Hps. }
      cbn [py_show]. destruct parts as [|y r]; [exact Hid|].
      rewrite !c15_plain_app, Hid. cbn [andb]. rewrite c15_plain_join; [reflexivity|reflexivity|].
      rewrite c15_forallb_map. now apply c15_Forall_forallb.
  - destruct (tmap_get (py_type_mappings cfg) (rtype_display (RVec t))) eqn:E.
    + apply py_special_mapped in H as ->. eapply c15_tmap_get_plain; eauto.
    + apply mbind_ok in H as (u & s1 & _ & H). apply mbind_ok in H as (e & s2 & He & H). inv_ret H.
      cbn [py_show map join]. rewrite !c15_plain_app, (IH Hp _ _ _ He). reflexivity.
  - destruct (tmap_get (py_type_mappings cfg) (rtype_display (RArray t n))) eqn:E.
    + apply py_special_mapped in H as ->. eapply c15_tmap_get_plain; eauto.
    + apply mbind_ok in H as (u & s1 & _ & H). apply mbind_ok in H as (e & s2 & He & H). inv_ret H.
      cbn [py_show map join]. rewrite !c15_plain_app, (IH Hp _ _ _ He). reflexivity.
  - destruct (tmap_get (py_type_mappings cfg) (rtype_display (RSlice t))) eqn:E.
    + apply py_special_mapped in H as ->. eapply c15_tmap_get_plain; eauto.
    + apply mbind_ok in H as (u & s1 & _ & H). apply mbind_ok in H as (e & s2 & He & H). inv_ret H.
      cbn [py_show map join]. rewrite !c15_plain_app, (IH Hp _ _ _ He). reflexivity.
  - apply andb_true_iff in Hp as [Hk Hv].
    destruct (tmap_get (py_type_mappings cfg) (rtype_display (RHashMap k v))) eqn:E.
    + apply py_special_mapped in H as ->. eapply c15_tmap_get_plain; eauto.
    + apply mbind_ok in H as (u & s1 & _ & H). apply mbind_ok in H as (ks & s2 & Hks & H).
      apply mbind_ok in H as (vs & s3 & Hvs & H). inv_ret H.
      assert (Eks : plain (py_show ks) = true).
      { destruct k; try exact (IHk Hk _ _ _ Hks). destruct (mem_str id gs); [discriminate|exact (IHk Hk _ _ _ Hks)]. }
      cbn [py_show map join]. rewrite !c15_plain_app, Eks, (IHv Hv _ _ _ Hvs). reflexivity.
  - destruct (tmap_get (py_type_mappings cfg) (rtype_display (ROption t))) eqn:E.
    + apply py_special_mapped in H as ->. eapply c15_tmap_get_plain; eauto.
    + apply mbind_ok in H as (u & s1 & _ & H). apply mbind_ok in H as (e & s2 & He & H). inv_ret H.
      cbn [py_show]. rewrite !c15_plain_app, (IH Hp _ _ _ He). reflexivity.
  - destruct (tmap_get (py_type_mappings cfg) (rtype_display (RPrim p))) eqn:E.
    + apply py_special_mapped in H as ->. eapply c15_tmap_get_plain; eauto.
    + destruct p; try (apply mbind_ok in H as (u & s1 & _ & H)); inv_ret H; reflexivity.
Qed.

Lemma py_snake_plain s : c15_ascii_key s = true -> plain (cc_to_snake uc s) = true.
Proof. intros H. apply py_keychars_plain. exact (Proofs.C10_PYFile.cc_to_snake_key uc Huc s H). Qed.
Lemma py_upper_plain s : c15_ascii_key s = true -> plain (str_to_uppercase uc s) = true.
Proof. intros H. apply py_keychars_plain. exact (Proofs.C10_PYFile.to_uppercase_key uc Huc s H). Qed.
Lemma py_type_key_plain v : c10_key_ok (renamed (vid (variant_shared v))) = true -> plain (py_variant_type_key uc v) = true.
Proof.
  intros H. unfold py_variant_type_key. apply py_upper_plain.
  exact (Proofs.C10_PYFile.cc_to_snake_key uc Huc _ (py_key_ok_chars _ H)).
Qed.

Lemma py_rename_plain s : c15_ascii_key s = true -> plain (py_property_aware_rename uc s) = true.
Proof.
  intros H. unfold py_property_aware_rename. destruct (py_name_is_keyword uc s); [|now apply py_snake_plain].
  now rewrite c15_plain_app, (py_keychars_plain s H).
Qed.

Lemma py_member_ok_ir gs f st m st' : c15_py_field_ok f = true ->
  py_member_of uc cfg gs f st = Ok (m, st') -> py_member_ok m = true.
Proof.
  unfold c15_py_field_ok, py_member_of. intros Hf H. c15_split_andb.
  apply mbind_ok in H as (ty & s1 & Hty & H). apply mbind_ok in H as (u & s2 & _ & H).
  apply mbind_ok in H as (ann & s3 & Hann & H). inv_ret H.
  assert (Ety : plain (py_show ty) = true) by (eapply py_texp_plain; eauto).
  destruct (py_ident_parts _ ltac:(eassumption)) as (_ & Hraw).
  unfold py_member_ok. cbn [pym_name pym_type pym_alias pym_annotated].
  repeat (apply andb_true_iff; split).
  - now apply py_rename_plain.
  - destruct (negb (is_optional (fty f)) && has_default f); [|exact Ety]. cbn [py_show]. now rewrite !c15_plain_app, Ety.
  - destruct (negb (str_eqb (py_property_aware_rename uc (original (fid f))) (renamed (fid f)))); [exact Hraw|reflexivity].
  - unfold py_json_translation_for_type in Hann.
    destruct (str_eqb (py_show ty) (lit "bytes")); [|destruct (str_eqb (py_show ty) (lit "datetime"))].
    + apply mbind_ok in Hann as (u2 & s4 & _ & Hann). inv_ret Hann. vm_compute. reflexivity.
    + apply mbind_ok in Hann as (u2 & s4 & _ & Hann). inv_ret Hann. vm_compute. reflexivity.
    + inv_ret Hann. reflexivity.
Qed.

Lemma py_class_ok_ir rs st d st' :
  plain (renamed (sid rs)) = true -> forallb plain (sgenerics rs) = true -> forallb c15_py_field_ok (sfields rs) = true ->
  py_class_of uc cfg rs st = Ok (d, st') -> py_decl_ok d = true.
Proof.
  intros Hn Hg Hf H. unfold py_class_of in H.
  apply mbind_ok in H as (a & s1 & _ & H). apply mbind_ok in H as (b & s2 & _ & H).
  apply mbind_ok in H as (c & s3 & _ & H). apply mbind_ok in H as (config & s4 & _ & H).
  apply mbind_ok in H as (ms & s5 & Hm & H). inv_ret H. cbn [py_decl_ok]. rewrite Hn, Hg. cbn [andb].
  apply (c15_Forall2_forallb (fun f m => c15_py_field_ok f = true -> py_member_ok m = true)
           c15_py_field_ok _ (sfields rs) ms); [|auto|exact Hf].
  eapply mmapM_Forall2; [|exact Hm]. intros f s0 m s0' Hx Hs. exact (py_member_ok_ir _ _ _ _ _ Hs Hx).
Qed.

Lemma py_inner_ok_ir e vs st ds st' :
  plain (renamed (eid e)) = true -> forallb plain (egenerics e) = true -> forallb c15_py_variant_ok vs = true ->
  py_inner_classes_of uc cfg e vs st = Ok (ds, st') -> forallb py_decl_ok ds = true.
Proof.
  intros Hn Hg. revert st ds st'. induction vs as [|v r IH]; intros st ds st' Hv H.
  - cbn in H. inv_ret H. reflexivity.
  - cbn [forallb] in Hv. apply andb_true_iff in Hv as [Hv Hr].
    destruct v as [vsh|t vsh|fs vsh]; cbn [py_inner_classes_of] in H.
    + eapply IH; eauto.
    + eapply IH; eauto.
    + apply mbind_ok in H as (c & s1 & Hc & H). apply mbind_ok in H as (cs & s2 & Hcs & H). inv_ret H.
      cbn [forallb]. rewrite (IH _ _ _ Hr Hcs), andb_true_r.
      unfold c15_py_variant_ok in Hv. cbn [variant_shared] in Hv. c15_split_andb.
      eapply py_class_ok_ir; [| | |exact Hc]; cbn [anon_struct sid renamed sgenerics sfields].
      * unfold py_anonymous_struct_name. rewrite !c15_plain_app, Hn, (py_keychars_plain (original (vid vsh))) by assumption. reflexivity.
      * now apply c15_anon_generics_plain.
      * assumption.
Qed.

Lemma py_variant_ok_ir enum_name tn sh v st x st' :
  plain enum_name = true -> plain tn = true -> c15_py_variant_ok v = true -> plain (renamed (eid sh)) = true ->
  py_variant_of uc cfg enum_name tn sh v st = Ok (x, st') -> py_variant_ok x = true.
Proof.
  intros Hn Htn Hv Hsh H. unfold c15_py_variant_ok in Hv. c15_split_andb.
  assert (Ecls : plain (enum_name ++ original (vid (variant_shared v))) = true).
  { rewrite c15_plain_app, Hn. now apply py_keychars_plain. }
  pose proof (py_type_key_plain v ltac:(assumption)) as Ekey.
  destruct v as [vsh|t vsh|fs vsh]; cbn [py_variant_of variant_shared] in *.
  - apply mbind_ok in H as (w & r1 & _ & H). inv_ret H. unfold py_variant_ok.
    cbn [pyv_class pyv_types pyv_type_key pyv_content py_content_ok variant_shared]. now rewrite Ecls, Htn, Ekey.
  - apply mbind_ok in H as (ty & r1 & Hty & H). apply mbind_ok in H as (w2 & r2 & _ & H). inv_ret H. unfold py_variant_ok.
    cbn [pyv_class pyv_types pyv_type_key pyv_content py_content_ok variant_shared]. rewrite Ecls, Htn, Ekey. cbn [andb].
    eapply py_texp_plain; eauto.
  - apply mbind_ok in H as (w & r1 & _ & H). inv_ret H. unfold py_variant_ok.
    cbn [pyv_class pyv_types pyv_type_key pyv_content py_content_ok variant_shared]. rewrite Ecls, Htn, Ekey. cbn [andb].
    unfold py_anonymous_struct_name. rewrite !c15_plain_app, Hsh, (py_keychars_plain (original (vid vsh))) by assumption. reflexivity.
Qed.

Theorem py_decl_ok_ir it st ds st' : c15_py_item_ok it = true ->
  py_decl_of uc cfg it st = Ok (ds, st') -> forallb py_decl_ok ds = true.
Proof.
  destruct it as [s|e|a|c]; cbn [c15_py_item_ok py_decl_of]; intros Hs H; c15_split_andb.
  - apply mbind_ok in H as (d & s1 & Hd & H). inv_ret H. cbn [forallb]. rewrite andb_true_r. eapply py_class_ok_ir; eauto.
  - apply mbind_ok in H as (inners & s1 & Hi & H).
    match goal with Hv : forallb c15_py_variant_ok _ = true |- _ => rename Hv into Hvs end.
    pose proof (py_inner_ok_ir _ _ _ _ _ ltac:(eassumption) ltac:(eassumption) Hvs Hi) as Hin.
    destruct e as [sh|tag content sh]; cbn [enum_shared] in *.
    + apply mbind_ok in H as (u & s2 & _ & H). apply mbind_ok in H as (vs & s3 & Hv & H). inv_ret H.
      rewrite forallb_app, Hin. cbn [forallb py_decl_ok andb]. rewrite andb_true_r.
      apply andb_true_iff; split; [assumption|].
      apply (c15_Forall2_forallb (fun v x => c15_py_variant_ok v = true -> py_unit_ok x = true)
               c15_py_variant_ok _ (evariants sh) vs); [|auto|exact Hvs].
      eapply mmapM_Forall2; [|exact Hv]. intros v s0 x s0' Hx Hok.
      destruct v as [vsh|t vsh|fs vsh]; cbn [py_unit_variant_of] in Hx; try discriminate. inv_ret Hx.
      unfold c15_py_variant_ok in Hok. cbn [variant_shared] in Hok. c15_split_andb.
      unfold py_unit_ok. cbn [fst snd]. rewrite py_upper_plain by assumption. now apply py_key_ok_raw.
    + c15_split_andb. apply mbind_ok in H as (d & s2 & Hd & H). inv_ret H.
      rewrite forallb_app, Hin. cbn [forallb andb]. rewrite andb_true_r.
      unfold py_algebraic_of in Hd.
      apply mbind_ok in Hd as (u1 & t1 & _ & Hd). apply mbind_ok in Hd as (u2 & t2 & _ & Hd).
      apply mbind_ok in Hd as (u3 & t3 & _ & Hd). apply mbind_ok in Hd as (vs & t4 & Hv & Hd).
      apply mbind_ok in Hd as (u5 & t5 & _ & Hd). inv_ret Hd. cbn [py_decl_ok].
      assert (Ern : plain (renamed (eid sh)) = true) by assumption.
      assert (Etn : plain (renamed (eid sh) ++ lit "Types") = true) by (now rewrite c15_plain_app, Ern).
      repeat (apply andb_true_iff; split); try assumption.
      * rewrite c15_forallb_map. revert Hvs. apply py_forallb_impl. intros v Hok.
        unfold c15_py_variant_ok in Hok. c15_split_andb. unfold py_entry_ok. cbn [fst snd].
        rewrite py_type_key_plain by assumption. now apply py_key_ok_raw.
      * apply (c15_Forall2_forallb (fun v x => c15_py_variant_ok v = true -> py_variant_ok x = true)
                 c15_py_variant_ok _ (evariants sh) vs); [|auto|exact Hvs].
        eapply mmapM_Forall2; [|exact Hv]. intros v s0 x s0' Hx Hok.
        eapply py_variant_ok_ir; [| | | |exact Hx]; assumption.
  - apply mbind_ok in H as (ty & s1 & Hty & H). apply mbind_ok in H as (utv & stv & _ & H). inv_ret H. cbn [forallb py_decl_ok]. rewrite andb_true_r.
    repeat (apply andb_true_iff; split); try assumption. eapply py_texp_plain; eauto.
  - apply mbind_ok in H as (ty & s1 & Hty & H). inv_ret H. cbn [forallb py_decl_ok]. rewrite andb_true_r.
    repeat (apply andb_true_iff; split).
    + apply py_identchars_plain, (Proofs.C10_TSFile.to_uppercase_ident uc Huc). unfold to_snake_case.
      apply Proofs.C10_TSFile.snake_go_ident. assumption.
    + eapply py_texp_plain; eauto.
    + apply c15_plain_dec_of_Z.
Qed.

(* one item through write_struct / write_enum (helper classes first) / write_type_alias / write_const, any printer state *)
Theorem pyn_item_decomp it st text st' : c15_py_item_ok it = true ->
  py_write_item uc cfg it st = Ok (text, st') -> DP text (c15_py_item_sites it).
Proof.
  unfold py_write_item. intros Hs H. apply mbind_ok in H as (ds & s1 & Hd & H). inv_ret H.
  rewrite <- (py_decl_sites_ir _ _ _ _ _ _ Hd). pose proof (py_decl_ok_ir _ _ _ _ Hs Hd) as Hok.
  apply Decomp_concat_map. intros d Hin. apply pyn_decl_decomp. rewrite forallb_forall in Hok. now apply Hok.
Qed.

Theorem C15_py_item it st text st' : c15_py_item_ok it = true ->
  py_write_item uc cfg it st = Ok (text, st') ->
  exists parts,
    text = text_of (c15_file_pieces C15py parts) /\
    docs_of (c15_file_pieces C15py parts) = map (c15_site_text C15py) (c15_py_item_sites it) /\
    c15_contained C15py LCode (mark (c15_file_pieces C15py parts)) = forallb (c15_site_ok C15py) (c15_py_item_sites it).
Proof. intros Hs H. exact (Decomp_contained _ _ _ (pyn_item_decomp _ _ _ _ Hs H)). Qed.
End PYStrict.

(* ---- parsed items: doc strings free of line breaks.  Only the `# ` lines (the doc of an algebraic enum) can fail
   to be contained; the docstring sites are safe whatever the string is (C15_py_escape_safe) ---- *)
Lemma py_sites_ok_true ds : forallb (c15_site_ok C15py) (c15_sites true ds) = true.
Proof.
  unfold c15_sites. rewrite c15_forallb_map. apply c15_forallb_true. intros d. apply c15_safe_py_docstring.
Qed.
Lemma py_sites_ok_false ds : Forall c15_line_free ds -> forallb (c15_site_ok C15py) (c15_sites false ds) = true.
Proof.
  intros H. unfold c15_sites. rewrite c15_forallb_map. apply forallb_forall. intros d Hd. unfold c15_site_ok. cbn [fst snd].
  apply c15_safe_no_break. rewrite Forall_forall in H. exact (H d Hd).
Qed.

Lemma py_item_sites_ok it : Forall c15_line_free (c15_item_docs it) ->
  forallb (c15_site_ok C15py) (c15_py_item_sites it) = true.
Proof.
  intros H. destruct it as [s|e|a|c]; cbn [c15_py_item_sites]; try apply py_sites_ok_true.
  rewrite forallb_app, py_sites_ok_true. cbn [andb].
  destruct e as [sh|tag content sh]; cbn [enum_shared]; [apply py_sites_ok_true|].
  rewrite forallb_app, py_sites_ok_true. cbn [andb]. apply py_sites_ok_false.
  cbn [c15_item_docs enum_shared] in H. apply Forall_app in H as [H _]. exact H.
Qed.

Theorem C15_py_item_line_free (uc : unicode) (cfg : py_config) :
  unicode_ok uc -> c15_mappings_plain C15py (py_type_mappings cfg) = true ->
  forall it st text st', c15_py_item_ok it = true -> Forall c15_line_free (c15_item_docs it) ->
  py_write_item uc cfg it st = Ok (text, st') ->
  exists parts,
    text = text_of (c15_file_pieces C15py parts) /\
    docs_of (c15_file_pieces C15py parts) = map (c15_site_text C15py) (c15_py_item_sites it) /\
    c15_contained C15py LCode (mark (c15_file_pieces C15py parts)) = true.
Proof.
  intros Huc Hm it st text st' Hs Hd H. destruct (C15_py_item uc Huc cfg Hm it st text st' Hs H) as (ps & Ht & Hdocs & Hc).
  exists ps. repeat split; auto. rewrite Hc. now apply py_item_sites_ok.
Qed.

(* non-vacuity: the tagged enum of Proofs/C15_Kotlin.v (a unit variant, a tuple variant with wire name `b-b`, a struct
   variant whose field has the dashed key `x-y`, hence a helper class with Field(alias="x-y"); doc strings with comment
   openers, three double quotes, single quotes, backslashes, `#`) and a generic struct are in the class; the text
   printed for the enum by the executable tables reproduces every doc string as written and is contained *)
Example C15_py_item_nonvacuous :
  forallb c15_py_item_ok [c15_ktnv_enum; c15_ktnv_struct] = true /\
  c15_mappings_plain C15py (py_type_mappings c15_py_cfg) = true /\
  match py_decl_of uc_exec c15_py_cfg c15_ktnv_enum py_empty_state with
  | Ok (ds, _) => forallb py_decl_ok ds && negb (Nat.leb (List.length ds) 1)
  | _ => false
  end = true /\
  match py_write_item uc_exec c15_py_cfg c15_ktnv_enum py_empty_state with
  | Ok (text, _) => good_C15 C15py (map (c15_site_text C15py) (c15_py_item_sites c15_ktnv_enum)) text
  | _ => false
  end = true.
Proof. repeat split; vm_compute; reflexivity. Qed.

(* the statements in the argument order of Props/C15.v *)
Theorem C15_py_item_stmt (uc : unicode) (cfg : py_config) :
  unicode_ok uc -> c15_mappings_plain C15py (py_type_mappings cfg) = true ->
  forall it st text st', c15_py_item_ok it = true ->
  py_write_item uc cfg it st = Ok (text, st') ->
  exists parts,
    text = text_of (c15_file_pieces C15py parts) /\
    docs_of (c15_file_pieces C15py parts) = map (c15_site_text C15py) (c15_py_item_sites it) /\
    c15_contained C15py LCode (mark (c15_file_pieces C15py parts)) = forallb (c15_site_ok C15py) (c15_py_item_sites it).
Proof. intros Huc Hm. exact (C15_py_item uc Huc cfg Hm). Qed.

(* the other item kinds: a unit enum (wire name with a dash), a generic alias, a constant and the generic struct are in
   the class as well, every one is written, and the printed text reproduces every doc string and is contained *)
Definition c15_pynv_unit : ritem :=
  ItEnum (EUnit {| eid := c15_ktnv_id "Color" "Color"; egenerics := []; ecomments := [c15_doc_nasty_line];
                   evariants := [VUnit (c15_ktnv_vsh "Red" "red" [c15_doc_nasty_line]);
                                 VUnit (c15_ktnv_vsh "DarkBlue" "dark-blue" [lit "second"])];
                   edecs := []; erecursive := false; eredacted := false |}).
Definition c15_pynv_alias : ritem :=
  ItAlias {| aid := c15_ktnv_id "Al" "Al"; agenerics := [lit "T"]; atype := RVec (RSimple (lit "T"));
             acomments := [c15_doc_nasty_line]; adecs := []; aredacted := false |}.
Definition c15_pynv_const : ritem := ItConst {| cid := c15_ktnv_id "maxLen" "maxLen"; ctype := RPrim PU32; cvalue := Zneg 12 |}.
Definition c15_pynv_good (it : ritem) : bool :=
  match py_write_item uc_exec c15_py_cfg it py_empty_state with
  | Ok (text, _) => negb (Nat.eqb (List.length text) 0) && good_C15 C15py (map (c15_site_text C15py) (c15_py_item_sites it)) text
  | _ => false
  end.
Example C15_py_item_kinds_nonvacuous :
  forallb c15_py_item_ok [c15_pynv_unit; c15_pynv_alias; c15_pynv_const; c15_ktnv_struct] = true /\
  forallb c15_pynv_good [c15_pynv_unit; c15_pynv_alias; c15_pynv_const; c15_ktnv_struct] = true.
Proof. split; vm_compute; reflexivity. Qed.
