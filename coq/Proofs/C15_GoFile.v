(* C15 for Go, WHOLE FILES (go_generate: version header, package clause, the import block collected while the
   items are printed, the items in topological order with the printer state threaded through them), without the
   neutrality hypothesis.  On top of Proofs/C15_GoItem.v:
   - the version header line IS a `// ` fragment (its doc string is the line typeshare writes itself);
   - the printer state (the import set) only ever receives "encoding/json" and "time": whatever the items are, every
     import is free of double quotes, backslashes and line feeds, so the import block is neutral code;
   - the items, one after the other, by C15_GoItem.gon_item_decomp. *)
From Coq Require Import List NArith Bool Lia ZifyBool ZifyN String Permutation.
From TS Require Import Model.Str Model.Outcome Model.Unicode Model.Types Model.Parse Model.Rename
                       Model.TopsortAlgo Model.Topsort Model.Lang.Common Model.Lang.Decl Model.Lang.Go.
From TS Require Import Spec.Lexers Spec.C15Spec Spec.C15Render Spec.C15RenderGo.
From TS Require Import Proofs.BackCommon Proofs.C10Monad Proofs.C15 Proofs.C15_Render Proofs.C15_Go Proofs.C15_GoItem.
From TS Require Proofs.C10_TSFile.
Import ListNotations.
Local Open Scope N_scope.

Notation NG := (c15_neutral C15go).
Notation DG := (Decomp C15go NG).

(* ---- the import set: strings that may be printed verbatim between double quotes ---- *)
Definition go_imp_char (c : char) : bool := negb (c =? ch_dq) && negb (c =? ch_bs) && negb (c =? ch_nl).
Definition go_imp_ok (s : str) : bool := forallb go_imp_char s.
Definition go_inv (s : go_state) : Prop := forallb go_imp_ok s = true.
Notation gp := (post go_inv (fun _ => True)).

Lemma go_sset_insert_ok x l : go_imp_ok x = true -> go_inv l -> go_inv (sset_insert x l).
Proof.
  unfold go_inv. intros Hx. induction l as [|y r IH]; cbn [sset_insert forallb]; [now rewrite Hx|].
  rewrite andb_true_iff. intros [H1 H2].
  destruct (str_eqb x y); [cbn [forallb]; now rewrite H1, H2|].
  destruct (str_ltb x y); cbn [forallb]; [now rewrite Hx, H1, H2|]. now rewrite H1, (IH H2).
Qed.

Lemma go_imp_lex i : go_imp_ok i = true -> lex_str_gen cfg_go (LStr ch_dq false) i = LStr ch_dq false.
Proof.
  unfold go_imp_ok. induction i as [|c r IH]; intros H; [reflexivity|].
  cbn [forallb] in H. apply andb_true_iff in H as [Hc Hr].
  cbn [lex_str_gen fold_left lex_gen lex_quoted cfg_go lc_eol]. unfold go_imp_char, ch_dq, ch_bs, ch_nl in Hc.
  unfold ch_bs, ch_dq, eol_lf, ch_nl.
  replace (c =? 92) with false by lia. replace ((c =? 34) || (c =? 10)) with false by lia. now apply IH.
Qed.

Lemma go_import_quoted_neutral pre i post :
  lex_str_gen cfg_go LCode pre = LStr ch_dq false -> go_imp_ok i = true -> lex_str_gen cfg_go (LStr ch_dq false) post = LCode ->
  NG (pre ++ i ++ post).
Proof.
  intros Hp Hi Hq. unfold c15_neutral. change (c15_cfg C15go) with cfg_go. now rewrite !lex_str_app, Hp, (go_imp_lex i Hi), Hq.
Qed.

Lemma go_imports_neutral imports : go_inv imports -> NG (go_write_all_imports imports).
Proof.
  unfold go_inv. intros H. unfold go_write_all_imports. destruct imports as [|i0 [|i1 r]]; [reflexivity| |].
  - cbn [forallb] in H. rewrite andb_true_r in H.
    replace (lit "import """ ++ i0 ++ lit """" ++ go_nl ++ go_nl) with (lit "import """ ++ i0 ++ (lit """" ++ go_nl ++ go_nl)) by reflexivity.
    apply go_import_quoted_neutral; [reflexivity|exact H|reflexivity].
  - generalize dependent (i0 :: i1 :: r). intros l H.
    apply c15_neutral_app; [vm_compute; reflexivity|]. apply c15_neutral_app; [vm_compute; reflexivity|].
    apply c15_neutral_app; [|vm_compute; reflexivity].
    apply c15_neutral_flat_map. intros i Hi. rewrite forallb_forall in H.
    replace ([ch_tab] ++ lit """" ++ i ++ lit """" ++ go_nl) with (([ch_tab] ++ lit """") ++ i ++ (lit """" ++ go_nl)) by reflexivity.
    apply go_import_quoted_neutral; [reflexivity|exact (H i Hi)|reflexivity].
Qed.

(* ---- the printer state keeps the invariant, whatever is printed ---- *)
Lemma Forall_True {A} (l : list A) : Forall (fun _ => True) l.
Proof. induction l; constructor; auto. Qed.

Lemma gp_lift {A} (o : outcome A) : gp (go_lift o).
Proof. intros s y s' H Hs. unfold go_lift in H. destruct o; try discriminate. injection H as _ <-. auto. Qed.

Lemma gp_add_import name : go_imp_ok name = true -> gp (go_add_import name).
Proof.
  intros Hn s y s' H Hs. unfold go_add_import in H. apply mbind_ok in H as (st & s1 & Hg & H).
  unfold mget in Hg. injection Hg as <- <-. unfold mput in H. injection H as _ <-. split; [exact I|].
  now apply go_sset_insert_ok.
Qed.

Lemma gp_mmapM {A B} (f : A -> M go_state B) l : (forall x, gp (f x)) -> gp (mmapM f l).
Proof.
  intros Hf. eapply post_weaken; [|apply (post_mmapM go_inv f (fun _ => True) (fun _ => True)); [intros x _; apply Hf|apply Forall_True]].
  intros; exact I.
Qed.

Ltac gp_step :=
  match goal with
  | |- post _ _ (ret _) => apply post_ret; exact I
  | |- post _ _ (mpanic _) => apply post_mpanic
  | |- post _ _ (go_lift _) => apply gp_lift
  | |- post _ _ (mbind _ _) => eapply (post_bind go_inv (fun _ => True)); [|intros ? _]
  | |- post _ _ (match ?x with _ => _ end) => destruct x
  end.

Section GOState.
Variable uc : unicode.
Variable cfg : go_config.

Lemma gp_acr name : gp (go_acronyms_to_uppercase uc cfg name).
Proof. apply gp_lift. Qed.

Lemma gp_texp g t : gp (go_texp cfg g t).
Proof.
  induction t as [id|id ps IH|t IH|t n IH|t IH|k v IHk IHv|t IH|p] using rtype_ind'; cbn [go_texp].
  - apply post_ret. exact I.
  - destruct (tmap_get (go_type_mappings cfg) id); [apply post_ret; exact I|].
    rewrite c15_go_is_mmapM. eapply post_bind; [|intros ? _; apply post_ret; exact I].
    eapply post_weaken; [|apply (post_mmapM go_inv (go_texp cfg g) (fun t => gp (go_texp cfg g t)) (fun _ => True)); [auto|exact IH]].
    intros; exact I.
  - destruct (tmap_get (go_type_mappings cfg) _); repeat first [gp_step | exact IH].
  - destruct (tmap_get (go_type_mappings cfg) _); repeat first [gp_step | exact IH].
  - destruct (tmap_get (go_type_mappings cfg) _); repeat first [gp_step | exact IH].
  - destruct (tmap_get (go_type_mappings cfg) _); repeat first [gp_step | exact IHk | exact IHv].
  - destruct (tmap_get (go_type_mappings cfg) _); repeat first [gp_step | exact IH].
  - destruct (tmap_get (go_type_mappings cfg) _); [apply post_ret; exact I|].
    destruct p; repeat first [gp_step | apply gp_add_import; reflexivity].
Qed.

Lemma gp_acr_ty t : gp (go_acronyms_ty uc cfg t).
Proof. unfold go_acronyms_ty. repeat first [gp_step | apply gp_acr]. Qed.

Lemma gp_member gs f : gp (go_member_of uc cfg gs f).
Proof. unfold go_member_of, go_format_field_name. repeat first [gp_step | apply gp_acr | apply gp_texp | apply gp_acr_ty]. Qed.

Lemma gp_struct rs : gp (go_struct_decl_of uc cfg rs).
Proof. unfold go_struct_decl_of. repeat first [gp_step | apply gp_acr | apply gp_mmapM; intros; apply gp_member]. Qed.

Lemma gp_anon sh : gp (go_anonymous_struct_decls uc cfg sh).
Proof.
  unfold go_anonymous_struct_decls, go_make_anonymous_struct_name.
  eapply post_bind; [|intros ? _; apply post_ret; exact I]. apply gp_mmapM. intros v.
  repeat first [gp_step | apply gp_acr | apply gp_struct].
Qed.

Lemma gp_unit_variant sh v : gp (go_unit_variant_of uc cfg sh v).
Proof. unfold go_unit_variant_of. repeat first [gp_step | apply gp_acr]. Qed.

Lemma gp_variant sh cs sn tag v : gp (go_variant_of uc cfg sh cs sn tag v).
Proof.
  unfold go_variant_of, go_make_anonymous_struct_name, go_format_field_name.
  repeat first [gp_step | apply gp_acr | apply gp_texp | apply gp_acr_ty].
Qed.

Lemma gp_decl cs it : gp (go_decl_of uc cfg cs it).
Proof.
  destruct it as [rs|e|a|c]; cbn [go_decl_of].
  - repeat first [gp_step | apply gp_struct].
  - unfold go_enum_decls_of, go_format_field_name. eapply post_bind; [apply gp_anon|intros ? _].
    destruct e as [sh|tag content sh]; cbn [enum_shared];
      repeat first [gp_step | apply gp_acr | apply gp_mmapM; intros; first [apply gp_unit_variant | apply gp_variant]].
  - repeat first [gp_step | apply gp_acr | apply gp_texp].
  - repeat first [gp_step | apply gp_texp].
Qed.

Lemma gp_write_item cs it : gp (go_write_item uc cfg cs it).
Proof. unfold go_write_item. repeat first [gp_step | apply gp_decl]. Qed.
End GOState.

(* ---- whole files ---- *)
Section GOFile.
Variable uc : unicode.
Hypothesis Huc : unicode_ok uc.
Variable cfg : go_config.
Hypothesis Hmap : c15_go_mappings_ok (go_type_mappings cfg) = true.
Hypothesis Hacr : forallb (forallb is_ascii) (go_uppercase_acronyms cfg) = true.
Hypothesis Hpkg : c15_plain C15go (go_package cfg) = true.

(* the line typeshare writes at the top of the file *)
Definition c15_go_header_docs : list str :=
  if go_no_version_header cfg then [] else [lit "Code generated by typeshare " ++ go_version cfg ++ lit ". DO NOT EDIT."].

Lemma go_items_decomp cs items : forall s texts s',
  forallb c15_go_item_ok items = true ->
  mmapM (go_write_item uc cfg cs) items s = Ok (texts, s') -> go_inv s ->
  DG (List.concat texts) (c15_sites false (flat_map c15_item_docs_helpers_first items)) /\ go_inv s'.
Proof.
  induction items as [|it r IH]; intros s texts s' Hp H Hs; cbn [mmapM] in H.
  - unfold ret in H. injection H as <- <-. split; [apply Decomp_nil|exact Hs].
  - cbn [forallb] in Hp. apply andb_true_iff in Hp as [Hp1 Hp2].
    apply mbind_ok in H as (t & s1 & Ht & H). apply mbind_ok in H as (ts & s2 & Hts & H).
    unfold ret in H. injection H as <- <-.
    destruct (gp_write_item uc cfg cs it _ _ _ Ht Hs) as [_ Hs1].
    destruct (IH _ _ _ Hp2 Hts Hs1) as [HD Hs2]. split; [|exact Hs2].
    cbn [List.concat flat_map]. unfold c15_sites. rewrite map_app. apply Decomp_app; [|exact HD].
    exact (gon_item_decomp uc Huc cfg Hmap Hacr _ _ _ _ _ Hp1 Ht).
Qed.

Lemma go_header_decomp s header s' : go_begin_file cfg s = Ok (header, s') -> go_inv s ->
  DG header (c15_sites false c15_go_header_docs) /\ go_inv s'.
Proof.
  unfold go_begin_file, c15_go_header_docs. intros H Hs. apply mbind_ok in H as (u & s0 & Ha & H).
  unfold ret in H. injection H as <- <-.
  destruct (gp_add_import (lit "encoding/json") eq_refl _ _ _ Ha Hs) as [_ Hs0]. split; [|exact Hs0].
  assert (Hp : DG (lit "package " ++ go_package cfg ++ go_nl ++ go_nl) []).
  { apply Decomp_code. apply c15_neutral_app; [vm_compute; reflexivity|].
    apply c15_neutral_app; [now apply c15_neutral_plain|vm_compute; reflexivity]. }
  destruct (go_no_version_header cfg).
  - exact Hp.
  - rewrite <- (app_nil_r (c15_sites false _)). apply Decomp_app; [|exact Hp].
    eapply Decomp_text; [apply (go_comments_decomp NG 0)|].
    unfold go_write_comments, go_write_comment. cbn [flat_map go_tabs repeat_str app]. rewrite app_nil_r, <- !app_assoc. reflexivity.
Qed.

Theorem go_file_decomp pd text :
  forallb c15_go_item_ok (items_of pd) = true ->
  go_generate uc cfg pd = Ok text ->
  exists items,
    topsort (items_of pd) = Ok items /\ Permutation items (items_of pd) /\
    DG text (c15_sites false (c15_go_header_docs ++ flat_map c15_item_docs_helpers_first items)).
Proof.
  intros Hp H. unfold go_generate in H. apply c15_bind_ok in H as (items & Hitems & H).
  pose proof (Proofs.C10_TSFile.topsort_ok_perm _ _ Hitems) as Hperm.
  rewrite <- (c15_forallb_perm _ _ _ Hperm) in Hp.
  set (cs := go_types_mapping_to_struct items) in *.
  match type of H with match ?run _ with _ => _ end = _ => destruct (run []) as [[out sfin]| |] eqn:Er; try discriminate end.
  injection H as <-.
  apply mbind_ok in Er as (header & s1 & Hh & Er). apply mbind_ok in Er as (body & s2 & Hb & Er).
  apply mbind_ok in Er as (imports & s3 & Hi & Er). unfold mget in Hi. injection Hi as <- <-. unfold ret in Er. injection Er as <- _.
  destruct (go_header_decomp _ _ _ Hh eq_refl) as [Dh Hs1].
  unfold mconcat in Hb. apply mbind_ok in Hb as (parts & s4 & Hparts & Hb). unfold ret in Hb. injection Hb as <- <-.
  destruct (go_items_decomp cs items _ _ _ Hp Hparts Hs1) as [Db Hs4].
  exists items. repeat split; auto.
  unfold c15_sites. rewrite map_app. apply Decomp_app; [exact Dh|].
  rewrite <- (app_nil_l (map _ (flat_map _ _))). apply Decomp_app; [|exact Db].
  apply Decomp_code. now apply go_imports_neutral.
Qed.

Theorem C15_go_file pd text :
  forallb c15_go_item_ok (items_of pd) = true ->
  go_generate uc cfg pd = Ok text ->
  exists items parts,
    topsort (items_of pd) = Ok items /\ Permutation items (items_of pd) /\
    text = text_of (c15_file_pieces C15go parts) /\
    docs_of (c15_file_pieces C15go parts) = c15_go_header_docs ++ flat_map c15_item_docs_helpers_first items /\
    c15_contained C15go LCode (mark (c15_file_pieces C15go parts)) =
    forallb safe_go (c15_go_header_docs ++ flat_map c15_item_docs_helpers_first items).
Proof.
  intros Hp H. destruct (go_file_decomp _ _ Hp H) as (items & Ht & Hperm & HD).
  destruct (Decomp_contained _ _ _ HD) as (ps & Htext & Hd & Hc).
  exists items, ps. rewrite c15_sites_text_line in Hd by discriminate. rewrite c15_sites_ok_false in Hc by discriminate.
  repeat split; auto.
Qed.

(* parsed programs: doc strings free of line breaks; a version string without a line feed *)
Lemma go_item_safe it : c15_go_item_ok it = true -> Forall Proofs.C15_Front.c15_line_free (c15_item_docs it) ->
  forallb safe_go (c15_item_docs_helpers_first it) = true.
Proof.
  intros Hs Hd. rewrite c15_helpers_first_safe. change safe_go with (c15_safe C15go false).
  rewrite (Proofs.C15_Front.c15_line_free_forallb _ (go_generated_free _ Hs) C15go false).
  exact (Proofs.C15_Front.c15_line_free_forallb _ Hd C15go false).
Qed.

Theorem C15_go_file_line_free pd text :
  forallb c15_go_item_ok (items_of pd) = true ->
  Forall (fun d => safe_line eol_lf_cr d = true) (flat_map c15_item_docs (items_of pd)) ->
  safe_go (go_version cfg) = true ->
  go_generate uc cfg pd = Ok text ->
  exists items parts,
    topsort (items_of pd) = Ok items /\ Permutation items (items_of pd) /\
    text = text_of (c15_file_pieces C15go parts) /\
    docs_of (c15_file_pieces C15go parts) = c15_go_header_docs ++ flat_map c15_item_docs_helpers_first items /\
    c15_contained C15go LCode (mark (c15_file_pieces C15go parts)) = true.
Proof.
  intros Hp Hfree Hv H. destruct (C15_go_file _ _ Hp H) as (items & ps & Ht & Hperm & Htext & Hd & Hc).
  exists items, ps. repeat split; auto. rewrite Hc, forallb_app. apply andb_true_iff. split.
  - unfold c15_go_header_docs. destruct (go_no_version_header cfg); [reflexivity|]. cbn [forallb]. rewrite andb_true_r.
    unfold safe_go, safe_line in *. now rewrite !forallb_app, Hv.
  - apply forallb_forall. intros d Hd'. apply in_flat_map in Hd' as (it & Hit & Hd').
    pose proof (Permutation_in _ Hperm Hit) as Hin.
    assert (Hok : c15_go_item_ok it = true) by (rewrite forallb_forall in Hp; now apply Hp).
    assert (Hfr : Forall Proofs.C15_Front.c15_line_free (c15_item_docs it)).
    { apply Forall_forall. intros x Hx. rewrite Forall_forall in Hfree. apply Hfree. apply in_flat_map. eauto. }
    pose proof (go_item_safe it Hok Hfr) as Hs. rewrite forallb_forall in Hs. now apply Hs.
Qed.
End GOFile.

(* non-vacuity for whole files: a version header, a type mapping, acronyms, a struct with a DateTime field (so that the
   import set has two entries and the parenthesised import block is printed), the tagged enum of C15_go_item_nonvacuous *)
Definition c15_gonv_file_cfg : go_config :=
  {| go_package := lit "proto"; go_type_mappings := [(lit "Url", lit "string")]; go_uppercase_acronyms := [lit "id"; lit "url"];
     go_no_pointer_slice := false; go_no_version_header := false; go_version := lit "1.13.2" |}.
Definition c15_gonv_pd : parsed :=
  {| p_structs := [ {| sid := c15_gonv_id "Foo" "Foo"; sgenerics := [];
                       sfields := [c15_gonv_field "when" "when" (RPrim PDateTime) [c15_doc_nasty_line];
                                   c15_gonv_field "site_url" "site-url" (ROption (RSimple (lit "Url"))) [lit "mapped doc"]];
                       scomments := [lit "a struct doc"]; sdecs := []; sredacted := false |} ];
     p_enums := [ match c15_gonv_enum with
                  | ItEnum e => e
                  | _ => EUnit {| eid := c15_gonv_id "X" "X"; egenerics := []; ecomments := []; evariants := [];
                                  edecs := []; erecursive := false; eredacted := false |}
                  end ];
     p_aliases := []; p_consts := []; p_type_names := [lit "Foo"; lit "Event"]; p_errors := []; p_imports := [] |}.
Example C15_go_file_nonvacuous :
  c15_go_mappings_ok (go_type_mappings c15_gonv_file_cfg) = true /\
  forallb (forallb is_ascii) (go_uppercase_acronyms c15_gonv_file_cfg) = true /\
  c15_plain C15go (go_package c15_gonv_file_cfg) = true /\
  forallb c15_go_item_ok (items_of c15_gonv_pd) = true /\
  safe_go (go_version c15_gonv_file_cfg) = true /\
  match go_generate uc_exec c15_gonv_file_cfg c15_gonv_pd with
  | Ok text => good_C15 C15go (c15_go_header_docs c15_gonv_file_cfg ++
                               flat_map c15_item_docs_helpers_first (items_of c15_gonv_pd)) text &&
               contains_sub (lit "// Code generated by typeshare 1.13.2. DO NOT EDIT.") text &&
               contains_sub ([ch_tab] ++ lit """encoding/json""" ++ [ch_nl; ch_tab] ++ lit """time""") text &&
               contains_sub (lit "SiteURL *string `json:""site-url,omitempty""`") text
  | _ => false
  end = true.
Proof. repeat split; vm_compute; reflexivity. Qed.
