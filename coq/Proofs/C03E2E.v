(* C03 end to end: from the source file to the generated file's definitions, through parse_file,
   reconcile_crate and ANY back end for which the file-level theorem C03_back_<L> holds:
   the observed definitions pass the verdict computed from the SOURCE (good_C03_src_file).
   Composition of Proofs/C03.v (front), Proofs/C03Src.v (source expectation = IR expectation),
   reconcile preserving signatures (here) and the per-language file theorems (a hypothesis here,
   discharged six times in Props/C03.v). *)
From Coq Require Import String List Bool Arith Lia Permutation.
From TS Require Import Model.Str Model.Outcome Model.Unicode Model.Syntax Model.Attrs Model.TargetOs
                       Model.Rename Model.Types Model.Parse Model.Reconcile Model.Lang.Common Model.Lang.Decl.
From TS Require Import Spec.SerdeCase Spec.C16Spec Spec.Serde Spec.TargetOsRule Spec.C03Spec.
From TS Require Import Proofs.SortLemmas Proofs.FrontAttrs Proofs.FrontItems Proofs.C03 Proofs.C03Back Proofs.C03Src.
Import ListNotations.

(* ---------- the multiset verdict is stable under permutation of the expectation ---------- *)
Lemma perm_b_perm a b a' b' : c03_perm_b a b = true -> Permutation a a' -> Permutation b b' -> c03_perm_b a' b' = true.
Proof.
  intros H Pa Pb. unfold c03_perm_b in *. apply forallb_forall. intros x Hx.
  rewrite <- (count_sig_perm x a a' Pa), <- (count_sig_perm x b b' Pb).
  apply (proj1 (forallb_forall _ _) H).
  apply in_app_or in Hx as [Hx|Hx]; apply in_or_app.
  - left. eapply Permutation_in; [apply Permutation_sym; exact Pa|exact Hx].
  - right. eapply Permutation_in; [apply Permutation_sym; exact Pb|exact Hx].
Qed.

Lemma good_sigs_perm obs exp exp' : good_C03_sigs obs exp = true -> Permutation exp exp' -> good_C03_sigs obs exp' = true.
Proof.
  unfold good_C03_sigs. intros H P. eapply perm_b_perm; [exact H|apply Permutation_refl|now apply Permutation_filter'].
Qed.

Lemma forallb_perm {A} (p : A -> bool) l l' : Permutation l l' -> forallb p l = forallb p l'.
Proof.
  induction 1 as [|x l l' _ IH|x y l|l l' l'' _ IH1 _ IH2]; cbn [forallb]; [reflexivity|now rewrite IH| |congruence].
  destruct (p x), (p y); reflexivity.
Qed.

Lemma forallb_map' {A B} (p : B -> bool) (f : A -> B) l : forallb p (map f l) = forallb (fun x => p (f x)) l.
Proof. induction l as [|x l IH]; cbn [map forallb]; [reflexivity|]. now rewrite IH. Qed.
Lemma existsb_map' {A B} (p : B -> bool) (f : A -> B) l : existsb p (map f l) = existsb (fun x => p (f x)) l.
Proof. induction l as [|x l IH]; cbn [map existsb]; [reflexivity|]. now rewrite IH. Qed.
Lemma forallb_ext'' {A} (p q : A -> bool) l : (forall x, p x = q x) -> forallb p l = forallb q l.
Proof. intros H. induction l as [|x l IH]; cbn [forallb]; [reflexivity|]. now rewrite H, IH. Qed.
Lemma existsb_false_all {A} (f : A -> bool) l : existsb f l = false <-> (forall x, In x l -> f x = false).
Proof.
  induction l as [|a l IH]; cbn [existsb].
  - split; [intros _ x []|reflexivity].
  - rewrite orb_false_iff, IH. split.
    + intros [Ha Hl] x [<-|Hx]; auto.
    + intros H. split; [apply H; now left|intros x Hx; apply H; now right].
Qed.

(* ---------- reconcile_crate keeps every signature ---------- *)
Section Rec.
Variable cn : str.
Variable rn : renames.
Variable im : list imported.

Lemma rc_keys fs : c03_keys_of (map (check_field cn rn im) fs) = c03_keys_of fs.
Proof. unfold c03_keys_of. rewrite map_map. reflexivity. Qed.
Lemma rc_wires vs : c03_wires_of (map (check_variant cn rn im) vs) = c03_wires_of vs.
Proof. unfold c03_wires_of. rewrite map_map. apply map_ext. intros v. destruct v; reflexivity. Qed.
Lemma rc_anon vs : c03_anon_keys (map (check_variant cn rn im) vs) = c03_anon_keys vs.
Proof.
  unfold c03_anon_keys. induction vs as [|v vs IH]; cbn [map flat_map]; [reflexivity|]. rewrite IH.
  destruct v; cbn [check_variant]; try reflexivity. now rewrite rc_keys.
Qed.
Lemma rc_units vs : forallb c03_is_unit_variant (map (check_variant cn rn im) vs) = forallb c03_is_unit_variant vs.
Proof. induction vs as [|v vs IH]; cbn [map forallb]; [reflexivity|]. rewrite IH. destruct v; reflexivity. Qed.

Definition rc_struct (s : rstruct) : rstruct :=
  {| sid := sid s; sgenerics := sgenerics s; sfields := map (check_field cn rn im) (sfields s);
     scomments := scomments s; sdecs := sdecs s; sredacted := sredacted s |}.
Definition rc_enum (e : renum) : renum :=
  match e with
  | EUnit sh => EUnit (check_eshared cn rn im sh)
  | EAlgebraic t c sh => EAlgebraic t c (check_eshared cn rn im sh)
  end.
Definition rc_alias (a : ralias) : ralias :=
  {| aid := aid a; agenerics := agenerics a; atype := check_type cn rn im (atype a);
     acomments := acomments a; adecs := adecs a; aredacted := aredacted a |}.

Lemma exp_rc_struct L s : c03_expected_sigs L (ItStruct (rc_struct s)) = c03_expected_sigs L (ItStruct s).
Proof. cbn [c03_expected_sigs rc_struct sfields]. now rewrite rc_keys. Qed.
Lemma exp_rc_enum L e : c03_expected_sigs L (ItEnum (rc_enum e)) = c03_expected_sigs L (ItEnum e).
Proof. destruct e; cbn [c03_expected_sigs rc_enum enum_shared check_eshared evariants]; now rewrite rc_wires, rc_anon. Qed.
Lemma exp_rc_alias L a : c03_expected_sigs L (ItAlias (rc_alias a)) = c03_expected_sigs L (ItAlias a).
Proof. reflexivity. Qed.
Lemma dom_rc_enum e : dom_C03_item (ItEnum (rc_enum e)) = dom_C03_item (ItEnum e).
Proof. destruct e; cbn [dom_C03_item rc_enum check_eshared evariants]; [apply rc_units|reflexivity]. Qed.
Lemma known_rc_enum uc e : known_C03_item uc Python (ItEnum (rc_enum e)) = known_C03_item uc Python (ItEnum e).
Proof. destruct e; cbn [known_C03_item rc_enum check_eshared evariants]; [reflexivity|now rewrite rc_wires]. Qed.
End Rec.

Lemma part_perm {A} (L : lang) (C : A -> ritem) (key : A -> str) (g : A -> A) (l : list A) :
  (forall x, c03_expected_sigs L (C (g x)) = c03_expected_sigs L (C x)) ->
  Permutation (flat_map (c03_expected_sigs L) (map C (stable_sort key (map g l)))) (flat_map (c03_expected_sigs L) (map C l)).
Proof.
  intros H. transitivity (flat_map (c03_expected_sigs L) (map C (map g l))).
  - apply Permutation_flat_map''. apply Permutation_map. apply stable_sort_perm.
  - induction l as [|x l IH]; cbn [map flat_map]; [constructor|]. rewrite H. now apply Permutation_app_head.
Qed.
Lemma part_perm0 {A} (L : lang) (C : A -> ritem) (key : A -> str) (l : list A) :
  Permutation (flat_map (c03_expected_sigs L) (map C (stable_sort key l))) (flat_map (c03_expected_sigs L) (map C l)).
Proof. apply Permutation_flat_map''. apply Permutation_map. apply stable_sort_perm. Qed.

Lemma part_forallb {A} (p : ritem -> bool) (C : A -> ritem) (key : A -> str) (g : A -> A) (l : list A) :
  (forall x, p (C (g x)) = p (C x)) -> forallb p (map C (stable_sort key (map g l))) = forallb p (map C l).
Proof.
  intros H. rewrite (forallb_perm p _ _ (Permutation_map C (stable_sort_perm _ key (map g l)))).
  rewrite !forallb_map'. apply forallb_ext''. exact H.
Qed.

Lemma is_nil_stable_sort {A} (key : A -> str) l : c03_is_nil (stable_sort key l) = c03_is_nil l.
Proof.
  pose proof (stable_sort_perm _ key l) as P. destruct l as [|x l].
  - reflexivity.
  - destruct (stable_sort key (x :: l)); [|reflexivity]. apply Permutation_nil in P. discriminate.
Qed.

Section RecFile.
Variable cn : str.
Variable rn : renames.

Lemma rec_all_items pd : c03_all_items (reconcile_crate rn cn pd) =
  map ItAlias (stable_sort (fun a => original (aid a)) (map (rc_alias cn rn (p_imports pd)) (p_aliases pd))) ++
  map ItStruct (stable_sort (fun s => original (sid s)) (map (rc_struct cn rn (p_imports pd)) (p_structs pd))) ++
  map ItEnum (stable_sort (fun e => original (eid (enum_shared e))) (map (rc_enum cn rn (p_imports pd)) (p_enums pd))) ++
  map ItConst (stable_sort (fun c => original (cid c)) (map (check_const cn rn (p_imports pd)) (p_consts pd))).
Proof. reflexivity. Qed.

Lemma rec_expected L pd :
  Permutation (flat_map (c03_expected_sigs L) (c03_all_items (reconcile_crate rn cn pd))) (flat_map (c03_expected_sigs L) (c03_all_items pd)).
Proof.
  rewrite rec_all_items. unfold c03_all_items. rewrite !flat_map_app.
  repeat apply Permutation_app.
  - apply part_perm. intros a. apply exp_rc_alias.
  - apply part_perm. intros s. apply exp_rc_struct.
  - apply part_perm. intros e. apply exp_rc_enum.
  - apply part_perm. intros c. reflexivity.
Qed.

Lemma rec_dom pd : dom_C03_file (reconcile_crate rn cn pd) = dom_C03_file pd.
Proof.
  unfold dom_C03_file. rewrite rec_all_items. unfold c03_all_items. rewrite !forallb_app.
  rewrite (part_forallb dom_C03_item ItAlias), (part_forallb dom_C03_item ItStruct), (part_forallb dom_C03_item ItEnum),
          (part_forallb dom_C03_item ItConst).
  - reflexivity.
  - reflexivity.
  - intros e. apply dom_rc_enum.
  - reflexivity.
  - reflexivity.
Qed.

Lemma rec_known uc L pd : known_C03_file uc L (reconcile_crate rn cn pd) = known_C03_file uc L pd.
Proof.
  destruct L; try reflexivity.
  - cbn [known_C03_file reconcile_crate p_consts]. rewrite is_nil_stable_sort. now destruct (p_consts pd).
  - cbn [known_C03_file reconcile_crate p_enums].
    rewrite (existsb_perm _ _ _ _ (stable_sort_perm _ (fun e => original (eid (enum_shared e))) (map (rc_enum cn rn (p_imports pd)) (p_enums pd)))).
    rewrite existsb_map'.
    rewrite (existsb_ext' _ (fun e => match known_C03_item uc Python (ItEnum e) with Some _ => true | None => false end) (p_enums pd));
      [reflexivity|]. intros e. now rewrite known_rc_enum.
Qed.
End RecFile.

(* ---------- from the results of the leaves to the parsed items ---------- *)
Lemma all_ok rs : Forall (fun o : outcome ritem => is_panic o = false) rs -> errs_of rs = [] ->
  Forall2 (fun r it => r = Ok it) rs (oks rs).
Proof.
  induction 1 as [|r rs Hr _ IH]; intros He; [constructor|].
  destruct r as [it|e|s]; [|discriminate|discriminate].
  rewrite oks_cons_ok. constructor; [reflexivity|]. apply IH. exact He.
Qed.

Lemma Forall2_map_l {A B C} (f : A -> B) (R : B -> C -> Prop) l r : Forall2 R (map f l) r -> Forall2 (fun x y => R (f x) y) l r.
Proof.
  revert r. induction l as [|x l IH]; intros r H; inversion H; subst; constructor; auto.
Qed.

Lemma kinds_perm l :
  Permutation (map ItAlias (aliases_of l) ++ map ItStruct (structs_of l) ++ map ItEnum (enums_of l) ++ map ItConst (consts_of l)) l.
Proof.
  induction l as [|x l IH]; [constructor|].
  unfold aliases_of, structs_of, enums_of, consts_of in *. cbn [flat_map].
  destruct x as [s|e|a|c]; cbn [app map].
  - apply Permutation_sym, Permutation_cons_app, Permutation_sym. exact IH.
  - rewrite app_assoc. apply Permutation_sym, Permutation_cons_app, Permutation_sym. rewrite <- app_assoc. exact IH.
  - constructor. exact IH.
  - rewrite !app_assoc. apply Permutation_sym, Permutation_cons_app, Permutation_sym. rewrite <- !app_assoc. exact IH.
Qed.

Lemma in_oks it rs : In it (oks rs) -> In (Ok it) rs.
Proof.
  unfold oks. intros H. apply in_flat_map in H as (r & Hr & Hin). destruct r; try contradiction.
  destruct Hin as [<-|[]]. exact Hr.
Qed.
Lemma in_consts_of c l : In c (consts_of l) -> In (ItConst c) l.
Proof. unfold consts_of. intros H. apply in_flat_map in H as (x & Hx & Hin). destruct x; try contradiction. destruct Hin as [<-|[]]. exact Hx. Qed.
Lemma in_enums_of e l : In e (enums_of l) -> In (ItEnum e) l.
Proof. unfold enums_of. intros H. apply in_flat_map in H as (x & Hx & Hin). destruct x; try contradiction. destruct Hin as [<-|[]]. exact Hx. Qed.

Section E2E.
Variable uc : unicode.
Hypothesis Huc : unicode_ok uc.
Variable tstr : str -> option ty.
Variable T : list str.
Local Notation parse_leaf := (parse_leaf uc tstr T).

Lemma enum_src_facts a i g vs e : dom_C03_src T (IEnum a i g vs) = true -> parse_enum uc tstr T a i g vs = Ok (ItEnum e) ->
  c03_serialized_as a = false /\ c03_wires_of (evariants (enum_shared e)) = c03_src_wires uc T a vs /\
  match e with EAlgebraic _ _ _ => forallb c03_src_is_unit (c03_kept_variants T vs) = false | EUnit _ => True end.
Proof.
  cbn [dom_C03_src]. intros Hd. apply andb_true_iff in Hd as [Hra Hvs]. rewrite (serialized_as_spec uc). unfold parse_enum.
  destruct (get_serialized_as_type uc a).
  - destruct (get_ident _ _ _ _); cbn [bind]; try discriminate. destruct (parse_ty_str _ _); cbn [bind]; discriminate.
  - destruct (mapM _ _) as [variants| |] eqn:Em; cbn [bind]; try discriminate.
    assert (Hkept : filter (fun v => negb (is_skipped T (v_attrs v))) vs = c03_kept_variants T vs).
    { unfold c03_kept_variants. apply filter_ext_Forall. apply forallb_Forall' in Hvs. eapply Forall_impl; [|exact Hvs].
      intros v Hv. unfold c03_conv_variant in Hv. apply andb_true_iff in Hv as [Hc _]. now rewrite (is_skipped_spec T _ Hc). }
    rewrite Hkept in Em.
    assert (F : Forall2 (vsrc_rel uc T a) (c03_kept_variants T vs) variants).
    { eapply mapM_Forall2_In; [|exact Em]. intros v rv Hin Hp. unfold c03_kept_variants in Hin. apply filter_In in Hin as [Hin Hs].
      apply negb_true_iff in Hs. exact (variant_src uc Huc tstr T a v rv Hra (proj1 (forallb_forall _ _) Hvs v Hin) Hs Hp). }
    destruct (variants_src uc T a _ _ F) as (Hw & Hk & Hu).
    destruct (get_ident _ _ _ _); cbn [bind]; try discriminate.
    destruct (forallb _ variants) eqn:Eu.
    + destruct (get_tag_key uc a); [discriminate|]. destruct (get_content_key uc a); [discriminate|].
      intros [= <-]. cbn [enum_shared evariants]. auto.
    + destruct (get_tag_key uc a); [|discriminate]. destruct (get_content_key uc a); [|discriminate].
      intros [= <-]. cbn [enum_shared evariants]. repeat split; [exact Hw|]. symmetry. exact Hu.
Qed.

Lemma leaf_of_ok it exp : In (Ok it) (map parse_leaf exp) -> exists x, In x exp /\ parse_leaf x = Ok it.
Proof. intros H. apply in_map_iff in H as (x & Hx & Hin). eauto. Qed.

(* the finding classes decided on the source cover the classes decided on the parsed items *)
Lemma known_from_src L f pd :
  forallb (dom_C03_src T) (expected_leaves T f) = true ->
  p_consts pd = consts_of (oks (map parse_leaf (expected_leaves T f))) ->
  p_enums pd = enums_of (oks (map parse_leaf (expected_leaves T f))) ->
  known_C03_src_file uc T L f = None -> known_C03_file uc L pd = None.
Proof.
  intros Hd Hc He Hk. destruct L; try reflexivity.
  - cbn [known_C03_file known_C03_src_file] in *.
    destruct (existsb c03_const_candidate (expected_leaves T f)) eqn:Ee; [discriminate|].
    destruct (p_consts pd) as [|c r] eqn:Ep; [reflexivity|]. exfalso.
    assert (Hin : In c (consts_of (oks (map parse_leaf (expected_leaves T f))))) by (rewrite <- Hc; now left).
    apply in_consts_of, in_oks, leaf_of_ok in Hin as (x & Hx & Hp).
    destruct (parse_leaf_kind uc tstr T x _ Hp) as [Hkind _].
    destruct x as [a i g fs|a i g vs|a i g t|a i t e|u|inner]; cbn [c03_leaf_kind_ok] in Hkind; try contradiction.
    cbn [FrontItems.parse_leaf] in Hp. pose proof (const_needs_int_literal uc tstr a i t e _ Hp) as Hz.
    pose proof (proj1 (existsb_false_all _ _) Ee _ Hx) as Hcand. cbn [c03_const_candidate] in Hcand. rewrite Hz in Hcand. discriminate.
  - cbn [known_C03_file known_C03_src_file] in *.
    destruct (existsb (c03_src_py_collision uc T) (expected_leaves T f)) eqn:Ee; [discriminate|].
    assert (Hall : existsb (fun e => match known_C03_item uc Python (ItEnum e) with Some _ => true | None => false end) (p_enums pd) = false).
    { apply existsb_false_all. intros e Hin. rewrite He in Hin.
      apply in_enums_of, in_oks, leaf_of_ok in Hin as (x & Hx & Hp).
      destruct (parse_leaf_kind uc tstr T x _ Hp) as [Hkind _].
      destruct x as [a i g fs|a i g vs|a i g t|a i t e'|u|inner]; cbn [c03_leaf_kind_ok] in Hkind; try contradiction.
      - cbn [FrontItems.parse_leaf] in Hp.
        pose proof (proj1 (forallb_forall _ _) Hd _ Hx) as Hdx.
        destruct (enum_src_facts a i g vs e Hdx Hp) as (Hs & Hw & Hu).
        pose proof (proj1 (existsb_false_all _ _) Ee _ Hx) as Hcol. cbn [c03_src_py_collision] in Hcol. rewrite Hs in Hcol. cbn [negb andb] in Hcol.
        destruct e as [sh|tag content sh]; [reflexivity|]. cbn [known_C03_item enum_shared] in *. rewrite Hu in Hcol. cbn [negb andb] in Hcol.
        rewrite Hw, Hcol. reflexivity. }
    now rewrite Hall.
Qed.

Variable L : lang.
Variable decls_L : parsed -> outcome file_decls.
Hypothesis Hback : forall pd fd, decls_L pd = Ok fd -> dom_C03_file pd = true -> known_C03_file uc L pd = None ->
                                 good_C03_file L pd fd = true.

(* C03 end to end *)
Theorem end_to_end f pd cn rn fd :
  dom_C03_src_file T f = true -> known_C03_src_file uc T L f = None ->
  parse_file uc tstr T f = Ok (Some pd) -> p_errors pd = [] ->
  decls_L (reconcile_crate rn cn pd) = Ok fd ->
  good_C03_src_file uc T L f (map c03_sig_of (fd_decls fd)) = true.
Proof.
  unfold dom_C03_src_file. intros Hdom Hk Hp He Hd. apply andb_true_iff in Hdom as [Hdf Hds].
  destruct (items_exact uc tstr T f (Some pd) Hdf Hp) as (HF & H1 & H2 & H3 & H4 & H5). cbn zeta in *.
  set (rs := map parse_leaf (expected_leaves T f)) in *.
  rewrite He in H5. symmetry in H5.
  pose proof (Forall2_map_l _ _ _ _ (all_ok rs HF H5)) as F. cbn beta in F.
  pose proof (src_file uc Huc tstr T L f (oks rs) Hds F) as Hsrc.
  assert (Hitems : Permutation (c03_all_items pd) (oks rs)).
  { unfold c03_all_items. rewrite H1, H2, H3, H4. apply kinds_perm. }
  assert (Hdpd : dom_C03_file pd = true).
  { unfold dom_C03_file. apply forallb_forall. intros it Hin.
    pose proof (Permutation_in _ Hitems Hin) as Hin'. apply in_oks, leaf_of_ok in Hin' as (x & _ & Hx).
    exact (parsed_in_dom uc tstr T x it Hx). }
  pose proof (known_from_src L f pd Hds H4 H2 Hk) as Hkpd.
  pose proof (Hback _ _ Hd (eq_trans (rec_dom cn rn pd) Hdpd) (eq_trans (rec_known cn rn uc L pd) Hkpd)) as G.
  unfold good_C03_file in G. unfold good_C03_src_file. rewrite Hsrc.
  eapply good_sigs_perm; [exact G|].
  etransitivity; [apply rec_expected|]. now apply Permutation_flat_map''.
Qed.
End E2E.
