(* C06 multi-file: concrete workspaces evaluated inside Coq.
   - ws_amb: the recorded witness of finding C06-ambiguous-imports (KNOWN_FINDINGS.jsonl): inside class 1 of
     Spec/C06MultiSpec.v, and two iteration orders of the merged import set of crate `app` give different files;
   - ws_clean: three crates, cross-crate `use` imports, a glob import, a serde-renamed type: outside every class, so
     Proofs.C06Multi.multi_hash_order_irrelevant applies to it (its hypotheses are satisfiable). *)
From Coq Require Import List Bool String Permutation.
From TS Require Import Model.Str Model.Outcome Model.Unicode Model.Syntax Model.Attrs Model.Types Model.Parse
                       Model.Reconcile Model.Collect Model.Lang.Common Model.Lang.TypeScript Model.Rename Model.MultiFile.
From TS Require Model.Writer.
From TS Require Import Spec.C06MultiSpec.
From TS Require Import Proofs.C06 Proofs.C14 Proofs.C14Front Proofs.C14Witness Proofs.C06Multi.
Import ListNotations.
Local Open Scope string_scope.

Definition m_entry (dir fname : str) (f : file) : ws_entry := {| we_path := [dir; lit "src"; fname]; we_file := f; we_tstr := fun _ => None |}.
Definition m_item (rename : option str) (name field : str) : item :=
  w_struct (match rename with Some r => [w_rename r] | None => [] end) name [w_fld field (w_ty (lit "u32"))].
Definition m_lib (dir : str) (items : list item) : ws_entry :=
  m_entry dir (lit "lib.rs") (w_file items [[lit "typeshare"]; [lit "u32"]; [lit "serde"]]).
(* <uses>  #[typeshare] pub struct <name> { pub f: <t>, .. } *)
Definition m_user (dir fname : str) (uses : list item) (name : str) (ts : list str) : ws_entry :=
  m_entry dir fname (w_file (app uses [w_struct [] name (map (fun t => w_fld (app (lit "f_") t) (w_ty t)) ts)])
                           ([lit "typeshare"] :: map (fun t => [t]) ts)).

Definition m_ts_cfg : ts_config := {| ts_type_mappings := []; ts_no_version_header := true; ts_version := [] |}.
Definition m_ts_gen (st : ts_state) (_ : str) (im : scoped) (pd : parsed) : outcome (str * ts_state) :=
  ts_generate_multi uc_exec m_ts_cfg st im pd.

(* the files a run writes (TypeScript) under the iteration orders ho_crate, hc *)
Definition m_run (ho_crate : list imported -> list imported) (hc : crate_types -> crate_types) (ws : list ws_entry) :=
  match parse_workspace uc_exec [] [] (fun l => l) ws with
  | Ok arrivals => Some (fst (generate_crates m_ts_gen [] (multi_plan TypeScript hc (multi_crates ho_crate arrivals))))
  | _ => None
  end.

(* ---------- finding C06-ambiguous-imports ----------
   alpha/src/lib.rs: #[typeshare] #[serde(rename = "AlphaItem")] pub struct Item { pub a: u32 }
   beta/src/lib.rs:  #[typeshare] #[serde(rename = "BetaItem")]  pub struct Item { pub b: u32 }
   app/src/m0.rs:    use alpha::Item;  #[typeshare] pub struct A0 { pub f_Item: Item }
   app/src/m1.rs:    use beta::Item;   #[typeshare] pub struct A1 { pub f_Item: Item } *)
Definition ws_amb : list ws_entry :=
  [m_lib (lit "alpha") [m_item (Some (lit "AlphaItem")) (lit "Item") (lit "a")];
   m_lib (lit "beta") [m_item (Some (lit "BetaItem")) (lit "Item") (lit "b")];
   m_user (lit "app") (lit "m0.rs") [w_use (lit "alpha") (lit "Item")] (lit "A0") [lit "Item"];
   m_user (lit "app") (lit "m1.rs") [w_use (lit "beta") (lit "Item")] (lit "A1") [lit "Item"]].

Definition app_field_types (cs : crates) : list rtype :=
  match crates_get cs (lit "app") with Some pd => flat_map (fun s => map (fun f => fty f) (sfields s)) (p_structs pd) | None => [] end.

Theorem ambiguous_imports_refuted :
  exists arrivals,
    parse_workspace uc_exec [] [] (fun l => l) ws_amb = Ok arrivals /\
    all_distinct (collect arrivals) /\
    ws_ambiguity (collect arrivals) = Some "one-name-imported-from-two-crates-that-rename-it-differently" /\
    oracle_ok (@idl imported) /\ oracle_ok (@rev imported) /\
    app_field_types (multi_crates idl arrivals) = [RSimple (lit "AlphaItem"); RSimple (lit "AlphaItem")] /\
    app_field_types (multi_crates (@rev _) arrivals) = [RSimple (lit "BetaItem"); RSimple (lit "BetaItem")] /\
    (exists a b, m_run idl idl ws_amb = Some a /\ m_run (@rev _) idl ws_amb = Some b /\ a <> b).
Proof.
  eexists. split; [vm_compute; reflexivity|]. split; [apply all_distinct_b_ok; vm_compute; reflexivity|].
  split; [vm_compute; reflexivity|]. split; [apply idl_ok|]. split; [apply rev_ok|].
  split; [vm_compute; reflexivity|]. split; [vm_compute; reflexivity|].
  eexists. eexists. split; [vm_compute; reflexivity|]. split; [vm_compute; reflexivity|]. discriminate.
Qed.

(* ---------- a workspace outside every class ----------
   alpha/src/lib.rs: #[typeshare] pub struct Item { pub a: u32 }
                     #[typeshare] #[serde(rename = "AlphaNode")] pub struct Node { pub n: u32 }
   beta/src/lib.rs:  #[typeshare] pub struct Leaf { pub b: u32 }   #[typeshare] pub struct Edge { pub e: u32 }
   app/src/m0.rs:    use alpha::Item; use beta::*;  #[typeshare] pub struct A0 { pub f_Item: Item, pub f_Leaf: Leaf }
   app/src/m1.rs:    use alpha::Node;               #[typeshare] pub struct A1 { pub f_Node: Node } *)
Definition ws_clean : list ws_entry :=
  [m_lib (lit "alpha") [m_item None (lit "Item") (lit "a"); m_item (Some (lit "AlphaNode")) (lit "Node") (lit "n")];
   m_lib (lit "beta") [m_item None (lit "Leaf") (lit "b"); m_item None (lit "Edge") (lit "e")];
   m_user (lit "app") (lit "m0.rs") [w_use (lit "alpha") (lit "Item"); w_glob (lit "beta")] (lit "A0") [lit "Item"; lit "Leaf"];
   m_user (lit "app") (lit "m1.rs") [w_use (lit "alpha") (lit "Node")] (lit "A1") [lit "Node"]].

Definition app_imports (hc : crate_types -> crate_types) (cs : crates) : list (str * str) :=
  match crates_get cs (lit "app") with Some pd => scoped_pairs (crate_imports hc cs (lit "app") pd) | None => [] end.

(* the hypotheses of multi_hash_order_irrelevant hold of it, under the identity and the reversed orders; the crate `app`
   imports Item and AlphaNode (Node's generated name) from ./alpha and everything from ./beta, refers to Node under its serde name,
   and the files are the same *)
Example multi_nonvacuous :
  exists arrivals,
    parse_workspace uc_exec [] [] (fun l => l) ws_clean = Ok arrivals /\
    Permutation arrivals (rev arrivals) /\ all_distinct (collect arrivals) /\ ws_ambiguity (collect arrivals) = None /\
    oracle_ok (@idl imported) /\ oracle_ok (@rev imported) /\ oracle_ok (@idl (str * list str)) /\ oracle_ok (@rev (str * list str)) /\
    map fst (multi_crates idl arrivals) = [lit "alpha"; lit "app"; lit "beta"] /\
    app_field_types (multi_crates (@rev _) (rev arrivals)) = [RSimple (lit "Item"); RSimple (lit "Leaf"); RSimple (lit "AlphaNode")] /\
    app_imports (@rev _) (multi_crates (@rev _) (rev arrivals)) = [(lit "alpha", lit "AlphaNode"); (lit "alpha", lit "Item"); (lit "beta", lit "Edge"); (lit "beta", lit "Leaf")] /\
    generate_crates m_ts_gen [] (multi_plan TypeScript idl (multi_crates idl arrivals)) =
    generate_crates m_ts_gen [] (multi_plan TypeScript (@rev _) (multi_crates (@rev _) (rev arrivals))).
Proof.
  eexists. split; [vm_compute; reflexivity|]. split; [apply Permutation_rev|].
  split; [apply all_distinct_b_ok; vm_compute; reflexivity|]. split; [vm_compute; reflexivity|].
  split; [apply idl_ok|]. split; [apply rev_ok|]. split; [apply idl_ok|]. split; [apply rev_ok|].
  split; [vm_compute; reflexivity|]. split; [vm_compute; reflexivity|]. split; [vm_compute; reflexivity|].
  vm_compute. reflexivity.
Qed.

(* ws_clean is outside class 3 too: every hypothesis of Proofs.C06Multi.multi_end_to_end holds of it *)
Example multi_end_to_end_nonvacuous :
  forallb (file_unambiguous uc_exec [] []) ws_clean = true /\
  exists arrivals, parse_workspace uc_exec [] [] (@rev _) ws_clean = Ok arrivals /\
                   all_distinct (collect arrivals) /\ ws_ambiguity (collect arrivals) = None.
Proof.
  split; [vm_compute; reflexivity|]. eexists. split; [vm_compute; reflexivity|].
  split; [apply all_distinct_b_ok; vm_compute; reflexivity|vm_compute; reflexivity].
Qed.

(* ---------- class 3 (visitors.rs:156) ----------
   app/src/m.rs: use alpha::Item;  #[typeshare] pub struct A0 { pub f_Item: Item }   ... beta::Item ... (a qualified path)
   The file's import candidates are (alpha, Item) and (beta, Item); reconcile_referenced_types keeps the first in
   iteration order. *)
Definition ws_file_amb : list ws_entry :=
  [m_entry (lit "app") (lit "m.rs")
     (w_file [w_use (lit "alpha") (lit "Item"); w_struct [] (lit "A0") [w_fld (lit "f_Item") (w_ty (lit "Item"))]]
             [[lit "typeshare"]; [lit "Item"]; [lit "beta"; lit "Item"]])].

Definition kept_imports (ho_file : list imported -> list imported) (ws : list ws_entry) : list (str * list imported) :=
  match parse_workspace uc_exec [] [] ho_file ws with
  | Ok arrivals => map (fun a => (fst a, p_imports (snd a))) arrivals
  | _ => []
  end.

Theorem file_ambiguous_refuted :
  forallb (file_unambiguous uc_exec [] []) ws_file_amb = false /\
  kept_imports idl ws_file_amb = [(lit "app", [{| base_crate := lit "alpha"; type_name := lit "Item" |}])] /\
  kept_imports (@rev _) ws_file_amb = [(lit "app", [{| base_crate := lit "beta"; type_name := lit "Item" |}])].
Proof. split; [vm_compute; reflexivity|]. split; vm_compute; reflexivity. Qed.
