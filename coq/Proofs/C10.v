(* C10: witnesses of the finding classes (the unrestricted statement is false of the faithful model), the regression
   pin of the repaired class C10-scala-package-brace and a non-vacuity example (the hypotheses of the theorems hold on a non-trivial program). *)
From Coq Require Import List Bool String NArith.
From TS Require Import Model.Str Model.Outcome Model.Unicode Model.Types Model.Parse Model.Lang.Common Model.Lang.Decl
                       Model.Lang.TypeScript Model.Lang.Kotlin Model.Lang.Swift Model.Lang.Scala Model.Lang.Go Model.Lang.Python.
From TS Require Import Spec.C10Spec Proofs.C10_TSFile Proofs.C10_KT Proofs.C10_SC Proofs.C10_GOFile Proofs.C10_SWFile Proofs.C10_PYFile.
Import ListNotations.
Local Open Scope N_scope.

Definition w_id (s : string) : id := {| original := lit s; renamed := lit s; via_serde_rename := false |}.
Definition w_field (name : string) (ty : rtype) (dflt : bool) : rfield :=
  {| fid := w_id name; fty := ty; fcomments := [lit "a doc line with ""quotes"" and `ticks`"]; has_default := dflt; fdecs := [] |}.
Definition w_struct (fs : list rfield) : rstruct :=
  {| sid := w_id "A"; sgenerics := []; sfields := fs; scomments := [lit "first line"; lit "second line"]; sdecs := []; sredacted := false |}.
Definition w_alias : ralias :=
  {| aid := w_id "Al"; agenerics := [lit "T"]; atype := RVec (RSimple (lit "T")); acomments := []; adecs := []; aredacted := false |}.
Definition w_enum : renum :=
  EAlgebraic (lit "type") (lit "content")
    {| eid := w_id "E"; egenerics := []; ecomments := [lit "an enum"];
       evariants := [VUnit {| vid := w_id "U"; vcomments := [] |};
                     VTuple (RHashMap (RPrim PString) (ROption (RSimple (lit "A")))) {| vid := w_id "T"; vcomments := [lit "doc"] |};
                     VAnon [{| fid := {| original := lit "inner"; renamed := lit "in-ner"; via_serde_rename := true |}; fty := RPrim PU32; fcomments := []; has_default := false; fdecs := [] |}] {| vid := w_id "S"; vcomments := [] |}];
       edecs := []; erecursive := false; eredacted := false |}.
Definition w_pd (ss : list rstruct) (es : list renum) (als : list ralias) : parsed :=
  {| p_structs := ss; p_enums := es; p_aliases := als; p_consts := []; p_type_names := []; p_errors := []; p_imports := [] |}.

Definition w_sc_cfg (package : string) : sc_config :=
  {| sc_package := lit package; sc_module_name := []; sc_type_mappings := []; sc_no_version_header := true; sc_version := lit "1.0.0" |}.
Definition w_sw_cfg : sw_config :=
  {| sw_prefix := []; sw_type_mappings := []; sw_default_decorators := []; sw_default_generic_constraints := [];
     sw_codablevoid_constraints := []; sw_no_version_header := true; sw_version := lit "1.0.0" |}.
Definition w_py_cfg : py_config := {| py_type_mappings := []; py_no_version_header := true; py_version := lit "1.0.0" |}.
Definition w_ts_cfg : ts_config := {| ts_type_mappings := [(lit "Url", lit "string")]; ts_no_version_header := false; ts_version := lit "1.0.0" |}.
Definition w_kt_cfg : kt_config :=
  {| kt_package := lit "com.x"; kt_module_name := []; kt_prefix := lit "OP"; kt_type_mappings := []; kt_no_version_header := false; kt_version := lit "1.0.0" |}.
Definition w_go_cfg : go_config :=
  {| go_package := lit "proto"; go_type_mappings := []; go_uppercase_acronyms := [lit "id"; lit "url"]; go_no_version_header := false;
     go_no_pointer_slice := false; go_version := lit "1.0.0" |}.

(* Scala, serde(default) on a non-Option field: ` = _` in a case-class parameter list *)
Lemma scala_default_refuted :
  exists cfg pd text, dom_C10 CSC pd = true /\ known_C10 CSC (sc_package cfg) pd = ["C10-scala-default"%string] /\
    sc_generate uc_exec cfg pd = Ok text /\ contains_sub (lit "x: String = _") text = true.
Proof.
  exists (w_sc_cfg "com.x"), (w_pd [w_struct [w_field "x" (RPrim PString) true]] [] []).
  eexists. repeat split; vm_compute; reflexivity.
Qed.

(* Swift, a property named `let`: back-ticked where it is declared, but a raw init label *)
Lemma swift_label_refuted :
  exists cfg pd text, dom_C10 CSW pd = true /\ known_C10 CSW [] pd = ["C10-swift-label"%string] /\
    sw_generate uc_exec cfg pd = Ok text /\ contains_sub (lit "public let `let`: String") text = true /\
    contains_sub (lit "public init(let: String)") text = true /\ good_C10_swift_labels [lit "let"] = false.
Proof.
  exists w_sw_cfg, (w_pd [w_struct [w_field "let" (RPrim PString) false]] [] []).
  eexists. repeat split; vm_compute; reflexivity.
Qed.

(* Python, a generic type alias.  The class C10-python-generic-alias (`Al[T] = List[T]`: a subscript assignment
   to a name that is never bound, T not declared) is FIXED in /repo; regression pin: the former witness
   `type Al<T> = Vec<T>` is in no finding class and gives exactly this file - T declared as a TypeVar, the alias a
   plain assignment - which is lexically good *)
Definition w_py_alias_text : str :=
  lit "from __future__ import annotations" ++ [10; 10] ++
  lit "from typing import List, TypeVar" ++ [10; 10] ++
  lit "T = TypeVar(""T"")" ++ [10; 10; 10] ++
  lit "Al = List[T]" ++ [10; 10].
Lemma python_generic_alias_fixed :
  dom_C10 CPY (w_pd [] [] [w_alias]) = true /\ known_C10 CPY [] (w_pd [] [] [w_alias]) = [] /\
  py_generate uc_exec w_py_cfg (w_pd [] [] [w_alias]) = Ok w_py_alias_text /\
  contains_sub (lit "Al = List[T]") w_py_alias_text = true /\ contains_sub (lit "Al[T]") w_py_alias_text = false /\
  contains_sub (lit "T = TypeVar(""T"")") w_py_alias_text = true /\
  good_C10_lex CPY w_py_alias_text = true.
Proof. repeat split; vm_compute; reflexivity. Qed.

(* Python, an alias applying type arguments to a generic enum: the Union the enum's name is bound to is not generic *)
Lemma python_generic_enum_arg_refuted :
  exists cfg pd text, dom_C10 CPY pd = true /\ known_C10 CPY [] pd = ["C10-python-generic-enum-arg"%string] /\
    py_generate uc_exec cfg pd = Ok text /\ contains_sub (lit "Al = List[G[int]]") text = true /\
    contains_sub (lit "G = GV") text = true.
Proof.
  exists w_py_cfg,
    (w_pd [] [EAlgebraic (lit "t") (lit "c") {| eid := w_id "G"; egenerics := [lit "T"]; ecomments := [];
                                                 evariants := [VTuple (RSimple (lit "T")) {| vid := w_id "V"; vcomments := [] |}];
                                                 edecs := []; erecursive := false; eredacted := false |}]
          [{| aid := w_id "Al"; agenerics := []; atype := RVec (RGeneric (lit "G") [RPrim PU8]); acomments := []; adecs := []; aredacted := false |}]).
  eexists. repeat split; vm_compute; reflexivity.
Qed.

(* Python, a variant renamed to a key that starts with a digit: the member of the Types class is not an identifier *)
Lemma python_digit_name_refuted :
  exists cfg pd text, dom_C10 CPY pd = true /\ known_C10 CPY [] pd = ["C10-python-digit-name"%string] /\
    py_generate uc_exec cfg pd = Ok text /\ contains_sub (lit "    1_A = ""1a""") text = true.
Proof.
  exists w_py_cfg,
    (w_pd [] [EAlgebraic (lit "t") (lit "c") {| eid := w_id "G"; egenerics := []; ecomments := [];
                                                 evariants := [VTuple (RPrim PU8) {| vid := {| original := lit "V"; renamed := lit "1a"; via_serde_rename := true |};
                                                                                     vcomments := [] |}];
                                                 edecs := []; erecursive := false; eredacted := false |}] []).
  eexists. repeat split; vm_compute; reflexivity.
Qed.

(* a field renamed to "1st": `val 1st: ..` (Kotlin; the same name is printed by TypeScript, Swift and Scala) *)
Lemma kotlin_digit_name_refuted :
  exists cfg pd text, dom_C10 CKT pd = true /\ known_C10 CKT [] pd = ["C10-digit-name"%string] /\
    kt_generate uc_exec cfg pd = Ok text /\ contains_sub (lit "val 1st: String") text = true.
Proof.
  exists w_kt_cfg,
    (w_pd [w_struct [{| fid := {| original := lit "first"; renamed := lit "1st"; via_serde_rename := true |}; fty := RPrim PString;
                        fcomments := []; has_default := false; fdecs := [] |}]] [] []).
  eexists. repeat split; vm_compute; reflexivity.
Qed.
(* a Rust field `_1x`: Go prints the exported name `1x` *)
Lemma go_digit_name_refuted :
  exists cfg pd text, dom_C10 CGO pd = true /\ known_C10 CGO [] pd = ["C10-digit-name"%string] /\
    go_generate uc_exec cfg pd = Ok text /\ contains_sub (lit "1x string `json:") text = true.
Proof.
  exists w_go_cfg, (w_pd [w_struct [{| fid := w_id "_1x"; fty := RPrim PString; fcomments := []; has_default := false; fdecs := [] |}]] [] []).
  eexists. repeat split; vm_compute; reflexivity.
Qed.

(* Python, an algebraic enum without variants (reachable from the IR only: the parser rejects tag/content on an enum
   whose variants are all unit or skipped): `Union[]` *)
Lemma python_empty_union_refuted :
  exists cfg pd text, known_C10 CPY [] pd = ["C10-python-empty-union"%string] /\
    py_generate uc_exec cfg pd = Ok text /\ contains_sub (lit "E = Union[]") text = true.
Proof.
  exists w_py_cfg,
    (w_pd [] [EAlgebraic (lit "t") (lit "c") {| eid := w_id "E"; egenerics := []; ecomments := []; evariants := [];
                                                 edecs := []; erecursive := false; eredacted := false |}] []).
  eexists. repeat split; vm_compute; reflexivity.
Qed.

(* non-vacuity: a program with a documented struct, a generic alias and an algebraic enum with unit, tuple and struct
   variants (a dashed key among them) is inside the domain of every language, every configuration used here is
   admissible, and the generators succeed on it *)
Definition w_prog : parsed := w_pd [w_struct [w_field "x" (RPrim PString) false; w_field "opt" (ROption (RPrim PU32)) true]] [w_enum] [w_alias].
Example C10_nonvacuous :
  forallb (fun l => dom_C10 l w_prog) [CTS; CKT; CSW; CSC; CGO; CPY] = true /\
  c10_ts_cfg_ok w_ts_cfg = true /\ c10_kt_cfg_ok w_kt_cfg = true /\ c10_sc_cfg_ok (w_sc_cfg "com.x") = true /\ c10_go_cfg_ok w_go_cfg = true /\
  c10_sc_cfg_ok (w_sc_cfg "onepassword") = true /\ is_ok (sc_generate uc_exec (w_sc_cfg "onepassword") w_prog) = true /\
  is_ok (ts_generate uc_exec w_ts_cfg w_prog) = true /\ is_ok (kt_generate uc_exec w_kt_cfg w_prog) = true /\
  is_ok (sc_generate uc_exec (w_sc_cfg "com.x") w_prog) = true /\ is_ok (go_generate uc_exec w_go_cfg w_prog) = true /\
  c10_sw_cfg_ok w_sw_cfg = true /\ c10_py_cfg_ok w_py_cfg = true /\
  is_ok (sw_generate uc_exec w_sw_cfg w_prog) = true /\ is_ok (py_generate uc_exec w_py_cfg w_prog) = true.
Proof. repeat split; vm_compute; reflexivity. Qed.

(* Scala, a package name without a dot - the witness of the repaired finding C10-scala-package-brace (scala.rs
   end_package / end_package_object printed `}` although begin_package / begin_package_object had opened nothing) as a
   regression pin.  Since the /repo fix of C10-scala-toplevel-alias the dotless name opens its blocks as well: the
   former witness now gives exactly `package onepassword {`, the case class, `}`, and the file is balanced; a program
   that fills both blocks (unsigned aliases and an alias in `package object onepassword {`, a struct and an enum in
   the package) is balanced too; neither is in any finding class *)
Definition w_brace_cfg : sc_config := w_sc_cfg "onepassword".
Definition w_brace_pd : parsed := w_pd [w_struct [w_field "x" (RPrim PString) false]] [] [].
Definition w_brace_text : str :=
  lit "package onepassword {" ++ [10] ++ [10] ++
  lit "// first line" ++ [10] ++ lit "// second line" ++ [10] ++ lit "case class A (" ++ [10] ++
  [9] ++ lit "// a doc line with ""quotes"" and `ticks`" ++ [10] ++ [9] ++ lit "x: String" ++ [10] ++ lit ")" ++ [10] ++ [10] ++
  lit "}" ++ [10].
Lemma scala_package_brace_fixed :
  c10_sc_cfg_ok w_brace_cfg = true /\ contains_char sc_ch_dot (sc_package w_brace_cfg) = false /\
  dom_C10 CSC w_brace_pd = true /\ c10_has_items w_brace_pd = true /\ known_C10 CSC (sc_package w_brace_cfg) w_brace_pd = [] /\
  sc_generate uc_exec w_brace_cfg w_brace_pd = Ok w_brace_text /\
  contains_sub (lit "case class A (") w_brace_text = true /\ contains_sub (lit "package onepassword {") w_brace_text = true /\
  good_C10_lex CSC w_brace_text = true /\
  exists text, dom_C10 CSC w_prog = true /\ known_C10 CSC (sc_package w_brace_cfg) w_prog = [] /\
    sc_generate uc_exec w_brace_cfg w_prog = Ok text /\ contains_sub (lit "type ULong = Int") text = true /\
    contains_sub (lit "package object onepassword {") text = true /\
    contains_sub (lit "case class A (") text = true /\ good_C10_lex CSC text = true.
Proof. repeat split; try (vm_compute; reflexivity). eexists. repeat split; vm_compute; reflexivity. Qed.

(* the whole-file theorems in the argument order of Props/C10.v *)
Lemma lex_typescript (uc : unicode) (cfg : ts_config) (pd : parsed) (text : str) :
  unicode_ok uc -> c10_ts_cfg_ok cfg = true -> dom_C10 CTS pd = true -> ts_generate uc cfg pd = Ok text -> good_C10_lex CTS text = true.
Proof. intros Huc Hcfg Hdom H. exact (ts_generate_balanced uc Huc cfg Hcfg pd text Hdom H). Qed.
Lemma lex_kotlin (uc : unicode) (cfg : kt_config) (pd : parsed) (text : str) :
  c10_kt_cfg_ok cfg = true -> dom_C10 CKT pd = true -> kt_generate uc cfg pd = Ok text -> good_C10_lex CKT text = true.
Proof. intros Hcfg Hdom H. exact (kt_generate_balanced uc cfg Hcfg pd text Hdom H). Qed.
Lemma lex_scala (uc : unicode) (cfg : sc_config) (pd : parsed) (text : str) :
  c10_sc_cfg_ok cfg = true -> dom_C10 CSC pd = true ->
  sc_generate uc cfg pd = Ok text -> good_C10_lex CSC text = true.
Proof. intros Hcfg Hdom H. exact (sc_generate_balanced uc cfg Hcfg pd text Hdom H). Qed.
Lemma lex_go (uc : unicode) (cfg : go_config) (pd : parsed) (text : str) :
  unicode_ok uc -> c10_go_cfg_ok cfg = true -> dom_C10 CGO pd = true ->
  go_generate uc cfg pd = Ok text -> good_C10_lex CGO text = true.
Proof. intros Huc Hcfg Hdom H. exact (go_generate_balanced uc Huc cfg Hcfg pd text Hdom H). Qed.
Lemma lex_swift (uc : unicode) (cfg : sw_config) (pd : parsed) (text : str) :
  c10_sw_cfg_ok cfg = true -> dom_C10 CSW pd = true -> sw_generate uc cfg pd = Ok text -> good_C10_lex CSW text = true.
Proof. intros Hcfg Hdom H. exact (sw_generate_balanced uc cfg Hcfg pd text Hdom H). Qed.
Lemma lex_python (uc : unicode) (cfg : py_config) (pd : parsed) (text : str) :
  unicode_ok uc -> c10_py_cfg_ok cfg = true -> dom_C10 CPY pd = true -> py_generate uc cfg pd = Ok text -> good_C10_lex CPY text = true.
Proof. intros Huc Hcfg Hdom H. exact (py_generate_balanced uc Huc cfg Hcfg pd text Hdom H). Qed.
