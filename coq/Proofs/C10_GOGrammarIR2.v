(* C10, grammar half for Go, part 6: from the IR to the whole file, ALL items (algebraic enums included), for an EMPTY
   uppercase_acronyms list: [go_generate_recognised] = C10_grammar_go. *)
From Coq Require Import List Bool Arith Lia ZifyBool ZifyN NArith String Permutation.
From TS Require Import Model.Str Model.Outcome Model.Unicode Model.Types Model.Parse Model.Rename Model.TopsortAlgo Model.Topsort
                       Model.Lang.Common Model.Lang.Decl Model.Lang.Go.
From TS Require Import Spec.C10Spec Spec.C10TsGrammar Spec.C10GoGrammar Proofs.BackCommon Proofs.C10_TSGrammarTok Proofs.C10_GOGrammarTok
                       Proofs.C10_GOGrammarSemi Proofs.C10_GOGrammarParse Proofs.C10_GOGrammar Proofs.C10_GOGrammarTagged Proofs.C10_GOGrammarFile
                       Proofs.C10_GOGrammarIR.
From TS Require Proofs.C10Lex Proofs.C10Common Proofs.C10Monad Proofs.C10_TSFile Proofs.C10_TSGrammar Proofs.C10_TSGrammarFile Proofs.C10_GO Proofs.C10_GOFile.
Import ListNotations.
Local Open Scope N_scope.
Local Notation length := List.length (only parsing).

(* ------------------------------------------------------------------ the grammar domain of an algebraic enum *)
(* E = the enum's Rust name, V = the variant's Rust name, P = to_pascal_case tag.  The constant E ++ P ++ "Variant" ++ V is a name;
   a variant that carries something has a name V that is no keyword (it names the accessor method); a tuple variant's type refers to
   no keyword; a struct variant's helper struct E ++ V ++ "Inner", its generic parameters and its fields are as for a struct *)
Definition c10_gog_variant_dom (sh : eshared) (tag : str) (v : rvariant) : Prop :=
  let V := original (vid (variant_shared v)) in
  c10_go_name_ok (original (eid sh) ++ to_pascal_case tag ++ lit "Variant" ++ V) = true /\
  match v with
  | VUnit _ => True
  | VTuple ty _ => c10_go_kw V = false /\ c10_go_rtype_kw ty = false
  | VAnon fs _ => c10_go_kw V = false /\ c10_go_name_ok (original (eid sh) ++ V ++ lit "Inner") = true /\
                  forallb (fun g => negb (c10_go_kw g)) (anon_struct_generics (egenerics sh) fs) = true /\ Forall c10_gog_field_ok fs
  end.
(* the enum's name is no keyword; the tag field P and the content field to_camel_case content are names (a content key `type` or
   `func` is printed as it is: the keyword class extends to it); the key type E ++ P ++ "s" is a name *)
Definition c10_gog_item_ok2 (it : ritem) : Prop :=
  match it with
  | ItEnum (EAlgebraic tag content sh) =>
    c10_go_kw (original (eid sh)) = false /\ c10_go_name_ok (to_pascal_case tag) = true /\
    (forall cf, to_camel_case content = Ok cf -> c10_go_name_ok cf = true) /\
    c10_go_name_ok (original (eid sh) ++ to_pascal_case tag ++ lit "s") = true /\
    Forall (c10_gog_variant_dom sh tag) (evariants sh)
  | _ => c10_gog_item_ok it
  end.
Definition c10_gog_dom2 (pd : parsed) : Prop := Forall c10_gog_item_ok2 (items_of pd).

Lemma kw_long s : c10_go_kw s = true -> (2 <= List.length s)%nat.
Proof.
  unfold c10_go_kw, mem_str. rewrite existsb_exists. intros (k & Hin & He). apply str_eqb_eq in He. subst k.
  assert (F : forallb (fun k => 2 <=? List.length k)%nat c10_go_keywords = true) by (vm_compute; reflexivity).
  rewrite forallb_forall in F. specialize (F _ Hin). apply Nat.leb_le in F. exact F.
Qed.

Section Decide2.
Variable uc : unicode.
Hypothesis Huc : unicode_ok uc.
Variable cfg : go_config.
Hypothesis Gcfg : c10_gog_cfg_ok cfg.

Lemma go_struct_gram rs : c10_ident_ok (renamed (sid rs)) = true -> c10_go_kw (renamed (sid rs)) = false ->
  forallb c10_ident_ok (sgenerics rs) = true -> forallb (fun g => negb (c10_go_kw g)) (sgenerics rs) = true ->
  forallb (c10_field_ok CGO) (sfields rs) = true -> Forall c10_gog_field_ok (sfields rs) ->
  forallb Proofs.C10Lex.c10_line_ok (scomments rs) = true ->
  gop c10_gog_decl_ok (go_struct_decl_of uc cfg rs).
Proof.
  intros Hren Kn Hg Kg Hf Gf Hd s d s' Hdd.
  unfold go_struct_decl_of in Hdd. apply mbind_ok in Hdd as (name & s2 & Hn & Hdd). rewrite (acr_nil uc cfg Gcfg) in Hn. injection Hn as <- <-.
  apply mbind_ok in Hdd as (ms & s3 & Hms & Hdd). unfold ret in Hdd. injection Hdd as <- <-.
  cbn [c10_gog_decl_ok]. split; [exact Hd|]. split; [apply ident_name; assumption|].
  split; [apply generics_names; assumption|].
  refine (gop_mmapM _ (fun f => c10_field_ok CGO f = true /\ c10_gog_field_ok f) _ _ (sfields rs) _ _ _ _ Hms).
  - intros f [H1 H2]. apply (go_member_gram uc cfg Gcfg); assumption.
  - apply Proofs.C10Lex.forallb_Forall in Hf. rewrite Forall_forall in Hf, Gf. apply Forall_forall. intros f Hin. split; [exact (Hf f Hin)|exact (Gf f Hin)].
Qed.

Lemma go_decl_of_gram2 custom it : c10_item_ok CGO it = true -> c10_gog_item_ok2 it -> gop (Forall c10_gog_decl_ok) (go_decl_of uc cfg custom it).
Proof.
  intros Hit G2. destruct it as [rs | e | a | c]; try (apply (go_decl_of_gram uc cfg Gcfg); assumption).
  destruct e as [sh | tag content sh]; [apply (go_decl_of_gram uc cfg Gcfg); assumption|].
  intros s ds s' H. cbn [c10_item_ok enum_shared] in Hit. rewrite !andb_true_iff in Hit. destruct Hit as [[[[[Hid Hg] Hd] Hv] _] Htc].
  destruct Htc as [Htag Hcon]. unfold c10_type_id_ok in Hid. apply andb_true_iff in Hid as [Horig _].
  destruct G2 as (Kn & Gtf & Gcf & Gkt & Gvs). cbn [go_decl_of] in H. unfold go_enum_decls_of in H. cbn [enum_shared] in H.
  apply mbind_ok in H as (anon & s1 & Ha & H). apply mbind_ok in H as (sn & s2 & Hsn & H). rewrite (acr_nil uc cfg Gcfg) in Hsn. injection Hsn as <- <-.
  apply mbind_ok in H as (cf & s3 & Hcf & H).
  assert (Ecf : to_camel_case content = Ok cf /\ s3 = s1).
  { unfold go_lift in Hcf. destruct (to_camel_case content) as [r| |]; try discriminate. injection Hcf as <- <-. split; reflexivity. }
  destruct Ecf as [Ecf ->]. clear Hcf.
  apply mbind_ok in H as (tf & s4 & Htf & H). unfold go_format_field_name in Htf. rewrite (acr_nil uc cfg Gcfg) in Htf. injection Htf as <- <-.
  apply mbind_ok in H as (short & s5 & Hsh & H). unfold ret in Hsh. injection Hsh as <- <-.
  apply mbind_ok in H as (tacr & s6 & Hta & H). rewrite (acr_nil uc cfg Gcfg) in Hta. injection Hta as <- <-.
  apply mbind_ok in H as (vs & s7 & Hvs & H). unfold ret in H. injection H as <- <-.
  assert (Hvall : Forall (fun v => c10_variant_ok CGO v = true /\ c10_gog_variant_dom sh tag v) (evariants sh)).
  { apply Proofs.C10Lex.forallb_Forall in Hv. rewrite Forall_forall in Hv, Gvs. apply Forall_forall. intros v Hin. split; [exact (Hv v Hin)|exact (Gvs v Hin)]. }
  apply Forall_app. split.
  - (* the helper structs *)
    unfold go_anonymous_struct_decls in Ha. apply mbind_ok in Ha as (dss & s8 & Hdss & Ha). unfold ret in Ha. injection Ha as <- _.
    assert (Hall : Forall (Forall c10_gog_decl_ok) dss).
    { refine (gop_mmapM _ _ _ _ (evariants sh) Hvall _ _ _ Hdss). intros v [Hv1 Hv2] s0 y s0' Hy.
      destruct v as [vsh | t vsh | fs vsh]; try (unfold ret in Hy; injection Hy as <- _; constructor).
      apply mbind_ok in Hy as (stn & s9 & Hstn & Hy). unfold go_make_anonymous_struct_name in Hstn. rewrite (acr_nil uc cfg Gcfg) in Hstn. injection Hstn as <- <-.
      apply mbind_ok in Hy as (d & s10 & Hd0 & Hy). unfold ret in Hy. injection Hy as <- _. constructor; [|constructor].
      unfold c10_variant_ok in Hv1. cbn [variant_shared] in Hv1. rewrite !andb_true_iff in Hv1. destruct Hv1 as [[Hvid _] Hfs].
      unfold c10_member_id_ok in Hvid. apply andb_true_iff in Hvid as [Hvo _].
      destruct Hv2 as (_ & Kv & Ginner & Kgen & Gfs). cbn [variant_shared] in *.
      pose proof Ginner as Gi. unfold c10_go_name_ok in Gi. apply andb_true_iff in Gi as [_ Gi]. apply negb_true_iff in Gi.
      refine (go_struct_gram _ _ _ _ _ _ _ _ _ _ _ Hd0); cbn [anon_struct sid sgenerics sfields scomments renamed].
      + apply ident_app; [exact Horig|]. apply ident_app; [exact Hvo|reflexivity].
      + exact Gi.
      + apply Proofs.C10Common.anon_struct_generics_ok, Hg.
      + exact Kgen.
      + exact Hfs.
      + exact Gfs.
      + cbn [forallb]. rewrite andb_true_r. apply Proofs.C10Common.docsafe_line.
        rewrite !forallb_app, (Proofs.C10Common.ident_docsafe _ (Proofs.C10_TSFile.ident_ok_chars _ Hvo)),
                (Proofs.C10Common.ident_docsafe _ (Proofs.C10_TSFile.ident_ok_chars _ Horig)). reflexivity. }
    clear -Hall. induction Hall as [|x l Hx _ IH]; cbn [List.concat]; [constructor|]. apply Forall_app. split; assumption.
  - constructor; [|constructor]. cbn [c10_gog_decl_ok]. unfold c10_gog_tagged_ok.
    cbn [gt_docs gt_name gt_key_type gt_tag_key gt_content_key gt_tag_field gt_content_field gt_short gt_variants].
    split; [exact (Proofs.C10Common.docs_line_ok _ Hd)|]. split; [apply ident_name; assumption|]. split; [exact Gkt|].
    split; [exact (key_chars _ Htag)|]. split; [exact (key_chars _ Hcon)|]. split; [exact Gtf|]. split; [exact (Gcf _ Ecf)|]. split.
    + destruct (original (eid sh)) as [|c0 r0] eqn:Eo; [discriminate|].
      assert (Ha0 : c0 < 128).
      { unfold c10_ident_ok in Horig. apply andb_true_iff in Horig as [Hs0 _]. unfold c10_ident_start, is_aalpha, is_alower, is_aupper, ch_us in Hs0. lia. }
      rewrite (ok_to_lower uc Huc c0 Ha0). unfold c10_go_name_ok. apply andb_true_iff. split.
      * cbn [c10_go_ident_ok forallb]. rewrite andb_true_r. unfold c10_ident_ok in Horig. apply andb_true_iff in Horig as [Hs0 _].
        unfold c10_ident_start, c10_go_letter, alower, is_aalpha, is_alower, is_aupper, ch_us in *. destruct ((65 <=? c0) && (c0 <=? 90)) eqn:E; lia.
      * apply negb_true_iff. destruct (c10_go_kw [alower c0]) eqn:E; [|reflexivity]. apply kw_long in E. cbn in E. lia.
    + refine (gop_mmapM _ _ _ _ (evariants sh) Hvall _ _ _ Hvs). intros v [Hv1 Hv2] s0 gv s0' Hy. unfold go_variant_of in Hy. cbv zeta in Hy.
      unfold c10_variant_ok in Hv1. rewrite !andb_true_iff in Hv1. destruct Hv1 as [[Hvid Hvd] Hp].
      unfold c10_member_id_ok in Hvid. apply andb_true_iff in Hvid as [Hvo Hvr]. destruct Hv2 as (Gconst & Gcase).
      apply mbind_ok in Hy as (vname & s9 & Hvn & Hy). rewrite (acr_nil uc cfg Gcfg) in Hvn. injection Hvn as <- <-.
      apply mbind_ok in Hy as (vt & s10 & Hvt & Hy).
      apply mbind_ok in Hy as (tp & s11 & Htp & Hy). rewrite (acr_nil uc cfg Gcfg) in Htp. injection Htp as <- <-.
      apply mbind_ok in Hy as (con & s12 & Hc & Hy). unfold ret in Hy. injection Hy as <- _.
      unfold c10_gog_variant_ok. cbn [gv_docs gv_const gv_wire gv_method gv_content].
      split; [exact (Proofs.C10Common.docs_line_ok _ Hvd)|]. split; [exact Gconst|]. split; [exact (key_chars _ Hvr)|].
      destruct v as [vsh | t vsh | fs vsh]; cbn [variant_shared] in *.
      * unfold ret in Hvt. injection Hvt as <- <-. unfold ret in Hc. injection Hc as <- _. exact I.
      * destruct Gcase as [Kv Kt]. apply mbind_ok in Hvt as (x & s13 & Hx & Hvt). unfold ret in Hvt. injection Hvt as <- <-.
        apply mbind_ok in Hc as (fvt & s14 & Hf & Hc). unfold ret in Hc. injection Hc as <- _. cbn [c10_gog_content_ok].
        split; [apply ident_name; assumption|].
        exact (go_acronyms_ty_gram uc cfg Gcfg x (go_texp_gram cfg Gcfg [] t Hp Kt _ _ _ Hx) _ _ _ Hf).
      * destruct Gcase as (Kv & Ginner & _ & _). apply mbind_ok in Hvt as (sname & s13 & Hsn & Hvt). unfold go_make_anonymous_struct_name in Hsn.
        rewrite (acr_nil uc cfg Gcfg) in Hsn. injection Hsn as <- <-. unfold ret in Hvt. injection Hvt as <- <-.
        apply mbind_ok in Hc as (fvt & s14 & Hf & Hc). rewrite (acr_nil uc cfg Gcfg) in Hf. injection Hf as <- <-. unfold ret in Hc. injection Hc as <- _.
        cbn [c10_gog_content_ok]. split; [apply ident_name; assumption|exact Ginner].
Qed.
End Decide2.

(* ------------------------------------------------------------------ the whole file *)
Theorem go_generate_recognised uc cfg pd text :
  unicode_ok uc -> Proofs.C10_GOFile.c10_go_cfg_ok cfg = true -> c10_gog_cfg_ok cfg ->
  dom_C10 CGO pd = true -> c10_gog_dom2 pd ->
  go_generate uc cfg pd = Ok text -> exists n, c10_go_recognise text = Some n /\ (List.length (items_of pd) <= n)%nat.
Proof.
  intros Huc Hcfg Gcfg Hdom Gdom H. unfold go_generate in H. apply Proofs.C10Common.bind_ok in H as (items & Et & H).
  pose proof (Proofs.C10_TSFile.topsort_ok_perm _ _ Et) as Hperm.
  assert (Hitems : Forall (fun it => c10_item_ok CGO it = true /\ c10_gog_item_ok2 it) items).
  { apply Proofs.C10Lex.forallb_Forall in Hdom. fold (items_of pd) in Hdom. unfold c10_gog_dom2 in Gdom.
    eapply Permutation_Forall; [apply Permutation_sym, Hperm|]. rewrite Forall_forall in *. intros it Hin. split; auto. }
  set (custom := go_types_mapping_to_struct items) in *.
  match type of H with match ?run _ with _ => _ end = _ => destruct (run []) as [[out sfin]| |] eqn:Er; try discriminate end.
  injection H as <-.
  apply mbind_ok in Er as (header & s1 & Hh & Er). apply mbind_ok in Er as (body & s2 & Hb & Er).
  apply mbind_ok in Er as (imports & s3 & Hi & Er). unfold mget in Hi. injection Hi as <- <-. unfold ret in Er. injection Er as <- _.
  unfold go_begin_file in Hh. apply mbind_ok in Hh as (u & s0 & Ha & Hh). unfold ret in Hh. injection Hh as <- <-.
  destruct (Proofs.C10_GOFile.go_add_import_post (lit "encoding/json") eq_refl _ _ _ Ha eq_refl) as [_ Hs0].
  unfold mconcat in Hb. apply mbind_ok in Hb as (parts & s4 & Hp & Hb). unfold ret in Hb. injection Hb as <- <-.
  assert (Hstep : forall it, c10_item_ok CGO it = true /\ c10_gog_item_ok2 it ->
            Proofs.C10Monad.post Proofs.C10_GOFile.go_inv
              (fun t => exists tds, CSeg false t (decls_toks tds) false /\ Forall DeclToks tds /\ (1 <= List.length tds)%nat) (go_write_item uc cfg custom it)).
  { intros it [Hit G2] s y s' Hy Hs. unfold go_write_item in Hy. apply mbind_ok in Hy as (ds & s5 & Hd & Hy). unfold ret in Hy. injection Hy as <- <-.
    destruct (Proofs.C10_GOFile.go_decl_post uc Huc cfg Hcfg custom it Hit _ _ _ Hd Hs) as [_ Hs5]. split; [|exact Hs5].
    pose proof (go_decl_of_gram2 uc Huc cfg Gcfg custom it Hit G2 _ _ _ Hd) as Gds.
    assert (Hparts : Forall (fun t => exists tds, CSeg false t (decls_toks tds) false /\ Forall DeclToks tds /\ (1 <= List.length tds)%nat) (map go_render_decl ds)).
    { apply Forall_map. revert Gds. apply Forall_impl. apply go_render_decl_gram. }
    destruct (parts_gram _ Hparts) as (tds & H1 & H2 & H3). exists tds. split; [exact H1|]. split; [exact H2|].
    rewrite map_length in H3.
    assert (Hne : (1 <= List.length ds)%nat).
    { clear -Hd. destruct it as [rs | e | a | c]; cbn [go_decl_of] in Hd.
      - apply mbind_ok in Hd as (d & s1 & _ & Hd). unfold ret in Hd. injection Hd as <- _. cbn. lia.
      - unfold go_enum_decls_of in Hd. apply mbind_ok in Hd as (anon & s1 & _ & Hd). destruct e as [sh | tag content sh].
        + apply mbind_ok in Hd as (en & s2 & _ & Hd). apply mbind_ok in Hd as (vs & s3 & _ & Hd). unfold ret in Hd. injection Hd as <- _.
          rewrite app_length. cbn. lia.
        + apply mbind_ok in Hd as (x1 & t1 & _ & Hd). apply mbind_ok in Hd as (x2 & t2 & _ & Hd). apply mbind_ok in Hd as (x3 & t3 & _ & Hd).
          apply mbind_ok in Hd as (x4 & t4 & _ & Hd). apply mbind_ok in Hd as (x5 & t5 & _ & Hd). apply mbind_ok in Hd as (x6 & t6 & _ & Hd).
          unfold ret in Hd. injection Hd as <- _. rewrite app_length. cbn. lia.
      - apply mbind_ok in Hd as (d & s1 & _ & Hd). apply mbind_ok in Hd as (d2 & s2 & _ & Hd). unfold ret in Hd. injection Hd as <- _. cbn. lia.
      - apply mbind_ok in Hd as (d & s1 & _ & Hd). unfold ret in Hd. injection Hd as <- _. cbn. lia. }
    lia. }
  destruct (Proofs.C10Monad.post_mmapM Proofs.C10_GOFile.go_inv _ _ _ Hstep items Hitems _ _ _ Hp Hs0) as [Pparts Hs4].
  pose proof Hcfg as Hc. unfold Proofs.C10_GOFile.c10_go_cfg_ok in Hc. rewrite !andb_true_iff in Hc. destruct Hc as [[[_ Hver] _] _].
  destruct (go_file_layout (go_no_version_header cfg) (go_version cfg) (go_package cfg) s4 parts
              (Proofs.C10Common.dotted_line _ Hver) (proj2 (proj2 Gcfg)) Hs4 Pparts) as (n & Hn & Hl).
  exists n. split; [exact Hn|].
  pose proof (Permutation_length Hperm) as Hpl. pose proof (mmapM_length _ _ _ _ _ Hp) as Hpa. lia.
Qed.

(* ------------------------------------------------------------------ non-vacuity: the witness program is in the domain *)
Example C10_grammar_go_nonvacuous :
  unicode_ok uc_exec /\ Proofs.C10_GOFile.c10_go_cfg_ok gg_cfg = true /\ c10_gog_cfg_ok gg_cfg /\ dom_C10 CGO gg_prog = true /\ c10_gog_dom2 gg_prog /\
  go_generate uc_exec gg_cfg gg_prog = Ok gg_text /\ c10_go_recognise gg_text = Some 19%nat.
Proof.
  split; [exact uc_exec_ok|]. split; [vm_compute; reflexivity|]. split.
  { split; [reflexivity|]. split; [|reflexivity]. repeat constructor; cbn [snd]; [apply tytext_name; reflexivity|apply tytext_slice, tytext_name; reflexivity]. }
  split; [vm_compute; reflexivity|]. split.
  { unfold c10_gog_dom2, gg_prog, Proofs.C10_TSGrammarFile.g_prog. cbn [items_of p_aliases p_structs p_enums p_consts map app].
    repeat first [apply Forall_cons | apply Forall_nil | split]; try (vm_compute; reflexivity).
    all: try exact I.
    all: intros cf E; vm_compute in E; injection E as <-; vm_compute; reflexivity. }
  split; vm_compute; reflexivity.
Qed.

(* ------------------------------------------------------------------ the hypothesis on the content key excludes real inputs *)
(* an algebraic enum with the content key `type` (a Go keyword): in dom_C10, in no class of known_C10 and NOT in the computable
   keyword class of Spec/C10GoGrammar.v (which looks at type, variant and parameter names only), yet its struct has the field
   `type interface{}` and the recogniser rejects the file *)
Definition gg_kc_prog : parsed :=
  {| p_structs := [];
     p_enums := [EAlgebraic (lit "kind") (lit "type")
                   {| eid := Proofs.C10_TSGrammarFile.g_id "E"; egenerics := []; ecomments := [];
                      evariants := [VTuple (RPrim PString) {| vid := Proofs.C10_TSGrammarFile.g_id "A"; vcomments := [] |}];
                      edecs := []; erecursive := false; eredacted := false |}];
     p_aliases := []; p_consts := []; p_type_names := []; p_errors := []; p_imports := [] |}.

Lemma go_keyword_content_key_refuted :
  exists cfg pd text, dom_C10 CGO pd = true /\ known_C10 CGO [] pd = [] /\ known_C10_go_grammar pd = ["C10-go-keyword-name"%string] /\
    go_generate uc_exec cfg pd = Ok text /\ contains_sub (lit "type interface{}") text = true /\ c10_go_recognise text = None.
Proof.
  exists gg_cfg, gg_kc_prog, (match go_generate uc_exec gg_cfg gg_kc_prog with Ok t => t | _ => [] end).
  repeat split; vm_compute; reflexivity.
Qed.
