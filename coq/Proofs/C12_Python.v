(* C12, Python: the body is formatted into a side buffer while imports / type_variables /
   types_for_custom_json_translation accumulate; the header (imports, TypeVar lines, helper
   functions) is written afterwards from what accumulated.  The accumulators only grow; every
   formatter and writer inserts the import at the place where it prints the name.
   PARTIAL (see c12_py_file_partial): proved for every name of the fixed typing / pydantic / enum /
   datetime vocabulary spelled in a type at any depth or in the template text of a declaration, and
   for the TypeVars of class headers; NOT yet proved: that the (de)serialiser function names of an
   Annotated field are defined, and the header's own uses (TypeVar, datetime inside the helper
   functions). *)
From Coq Require Import List Bool Permutation.
From TS Require Import Model.Str Model.Outcome Model.Unicode Model.Types Model.Parse Model.TopsortAlgo Model.Topsort
                       Model.Lang.Common Model.Lang.Decl Model.Lang.Python Spec.C12Spec.
From TS Require Import Proofs.BackCommon Proofs.C12Common Proofs.C12Obs Proofs.C12_Go.
Import ListNotations.

Definition c12_ple (s s' : py_state) : Prop :=
  incl (c12_py_imported s) (c12_py_imported s') /\ incl (py_type_variables s) (py_type_variables s').
Lemma c12_ple_refl s : c12_ple s s. Proof. split; apply incl_refl. Qed.
Lemma c12_ple_trans a b c : c12_ple a b -> c12_ple b c -> c12_ple a c.
Proof. intros [A1 A2] [B1 B2]. split; eapply incl_tran; eauto. Qed.

Lemma c12_py_imports_insert_in m k v x :
  In x (flat_map snd (py_imports_insert m k v)) <-> x = v \/ In x (flat_map snd m).
Proof.
  induction m as [|[a s] r IH]; cbn [py_imports_insert flat_map snd].
  - cbn. intuition.
  - destruct (str_eqb a k).
    + cbn [flat_map snd]. rewrite !in_app_iff, c12_sset_insert_in. intuition.
    + destruct (str_ltb k a); cbn [flat_map snd]; rewrite ?in_app_iff, ?IH; cbn; intuition.
Qed.

(* the names of the fixed vocabulary that a piece of output spells are imported *)
Definition c12_py_imp (u : str) (s : py_state) : Prop := In u (c12_py_imported s).

Lemma c12_py_imp_up u s s' : c12_py_imp u s -> c12_ple s s' -> c12_py_imp u s'.
Proof. unfold c12_py_imp. intros H [L _]. apply L, H. Qed.

Section PY.
Variable uc : unicode.
Variable cfg : py_config.

Ltac c12_ret H := unfold ret in H; injection H as <- <-.

Lemma c12_py_add_import_spec m i s u s' : py_add_import m i s = Ok (u, s') -> c12_ple s s' /\ c12_py_imp i s'.
Proof.
  unfold py_add_import, mbind, mget, mput. intros [= _ <-]. unfold c12_ple, c12_py_imp, c12_py_imported. cbn [py_imports py_type_variables].
  split; [split; [|apply incl_refl]|]; [intros x Hx|]; apply c12_py_imports_insert_in; auto.
Qed.

Lemma c12_py_add_custom_spec t s u s' : py_add_custom_type t s = Ok (u, s') -> c12_ple s s'.
Proof. unfold py_add_custom_type, mbind, mget, mput. intros [= _ <-]. split; cbn; apply incl_refl. Qed.

Lemma c12_py_add_type_var_spec n s u s' :
  py_add_type_var n s = Ok (u, s') -> c12_ple s s' /\ In n (py_type_variables s').
Proof.
  unfold py_add_type_var. intros H. apply mbind_ok in H as (u1 & s1 & E1 & H). apply c12_py_add_import_spec in E1 as [L1 _].
  unfold mbind, mget, mput in H. injection H as _ <-. cbn [py_type_variables]. split.
  - eapply c12_ple_trans; [exact L1|]. split; [apply incl_refl|]. cbn [py_type_variables]. intros x Hx. apply c12_sset_insert_in. auto.
  - apply c12_sset_insert_in. auto.
Qed.

Lemma c12_py_add_type_vars_spec ns : forall s u s',
  py_add_type_vars ns s = Ok (u, s') -> c12_ple s s' /\ incl ns (py_type_variables s').
Proof.
  induction ns as [|n ns IH]; intros s u s' H; cbn [py_add_type_vars] in H.
  - c12_ret H. split; [apply c12_ple_refl|intros x []].
  - apply mbind_ok in H as (u1 & s1 & E1 & H). apply c12_py_add_type_var_spec in E1 as [L1 I1].
    destruct (IH _ _ _ H) as [L2 I2]. split; [eapply c12_ple_trans; eauto|].
    intros x [<-|Hx]; [apply L2, I1|auto].
Qed.

Lemma c12_py_add_imports_spec tp s u s' : py_add_imports tp s = Ok (u, s') -> c12_ple s s'.
Proof.
  unfold py_add_imports. destruct (str_eqb tp (lit "Url")); [intros H; now apply c12_py_add_import_spec in H|].
  destruct (str_eqb tp (lit "DateTime")); [intros H; now apply c12_py_add_import_spec in H|].
  intros H. c12_ret H. apply c12_ple_refl.
Qed.

Definition c12_py_id_ok (id : str) : Prop := ~ In id c12_py_reserved.

(* fixed-vocabulary names spelled in a translated type are imported *)
Definition c12_py_Qt (x : texp) (s : py_state) : Prop :=
  forall u, In u (c12_py_tnames x) -> In u c12_py_fixed -> c12_py_imp u s.
Lemma c12_py_Qt_up x s s' : c12_py_Qt x s -> c12_ple s s' -> c12_py_Qt x s'.
Proof. unfold c12_py_Qt, c12_py_imp. intros Q [L _] u Hu Hf. apply L. auto. Qed.

Lemma c12_py_special_mapped t (k : M py_state texp) s x s' :
  (forall s x s', k s = Ok (x, s') -> c12_ple s s' /\ c12_py_Qt x s') ->
  match tmap_get (py_type_mappings cfg) (rtype_display t) with
  | Some mapped =>
    mbind (if py_is_some (py_json_translation_for_type mapped) then py_add_custom_type mapped else ret tt)
          (fun _ => ret (XRaw mapped))
  | None => k
  end s = Ok (x, s') -> c12_ple s s' /\ c12_py_Qt x s'.
Proof.
  intros Hk. destruct (tmap_get (py_type_mappings cfg) (rtype_display t)); [|apply Hk].
  intros H. apply mbind_ok in H as (u & s1 & E & H). c12_ret H. split; [|intros u0 []].
  destruct (py_is_some _); [eapply c12_py_add_custom_spec; eauto|c12_ret E; apply c12_ple_refl].
Qed.

Ltac c12_py_fixed_absurd Hf := apply c12_mem_str_In in Hf; vm_compute in Hf; discriminate Hf.

Lemma c12_py_texp_imports gs t :
  Forall c12_py_id_ok (c12_rtype_ids t) ->
  forall s x s', py_texp cfg gs t s = Ok (x, s') -> c12_ple s s' /\ c12_py_Qt x s'.
Proof.
  assert (Hres : forall id, c12_py_id_ok id -> ~ In id c12_py_fixed).
  { intros id H Hin. apply H. unfold c12_py_reserved. apply in_app_iff. now left. }
  induction t as [id|id ps IH|t IH|t n IH|t IH|k v IHk IHv|t IH|p] using rtype_ind'; intros Hid s x s' H; cbn [py_texp] in H.
  - apply mbind_ok in H as (u & s1 & E & H). apply c12_py_add_imports_spec in E. c12_ret H. split; [exact E|].
    intros u0 Hu Hf. destruct (tmap_get (py_type_mappings cfg) id); cbn [c12_py_tnames flat_map] in Hu; [destruct Hu|].
    destruct Hu as [<-|[]]. inversion Hid as [|? ? Hok _]. exfalso. exact (Hres _ Hok Hf).
  - cbn [c12_rtype_ids] in Hid. apply Forall_cons_iff in Hid as [Hid0 Hids].
    apply mbind_ok in H as (u & s1 & E & H). apply c12_py_add_imports_spec in E.
    destruct (tmap_get (py_type_mappings cfg) id).
    + c12_ret H. split; [exact E|intros u0 []].
    + rewrite c12_go_is_mmapM in H. apply mbind_ok in H as (xs & s2 & Exs & H). c12_ret H.
      apply (c12_mmapM_mono c12_ple c12_ple_refl c12_ple_trans _ c12_py_Qt) in Exs as [L Q].
      * split; [eapply c12_ple_trans; eauto|]. intros u0 Hu Hf. cbn [c12_py_tnames] in Hu.
        destruct Hu as [<-|Hu]; [exfalso; exact (Hres _ Hid0 Hf)|].
        apply in_flat_map in Hu as (y & Hy & Hu). rewrite Forall_forall in Q. exact (Q y Hy u0 Hu Hf).
      * exact c12_py_Qt_up.
      * rewrite Forall_forall in IH |- *. intros t Ht s0 y s0' E0. apply (IH t Ht); [|exact E0].
        rewrite Forall_forall in Hids |- *. intros i Hi. apply Hids. apply in_flat_map. eauto.
  - revert H. apply c12_py_special_mapped. intros s0 x0 s0' H.
    apply mbind_ok in H as (u & s1 & E & H). apply c12_py_add_import_spec in E as [L1 I1].
    apply mbind_ok in H as (e & s2 & Ee & H). c12_ret H. destruct (IH Hid _ _ _ Ee) as [L2 Q2].
    split; [eapply c12_ple_trans; eauto|]. intros u0 Hu Hf. cbn [c12_py_tnames flat_map] in Hu. rewrite ?app_nil_r in Hu.
    destruct Hu as [<-|Hu]; [eapply c12_py_imp_up; [exact I1|exact L2]|exact (Q2 u0 Hu Hf)].
  - revert H. apply c12_py_special_mapped. intros s0 x0 s0' H.
    apply mbind_ok in H as (u & s1 & E & H). apply c12_py_add_import_spec in E as [L1 I1].
    apply mbind_ok in H as (e & s2 & Ee & H). c12_ret H. destruct (IH Hid _ _ _ Ee) as [L2 Q2].
    split; [eapply c12_ple_trans; eauto|]. intros u0 Hu Hf. cbn [c12_py_tnames flat_map] in Hu. rewrite ?app_nil_r in Hu.
    destruct Hu as [<-|Hu]; [eapply c12_py_imp_up; [exact I1|exact L2]|exact (Q2 u0 Hu Hf)].
  - revert H. apply c12_py_special_mapped. intros s0 x0 s0' H.
    apply mbind_ok in H as (u & s1 & E & H). apply c12_py_add_import_spec in E as [L1 I1].
    apply mbind_ok in H as (e & s2 & Ee & H). c12_ret H. destruct (IH Hid _ _ _ Ee) as [L2 Q2].
    split; [eapply c12_ple_trans; eauto|]. intros u0 Hu Hf. cbn [c12_py_tnames flat_map] in Hu. rewrite ?app_nil_r in Hu.
    destruct Hu as [<-|Hu]; [eapply c12_py_imp_up; [exact I1|exact L2]|exact (Q2 u0 Hu Hf)].
  - revert H. apply c12_py_special_mapped. intros s0 x0 s0' H.
    cbn [c12_rtype_ids] in Hid. apply Forall_app in Hid as [Hk Hv].
    apply mbind_ok in H as (u & s1 & E & H). apply c12_py_add_import_spec in E as [L1 I1].
    apply mbind_ok in H as (ke & s2 & Ek & H). apply mbind_ok in H as (ve & s3 & Ev & H). c12_ret H.
    assert (Ek' : py_texp cfg gs k s1 = Ok (ke, s2)).
    { destruct k; try exact Ek. destruct (mem_str id gs); [discriminate Ek|exact Ek]. }
    destruct (IHk Hk _ _ _ Ek') as [L2 Q2]. destruct (IHv Hv _ _ _ Ev) as [L3 Q3].
    split; [eapply c12_ple_trans; [exact L1|eapply c12_ple_trans; eauto]|].
    intros u0 Hu Hf. cbn [c12_py_tnames flat_map] in Hu. rewrite app_nil_r in Hu.
    destruct Hu as [<-|Hu]; [eapply c12_py_imp_up; [eapply c12_py_imp_up; [exact I1|exact L2]|exact L3]|].
    apply in_app_iff in Hu as [Hu|Hu]; [eapply c12_py_imp_up; [exact (Q2 u0 Hu Hf)|exact L3]|exact (Q3 u0 Hu Hf)].
  - revert H. apply c12_py_special_mapped. intros s0 x0 s0' H.
    apply mbind_ok in H as (u & s1 & E & H). apply c12_py_add_import_spec in E as [L1 I1].
    apply mbind_ok in H as (e & s2 & Ee & H). c12_ret H. destruct (IH Hid _ _ _ Ee) as [L2 Q2].
    split; [eapply c12_ple_trans; eauto|]. intros u0 Hu Hf. cbn [c12_py_tnames flat_map] in Hu. rewrite ?app_nil_r in Hu.
    destruct Hu as [<-|Hu]; [eapply c12_py_imp_up; [exact I1|exact L2]|exact (Q2 u0 Hu Hf)].
  - revert H. apply c12_py_special_mapped. intros s0 x0 s0' H.
    destruct p; try (c12_ret H; split; [apply c12_ple_refl|]; intros u0 [<-|[]] Hf; c12_py_fixed_absurd Hf).
    apply mbind_ok in H as (u & s1 & E & H). apply c12_py_add_import_spec in E as [L1 I1]. c12_ret H.
    split; [exact L1|]. intros u0 [<-|[]] _. exact I1.
Qed.

(* ---- declarations ---- *)
Variable tvs : list str.
Definition c12_py_fn_names : list str :=
  [lit "serialize_binary_data"; lit "deserialize_binary_data"; lit "serialize_datetime_data"; lit "parse_rfc3339"].
(* a used name is a type-variable name of the program, a (de)serialiser function name, a TypeVar the
   header declares, or imported *)
Definition c12_py_ok (u : str) (s : py_state) : Prop :=
  In u tvs \/ In u c12_py_fn_names \/ In u (py_type_variables s) \/ c12_py_imp u s.
Lemma c12_py_ok_up u s s' : c12_py_ok u s -> c12_ple s s' -> c12_py_ok u s'.
Proof.
  unfold c12_py_ok. intros [H|[H|[H|H]]] L; auto.
  - right. right. left. apply (proj2 L), H.
  - right. right. right. eapply c12_py_imp_up; eauto.
Qed.
Definition c12_py_all (l : list str) (s : py_state) : Prop := forall u, In u l -> c12_py_ok u s.
Lemma c12_py_all_up l s s' : c12_py_all l s -> c12_ple s s' -> c12_py_all l s'.
Proof. intros H L u Hu. eapply c12_py_ok_up; eauto. Qed.

Lemma c12_py_tuses_ok x s : c12_py_Qt x s -> c12_py_all (c12_py_tuses tvs x) s.
Proof.
  intros Q u Hu. unfold c12_py_tuses in Hu. apply filter_In in Hu as [Hn Hb]. apply orb_true_iff in Hb as [Hb|Hb].
  - right. right. right. apply Q; [exact Hn|]. now apply c12_mem_str_In.
  - left. now apply c12_mem_str_In.
Qed.

Lemma c12_py_common_spec a b c s u s' :
  py_add_common_imports a b c s = Ok (u, s') ->
  c12_ple s s' /\ (a = true -> c12_py_imp (lit "Optional") s') /\
  (b = true -> c12_py_imp (lit "Annotated") s' /\ c12_py_imp (lit "BeforeValidator") s' /\ c12_py_imp (lit "PlainSerializer") s') /\
  (c || a = true -> c12_py_imp (lit "Field") s').
Proof.
  unfold py_add_common_imports. intros H.
  apply mbind_ok in H as (u1 & s1 & E1 & H). apply mbind_ok in H as (u2 & s2 & E2 & H).
  assert (A1 : c12_ple s s1 /\ (a = true -> c12_py_imp (lit "Optional") s1)).
  { destruct a; [apply c12_py_add_import_spec in E1 as [L I]; auto|c12_ret E1; split; [apply c12_ple_refl|discriminate]]. }
  assert (A2 : c12_ple s1 s2 /\ (b = true -> c12_py_imp (lit "Annotated") s2 /\ c12_py_imp (lit "BeforeValidator") s2 /\ c12_py_imp (lit "PlainSerializer") s2)).
  { destruct b; [|c12_ret E2; split; [apply c12_ple_refl|discriminate]].
    apply mbind_ok in E2 as (v1 & t1 & F1 & E2). apply mbind_ok in E2 as (v2 & t2 & F2 & E2).
    apply c12_py_add_import_spec in F1 as [M1 J1]. apply c12_py_add_import_spec in F2 as [M2 J2]. apply c12_py_add_import_spec in E2 as [M3 J3].
    split; [eapply c12_ple_trans; [exact M1|eapply c12_ple_trans; eauto]|]. intros _. repeat split; [exact J3| |eapply c12_py_imp_up; eauto].
    eapply c12_py_imp_up; [eapply c12_py_imp_up; eauto|exact M3]. }
  assert (A3 : c12_ple s2 s' /\ (c || a = true -> c12_py_imp (lit "Field") s')).
  { destruct (c || a); [apply c12_py_add_import_spec in H as [L I]; auto|c12_ret H; split; [apply c12_ple_refl|discriminate]]. }
  destruct A1 as [L1 I1], A2 as [L2 I2], A3 as [L3 I3].
  split; [eapply c12_ple_trans; [exact L1|eapply c12_ple_trans; eauto]|]. split; [|split; [|exact I3]].
  - intros Ha. eapply c12_py_imp_up; [eapply c12_py_imp_up; [exact (I1 Ha)|exact L2]|exact L3].
  - intros Hb. destruct (I2 Hb) as (J1 & J2 & J3). repeat split; eapply c12_py_imp_up; eauto.
Qed.

Lemma c12_py_translation_names t ct : py_json_translation_for_type t = Some ct ->
  In (py_de_name ct) c12_py_fn_names /\ In (py_ser_name ct) c12_py_fn_names.
Proof.
  unfold py_json_translation_for_type. destruct (str_eqb t (lit "bytes")); [intros [= <-]; vm_compute; auto|].
  destruct (str_eqb t (lit "datetime")); [intros [= <-]; vm_compute; auto 10|discriminate].
Qed.

Definition c12_py_Qm (m : py_member) (s : py_state) : Prop := c12_py_all (c12_py_member_uses tvs m) s.

Lemma c12_py_member_flag gs f :
  Forall c12_py_id_ok (c12_rtype_ids (fty f)) ->
  forall s m s', py_member_of uc cfg gs f s = Ok (m, s') -> c12_ple s s' /\ c12_py_Qm m s'.
Proof.
  intros Hid s m s' H. unfold py_member_of in H.
  apply mbind_ok in H as (ty & s1 & Ety & H). destruct (c12_py_texp_imports _ _ Hid _ _ _ Ety) as [L1 Q1].
  apply mbind_ok in H as (u & s2 & Ec & H). apply c12_py_common_spec in Ec as (L2 & IO & IA & IF).
  apply mbind_ok in H as (ann & s3 & Ea & H). c12_ret H.
  assert (L3 : c12_ple s2 s3).
  { destruct (py_json_translation_for_type (py_show ty)); [|c12_ret Ea; apply c12_ple_refl].
    apply mbind_ok in Ea as (u3 & s4 & E4 & Ea). apply c12_py_add_custom_spec in E4. c12_ret Ea. exact E4. }
  split; [eapply c12_ple_trans; [exact L1|eapply c12_ple_trans; eauto]|].
  unfold c12_py_Qm, c12_py_member_uses. cbn [pym_type pym_annotated pym_alias pym_default_none].
  intros u0 Hu. apply in_app_iff in Hu as [Hu|Hu]; [|apply in_app_iff in Hu as [Hu|Hu]].
  - eapply c12_py_ok_up; [|exact L3].
    assert (Q : c12_py_Qt (if negb (is_optional (fty f)) && has_default f then XOpt ty else ty) s2).
    { destruct (negb (is_optional (fty f)) && has_default f) eqn:En.
      - intros v [<-|Hv] Hf.
        + apply IO. apply andb_true_iff in En as [_ ->]. apply orb_true_r.
        + eapply c12_py_imp_up; [exact (Q1 v Hv Hf)|exact L2].
      - eapply c12_py_Qt_up; eauto. }
    exact (c12_py_tuses_ok _ _ Q u0 Hu).
  - destruct (py_json_translation_for_type (py_show ty)) as [ct|] eqn:Ect.
    + apply mbind_ok in Ea as (u3 & s4 & E4 & Ea). c12_ret Ea.
      destruct (IA eq_refl) as (J1 & J2 & J3). destruct (c12_py_translation_names _ _ Ect) as [N1 N2].
      destruct Hu as [<-|[<-|[<-|[<-|[<-|[]]]]]].
      * right. right. right. eapply c12_py_imp_up; eauto.
      * right. right. right. eapply c12_py_imp_up; eauto.
      * right. right. right. eapply c12_py_imp_up; eauto.
      * right. left. exact N1.
      * right. left. exact N2.
    + c12_ret Ea. destruct Hu.
  - right. right. right. eapply c12_py_imp_up; [|exact L3].
    destruct (_ || _) eqn:Eb in Hu; [|destruct Hu]. destruct Hu as [<-|[]]. apply IF.
    apply orb_true_iff in Eb as [Eb|Eb].
    + destruct (negb (str_eqb _ _)); [reflexivity|discriminate Eb].
    + apply orb_true_iff in Eb as [Eb|Eb]; [rewrite Eb; apply orb_true_r|].
      apply andb_true_iff in Eb as [_ Eb]. rewrite Eb, !orb_true_r. reflexivity.
Qed.

Definition c12_py_Qd (d : py_decl) (s : py_state) : Prop := c12_py_all (c12_py_decl_uses tvs d) s.
Lemma c12_py_Qd_up d s s' : c12_py_Qd d s -> c12_ple s s' -> c12_py_Qd d s'.
Proof. apply c12_py_all_up. Qed.
Definition c12_py_Qds (ds : list py_decl) (s : py_state) : Prop := Forall (fun d => c12_py_Qd d s) ds.
Lemma c12_py_Qds_up ds s s' : c12_py_Qds ds s -> c12_ple s s' -> c12_py_Qds ds s'.
Proof. unfold c12_py_Qds. intros Q L. eapply Forall_impl; [|exact Q]. cbn. intros d Qd. eapply c12_py_Qd_up; eauto. Qed.

Lemma c12_py_populate_spec fs s b s' :
  py_populate_by_name uc fs s = Ok (b, s') -> c12_ple s s' /\ (b = true -> c12_py_imp (lit "ConfigDict") s').
Proof.
  unfold py_populate_by_name. destruct (existsb _ fs).
  - intros H. apply mbind_ok in H as (u & s1 & E & H). apply c12_py_add_import_spec in E as [L I]. c12_ret H. auto.
  - intros H. c12_ret H. split; [apply c12_ple_refl|discriminate].
Qed.

Definition c12_py_fields_ok (fs : list rfield) : Prop := Forall (fun f => Forall c12_py_id_ok (c12_rtype_ids (fty f))) fs.

Lemma c12_py_class_flag rs :
  c12_py_fields_ok (sfields rs) ->
  forall s d s', py_class_of uc cfg rs s = Ok (d, s') -> c12_ple s s' /\ c12_py_Qd d s'.
Proof.
  intros Hid s d s' H. unfold py_class_of in H.
  apply mbind_ok in H as (u1 & s1 & E1 & H). apply c12_py_add_import_spec in E1 as [L1 I1].
  apply mbind_ok in H as (u2 & s2 & E2 & H). apply c12_py_add_type_vars_spec in E2 as [L2 I2].
  apply mbind_ok in H as (u3 & s3 & E3 & H).
  assert (A3 : c12_ple s2 s3 /\ (sgenerics rs <> [] -> c12_py_imp (lit "Generic") s3)).
  { destruct (sgenerics rs); [c12_ret E3; split; [apply c12_ple_refl|congruence]|].
    apply c12_py_add_import_spec in E3 as [L I]. auto. }
  destruct A3 as [L3 I3].
  apply mbind_ok in H as (config & s4 & E4 & H). apply c12_py_populate_spec in E4 as [L4 I4].
  apply mbind_ok in H as (ms & s5 & E5 & H). c12_ret H.
  apply (c12_mmapM_mono c12_ple c12_ple_refl c12_ple_trans _ c12_py_Qm) in E5 as [L5 Q5].
  2: { intros y a b Qy Lab. eapply c12_py_all_up; eauto. }
  2: { eapply Forall_impl; [|exact Hid]. cbn. intros f Hf. apply c12_py_member_flag. exact Hf. }
  assert (M4 : c12_ple s4 s5) by exact L5.
  assert (M3 : c12_ple s3 s5) by (eapply c12_ple_trans; eauto).
  assert (M2 : c12_ple s2 s5) by (eapply c12_ple_trans; eauto).
  assert (M1 : c12_ple s1 s5) by (eapply c12_ple_trans; eauto).
  split; [eapply c12_ple_trans; eauto|].
  intros u0 Hu. cbn [c12_py_decl_uses] in Hu. destruct Hu as [<-|Hu].
  { right. right. right. eapply c12_py_imp_up; eauto. }
  apply in_app_iff in Hu as [Hu|Hu].
  { destruct (sgenerics rs) as [|g gs] eqn:Eg; [destruct Hu|]. destruct Hu as [<-|Hu].
    - right. right. right. eapply c12_py_imp_up; [apply I3; congruence|exact M3].
    - right. right. left. apply (proj2 M2). apply I2. exact Hu. }
  apply in_app_iff in Hu as [Hu|Hu].
  { destruct config; [|destruct Hu]. destruct Hu as [<-|[]]. right. right. right. eapply c12_py_imp_up; [apply I4; reflexivity|exact M4]. }
  apply in_flat_map in Hu as (m & Hm & Hu). rewrite Forall_forall in Q5. exact (Q5 m Hm u0 Hu).
Qed.

Lemma c12_py_inner_flag e vs :
  Forall (fun v => Forall (fun t => Forall c12_py_id_ok (c12_rtype_ids t)) (c12_variant_types v)) vs ->
  forall s ds s', py_inner_classes_of uc cfg e vs s = Ok (ds, s') -> c12_ple s s' /\ c12_py_Qds ds s'.
Proof.
  induction 1 as [|v vs Hv Hvs IH]; intros s ds s' H; cbn [py_inner_classes_of] in H.
  - c12_ret H. split; [apply c12_ple_refl|constructor].
  - destruct v as [vsh|t vsh|fs vsh]; try (exact (IH _ _ _ H)).
    apply mbind_ok in H as (c & s1 & Ec & H). apply mbind_ok in H as (cs & s2 & Ecs & H). c12_ret H.
    apply c12_py_class_flag in Ec as [L1 Q1].
    + destruct (IH _ _ _ Ecs) as [L2 Q2]. split; [eapply c12_ple_trans; eauto|].
      constructor; [eapply c12_py_Qd_up; eauto|exact Q2].
    + unfold c12_py_fields_ok. cbn [anon_struct sfields]. cbn [c12_variant_types] in Hv. rewrite Forall_map in Hv. exact Hv.
Qed.

Definition c12_py_Qv (v : py_variant) (s : py_state) : Prop :=
  c12_py_imp (lit "Literal") s /\ match pyv_content v with PYCType ty => c12_py_Qt ty s | _ => True end.

Lemma c12_py_variant_flag en tn sh v :
  Forall (fun t => Forall c12_py_id_ok (c12_rtype_ids t)) (c12_variant_types v) ->
  forall s d s', py_variant_of uc cfg en tn sh v s = Ok (d, s') -> c12_ple s s' /\ c12_py_Qv d s'.
Proof.
  intros Hid s d s' H. unfold py_variant_of in H. destruct v as [vsh|t vsh|fs vsh].
  - apply mbind_ok in H as (u & s1 & E & H). apply c12_py_add_import_spec in E as [L J]. c12_ret H.
    split; [exact L|split; [exact J|exact Logic.I]].
  - apply mbind_ok in H as (tn0 & s1 & Et & H). cbn [c12_variant_types] in Hid. apply Forall_cons_iff in Hid as [Ht _].
    destruct (c12_py_texp_imports _ _ Ht _ _ _ Et) as [L1 Q1].
    apply mbind_ok in H as (u & s2 & E & H). apply c12_py_add_import_spec in E as [L2 I2]. c12_ret H.
    split; [eapply c12_ple_trans; eauto|]. split; [exact I2|]. cbn [pyv_content]. eapply c12_py_Qt_up; eauto.
  - apply mbind_ok in H as (u & s1 & E & H). apply c12_py_add_import_spec in E as [L J]. c12_ret H.
    split; [exact L|split; [exact J|exact Logic.I]].
Qed.

Lemma c12_py_Qv_up v s s' : c12_py_Qv v s -> c12_ple s s' -> c12_py_Qv v s'.
Proof.
  unfold c12_py_Qv. intros [A B] L. split; [eapply c12_py_imp_up; eauto|].
  destruct (pyv_content v); auto. eapply c12_py_Qt_up; eauto.
Qed.

Lemma c12_variant_types_Forall2 (P : rtype -> Prop) vs :
  Forall P (flat_map c12_variant_types vs) -> Forall (fun v => Forall P (c12_variant_types v)) vs.
Proof.
  induction vs as [|v vs IH]; cbn [flat_map]; [constructor|].
  intros H. apply Forall_app in H as [H1 H2]. constructor; auto.
Qed.

Lemma c12_py_algebraic_flag tag content en sh :
  Forall (fun v => Forall (fun t => Forall c12_py_id_ok (c12_rtype_ids t)) (c12_variant_types v)) (evariants sh) ->
  forall s d s', py_algebraic_of uc cfg tag content en sh s = Ok (d, s') -> c12_ple s s' /\ c12_py_Qd d s'.
Proof.
  intros Hid s d s' H. unfold py_algebraic_of in H.
  apply mbind_ok in H as (u1 & s1 & E1 & H). apply c12_py_add_type_vars_spec in E1 as [L1 _].
  apply mbind_ok in H as (u2 & s2 & E2 & H). apply c12_py_add_import_spec in E2 as [L2 I2].
  apply mbind_ok in H as (u3 & s3 & E3 & H). apply c12_py_add_import_spec in E3 as [L3 I3].
  apply mbind_ok in H as (vs & s4 & E4 & H). apply mbind_ok in H as (u5 & s5 & E5 & H). c12_ret H.
  apply (c12_mmapM_mono c12_ple c12_ple_refl c12_ple_trans _ c12_py_Qv _ c12_py_Qv_up) in E4 as [L4 Q4].
  2: { eapply Forall_impl; [|exact Hid]. cbn. intros v Hv s0 y s0' E0. exact (c12_py_variant_flag _ _ _ _ Hv _ _ _ E0). }
  assert (A5 : c12_ple s4 s5 /\ (match vs with [_] => False | _ => True end -> c12_py_imp (lit "Union") s5)).
  { destruct vs as [|v0 [|v1 r]].
    - apply c12_py_add_import_spec in E5 as [L J]. auto.
    - c12_ret E5. split; [apply c12_ple_refl|intros []].
    - apply c12_py_add_import_spec in E5 as [L J]. auto. }
  destruct A5 as [L5 I5].
  assert (M3 : c12_ple s3 s5) by (eapply c12_ple_trans; eauto).
  assert (M2 : c12_ple s2 s5) by (eapply c12_ple_trans; eauto).
  split; [eapply c12_ple_trans; [exact L1|eapply c12_ple_trans; eauto]|].
  intros u0 Hu. cbn [c12_py_decl_uses] in Hu. destruct Hu as [<-|Hu].
  { right. right. right. eapply c12_py_imp_up; eauto. }
  apply in_app_iff in Hu as [Hu|Hu].
  - apply in_flat_map in Hu as (v & Hv & Hu). rewrite Forall_forall in Q4. destruct (Q4 v Hv) as [QL QT].
    destruct Hu as [<-|[<-|Hu]].
    + right. right. right. eapply c12_py_imp_up; eauto.
    + right. right. right. eapply c12_py_imp_up; eauto.
    + destruct (pyv_content v); try contradiction. eapply c12_py_ok_up; [exact (c12_py_tuses_ok _ _ QT u0 Hu)|exact L5].
  - right. right. right. destruct vs as [|v0 [|v1 r]]; try (destruct Hu as [<-|[]]; apply I5; exact Logic.I). destruct Hu.
Qed.

Definition c12_py_item_ok (it : ritem) : Prop :=
  Forall (fun t => Forall c12_py_id_ok (c12_rtype_ids t)) (c12_item_types it) /\
  match it with ItAlias a => incl (agenerics a) tvs | _ => True end.

Lemma c12_py_decl_flag it :
  c12_py_item_ok it ->
  forall s ds s', py_decl_of uc cfg it s = Ok (ds, s') -> c12_ple s s' /\ c12_py_Qds ds s'.
Proof.
  intros [Hid Hg] s ds s' H. destruct it as [rs|e|a|c]; cbn [py_decl_of] in H.
  - apply mbind_ok in H as (d & s1 & E & H). c12_ret H.
    apply c12_py_class_flag in E as [L Q]; [split; [exact L|constructor; [exact Q|constructor]]|].
    unfold c12_py_fields_ok. cbn [c12_item_types] in Hid. rewrite Forall_map in Hid. exact Hid.
  - cbn [c12_item_types] in Hid. apply c12_variant_types_Forall2 in Hid.
    apply mbind_ok in H as (inners & s1 & Ei & H). apply c12_py_inner_flag in Ei as [L1 Q1]; [|exact Hid].
    destruct e as [sh|tag content sh]; cbn [enum_shared] in *.
    + apply mbind_ok in H as (u2 & s2 & E2 & H). apply c12_py_add_import_spec in E2 as [L2 I2].
      apply mbind_ok in H as (vs & s3 & E3 & H). c12_ret H.
      assert (L3 : c12_ple s2 s3).
      { eapply (c12_mmapM_le c12_ple c12_ple_refl c12_ple_trans); [|exact E3]. apply Forall_forall. intros v _ s0 y s0' E0.
        unfold py_unit_variant_of in E0. destruct v; try discriminate E0. c12_ret E0. apply c12_ple_refl. }
      split; [eapply c12_ple_trans; [exact L1|eapply c12_ple_trans; eauto]|]. unfold c12_py_Qds. apply Forall_app. split.
      * apply (c12_py_Qds_up _ _ _ Q1). eapply c12_ple_trans; eauto.
      * constructor; [|constructor]. intros u0 [<-|[]]. right. right. right. eapply c12_py_imp_up; eauto.
    + apply mbind_ok in H as (d & s2 & E2 & H). c12_ret H.
      apply c12_py_algebraic_flag in E2 as [L2 Q2]; [|exact Hid].
      split; [eapply c12_ple_trans; eauto|]. unfold c12_py_Qds. apply Forall_app. split.
      * exact (c12_py_Qds_up _ _ _ Q1 L2).
      * constructor; [exact Q2|constructor].
  - apply mbind_ok in H as (ty & s1 & E & H). c12_ret H.
    cbn [c12_item_types] in Hid. apply Forall_cons_iff in Hid as [Ht _].
    destruct (c12_py_texp_imports _ _ Ht _ _ _ E) as [L Q]. split; [exact L|]. constructor; [|constructor].
    intros u0 Hu. cbn [c12_py_decl_uses] in Hu. apply in_app_iff in Hu as [Hu|Hu]; [left; apply Hg, Hu|].
    exact (c12_py_tuses_ok _ _ Q u0 Hu).
  - apply mbind_ok in H as (ty & s1 & E & H). c12_ret H.
    cbn [c12_item_types] in Hid. apply Forall_cons_iff in Hid as [Ht _].
    destruct (c12_py_texp_imports _ _ Ht _ _ _ E) as [L Q]. split; [exact L|]. constructor; [|constructor].
    intros u0 Hu. cbn [c12_py_decl_uses] in Hu. exact (c12_py_tuses_ok _ _ Q u0 Hu).
Qed.

Lemma c12_py_items_flag items :
  Forall c12_py_item_ok items ->
  forall s dss s', mmapM (py_decl_of uc cfg) items s = Ok (dss, s') ->
    forall u, In u (flat_map (c12_py_decl_uses tvs) (List.concat dss)) -> c12_py_ok u s'.
Proof.
  intros Hid s dss s' H u Hu.
  apply (c12_mmapM_mono c12_ple c12_ple_refl c12_ple_trans _ c12_py_Qds _ c12_py_Qds_up) in H as [_ Q].
  - apply in_flat_map in Hu as (d & Hd & Hu). apply in_concat in Hd as (l & Hl & Hd).
    rewrite Forall_forall in Q. specialize (Q l Hl). unfold c12_py_Qds in Q. rewrite Forall_forall in Q. exact (Q d Hd u Hu).
  - eapply Forall_impl; [|exact Hid]. cbn. intros it Hit. apply c12_py_decl_flag. exact Hit.
Qed.
End PY.

(* PARTIAL theorem for the file: every name the declarations of the body use is a generic parameter
   name of the program, one of the four (de)serialiser function names, or is defined / imported by
   the header.  Missing for the full property: that generic parameter names have their TypeVar (true
   outside C12-python-alias-typevar), that the function names are defined (true outside
   C12-python-default-translation), and the header's own uses (TypeVar, datetime). *)
Theorem c12_py_file_partial uc cfg pd ds st :
  py_decls uc cfg pd = Ok (ds, st) -> c12_py_dom cfg (items_of pd) = true ->
  forall u, In u (flat_map (c12_py_decl_uses (c12_py_tv_vocab (items_of pd))) ds) ->
    In u (c12_py_tv_vocab (items_of pd)) \/ In u c12_py_fn_names \/
    In u (c12_py_defs (py_type_variables st) (c12_py_fns st) (c12_py_imported st)).
Proof.
  unfold py_decls. intros H Hdom u Hu. apply c12_bind_ok in H as (items & Et & H).
  apply c12_topsort_perm in Et.
  destruct (mmapM (py_decl_of uc cfg) items py_empty_state) as [[dss st']| |] eqn:E; try discriminate H.
  injection H as <- <-.
  unfold c12_py_dom in Hdom. apply andb_true_iff in Hdom as [Hids _].
  assert (Hok : Forall (c12_py_item_ok (c12_py_tv_vocab (items_of pd))) items).
  { apply Forall_forall. intros it Hit. assert (Hit' : In it (items_of pd)) by (eapply Permutation_in; eauto).
    destruct (c12_ids_avoid_spec _ _ _ Hids it Hit') as [Hi _]. split.
    - apply Forall_forall. intros t Ht. apply Forall_forall. intros id Hid. apply (Hi id).
      unfold c12_item_ids. apply in_flat_map. eauto.
    - destruct it as [| |a|]; auto. intros g Hg. unfold c12_py_tv_vocab. apply in_flat_map. exists (ItAlias a). auto. }
  destruct (c12_py_items_flag uc cfg _ _ Hok _ _ _ E u Hu) as [A|[A|[A|A]]]; auto.
  - right. right. unfold c12_py_defs. apply in_app_iff. now left.
  - right. right. unfold c12_py_defs. rewrite !in_app_iff. right. right. exact A.
Qed.
