(* C12, Python: the body is formatted into a side buffer while imports / type_variables /
   types_for_custom_json_translation accumulate; the header (imports, TypeVar lines, helper
   functions) is written afterwards from what accumulated.  The accumulators only grow; every
   formatter and writer inserts the import at the place where it prints the name.
   c12_py_file: the WHOLE file (header + body) outside the two recorded classes.  Shape of the proof:
   a preorder c12_ple on py_state (accumulators grow; a type variable enters only with the TypeVar
   import; the text `datetime` enters the translation set only next to the datetime import); every
   writer w satisfies  w x s = Ok (y, s') -> c12_ple s s' /\ Q y s' /\ R x s'  where Q says that the
   names the OUTPUT y uses are provided at s' and R says what writing the INPUT x left in s'
   (TypeVars declared, texts registered: the spec's readers c12_py_custom / c12_py_registers); Q and
   R survive later steps; the header is printed from the final state.  c12_py_file_partial (the
   body without class hypothesis) is kept. *)
From Coq Require Import List Bool Permutation.
From TS Require Import Model.Str Model.Outcome Model.Unicode Model.Types Model.Parse Model.TopsortAlgo Model.Topsort
                       Model.Lang.Common Model.Lang.Decl Model.Lang.Python Spec.C12Spec.
From TS Require Import Proofs.BackCommon Proofs.C12Common Proofs.C12Obs Proofs.C12_Go.
Import ListNotations.

Lemma c12_py_imports_insert_in m k v x :
  In x (flat_map snd (py_imports_insert m k v)) <-> x = v \/ In x (flat_map snd m).
Proof.
  induction m as [|[a s] r IH]; cbn [py_imports_insert flat_map snd].
  - cbn. intuition.
  - destruct (str_eqb a k).
    + cbn [flat_map snd]. rewrite !in_app_iff, c12_sset_insert_in. intuition.
    + destruct (str_ltb k a); cbn [flat_map snd]; rewrite ?in_app_iff, ?IH; cbn; intuition.
Qed.

(* the names of the fixed vocabulary that a piece of output spells are imported *)
Definition c12_py_imp (u : str) (s : py_state) : Prop := In u (c12_py_imported s).

Section PY.
Variable uc : unicode.
Variable cfg : py_config.

(* some Rust name is mapped to the text `datetime` (excluded by c12_py_dom) *)
Definition c12_py_maps_dt : Prop := exists k, tmap_get (py_type_mappings cfg) k = Some (lit "datetime").

(* the preorder on states: the three accumulators only grow; a type variable is only ever added
   together with the TypeVar import; `datetime` only ever enters the translation set next to the
   datetime import (or because the configuration maps a name to the text `datetime`) *)
Definition c12_ple (s s' : py_state) : Prop :=
  incl (c12_py_imported s) (c12_py_imported s') /\
  incl (py_type_variables s) (py_type_variables s') /\
  incl (py_custom_types s) (py_custom_types s') /\
  (forall x, In x (py_type_variables s') -> In x (py_type_variables s) \/ In (lit "TypeVar") (c12_py_imported s')) /\
  (In (lit "datetime") (py_custom_types s') ->
   In (lit "datetime") (py_custom_types s) \/ In (lit "datetime") (c12_py_imported s') \/ c12_py_maps_dt).
Lemma c12_ple_refl s : c12_ple s s.
Proof. repeat split; try apply incl_refl; auto. Qed.
Lemma c12_ple_trans a b c : c12_ple a b -> c12_ple b c -> c12_ple a c.
Proof.
  intros (A1 & A2 & A3 & A4 & A5) (B1 & B2 & B3 & B4 & B5). repeat split; try (eapply incl_tran; eauto).
  - intros x Hx. destruct (B4 x Hx) as [H|H]; [|auto]. destruct (A4 x H) as [K|K]; auto.
  - intros H. destruct (B5 H) as [K|K]; [|auto]. destruct (A5 K) as [J|[J|J]]; auto.
Qed.
Lemma c12_ple_imp s s' : c12_ple s s' -> incl (c12_py_imported s) (c12_py_imported s').
Proof. intros H. apply H. Qed.
Lemma c12_ple_tv s s' : c12_ple s s' -> incl (py_type_variables s) (py_type_variables s').
Proof. intros H. apply H. Qed.
Lemma c12_ple_cu s s' : c12_ple s s' -> incl (py_custom_types s) (py_custom_types s').
Proof. intros H. apply H. Qed.

Lemma c12_py_imp_up u s s' : c12_py_imp u s -> c12_ple s s' -> c12_py_imp u s'.
Proof. unfold c12_py_imp. intros H L. apply (c12_ple_imp _ _ L), H. Qed.

Ltac c12_ret H := unfold ret in H; injection H as <- <-.

Lemma c12_py_add_import_spec m i s u s' : py_add_import m i s = Ok (u, s') -> c12_ple s s' /\ c12_py_imp i s'.
Proof.
  unfold py_add_import, mbind, mget, mput. intros [= _ <-]. unfold c12_ple, c12_py_imp, c12_py_imported.
  cbn [py_imports py_type_variables py_custom_types].
  repeat split; try apply incl_refl; auto; [intros x Hx|]; apply c12_py_imports_insert_in; auto.
Qed.

(* a text enters the translation set; `datetime` only where the datetime import is already there *)
Lemma c12_py_add_custom_spec t s u s' :
  py_add_custom_type t s = Ok (u, s') ->
  (t = lit "datetime" -> c12_py_imp (lit "datetime") s \/ c12_py_maps_dt) ->
  c12_ple s s' /\ In t (py_custom_types s').
Proof.
  unfold py_add_custom_type, mbind, mget, mput. intros [= _ <-] Hdt. unfold c12_ple, c12_py_imp, c12_py_imported in *.
  cbn [py_imports py_type_variables py_custom_types].
  repeat split; try apply incl_refl; auto.
  - intros x Hx. apply c12_sset_insert_in. auto.
  - intros H. apply c12_sset_insert_in in H as [H|H]; [|auto]. right. apply Hdt. now symmetry.
  - apply c12_sset_insert_in. auto.
Qed.

Lemma c12_py_add_type_var_spec n s u s' :
  py_add_type_var n s = Ok (u, s') -> c12_ple s s' /\ In n (py_type_variables s').
Proof.
  unfold py_add_type_var. intros H. apply mbind_ok in H as (u1 & s1 & E1 & H). apply c12_py_add_import_spec in E1 as [L1 I1].
  unfold mbind, mget, mput in H. injection H as _ <-. cbn [py_type_variables]. split.
  - eapply c12_ple_trans; [exact L1|]. unfold c12_ple, c12_py_imported. cbn [py_imports py_type_variables py_custom_types].
    repeat split; try apply incl_refl; auto.
    intros x Hx. apply c12_sset_insert_in. auto.
  - apply c12_sset_insert_in. auto.
Qed.

Lemma c12_py_add_type_vars_spec ns : forall s u s',
  py_add_type_vars ns s = Ok (u, s') -> c12_ple s s' /\ incl ns (py_type_variables s').
Proof.
  induction ns as [|n ns IH]; intros s u s' H; cbn [py_add_type_vars] in H.
  - c12_ret H. split; [apply c12_ple_refl|intros x []].
  - apply mbind_ok in H as (u1 & s1 & E1 & H). apply c12_py_add_type_var_spec in E1 as [L1 I1].
    destruct (IH _ _ _ H) as [L2 I2]. split; [eapply c12_ple_trans; eauto|].
    intros x [<-|Hx]; [apply (c12_ple_tv _ _ L2), I1|auto].
Qed.

Lemma c12_py_add_imports_spec tp s u s' : py_add_imports tp s = Ok (u, s') -> c12_ple s s'.
Proof.
  unfold py_add_imports. destruct (str_eqb tp (lit "Url")); [intros H; now apply c12_py_add_import_spec in H|].
  destruct (str_eqb tp (lit "DateTime")); [intros H; now apply c12_py_add_import_spec in H|].
  intros H. c12_ret H. apply c12_ple_refl.
Qed.

Definition c12_py_id_ok (id : str) : Prop := ~ In id c12_py_reserved.

(* fixed-vocabulary names spelled in a translated type are imported *)
Definition c12_py_Qt (x : texp) (s : py_state) : Prop :=
  forall u, In u (c12_py_tnames x) -> In u c12_py_fixed -> c12_py_imp u s.
Lemma c12_py_Qt_up x s s' : c12_py_Qt x s -> c12_ple s s' -> c12_py_Qt x s'.
Proof. unfold c12_py_Qt. intros Q L u Hu Hf. eapply c12_py_imp_up; eauto. Qed.

Lemma c12_py_special_mapped t (k : M py_state texp) s x s' :
  (forall s x s', k s = Ok (x, s') -> c12_ple s s' /\ c12_py_Qt x s') ->
  match tmap_get (py_type_mappings cfg) (rtype_display t) with
  | Some mapped =>
    mbind (if py_is_some (py_json_translation_for_type mapped) then py_add_custom_type mapped else ret tt)
          (fun _ => ret (XRaw mapped))
  | None => k
  end s = Ok (x, s') -> c12_ple s s' /\ c12_py_Qt x s'.
Proof.
  intros Hk. destruct (tmap_get (py_type_mappings cfg) (rtype_display t)) as [m|] eqn:Em; [|apply Hk].
  intros H. apply mbind_ok in H as (u & s1 & E & H). c12_ret H. split; [|intros u0 []].
  destruct (py_is_some _); [|c12_ret E; apply c12_ple_refl].
  eapply c12_py_add_custom_spec; [exact E|]. intros ->. right. exists (rtype_display t). exact Em.
Qed.

Ltac c12_py_fixed_absurd Hf := apply c12_mem_str_In in Hf; vm_compute in Hf; discriminate Hf.

Lemma c12_py_texp_imports gs t :
  Forall c12_py_id_ok (c12_rtype_ids t) ->
  forall s x s', py_texp cfg gs t s = Ok (x, s') -> c12_ple s s' /\ c12_py_Qt x s'.
Proof.
  assert (Hres : forall id, c12_py_id_ok id -> ~ In id c12_py_fixed).
  { intros id H Hin. apply H. unfold c12_py_reserved. apply in_app_iff. now left. }
  induction t as [id|id ps IH|t IH|t n IH|t IH|k v IHk IHv|t IH|p] using rtype_ind'; intros Hid s x s' H; cbn [py_texp] in H.
  - apply mbind_ok in H as (u & s1 & E & H). apply c12_py_add_imports_spec in E. c12_ret H. split; [exact E|].
    intros u0 Hu Hf. destruct (tmap_get (py_type_mappings cfg) id); cbn [c12_py_tnames flat_map] in Hu; [destruct Hu|].
    destruct Hu as [<-|[]]. inversion Hid as [|? ? Hok _]. exfalso. exact (Hres _ Hok Hf).
  - cbn [c12_rtype_ids] in Hid. apply Forall_cons_iff in Hid as [Hid0 Hids].
    apply mbind_ok in H as (u & s1 & E & H). apply c12_py_add_imports_spec in E.
    destruct (tmap_get (py_type_mappings cfg) id).
    + c12_ret H. split; [exact E|intros u0 []].
    + rewrite c12_go_is_mmapM in H. apply mbind_ok in H as (xs & s2 & Exs & H). c12_ret H.
      apply (c12_mmapM_mono c12_ple c12_ple_refl c12_ple_trans _ c12_py_Qt) in Exs as [L Q].
      * split; [eapply c12_ple_trans; eauto|]. intros u0 Hu Hf. cbn [c12_py_tnames] in Hu.
        destruct Hu as [<-|Hu]; [exfalso; exact (Hres _ Hid0 Hf)|].
        apply in_flat_map in Hu as (y & Hy & Hu). rewrite Forall_forall in Q. exact (Q y Hy u0 Hu Hf).
      * exact c12_py_Qt_up.
      * rewrite Forall_forall in IH |- *. intros t Ht s0 y s0' E0. apply (IH t Ht); [|exact E0].
        rewrite Forall_forall in Hids |- *. intros i Hi. apply Hids. apply in_flat_map. eauto.
  - revert H. apply c12_py_special_mapped. intros s0 x0 s0' H.
    apply mbind_ok in H as (u & s1 & E & H). apply c12_py_add_import_spec in E as [L1 I1].
    apply mbind_ok in H as (e & s2 & Ee & H). c12_ret H. destruct (IH Hid _ _ _ Ee) as [L2 Q2].
    split; [eapply c12_ple_trans; eauto|]. intros u0 Hu Hf. cbn [c12_py_tnames flat_map] in Hu. rewrite ?app_nil_r in Hu.
    destruct Hu as [<-|Hu]; [eapply c12_py_imp_up; [exact I1|exact L2]|exact (Q2 u0 Hu Hf)].
  - revert H. apply c12_py_special_mapped. intros s0 x0 s0' H.
    apply mbind_ok in H as (u & s1 & E & H). apply c12_py_add_import_spec in E as [L1 I1].
    apply mbind_ok in H as (e & s2 & Ee & H). c12_ret H. destruct (IH Hid _ _ _ Ee) as [L2 Q2].
    split; [eapply c12_ple_trans; eauto|]. intros u0 Hu Hf. cbn [c12_py_tnames flat_map] in Hu. rewrite ?app_nil_r in Hu.
    destruct Hu as [<-|Hu]; [eapply c12_py_imp_up; [exact I1|exact L2]|exact (Q2 u0 Hu Hf)].
  - revert H. apply c12_py_special_mapped. intros s0 x0 s0' H.
    apply mbind_ok in H as (u & s1 & E & H). apply c12_py_add_import_spec in E as [L1 I1].
    apply mbind_ok in H as (e & s2 & Ee & H). c12_ret H. destruct (IH Hid _ _ _ Ee) as [L2 Q2].
    split; [eapply c12_ple_trans; eauto|]. intros u0 Hu Hf. cbn [c12_py_tnames flat_map] in Hu. rewrite ?app_nil_r in Hu.
    destruct Hu as [<-|Hu]; [eapply c12_py_imp_up; [exact I1|exact L2]|exact (Q2 u0 Hu Hf)].
  - revert H. apply c12_py_special_mapped. intros s0 x0 s0' H.
    cbn [c12_rtype_ids] in Hid. apply Forall_app in Hid as [Hk Hv].
    apply mbind_ok in H as (u & s1 & E & H). apply c12_py_add_import_spec in E as [L1 I1].
    apply mbind_ok in H as (ke & s2 & Ek & H). apply mbind_ok in H as (ve & s3 & Ev & H). c12_ret H.
    assert (Ek' : py_texp cfg gs k s1 = Ok (ke, s2)).
    { destruct k; try exact Ek. destruct (mem_str id gs); [discriminate Ek|exact Ek]. }
    destruct (IHk Hk _ _ _ Ek') as [L2 Q2]. destruct (IHv Hv _ _ _ Ev) as [L3 Q3].
    split; [eapply c12_ple_trans; [exact L1|eapply c12_ple_trans; eauto]|].
    intros u0 Hu Hf. cbn [c12_py_tnames flat_map] in Hu. rewrite app_nil_r in Hu.
    destruct Hu as [<-|Hu]; [eapply c12_py_imp_up; [eapply c12_py_imp_up; [exact I1|exact L2]|exact L3]|].
    apply in_app_iff in Hu as [Hu|Hu]; [eapply c12_py_imp_up; [exact (Q2 u0 Hu Hf)|exact L3]|exact (Q3 u0 Hu Hf)].
  - revert H. apply c12_py_special_mapped. intros s0 x0 s0' H.
    apply mbind_ok in H as (u & s1 & E & H). apply c12_py_add_import_spec in E as [L1 I1].
    apply mbind_ok in H as (e & s2 & Ee & H). c12_ret H. destruct (IH Hid _ _ _ Ee) as [L2 Q2].
    split; [eapply c12_ple_trans; eauto|]. intros u0 Hu Hf. cbn [c12_py_tnames flat_map] in Hu. rewrite ?app_nil_r in Hu.
    destruct Hu as [<-|Hu]; [eapply c12_py_imp_up; [exact I1|exact L2]|exact (Q2 u0 Hu Hf)].
  - revert H. apply c12_py_special_mapped. intros s0 x0 s0' H.
    destruct p; try (c12_ret H; split; [apply c12_ple_refl|]; intros u0 [<-|[]] Hf; c12_py_fixed_absurd Hf).
    apply mbind_ok in H as (u & s1 & E & H). apply c12_py_add_import_spec in E as [L1 I1]. c12_ret H.
    split; [exact L1|]. intros u0 [<-|[]] _. exact I1.
Qed.

(* ---- the two texts with (de)serialiser functions: `bytes` and `datetime` ---- *)
Notation tm := (py_type_mappings cfg).

Lemma c12_py_translation_custom p : py_is_some (py_json_translation_for_type p) = c12_py_is_custom p.
Proof.
  unfold py_json_translation_for_type, c12_py_is_custom. destruct (str_eqb p (lit "bytes")); [reflexivity|].
  destruct (str_eqb p (lit "datetime")); reflexivity.
Qed.

Lemma c12_py_custom_reserved p : c12_py_is_custom p = true -> In p c12_py_reserved.
Proof.
  unfold c12_py_is_custom. intros H. apply c12_mem_str_In.
  apply orb_true_iff in H as [H|H]; apply str_eqb_eq in H; subst; vm_compute; reflexivity.
Qed.

Definition c12_ch_lbr : char := 91%N.
Lemma c12_py_lbr_not_custom p : In c12_ch_lbr p -> c12_py_is_custom p = false.
Proof.
  intros H. destruct (c12_py_is_custom p) eqn:E; [|reflexivity]. exfalso. unfold c12_py_is_custom in E.
  apply orb_true_iff in E as [E|E]; apply str_eqb_eq in E; subst p; vm_compute in H;
    repeat (destruct H as [H|H]; [discriminate H|]); exact H.
Qed.
Lemma c12_in_lbr_mid a r : In c12_ch_lbr (a ++ lit "[" ++ r).
Proof. apply in_or_app. right. apply in_or_app. left. vm_compute. auto. Qed.
Lemma c12_in_lbr_opt r : In c12_ch_lbr (lit "Optional[" ++ r).
Proof. apply in_or_app. left. vm_compute. auto 20. Qed.

(* what is known of a translated text p that is neither `bytes` nor `datetime` *)
Lemma c12_py_noncustom_concl p s' : c12_py_is_custom p = false ->
  None = (if c12_py_is_custom p then Some p else None) /\
  (p = lit "datetime" -> c12_py_imp (lit "datetime") s' \/ c12_py_maps_dt).
Proof. intros E. rewrite E. split; [reflexivity|]. intros ->. vm_compute in E. discriminate E. Qed.

Lemma c12_py_id_not_custom id : c12_py_id_ok id -> c12_py_is_custom id = false.
Proof.
  intros Hok. destruct (c12_py_is_custom id) eqn:E; [|reflexivity]. exfalso. apply Hok, c12_py_custom_reserved, E.
Qed.

Definition c12_py_Ct (t : rtype) (x : texp) (s' : py_state) : Prop :=
  c12_py_custom tm t = (if c12_py_is_custom (py_show x) then Some (py_show x) else None) /\
  (py_show x = lit "datetime" -> c12_py_imp (lit "datetime") s' \/ c12_py_maps_dt).

Lemma c12_py_special_custom t (k : M py_state texp) (dflt : option str) s x s' :
  c12_py_custom tm t =
    match tmap_get tm (rtype_display t) with
    | Some m => if c12_py_is_custom m then Some m else None
    | None => dflt
    end ->
  (forall s x s', k s = Ok (x, s') ->
     dflt = (if c12_py_is_custom (py_show x) then Some (py_show x) else None) /\
     (py_show x = lit "datetime" -> c12_py_imp (lit "datetime") s' \/ c12_py_maps_dt)) ->
  match tmap_get tm (rtype_display t) with
  | Some mapped =>
    mbind (if py_is_some (py_json_translation_for_type mapped) then py_add_custom_type mapped else ret tt)
          (fun _ => ret (XRaw mapped))
  | None => k
  end s = Ok (x, s') -> c12_py_Ct t x s'.
Proof.
  unfold c12_py_Ct. intros Hc Hk. rewrite Hc. destruct (tmap_get tm (rtype_display t)) as [m|] eqn:Em; [|apply Hk].
  intros H. apply mbind_ok in H as (u & s1 & E & H). c12_ret H. cbn [py_show]. split; [reflexivity|].
  intros ->. right. exists (rtype_display t). exact Em.
Qed.

(* the WHOLE translated text is `bytes` / `datetime` exactly when the spec's reader c12_py_custom says so
   (no recursion: anything below a List[ / Optional[ / Dict[ / Name[ is not the whole text); and the
   text `datetime` comes with the datetime import unless it is a type_mappings value *)
Lemma c12_py_texp_custom gs t :
  Forall c12_py_id_ok (c12_rtype_ids t) ->
  forall s x s', py_texp cfg gs t s = Ok (x, s') -> c12_py_Ct t x s'.
Proof.
  intros Hid s x s' H. destruct t as [id|id ps|t|t n|t|k v|t|p]; cbn [py_texp] in H.
  - apply mbind_ok in H as (u & s1 & E & H). c12_ret H. unfold c12_py_Ct. cbv beta iota zeta delta [c12_py_custom].
    destruct (tmap_get tm id) as [m|] eqn:Em; cbn [py_show].
    + split; [reflexivity|]. intros ->. right. exists id. exact Em.
    + inversion Hid as [|? ? Hok _]. apply c12_py_noncustom_concl, c12_py_id_not_custom, Hok.
  - cbn [c12_rtype_ids] in Hid. apply Forall_cons_iff in Hid as [Hid0 _].
    apply mbind_ok in H as (u & s1 & E & H). unfold c12_py_Ct. cbv beta iota zeta delta [c12_py_custom].
    destruct (tmap_get tm id) as [m|] eqn:Em.
    + c12_ret H. cbn [py_show]. split; [reflexivity|]. intros ->. right. exists id. exact Em.
    + apply mbind_ok in H as (parts & s2 & Ep & H). c12_ret H. apply c12_py_noncustom_concl.
      destruct parts as [|a r]; cbn [py_show]; [exact (c12_py_id_not_custom _ Hid0)|].
      apply c12_py_lbr_not_custom, c12_in_lbr_mid.
  - revert H. apply (c12_py_special_custom _ _ None); [reflexivity|]. intros s0 x0 s0' H.
    apply mbind_ok in H as (u & s1 & E & H). apply mbind_ok in H as (e & s2 & Ee & H). c12_ret H.
    apply c12_py_noncustom_concl, c12_py_lbr_not_custom. cbn [py_show]. apply c12_in_lbr_mid.
  - revert H. apply (c12_py_special_custom _ _ None); [reflexivity|]. intros s0 x0 s0' H.
    apply mbind_ok in H as (u & s1 & E & H). apply mbind_ok in H as (e & s2 & Ee & H). c12_ret H.
    apply c12_py_noncustom_concl, c12_py_lbr_not_custom. cbn [py_show]. apply c12_in_lbr_mid.
  - revert H. apply (c12_py_special_custom _ _ None); [reflexivity|]. intros s0 x0 s0' H.
    apply mbind_ok in H as (u & s1 & E & H). apply mbind_ok in H as (e & s2 & Ee & H). c12_ret H.
    apply c12_py_noncustom_concl, c12_py_lbr_not_custom. cbn [py_show]. apply c12_in_lbr_mid.
  - revert H. apply (c12_py_special_custom _ _ None); [reflexivity|]. intros s0 x0 s0' H.
    apply mbind_ok in H as (u & s1 & E & H). apply mbind_ok in H as (ke & s2 & Ek & H).
    apply mbind_ok in H as (ve & s3 & Ev & H). c12_ret H.
    apply c12_py_noncustom_concl, c12_py_lbr_not_custom. cbn [py_show]. apply c12_in_lbr_mid.
  - revert H. apply (c12_py_special_custom _ _ None); [reflexivity|]. intros s0 x0 s0' H.
    apply mbind_ok in H as (u & s1 & E & H). apply mbind_ok in H as (e & s2 & Ee & H). c12_ret H.
    apply c12_py_noncustom_concl, c12_py_lbr_not_custom. cbn [py_show]. apply c12_in_lbr_opt.
  - destruct p; revert H;
      try (apply (c12_py_special_custom _ _ None); [reflexivity|]; intros s0 x0 s0' H; c12_ret H;
           apply c12_py_noncustom_concl; vm_compute; reflexivity).
    apply (c12_py_special_custom _ _ (Some (lit "datetime"))); [reflexivity|]. intros s0 x0 s0' H.
    apply mbind_ok in H as (u & s1 & E & H). apply c12_py_add_import_spec in E as [_ I]. c12_ret H.
    split; [vm_compute; reflexivity|]. intros _. left. exact I.
Qed.

Lemma c12_py_add_custom_in t s u s' : py_add_custom_type t s = Ok (u, s') -> In t (py_custom_types s').
Proof.
  unfold py_add_custom_type, mbind, mget, mput. intros [= _ <-]. cbn [py_custom_types]. apply c12_sset_insert_in. auto.
Qed.

(* every mapped text the formatter itself registers while translating t (the spec's c12_py_registers,
   any depth) is in the translation set afterwards *)
Definition c12_py_Rt (t : rtype) (s : py_state) : Prop := incl (c12_py_registers tm t) (py_custom_types s).
Lemma c12_py_Rt_up t s s' : c12_py_Rt t s -> c12_ple s s' -> c12_py_Rt t s'.
Proof. unfold c12_py_Rt. intros H L. eapply incl_tran; [exact H|exact (c12_ple_cu _ _ L)]. Qed.

Lemma c12_py_special_registers t (k : M py_state texp) (below : list str) s x s' :
  (forall s x s', k s = Ok (x, s') -> incl below (py_custom_types s')) ->
  match tmap_get tm (rtype_display t) with
  | Some mapped =>
    mbind (if py_is_some (py_json_translation_for_type mapped) then py_add_custom_type mapped else ret tt)
          (fun _ => ret (XRaw mapped))
  | None => k
  end s = Ok (x, s') ->
  incl (match tmap_get tm (rtype_display t) with
        | Some m => if c12_py_is_custom m then [m] else []
        | None => below
        end) (py_custom_types s').
Proof.
  intros Hk. destruct (tmap_get tm (rtype_display t)) as [m|] eqn:Em; [|apply Hk].
  intros H. apply mbind_ok in H as (u & s1 & E & H). c12_ret H. rewrite <- c12_py_translation_custom.
  destruct (py_is_some _); [|intros y []]. intros y [<-|[]]. eapply c12_py_add_custom_in; eauto.
Qed.

Lemma c12_py_texp_registers gs t :
  Forall c12_py_id_ok (c12_rtype_ids t) ->
  forall s x s', py_texp cfg gs t s = Ok (x, s') -> c12_py_Rt t s'.
Proof.
  unfold c12_py_Rt.
  induction t as [id|id ps IH|t IH|t n IH|t IH|k v IHk IHv|t IH|p] using rtype_ind'; intros Hid s x s' H;
    cbn [py_texp] in H; cbn [c12_py_registers].
  - intros y [].
  - cbn [c12_rtype_ids] in Hid. apply Forall_cons_iff in Hid as [Hid0 Hids].
    apply mbind_ok in H as (u & s1 & E & H).
    destruct (tmap_get tm id); [intros y []|].
    rewrite c12_go_is_mmapM in H. apply mbind_ok in H as (xs & s2 & Exs & H). c12_ret H.
    apply (c12_mmapM_mono2 c12_ple c12_ple_refl c12_ple_trans _ (fun _ _ => True) c12_py_Rt) in Exs as (_ & _ & R).
    + intros y Hy. apply in_flat_map in Hy as (t & Ht & Hy). rewrite Forall_forall in R. exact (R t Ht y Hy).
    + auto.
    + exact c12_py_Rt_up.
    + rewrite Forall_forall in IH |- *. intros t Ht s0 y s0' E0.
      assert (Hidt : Forall c12_py_id_ok (c12_rtype_ids t)).
      { rewrite Forall_forall in Hids |- *. intros i Hi. apply Hids. apply in_flat_map. eauto. }
      split; [exact (proj1 (c12_py_texp_imports _ _ Hidt _ _ _ E0))|]. split; [exact Logic.I|].
      exact (IH t Ht Hidt _ _ _ E0).
  - revert H. apply c12_py_special_registers. intros s0 x0 s0' H.
    apply mbind_ok in H as (u & s1 & E & H). apply mbind_ok in H as (e & s2 & Ee & H). c12_ret H. exact (IH Hid _ _ _ Ee).
  - revert H. apply c12_py_special_registers. intros s0 x0 s0' H.
    apply mbind_ok in H as (u & s1 & E & H). apply mbind_ok in H as (e & s2 & Ee & H). c12_ret H. exact (IH Hid _ _ _ Ee).
  - revert H. apply c12_py_special_registers. intros s0 x0 s0' H.
    apply mbind_ok in H as (u & s1 & E & H). apply mbind_ok in H as (e & s2 & Ee & H). c12_ret H. exact (IH Hid _ _ _ Ee).
  - revert H. apply c12_py_special_registers. intros s0 x0 s0' H.
    cbn [c12_rtype_ids] in Hid. apply Forall_app in Hid as [Hk Hv].
    apply mbind_ok in H as (u & s1 & E & H). apply mbind_ok in H as (ke & s2 & Ek & H).
    apply mbind_ok in H as (ve & s3 & Ev & H). c12_ret H.
    assert (Ek' : py_texp cfg gs k s1 = Ok (ke, s2)).
    { destruct k; try exact Ek. destruct (mem_str id gs); [discriminate Ek|exact Ek]. }
    apply incl_app; [|exact (IHv Hv _ _ _ Ev)].
    eapply incl_tran; [exact (IHk Hk _ _ _ Ek')|]. apply c12_ple_cu. exact (proj1 (c12_py_texp_imports _ _ Hv _ _ _ Ev)).
  - revert H. apply c12_py_special_registers. intros s0 x0 s0' H.
    apply mbind_ok in H as (u & s1 & E & H). apply mbind_ok in H as (e & s2 & Ee & H). c12_ret H. exact (IH Hid _ _ _ Ee).
  - revert H. apply c12_py_special_registers. intros s0 x0 s0' _ y [].
Qed.

(* ---- declarations ---- *)
Variable tvs : list str.             (* the generic parameter names of the program *)
Definition c12_py_fn_names : list str :=
  [lit "serialize_binary_data"; lit "deserialize_binary_data"; lit "serialize_datetime_data"; lit "parse_rfc3339"].
(* u is a (de)serialiser function of a text p that is in the translation set (write_field registers the type the
   translation was found for, also for a serde(default) field of a non-Option type: python.rs:464) *)
Definition c12_py_fnok (u : str) (s : py_state) : Prop :=
  exists p ct, py_json_translation_for_type p = Some ct /\ (u = py_de_name ct \/ u = py_ser_name ct) /\
    In p (py_custom_types s).
(* a used name is a type-variable name of the program, such a function name, a TypeVar the
   header declares, or imported *)
Definition c12_py_ok (u : str) (s : py_state) : Prop :=
  In u tvs \/ c12_py_fnok u s \/ In u (py_type_variables s) \/ c12_py_imp u s.
Lemma c12_py_ok_up u s s' : c12_py_ok u s -> c12_ple s s' -> c12_py_ok u s'.
Proof.
  unfold c12_py_ok. intros [H|[H|[H|H]]] L; auto.
  - right. left. destruct H as (p & ct & E & Hu & Hp); exists p, ct; repeat split; auto.
    apply (c12_ple_cu _ _ L), Hp.
  - right. right. left. apply (c12_ple_tv _ _ L), H.
  - right. right. right. eapply c12_py_imp_up; eauto.
Qed.
Definition c12_py_all (l : list str) (s : py_state) : Prop := forall u, In u l -> c12_py_ok u s.
Lemma c12_py_all_up l s s' : c12_py_all l s -> c12_ple s s' -> c12_py_all l s'.
Proof. intros H L u Hu. eapply c12_py_ok_up; eauto. Qed.

Lemma c12_py_tuses_ok x s : c12_py_Qt x s -> c12_py_all (c12_py_tuses tvs x) s.
Proof.
  intros Q u Hu. unfold c12_py_tuses in Hu. apply filter_In in Hu as [Hn Hb]. apply orb_true_iff in Hb as [Hb|Hb].
  - right. right. right. apply Q; [exact Hn|]. now apply c12_mem_str_In.
  - left. now apply c12_mem_str_In.
Qed.

Lemma c12_py_common_spec a b c s u s' :
  py_add_common_imports a b c s = Ok (u, s') ->
  c12_ple s s' /\ (a = true -> c12_py_imp (lit "Optional") s') /\
  (b = true -> c12_py_imp (lit "Annotated") s' /\ c12_py_imp (lit "BeforeValidator") s' /\ c12_py_imp (lit "PlainSerializer") s') /\
  (c || a = true -> c12_py_imp (lit "Field") s').
Proof.
  unfold py_add_common_imports. intros H.
  apply mbind_ok in H as (u1 & s1 & E1 & H). apply mbind_ok in H as (u2 & s2 & E2 & H).
  assert (A1 : c12_ple s s1 /\ (a = true -> c12_py_imp (lit "Optional") s1)).
  { destruct a; [apply c12_py_add_import_spec in E1 as [L I]; auto|c12_ret E1; split; [apply c12_ple_refl|discriminate]]. }
  assert (A2 : c12_ple s1 s2 /\ (b = true -> c12_py_imp (lit "Annotated") s2 /\ c12_py_imp (lit "BeforeValidator") s2 /\ c12_py_imp (lit "PlainSerializer") s2)).
  { destruct b; [|c12_ret E2; split; [apply c12_ple_refl|discriminate]].
    apply mbind_ok in E2 as (v1 & t1 & F1 & E2). apply mbind_ok in E2 as (v2 & t2 & F2 & E2).
    apply c12_py_add_import_spec in F1 as [M1 J1]. apply c12_py_add_import_spec in F2 as [M2 J2]. apply c12_py_add_import_spec in E2 as [M3 J3].
    split; [eapply c12_ple_trans; [exact M1|eapply c12_ple_trans; eauto]|]. intros _. repeat split; [exact J3| |eapply c12_py_imp_up; eauto].
    eapply c12_py_imp_up; [eapply c12_py_imp_up; eauto|exact M3]. }
  assert (A3 : c12_ple s2 s' /\ (c || a = true -> c12_py_imp (lit "Field") s')).
  { destruct (c || a); [apply c12_py_add_import_spec in H as [L I]; auto|c12_ret H; split; [apply c12_ple_refl|discriminate]]. }
  destruct A1 as [L1 I1], A2 as [L2 I2], A3 as [L3 I3].
  split; [eapply c12_ple_trans; [exact L1|eapply c12_ple_trans; eauto]|]. split; [|split; [|exact I3]].
  - intros Ha. eapply c12_py_imp_up; [eapply c12_py_imp_up; [exact (I1 Ha)|exact L2]|exact L3].
  - intros Hb. destruct (I2 Hb) as (J1 & J2 & J3). repeat split; eapply c12_py_imp_up; eauto.
Qed.

Lemma c12_py_translation_names t ct : py_json_translation_for_type t = Some ct ->
  In (py_de_name ct) c12_py_fn_names /\ In (py_ser_name ct) c12_py_fn_names.
Proof.
  unfold py_json_translation_for_type. destruct (str_eqb t (lit "bytes")); [intros [= <-]; vm_compute; auto|].
  destruct (str_eqb t (lit "datetime")); [intros [= <-]; vm_compute; auto 10|discriminate].
Qed.
Lemma c12_py_fnok_names u s : c12_py_fnok u s -> In u c12_py_fn_names.
Proof. intros (p & ct & E & [->| ->] & _); apply (c12_py_translation_names _ _ E). Qed.

Definition c12_py_Qm (m : py_member) (s : py_state) : Prop := c12_py_all (c12_py_member_uses tvs m) s.
(* what writing the field f leaves in the translation set (with or without serde(default)) *)
Definition c12_py_Rf (f : rfield) (s : py_state) : Prop :=
  c12_py_Rt (fty f) s /\
  (forall p, c12_py_custom tm (fty f) = Some p -> In p (py_custom_types s)).
Lemma c12_py_Rf_up f s s' : c12_py_Rf f s -> c12_ple s s' -> c12_py_Rf f s'.
Proof.
  intros [A B] L. split; [eapply c12_py_Rt_up; eauto|]. intros p Hp. apply (c12_ple_cu _ _ L). exact (B p Hp).
Qed.
Definition c12_py_Rfs (fs : list rfield) (s : py_state) : Prop := Forall (fun f => c12_py_Rf f s) fs.
Lemma c12_py_Rfs_up fs s s' : c12_py_Rfs fs s -> c12_ple s s' -> c12_py_Rfs fs s'.
Proof. unfold c12_py_Rfs. intros H L. eapply Forall_impl; [|exact H]. cbn. intros f Hf. eapply c12_py_Rf_up; eauto. Qed.

Lemma c12_lbr_not_dt p : In c12_ch_lbr p -> p <> lit "datetime".
Proof. intros H ->. vm_compute in H. repeat (destruct H as [H|H]; [discriminate H|]). exact H. Qed.

Lemma c12_py_member_flag gs f :
  Forall c12_py_id_ok (c12_rtype_ids (fty f)) ->
  forall s m s', py_member_of uc cfg gs f s = Ok (m, s') -> c12_ple s s' /\ c12_py_Qm m s' /\ c12_py_Rf f s'.
Proof.
  intros Hid s m s' H. unfold py_member_of in H.
  apply mbind_ok in H as (ty & s1 & Ety & H). destruct (c12_py_texp_imports _ _ Hid _ _ _ Ety) as [L1 Q1].
  destruct (c12_py_texp_custom _ _ Hid _ _ _ Ety) as [C1 D1]. pose proof (c12_py_texp_registers _ _ Hid _ _ _ Ety) as R1.
  apply mbind_ok in H as (u & s2 & Ec & H). apply c12_py_common_spec in Ec as (L2 & IO & IA & IF).
  apply mbind_ok in H as (ann & s3 & Ea & H). c12_ret H.
  pose proof (c12_py_translation_custom (py_show ty)) as Htc.
  (* the annotation step *)
  assert (A3 : c12_ple s2 s3 /\
               match py_json_translation_for_type (py_show ty) with
               | Some ct => ann = Some (py_de_name ct, py_ser_name ct) /\
                            In (py_show ty) (py_custom_types s3)
               | None => ann = None
               end).
  { destruct (py_json_translation_for_type (py_show ty)) as [ct|] eqn:Ect.
    - apply mbind_ok in Ea as (u3 & s4 & E4 & Ea). c12_ret Ea.
      apply c12_py_add_custom_spec in E4 as [L4 I4]; [split; [exact L4|split; [reflexivity|exact I4]]|].
      intros E. destruct (D1 E) as [K|K]; [left; eapply c12_py_imp_up; eauto|right; exact K].
    - c12_ret Ea. split; [apply c12_ple_refl|reflexivity]. }
  destruct A3 as [L3 A3].
  split; [eapply c12_ple_trans; [exact L1|eapply c12_ple_trans; eauto]|]. split.
  - unfold c12_py_Qm, c12_py_member_uses. cbn [pym_type pym_annotated pym_alias pym_default_none].
    intros u0 Hu. apply in_app_iff in Hu as [Hu|Hu]; [|apply in_app_iff in Hu as [Hu|Hu]].
    + eapply c12_py_ok_up; [|exact L3].
      assert (Q : c12_py_Qt (if negb (is_optional (fty f)) && has_default f then XOpt ty else ty) s2).
      { destruct (negb (is_optional (fty f)) && has_default f) eqn:En.
        - intros v [<-|Hv] Hf.
          + apply IO. apply andb_true_iff in En as [_ ->]. apply orb_true_r.
          + eapply c12_py_imp_up; [exact (Q1 v Hv Hf)|exact L2].
        - eapply c12_py_Qt_up; eauto. }
      exact (c12_py_tuses_ok _ _ Q u0 Hu).
    + destruct (py_json_translation_for_type (py_show ty)) as [ct|] eqn:Ect.
      * destruct A3 as [-> I4]. cbn [py_is_some] in Htc.
        destruct (IA eq_refl) as (J1 & J2 & J3).
        assert (F : forall u1, u1 = py_de_name ct \/ u1 = py_ser_name ct -> c12_py_fnok u1 s3).
        { intros u1 Hu1. exists (py_show ty), ct. split; [exact Ect|]. split; [exact Hu1|exact I4]. }
        destruct Hu as [<-|[<-|[<-|[<-|[<-|[]]]]]].
        -- right. right. right. eapply c12_py_imp_up; eauto.
        -- right. right. right. eapply c12_py_imp_up; eauto.
        -- right. right. right. eapply c12_py_imp_up; eauto.
        -- right. left. apply F. now left.
        -- right. left. apply F. now right.
      * rewrite A3 in Hu. destruct Hu.
    + right. right. right. eapply c12_py_imp_up; [|exact L3].
      destruct (_ || _) eqn:Eb in Hu; [|destruct Hu]. destruct Hu as [<-|[]]. apply IF.
      apply orb_true_iff in Eb as [Eb|Eb].
      * destruct (negb (str_eqb _ _)); [reflexivity|discriminate Eb].
      * apply orb_true_iff in Eb as [Eb|Eb]; [rewrite Eb; apply orb_true_r|].
        apply andb_true_iff in Eb as [_ Eb]. rewrite Eb, !orb_true_r. reflexivity.
  - split.
    + eapply c12_py_Rt_up; [exact R1|]. eapply c12_ple_trans; eauto.
    + intros p Hp. rewrite C1 in Hp.
      destruct (py_json_translation_for_type (py_show ty)) as [ct|]; cbn [py_is_some] in Htc; rewrite <- Htc in Hp; [|discriminate Hp].
      injection Hp as <-. exact (proj2 A3).
Qed.

Definition c12_py_Qd (d : py_decl) (s : py_state) : Prop := c12_py_all (c12_py_decl_uses tvs d) s.
Lemma c12_py_Qd_up d s s' : c12_py_Qd d s -> c12_ple s s' -> c12_py_Qd d s'.
Proof. apply c12_py_all_up. Qed.
Definition c12_py_Qds (ds : list py_decl) (s : py_state) : Prop := Forall (fun d => c12_py_Qd d s) ds.
Lemma c12_py_Qds_up ds s s' : c12_py_Qds ds s -> c12_ple s s' -> c12_py_Qds ds s'.
Proof. unfold c12_py_Qds. intros Q L. eapply Forall_impl; [|exact Q]. cbn. intros d Qd. eapply c12_py_Qd_up; eauto. Qed.

Lemma c12_py_populate_spec fs s b s' :
  py_populate_by_name uc fs s = Ok (b, s') -> c12_ple s s' /\ (b = true -> c12_py_imp (lit "ConfigDict") s').
Proof.
  unfold py_populate_by_name. destruct (existsb _ fs).
  - intros H. apply mbind_ok in H as (u & s1 & E & H). apply c12_py_add_import_spec in E as [L I]. c12_ret H. auto.
  - intros H. c12_ret H. split; [apply c12_ple_refl|discriminate].
Qed.

Definition c12_py_fields_ok (fs : list rfield) : Prop :=
  Forall (fun f => Forall c12_py_id_ok (c12_rtype_ids (fty f))) fs.

(* what writing a class leaves behind: its fields' translations, a TypeVar for each of its parameters *)
Definition c12_py_Rs (rs : rstruct) (s : py_state) : Prop :=
  c12_py_Rfs (sfields rs) s /\ incl (sgenerics rs) (py_type_variables s).

Lemma c12_py_class_flag rs :
  c12_py_fields_ok (sfields rs) ->
  forall s d s', py_class_of uc cfg rs s = Ok (d, s') -> c12_ple s s' /\ c12_py_Qd d s' /\ c12_py_Rs rs s'.
Proof.
  intros Hid s d s' H. unfold c12_py_fields_ok in Hid. unfold py_class_of in H.
  apply mbind_ok in H as (u1 & s1 & E1 & H). apply c12_py_add_import_spec in E1 as [L1 I1].
  apply mbind_ok in H as (u2 & s2 & E2 & H). apply c12_py_add_type_vars_spec in E2 as [L2 I2].
  apply mbind_ok in H as (u3 & s3 & E3 & H).
  assert (A3 : c12_ple s2 s3 /\ (sgenerics rs <> [] -> c12_py_imp (lit "Generic") s3)).
  { destruct (sgenerics rs); [c12_ret E3; split; [apply c12_ple_refl|congruence]|].
    apply c12_py_add_import_spec in E3 as [L I]. auto. }
  destruct A3 as [L3 I3].
  apply mbind_ok in H as (config & s4 & E4 & H). apply c12_py_populate_spec in E4 as [L4 I4].
  apply mbind_ok in H as (ms & s5 & E5 & H). c12_ret H.
  apply (c12_mmapM_mono2 c12_ple c12_ple_refl c12_ple_trans _ c12_py_Qm c12_py_Rf) in E5 as (L5 & Q5 & R5).
  2: { intros y a b Qy Lab. eapply c12_py_all_up; eauto. }
  2: exact c12_py_Rf_up.
  2: { rewrite Forall_forall in Hid |- *. intros f Hf. apply c12_py_member_flag; exact (Hid f Hf). }
  assert (M4 : c12_ple s4 s5) by exact L5.
  assert (M3 : c12_ple s3 s5) by (eapply c12_ple_trans; eauto).
  assert (M2 : c12_ple s2 s5) by (eapply c12_ple_trans; eauto).
  assert (M1 : c12_ple s1 s5) by (eapply c12_ple_trans; eauto).
  split; [eapply c12_ple_trans; eauto|]. split.
  2: { split; [exact R5|]. intros g Hg. apply (c12_ple_tv _ _ M2). apply I2. exact Hg. }
  intros u0 Hu. cbn [c12_py_decl_uses] in Hu. destruct Hu as [<-|Hu].
  { right. right. right. eapply c12_py_imp_up; eauto. }
  apply in_app_iff in Hu as [Hu|Hu].
  { destruct (sgenerics rs) as [|g gs] eqn:Eg; [destruct Hu|]. destruct Hu as [<-|Hu].
    - right. right. right. eapply c12_py_imp_up; [apply I3; congruence|exact M3].
    - right. right. left. apply (c12_ple_tv _ _ M2). apply I2. exact Hu. }
  apply in_app_iff in Hu as [Hu|Hu].
  { destruct config; [|destruct Hu]. destruct Hu as [<-|[]]. right. right. right. eapply c12_py_imp_up; [apply I4; reflexivity|exact M4]. }
  apply in_flat_map in Hu as (m & Hm & Hu). rewrite Forall_forall in Q5. exact (Q5 m Hm u0 Hu).
Qed.

(* the named fields of struct variants (as in the spec's c12_item_fields) *)
Definition c12_anon_fields (vs : list rvariant) : list rfield :=
  flat_map (fun v => match v with VAnon fs _ => fs | _ => [] end) vs.

Lemma c12_py_inner_flag e vs :
  Forall (fun v => Forall (fun t => Forall c12_py_id_ok (c12_rtype_ids t)) (c12_variant_types v)) vs ->
  forall s ds s', py_inner_classes_of uc cfg e vs s = Ok (ds, s') ->
    c12_ple s s' /\ c12_py_Qds ds s' /\ c12_py_Rfs (c12_anon_fields vs) s'.
Proof.
  induction 1 as [|v vs Hv Hvs IH]; intros s ds s' H; cbn [py_inner_classes_of] in H.
  - c12_ret H. split; [apply c12_ple_refl|split; constructor].
  - unfold c12_anon_fields. cbn [flat_map].
    destruct v as [vsh|t vsh|fs vsh]; try (apply IH; exact H).
    apply mbind_ok in H as (c & s1 & Ec & H). apply mbind_ok in H as (cs & s2 & Ecs & H). c12_ret H.
    apply c12_py_class_flag in Ec as (L1 & Q1 & R1 & _).
    + destruct (IH _ _ _ Ecs) as (L2 & Q2 & R2). split; [eapply c12_ple_trans; eauto|]. split.
      * constructor; [eapply c12_py_Qd_up; eauto|exact Q2].
      * apply Forall_app. split; [|exact R2]. cbn [anon_struct sfields] in R1. exact (c12_py_Rfs_up _ _ _ R1 L2).
    + unfold c12_py_fields_ok. cbn [anon_struct sfields]. cbn [c12_variant_types] in Hv. rewrite Forall_map in Hv. exact Hv.
Qed.

Definition c12_py_Qv (v : py_variant) (s : py_state) : Prop :=
  c12_py_imp (lit "Literal") s /\ match pyv_content v with PYCType ty => c12_py_Qt ty s | _ => True end.
Definition c12_py_Rv (v : rvariant) (s : py_state) : Prop :=
  match v with VTuple t _ => c12_py_Rt t s | _ => True end.
Lemma c12_py_Rv_up v s s' : c12_py_Rv v s -> c12_ple s s' -> c12_py_Rv v s'.
Proof. destruct v; cbn [c12_py_Rv]; auto. apply c12_py_Rt_up. Qed.

Lemma c12_py_variant_flag en tn sh v :
  Forall (fun t => Forall c12_py_id_ok (c12_rtype_ids t)) (c12_variant_types v) ->
  forall s d s', py_variant_of uc cfg en tn sh v s = Ok (d, s') -> c12_ple s s' /\ c12_py_Qv d s' /\ c12_py_Rv v s'.
Proof.
  intros Hid s d s' H. unfold py_variant_of in H. destruct v as [vsh|t vsh|fs vsh].
  - apply mbind_ok in H as (u & s1 & E & H). apply c12_py_add_import_spec in E as [L J]. c12_ret H.
    split; [exact L|split; [split; [exact J|exact Logic.I]|exact Logic.I]].
  - apply mbind_ok in H as (tn0 & s1 & Et & H). cbn [c12_variant_types] in Hid. apply Forall_cons_iff in Hid as [Ht _].
    destruct (c12_py_texp_imports _ _ Ht _ _ _ Et) as [L1 Q1]. pose proof (c12_py_texp_registers _ _ Ht _ _ _ Et) as R1.
    apply mbind_ok in H as (u & s2 & E & H). apply c12_py_add_import_spec in E as [L2 I2]. c12_ret H.
    split; [eapply c12_ple_trans; eauto|]. split; [|cbn [c12_py_Rv]; eapply c12_py_Rt_up; eauto].
    split; [exact I2|]. cbn [pyv_content]. eapply c12_py_Qt_up; eauto.
  - apply mbind_ok in H as (u & s1 & E & H). apply c12_py_add_import_spec in E as [L J]. c12_ret H.
    split; [exact L|split; [split; [exact J|exact Logic.I]|exact Logic.I]].
Qed.

Lemma c12_py_Qv_up v s s' : c12_py_Qv v s -> c12_ple s s' -> c12_py_Qv v s'.
Proof.
  unfold c12_py_Qv. intros [A B] L. split; [eapply c12_py_imp_up; eauto|].
  destruct (pyv_content v); auto. eapply c12_py_Qt_up; eauto.
Qed.

Lemma c12_variant_types_Forall2 (P : rtype -> Prop) vs :
  Forall P (flat_map c12_variant_types vs) -> Forall (fun v => Forall P (c12_variant_types v)) vs.
Proof.
  induction vs as [|v vs IH]; cbn [flat_map]; [constructor|].
  intros H. apply Forall_app in H as [H1 H2]. constructor; auto.
Qed.

Lemma c12_py_algebraic_flag tag content en sh :
  Forall (fun v => Forall (fun t => Forall c12_py_id_ok (c12_rtype_ids t)) (c12_variant_types v)) (evariants sh) ->
  forall s d s', py_algebraic_of uc cfg tag content en sh s = Ok (d, s') ->
    c12_ple s s' /\ c12_py_Qd d s' /\
    Forall (fun v => c12_py_Rv v s') (evariants sh) /\ incl (egenerics sh) (py_type_variables s').
Proof.
  intros Hid s d s' H. unfold py_algebraic_of in H.
  apply mbind_ok in H as (u1 & s1 & E1 & H). apply c12_py_add_type_vars_spec in E1 as [L1 T1].
  apply mbind_ok in H as (u2 & s2 & E2 & H). apply c12_py_add_import_spec in E2 as [L2 I2].
  apply mbind_ok in H as (u3 & s3 & E3 & H). apply c12_py_add_import_spec in E3 as [L3 I3].
  apply mbind_ok in H as (vs & s4 & E4 & H). apply mbind_ok in H as (u5 & s5 & E5 & H). c12_ret H.
  apply (c12_mmapM_mono2 c12_ple c12_ple_refl c12_ple_trans _ c12_py_Qv c12_py_Rv _ c12_py_Qv_up c12_py_Rv_up) in E4 as (L4 & Q4 & R4).
  2: { eapply Forall_impl; [|exact Hid]. cbn. intros v Hv s0 y s0' E0. exact (c12_py_variant_flag _ _ _ _ Hv _ _ _ E0). }
  assert (A5 : c12_ple s4 s5 /\ (match vs with [_] => False | _ => True end -> c12_py_imp (lit "Union") s5)).
  { destruct vs as [|v0 [|v1 r]].
    - apply c12_py_add_import_spec in E5 as [L J]. auto.
    - c12_ret E5. split; [apply c12_ple_refl|intros []].
    - apply c12_py_add_import_spec in E5 as [L J]. auto. }
  destruct A5 as [L5 I5].
  assert (M3 : c12_ple s3 s5) by (eapply c12_ple_trans; eauto).
  assert (M2 : c12_ple s2 s5) by (eapply c12_ple_trans; eauto).
  assert (M1 : c12_ple s1 s5) by (eapply c12_ple_trans; eauto).
  split; [eapply c12_ple_trans; [exact L1|exact M1]|]. split.
  2: { split.
       - eapply Forall_impl; [|exact R4]. cbn. intros v Rv. eapply c12_py_Rv_up; eauto.
       - intros g Hg. apply (c12_ple_tv _ _ M1). apply T1. exact Hg. }
  intros u0 Hu. cbn [c12_py_decl_uses] in Hu. destruct Hu as [<-|Hu].
  { right. right. right. eapply c12_py_imp_up; eauto. }
  apply in_app_iff in Hu as [Hu|Hu].
  - apply in_flat_map in Hu as (v & Hv & Hu). rewrite Forall_forall in Q4. destruct (Q4 v Hv) as [QL QT].
    destruct Hu as [<-|[<-|Hu]].
    + right. right. right. eapply c12_py_imp_up; eauto.
    + right. right. right. eapply c12_py_imp_up; eauto.
    + destruct (pyv_content v); try contradiction. eapply c12_py_ok_up; [exact (c12_py_tuses_ok _ _ QT u0 Hu)|exact L5].
  - right. right. right. destruct vs as [|v0 [|v1 r]]; try (destruct Hu as [<-|[]]; apply I5; exact Logic.I). destruct Hu.
Qed.

(* the generic parameters for which writing the item declares a TypeVar (the summand of c12_py_tv_vocab):
   write_struct, write_algebraic_enum and (python.rs:280) write_type_alias call add_type_var *)
Definition c12_py_item_tvs (it : ritem) : list str :=
  match it with
  | ItStruct s => sgenerics s
  | ItEnum (EAlgebraic _ _ sh) => egenerics sh
  | ItAlias a => agenerics a
  | _ => []
  end.

Definition c12_py_item_ok (it : ritem) : Prop :=
  Forall (fun t => Forall c12_py_id_ok (c12_rtype_ids t)) (c12_item_types it).

(* what writing the item leaves in the state *)
Definition c12_py_Ri (it : ritem) (s : py_state) : Prop :=
  Forall (fun t => c12_py_Rt t s) (c12_item_types it) /\ c12_py_Rfs (c12_item_fields it) s /\
  incl (c12_py_item_tvs it) (py_type_variables s).
Lemma c12_py_Ri_up it s s' : c12_py_Ri it s -> c12_ple s s' -> c12_py_Ri it s'.
Proof.
  intros (A & B & C) L. split; [|split].
  - eapply Forall_impl; [|exact A]. cbn. intros t Ht. eapply c12_py_Rt_up; eauto.
  - eapply c12_py_Rfs_up; eauto.
  - eapply incl_tran; [exact C|exact (c12_ple_tv _ _ L)].
Qed.

(* a unit enum is written only when every variant is a unit variant (python.rs:368 panics otherwise) *)
Lemma c12_py_unit_variants vs : forall s r s',
  mmapM (py_unit_variant_of uc) vs s = Ok (r, s') ->
  s' = s /\ Forall (fun v => match v with VUnit _ => True | _ => False end) vs.
Proof.
  induction vs as [|v vs IH]; intros s r s' H; cbn [mmapM] in H.
  - c12_ret H. split; [reflexivity|constructor].
  - apply mbind_ok in H as (y & s1 & Ey & H). apply mbind_ok in H as (ys & s2 & Es & H). c12_ret H.
    unfold py_unit_variant_of in Ey. destruct v; try discriminate Ey. c12_ret Ey.
    destruct (IH _ _ _ Es) as [-> F]. split; [reflexivity|constructor; [exact Logic.I|exact F]].
Qed.

(* the types of an enum's variants: tuple payloads, and the field types of struct variants *)
Lemma c12_py_variants_Rt vs s :
  Forall (fun v => c12_py_Rv v s) vs -> c12_py_Rfs (c12_anon_fields vs) s ->
  Forall (fun t => c12_py_Rt t s) (flat_map c12_variant_types vs).
Proof.
  unfold c12_anon_fields, c12_py_Rfs. induction 1 as [|v vs Hv Hvs IH]; cbn [flat_map]; [constructor|].
  intros HR. apply Forall_app in HR as [HR1 HR2]. apply Forall_app. split; [|exact (IH HR2)].
  destruct v as [vsh|t vsh|fs vsh]; cbn [c12_variant_types]; [constructor|constructor; [exact Hv|constructor]|].
  rewrite Forall_map. eapply Forall_impl; [|exact HR1]. cbn. intros f Hf. exact (proj1 Hf).
Qed.

Lemma c12_py_decl_flag it :
  c12_py_item_ok it ->
  forall s ds s', py_decl_of uc cfg it s = Ok (ds, s') -> c12_ple s s' /\ c12_py_Qds ds s' /\ c12_py_Ri it s'.
Proof.
  intros Hid s ds s' H. unfold c12_py_item_ok in Hid. destruct it as [rs|e|a|c]; cbn [py_decl_of] in H.
  - apply mbind_ok in H as (d & s1 & E & H). c12_ret H.
    apply c12_py_class_flag in E as (L & Q & R & T).
    + split; [exact L|]. split; [constructor; [exact Q|constructor]|].
      split; [|split; [exact R|exact T]]. cbn [c12_item_types]. rewrite Forall_map.
      eapply Forall_impl; [|exact R]. cbn. intros f Hf. exact (proj1 Hf).
    + unfold c12_py_fields_ok. cbn [c12_item_types] in Hid. rewrite Forall_map in Hid. exact Hid.
  - cbn [c12_item_types] in Hid. apply c12_variant_types_Forall2 in Hid.
    apply mbind_ok in H as (inners & s1 & Ei & H). apply c12_py_inner_flag in Ei as (L1 & Q1 & R1); [|exact Hid].
    destruct e as [sh|tag content sh]; cbn [enum_shared] in *.
    + apply mbind_ok in H as (u2 & s2 & E2 & H). apply c12_py_add_import_spec in E2 as [L2 I2].
      apply mbind_ok in H as (vs & s3 & E3 & H). c12_ret H.
      apply c12_py_unit_variants in E3 as [-> U3].
      assert (M1 : c12_ple s1 s2) by exact L2.
      split; [eapply c12_ple_trans; eauto|]. split.
      * unfold c12_py_Qds. apply Forall_app. split.
        -- exact (c12_py_Qds_up _ _ _ Q1 L2).
        -- constructor; [|constructor]. intros u0 [<-|[]]. right. right. right. exact I2.
      * split; [|split; [exact (c12_py_Rfs_up _ _ _ R1 L2)|intros g []]].
        cbn [c12_item_types enum_shared]. apply c12_py_variants_Rt; [|exact (c12_py_Rfs_up _ _ _ R1 L2)].
        eapply Forall_impl; [|exact U3]. cbn. intros v Hv. destruct v; [exact Logic.I|contradiction|exact Logic.I].
    + apply mbind_ok in H as (d & s2 & E2 & H). c12_ret H.
      apply c12_py_algebraic_flag in E2 as (L2 & Q2 & R2 & T2); [|exact Hid].
      split; [eapply c12_ple_trans; eauto|]. split.
      * unfold c12_py_Qds. apply Forall_app. split; [exact (c12_py_Qds_up _ _ _ Q1 L2)|constructor; [exact Q2|constructor]].
      * split; [|split; [exact (c12_py_Rfs_up _ _ _ R1 L2)|exact T2]].
        cbn [c12_item_types enum_shared]. apply c12_py_variants_Rt; [exact R2|exact (c12_py_Rfs_up _ _ _ R1 L2)].
  - apply mbind_ok in H as (ty & s1 & E & H). apply mbind_ok in H as (utv & s2 & Etv & H). c12_ret H.
    apply c12_py_add_type_vars_spec in Etv as [Ltv Itv].
    cbn [c12_item_types] in Hid. apply Forall_cons_iff in Hid as [Ht _].
    destruct (c12_py_texp_imports _ _ Ht _ _ _ E) as [L Q]. pose proof (c12_py_texp_registers _ _ Ht _ _ _ E) as R.
    split; [eapply c12_ple_trans; eauto|]. split.
    + constructor; [|constructor].
      intros u0 Hu. cbn [c12_py_decl_uses] in Hu.
      eapply c12_py_ok_up; [exact (c12_py_tuses_ok _ _ Q u0 Hu)|exact Ltv].
    + split; [constructor; [eapply c12_py_Rt_up; eauto|constructor]|split; [constructor|exact Itv]].
  - apply mbind_ok in H as (ty & s1 & E & H). c12_ret H.
    cbn [c12_item_types] in Hid. apply Forall_cons_iff in Hid as [Ht _].
    destruct (c12_py_texp_imports _ _ Ht _ _ _ E) as [L Q]. pose proof (c12_py_texp_registers _ _ Ht _ _ _ E) as R.
    split; [exact L|]. split.
    + constructor; [|constructor]. intros u0 Hu. cbn [c12_py_decl_uses] in Hu. exact (c12_py_tuses_ok _ _ Q u0 Hu).
    + split; [constructor; [exact R|constructor]|split; [constructor|intros g []]].
Qed.

Lemma c12_py_items_flag items :
  Forall c12_py_item_ok items ->
  forall s dss s', mmapM (py_decl_of uc cfg) items s = Ok (dss, s') ->
    c12_ple s s' /\
    (forall u, In u (flat_map (c12_py_decl_uses tvs) (List.concat dss)) -> c12_py_ok u s') /\
    Forall (fun it => c12_py_Ri it s') items.
Proof.
  intros Hid s dss s' H.
  apply (c12_mmapM_mono2 c12_ple c12_ple_refl c12_ple_trans _ c12_py_Qds c12_py_Ri _ c12_py_Qds_up c12_py_Ri_up) in H as (L & Q & R).
  - split; [exact L|]. split; [|exact R]. intros u Hu.
    apply in_flat_map in Hu as (d & Hd & Hu). apply in_concat in Hd as (l & Hl & Hd).
    rewrite Forall_forall in Q. specialize (Q l Hl). unfold c12_py_Qds in Q. rewrite Forall_forall in Q. exact (Q d Hd u Hu).
  - eapply Forall_impl; [|exact Hid]. cbn. intros it Hit. apply c12_py_decl_flag. exact Hit.
Qed.
End PY.

(* ---- the file ---- *)
Lemma c12_py_items_ok cfg pd items :
  Permutation items (items_of pd) -> c12_py_dom cfg (items_of pd) = true ->
  Forall c12_py_item_ok items.
Proof.
  intros Et Hdom. unfold c12_py_dom in Hdom. apply andb_true_iff in Hdom as [Hids _].
  apply Forall_forall. intros it Hit. assert (Hit' : In it (items_of pd)) by (eapply Permutation_in; eauto).
  destruct (c12_ids_avoid_spec _ _ _ Hids it Hit') as [Hi _]. unfold c12_py_item_ok.
  apply Forall_forall. intros t Ht. apply Forall_forall. intros id Hid. apply (Hi id).
  unfold c12_item_ids. apply in_flat_map. eauto.
Qed.

(* PARTIAL theorem for the file (kept; superseded by c12_py_file below): every name the declarations of
   the body use is a generic parameter name of the program, one of the four (de)serialiser function
   names, or is defined / imported by the header. *)
Theorem c12_py_file_partial uc cfg pd ds st :
  py_decls uc cfg pd = Ok (ds, st) -> c12_py_dom cfg (items_of pd) = true ->
  forall u, In u (flat_map (c12_py_decl_uses (c12_py_tv_vocab (items_of pd))) ds) ->
    In u (c12_py_tv_vocab (items_of pd)) \/ In u c12_py_fn_names \/
    In u (c12_py_defs (py_type_variables st) (c12_py_fns st) (c12_py_imported st)).
Proof.
  unfold py_decls. intros H Hdom u Hu. apply c12_bind_ok in H as (items & Et & H).
  apply c12_topsort_perm in Et.
  destruct (mmapM (py_decl_of uc cfg) items py_empty_state) as [[dss st']| |] eqn:E; try discriminate H.
  injection H as <- <-.
  pose proof (c12_py_items_ok cfg pd items Et Hdom) as Hok.
  destruct (c12_py_items_flag uc cfg (c12_py_tv_vocab (items_of pd)) _ Hok _ _ _ E) as (_ & Q & _).
  destruct (Q u Hu) as [A|[A|[A|A]]]; auto.
  - right. left. eapply c12_py_fnok_names; eauto.
  - right. right. unfold c12_py_defs. apply in_app_iff. now left.
  - right. right. unfold c12_py_defs. rewrite !in_app_iff. right. right. exact A.
Qed.

(* ---- the three missing halves, then the whole file ---- *)
Lemma c12_existsb_false {A} (f : A -> bool) l : existsb f l = false -> forall x, In x l -> f x = false.
Proof.
  intros H x Hx. destruct (f x) eqn:E; [|reflexivity]. rewrite <- H. symmetry. apply existsb_exists. eauto.
Qed.

Lemma c12_tmap_get_in (m : tmap) k v : tmap_get m k = Some v -> In v (map snd m).
Proof.
  induction m as [|[a b] r IH]; cbn [tmap_get map snd]; [discriminate|].
  destruct (str_eqb a k); [intros [= <-]; now left|intros H; right; auto].
Qed.

(* dom: no type_mappings value is the text `datetime` *)
Lemma c12_py_dom_no_dt cfg items : c12_py_dom cfg items = true -> ~ c12_py_maps_dt cfg.
Proof.
  unfold c12_py_dom. intros H [k Hk]. apply andb_true_iff in H as [_ H]. rewrite forallb_forall in H.
  apply c12_tmap_get_in in Hk. apply in_map_iff in Hk as (kv & Ekv & Hkv). specialize (H kv Hkv).
  rewrite Ekv, str_eqb_refl in H. discriminate H.
Qed.

(* (a) every generic parameter name of the program (of a struct, an algebraic enum, an alias) is a parameter of an
   item whose writer declares its TypeVars *)
Lemma c12_py_tv_vocab_in items u :
  In u (c12_py_tv_vocab items) -> exists it, In it items /\ In u (c12_py_item_tvs it).
Proof.
  unfold c12_py_tv_vocab. intros H. apply in_flat_map in H as (it & Hit & Hu). exists it. split; [exact Hit|].
  destruct it as [s|[sh|t c sh]|a|c]; exact Hu.
Qed.

(* (b) the functions of the translation set are the ones the header writes *)
Lemma c12_py_fns_in st p ct u :
  In p (py_custom_types st) -> py_json_translation_for_type p = Some ct ->
  u = py_de_name ct \/ u = py_ser_name ct -> In u (c12_py_fns st).
Proof.
  intros Hp E Hu. unfold c12_py_fns, py_translations_defined. apply in_flat_map. exists ct. split.
  - apply in_flat_map. exists p. split; [exact Hp|]. rewrite E. now left.
  - destruct Hu as [->| ->]; cbn; auto.
Qed.

(* (c) the datetime helper functions are written only for the text `datetime` *)
Lemma c12_py_rfc_dt st : In (lit "parse_rfc3339") (c12_py_fns st) -> In (lit "datetime") (py_custom_types st).
Proof.
  unfold c12_py_fns, py_translations_defined. intros H. apply in_flat_map in H as (ct & Hct & Hu).
  apply in_flat_map in Hct as (p & Hp & Hct). unfold py_json_translation_for_type in Hct.
  destruct (str_eqb p (lit "bytes")) eqn:Eb.
  - destruct Hct as [<-|[]]. exfalso. vm_compute in Hu. destruct Hu as [Hu|[Hu|[]]]; discriminate Hu.
  - destruct (str_eqb p (lit "datetime")) eqn:Ed; [|destruct Hct]. apply str_eqb_eq in Ed. subst p. exact Hp.
Qed.

Theorem c12_py_file uc cfg pd ds st :
  py_decls uc cfg pd = Ok (ds, st) -> c12_py_dom cfg (items_of pd) = true ->
  forall u, In u (c12_py_uses (c12_py_tv_vocab (items_of pd)) ds (py_type_variables st) (c12_py_fns st)) ->
    In u (c12_py_defs (py_type_variables st) (c12_py_fns st) (c12_py_imported st)).
Proof.
  unfold py_decls. intros H Hdom u Hu. apply c12_bind_ok in H as (items & Et & H).
  apply c12_topsort_perm in Et.
  destruct (mmapM (py_decl_of uc cfg) items py_empty_state) as [[dss st']| |] eqn:E; try discriminate H.
  injection H as <- <-.
  pose proof (c12_py_items_ok cfg pd items Et Hdom) as Hok.
  destruct (c12_py_items_flag uc cfg (c12_py_tv_vocab (items_of pd)) _ Hok _ _ _ E) as (L & Q & R).
  pose proof (c12_py_dom_no_dt _ _ Hdom) as Hnodt.
  rewrite Forall_forall in R.
  assert (Rin : forall it, In it (items_of pd) -> c12_py_Ri cfg it st').
  { intros it Hit. apply R. eapply Permutation_in; [apply Permutation_sym; exact Et|exact Hit]. }
  (* (a) *)
  assert (Ha : forall g, In g (c12_py_tv_vocab (items_of pd)) -> In g (py_type_variables st')).
  { intros g Hg. apply c12_py_tv_vocab_in in Hg as (it & Hit & Hg).
    destruct (Rin it Hit) as (_ & _ & T). exact (T g Hg). }
  (* (b) the helper functions an annotation names: their type is in the translation set (c12_py_fnok) *)
  unfold c12_py_uses in Hu. unfold c12_py_defs. rewrite !in_app_iff. apply in_app_iff in Hu as [Hu|Hu].
  - (* (c) the header's own uses *)
    unfold c12_py_header_uses in Hu. apply in_app_iff in Hu as [Hu|Hu].
    + destruct (py_type_variables st') as [|g gs] eqn:Eg; [destruct Hu|]. destruct Hu as [<-|[]].
      destruct L as (_ & _ & _ & L4 & _). destruct (L4 g) as [K|K]; [rewrite Eg; now left|destruct K|].
      right. right. exact K.
    + destruct (mem_str (lit "parse_rfc3339") (c12_py_fns st')) eqn:Em; [|destruct Hu]. destruct Hu as [<-|[]].
      apply c12_mem_str_In, c12_py_rfc_dt in Em.
      destruct L as (_ & _ & _ & _ & L5). destruct (L5 Em) as [K|[K|K]]; [destruct K| |contradiction].
      right. right. exact K.
  - destruct (Q u Hu) as [A|[A|[A|A]]]; auto.
    destruct A as (p & ct & Ect & Hname & Hp).
    right. left. eapply c12_py_fns_in; eauto.
Qed.
