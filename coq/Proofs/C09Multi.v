(* C09 in folder mode, the reconcile level: what reconcile_aliases (reconcile.rs:22) does to the names the types
   of crate b mention, read against the declarative resolution of Spec/C09MultiSpec.v (which crate a mention
   denotes, under which name that crate's file defines the type).  Works on the arrivals of the per-file front
   end, for every iteration order of the per-crate import set. *)
From Coq Require Import List Bool Lia Permutation String.
From TS Require Import Model.Str Model.Outcome Model.Types Model.Parse Model.Reconcile Model.Collect
                       Model.Lang.Common Model.Lang.Decl Model.MultiFile.
From TS Require Import Spec.C06MultiSpec Spec.C09Spec Spec.C09MultiSpec.
From TS Require Import Proofs.SortLemmas Proofs.C06 Proofs.C14 Proofs.C14Front Proofs.C14Main Proofs.C06Multi
                       Proofs.C09Common Proofs.C09Recon Proofs.C09Lang.
Import ListNotations.

(* ---------------------------------------------------------------- small facts *)
Lemma c9m_files_in (l : c9m_ws) b f : In f (c9m_files l b) <-> In (b, f) l.
Proof.
  unfold c9m_files. rewrite in_map_iff. split.
  - intros ([k p] & E & H). cbn [snd] in E. subst p. apply filter_In in H as [H E]. cbn [fst] in E. apply str_eqb_eq in E. now subst k.
  - intros H. exists (b, f). split; [reflexivity|]. apply filter_In. split; [exact H|]. cbn [fst]. apply str_eqb_refl.
Qed.

Lemma c9m_files_of_crate l b : c9m_files l b = of_crate b l.
Proof. reflexivity. Qed.

Lemma c9m_type_ids_eq pd : c9m_type_ids pd = type_ids pd.
Proof. reflexivity. Qed.

Lemma collect_single_type_ids fs x : In x (type_ids (collect_single fs)) <-> In x (flat_map c9m_type_ids fs).
Proof.
  unfold type_ids, collect_single. rewrite fold_add_structs, fold_add_enums, fold_add_aliases. cbn [empty_parsed p_structs p_enums p_aliases app].
  rewrite !in_app_iff, !in_map_iff, in_flat_map. unfold c9m_type_ids. split.
  - intros [(s & <- & H)|[(e & <- & H)|(a & <- & H)]]; apply in_flat_map in H as (f & Hf & H); exists f; (split; [exact Hf|]);
      rewrite !in_app_iff, !in_map_iff; eauto.
  - intros (f & Hf & H). rewrite !in_app_iff, !in_map_iff in H.
    destruct H as [(s & <- & H)|[(e & <- & H)|(a & <- & H)]]; [left|right; left|right; right]; eexists; (split; [reflexivity|]); apply in_flat_map; eauto.
Qed.

Lemma get06_defs_of cs d : get06 (defs_of cs) d = option_map type_defs (crates_get cs d).
Proof.
  induction cs as [|[k p] cs IH]; [reflexivity|]. cbn [defs_of map get06 crates_get fst snd]. fold (defs_of cs).
  destruct (str_eqb k d); [reflexivity|exact IH].
Qed.

Lemma find_rev_some {A} (p : A -> bool) l x : find p (rev l) = Some x -> In x l /\ p x = true.
Proof. intros H. apply find_some in H as [H E]. apply in_rev in H. auto. Qed.
Lemma find_rev_none {A} (p : A -> bool) l x : find p (rev l) = None -> In x l -> p x = false.
Proof. intros H Hx. eapply find_none in H; [exact H|]. now apply in_rev in Hx. Qed.

Section Multi.
Variable l : list (str * parsed).
Variable ho : list imported -> list imported.
Hypothesis Hho : oracle_ok ho.
Let cs0 := collect l.
Let cs := order_imports ho cs0.
Let rn := collect_serde_renames cs.

Lemma c9m_cs_nodup : NoDup (map fst cs).
Proof. unfold cs. rewrite order_imports_keys. apply collect_nodup. Qed.

(* ---------- the rename table in the specification's terms ---------- *)
Lemma c9m_lookup n c : lookup_rename rn n c = rename_of (defs_of cs0) c n.
Proof. unfold rn. rewrite lookup_rename_crates by apply c9m_cs_nodup. unfold cs. now rewrite defs_of_order. Qed.

Lemma c9m_rename_of d n :
  rename_of (defs_of cs0) d n =
  option_map td_generated (find (qdef n) (rev (type_defs (collect_single (c9m_files l d))))).
Proof.
  unfold rename_of. rewrite get06_defs_of. unfold cs0. rewrite collect_get. rewrite <- c9m_files_of_crate.
  destruct (c9m_files l d) as [|f fs] eqn:E; [reflexivity|]. reflexivity.
Qed.

Lemma c9m_rename_some d n r : rename_of (defs_of cs0) d n = Some r ->
  exists i, In i (c9m_crate_types l d) /\ original i = n /\ via_serde_rename i = true /\ renamed i = r.
Proof.
  rewrite c9m_rename_of. destruct (find _ _) as [td|] eqn:F; [|discriminate]. cbn [option_map]. intros [= <-].
  apply find_rev_some in F as [Hin Q]. unfold type_defs in Hin. apply in_map_iff in Hin as (i & <- & Hi).
  unfold qdef in Q. cbn [def_of_id td_rust td_serde] in Q. apply andb_true_iff in Q as [Q1 Q2]. apply str_eqb_eq in Q1.
  exists i. split; [|auto]. unfold c9m_crate_types. now apply collect_single_type_ids.
Qed.

Lemma c9m_rename_none d n i : rename_of (defs_of cs0) d n = None ->
  In i (c9m_crate_types l d) -> original i = n -> via_serde_rename i = false.
Proof.
  rewrite c9m_rename_of. destruct (find _ _) as [td|] eqn:F; [discriminate|]. intros _ Hi Ho.
  apply (find_rev_none _ _ (def_of_id i)) in F.
  - unfold qdef in F. cbn [def_of_id td_rust td_serde] in F. rewrite Ho, str_eqb_refl in F. exact F.
  - unfold type_defs. apply in_map. now apply collect_single_type_ids.
Qed.

Lemma c9m_serde_renames_iff d n : c9m_serde_renames l d n = true <-> exists r, rename_of (defs_of cs0) d n = Some r.
Proof.
  split.
  - unfold c9m_serde_renames. intros H. apply existsb_exists in H as (i & Hi & Q). apply andb_true_iff in Q as [Q1 Q2].
    unfold c9m_named in Q1. apply str_eqb_eq in Q1.
    destruct (rename_of (defs_of cs0) d n) as [r|] eqn:E; [eauto|]. rewrite (c9m_rename_none d n i E Hi Q1) in Q2. discriminate.
  - intros (r & E). apply c9m_rename_some in E as (i & Hi & Ho & Hv & _). unfold c9m_serde_renames. apply existsb_exists.
    exists i. split; [exact Hi|]. unfold c9m_named. now rewrite Ho, str_eqb_refl, Hv.
Qed.

(* the name a crate's file defines its type n under, read off the rename table *)
Lemma c9m_emitted d n : c9m_ids_wf l = true -> c9m_two_names l d n = false -> c9m_defines l d n = true ->
  c9m_emitted_name l d n = match rename_of (defs_of cs0) d n with Some r => r | None => n end.
Proof.
  intros Hwf H2 Hd. unfold c9m_defines in Hd.
  destruct (find (c9m_named n) (c9m_crate_types l d)) as [y|] eqn:F.
  2:{ apply existsb_exists in Hd as (i & Hi & Q). eapply find_none in F; [|exact Hi]. congruence. }
  assert (Em : c9m_emitted_name l d n = renamed y) by (unfold c9m_emitted_name; now rewrite F).
  apply find_some in F as [Hy Qy]. unfold c9m_named in Qy. apply str_eqb_eq in Qy.
  destruct (rename_of (defs_of cs0) d n) as [r|] eqn:E.
  - apply c9m_rename_some in E as (i & Hi & Ho & _ & <-).
    unfold c9m_two_names in H2. apply negb_false_iff in H2. rewrite forallb_forall in H2. specialize (H2 i Hi).
    unfold c9m_named in H2. rewrite Ho, str_eqb_refl in H2. cbn [negb orb] in H2. apply str_eqb_eq in H2. now rewrite H2.
  - rewrite Em. pose proof (c9m_rename_none d n y E Hy Qy) as Hv.
    unfold c9m_ids_wf in Hwf. rewrite forallb_forall in Hwf.
    unfold c9m_crate_types in Hy. apply in_flat_map in Hy as (f & Hf & Hy). apply c9m_files_in in Hf.
    specialize (Hwf (d, f) Hf). cbn [snd] in Hwf. rewrite forallb_forall in Hwf. specialize (Hwf y Hy).
    unfold c09_id_wf in Hwf. rewrite Hv in Hwf. cbn [orb] in Hwf. apply str_eqb_eq in Hwf. congruence.
Qed.

(* ---------- the import set of a crate: the union over its files, in any order ---------- *)
Lemma c9m_imports b pd x : In (b, pd) cs -> (In x (p_imports pd) <-> exists f, In (b, f) l /\ In x (p_imports f)).
Proof.
  intros H. unfold cs in H. apply order_imports_entry in H as (p & Hp & ->). cbn [p_imports with_imports].
  unfold imports_iter. rewrite (Hho _ x), imp_extend_in. cbn [In].
  unfold cs0 in Hp. apply collect_entry in Hp as [_ ->]. rewrite collect_single_imports, in_flat_map. rewrite <- c9m_files_of_crate.
  split.
  - intros [[]|(f & Hf & Hx)]. exists f. split; [now apply c9m_files_in|exact Hx].
  - intros (f & Hf & Hx). right. exists f. split; [now apply c9m_files_in|exact Hx].
Qed.

Lemma c9m_cands_in b pd n z : In (b, pd) cs -> In z (cands rn (p_imports pd) n) ->
  exists d, In d (c9m_crate_explicit l b n) /\ rename_of (defs_of cs0) d n = Some z.
Proof.
  intros H Hz. unfold cands in Hz. apply in_flat_map in Hz as (i & Hi & Hz).
  destruct (str_eqb (type_name i) n) eqn:E; [|destruct Hz].
  rewrite c9m_lookup in Hz. destruct (rename_of (defs_of cs0) (base_crate i) n) as [r|] eqn:R; [|destruct Hz]. destruct Hz as [<-|[]].
  exists (base_crate i). split; [|exact R].
  apply (c9m_imports b pd i H) in Hi as (f & Hf & Hi). unfold c9m_crate_explicit. apply in_flat_map. exists f. split; [now apply c9m_files_in|].
  unfold c9m_explicit. apply in_map. apply filter_In. split; assumption.
Qed.

Lemma c9m_cands_of b pd f n d r : In (b, pd) cs -> In (b, f) l -> In d (c9m_explicit f n) -> rename_of (defs_of cs0) d n = Some r ->
  In r (cands rn (p_imports pd) n).
Proof.
  intros H Hf Hd R. unfold c9m_explicit in Hd. apply in_map_iff in Hd as (i & <- & Hi). apply filter_In in Hi as [Hi E].
  unfold cands. apply in_flat_map. exists i. split; [apply (c9m_imports b pd i H); eauto|]. rewrite E, c9m_lookup, R. now left.
Qed.

(* a name is in the rename table only if some crate of the workspace serde-renames a type of that name *)
Lemma c9m_has_original n : has_original rn n = true -> c9m_generic_shadow l n = true.
Proof.
  unfold has_original. intros H. apply existsb_exists in H as ([[o c] r] & Hin & E). cbn [fst] in E. apply str_eqb_eq in E. subst o.
  unfold rn, collect_serde_renames in Hin. apply in_flat_map in Hin as ([k pd] & Hk & Hin). cbn [fst snd] in Hin.
  rewrite crate_renames_ids in Hin. apply in_flat_map in Hin as (i & Hi & Hin). unfold rn_of_id in Hin.
  destruct (via_serde_rename i) eqn:V; [|destruct Hin]. destruct Hin as [[= Ho <- <-]|[]].
  unfold cs in Hk. apply order_imports_entry in Hk as (p & Hp & ->).
  change (type_ids (with_imports p (imports_iter ho p))) with (type_ids p) in Hi.
  unfold cs0 in Hp. apply collect_entry in Hp as [_ ->]. apply collect_single_type_ids in Hi. rewrite <- c9m_files_of_crate in Hi.
  pose proof Hi as Hi'. apply in_flat_map in Hi' as (f & Hf & _). apply c9m_files_in in Hf.
  unfold c9m_generic_shadow. apply existsb_exists. exists (k, f). split; [exact Hf|]. cbn [fst].
  unfold c9m_serde_renames. apply existsb_exists. exists i. split; [exact Hi|]. unfold c9m_named. now rewrite Ho, str_eqb_refl, V.
Qed.

Lemma c9m_lookup_has n c r : lookup_rename rn n c = Some r -> has_original rn n = true.
Proof.
  unfold lookup_rename. destruct (find _ (rev rn)) as [[[o k] r']|] eqn:F; [|discriminate]. intros _.
  apply find_some in F as [Hin E]. apply in_rev in Hin. cbn [fst snd] in E. apply andb_true_iff in E as [E _].
  unfold has_original. apply existsb_exists. eexists. split; [exact Hin|]. exact E.
Qed.

(* ---------- reconcile.rs:169 resolve_renamed against the declarative resolution ---------- *)
Definition c9m_res (b : str) (im : list imported) (i : str) : str :=
  match resolve_renamed b rn im i with Some r => r | None => i end.

Theorem c9m_resolved b pd f gs i s :
  c9m_ids_wf l = true -> In (b, pd) cs -> In (b, f) l ->
  c9m_known l b f gs i = None -> c9m_spelling l b f gs i = Some s ->
  c9m_res b (p_imports pd) i = s.
Proof.
  intros Hwf Hpd Hf Hk Hs. unfold c9m_known in Hk. unfold c9m_spelling in Hs. unfold c9m_res.
  destruct (mem_str i gs) eqn:G.
  - injection Hs as <-. destruct (c9m_generic_shadow l i) eqn:Sh; [discriminate|].
    unfold resolve_renamed. destruct (has_original rn i) eqn:Ho; [apply c9m_has_original in Ho; congruence|]. reflexivity.
  - destruct (c9m_split_scope l b f i) eqn:K1; [discriminate|].
    destruct (c9m_import_over_own l b f i) eqn:K2; [discriminate|].
    destruct (c9m_glob_renamed l b f i) eqn:K3; [discriminate|].
    rewrite resolve_renamed_cands.
    unfold c9m_denotes in Hk, Hs. unfold c9m_split_scope in K1. unfold c9m_import_over_own in K2. unfold c9m_glob_renamed in K3.
    destruct (c9m_explicit f i) as [|d ds] eqn:Ex.
    + (* no explicit import in the file: none in the crate *)
      apply negb_false_iff in K1.
      assert (Hc : cands rn (p_imports pd) i = []).
      { destruct (cands rn (p_imports pd) i) as [|z zs] eqn:C; [reflexivity|]. exfalso.
        destruct (c9m_cands_in b pd i z Hpd) as (d & Hd & _); [rewrite C; now left|].
        destruct (c9m_crate_explicit l b i); [destruct Hd|discriminate]. }
      rewrite Hc. cbn [hd_error].
      assert (R : (if negb (has_original rn i) then None else lookup_rename rn i b) = rename_of (defs_of cs0) b i).
      { rewrite <- c9m_lookup. destruct (has_original rn i) eqn:Ho; [reflexivity|]. cbn [negb].
        destruct (lookup_rename rn i b) as [r|] eqn:Lk; [|reflexivity]. apply c9m_lookup_has in Lk. congruence. }
      rewrite R.
      destruct (c9m_defines l b i) eqn:Db.
      * rewrite Db in Hs. injection Hs as <-.
        destruct (c9m_two_names l b i) eqn:K5; [discriminate|].
        rewrite (c9m_emitted b i Hwf K5 Db). reflexivity.
      * assert (Rn : rename_of (defs_of cs0) b i = None).
        { destruct (rename_of (defs_of cs0) b i) eqn:E; [|reflexivity]. apply c9m_rename_some in E as (x & Hx & Hox & _).
          unfold c9m_defines in Db. assert (existsb (c9m_named i) (c9m_crate_types l b) = true); [|congruence].
          apply existsb_exists. exists x. split; [exact Hx|]. unfold c9m_named. now rewrite Hox, str_eqb_refl. }
        rewrite Rn.
        destruct (find (fun d => c9m_defines l d i) (c9m_globs f)) as [d|] eqn:Fg; [|discriminate].
        pose proof Fg as Fg'. apply find_some in Fg' as [_ Dd]. rewrite Dd in Hs. injection Hs as <-.
        apply negb_false_iff in K3. apply str_eqb_eq in K3. now rewrite K3.
    + (* the file imports i from d: every import of i in the crate is from d *)
      apply negb_false_iff in K1. rewrite forallb_forall in K1.
      destruct (c9m_defines l d i) eqn:Dd; [|discriminate]. injection Hs as <-.
      destruct (c9m_two_names l d i) eqn:K5; [discriminate|].
      rewrite (c9m_emitted d i Hwf K5 Dd).
      assert (Hall : forall z, In z (cands rn (p_imports pd) i) -> rename_of (defs_of cs0) d i = Some z).
      { intros z Hz. destruct (c9m_cands_in b pd i z Hpd Hz) as (d' & Hd' & R). specialize (K1 d' Hd'). apply str_eqb_eq in K1. now subst d'. }
      destruct (rename_of (defs_of cs0) d i) as [r|] eqn:R.
      * assert (Hr : In r (cands rn (p_imports pd) i)).
        { eapply (c9m_cands_of b pd f i d r Hpd Hf); [rewrite Ex; now left|exact R]. }
        assert (Ho : has_original rn i = true).
        { apply (c9m_lookup_has i d r). now rewrite c9m_lookup. }
        rewrite Ho. cbn [negb]. destruct (cands rn (p_imports pd) i) as [|z zs]; [destruct Hr|]. cbn [hd_error].
        specialize (Hall z (or_introl eq_refl)). congruence.
      * assert (Hc : cands rn (p_imports pd) i = []).
        { destruct (cands rn (p_imports pd) i) as [|z zs]; [reflexivity|]. specialize (Hall z (or_introl eq_refl)). discriminate. }
        rewrite Hc. cbn [hd_error].
        destruct (has_original rn i); cbn [negb]; [|reflexivity].
        rewrite c9m_lookup.
        destruct (str_eqb d b) eqn:Edb.
        -- apply str_eqb_eq in Edb. subst d. now rewrite R.
        -- cbn [negb andb] in K2.
           assert (Sd : c9m_serde_renames l d i = false).
           { destruct (c9m_serde_renames l d i) eqn:S; [|reflexivity]. apply c9m_serde_renames_iff in S as (r & S). congruence. }
           rewrite Sd in K2. cbn [negb andb] in K2.
           destruct (rename_of (defs_of cs0) b i) as [r|] eqn:Rb; [|reflexivity].
           assert (c9m_serde_renames l b i = true) by (apply c9m_serde_renames_iff; eauto). congruence.
Qed.
End Multi.

(* ---------------------------------------------------------------- check_type rewrites the mentioned ids, nothing else *)
Lemma c9m_check_type_ids cn rn im t :
  c09_type_ids (check_type cn rn im t) =
  map (fun fi => (fst fi, match resolve_renamed cn rn im (snd fi) with Some r => r | None => snd fi end)) (c09_type_ids t).
Proof.
  induction t using rtype_ind'; cbn [check_type].
  - destruct (resolve_renamed cn rn im id) eqn:R; cbn [c09_type_ids map fst snd]; rewrite R; reflexivity.
  - cbn [c09_type_ids map fst snd]. f_equal.
    rewrite !flat_map_concat_map, map_map, concat_map, map_map. f_equal.
    apply map_ext_in. intros p Hp. rewrite Forall_forall in H. exact (H p Hp).
  - exact IHt.
  - exact IHt.
  - exact IHt.
  - cbn [c09_type_ids]. now rewrite map_app, IHt1, IHt2.
  - exact IHt.
  - reflexivity.
Qed.

(* ---------------------------------------------------------------- the type positions of a reconciled crate *)
Definition c9m_rtp (cn : str) (rn : renames) (im : list imported) (tp : c09_tpos) : c09_tpos :=
  {| c9t_owner := c9t_owner tp; c9t_generics := c9t_generics tp; c9t_pos := c9t_pos tp;
     c9t_type := check_type cn rn im (c9t_type tp) |}.

Lemma c9m_tposs_reconciled cn rn pd tp' : In tp' (c09_tposs (reconcile_crate rn cn pd)) ->
  exists tp, In tp (c09_tposs pd) /\ tp' = c9m_rtp cn rn (p_imports pd) tp.
Proof.
  intros H0. unfold c09_tposs, reconcile_crate in H0. cbn [p_structs p_enums p_aliases p_consts] in H0.
  rewrite !in_app_iff, !in_flat_map, !in_map_iff in H0.
  destruct H0 as [(s' & Hs' & H)|[(e' & He' & H)|[(a' & <- & Ha')|(c' & <- & Hc')]]].
  - apply c09_stable_sort_in, in_map_iff in Hs' as (s & <- & Hs). cbn [sfields sid sgenerics] in H.
    apply in_map_iff in H as (f' & <- & Hf'). apply in_map_iff in Hf' as (f & <- & Hf).
    eexists. split; [exact (c09_tp_struct pd s f Hs Hf)|reflexivity].
  - apply c09_stable_sort_in, in_map_iff in He' as (e & <- & He). cbv zeta in H.
    assert (Esh : enum_shared (match e with
                               | EUnit sh => EUnit (check_eshared cn rn (p_imports pd) sh)
                               | EAlgebraic t c sh => EAlgebraic t c (check_eshared cn rn (p_imports pd) sh)
                               end) = check_eshared cn rn (p_imports pd) (enum_shared e)) by (destruct e; reflexivity).
    rewrite Esh in H. cbn [check_eshared eid egenerics evariants] in H.
    apply in_flat_map in H as (v' & Hv' & H). apply in_map_iff in Hv' as (v & <- & Hv).
    destruct v as [sh|t sh|fs sh]; cbn [check_variant c09_variant_tpos] in H.
    + destruct H.
    + destruct H as [<-|[]]. eexists. split; [exact (c09_tp_tuple pd e t sh He Hv)|reflexivity].
    + apply in_map_iff in H as (f' & <- & Hf'). apply in_map_iff in Hf' as (f & <- & Hf).
      eexists. split; [exact (c09_tp_anon pd e fs sh f He Hv Hf)|reflexivity].
  - apply c09_stable_sort_in, in_map_iff in Ha' as (a & <- & Ha).
    eexists. split; [exact (c09_tp_alias pd a Ha)|reflexivity].
  - apply c09_stable_sort_in, in_map_iff in Hc' as (c & <- & Hc).
    eexists. split; [exact (c09_tp_const pd c Hc)|reflexivity].
Qed.

Lemma c9m_tposs_collect fs tp : In tp (c09_tposs (collect_single fs)) -> exists f, In f fs /\ In tp (c09_tposs f).
Proof.
  unfold c09_tposs at 1, collect_single. rewrite fold_add_structs, fold_add_enums, fold_add_aliases, fold_add_consts.
  cbn [empty_parsed p_structs p_enums p_aliases p_consts app].
  rewrite !in_app_iff, !in_flat_map, !in_map_iff.
  intros [(s & Hs & H)|[(e & He & H)|[(a & <- & Ha)|(c & <- & Hc)]]].
  - apply in_flat_map in Hs as (f & Hf & Hs). exists f. split; [exact Hf|]. unfold c09_tposs. rewrite !in_app_iff, in_flat_map. left. eauto.
  - apply in_flat_map in He as (f & Hf & He). exists f. split; [exact Hf|]. unfold c09_tposs. rewrite !in_app_iff, !in_flat_map. right. left. eauto.
  - apply in_flat_map in Ha as (f & Hf & Ha). exists f. split; [exact Hf|]. unfold c09_tposs. rewrite !in_app_iff, !in_map_iff. right. right. left. eauto.
  - apply in_flat_map in Hc as (f & Hf & Hc). exists f. split; [exact Hf|]. unfold c09_tposs. rewrite !in_app_iff, !in_map_iff. right. right. right. eauto.
Qed.

(* ---------------------------------------------------------------- the theorem *)
Theorem c9m_multi_reconciled_mentions (ho : list imported -> list imported) (l : list (str * parsed)) :
  oracle_ok ho -> c9m_ids_wf l = true ->
  forall b pd', In (b, pd') (multi_crates ho l) ->
  forall tp' form i', In tp' (c09_tposs pd') -> In (form, i') (c09_type_ids (c9t_type tp')) ->
  exists tp i,
    c9t_owner tp' = c9t_owner tp /\ c9t_generics tp' = c9t_generics tp /\ c9t_pos tp' = c9t_pos tp /\
    In (form, i) (c09_type_ids (c9t_type tp)) /\
    (exists f, In (b, f) l /\ In tp (c09_tposs f)) /\
    (forall f, In (b, f) l -> In tp (c09_tposs f) ->
       c9m_known l b f (c9t_generics tp) i = None ->
       forall s, c9m_spelling l b f (c9t_generics tp) i = Some s -> i' = s).
Proof.
  intros Hho Hwf b pd' Hin tp' form i' Htp' Hi'.
  unfold multi_crates, reconcile_aliases in Hin. apply in_map_iff in Hin as ([k pd] & E & Hpd). cbn [fst snd] in E. injection E as <- <-.
  apply c9m_tposs_reconciled in Htp' as (tp & Htp & ->). cbn [c9m_rtp c9t_type] in Hi'.
  rewrite c9m_check_type_ids in Hi'. apply in_map_iff in Hi' as ([form0 i] & E & Hi). cbn [fst snd] in E. injection E as <- <-.
  pose proof Hpd as Hpd0. apply order_imports_entry in Hpd0 as (p & Hp & Epd).
  assert (Htp0 : In tp (c09_tposs p)) by (rewrite Epd in Htp; exact Htp).
  apply collect_entry in Hp as [_ ->]. apply c9m_tposs_collect in Htp0 as (f0 & Hf0 & Htpf0).
  exists tp, i. split; [reflexivity|]. split; [reflexivity|]. split; [reflexivity|]. split; [exact Hi|]. split.
  - exists f0. split; [apply c9m_files_in; exact Hf0|exact Htpf0].
  - intros f Hf Htpf Hk s Hs. exact (c9m_resolved l ho Hho k pd f _ i s Hwf Hpd Hf Hk Hs).
Qed.
