(* C11: ordering the output never loses or duplicates a definition; on an acyclic dependency graph
   every definition comes after everything the graph says it depends on. *)
From Coq Require Import List Arith Bool Lia Permutation.
From TS Require Import Model.Str Model.Outcome Model.Types Model.TopsortAlgo Model.Topsort.
From TS Require Import Proofs.ToposortPerm Proofs.SortByIndices.
Import ListNotations.
Local Open Scope nat_scope.
Local Notation length := List.length (only parsing).

Lemma mapM_ok_length {A B} (f : A -> outcome B) l r : mapM f l = Ok r -> length r = length l.
Proof.
  revert r; induction l as [|x l IH]; intros r; cbn [mapM].
  - intros [= <-]. reflexivity.
  - destruct (f x) as [y| |]; cbn [bind]; try discriminate.
    destruct (mapM f l) as [ys| |]; cbn [bind]; try discriminate.
    intros [= <-]. cbn. f_equal. now apply IH.
Qed.

Lemma mapM_ok_Forall {A B} (f : A -> outcome B) (P : B -> Prop) l r :
  (forall x y, In x l -> f x = Ok y -> P y) -> mapM f l = Ok r -> Forall P r.
Proof.
  revert r; induction l as [|x l IH]; intros r HP; cbn [mapM].
  - intros [= <-]. constructor.
  - destruct (f x) as [y| |] eqn:Ex; cbn [bind]; try discriminate.
    destruct (mapM f l) as [ys| |] eqn:El; cbn [bind]; try discriminate.
    intros [= <-]. constructor.
    + eapply HP; [left; reflexivity|exact Ex].
    + apply IH; [|reflexivity]. intros a b Ha. apply HP. now right.
Qed.

Lemma get_index_lt thing things i : get_index thing things = Some i -> i < length things.
Proof.
  revert i; induction things as [|x r IH]; intros i; cbn [get_index]; [discriminate|].
  destruct (ritem_eqb x thing); [intros [= <-]; cbn; lia|].
  destruct (get_index thing r) as [j|]; cbn; [|discriminate]. intros [= <-]. specialize (IH j eq_refl). lia.
Qed.

(* the graph handed to toposort_impl is always well formed *)
Lemma build_dag_wf things dag : build_dag things = Ok dag ->
  length dag = length things /\ Forall (Forall (fun x => x < length dag)) dag.
Proof.
  intros H. pose proof (mapM_ok_length _ _ _ H) as HL. split; [exact HL|].
  rewrite HL. unfold build_dag in H.
  eapply mapM_ok_Forall; [|exact H]. intros thing row _ Hrow. unfold dag_row in Hrow.
  destruct (get_dependencies _ _ thing _) as [s|]; [|discriminate].
  eapply mapM_ok_Forall; [|exact Hrow]. intros dep i _ Hi. cbn beta in Hi.
  destruct (types_get things dep) as [it|]; [|discriminate].
  destruct (get_index it things) as [j|] eqn:Ej; [|discriminate].
  injection Hi as <-. eapply get_index_lt; eassumption.
Qed.

(* whenever the dependency collection completes, the emitted sequence is a permutation of the
   parsed items: exactly once each, none lost, none invented - cycles, self references and
   duplicate names included *)
Theorem topsort_permutation things dag : build_dag things = Ok dag ->
  exists out, topsort things = Ok out /\ Permutation out things.
Proof.
  intros H. destruct (build_dag_wf things dag H) as [HL HW].
  unfold topsort. rewrite H. cbn [bind].
  destruct (toposort_perm dag HW) as (r & Er & Pr). rewrite Er. cbn [bind].
  rewrite HL in Pr.
  destruct (sort_by_indices_perm ritem things r Pr) as (out & Eo & Po). eauto.
Qed.

(* ... and it is the list of items selected by toposort_impl's index order *)
Theorem topsort_is_reindexing things dag d : build_dag things = Ok dag ->
  exists r, toposort_impl dag = Ok r /\ Permutation r (seq 0 (length things)) /\
            topsort things = Ok (map (fun j => nth j things d) r).
Proof.
  intros H. destruct (build_dag_wf things dag H) as [HL HW].
  destruct (toposort_perm dag HW) as (r & Er & Pr). rewrite HL in Pr.
  exists r. repeat split; auto.
  unfold topsort. rewrite H. cbn [bind]. rewrite Er. cbn [bind].
  now apply sort_by_indices_spec.
Qed.

(* acyclic collected graph: every item is emitted after all items its row names *)
Theorem topsort_respects_dag things dag d (rank : nat -> nat) :
  build_dag things = Ok dag ->
  (forall i deps x, nth_error dag i = Some deps -> In x deps -> rank x < rank i) ->
  exists r, topsort things = Ok (map (fun j => nth j things d) r) /\
            Permutation r (seq 0 (length things)) /\
            (forall r1 x r2 deps, r = r1 ++ x :: r2 -> nth_error dag x = Some deps -> incl deps r1).
Proof.
  intros H Hrank. destruct (build_dag_wf things dag H) as [HL HW].
  destruct (toposort_acyclic dag HW rank Hrank) as (r & Er & Pr & Ho). rewrite HL in Pr.
  exists r. repeat split; auto.
  unfold topsort. rewrite H. cbn [bind]. rewrite Er. cbn [bind].
  now apply sort_by_indices_spec.
Qed.
