(* C12: the observation the check compares - (helper names used, helper names defined/imported) of
   the file the model generates, per back end.  Glue only: the model's declarations handed to the
   readers of Spec/C12Spec.v. *)
From Coq Require Import List.
From TS Require Import Model.Str Model.Outcome Model.Unicode Model.Types Model.Parse Model.Lang.Common Model.Lang.Decl
                       Model.Lang.Swift Model.Lang.Scala Model.Lang.Python Model.Lang.Go Model.Lang.Kotlin
                       Spec.C12Spec.
Import ListNotations.

Definition c12_sw_observe (uc : unicode) (cfg : sw_config) (pd : parsed) : outcome (list str * list str) :=
  do r <- sw_decls uc cfg pd;
  let all := fst r ++ sw_trailing_decls cfg (snd r) in
  Ok (c12_sw_uses all, c12_sw_defs all).

Definition c12_sc_observe (uc : unicode) (cfg : sc_config) (pd : parsed) : outcome (list str * list str) :=
  do r <- sc_decls uc cfg pd;
  let all := fst r ++ snd r in
  Ok (c12_sc_uses all, c12_sc_defs all).

Definition c12_go_observe (uc : unicode) (cfg : go_config) (pd : parsed) : outcome (list str * list str) :=
  do r <- go_decls uc cfg pd;
  Ok (c12_go_uses (fst r), c12_go_defs (snd r)).

Definition c12_kt_observe (uc : unicode) (cfg : kt_config) (pd : parsed) : outcome (list str * list str) :=
  do ds <- kt_decls uc cfg pd;
  Ok (c12_kt_uses ds, c12_kt_defs (kt_header_of cfg)).

(* what the Python header defines, read off the state the body left behind (python.rs:538, :142) *)
Definition c12_py_fns (st : py_state) : list str :=
  flat_map (fun ct => [py_ser_name ct; py_de_name ct]) (py_translations_defined st).
Definition c12_py_imported (st : py_state) : list str := flat_map snd (py_imports st).
Definition c12_py_observe (uc : unicode) (cfg : py_config) (pd : parsed) : outcome (list str * list str) :=
  do r <- py_decls uc cfg pd;
  let st := snd r in
  Ok (c12_py_uses (c12_py_tv_vocab (items_of pd)) (fst r) (py_type_variables st) (c12_py_fns st),
      c12_py_defs (py_type_variables st) (c12_py_fns st) (c12_py_imported st)).
