(* C14, the import clause against Spec.C14Spec: soundness (no import names a type its module does not
   define, none names the file itself) and completeness on dom_C14 (named references and references covered by
   a glob import), for every workspace and every order oracle; the pairs used_imports returns are a function of
   the SET of imports it is given (no iteration order of the per-crate import set reaches them). *)
From Coq Require Import List Bool Lia ZifyBool ZifyN Permutation String.
From TS Require Import Model.Str Model.Outcome Model.Unicode Model.Syntax Model.Attrs Model.Rename Model.Types Model.Parse
                       Model.Reconcile Model.Collect Model.Lang.Common Model.MultiFile.
From TS Require Import Spec.C11Spec Spec.C14Spec.
From TS Require Import Proofs.SortLemmas Proofs.C06 Proofs.FrontItems Proofs.C14 Proofs.C14Front Proofs.C14Main.
Import ListNotations.
Local Open Scope N_scope.

(* ====================================================================================== *)
(* used_imports only ever adds                                                              *)
(* ====================================================================================== *)
Lemma import_fallback_mono ct own name m k n :
  In (k, n) (scoped_pairs m) -> In (k, n) (scoped_pairs (import_fallback ct own name m)).
Proof. unfold import_fallback. destruct (find _ ct) as [kv|]; [|auto]. intros H. apply scoped_add_pairs. now right. Qed.

Lemma used_imports_step_mono ct own m imp k n :
  In (k, n) (scoped_pairs m) -> In (k, n) (scoped_pairs (used_imports_step ct own m imp)).
Proof.
  intros H. unfold used_imports_step. destruct (str_eqb (base_crate imp) own); [exact H|].
  destruct (crate_types_get ct (base_crate imp)) as [names|]; [|now apply import_fallback_mono].
  destruct (str_eqb (type_name imp) GLOB); [now apply scoped_extend_mono|].
  destruct (mem_str (type_name imp) names); [apply scoped_add_pairs; now right|now apply import_fallback_mono].
Qed.
Lemma fold_step_mono ct own imports k n : forall m,
  In (k, n) (scoped_pairs m) -> In (k, n) (scoped_pairs (fold_left (used_imports_step ct own) imports m)).
Proof. induction imports as [|i r IH]; intros m H; cbn [fold_left]; [exact H|]. apply IH. now apply used_imports_step_mono. Qed.

Lemma used_imports_complete ct own imports d n names :
  In {| base_crate := d; type_name := n |} imports -> d <> own -> crate_types_get ct d = Some names -> In n names -> n <> GLOB ->
  In (d, n) (scoped_pairs (used_imports ct own imports)).
Proof.
  intros Hin Hne G Hn Hg. rewrite used_imports_fold. apply in_split in Hin as (l1 & l2 & ->).
  rewrite fold_left_app. cbn [fold_left]. apply fold_step_mono.
  unfold used_imports_step at 1. cbn [base_crate type_name].
  apply str_eqb_neq in Hne. rewrite Hne, G. apply str_eqb_neq in Hg. rewrite Hg.
  apply mem_str_in in Hn. rewrite Hn. apply scoped_add_pairs. now left.
Qed.

(* a `*` import of crate d brings in every name of d's type table, wherever it comes in the iteration and whether
   or not another import of d is present (mod.rs:473 creates the entry) *)
Lemma used_imports_glob_complete ct own imports d n names :
  In {| base_crate := d; type_name := GLOB |} imports -> d <> own -> crate_types_get ct d = Some names -> In n names ->
  In (d, n) (scoped_pairs (used_imports ct own imports)).
Proof.
  intros Hin Hne G Hn. rewrite used_imports_fold. apply in_split in Hin as (l1 & l2 & ->).
  rewrite fold_left_app. cbn [fold_left]. apply fold_step_mono.
  unfold used_imports_step at 1. cbn [base_crate type_name].
  apply str_eqb_neq in Hne. rewrite Hne, G, str_eqb_refl. apply scoped_extend_pairs. right. split; [reflexivity|exact Hn].
Qed.

(* ---------- the result is a function of the set of imports ---------- *)
Lemma import_fallback_pairs ct own name m k n :
  In (k, n) (scoped_pairs (import_fallback ct own name m)) <->
  In (k, n) (scoped_pairs m) \/ In (k, n) (scoped_pairs (import_fallback ct own name [])).
Proof.
  unfold import_fallback. destruct (find _ ct) as [kv|]; [|cbn; tauto].
  rewrite !scoped_add_pairs. cbn. tauto.
Qed.
(* one iteration adds to the accumulator exactly what it would add to the empty map *)
Lemma used_imports_step_pairs ct own m imp k n :
  In (k, n) (scoped_pairs (used_imports_step ct own m imp)) <->
  In (k, n) (scoped_pairs m) \/ In (k, n) (scoped_pairs (used_imports_step ct own [] imp)).
Proof.
  unfold used_imports_step. destruct (str_eqb (base_crate imp) own); [cbn; tauto|].
  destruct (crate_types_get ct (base_crate imp)) as [names|]; [|apply import_fallback_pairs].
  destruct (str_eqb (type_name imp) GLOB).
  - rewrite !scoped_extend_pairs. cbn. tauto.
  - destruct (mem_str (type_name imp) names); [|apply import_fallback_pairs].
    rewrite !scoped_add_pairs. cbn. tauto.
Qed.
Lemma fold_step_pairs ct own imports k n : forall m,
  In (k, n) (scoped_pairs (fold_left (used_imports_step ct own) imports m)) <->
  In (k, n) (scoped_pairs m) \/ exists imp, In imp imports /\ In (k, n) (scoped_pairs (used_imports_step ct own [] imp)).
Proof.
  induction imports as [|i r IH]; intros m; cbn [fold_left].
  - split; [now left|intros [H|(x & [] & _)]; exact H].
  - rewrite IH, used_imports_step_pairs. split.
    + intros [[H|H]|(x & Hx & H)]; [now left|right; exists i; split; [now left|exact H]|right; exists x; split; [now right|exact H]].
    + intros [H|(x & [<-|Hx] & H)]; [left; now left|left; now right|right; now exists x].
Qed.
Lemma used_imports_pairs ct own imports k n :
  In (k, n) (scoped_pairs (used_imports ct own imports)) <->
  exists imp, In imp imports /\ In (k, n) (scoped_pairs (used_imports_step ct own [] imp)).
Proof. rewrite used_imports_fold, fold_step_pairs. cbn. split; [intros [[]|H]; exact H|now right]. Qed.

(* two import lists with the same elements - two iteration orders of one HashSet - import the same pairs *)
Theorem used_imports_order_irrelevant ct own l1 l2 : (forall x, In x l1 <-> In x l2) ->
  forall k n, In (k, n) (scoped_pairs (used_imports ct own l1)) <-> In (k, n) (scoped_pairs (used_imports ct own l2)).
Proof.
  intros H k n. rewrite !used_imports_pairs. split; intros (x & Hx & K); exists x; (split; [now apply H|exact K]).
Qed.

Lemma crate_types_get_some ct d names : In (d, names) ct -> exists names', crate_types_get ct d = Some names' /\ In (d, names') ct.
Proof.
  induction ct as [|[a v] ct IH]; intros H; [destruct H|]. cbn [crate_types_get].
  destruct (str_eqb a d) eqn:E.
  - apply str_eqb_eq in E. subst a. exists v. split; [reflexivity|now left].
  - destruct H as [[= -> ->]|H]; [now rewrite str_eqb_refl in E|]. destruct (IH H) as (n' & G & Hin). exists n'. split; [exact G|now right].
Qed.
Lemma crate_types_get_oracle (hc : crate_types -> crate_types) ct d names :
  oracle_ok hc -> NoDup (map fst ct) -> In (d, names) ct -> crate_types_get (hc ct) d = Some names.
Proof.
  intros Ho ND H. apply (proj2 (Ho _ _)) in H. destruct (crate_types_get_some _ _ _ H) as (n' & G & Hin).
  rewrite G. f_equal. apply (proj1 (Ho _ _)) in Hin, H. exact (nodup_fst_inj ct d n' names ND Hin H).
Qed.

Lemma filter_nil {A} (f : A -> bool) l : (forall x, In x l -> f x = false) -> filter f l = [].
Proof.
  induction l as [|x l IH]; intros H; [reflexivity|]. cbn [filter]. rewrite (H x (or_introl eq_refl)). apply IH. intros y Hy. apply H. now right.
Qed.

(* ====================================================================================== *)
(* the spec's acceptance tests imply the implementation's                                   *)
(* ====================================================================================== *)
Section UC.
Variable uc : unicode.
Hypothesis Huc : unicode_ok uc.

Lemma crate_ok_accept d : crate_ok d = true -> accept_crate uc d = true /\ is_crate_alias d = false.
Proof.
  unfold crate_ok. intros H. apply andb_true_iff in H as [H H3]. apply andb_true_iff in H as [H1 H2]. split.
  - unfold accept_crate. change IGNORED_BASE_CRATES with IGNORED_CRATES14. rewrite H1. cbn [andb].
    destruct d as [|c r]; [discriminate|]. rewrite (ok_lower uc Huc c); [exact H3|].
    unfold is_alower in H3. apply andb_true_iff in H3 as [Ha Hb]. apply N.leb_le in Ha, Hb. lia.
  - unfold mem_str in H2. cbn [existsb] in H2. unfold is_crate_alias.
    destruct (str_eqb d (lit "crate")), (str_eqb d (lit "super")), (str_eqb d (lit "self")); cbn in *; congruence.
Qed.
Lemma type_ok_accept n : type_ok n = true -> accept_type uc n = true /\ n <> GLOB.
Proof.
  unfold type_ok. intros H. apply andb_true_iff in H as [H H3]. apply andb_true_iff in H as [H1 H2]. split.
  - unfold accept_type. destruct n as [|c r]; [discriminate|]. change IGNORED_TYPES with IGNORED_TYPES14. rewrite H1.
    rewrite (ok_upper uc Huc c); [now rewrite H3|].
    unfold is_aupper in H3. apply andb_true_iff in H3 as [Ha Hb]. apply N.leb_le in Ha, Hb. lia.
  - apply negb_true_iff in H2. now apply str_eqb_neq in H2.
Qed.
Lemma crate_type_ne d n : crate_ok d = true -> type_ok n = true -> d <> n.
Proof.
  unfold crate_ok, type_ok. intros H K E. subst n. apply andb_true_iff in H as [_ H]. apply andb_true_iff in K as [_ K].
  destruct d as [|c r]; [discriminate|]. unfold is_alower in H. unfold is_aupper in K.
  apply andb_true_iff in H as [Ha Hb]. apply andb_true_iff in K as [Ka Kb]. apply N.leb_le in Ha, Hb, Ka, Kb. lia.
Qed.
Lemma resolve_not_alias own d : is_crate_alias d = false -> resolve_crate own d = d.
Proof. unfold resolve_crate. now intros ->. Qed.

(* ---------- qualified paths ---------- *)
Lemma path_candidate_intro own ign d n p :
  crate_ok d = true -> type_ok n = true -> mem_str n ign = false -> path_introduces d n p = true ->
  path_candidate uc own ign p = Some {| base_crate := d; type_name := n |}.
Proof.
  intros Hd Hn Hi Hp. unfold path_introduces in Hp. unfold path_candidate. change (path_segments p) with (segs14 p).
  destruct (segs14 p) as [|c [|x r]]; try discriminate.
  apply andb_true_iff in Hp as [E1 E2]. apply str_eqb_eq in E1, E2. subst c. cbv zeta. rewrite E2.
  destruct (crate_ok_accept d Hd) as (A1 & A2). destruct (type_ok_accept n Hn) as (A3 & _).
  rewrite A1, A3, Hi. cbn [andb negb]. pose proof (crate_type_ne d n Hd Hn) as Hne. apply str_eqb_neq in Hne. rewrite Hne. cbn [negb].
  now rewrite resolve_not_alias.
Qed.
Lemma path_candidate_inv own ign p imp : path_candidate uc own ign p = Some imp ->
  path_mentions (type_name imp) p = true /\
  forall d, path_introduces d (type_name imp) p = true -> base_crate imp = resolve_crate own d.
Proof.
  unfold path_candidate, path_mentions, path_introduces. change (path_segments p) with (segs14 p).
  destruct (segs14 p) as [|c r]; [discriminate|]. cbv zeta.
  destruct (accept_crate uc c && accept_type uc (last r c) && negb (mem_str (last r c) ign) && negb (str_eqb c (last r c))) eqn:E; [|discriminate].
  intros [= <-]. cbn [type_name base_crate]. apply andb_true_iff in E as [_ E]. apply negb_true_iff in E.
  destruct r as [|x r]; [cbn [last] in E; now rewrite str_eqb_refl in E|].
  split; [apply str_eqb_refl|]. intros d H. apply andb_true_iff in H as [H _]. apply str_eqb_eq in H. now subst.
Qed.

(* ---------- use trees ---------- *)
Lemma use_introduces_inv d n t : use_introduces d n t = true -> exists sub, t = UPath d sub /\ name_leaf n sub = true.
Proof.
  destruct t as [id sub| | | |]; cbn [use_introduces]; try discriminate.
  intros H. apply andb_true_iff in H as [E H]. apply str_eqb_eq in E. subst id. now exists sub.
Qed.
Lemma use_tree_intro own d n t found :
  crate_ok d = true -> type_ok n = true -> use_introduces d n t = true -> parse_import uc own t = Ok found ->
  In {| base_crate := d; type_name := n |} found.
Proof.
  intros Hd Hn Hu Hp. destruct (use_introduces_inv d n t Hu) as (sub & -> & Hl). rewrite parse_import_path in Hp.
  destruct (crate_ok_accept d Hd) as (A1 & A2). destruct (type_ok_accept n Hn) as (A3 & _).
  pose proof (iter_complete uc own (S (use_tree_size sub)) d n) as K. rewrite (resolve_not_alias own d A2) in K.
  apply (K A1 A3 _ _ Hp sub); [now left|exact Hl].
Qed.
Lemma use_globs_inv d t : use_globs d t = true -> exists sub, t = UPath d sub /\ glob_leaf sub = true.
Proof.
  destruct t as [id sub| | | |]; cbn [use_globs]; try discriminate.
  intros H. apply andb_true_iff in H as [E H]. apply str_eqb_eq in E. subst id. now exists sub.
Qed.
(* `use d::*;`, `use d::m::*;`, `use d::{m::*, X};` yield the candidate (d, `*`) *)
Lemma use_tree_glob own d t found :
  crate_ok d = true -> use_globs d t = true -> parse_import uc own t = Ok found ->
  In {| base_crate := d; type_name := GLOB |} found.
Proof.
  intros Hd Hu Hp. destruct (use_globs_inv d t Hu) as (sub & -> & Hl). rewrite parse_import_path in Hp.
  destruct (crate_ok_accept d Hd) as (A1 & A2).
  pose proof (iter_glob_complete uc own (S (use_tree_size sub)) d) as K. rewrite (resolve_not_alias own d A2) in K.
  apply (K A1 _ _ Hp sub); [now left|exact Hl].
Qed.
Lemma use_tree_origin own d n t found imp :
  crate_ok d = true -> n <> GLOB -> parse_import uc own t = Ok found -> In imp found -> type_name imp = n ->
  (name_leaf n t = true -> use_introduces d n t = true) -> base_crate imp = d.
Proof.
  intros Hd Hg Hp Hin Hn Hu. unfold parse_import in Hp.
  destruct (iter_origin uc own _ _ _ _ Hp imp Hin) as [G|(t' & [<-|[]] & Hl)]; [congruence|].
  rewrite Hn in Hl. destruct (use_introduces_inv d n t (Hu Hl)) as (sub & -> & _).
  fold (parse_import uc own (UPath d sub)) in Hp. rewrite parse_import_path in Hp.
  rewrite (iter_base uc own _ d _ _ Hp imp Hin). apply resolve_not_alias. apply (crate_ok_accept d Hd).
Qed.
End UC.

(* ====================================================================================== *)
(* unpacking the specification                                                              *)
(* ====================================================================================== *)
Lemma referenced_crate_in ws s c n d : referenced_crate ws s c n = Some d -> In d (targets ws c n).
Proof.
  unfold referenced_crate. destruct (find _ (targets ws c n)) as [x|] eqn:F1.
  - intros [= <-]. now apply find_some in F1.
  - destruct (find (fun d => glob_introduces (si_file s) d) (targets ws c n)) as [x|] eqn:F2.
    + intros [= <-]. now apply find_some in F2.
    + destruct (targets ws c n); [discriminate|]. intros [= <-]. now left.
Qed.

(* the first type of crate d whose Rust name is n is generated under the name renamed_in gives *)
Lemma renamed_in_item ws d n : In n (tdefs_original ws d) ->
  exists it, In it (type_items ws d) /\ original (item_id it) = n /\ renamed (item_id it) = renamed_in ws d n.
Proof.
  unfold tdefs_original, renamed_in. intros H. apply in_map_iff in H as (it0 & E0 & H0).
  destruct (find (fun it => str_eqb (original (item_id it)) n) (type_items ws d)) as [it|] eqn:F.
  - apply find_some in F as [Hin E]. apply str_eqb_eq in E. now exists it.
  - exfalso. pose proof (find_none _ _ F it0 H0) as K. cbn in K. rewrite E0, str_eqb_refl in K. discriminate.
Qed.

(* ... and under one_generated_name so is every other one *)
Lemma one_generated_name_item ws d n it : one_generated_name ws d n = true -> In it (type_items ws d) ->
  original (item_id it) = n -> renamed (item_id it) = renamed_in ws d n.
Proof.
  unfold one_generated_name. rewrite forallb_forall. intros H Hit E. specialize (H it Hit). rewrite E, str_eqb_refl in H.
  cbn [negb orb] in H. now apply str_eqb_eq in H.
Qed.

(* the domain of the completeness theorem and the finding classes are disjoint *)
Lemma dom_excludes_known ws mapped s c d n : dom_C14 ws mapped s c d n = true -> known_C14 ws mapped s c d n = None.
Proof.
  unfold dom_C14, known_C14. destruct (dom_glob ws mapped s d); [reflexivity|]. rewrite orb_false_r. unfold dom_named. intros Hd.
  apply andb_true_iff in Hd as [Hd _]. apply andb_true_iff in Hd as [Hd _]. apply andb_true_iff in Hd as [Hd _].
  apply andb_true_iff in Hd as [Hd _]. apply andb_true_iff in Hd as [Hd D4]. rewrite D4. reflexivity.
Qed.

(* ====================================================================================== *)
(* (2) soundness and (3) completeness against the specification                            *)
(* ====================================================================================== *)
Section Imports.
Variable uc : unicode.
Hypothesis Huc : unicode_ok uc.
Variable T : list str.
Variable ign : list str.           (* ignored_reference_types of the language = the spec's `mapped` *)
Variable ho_file ho_crate : list imported -> list imported.
Variable hc : crate_types -> crate_types.
Variable ws : list ws_entry.
Variable arrivals : list (str * parsed).
Hypothesis HW : parse_workspace uc T ign ho_file ws = Ok arrivals.

Let infos := c14_infos uc T ws.
Let cs := multi_crates ho_crate arrivals.

Lemma all_types_nodup : NoDup (map fst (all_types cs)).
Proof. unfold all_types. rewrite map_map. cbn [fst]. apply multi_crates_nodup. Qed.

(* a name in the type table of crate k is the generated name of an annotated TYPE of a source file of crate k *)
Lemma all_types_defined k names n : In (k, names) (all_types cs) -> In n names -> defines infos k n = true.
Proof.
  intros Hk Hn. unfold all_types in Hk. apply in_map_iff in Hk as ([k' pdk] & E & Hin). cbn [fst snd] in E.
  injection E as -> <-.
  destruct (multi_crates_entry ho_crate arrivals _ _ Hin) as (pds & rn & <- & _ & ->).
  apply entry_type_names in Hn as (pdm & Hpdm & Hn). apply in_of_crate in Hpdm.
  destruct (arrival_entry uc T ign ho_file ws arrivals k pdm HW Hpdm) as (e & He & Fe & P).
  apply (parse_file_tn_ok _ _ _ _ _ P) in Hn as (it & Hit & Ty & <-).
  unfold defines, tdefs_renamed, type_items. apply mem_str_in. apply in_map_iff. exists it. split; [reflexivity|].
  apply filter_In. split; [|exact Ty]. apply crate_items_in. now exists e, (core pdm).
Qed.

(* every annotated type of a source file of crate d has its generated name in the type table of d *)
Lemma defined_all_types d it : In it (type_items infos d) ->
  exists names, In (d, names) (all_types cs) /\ In (renamed (item_id it)) names.
Proof.
  intros H. apply filter_In in H as [H Ty]. apply crate_items_in in H as (e & pd0 & He & Fe & P & Hit).
  destruct (entry_arrival uc T ign ho_file ws arrivals e d pd0 HW He Fe P) as (pdm & _ & Hin & -> & _).
  destruct (multi_crates_has ho_crate arrivals d pdm Hin) as (pdd & Hd).
  exists (p_type_names pdd). split; [unfold all_types; apply in_map_iff; now exists (d, pdd)|].
  destruct (multi_crates_entry ho_crate arrivals _ _ Hd) as (pds & rn & <- & _ & ->).
  apply entry_type_names. exists pdm. split; [now apply in_of_crate|].
  apply (parse_file_tn_ok _ _ _ _ _ P). exists it. split; [exact Hit|]. split; [exact Ty|reflexivity].
Qed.

(* an entry of the run's rename table = a serde-renamed annotated TYPE of a source file of that crate *)
Lemma multi_rn_items n d r :
  In (n, d, r) (multi_rn ho_crate arrivals) <-> exists it, In it (type_items infos d) /\ renames_item it n r.
Proof.
  unfold multi_rn. rewrite serde_renames_in. unfold type_items, infos. split.
  - intros (pd & it & Hc & Hit & R). unfold order_imports in Hc. apply in_map_iff in Hc as ([k p] & E & Hc). cbn [fst snd] in E.
    injection E as -> <-. rewrite items_of_with_imports in Hit.
    apply in_crates_get in Hc; [|apply collect_nodup]. rewrite collect_get in Hc.
    destruct (of_crate d arrivals) as [|q qs] eqn:F; [discriminate|]. injection Hc as <-.
    exists it. split; [|exact R]. apply filter_In. split; [|apply R].
    rewrite (crate_items_arrivals uc T ign ho_file d ws arrivals HW), F.
    eapply Permutation_in; [apply items_single_perm|exact Hit].
  - intros (it & Hit & R). apply filter_In in Hit as [Hit _].
    rewrite (crate_items_arrivals uc T ign ho_file d ws arrivals HW) in Hit.
    pose proof (collect_get arrivals d) as G. destruct (of_crate d arrivals) as [|q qs] eqn:F; [destruct Hit|].
    apply crates_get_in in G. eexists. exists it. split; [|split; [|exact R]].
    + unfold order_imports. apply in_map_iff. eexists (d, _). split; [reflexivity|exact G].
    + rewrite items_of_with_imports. eapply Permutation_in; [apply Permutation_sym, items_single_perm|exact Hit].
Qed.

(* an annotated item that is not serde-renamed is generated under its Rust name *)
Lemma crate_items_plain d it : In it (crate_items infos d) -> via_serde_rename (item_id it) = false ->
  renamed (item_id it) = original (item_id it).
Proof.
  intros H. apply crate_items_in in H as (e & pd0 & _ & _ & P & Hit). exact (parse_file_ids_ok _ _ _ _ _ P it Hit).
Qed.

Theorem imports_sound_spec c pd : (forall l x, In x (hc l) -> In x l) ->
  unsound_imports infos c (scoped_pairs (crate_imports hc cs c pd)) = [].
Proof.
  intros Hh. unfold unsound_imports. apply filter_nil. intros [k n] Hin. cbn [fst snd].
  destruct (imports_sound hc cs c pd k n Hh Hin) as (Hne & names & Hk & Hn).
  apply str_eqb_neq in Hne. rewrite Hne. cbn [orb]. now rewrite (all_types_defined k names n Hk Hn).
Qed.

Hypothesis Hof : oracle_ok ho_file.
Hypothesis Hoc : oracle_ok ho_crate.
Hypothesis Hhc : oracle_ok hc.

Theorem imports_complete c pd v :
  In (c, pd) cs -> In v (judge_crate infos ign c (scoped_pairs (crate_imports hc cs c pd))) ->
  rv_dom v = true -> rv_imported v = true.
Proof.
  intros Hc Hv Hd. unfold judge_crate in Hv.
  apply in_flat_map in Hv as (s & Hs & Hv). destruct (in_crate c s) eqn:IC; [|destruct Hv].
  apply in_flat_map in Hv as (n & Hn & Hv).
  destruct (mem_str n (tdefs_original infos c)) eqn:DO; [destruct Hv|].
  destruct (referenced_crate infos s c n) as [d|] eqn:RC; [|destruct Hv].
  destruct Hv as [<-|[]]. cbn [rv_dom rv_imported] in *.
  (* the source file *)
  unfold infos, c14_infos in Hs. apply in_map_iff in Hs as (e & <- & He).
  unfold in_crate in IC. cbn [si_path c14_info] in IC. rewrite <- find_crate_name_spec in IC.
  destruct (find_crate_name (we_path e)) as [c'|] eqn:Fe; [|discriminate]. apply str_eqb_eq in IC. subst c'.
  unfold file_uses in Hn. apply (proj1 (dedup14_in _ _)) in Hn. apply filter_In in Hn as [Hn _]. apply in_flat_map in Hn as (it & Hit & Hm).
  (* crate d, the generated name g of the target and the type table of d *)
  apply referenced_crate_in in RC. unfold targets in RC. apply filter_In in RC as [_ RC]. apply andb_true_iff in RC as [Hdc Hdo].
  apply negb_true_iff in Hdc. apply str_eqb_neq in Hdc. apply mem_str_in in Hdo.
  destruct (renamed_in_item infos d n Hdo) as (itd & Hitd & Eon & Ern).
  destruct (defined_all_types d itd Hitd) as (names & Hnames & Hnn). rewrite Ern in Hnn.
  pose proof (crate_types_get_oracle hc (all_types cs) d names Hhc all_types_nodup Hnames) as G.
  fold infos in Hd |- *. set (g := renamed_in infos d n) in *.
  (* the arrival of the file and the import set of crate c *)
  cbn [si_items si_file c14_info] in *.
  destruct (parse_file uc (we_tstr e) T (we_file e)) as [[pd0|]| |] eqn:P; try destruct Hit.
  destruct (entry_arrival uc T ign ho_file ws arrivals e c pd0 HW He Fe P) as (pdm & pd1 & Harr & -> & C1 & R1 & FC1 & FC2 & FC3).
  destruct (multi_crates_entry_rn ho_crate arrivals _ _ Hc) as (pds & Epds & _ & ->).
  set (rn := multi_rn ho_crate arrivals).
  (* an import of the file reaches used_imports under the name its crate generates the type under *)
  assert (Hthrough : forall target, In target (p_imports pdm) ->
            In (rename_import rn target)
               (p_imports (reconcile_crate rn c (with_imports (collect_single pds) (imports_iter ho_crate (collect_single pds)))))).
  { intros target Hm1. apply entry_imports; [exact Hoc|]. exists pdm, target. split; [rewrite <- Epds; now apply in_of_crate|]. split; [exact Hm1|reflexivity]. }
  apply existsb_exists. exists (d, g). split; [|cbn [fst snd]; now rewrite !str_eqb_refl].
  unfold dom_C14 in Hd. apply orb_true_iff in Hd as [Hd|Hd].
  - (* (a) a named reference *)
    unfold dom_named in Hd.
    apply andb_true_iff in Hd as [Hd D8]. apply andb_true_iff in Hd as [Hd D7]. apply andb_true_iff in Hd as [Hd D6].
    apply andb_true_iff in Hd as [Hd D5]. apply andb_true_iff in Hd as [Hd D4]. apply andb_true_iff in Hd as [Hd D3].
    apply andb_true_iff in Hd as [D1 D2]. apply negb_true_iff in D7, D8.
    cbn [si_items si_file c14_info] in D1, D2, D8. rewrite P in D8.
    destruct (crate_ok_accept uc Huc d D5) as (Ad & Aal). destruct (type_ok_accept uc Huc n D6) as (An & Ag).
    set (target := {| base_crate := d; type_name := n |}).
    (* the candidate is collected *)
    assert (Ht : In target (p_imports pd1)).
    { unfold introduces in D1. apply orb_true_iff in D1 as [D1|D1]; apply existsb_exists in D1 as (x & Hx & Hi).
      - destruct (FC1 x Hx) as (found & Hf & Hall). apply Hall.
        + exact (use_tree_intro uc Huc c d n x found D5 D6 Hi Hf).
        + unfold not_ignored. cbn [type_name target]. now rewrite D7.
      - apply (FC2 x target Hx). now apply path_candidate_intro. }
    (* and it is the only candidate for that name *)
    assert (Hu : forall imp, In imp (p_imports pd1) -> type_name imp = n -> imp = target).
    { intros imp Hi Hnm. assert (K : base_crate imp = d).
      { unfold unambiguous in D2. apply andb_true_iff in D2 as [U1 U2]. rewrite forallb_forall in U1, U2.
        destruct (FC3 imp Hi) as [(t & found & Ht' & Hf & Hin)|(p & Hp & Hcand)].
        - apply (use_tree_origin uc Huc c d n t found imp D5 Ag Hf Hin Hnm). intros Hl. specialize (U1 t Ht'). now rewrite Hl in U1.
        - destruct (path_candidate_inv uc c ign p imp Hcand) as (Pm & Pb). rewrite Hnm in Pm, Pb.
          specialize (U2 p Hp). rewrite Pm in U2. cbn [implb] in U2. rewrite (Pb d U2). now apply resolve_not_alias. }
      destruct imp as [b tn]. cbn [base_crate type_name] in *. subst. reflexivity. }
    (* it survives reconcile_referenced_types: n is referenced and is not the name of a type of the file *)
    assert (Hm1 : In target (p_imports pdm)).
    { rewrite R1. apply rrt_keeps with (n := n); auto.
      - rewrite (all_references_core uc pd1 (core pdm)) by (now rewrite C1). now apply (mentions_refs uc (core pdm) it n).
      - change (p_type_names pd1) with (p_type_names (core pd1)). rewrite C1. intros Hl.
        apply (tn_ok_type _ _ (parse_file_tn_ok _ _ _ _ _ P)) in Hl as (it' & Hit' & Er). apply mem_str_notin in D8. apply D8.
        apply in_map_iff. now exists it'. }
    (* reconcile_aliases puts it back as (d, g): the rename table holds for (n, d) the one name d generates n under,
       or nothing, and then g = n *)
    assert (Hg : rename_import rn target = {| base_crate := d; type_name := g |}).
    { unfold rename_import. cbn [type_name base_crate target]. destruct (lookup_rename rn n d) as [r|] eqn:L.
      - apply lookup_rename_in, multi_rn_items in L as (itr & Hitr & _ & Eo & Er & _).
        now rewrite <- Er, (one_generated_name_item infos d n itr D3 Hitr Eo).
      - assert (En : g = n); [|now rewrite En]. rewrite <- Ern, <- Eon. apply (crate_items_plain d itd).
        + now apply filter_In in Hitd as [Hitd _].
        + destruct (via_serde_rename (item_id itd)) eqn:V; [|reflexivity]. exfalso.
          apply (lookup_rename_none rn n d (renamed (item_id itd)) L). apply multi_rn_items. exists itd. split; [exact Hitd|].
          apply filter_In in Hitd as [_ Ty]. repeat split; assumption. }
    pose proof (Hthrough target Hm1) as Hin. rewrite Hg in Hin. unfold crate_imports.
    destruct (str_eqb g GLOB) eqn:EG.
    + (* a type generated under the name `*` (serde(rename = "*")): the import (d, `*`) brings in every name of d's table, `*` too *)
      apply str_eqb_eq in EG. rewrite EG in Hin. exact (used_imports_glob_complete _ c _ d g names Hin Hdc G Hnn).
    + apply str_eqb_neq in EG. exact (used_imports_complete _ c _ d g names Hin Hdc G Hnn EG).
  - (* (b) a reference covered by a glob import of crate d *)
    unfold dom_glob in Hd. apply andb_true_iff in Hd as [Hd G4]. apply andb_true_iff in Hd as [Hd G3]. apply andb_true_iff in Hd as [G1 G2].
    apply negb_true_iff in G3, G4.
    cbn [si_file c14_info] in G1.
    set (target := {| base_crate := d; type_name := GLOB |}).
    assert (Ht : In target (p_imports pd1)).
    { unfold glob_introduces in G1. apply existsb_exists in G1 as (x & Hx & Hi).
      destruct (FC1 x Hx) as (found & Hf & Hall). apply Hall.
      - exact (use_tree_glob uc Huc c d x found G2 Hi Hf).
      - unfold not_ignored. cbn [type_name target]. change GLOB with GLOB14. now rewrite G3. }
    assert (Hm1 : In target (p_imports pdm)) by (rewrite R1; now apply rrt_keeps_glob).
    (* `*` is the Rust name of no type of d: the glob is put back as it is *)
    assert (Hg : rename_import rn target = target).
    { unfold rename_import. cbn [type_name base_crate target]. destruct (lookup_rename rn GLOB d) as [r|] eqn:L; [|reflexivity]. exfalso.
      apply lookup_rename_in, multi_rn_items in L as (itr & Hitr & _ & Eo & _). apply mem_str_notin in G4. apply G4.
      unfold tdefs_original. apply in_map_iff. now exists itr. }
    pose proof (Hthrough target Hm1) as Hin. rewrite Hg in Hin. unfold crate_imports.
    exact (used_imports_glob_complete _ c _ d g names Hin Hdc G Hnn).
Qed.

(* the verdict of the specification on the import list of every generated file *)
Theorem imports_good c pd : In (c, pd) cs -> good_C14 infos ign c (scoped_pairs (crate_imports hc cs c pd)) = true.
Proof.
  intros Hc. unfold good_C14. rewrite imports_sound_spec by (intros l x; apply Hhc).
  apply forallb_forall. intros v Hv. destruct (rv_dom v) eqn:D; [|now rewrite orb_true_r].
  now rewrite (imports_complete c pd v Hc Hv D).
Qed.
End Imports.
