(* C06 in multi-file (folder output) mode: the per-crate data handed to the back ends, the import lists and the
   generated files do not depend on the order in which the per-file results reach the collector, nor - outside
   the decidable classes of Spec/C06MultiSpec.v - on the iteration order of any of the hash containers
   (per-crate import set: reconcile.rs:178; CrateTypes: language/mod.rs:441; per-file import set: visitors.rs:156). *)
From Coq Require Import List Bool Lia Permutation Sorted String.
From TS Require Import Model.Str Model.Outcome Model.Unicode Model.Types Model.Parse Model.Reconcile Model.Collect
                       Model.Lang.Common Model.MultiFile.
From TS Require Model.Writer.
From TS Require Import Spec.C06MultiSpec.
From TS Require Import Proofs.SortLemmas Proofs.C06 Proofs.C14 Proofs.C14Front Proofs.C14Main Proofs.C14Imports Proofs.C14Order.
Import ListNotations.

(* ====================================================================================== *)
(* small facts                                                                              *)
(* ====================================================================================== *)
Definition set_eq {A} (l1 l2 : list A) : Prop := forall x, In x l1 <-> In x l2.

Lemma set_eq_refl {A} (l : list A) : set_eq l l.
Proof. intros x. reflexivity. Qed.
Lemma set_eq_sym {A} (l1 l2 : list A) : set_eq l1 l2 -> set_eq l2 l1.
Proof. intros H x. symmetry. apply H. Qed.
Lemma set_eq_trans {A} (l1 l2 l3 : list A) : set_eq l1 l2 -> set_eq l2 l3 -> set_eq l1 l3.
Proof. intros H1 H2 x. rewrite (H1 x). apply H2. Qed.
Lemma perm_set_eq {A} (l1 l2 : list A) : Permutation l1 l2 -> set_eq l1 l2.
Proof. intros H x. split; apply Permutation_in; [exact H|now apply Permutation_sym]. Qed.
Lemma set_eq_flat_map {A B} (f : A -> list B) l1 l2 : set_eq l1 l2 -> set_eq (flat_map f l1) (flat_map f l2).
Proof. intros H y. rewrite !in_flat_map. split; intros (x & Hx & Hy); exists x; (split; [now apply H|exact Hy]). Qed.

Lemma bool_eq_iff (a b : bool) : (a = true <-> b = true) -> a = b.
Proof. destruct a, b; intros [H1 H2]; try reflexivity; [symmetry; now apply H1|now apply H2]. Qed.

Lemma mem_str_set_eq n l1 l2 : set_eq l1 l2 -> mem_str n l1 = mem_str n l2.
Proof. intros H. apply bool_eq_iff. rewrite !mem_str_in. apply H. Qed.

Lemma existsb_set_eq {A} (p : A -> bool) l1 l2 : set_eq l1 l2 -> existsb p l1 = existsb p l2.
Proof.
  intros H. apply bool_eq_iff. rewrite !existsb_exists. split; intros (x & Hx & Px); exists x; (split; [now apply H|exact Px]).
Qed.

Lemma find_none_all {A} (p : A -> bool) l : (forall x, In x l -> p x = false) -> find p l = None.
Proof.
  induction l as [|x l IH]; intros H; [reflexivity|]. cbn [find]. rewrite (H x (or_introl eq_refl)). apply IH. intros y Hy. apply H. now right.
Qed.

(* a search for "the" element satisfying p: the same answer on two lists with the same elements *)
Lemma find_unique_set {A} (p : A -> bool) l l' :
  set_eq l l' -> (forall x y, In x l -> In y l -> p x = true -> p y = true -> x = y) -> find p l = find p l'.
Proof.
  intros Hs Hu.
  destruct (find p l) as [x|] eqn:E; destruct (find p l') as [y|] eqn:E'.
  - apply find_some in E as [Hx Px]. apply find_some in E' as [Hy Py]. apply Hs in Hy. f_equal. now apply Hu.
  - apply find_some in E as [Hx Px]. apply Hs in Hx. rewrite (find_none _ _ E' _ Hx) in Px. discriminate.
  - apply find_some in E' as [Hy Py]. apply Hs in Hy. rewrite (find_none _ _ E _ Hy) in Py. discriminate.
  - reflexivity.
Qed.

(* the first element of a list all of whose elements are equal: the same on two lists with the same elements *)
Lemma head_set_eq {A} (l1 l2 : list A) : set_eq l1 l2 -> (forall x y, In x l1 -> In y l1 -> x = y) -> hd_error l1 = hd_error l2.
Proof.
  intros Hs Hu. destruct l1 as [|a r1], l2 as [|b r2]; cbn [hd_error]; [reflexivity| | |].
  - exfalso. apply (proj2 (Hs b)). now left.
  - exfalso. apply (proj1 (Hs a)). now left.
  - f_equal. apply Hu; [now left|]. apply Hs. now left.
Qed.

Lemma length_le1_eq {A} (l : list A) x y : (List.length l <= 1)%nat -> In x l -> In y l -> x = y.
Proof.
  destruct l as [|a [|b r]]; cbn [List.length]; intros HL Hx Hy; [destruct Hx| |lia].
  destruct Hx as [<-|[]], Hy as [<-|[]]. reflexivity.
Qed.

Lemma Forall2_keys {V} (R : V -> V -> Prop) (l1 : list (str * V)) : forall l2,
  map fst l1 = map fst l2 -> (forall k v1 v2, In (k, v1) l1 -> In (k, v2) l2 -> R v1 v2) ->
  Forall2 (fun x y => fst x = fst y /\ R (snd x) (snd y)) l1 l2.
Proof.
  induction l1 as [|[k1 v1] l1 IH]; intros [|[k2 v2] l2] HK HR; try discriminate; [constructor|].
  cbn [map fst] in HK. injection HK as <- HK. constructor.
  - split; [reflexivity|]. apply (HR k1); now left.
  - apply IH; [exact HK|]. intros k a b Ha Hb. apply (HR k); now right.
Qed.

(* ====================================================================================== *)
(* (1) the collector: two arrival orders give, crate by crate, the same items up to order     *)
(* ====================================================================================== *)
Definition pd_rel (a b : parsed) : Prop :=
  Permutation (p_structs a) (p_structs b) /\ Permutation (p_enums a) (p_enums b) /\
  Permutation (p_aliases a) (p_aliases b) /\ Permutation (p_consts a) (p_consts b) /\
  set_eq (p_type_names a) (p_type_names b) /\ set_eq (p_imports a) (p_imports b) /\
  Permutation (p_errors a) (p_errors b).
Definition cs_rel (cs1 cs2 : crates) : Prop :=
  Forall2 (fun x y => fst x = fst y /\ pd_rel (snd x) (snd y)) cs1 cs2.

Lemma fold_add_errors a acc : p_errors (fold_left pd_add a acc) = p_errors acc ++ flat_map p_errors a.
Proof. revert acc; induction a as [|x a IH]; intros acc; cbn [fold_left flat_map]; [now rewrite app_nil_r|].
  rewrite IH. cbn [pd_add p_errors]. now rewrite app_assoc. Qed.

Lemma collect_single_rel a1 a2 : Permutation a1 a2 -> pd_rel (collect_single a1) (collect_single a2).
Proof.
  intros HP. split; [now apply perm_structs|]. split; [now apply perm_enums|]. split; [now apply perm_aliases|].
  split; [now apply perm_consts|]. split; [|split].
  - intros n. rewrite !collect_single_tn. split; intros (pd & Hpd & Hn); exists pd; (split; [|exact Hn]).
    + eapply Permutation_in; eassumption.
    + eapply Permutation_in; [apply Permutation_sym|]; eassumption.
  - rewrite !collect_single_imports. apply perm_set_eq. now apply Permutation_flat_map'.
  - unfold collect_single. rewrite !fold_add_errors. cbn [p_errors empty_parsed app]. now apply Permutation_flat_map'.
Qed.

Lemma of_crate_perm k l1 l2 : Permutation l1 l2 -> Permutation (of_crate k l1) (of_crate k l2).
Proof.
  intros H. unfold of_crate. apply Permutation_map.
  induction H as [|x l l' _ IH|x y l|l l' l'' _ IH1 _ IH2]; cbn [filter].
  - constructor.
  - destruct (str_eqb (fst x) k); [now constructor|exact IH].
  - destruct (str_eqb (fst x) k), (str_eqb (fst y) k); try apply Permutation_refl. constructor.
  - now transitivity (filter (fun a => str_eqb (fst a) k) l').
Qed.

Lemma collect_keys l k : In k (map fst (collect l)) <-> In k (map fst l).
Proof.
  induction l as [|a l IH] using rev_ind; [reflexivity|].
  rewrite collect_snoc, upsert_keys, IH, map_app, in_app_iff. cbn [map In]. intuition congruence.
Qed.

Lemma collect_entry l k v : In (k, v) (collect l) -> of_crate k l <> [] /\ v = collect_single (of_crate k l).
Proof.
  intros H. apply in_crates_get in H; [|apply collect_nodup]. rewrite collect_get in H.
  destruct (of_crate k l) as [|p ps]; [discriminate|]. injection H as <-. split; [discriminate|reflexivity].
Qed.

Theorem collect_perm_rel l1 l2 : Permutation l1 l2 -> cs_rel (collect l1) (collect l2).
Proof.
  intros HP. apply Forall2_keys.
  - apply sorted_ext; [apply collect_sorted|apply collect_sorted|]. intros k. rewrite !collect_keys.
    apply perm_set_eq. now apply Permutation_map.
  - intros k v1 v2 H1 H2. apply collect_entry in H1 as [_ ->]. apply collect_entry in H2 as [_ ->].
    apply collect_single_rel. now apply of_crate_perm.
Qed.

(* ====================================================================================== *)
(* (2) the rename table, crate by crate                                                     *)
(* ====================================================================================== *)
Definition type_ids (pd : parsed) : list id :=
  map (fun s => sid s) (p_structs pd) ++ map (fun e => eid (enum_shared e)) (p_enums pd) ++ map (fun a => aid a) (p_aliases pd).
Definition rn_of_id (cn : str) (i : id) : renames := if via_serde_rename i then [(original i, cn, renamed i)] else [].
Definition def_of_id (i : id) : type_def := {| td_rust := original i; td_generated := renamed i; td_serde := via_serde_rename i |}.
(* what the specification is told about the crates: the annotated types of each, and the type table *)
Definition type_defs (pd : parsed) : list type_def := map def_of_id (type_ids pd).
Definition defs_of (cs : crates) : defs06 := map (fun c => (fst c, type_defs (snd c))) cs.
Definition imports_of (cs : crates) : list (str * list imported) := map (fun c => (fst c, p_imports (snd c))) cs.

Lemma crate_renames_ids cn pd : crate_renames cn pd = flat_map (rn_of_id cn) (type_ids pd).
Proof. unfold crate_renames, type_ids. rewrite !flat_map_app, !flat_map_map_in. reflexivity. Qed.

Lemma rev_flat_map_small {A B} (f : A -> list B) L : (forall x, rev (f x) = f x) -> rev (flat_map f L) = flat_map f (rev L).
Proof.
  intros H. induction L as [|x L IH]; [reflexivity|]. cbn [flat_map rev].
  rewrite rev_app_distr, IH, flat_map_app, H. cbn [flat_map]. now rewrite app_nil_r.
Qed.
Lemma rn_of_id_rev cn i : rev (rn_of_id cn i) = rn_of_id cn i.
Proof. unfold rn_of_id. now destruct (via_serde_rename i). Qed.

Definition qdef (n : str) (d : type_def) : bool := str_eqb (td_rust d) n && td_serde d.

Lemma find_ids cn n L :
  option_map snd (find (matches n cn) (flat_map (rn_of_id cn) L)) = option_map td_generated (find (qdef n) (map def_of_id L)).
Proof.
  induction L as [|i L IH]; [reflexivity|]. cbn [flat_map map find]. unfold rn_of_id at 1, qdef at 1. cbn [td_rust td_serde def_of_id].
  destruct (via_serde_rename i); cbn [app find].
  - unfold matches at 1. cbn [fst snd]. rewrite str_eqb_refl, andb_true_r. destruct (str_eqb (original i) n); [reflexivity|exact IH].
  - rewrite andb_false_r. exact IH.
Qed.

Lemma lookup_one_crate cn n pd :
  option_map snd (find (matches n cn) (rev (crate_renames cn pd))) = option_map td_generated (find (qdef n) (rev (type_defs pd))).
Proof.
  rewrite crate_renames_ids, rev_flat_map_small by apply rn_of_id_rev. unfold type_defs. rewrite <- map_rev. apply find_ids.
Qed.

Lemma serde_renames_crate cs r : In r (collect_serde_renames cs) -> In (snd (fst r)) (map fst cs).
Proof.
  unfold collect_serde_renames. intros H. apply in_flat_map in H as ([k pd] & Hc & H). cbn [fst snd] in H.
  rewrite crate_renames_ids in H. apply in_flat_map in H as (i & _ & H). unfold rn_of_id in H.
  destruct (via_serde_rename i); [|destruct H]. destruct H as [<-|[]]. cbn [fst snd]. apply in_map_iff. now exists (k, pd).
Qed.

Lemma lookup_rename_crates cs n c : NoDup (map fst cs) ->
  lookup_rename (collect_serde_renames cs) n c = rename_of (defs_of cs) c n.
Proof.
  unfold lookup_rename, rename_of.
  change (fun r : str * str * str => str_eqb (fst (fst r)) n && str_eqb (snd (fst r)) c) with (matches n c).
  change (fun d : type_def => str_eqb (td_rust d) n && td_serde d) with (qdef n).
  induction cs as [|[k pd] cs IH]; intros ND; [reflexivity|].
  cbn [map fst] in ND. inversion ND as [|? ? Hn ND']; subst.
  unfold collect_serde_renames. cbn [flat_map fst snd]. fold (collect_serde_renames cs).
  rewrite rev_app_distr, find_app. cbn [defs_of map get06 fst snd]. fold (defs_of cs).
  destruct (str_eqb k c) eqn:E.
  - apply str_eqb_eq in E. subst k. rewrite find_none_all; [apply lookup_one_crate|].
    intros r Hr. apply in_rev in Hr. unfold matches. destruct (str_eqb (snd (fst r)) c) eqn:E2; [|apply andb_false_r].
    apply str_eqb_eq in E2. subst c. exfalso. apply Hn. now apply serde_renames_crate.
  - rewrite <- (IH ND'). destruct (find (matches n c) (rev (collect_serde_renames cs))) as [v|]; [reflexivity|].
    rewrite find_none_all; [reflexivity|]. intros r Hr. apply in_rev in Hr. rewrite crate_renames_ids in Hr.
    apply in_flat_map in Hr as (i & _ & Hr). unfold rn_of_id in Hr. destruct (via_serde_rename i); [|destruct Hr].
    destruct Hr as [<-|[]]. unfold matches. cbn [fst snd]. rewrite E. apply andb_false_r.
Qed.

(* ---------- the same table for two related collections ---------- *)
Lemma find_part {X} (idof : X -> id) L1 L2 n : Permutation L1 L2 -> NoDup (map (fun x => original (idof x)) L1) ->
  find (qdef n) (rev (map def_of_id (map idof L1))) = find (qdef n) (rev (map def_of_id (map idof L2))).
Proof.
  intros HP ND. apply find_unique_perm.
  - rewrite <- !Permutation_rev. now apply Permutation_map, Permutation_map.
  - intros x y Hx Hy Qx Qy. apply in_rev in Hx, Hy. rewrite map_map in Hx, Hy.
    apply in_map_iff in Hx as (a & <- & Ha). apply in_map_iff in Hy as (b & <- & Hb).
    unfold qdef in Qx, Qy. cbn [td_rust def_of_id] in Qx, Qy.
    apply andb_true_iff in Qx as [Qx _]. apply andb_true_iff in Qy as [Qy _]. apply str_eqb_eq in Qx, Qy.
    assert (a = b) as ->; [|reflexivity].
    eapply (NoDup_map_inj (fun x => original (idof x))); eauto. congruence.
Qed.

Lemma find_defs_rel pd1 pd2 n : pd_rel pd1 pd2 -> names_distinct pd1 ->
  find (qdef n) (rev (type_defs pd1)) = find (qdef n) (rev (type_defs pd2)).
Proof.
  intros (Ps & Pe & Pa & _) (Ds & De & Da & _). unfold type_defs, type_ids.
  rewrite !map_app, !rev_app_distr, !find_app.
  rewrite (find_part (fun a => aid a) _ _ n Pa Da), (find_part (fun e => eid (enum_shared e)) _ _ n Pe De),
          (find_part (fun s => sid s) _ _ n Ps Ds). reflexivity.
Qed.

Definition all_distinct (cs : crates) : Prop := forall c pd, In (c, pd) cs -> names_distinct pd.

Lemma rename_of_rel cs1 cs2 c n : cs_rel cs1 cs2 -> all_distinct cs1 -> rename_of (defs_of cs1) c n = rename_of (defs_of cs2) c n.
Proof.
  unfold rename_of. change (fun d : type_def => str_eqb (td_rust d) n && td_serde d) with (qdef n).
  induction 1 as [|[k1 p1] [k2 p2] l1 l2 [HK HR] _ IH]; intros HD; [reflexivity|]. cbn [fst snd] in HK, HR. subst k2.
  cbn [defs_of map get06 fst snd]. fold (defs_of l1). fold (defs_of l2).
  destruct (str_eqb k1 c).
  - rewrite (find_defs_rel p1 p2 n HR); [reflexivity|]. apply (HD k1). now left.
  - apply IH. intros k pd H. apply (HD k). now right.
Qed.

Lemma cs_rel_keys cs1 cs2 : cs_rel cs1 cs2 -> map fst cs1 = map fst cs2.
Proof. induction 1 as [|x y l1 l2 [HK _] _ IH]; [reflexivity|]. cbn [map]. now rewrite HK, IH. Qed.

Lemma type_ids_perm pd1 pd2 : pd_rel pd1 pd2 -> Permutation (type_ids pd1) (type_ids pd2).
Proof. intros (Ps & Pe & Pa & _). unfold type_ids. repeat apply Permutation_app; now apply Permutation_map. Qed.

Lemma serde_renames_perm cs1 cs2 : cs_rel cs1 cs2 -> Permutation (collect_serde_renames cs1) (collect_serde_renames cs2).
Proof.
  unfold collect_serde_renames. induction 1 as [|[k1 p1] [k2 p2] l1 l2 [HK HR] _ IH]; [constructor|]. cbn [fst snd] in HK, HR. subst k2.
  cbn [flat_map fst snd]. apply Permutation_app; [|exact IH]. rewrite !crate_renames_ids. apply Permutation_flat_map'. now apply type_ids_perm.
Qed.

Section Table.
Variables cs1 cs2 : crates.
Hypothesis HR : cs_rel cs1 cs2.
Hypothesis HN : NoDup (map fst cs1).
Hypothesis HD : all_distinct cs1.
Let rn1 := collect_serde_renames cs1.
Let rn2 := collect_serde_renames cs2.

Lemma table_lookup n c : lookup_rename rn1 n c = lookup_rename rn2 n c.
Proof.
  unfold rn1, rn2. rewrite !lookup_rename_crates; [now apply rename_of_rel|rewrite <- (cs_rel_keys _ _ HR); exact HN|exact HN].
Qed.
Lemma table_has_original n : has_original rn1 n = has_original rn2 n.
Proof. unfold has_original. apply existsb_perm. now apply serde_renames_perm. Qed.
End Table.

(* ====================================================================================== *)
(* (3) reconcile_crate: equal answers of resolve_renamed give equal items                   *)
(* ====================================================================================== *)
Section Resolve.
Variables (cn : str) (rn1 rn2 : renames) (im1 im2 : list imported).
Hypothesis Hres : forall id, resolve_renamed cn rn1 im1 id = resolve_renamed cn rn2 im2 id.

Lemma check_type_eq t : check_type cn rn1 im1 t = check_type cn rn2 im2 t.
Proof.
  induction t as [id|id ps IH|t IH|t n IH|t IH|k v IHk IHv|t IH|p] using rtype_ind'; cbn [check_type].
  - now rewrite Hres.
  - rewrite Hres. f_equal. induction IH as [|x r Hx _ IHr]; cbn [map]; [reflexivity|]. now rewrite Hx, IHr.
  - now rewrite IH.
  - now rewrite IH.
  - now rewrite IH.
  - now rewrite IHk, IHv.
  - now rewrite IH.
  - reflexivity.
Qed.
Lemma check_field_eq f : check_field cn rn1 im1 f = check_field cn rn2 im2 f.
Proof. unfold check_field. now rewrite check_type_eq. Qed.
Lemma check_variant_eq v : check_variant cn rn1 im1 v = check_variant cn rn2 im2 v.
Proof. destruct v as [sh|t sh|fs sh]; cbn [check_variant]; [reflexivity|now rewrite check_type_eq|].
  f_equal. apply map_ext. apply check_field_eq. Qed.
Lemma check_eshared_eq sh : check_eshared cn rn1 im1 sh = check_eshared cn rn2 im2 sh.
Proof. unfold check_eshared. f_equal. apply map_ext. apply check_variant_eq. Qed.
Lemma check_const_eq c : check_const cn rn1 im1 c = check_const cn rn2 im2 c.
Proof. unfold check_const. now rewrite check_type_eq. Qed.
End Resolve.

(* what a back end is handed for one crate: the four item lists as lists; the type table and the import set as sets *)
Definition pd_same (a b : parsed) : Prop :=
  same_items a b /\ set_eq (p_type_names a) (p_type_names b) /\ set_eq (p_imports a) (p_imports b) /\
  Permutation (p_errors a) (p_errors b).
Definition cs_same (cs1 cs2 : crates) : Prop :=
  Forall2 (fun x y => fst x = fst y /\ pd_same (snd x) (snd y)) cs1 cs2.

Ltac sort_step HP :=
  match goal with
  | |- stable_sort ?k (map ?f1 ?l1) = stable_sort ?k (map ?f2 ?l2) =>
    transitivity (stable_sort k (map f1 l2));
    [apply stable_sort_unique; [apply Permutation_map; exact HP|rewrite map_map; cbn beta]|f_equal; apply map_ext; intros x]
  end.

(* the import set reconcile_aliases puts back (reconcile.rs:71): the same set for two tables that answer alike *)
Lemma rename_import_table rn1 rn2 i : (forall n c, lookup_rename rn1 n c = lookup_rename rn2 n c) -> rename_import rn1 i = rename_import rn2 i.
Proof. intros H. unfold rename_import. now rewrite H. Qed.
Lemma renamed_back_set_eq rn1 rn2 im1 im2 : (forall n c, lookup_rename rn1 n c = lookup_rename rn2 n c) -> set_eq im1 im2 ->
  set_eq (imp_extend [] (map (rename_import rn1) im1)) (imp_extend [] (map (rename_import rn2) im2)).
Proof.
  intros HL HS x. rewrite !imp_extend_in, !in_map_iff. cbn [In].
  split; (intros [[]|(i & <- & Hi)]; right; exists i; split; [|now apply HS]); [symmetry|]; now apply rename_import_table.
Qed.

Lemma reconcile_crate_same cn rn1 rn2 pd1 pd2 : pd_rel pd1 pd2 -> names_distinct pd1 ->
  (forall n c, lookup_rename rn1 n c = lookup_rename rn2 n c) ->
  (forall id, resolve_renamed cn rn1 (p_imports pd1) id = resolve_renamed cn rn2 (p_imports pd2) id) ->
  pd_same (reconcile_crate rn1 cn pd1) (reconcile_crate rn2 cn pd2).
Proof.
  intros (Ps & Pe & Pa & Pc & Ht & Hi & He) (Ds & De & Da & Dc) HL Hres.
  unfold pd_same, same_items, reconcile_crate. cbn [p_structs p_enums p_aliases p_consts p_type_names p_imports p_errors].
  split; [|split; [exact Ht|split; [now apply renamed_back_set_eq|exact He]]]. repeat split.
  - sort_step Ps; [exact Ds|]. f_equal. apply map_ext. now apply check_field_eq.
  - sort_step Pe.
    + erewrite map_ext; [exact De|]. intros e. destruct e; reflexivity.
    + destruct x; now rewrite (check_eshared_eq _ _ _ _ _ Hres).
  - sort_step Pa; [exact Da|]. now rewrite (check_type_eq _ _ _ _ _ Hres).
  - sort_step Pc; [exact Dc|]. now apply check_const_eq.
Qed.

Lemma reconcile_map_same rn1 rn2 l1 l2 : cs_rel l1 l2 -> all_distinct l1 ->
  (forall n c, lookup_rename rn1 n c = lookup_rename rn2 n c) ->
  (forall c pd1 pd2, In (c, pd1) l1 -> In (c, pd2) l2 -> pd_rel pd1 pd2 ->
     forall id, resolve_renamed c rn1 (p_imports pd1) id = resolve_renamed c rn2 (p_imports pd2) id) ->
  cs_same (map (fun c => (fst c, reconcile_crate rn1 (fst c) (snd c))) l1)
          (map (fun c => (fst c, reconcile_crate rn2 (fst c) (snd c))) l2).
Proof.
  induction 1 as [|[k1 p1] [k2 p2] l1 l2 [HK HR] _ IH]; intros HD HL Hres; [constructor|]. cbn [fst snd] in HK, HR. subst k2.
  cbn [map fst snd]. constructor.
  - cbn [fst snd]. split; [reflexivity|]. apply reconcile_crate_same; [exact HR|apply (HD k1); now left|exact HL|].
    apply Hres; [now left|now left|exact HR].
  - apply IH; [intros k pd H; apply (HD k); now right|exact HL|]. intros c a b Ha Hb. apply Hres; now right.
Qed.

(* ---------- resolve_renamed on two iteration orders of one import set ---------- *)
Definition cands (rn : renames) (im : list imported) (id : str) : list str :=
  flat_map (fun i => if str_eqb (type_name i) id then
                       match lookup_rename rn id (base_crate i) with Some r => [r] | None => [] end
                     else []) im.
Lemma resolve_renamed_cands cn rn im id :
  resolve_renamed cn rn im id =
  if negb (has_original rn id) then None
  else match hd_error (cands rn im id) with Some r => Some r | None => lookup_rename rn id cn end.
Proof. unfold resolve_renamed. fold (cands rn im id). now destruct (cands rn im id). Qed.

Lemma cands_table rn1 rn2 im id : (forall n c, lookup_rename rn1 n c = lookup_rename rn2 n c) -> cands rn1 im id = cands rn2 im id.
Proof. intros H. unfold cands. apply flat_map_ext. intros i. now rewrite H. Qed.

Lemma resolve_set cn rn1 rn2 im1 im2 id :
  (forall n c, lookup_rename rn1 n c = lookup_rename rn2 n c) -> (forall n, has_original rn1 n = has_original rn2 n) ->
  set_eq im1 im2 ->
  (forall x y, In x (cands rn1 im1 id) -> In y (cands rn1 im1 id) -> x = y) ->
  resolve_renamed cn rn1 im1 id = resolve_renamed cn rn2 im2 id.
Proof.
  intros HL HO HS HU. rewrite !resolve_renamed_cands, HO, HL, <- (cands_table rn1 rn2 im2 id HL).
  rewrite (head_set_eq (cands rn1 im1 id) (cands rn1 im2 id)); [reflexivity| |exact HU].
  unfold cands. now apply set_eq_flat_map.
Qed.

(* ---------- the iteration order of the per-crate import set ---------- *)
Lemma order_imports_rel ho1 ho2 cs1 cs2 : cs_rel cs1 cs2 ->
  (forall pd1 pd2, set_eq (p_imports pd1) (p_imports pd2) -> set_eq (imports_iter ho1 pd1) (imports_iter ho2 pd2)) ->
  cs_rel (order_imports ho1 cs1) (order_imports ho2 cs2).
Proof.
  intros HR HI. unfold order_imports. induction HR as [|[k1 p1] [k2 p2] l1 l2 [HK HP] _ IH]; [constructor|].
  cbn [map fst snd] in *. constructor; [|exact IH]. cbn [fst snd]. split; [exact HK|].
  destruct HP as (Ps & Pe & Pa & Pc & Ht & Hi & He). unfold pd_rel. cbn [with_imports p_structs p_enums p_aliases p_consts p_type_names p_imports p_errors].
  repeat (split; [assumption|]). split; [now apply HI|exact He].
Qed.

Lemma imports_iter_oracles ho1 ho2 pd1 pd2 : oracle_ok ho1 -> oracle_ok ho2 ->
  set_eq (p_imports pd1) (p_imports pd2) -> set_eq (imports_iter ho1 pd1) (imports_iter ho2 pd2).
Proof.
  intros H1 H2 HS x. unfold imports_iter. rewrite (H1 _ x), (H2 _ x), !imp_extend_in. cbn [In]. now rewrite (HS x).
Qed.

Lemma order_imports_keys ho cs : map fst (order_imports ho cs) = map fst cs.
Proof. unfold order_imports. rewrite map_map. reflexivity. Qed.
Lemma order_imports_distinct ho cs : all_distinct cs -> all_distinct (order_imports ho cs).
Proof.
  intros H c pd Hin. unfold order_imports in Hin. apply in_map_iff in Hin as ([k p] & E & Hin). cbn [fst snd] in E. injection E as <- <-.
  exact (H k p Hin).
Qed.

(* ====================================================================================== *)
(* (4) collector + order_imports + reconcile_aliases                                        *)
(* ====================================================================================== *)
Lemma cs_rel_lookup cs1 cs2 c p1 p2 : cs_rel cs1 cs2 -> NoDup (map fst cs1) -> In (c, p1) cs1 -> In (c, p2) cs2 -> pd_rel p1 p2.
Proof.
  induction 1 as [|[k1 a] [k2 b] l1 l2 [HK HR] HF IH]; intros ND H1 H2; [destruct H1|]. cbn [fst snd] in HK, HR. subst k2.
  cbn [map fst] in ND. inversion ND as [|? ? Hn ND']; subst.
  destruct H1 as [[= -> ->]|H1], H2 as [[= <-]|H2].
  - exact HR.
  - exfalso. apply Hn. rewrite (cs_rel_keys _ _ HF). apply in_map_iff. now exists (c, p2).
  - subst. exfalso. apply Hn. apply in_map_iff. now exists (k1, p1).
  - now apply IH.
Qed.

Lemma resolve_same_imports cn rn1 rn2 im id :
  (forall n c, lookup_rename rn1 n c = lookup_rename rn2 n c) -> (forall n, has_original rn1 n = has_original rn2 n) ->
  resolve_renamed cn rn1 im id = resolve_renamed cn rn2 im id.
Proof. intros HL HO. now rewrite !resolve_renamed_cands, HO, HL, (cands_table rn1 rn2 im id HL). Qed.

Lemma order_imports_entry ho cs c pd : In (c, pd) (order_imports ho cs) ->
  exists p, In (c, p) cs /\ pd = with_imports p (imports_iter ho p).
Proof.
  unfold order_imports. intros H. apply in_map_iff in H as ([k p] & E & H). cbn [fst snd] in E. injection E as <- <-. now exists p.
Qed.

Lemma defs_of_order ho cs : defs_of (order_imports ho cs) = defs_of cs.
Proof. unfold defs_of, order_imports. rewrite map_map. reflexivity. Qed.

(* an iteration order that is a function of the SET iterated over (one hash seed, no dependence on the insertion history) *)
Definition oracle_set_determined {A} (h : list A -> list A) : Prop := forall l l', set_eq l l' -> h l = h l'.

Lemma imp_extend_set_eq im1 im2 : set_eq im1 im2 -> set_eq (imp_extend [] im1) (imp_extend [] im2).
Proof. intros H x. rewrite !imp_extend_in. cbn [In]. now rewrite (H x). Qed.

(* ---------- spec classes as facts ---------- *)
Lemma all_same_in l x y : all_same l = true -> In x l -> In y l -> x = y.
Proof.
  destruct l as [|a r]; [intros _ []|]. cbn [all_same]. rewrite forallb_forall. intros H Hx Hy.
  assert (K : forall z, In z (a :: r) -> z = a).
  { intros z [<-|Hz]; [reflexivity|]. symmetry. apply str_eqb_eq. now apply H. }
  now rewrite (K x Hx), (K y Hy).
Qed.

Lemma existsb_false {A} (p : A -> bool) l x : existsb p l = false -> In x l -> p x = false.
Proof.
  intros H Hx. destruct (p x) eqn:E; [|reflexivity]. assert (K : existsb p l = true) by (apply existsb_exists; now exists x). congruence.
Qed.

Lemma cands_unique defs rn im im' :
  rename_ambiguous defs im = false -> set_eq im im' -> (forall n c, lookup_rename rn n c = rename_of defs c n) ->
  forall id x y, In x (cands rn im' id) -> In y (cands rn im' id) -> x = y.
Proof.
  intros HA HS HL id x y Hx Hy.
  assert (K : forall z, In z (cands rn im' id) -> exists i, In i im /\ type_name i = id /\ In z (rename_candidates defs im id)).
  { intros z Hz. unfold cands in Hz. apply in_flat_map in Hz as (i & Hi & Hz). apply HS in Hi.
    destruct (str_eqb (type_name i) id) eqn:E; [|destruct Hz]. exists i. split; [exact Hi|]. split; [now apply str_eqb_eq|].
    unfold rename_candidates. apply in_flat_map. exists i. split; [exact Hi|]. rewrite E, <- HL. exact Hz. }
  destruct (K x Hx) as (i & Hi & Ei & Kx). destruct (K y Hy) as (_ & _ & _ & Ky).
  pose proof (existsb_false _ _ i HA Hi) as F. cbn beta in F. apply negb_false_iff in F. rewrite Ei in F.
  exact (all_same_in _ x y F Kx Ky).
Qed.

Lemma ws_ambiguity_none tt defs per c im :
  ws_imports_ambiguity tt defs per = None -> In (c, im) per ->
  rename_ambiguous defs im = false /\ fallback_ambiguous tt c (renamed_imports defs im) = false.
Proof.
  induction per as [|[k i] per IH]; intros H Hin; [destruct Hin|]. cbn [ws_imports_ambiguity] in H.
  destruct (imports_ambiguity tt defs k i) eqn:E; [discriminate|].
  destruct Hin as [[= -> ->]|Hin]; [|now apply IH].
  unfold imports_ambiguity in E. destruct (rename_ambiguous defs im); [discriminate|]. destruct (fallback_ambiguous tt c (renamed_imports defs im)); [discriminate|]. auto.
Qed.

(* the workspace classes, evaluated on what the collector holds *)
Definition ws_ambiguity (cs : crates) : option string := ws_imports_ambiguity (all_types cs) (defs_of cs) (imports_of cs).
Definition ws_rename_ambiguous (cs : crates) : bool := existsb (fun c => rename_ambiguous (defs_of cs) (p_imports (snd c))) cs.

Lemma ws_ambiguity_entry cs c pd : ws_ambiguity cs = None -> In (c, pd) cs ->
  rename_ambiguous (defs_of cs) (p_imports pd) = false /\ fallback_ambiguous (all_types cs) c (renamed_imports (defs_of cs) (p_imports pd)) = false.
Proof.
  intros H Hin. apply (ws_ambiguity_none _ _ _ c (p_imports pd) H). unfold imports_of. apply in_map_iff. now exists (c, pd).
Qed.
Lemma ws_ambiguity_rename cs : ws_ambiguity cs = None -> ws_rename_ambiguous cs = false.
Proof.
  intros H. unfold ws_rename_ambiguous. destruct (existsb _ cs) eqn:E; [|reflexivity].
  apply existsb_exists in E as ([c pd] & Hin & E). cbn [snd] in E. destruct (ws_ambiguity_entry cs c pd H Hin) as [K _]. congruence.
Qed.

Section Arrival.
Variables l1 l2 : list (str * parsed).
Hypothesis HP : Permutation l1 l2.
Hypothesis HD : all_distinct (collect l1).

Section Core.
Variables ho1 ho2 : list imported -> list imported.
Hypothesis Himp : forall pd1 pd2, set_eq (p_imports pd1) (p_imports pd2) -> set_eq (imports_iter ho1 pd1) (imports_iter ho2 pd2).
Let cs1 := order_imports ho1 (collect l1).
Let cs2 := order_imports ho2 (collect l2).

Lemma ordered_rel : cs_rel cs1 cs2.
Proof. apply order_imports_rel; [now apply collect_perm_rel|exact Himp]. Qed.
Lemma ordered_nodup : NoDup (map fst cs1).
Proof. unfold cs1. rewrite order_imports_keys. apply collect_nodup. Qed.
Lemma ordered_distinct : all_distinct cs1.
Proof. now apply order_imports_distinct. Qed.

Lemma ordered_lookup n c : lookup_rename (collect_serde_renames cs1) n c = lookup_rename (collect_serde_renames cs2) n c.
Proof. apply table_lookup; [apply ordered_rel|apply ordered_nodup|apply ordered_distinct]. Qed.
Lemma ordered_has_original n : has_original (collect_serde_renames cs1) n = has_original (collect_serde_renames cs2) n.
Proof. apply table_has_original. apply ordered_rel. Qed.

Lemma multi_core :
  (forall c pd1 pd2, In (c, pd1) cs1 -> In (c, pd2) cs2 -> pd_rel pd1 pd2 -> forall id,
     resolve_renamed c (collect_serde_renames cs1) (p_imports pd1) id = resolve_renamed c (collect_serde_renames cs2) (p_imports pd2) id) ->
  cs_same (multi_crates ho1 l1) (multi_crates ho2 l2).
Proof.
  intros Hres. unfold multi_crates, reconcile_aliases. fold cs1 cs2.
  apply reconcile_map_same; [apply ordered_rel|apply ordered_distinct|apply ordered_lookup|exact Hres].
Qed.
End Core.

(* arrival order alone: with the iteration order of the import set a function of the set, nothing else is needed *)
Theorem multi_arrival_order_irrelevant ho : oracle_set_determined ho -> cs_same (multi_crates ho l1) (multi_crates ho l2).
Proof.
  intros Hd.
  assert (Himp : forall pd1 pd2, set_eq (p_imports pd1) (p_imports pd2) -> imports_iter ho pd1 = imports_iter ho pd2).
  { intros pd1 pd2 H. unfold imports_iter. apply Hd. now apply imp_extend_set_eq. }
  assert (Himp' : forall pd1 pd2, set_eq (p_imports pd1) (p_imports pd2) -> set_eq (imports_iter ho pd1) (imports_iter ho pd2)).
  { intros pd1 pd2 H. rewrite (Himp pd1 pd2 H). apply set_eq_refl. }
  apply (multi_core ho ho Himp'). intros c pd1 pd2 H1 H2 _ id.
  apply order_imports_entry in H1 as (p1 & H1 & ->). apply order_imports_entry in H2 as (p2 & H2 & ->).
  cbn [p_imports with_imports].
  assert (R : pd_rel p1 p2) by (eapply cs_rel_lookup; [apply (collect_perm_rel _ _ HP)|apply collect_nodup|eassumption|eassumption]).
  destruct R as (_ & _ & _ & _ & _ & Ri & _). rewrite (Himp p1 p2 Ri).
  apply resolve_same_imports; [apply (ordered_lookup ho ho Himp')|apply (ordered_has_original ho ho Himp')].
Qed.

(* arrival order and iteration order of the per-crate import set together, outside class 1 *)
Theorem multi_crates_same ho1 ho2 : ws_rename_ambiguous (collect l1) = false -> oracle_ok ho1 -> oracle_ok ho2 ->
  cs_same (multi_crates ho1 l1) (multi_crates ho2 l2).
Proof.
  intros HA H1 H2.
  assert (Himp : forall pd1 pd2, set_eq (p_imports pd1) (p_imports pd2) -> set_eq (imports_iter ho1 pd1) (imports_iter ho2 pd2)).
  { intros pd1 pd2. now apply imports_iter_oracles. }
  apply (multi_core ho1 ho2 Himp). intros c pd1 pd2 Hin1 Hin2 (_ & _ & _ & _ & _ & Ri & _) id.
  apply resolve_set; [apply (ordered_lookup ho1 ho2 Himp)|apply (ordered_has_original ho1 ho2 Himp)|exact Ri|].
  apply order_imports_entry in Hin1 as (p1 & Hp1 & ->). cbn [p_imports with_imports].
  apply (cands_unique (defs_of (collect l1)) _ (p_imports p1)).
  - apply (existsb_false _ _ (c, p1) HA Hp1).
  - intros x. unfold imports_iter. rewrite (H1 _ x), imp_extend_in. cbn [In]. tauto.
  - intros n k. rewrite lookup_rename_crates by apply (ordered_nodup ho1). now rewrite defs_of_order.
Qed.
End Arrival.

(* ====================================================================================== *)
(* (5) the import lists: two iteration orders of CrateTypes, two type tables equal as sets   *)
(* ====================================================================================== *)
Definition tt_rel (t1 t2 : crate_types) : Prop := Forall2 (fun x y => fst x = fst y /\ set_eq (snd x) (snd y)) t1 t2.

Lemma all_types_rel cs1 cs2 : cs_same cs1 cs2 -> tt_rel (all_types cs1) (all_types cs2).
Proof.
  unfold all_types. induction 1 as [|x y l1 l2 [HK (_ & HT & _)] _ IH]; [constructor|]. cbn [map]. constructor; [|exact IH]. cbn [fst snd]. auto.
Qed.
Lemma tt_rel_keys t1 t2 : tt_rel t1 t2 -> map fst t1 = map fst t2.
Proof. induction 1 as [|x y l1 l2 [HK _] _ IH]; [reflexivity|]. cbn [map]. now rewrite HK, IH. Qed.
Lemma tt_rel_get t1 t2 d : tt_rel t1 t2 ->
  match crate_types_get t1 d, crate_types_get t2 d with
  | Some a, Some b => set_eq a b | None, None => True | _, _ => False
  end.
Proof.
  induction 1 as [|[k1 a] [k2 b] l1 l2 [HK HS] _ IH]; [exact I|]. cbn [fst snd] in HK, HS. subst k2.
  cbn [crate_types_get]. destruct (str_eqb k1 d); [exact HS|exact IH].
Qed.
Lemma get06_ctg (t : crate_types) d : get06 t d = crate_types_get t d.
Proof. induction t as [|[k a] t IH]; [reflexivity|]. cbn [get06 crate_types_get]. now rewrite IH. Qed.

Lemma get_oracle_eq (hc : crate_types -> crate_types) ct d : oracle_ok hc -> NoDup (map fst ct) ->
  crate_types_get (hc ct) d = crate_types_get ct d.
Proof.
  intros Ho ND. destruct (crate_types_get ct d) as [names|] eqn:G.
  - apply crate_types_get_in in G. now apply crate_types_get_oracle.
  - destruct (crate_types_get (hc ct) d) as [names'|] eqn:G'; [|reflexivity].
    apply crate_types_get_in in G'. apply (proj1 (Ho _ _)) in G'.
    destruct (crate_types_get_some _ _ _ G') as (n'' & K & _). congruence.
Qed.

Definition fb_pred (own n : str) (kv : str * list str) : bool := negb (str_eqb (fst kv) own) && mem_str n (snd kv).

Lemma tt_rel_sat t1 t2 own n k : tt_rel t1 t2 ->
  ((exists kv, In kv t1 /\ fst kv = k /\ fb_pred own n kv = true) <-> (exists kv, In kv t2 /\ fst kv = k /\ fb_pred own n kv = true)).
Proof.
  induction 1 as [|[k1 a] [k2 b] l1 l2 [HK HS] _ IH]; [split; intros (kv & [] & _)|]. cbn [fst snd] in HK, HS. subst k2.
  assert (E : fb_pred own n (k1, a) = fb_pred own n (k1, b)) by (unfold fb_pred; cbn [fst snd]; now rewrite (mem_str_set_eq n a b HS)).
  split; intros (kv & [<-|Hin] & Hk & Hp).
  - exists (k1, b). split; [now left|]. split; [exact Hk|now rewrite <- E].
  - destruct (proj1 IH (ex_intro _ kv (conj Hin (conj Hk Hp)))) as (kv' & H1 & H2 & H3). exists kv'. split; [now right|auto].
  - exists (k1, a). split; [now left|]. split; [exact Hk|now rewrite E].
  - destruct (proj2 IH (ex_intro _ kv (conj Hin (conj Hk Hp)))) as (kv' & H1 & H2 & H3). exists kv'. split; [now right|auto].
Qed.

Lemma fallback_eq (hc1 hc2 : crate_types -> crate_types) t1 t2 own n : oracle_ok hc1 -> oracle_ok hc2 -> tt_rel t1 t2 ->
  (forall kv kv', In kv t1 -> In kv' t1 -> fb_pred own n kv = true -> fb_pred own n kv' = true -> fst kv = fst kv') ->
  import_fallback (hc1 t1) own n [] = import_fallback (hc2 t2) own n [].
Proof.
  intros H1 H2 HR HU. unfold import_fallback. fold (fb_pred own n).
  destruct (find (fb_pred own n) (hc1 t1)) as [kv1|] eqn:F1; destruct (find (fb_pred own n) (hc2 t2)) as [kv2|] eqn:F2.
  - apply find_some in F1 as [I1 P1]. apply find_some in F2 as [I2 P2]. apply (proj1 (H1 _ _)) in I1. apply (proj1 (H2 _ _)) in I2.
    destruct (proj2 (tt_rel_sat t1 t2 own n (fst kv2) HR) (ex_intro _ kv2 (conj I2 (conj eq_refl P2)))) as (kv & Ik & Ek & Pk).
    now rewrite (HU kv1 kv I1 Ik P1 Pk), Ek.
  - exfalso. apply find_some in F1 as [I1 P1]. apply (proj1 (H1 _ _)) in I1.
    destruct (proj1 (tt_rel_sat t1 t2 own n (fst kv1) HR) (ex_intro _ kv1 (conj I1 (conj eq_refl P1)))) as (kv & Ik & _ & Pk).
    apply (proj2 (H2 _ _)) in Ik. rewrite (find_none _ _ F2 _ Ik) in Pk. discriminate.
  - exfalso. apply find_some in F2 as [I2 P2]. apply (proj1 (H2 _ _)) in I2.
    destruct (proj2 (tt_rel_sat t1 t2 own n (fst kv2) HR) (ex_intro _ kv2 (conj I2 (conj eq_refl P2)))) as (kv & Ik & _ & Pk).
    apply (proj2 (H1 _ _)) in Ik. rewrite (find_none _ _ F1 _ Ik) in Pk. discriminate.
  - reflexivity.
Qed.

Lemma sset_extend_set_eq a b : set_eq a b -> sset_extend [] a = sset_extend [] b.
Proof.
  intros H. apply sorted_ext; [apply sset_extend_sorted; constructor|apply sset_extend_sorted; constructor|].
  intros x. rewrite !sset_extend_in. cbn [In]. now rewrite (H x).
Qed.

Definition fb_unique (t : crate_types) (own n : str) : Prop :=
  forall kv kv', In kv t -> In kv' t -> fb_pred own n kv = true -> fb_pred own n kv' = true -> fst kv = fst kv'.

Lemma step_eq (hc1 hc2 : crate_types -> crate_types) t1 t2 own imp : oracle_ok hc1 -> oracle_ok hc2 -> NoDup (map fst t1) -> tt_rel t1 t2 ->
  (str_eqb (base_crate imp) own = false -> import_resolves t1 imp = false -> fb_unique t1 own (type_name imp)) ->
  used_imports_step (hc1 t1) own [] imp = used_imports_step (hc2 t2) own [] imp.
Proof.
  intros H1 H2 ND HR HU. unfold used_imports_step. destruct (str_eqb (base_crate imp) own) eqn:EO; [reflexivity|].
  specialize (HU eq_refl). unfold import_resolves in HU. rewrite get06_ctg in HU.
  rewrite (get_oracle_eq hc1 t1 _ H1 ND), (get_oracle_eq hc2 t2 _ H2) by (rewrite <- (tt_rel_keys _ _ HR); exact ND).
  pose proof (tt_rel_get t1 t2 (base_crate imp) HR) as G.
  destruct (crate_types_get t1 (base_crate imp)) as [a|], (crate_types_get t2 (base_crate imp)) as [b|]; try destruct G.
  - change GLOB06 with GLOB in HU. destruct (str_eqb (type_name imp) GLOB).
    + cbn [scoped_extend]. now rewrite (sset_extend_set_eq a b G).
    + rewrite <- (mem_str_set_eq (type_name imp) a b G). destruct (mem_str (type_name imp) a); [reflexivity|].
      apply fallback_eq; [exact H1|exact H2|exact HR|apply HU; reflexivity].
  - apply fallback_eq; [exact H1|exact H2|exact HR|apply HU; reflexivity].
Qed.

Lemma used_imports_eq ct1 ct2 own im1 im2 : set_eq im1 im2 ->
  (forall imp, In imp im1 -> used_imports_step ct1 own [] imp = used_imports_step ct2 own [] imp) ->
  used_imports ct1 own im1 = used_imports ct2 own im2.
Proof.
  intros HS HE. apply scoped_ext; [apply used_imports_wf|apply used_imports_wf| |].
  - intros k. rewrite !used_imports_keys. split; intros (x & Hx & K).
    + exists x. split; [now apply HS|now rewrite <- HE].
    + apply HS in Hx. exists x. split; [exact Hx|now rewrite HE].
  - intros k n. rewrite !used_imports_pairs. split; intros (x & Hx & K).
    + exists x. split; [now apply HS|now rewrite <- HE].
    + apply HS in Hx. exists x. split; [exact Hx|now rewrite HE].
Qed.

(* ---------- the plan ---------- *)
Definition plan_same (p q : out_plan) : Prop :=
  op_file p = op_file q /\ op_crate p = op_crate q /\ op_imports p = op_imports q /\ same_items (op_data p) (op_data q).

Definition mk_plan (l : lang) (ct : crate_types) (c : str * parsed) : out_plan :=
  {| op_file := output_file_name l (fst c); op_crate := fst c; op_imports := used_imports ct (fst c) (p_imports (snd c)); op_data := snd c |}.
Lemma multi_plan_mk l hc cs : multi_plan l hc cs = map (mk_plan l (hc (all_types cs))) cs.
Proof. reflexivity. Qed.

Lemma plan_map_same l ct1 ct2 l1 l2 : cs_same l1 l2 ->
  (forall c pd, In (c, pd) l1 -> forall imp, In imp (p_imports pd) -> used_imports_step ct1 c [] imp = used_imports_step ct2 c [] imp) ->
  Forall2 plan_same (map (mk_plan l ct1) l1) (map (mk_plan l ct2) l2).
Proof.
  induction 1 as [|[k1 a] [k2 b] l1 l2 [HK (HI & _ & HM & _)] _ IH]; intros HE; [constructor|]. cbn [fst snd] in *. subst k2.
  cbn [map]. constructor.
  - unfold plan_same, mk_plan. cbn [op_file op_crate op_imports op_data fst snd]. repeat split; try apply HI.
    apply used_imports_eq; [exact HM|]. apply (HE k1 a). now left.
  - apply IH. intros c pd H. apply (HE c pd). now right.
Qed.

Lemma all_types_multi ho l : all_types (multi_crates ho l) = all_types (collect l).
Proof. unfold multi_crates, reconcile_aliases, order_imports, all_types. rewrite !map_map. reflexivity. Qed.

(* an import used_imports sees: an import of the collector's entry, put back by reconcile_aliases under the name
   its crate generates the type under - the specification's renamed_import *)
Lemma multi_crates_entry' ho l c pd : oracle_ok ho -> In (c, pd) (multi_crates ho l) ->
  exists p, In (c, p) (collect l) /\
    forall imp, In imp (p_imports pd) -> exists i, In i (p_imports p) /\ imp = renamed_import (defs_of (collect l)) i.
Proof.
  intros Ho. unfold multi_crates, reconcile_aliases. intros H. apply in_map_iff in H as ([k q] & E & H). cbn [fst snd] in E. injection E as <- <-.
  apply order_imports_entry in H as (p & Hp & ->). exists p. split; [exact Hp|].
  cbn [reconcile_crate p_imports with_imports]. intros imp Himp. apply imp_extend_in in Himp as [[]|Himp].
  apply in_map_iff in Himp as (i & <- & Hi). unfold imports_iter in Hi. apply (proj1 (Ho _ _)) in Hi. apply imp_extend_in in Hi as [[]|Hi].
  exists i. split; [exact Hi|]. unfold rename_import, renamed_import.
  rewrite lookup_rename_crates by (rewrite order_imports_keys; apply collect_nodup). now rewrite defs_of_order.
Qed.

Lemma fallback_unique tt own im imp :
  fallback_ambiguous tt own im = false -> In imp im ->
  str_eqb (base_crate imp) own = false -> import_resolves tt imp = false -> fb_unique tt own (type_name imp).
Proof.
  intros HA Hin EO ER. pose proof (existsb_false _ _ imp HA Hin) as F. cbn beta in F. rewrite EO, ER in F. cbn [negb andb] in F.
  intros kv kv' I1 I2 P1 P2. f_equal.
  apply (length_le1_eq (fallback_targets tt own (type_name imp))).
  - destruct (fallback_targets tt own (type_name imp)) as [|x [|y r]]; cbn [List.length]; [lia|lia|discriminate].
  - apply filter_In. split; [exact I1|exact P1].
  - apply filter_In. split; [exact I2|exact P2].
Qed.

Theorem multi_plan_same lang l1 l2 ho1 ho2 (hc1 hc2 : crate_types -> crate_types) :
  Permutation l1 l2 -> all_distinct (collect l1) -> ws_ambiguity (collect l1) = None ->
  oracle_ok ho1 -> oracle_ok ho2 -> oracle_ok hc1 -> oracle_ok hc2 ->
  Forall2 plan_same (multi_plan lang hc1 (multi_crates ho1 l1)) (multi_plan lang hc2 (multi_crates ho2 l2)).
Proof.
  intros HP HD HA Ho1 Ho2 Hc1 Hc2.
  pose proof (multi_crates_same l1 l2 HP HD ho1 ho2 (ws_ambiguity_rename _ HA) Ho1 Ho2) as HS.
  rewrite !multi_plan_mk. apply plan_map_same; [exact HS|].
  intros c pd Hin imp Himp. apply step_eq; [exact Hc1|exact Hc2| |now apply all_types_rel|].
  - rewrite all_types_multi. unfold all_types. rewrite map_map. apply collect_nodup.
  - rewrite all_types_multi. apply multi_crates_entry' in Hin as (p & Hp & E); [|exact Ho1]. destruct (E imp Himp) as (i & Hi & ->).
    destruct (ws_ambiguity_entry _ c p HA Hp) as [_ HF].
    apply (fallback_unique _ c (renamed_imports (defs_of (collect l1)) (p_imports p))); [exact HF|].
    unfold renamed_imports. now apply in_map.
Qed.

(* ====================================================================================== *)
(* (6) the generated files                                                                  *)
(* ====================================================================================== *)
Section Gen.
Context {St : Type}.
Variable gen : St -> str -> scoped -> parsed -> outcome (str * St).
(* a generator that looks at the four item lists of the crate's data only (not at the type table, the import set,
   the recorded errors) *)
Definition reads_items : Prop := forall st c im p q, same_items p q -> gen st c im p = gen st c im q.

Lemma generate_crates_same plan1 plan2 : reads_items -> Forall2 plan_same plan1 plan2 ->
  forall st, generate_crates gen st plan1 = generate_crates gen st plan2.
Proof.
  intros Hr. induction 1 as [|p q r1 r2 (HF & HC & HM & HI) _ IH]; intros st; [reflexivity|].
  cbn [generate_crates]. rewrite HF, HC, HM, (Hr st (op_crate q) (op_imports q) _ _ HI).
  destruct (gen st (op_crate q) (op_imports q) (op_data q)) as [[text st']| |]; [|reflexivity|reflexivity]. now rewrite IH.
Qed.
End Gen.

From TS Require Import Model.Lang.TypeScript Model.Lang.Kotlin Model.Lang.Swift Model.Lang.Scala Model.Lang.Go Model.Lang.Python.

Lemma ts_multi_reads_items uc cfg st im : forall p q, same_items p q -> ts_generate_multi uc cfg st im p = ts_generate_multi uc cfg st im q.
Proof. only_items. Qed.
Lemma kt_multi_reads_items uc cfg c im : forall p q, same_items p q -> kt_generate_multi uc cfg c im p = kt_generate_multi uc cfg c im q.
Proof. only_items. Qed.
Lemma sw_multi_reads_items uc cfg st : forall p q, same_items p q -> sw_generate_multi uc cfg st p = sw_generate_multi uc cfg st q.
Proof. only_items. Qed.
Lemma go_multi_reads_items uc cfg st : forall p q, same_items p q -> go_generate_multi uc cfg st p = go_generate_multi uc cfg st q.
Proof. only_items. Qed.
Lemma py_multi_reads_items uc cfg st : forall p q, same_items p q -> py_generate_multi uc cfg st p = py_generate_multi uc cfg st q.
Proof. only_items. Qed.

Theorem multi_generators_read_items (uc : unicode) :
  (forall cfg, reads_items (fun st (_ : str) im pd => ts_generate_multi uc cfg st im pd)) /\
  (forall cfg, reads_items (fun (st : unit) c im pd => match kt_generate_multi uc cfg c im pd with
                                                       | Ok text => Ok (text, st) | Err e => Err e | Panic s => Panic s end)) /\
  (forall cfg, reads_items (fun st (_ : str) (_ : scoped) pd => sw_generate_multi uc cfg st pd)) /\
  (forall cfg, reads_items (fun (st : unit) (_ : str) (_ : scoped) pd => match sc_generate uc cfg pd with
                                                                         | Ok text => Ok (text, st) | Err e => Err e | Panic s => Panic s end)) /\
  (forall cfg, reads_items (fun st (_ : str) (_ : scoped) pd => go_generate_multi uc cfg st pd)) /\
  (forall cfg, reads_items (fun st (_ : str) (_ : scoped) pd => py_generate_multi uc cfg st pd)).
Proof.
  repeat split; intros cfg st c im p q H; cbn beta.
  - now apply ts_multi_reads_items.
  - now rewrite (kt_multi_reads_items uc cfg c im p q H).
  - now apply sw_multi_reads_items.
  - now rewrite (sc_reads_items uc cfg p q H).
  - now apply go_multi_reads_items.
  - now apply py_multi_reads_items.
Qed.

(* the whole run: crates, plan, generated files *)
Theorem multi_hash_order_irrelevant (lang : lang) l1 l2 ho1 ho2 (hc1 hc2 : crate_types -> crate_types) :
  Permutation l1 l2 -> all_distinct (collect l1) -> ws_ambiguity (collect l1) = None ->
  oracle_ok ho1 -> oracle_ok ho2 -> oracle_ok hc1 -> oracle_ok hc2 ->
  cs_same (multi_crates ho1 l1) (multi_crates ho2 l2) /\
  Forall2 plan_same (multi_plan lang hc1 (multi_crates ho1 l1)) (multi_plan lang hc2 (multi_crates ho2 l2)) /\
  (forall (St : Type) (gen : St -> str -> scoped -> parsed -> outcome (str * St)), reads_items gen ->
     forall st, generate_crates gen st (multi_plan lang hc1 (multi_crates ho1 l1)) =
                generate_crates gen st (multi_plan lang hc2 (multi_crates ho2 l2))).
Proof.
  intros HP HD HA Ho1 Ho2 Hc1 Hc2.
  pose proof (multi_plan_same lang l1 l2 ho1 ho2 hc1 hc2 HP HD HA Ho1 Ho2 Hc1 Hc2) as HPl.
  split; [apply multi_crates_same; auto; now apply ws_ambiguity_rename|]. split; [exact HPl|].
  intros St gen Hr st. now apply generate_crates_same.
Qed.

(* ---------- the hypotheses are decidable: boolean forms (used to evaluate them on concrete workspaces) ---------- *)
Fixpoint nodup_b (l : list str) : bool :=
  match l with [] => true | x :: r => negb (mem_str x r) && nodup_b r end.
Lemma nodup_b_ok l : nodup_b l = true -> NoDup l.
Proof.
  induction l as [|x r IH]; intros H; [constructor|]. cbn [nodup_b] in H. apply andb_true_iff in H as [H1 H2].
  constructor; [|now apply IH]. apply negb_true_iff in H1. now apply mem_str_notin.
Qed.
Definition names_distinct_b (pd : parsed) : bool :=
  nodup_b (map (fun s => original (sid s)) (p_structs pd)) && nodup_b (map (fun e => original (eid (enum_shared e))) (p_enums pd)) &&
  nodup_b (map (fun a => original (aid a)) (p_aliases pd)) && nodup_b (map (fun c => original (cid c)) (p_consts pd)).
Definition all_distinct_b (cs : crates) : bool := forallb (fun c => names_distinct_b (snd c)) cs.
Lemma all_distinct_b_ok cs : all_distinct_b cs = true -> all_distinct cs.
Proof.
  unfold all_distinct_b. rewrite forallb_forall. intros H c pd Hin. specialize (H (c, pd) Hin). cbn [snd] in H.
  unfold names_distinct_b in H. apply andb_true_iff in H as [H H4]. apply andb_true_iff in H as [H H3]. apply andb_true_iff in H as [H1 H2].
  repeat split; now apply nodup_b_ok.
Qed.

(* ====================================================================================== *)
(* (7) the per-file import set (visitors.rs:156), before the collector                      *)
(* ====================================================================================== *)
Lemma flat_map_ext_in' {A B} (f g : A -> list B) l : (forall x, In x l -> f x = g x) -> flat_map f l = flat_map g l.
Proof.
  induction l as [|x l IH]; intros H; [reflexivity|]. cbn [flat_map]. rewrite (H x (or_introl eq_refl)), IH; [reflexivity|].
  intros y Hy. apply H. now right.
Qed.

Lemma imported_eq (x y : imported) : base_crate x = base_crate y -> type_name x = type_name y -> x = y.
Proof. destruct x, y. cbn. now intros -> ->. Qed.

(* outside class 3 reconcile_referenced_types keeps the same imports, in the same order, whatever the iteration order *)
Theorem rrt_order_irrelevant uc (ho1 ho2 : list imported -> list imported) pd :
  oracle_ok ho1 -> oracle_ok ho2 ->
  file_import_ambiguous (all_references uc pd) (p_type_names pd) (p_imports pd) = false ->
  reconcile_referenced_types uc ho1 pd = reconcile_referenced_types uc ho2 pd.
Proof.
  intros H1 H2 HA. unfold reconcile_referenced_types. f_equal. f_equal. f_equal.
  apply flat_map_ext_in'. intros name Hn. f_equal.
  apply filter_In in Hn as [Hn Hl]. apply unique_strs_in in Hn as [Hn _]. apply negb_true_iff in Hl.
  apply find_unique_set.
  - intros x. now rewrite (H1 _ x), (H2 _ x).
  - intros x y Hx Hy Ex Ey. apply (proj1 (H1 _ _)) in Hx, Hy. apply str_eqb_eq in Ex, Ey.
    pose proof (existsb_false _ _ x HA Hx) as F. cbn beta in F. rewrite Ex, Hl in F.
    apply mem_str_in in Hn. rewrite Hn in F. cbn [negb andb] in F.
    pose proof (existsb_false _ _ y F Hy) as G. cbn beta in G. rewrite Ey, str_eqb_refl in G. cbn [andb] in G.
    apply negb_false_iff, str_eqb_eq in G. symmetry. apply imported_eq; [exact G|congruence].
Qed.

Section Pre.
Variable uc : unicode.
Variable T ign : list str.

(* parse_file_multi up to (not including) reconcile_referenced_types: the items of the file and ALL its import
   candidates (what its `use` trees and qualified paths yield) *)
Definition parse_file_pre (tstr : str -> option Syntax.ty) (own : str) (f : Syntax.file) : outcome (option parsed) :=
  if negb (Syntax.fl_marker f) then Ok None else
  do pd <- (if accepts T (Syntax.fl_attrs f) then
              do pd1 <- visit_items_multi uc tstr T own ign (Syntax.fl_items f) empty_parsed;
              Ok (with_imports pd1 (imp_extend (p_imports pd1)
                                      (flat_map (fun p => opt_list (path_candidate uc own ign p)) (Syntax.fl_paths f))))
            else Ok empty_parsed);
  Ok (if parsed_is_empty pd then None else Some pd).

Lemma parse_file_multi_pre tstr own ho f :
  parse_file_multi uc tstr T own ign ho f =
  match parse_file_pre tstr own f with
  | Ok o => Ok (option_map (reconcile_referenced_types uc ho) o) | Err e => Err e | Panic s => Panic s
  end.
Proof.
  unfold parse_file_multi, parse_file_pre. destruct (negb (Syntax.fl_marker f)); [reflexivity|].
  destruct (accepts T (Syntax.fl_attrs f)).
  - destruct (visit_items_multi uc tstr T own ign (Syntax.fl_items f) empty_parsed) as [pd1| |]; cbn [bind]; try reflexivity.
    match goal with |- context [parsed_is_empty ?p] => destruct (parsed_is_empty p) end; reflexivity.
  - cbn [bind]. destruct (parsed_is_empty empty_parsed); reflexivity.
Qed.

(* class 3 over a workspace: no source file of a crate is ambiguous *)
Definition file_unambiguous (e : ws_entry) : bool :=
  match find_crate_name (we_path e) with
  | None => true
  | Some cn =>
    match parse_file_pre (we_tstr e) cn (we_file e) with
    | Ok (Some pd) => negb (file_import_ambiguous (all_references uc pd) (p_type_names pd) (p_imports pd))
    | _ => true
    end
  end.

Theorem parse_workspace_order_irrelevant (ho1 ho2 : list imported -> list imported) ws :
  oracle_ok ho1 -> oracle_ok ho2 -> forallb file_unambiguous ws = true ->
  parse_workspace uc T ign ho1 ws = parse_workspace uc T ign ho2 ws.
Proof.
  intros H1 H2. induction ws as [|e ws IH]; intros HA; [reflexivity|]. cbn [forallb] in HA. apply andb_true_iff in HA as [HE HA].
  cbn [parse_workspace]. unfold file_unambiguous in HE. destruct (find_crate_name (we_path e)) as [cn|]; [|now apply IH].
  rewrite !parse_file_multi_pre, (IH HA).
  destruct (parse_file_pre (we_tstr e) cn (we_file e)) as [[pd|]| |]; try reflexivity.
  apply negb_true_iff in HE. cbn [option_map]. now rewrite (rrt_order_irrelevant uc ho1 ho2 pd H1 H2 HE).
Qed.
End Pre.

(* ====================================================================================== *)
(* (8) from the source files to the generated files                                         *)
(* ====================================================================================== *)
Theorem multi_end_to_end (uc : unicode) (T ign : list str) (lang : lang) (ws : list ws_entry)
        (hf1 hf2 ho1 ho2 : list imported -> list imported) (hc1 hc2 : crate_types -> crate_types) (a1 : list (str * parsed)) :
  oracle_ok hf1 -> oracle_ok hf2 -> oracle_ok ho1 -> oracle_ok ho2 -> oracle_ok hc1 -> oracle_ok hc2 ->
  forallb (file_unambiguous uc T ign) ws = true ->
  parse_workspace uc T ign hf1 ws = Ok a1 ->
  all_distinct (collect a1) -> ws_ambiguity (collect a1) = None ->
  parse_workspace uc T ign hf2 ws = Ok a1 /\
  forall a2, Permutation a1 a2 ->
    forall (St : Type) (gen : St -> str -> scoped -> parsed -> outcome (str * St)), reads_items gen ->
      forall st, generate_crates gen st (multi_plan lang hc1 (multi_crates ho1 a1)) =
                 generate_crates gen st (multi_plan lang hc2 (multi_crates ho2 a2)).
Proof.
  intros Hf1 Hf2 Ho1 Ho2 Hc1 Hc2 HF HW HD HA. split.
  - now rewrite <- (parse_workspace_order_irrelevant uc T ign hf1 hf2 ws Hf1 Hf2 HF).
  - intros a2 HP St gen Hr st.
    exact (proj2 (proj2 (multi_hash_order_irrelevant lang a1 a2 ho1 ho2 hc1 hc2 HP HD HA Ho1 Ho2 Hc1 Hc2)) St gen Hr st).
Qed.
