(* Front end, part 3: parse_field / parse_struct / parse_enum / the visitor (Model/Parse.v). *)
From Coq Require Import String Lia ZifyBool ZifyN.
From TS Require Import Model.Str Model.Outcome Model.Unicode Model.Syntax Model.Attrs Model.TargetOs
                       Model.Rename Model.Types Model.Parse.
From TS Require Import Spec.SerdeCase Spec.C16Spec Spec.Serde Spec.TargetOsRule Spec.C03Spec.
From TS Require Import Proofs.C16 Proofs.C13 Proofs.FrontAttrs Proofs.FrontTypes.
Local Open Scope N_scope.
Local Notation length := List.length (only parsing).

(* ---------- generic facts about mapM ---------- *)
Lemma mapM_Forall2 {A B} (f : A -> outcome B) l r : mapM f l = Ok r -> Forall2 (fun x y => f x = Ok y) l r.
Proof.
  revert r; induction l as [|x l IH]; intros r; cbn [mapM].
  - intros [= <-]. constructor.
  - destruct (f x) as [y| |] eqn:Ex; cbn [bind]; try discriminate.
    destruct (mapM f l) as [ys| |]; cbn [bind]; try discriminate.
    intros [= <-]. constructor; auto.
Qed.

Lemma mapM_not_ok {A B} (f : A -> outcome B) l x : In x l -> is_ok (f x) = false -> is_ok (mapM f l) = false.
Proof.
  induction l as [|y l IH]; intros Hin Hx; [destruct Hin|]. cbn [mapM].
  destruct Hin as [->|Hin].
  - destruct (f x); [discriminate|reflexivity|reflexivity].
  - destruct (f y); cbn [bind]; try reflexivity.
    specialize (IH Hin Hx). destruct (mapM f l); [discriminate|reflexivity|reflexivity].
Qed.

Lemma Forall2_map_eq {A B C} (R : A -> B -> Prop) (g : A -> C) (h : B -> C) l r :
  Forall2 R l r -> (forall x y, R x y -> h y = g x) -> map h r = map g l.
Proof. induction 1; intros H'; cbn; [reflexivity|]. f_equal; auto. Qed.

(* ---------- raw identifiers ---------- *)
Definition no_hash (s : str) : bool := forallb (fun c => negb (c =? 35)) s.

Lemma replace_sub_fuel_id fuel s : no_hash s = true -> (length s < fuel)%nat ->
  replace_sub_fuel fuel (lit "r#") [] s = s.
Proof.
  revert s; induction fuel as [|f IH]; intros s Hs Hl; [lia|]. cbn [replace_sub_fuel].
  destruct s as [|c r]; [reflexivity|].
  cbn [no_hash forallb] in Hs. apply andb_true_iff in Hs as [Hc Hr].
  assert (E : starts_with (lit "r#") (c :: r) = false).
  { change (lit "r#") with [114; 35]. cbn [starts_with].
    destruct (114 =? c); [|reflexivity]. cbn [andb]. destruct r as [|d r']; [reflexivity|].
    cbn [no_hash forallb] in Hr. apply andb_true_iff in Hr as [Hd _]. destruct (35 =? d) eqn:E35; [|reflexivity]. lia. }
  rewrite E. f_equal. apply IH; [exact Hr|]. cbn [List.length] in Hl. lia.
Qed.

Lemma snake_no_hash s : forallb snake_char s = true -> no_hash s = true.
Proof. apply forallb_impl. intros c H. unfold snake_char, is_alower, is_adigit, ch_us in H. lia. Qed.
Lemma camel_no_hash s : forallb camel_char s = true -> no_hash s = true.
Proof. apply forallb_impl. intros c H. unfold camel_char, is_aalpha, is_alower, is_aupper, is_adigit in H. lia. Qed.

(* typeshare's `replace("r#", "")` is the removal of the raw prefix on every identifier, raw or
   not, whose body contains no '#': *)
Theorem unraw_model ident : no_hash (unraw ident) = true -> replace_sub (lit "r#") [] ident = unraw ident.
Proof.
  unfold unraw. destruct (starts_with (lit "r#") ident) eqn:E; intros H.
  - change (lit "r#") with [114; 35] in *. destruct ident as [|a [|b r]]; cbn [starts_with] in E; try discriminate.
    + destruct (114 =? a); discriminate.
    + apply andb_true_iff in E as [Ea Eb]. apply andb_true_iff in Eb as [Eb _].
      apply N.eqb_eq in Ea, Eb. subst a b. cbn [skipn] in *.
      unfold replace_sub.
      assert (E : replace_sub_fuel (S (List.length (114 :: 35 :: r))) [114; 35] [] (114 :: 35 :: r) =
                  replace_sub_fuel (List.length (114 :: 35 :: r)) [114; 35] [] r) by reflexivity.
      change (lit "r#") with [114; 35].
      etransitivity; [exact E|]. apply replace_sub_fuel_id; [exact H|cbn; auto with arith].
  - unfold replace_sub. change (lit "r#") with [114; 35]. apply replace_sub_fuel_id; [exact H|lia].
Qed.

Section ItemInd.
  Variable P : item -> Prop.
  Hypothesis H1 : forall a i g fs, P (IStruct a i g fs).
  Hypothesis H2 : forall a i g vs, P (IEnum a i g vs).
  Hypothesis H3 : forall a i g t, P (IType a i g t).
  Hypothesis H4 : forall a i t e, P (IConst a i t e).
  Hypothesis H5 : forall u, P (IUse u).
  Hypothesis H6 : forall inner, Forall P inner -> P (INest inner).
  Fixpoint item_ind' (it : item) : P it :=
    match it with
    | IStruct a i g fs => H1 a i g fs | IEnum a i g vs => H2 a i g vs | IType a i g t => H3 a i g t
    | IConst a i t e => H4 a i t e | IUse u => H5 u
    | INest inner => H6 inner ((fix G (l : list item) : Forall P l :=
                                  match l with [] => Forall_nil _ | x :: r => Forall_cons x (item_ind' x) (G r) end) inner)
    end.
End ItemInd.

Section U.
Variable uc : unicode.
Hypothesis Huc : unicode_ok uc.
Variable tstr : str -> option ty.
Variable T : list str.

(* ---------- get_ident ---------- *)
Lemma get_ident_ok ident attrs ra i : get_ident uc ident attrs ra = Ok i ->
  original i = match ident with None => lit "???" | Some x => replace_sub (lit "r#") [] x end /\
  match serde_nv attrs (lit "rename") with
  | Some r => renamed i = trim uc r /\ via_serde_rename i = true
  | None => rename_all_to_case uc (original i) ra = Ok (renamed i) /\ via_serde_rename i = false
  end.
Proof.
  unfold get_ident. destruct (rename_all_to_case uc _ ra) as [r| |] eqn:Er; cbn [bind]; try discriminate.
  rewrite serde_rename_spec. destruct (serde_nv attrs (lit "rename")) as [s|]; cbn [option_map]; intros [= <-]; cbn; auto.
Qed.

(* ---------- C01 (front): field wire key = serde's key ---------- *)
Lemma parse_field_ident cf ra f rf : parse_field uc tstr cf ra f = Ok rf ->
  get_ident uc (f_ident f) (f_attrs f) ra = Ok (fid rf) /\
  has_default rf = serde_default (f_attrs f) /\ field_type uc tstr f = Ok (fty rf) /\
  fcomments rf = parse_comment_attrs uc (f_attrs f).
Proof.
  unfold parse_field. destruct (field_type uc tstr f) as [t| |]; cbn [bind]; try discriminate.
  destruct (cf && serde_flatten (f_attrs f)); [discriminate|].
  destruct (get_field_decorators uc (f_attrs f)) as [d| |]; cbn [bind]; try discriminate.
  destruct (get_ident uc (f_ident f) (f_attrs f) ra) as [i| |]; cbn [bind]; try discriminate.
  intros [= <-]. cbn. auto.
Qed.

(* rename_all strings: the values serde accepts, and generally any string over the key alphabet,
   survive typeshare's trim *)
Definition rule_ok (ra : option str) : bool := match ra with None => true | Some s => forallb key_char s end.

Theorem field_key_agrees cf container_attrs f ident rf :
  parse_field uc tstr cf (serde_rename_all uc container_attrs) f = Ok rf ->
  f_ident f = Some ident ->
  conv_field (unraw ident) = true ->
  rule_ok (serde_nv container_attrs (lit "rename_all")) = true ->
  rule_ok (serde_nv (f_attrs f) (lit "rename")) = true ->
  Some (renamed (fid rf)) = field_key (serde_nv container_attrs (lit "rename_all")) (f_attrs f) ident.
Proof.
  intros Hp Hid Hconv Hra Hrn.
  apply parse_field_ident in Hp as (Hi & _). apply get_ident_ok in Hi as (Ho & Hr).
  rewrite Hid in Ho.
  assert (Hnh : no_hash (unraw ident) = true).
  { unfold conv_field in Hconv. apply andb_true_iff in Hconv as [Hs _]. now apply snake_no_hash. }
  rewrite (unraw_model ident Hnh) in Ho.
  unfold field_key. destruct (serde_nv (f_attrs f) (lit "rename")) as [r|].
  - destruct Hr as [Hr _]. rewrite Hr. cbn [rule_ok] in Hrn. now rewrite (trim_key uc Huc r Hrn).
  - destruct Hr as [Hr _]. rewrite Ho in Hr.
    rewrite serde_rename_all_spec in Hr.
    assert (Htrim : option_map (trim uc) (serde_nv container_attrs (lit "rename_all")) = serde_nv container_attrs (lit "rename_all")).
    { destruct (serde_nv container_attrs (lit "rename_all")) as [s|]; [|reflexivity]. cbn [rule_ok] in Hra. cbn.
      now rewrite (trim_key uc Huc s Hra). }
    rewrite Htrim in Hr.
    pose proof (C16_main uc Huc PField (serde_nv container_attrs (lit "rename_all")) (unraw ident)) as HC.
    unfold known_C16 in HC. rewrite Hconv in HC. specialize (HC eq_refl).
    unfold good_C16, serde_name in HC. rewrite Hr in HC.
    destruct (serde_field_name (serde_nv container_attrs (lit "rename_all")) (unraw ident)) as [x|] eqn:Ex.
    + apply str_eqb_eq in HC. now subst.
    + (* serde itself is undefined only for camelCase of an all-underscore name: excluded by conv_field *)
      exfalso. unfold serde_field_name in Ex.
      destruct (serde_nv container_attrs (lit "rename_all")) as [rs|]; [|discriminate].
      destruct (rule_from_str rs) as [rl|]; [|discriminate].
      destruct (field_serde_defined rl (unraw ident) Hconv) as [y Hy]. congruence.
Qed.

(* ---------- C02 (front): variant wire name, tag and content keys ---------- *)
Lemma parse_variant_ident ra v rv : parse_enum_variant uc tstr T ra v = Ok rv ->
  get_ident uc (Some (v_ident v)) (v_attrs v) ra = Ok (vid (variant_shared rv)).
Proof.
  unfold parse_enum_variant.
  destruct (get_ident uc (Some (v_ident v)) (v_attrs v) ra) as [i| |]; cbn [bind]; try discriminate.
  destruct (v_fields v) as [l|l|].
  - destruct (mapM _ _); cbn [bind]; try discriminate. intros [= <-]. reflexivity.
  - destruct l as [|f [|? ?]]; try discriminate.
    destruct (field_type uc tstr f); cbn [bind]; try discriminate. intros [= <-]. reflexivity.
  - intros [= <-]. reflexivity.
Qed.

Theorem variant_name_agrees enum_attrs v rv :
  parse_enum_variant uc tstr T (serde_rename_all uc enum_attrs) v = Ok rv ->
  known_C16 PVariant (unraw (v_ident v)) = None ->
  rule_ok (serde_nv enum_attrs (lit "rename_all")) = true ->
  rule_ok (serde_nv (v_attrs v) (lit "rename")) = true ->
  Some (renamed (vid (variant_shared rv))) = variant_name uc (serde_nv enum_attrs (lit "rename_all")) (v_attrs v) (v_ident v).
Proof.
  intros Hp Hconv Hra Hrn.
  apply parse_variant_ident in Hp. apply get_ident_ok in Hp as (Ho & Hr).
  assert (Hcv : conv_variant (unraw (v_ident v)) = true).
  { unfold known_C16 in Hconv. destruct (conv_variant (unraw (v_ident v))); [reflexivity|].
    unfold cls in Hconv. destruct (negb _); [discriminate|]. destruct (contains_char _ _); [discriminate|].
    destruct (match unraw (v_ident v) with [] => false | c :: _ => is_alower c end); discriminate. }
  assert (Hnh : no_hash (unraw (v_ident v)) = true).
  { destruct (unraw (v_ident v)) as [|c r]; [discriminate|]. cbn [conv_variant] in Hcv.
    apply andb_true_iff in Hcv as [Hc Hr']. pose proof (camel_no_hash r Hr') as Hnr.
    unfold no_hash in *. cbn [forallb]. rewrite Hnr. unfold is_aupper in Hc. rewrite andb_true_r. lia. }
  rewrite (unraw_model _ Hnh) in Ho.
  unfold variant_name. destruct (serde_nv (v_attrs v) (lit "rename")) as [r|].
  - destruct Hr as [Hr _]. rewrite Hr. cbn [rule_ok] in Hrn. now rewrite (trim_key uc Huc r Hrn).
  - destruct Hr as [Hr _]. rewrite Ho in Hr. rewrite serde_rename_all_spec in Hr.
    assert (Htrim : option_map (trim uc) (serde_nv enum_attrs (lit "rename_all")) = serde_nv enum_attrs (lit "rename_all")).
    { destruct (serde_nv enum_attrs (lit "rename_all")) as [s|]; [|reflexivity]. cbn [rule_ok] in Hra. cbn.
      now rewrite (trim_key uc Huc s Hra). }
    rewrite Htrim in Hr.
    pose proof (C16_main uc Huc PVariant (serde_nv enum_attrs (lit "rename_all")) (unraw (v_ident v)) Hconv) as HC.
    unfold good_C16, serde_name in HC. rewrite Hr in HC.
    destruct (serde_variant_name uc (serde_nv enum_attrs (lit "rename_all")) (unraw (v_ident v))) as [x|] eqn:Ex.
    + apply str_eqb_eq in HC. now subst.
    + exfalso. unfold serde_variant_name in Ex.
      destruct (serde_nv enum_attrs (lit "rename_all")) as [rs|]; [|discriminate].
      destruct (rule_from_str rs) as [rl|]; [|discriminate].
      destruct (variant_serde_defined uc rl (unraw (v_ident v)) Hcv) as [y Hy]. congruence.
Qed.

Theorem tag_content_agree attrs ident gens vs tag content sh :
  parse_enum uc tstr T attrs ident gens vs = Ok (ItEnum (EAlgebraic tag content sh)) ->
  serde_nv attrs (lit "tag") = Some tag \/ (exists t, serde_nv attrs (lit "tag") = Some t /\ tag = trim uc t).
Proof.
  unfold parse_enum. destruct (get_serialized_as_type uc attrs).
  - destruct (get_ident _ _ _ _); cbn [bind]; try discriminate. destruct (parse_ty_str _ _); cbn [bind]; discriminate.
  - destruct (mapM _ _) as [variants| |]; cbn [bind]; try discriminate.
    destruct (get_ident _ _ _ _) as [i| |]; cbn [bind]; try discriminate.
    rewrite tag_key_spec, content_key_spec.
    destruct (forallb _ variants).
    + destruct (serde_nv attrs (lit "tag")); cbn [option_map]; try discriminate.
      destruct (serde_nv attrs (lit "content")); cbn [option_map]; discriminate.
    + destruct (serde_nv attrs (lit "tag")) as [t|]; cbn [option_map]; try discriminate.
      destruct (serde_nv attrs (lit "content")) as [c|]; cbn [option_map]; try discriminate.
      intros [= <- <- <-]. right. eauto.
Qed.

(* ---------- C03 (front): exactly the non-skipped members, in source order ---------- *)
Definition spec_skipped (attrs : list attr) : bool := skip_marked attrs || negb (os_rule attrs T).

Lemma is_skipped_spec attrs : cfg_parsable attrs = true -> is_skipped T attrs = spec_skipped attrs.
Proof.
  intros H. unfold is_skipped, spec_skipped, accepts.
  rewrite skip_marker_spec, (accept_is_rule attrs T H). reflexivity.
Qed.

Definition field_name (f : field) : str :=
  match f_ident f with None => lit "???" | Some x => replace_sub (lit "r#") [] x end.

Theorem struct_members attrs ident gens l s :
  parse_struct uc tstr T attrs ident gens (FNamed l) = Ok (ItStruct s) ->
  map (fun rf => original (fid rf)) (sfields s) = map field_name (filter (fun f => negb (is_skipped T (f_attrs f))) l).
Proof.
  unfold parse_struct. destruct (get_serialized_as_type uc attrs).
  - destruct (get_ident _ _ _ _); cbn [bind]; try discriminate. destruct (parse_ty_str _ _); cbn [bind]; discriminate.
  - destruct (mapM _ _) as [fields| |] eqn:Em; cbn [bind]; try discriminate.
    destruct (get_ident _ _ _ _) as [i| |]; cbn [bind]; try discriminate.
    intros [= <-]. cbn [sfields].
    apply mapM_Forall2 in Em. eapply Forall2_map_eq; [exact Em|].
    intros f rf Hf. apply parse_field_ident in Hf as (Hi & _). apply get_ident_ok in Hi as (Ho & _). exact Ho.
Qed.

Theorem variant_members ra attrs ident l rv :
  parse_enum_variant uc tstr T ra {| v_attrs := attrs; v_ident := ident; v_fields := FNamed l |} = Ok rv ->
  exists fs sh, rv = VAnon fs sh /\
    map (fun rf => original (fid rf)) fs = map field_name (filter (fun f => negb (is_skipped T (f_attrs f))) l).
Proof.
  unfold parse_enum_variant. cbn [v_attrs v_ident v_fields].
  destruct (get_ident _ _ _ _) as [i| |]; cbn [bind]; try discriminate.
  destruct (mapM _ _) as [fields| |] eqn:Em; cbn [bind]; try discriminate.
  intros [= <-]. eexists _, _. split; [reflexivity|].
  apply mapM_Forall2 in Em. eapply Forall2_map_eq; [exact Em|].
  intros f rf Hf. apply parse_field_ident in Hf as (Hi & _). apply get_ident_ok in Hi as (Ho & _). exact Ho.
Qed.

Theorem enum_variants attrs ident gens vs e :
  parse_enum uc tstr T attrs ident gens vs = Ok (ItEnum e) ->
  map (fun rv => original (vid (variant_shared rv))) (evariants (enum_shared e)) =
  map (fun v => replace_sub (lit "r#") [] (v_ident v)) (filter (fun v => negb (is_skipped T (v_attrs v))) vs).
Proof.
  unfold parse_enum. destruct (get_serialized_as_type uc attrs).
  - destruct (get_ident _ _ _ _); cbn [bind]; try discriminate. destruct (parse_ty_str _ _); cbn [bind]; discriminate.
  - destruct (mapM _ _) as [variants| |] eqn:Em; cbn [bind]; try discriminate.
    destruct (get_ident _ _ _ _) as [i| |]; cbn [bind]; try discriminate.
    assert (H : map (fun rv => original (vid (variant_shared rv))) variants =
                map (fun v => replace_sub (lit "r#") [] (v_ident v)) (filter (fun v => negb (is_skipped T (v_attrs v))) vs)).
    { apply mapM_Forall2 in Em. eapply Forall2_map_eq; [exact Em|].
      intros v rv Hv. apply parse_variant_ident in Hv. apply get_ident_ok in Hv as (Ho & _). exact Ho. }
    destruct (forallb _ variants).
    + destruct (get_tag_key uc attrs); [discriminate|]. destruct (get_content_key uc attrs); [discriminate|].
      intros [= <-]. exact H.
    + destruct (get_tag_key uc attrs); [|discriminate]. destruct (get_content_key uc attrs); [|discriminate].
      intros [= <-]. exact H.
Qed.

(* ---------- C04 (front) ---------- *)
Theorem field_flags cf ra f rf : parse_field uc tstr cf ra f = Ok rf ->
  has_default rf = bare_default (f_attrs f) /\
  (get_field_type_override uc (f_attrs f) = None -> is_optional (fty rf) = is_option_type (f_ty f)).
Proof.
  intros H. apply parse_field_ident in H as (_ & Hd & Ht & _). split.
  - now rewrite Hd, serde_default_spec.
  - intros Hov. unfold field_type in Ht. rewrite Hov in Ht. now apply optional_iff_option_type.
Qed.

(* ---------- C08 (front): unsupported constructs make the item fail ---------- *)
Theorem struct_unsupported_field attrs ident gens l f :
  get_serialized_as_type uc attrs = None ->
  In f l -> is_skipped T (f_attrs f) = false ->
  get_field_type_override uc (f_attrs f) = None -> has_unsupported (f_ty f) = true ->
  is_ok (parse_struct uc tstr T attrs ident gens (FNamed l)) = false.
Proof.
  intros Hs Hin Hsk Hov Hun. unfold parse_struct. rewrite Hs.
  assert (Hm : is_ok (mapM (parse_field uc tstr true (serde_rename_all uc attrs))
                           (filter (fun f => negb (is_skipped T (f_attrs f))) l)) = false).
  { apply mapM_not_ok with (x := f).
    - apply filter_In. split; [exact Hin|]. now rewrite Hsk.
    - unfold parse_field, field_type. rewrite Hov.
      pose proof (unsupported_never_ok (f_ty f) Hun) as Hn.
      destruct (parse_ty (f_ty f)); [discriminate|reflexivity|reflexivity]. }
  destruct (mapM _ _); [discriminate|reflexivity|reflexivity].
Qed.

(* a skipped field is as if it were not there *)
Theorem struct_skipped_field_irrelevant attrs ident gens l1 f l2 :
  is_skipped T (f_attrs f) = true ->
  parse_struct uc tstr T attrs ident gens (FNamed (l1 ++ f :: l2)) =
  parse_struct uc tstr T attrs ident gens (FNamed (l1 ++ l2)).
Proof.
  intros H. unfold parse_struct. rewrite !filter_app. cbn [filter]. now rewrite H.
Qed.
Theorem enum_skipped_variant_irrelevant attrs ident gens l1 v l2 :
  is_skipped T (v_attrs v) = true ->
  parse_enum uc tstr T attrs ident gens (l1 ++ v :: l2) = parse_enum uc tstr T attrs ident gens (l1 ++ l2).
Proof.
  intros H. unfold parse_enum. rewrite !filter_app. cbn [filter]. now rewrite H.
Qed.

Theorem tuple_struct_many attrs ident gens f1 f2 r :
  get_serialized_as_type uc attrs = None ->
  parse_struct uc tstr T attrs ident gens (FUnnamed (f1 :: f2 :: r)) = Err EComplexTupleStruct.
Proof. intros H. unfold parse_struct. now rewrite H. Qed.

Theorem struct_flatten attrs ident gens l f :
  get_serialized_as_type uc attrs = None ->
  In f l -> is_skipped T (f_attrs f) = false -> bare_flatten (f_attrs f) = true ->
  is_ok (parse_struct uc tstr T attrs ident gens (FNamed l)) = false.
Proof.
  intros Hs Hin Hsk Hfl. unfold parse_struct. rewrite Hs.
  assert (Hm : is_ok (mapM (parse_field uc tstr true (serde_rename_all uc attrs))
                           (filter (fun f => negb (is_skipped T (f_attrs f))) l)) = false).
  { apply mapM_not_ok with (x := f).
    - apply filter_In. split; [exact Hin|]. now rewrite Hsk.
    - unfold parse_field. destruct (field_type uc tstr f); cbn [bind]; try reflexivity.
      rewrite serde_flatten_spec, Hfl. reflexivity. }
  destruct (mapM _ _); [discriminate|reflexivity|reflexivity].
Qed.

(* data-carrying enum needs both keys; unit enum must have neither *)
Theorem enum_keys attrs ident gens vs e :
  parse_enum uc tstr T attrs ident gens vs = Ok (ItEnum e) ->
  match e with
  | EUnit sh => serde_nv attrs (lit "tag") = None /\ serde_nv attrs (lit "content") = None /\
                forallb (fun v => match v with VUnit _ => true | _ => false end) (evariants sh) = true
  | EAlgebraic _ _ sh => serde_nv attrs (lit "tag") <> None /\ serde_nv attrs (lit "content") <> None /\
                forallb (fun v => match v with VUnit _ => true | _ => false end) (evariants sh) = false
  end.
Proof.
  unfold parse_enum. destruct (get_serialized_as_type uc attrs).
  - destruct (get_ident _ _ _ _); cbn [bind]; try discriminate. destruct (parse_ty_str _ _); cbn [bind]; discriminate.
  - destruct (mapM _ _) as [variants| |]; cbn [bind]; try discriminate.
    destruct (get_ident _ _ _ _) as [i| |]; cbn [bind]; try discriminate.
    rewrite tag_key_spec, content_key_spec.
    destruct (forallb _ variants) eqn:Ef.
    + destruct (serde_nv attrs (lit "tag")); cbn [option_map]; try discriminate.
      destruct (serde_nv attrs (lit "content")); cbn [option_map]; try discriminate.
      intros [= <-]. cbn. auto.
    + destruct (serde_nv attrs (lit "tag")); cbn [option_map]; try discriminate.
      destruct (serde_nv attrs (lit "content")); cbn [option_map]; try discriminate.
      intros [= <-]. cbn. repeat split; congruence.
Qed.

Theorem variant_many_unnamed ra attrs ident f1 f2 r :
  is_ok (parse_enum_variant uc tstr T ra {| v_attrs := attrs; v_ident := ident; v_fields := FUnnamed (f1 :: f2 :: r) |}) = false.
Proof.
  unfold parse_enum_variant. cbn [v_attrs v_ident v_fields]. destruct (get_ident _ _ _ _); reflexivity.
Qed.

(* a const is accepted only when its initialiser is an integer literal, possibly parenthesised / negated *)
Lemma const_expr_ok_is_int e z : parse_const_expr e = Ok z -> c03_const_is_int e = true.
Proof.
  revert z; induction e as [l|x IH|x IH|]; intros z; cbn [parse_const_expr c03_const_is_int].
  - destruct l as [[v|]|]; [reflexivity|discriminate|discriminate].
  - apply IH.
  - destruct (parse_const_expr x) as [y| |]; cbn [bind]; try discriminate. intros _. now apply (IH y).
  - discriminate.
Qed.

Theorem const_needs_int_literal attrs ident t e it :
  parse_const uc tstr attrs ident t e = Ok it -> c03_const_is_int e = true.
Proof.
  unfold parse_const. destruct (parse_const_expr e) as [z| |] eqn:Ez; cbn [bind]; try discriminate.
  intros _. now apply (const_expr_ok_is_int e z).
Qed.

(* ---------- C03: the visitor is a fold of collect_result over the annotated, accepted items ---------- *)
Definition parse_leaf (it : item) : outcome ritem :=
  match it with
  | IStruct a i g fs => parse_struct uc tstr T a i g fs
  | IEnum a i g vs => parse_enum uc tstr T a i g vs
  | IType a i g t => parse_type_alias uc tstr a i g t
  | IConst a i t e => parse_const uc tstr a i t e
  | _ => Panic "not a leaf"
  end.

Definition fold_collect (results : list (outcome ritem)) (pd : parsed) : outcome parsed :=
  fold_left (fun acc r => do p <- acc; collect_result p r) results (Ok pd).

Lemma fold_collect_app a b pd :
  fold_collect (a ++ b) pd = (do p <- fold_collect a pd; fold_collect b p).
Proof.
  unfold fold_collect. rewrite fold_left_app.
  generalize (fold_left (fun acc r => do p <- acc; collect_result p r) a (Ok pd)). intros o.
  destruct o as [p| |]; cbn [bind]; [reflexivity| |].
  - induction b as [|r b IH]; cbn [fold_left]; [reflexivity|]. exact IH.
  - induction b as [|r b IH]; cbn [fold_left]; [reflexivity|]. exact IH.
Qed.

Definition wanted_results (l : list item) : list (outcome ritem) :=
  map parse_leaf (filter (fun it => wanted T (leaf_attrs it)) l).

Lemma visit_item_spec it : forall pd,
  visit_item uc tstr T it pd = fold_collect (wanted_results (leaves it)) pd.
Proof.
  induction it as [a i g fs|a i g vs|a i g t|a i t e|u|inner IH] using item_ind'; intros pd.
  1-4: unfold wanted_results; cbn [visit_item leaves filter leaf_attrs];
       destruct (wanted T a); reflexivity.
  - reflexivity.
  - cbn [visit_item leaves]. revert pd. induction IH as [|x r Hx _ IHr]; intros pd.
    + reflexivity.
    + rewrite Hx. unfold wanted_results. rewrite filter_app, map_app, fold_collect_app.
      destruct (fold_collect _ pd) as [p| |]; cbn [bind]; [|reflexivity|reflexivity].
      apply IHr.
Qed.

Theorem visit_items_spec l pd :
  visit_items uc tstr T l pd = fold_collect (wanted_results (leaves_of l)) pd.
Proof.
  revert pd; induction l as [|x r IH]; intros pd; cbn [visit_items leaves_of flat_map]; [reflexivity|].
  rewrite visit_item_spec. unfold wanted_results. rewrite filter_app, map_app, fold_collect_app.
  destruct (fold_collect _ pd) as [p| |]; cbn [bind]; [|reflexivity|reflexivity].
  apply IH.
Qed.

(* bookkeeping: nothing is dropped - every result is either pushed or recorded as an error *)
Definition count_items (pd : parsed) : nat :=
  (length (p_structs pd) + length (p_enums pd) + length (p_aliases pd) + length (p_consts pd) + length (p_errors pd))%nat.

Lemma collect_count pd r pd' : collect_result pd r = Ok pd' -> count_items pd' = S (count_items pd).
Proof.
  unfold collect_result, count_items. destruct r as [it|e|s]; [|intros [= <-]; cbn; rewrite app_length; cbn; lia|discriminate].
  intros [= <-]. destruct it; cbn; rewrite app_length; cbn; lia.
Qed.

Theorem fold_collect_count results : forall pd pd',
  fold_collect results pd = Ok pd' -> count_items pd' = (count_items pd + length results)%nat.
Proof.
  induction results as [|r rs IH]; intros pd pd' H.
  - unfold fold_collect in H. cbn in H. injection H as <-. cbn. lia.
  - change (r :: rs) with ([r] ++ rs) in H. rewrite fold_collect_app in H.
    unfold fold_collect at 1 in H. cbn [fold_left bind] in H.
    destruct (collect_result pd r) as [p| |] eqn:Ec; cbn [bind] in H; try discriminate.
    apply IH in H. apply collect_count in Ec. cbn [List.length]. lia.
Qed.
End U.
