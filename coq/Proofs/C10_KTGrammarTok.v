(* C10, grammar half for Kotlin, part 1: the TOKENIZER of Spec/C10KtGrammar.v.
     - the scanners (line comment, nesting block comment, string literal with escapes, back-ticked identifier)
       consume a prefix and do not look beyond it ([skip_*_frame]);
     - [Tk s ts]: "s tokenises to ts with every sufficient fuel" (fuel-free view), [tokens_tk], [tk_run];
     - [tk_frame]: the FRAME lemma - the tokens of a text do not depend on what follows it as soon as the junction
       is a token boundary ([glue]: the follower does not start with an identifier character, a star, a slash or a
       double quote, or the text ends with a character that is none of identifier character, slash, double quote);
     - [Frag] / [CFrag]: open / closed fragments, composition, fragments of LITERAL text by computation, the holes:
       identifiers, quoted text, line comments, block comments, blanks. *)
From Coq Require Import List Bool Lia ZifyBool ZifyN NArith.
From TS Require Import Model.Str Spec.C10TsGrammar Spec.C10KtGrammar.
From TS Require Proofs.C10_TSGrammarTok.
Import ListNotations.
Local Open Scope N_scope.
Local Notation length := List.length (only parsing).
Module T := Proofs.C10_TSGrammarTok.

(* ------------------------------------------------------------------ the scanners: what they consume *)
Lemma skip_line_frame s r : c10k_skip_line s = Some r ->
  (exists p, p <> [] /\ s = p ++ r) /\ forall b, c10k_skip_line (s ++ b) = Some (r ++ b).
Proof.
  revert r. induction s as [|c s IH]; intros r H; [discriminate|]. cbn [c10k_skip_line] in H.
  destruct ((c =? ch_nl) || (c =? ch_cr)) eqn:E.
  - injection H as <-. split; [exists [c]; split; [discriminate|reflexivity]|]. intros b. cbn [app c10k_skip_line]. rewrite E. reflexivity.
  - destruct (IH r H) as [(p & _ & Hp) Hb]. split; [exists (c :: p); split; [discriminate|rewrite Hp; reflexivity]|].
    intros b. cbn [app c10k_skip_line]. rewrite E. apply Hb.
Qed.

Lemma skip_block_frame s : forall d r, c10k_skip_block d s = Some r ->
  (exists p, s = p ++ r) /\ forall b, c10k_skip_block d (s ++ b) = Some (r ++ b).
Proof.
  assert (G : forall n s, (List.length s <= n)%nat -> forall d r, c10k_skip_block d s = Some r ->
              (exists p, s = p ++ r) /\ forall b, c10k_skip_block d (s ++ b) = Some (r ++ b)).
  { clear s. induction n as [|n IH]; intros s Hn d r H; (destruct s as [|c s]; [discriminate|]); [cbn in Hn; lia|].
    cbn [List.length] in Hn. destruct s as [|e s']; [discriminate|]. cbn [c10k_skip_block] in H. cbn [List.length] in Hn.
    destruct ((c =? 42) && (e =? 47)) eqn:E1.
    { destruct d as [|d'].
      - injection H as <-. split; [exists [c; e]; reflexivity|]. intros b. cbn [app c10k_skip_block]. rewrite E1. reflexivity.
      - destruct (IH s' ltac:(lia) d' r H) as [[p Hp] Hb]. split; [exists (c :: e :: p); rewrite Hp; reflexivity|].
        intros b. cbn [app c10k_skip_block]. rewrite E1. apply Hb. }
    destruct ((c =? 47) && (e =? 42)) eqn:E2.
    { destruct (IH s' ltac:(lia) (S d) r H) as [[p Hp] Hb]. split; [exists (c :: e :: p); rewrite Hp; reflexivity|].
      intros b. cbn [app c10k_skip_block]. rewrite E1, E2. apply Hb. }
    destruct (IH (e :: s') ltac:(cbn [List.length]; lia) d r H) as [[p Hp] Hb]. split; [exists (c :: p); rewrite Hp; reflexivity|].
    intros b. change ((c :: e :: s') ++ b) with (c :: e :: s' ++ b). cbn [c10k_skip_block]. rewrite E1, E2. apply (Hb b). }
  intros d r. exact (G (List.length s) s (le_n _) d r).
Qed.

Lemma skip_string_frame s r : c10k_skip_string s = Some r ->
  (exists p, p <> [] /\ s = p ++ r) /\ forall b, c10k_skip_string (s ++ b) = Some (r ++ b).
Proof.
  assert (G : forall n s, (List.length s <= n)%nat -> forall r, c10k_skip_string s = Some r ->
              (exists p, p <> [] /\ s = p ++ r) /\ forall b, c10k_skip_string (s ++ b) = Some (r ++ b)).
  { clear s r. induction n as [|n IH]; intros s Hn r H; (destruct s as [|c s]; [discriminate|]); [cbn in Hn; lia|].
    cbn [c10k_skip_string] in H. cbn [List.length] in Hn.
    destruct (c =? ch_dq) eqn:E1.
    { injection H as <-. split; [exists [c]; split; [discriminate|reflexivity]|]. intros b. cbn [c10k_skip_string app]. rewrite E1. reflexivity. }
    destruct (c =? ch_bs) eqn:E2.
    { destruct s as [|e s']; [discriminate|]. cbn [List.length] in Hn.
      destruct (e =? 117) eqn:E3.
      - destruct s' as [|h1 [|h2 [|h3 [|h4 s'']]]]; try discriminate. cbn [List.length] in Hn.
        destruct (c10k_hex h1 && c10k_hex h2 && c10k_hex h3 && c10k_hex h4) eqn:E4; [|discriminate].
        destruct (IH s'' ltac:(lia) r H) as [(p & _ & Hp) Hb].
        split; [exists (c :: e :: h1 :: h2 :: h3 :: h4 :: p); split; [discriminate|rewrite Hp; reflexivity]|].
        intros b. cbn [c10k_skip_string app]. rewrite E1, E2, E3, E4. apply Hb.
      - destruct (c10k_esc e) eqn:E4; [|discriminate].
        destruct (IH s' ltac:(lia) r H) as [(p & _ & Hp) Hb].
        split; [exists (c :: e :: p); split; [discriminate|rewrite Hp; reflexivity]|].
        intros b. cbn [c10k_skip_string app]. rewrite E1, E2, E3, E4. apply Hb. }
    destruct ((c =? ch_nl) || (c =? ch_cr)) eqn:E3; [discriminate|].
    destruct (IH s ltac:(lia) r H) as [(p & _ & Hp) Hb]. split; [exists (c :: p); split; [discriminate|rewrite Hp; reflexivity]|].
    intros b. cbn [c10k_skip_string app]. rewrite E1, E2, E3. apply Hb. }
  exact (G (List.length s) s (le_n _) r).
Qed.

Lemma skip_tick_frame s : forall a r, c10k_skip_tick s = Some (a, r) ->
  s = a ++ 96 :: r /\ forall b, c10k_skip_tick (s ++ b) = Some (a, r ++ b).
Proof.
  induction s as [|c s IH]; intros a r H; [discriminate|]. cbn [c10k_skip_tick] in H.
  destruct (c =? 96) eqn:E1.
  { injection H as <- <-. split; [apply N.eqb_eq in E1; rewrite E1; reflexivity|]. intros b. cbn [app c10k_skip_tick]. rewrite E1. reflexivity. }
  destruct ((c =? ch_nl) || (c =? ch_cr)) eqn:E2; [discriminate|].
  destruct (c10k_skip_tick s) as [[a' b']|] eqn:E3; [|discriminate]. injection H as <- <-.
  destruct (IH a' b' eq_refl) as [Hs Hb]. split; [rewrite Hs; reflexivity|].
  intros b. cbn [app c10k_skip_tick]. rewrite E1, E2, (Hb b). reflexivity.
Qed.

(* one step consumes a non-empty prefix *)
Lemma next_suffix s ot r : c10k_next s = Some (ot, r) -> exists p, p <> [] /\ s = p ++ r.
Proof.
  destruct s as [|c s]; [discriminate|]. cbn [c10k_next].
  destruct (c10k_space c); [intros H; injection H as <- <-; exists [c]; split; [discriminate|reflexivity]|].
  destruct ((c =? 47) && c10k_head_is 47 s).
  { destruct (c10k_skip_line s) as [r'|] eqn:E; [|discriminate]. intros H. injection H as <- <-.
    destruct (proj1 (skip_line_frame _ _ E)) as (p & _ & Hp). exists (c :: p). split; [discriminate|]. rewrite Hp. reflexivity. }
  destruct ((c =? 47) && c10k_head_is 42 s) eqn:Ec.
  { destruct (c10k_skip_block 0 (tl s)) as [r'|] eqn:E; [|discriminate]. intros H. injection H as <- <-.
    destruct (proj1 (skip_block_frame _ _ _ E)) as [p Hp]. destruct s as [|d s']; [rewrite andb_false_r in Ec; discriminate|].
    cbn [tl] in Hp. exists (c :: d :: p). split; [discriminate|]. rewrite Hp. reflexivity. }
  destruct (c =? ch_dq).
  { destruct (c10k_head_is ch_dq s && c10k_head_is ch_dq (tl s)); [discriminate|].
    destruct (c10k_skip_string s) as [r'|] eqn:E; [|discriminate]. intros H. injection H as <- <-.
    destruct (proj1 (skip_string_frame _ _ E)) as (p & _ & Hp). exists (c :: p). split; [discriminate|]. rewrite Hp. reflexivity. }
  destruct (c =? 96).
  { destruct (c10k_skip_tick s) as [[[|a x] r']|] eqn:E; try discriminate. intros H. injection H as <- <-.
    destruct (skip_tick_frame _ _ _ E) as [Hs _]. exists (c :: (a :: x) ++ [96]). split; [discriminate|].
    rewrite Hs. cbn [app]. rewrite <- app_assoc. reflexivity. }
  destruct (c =? 64).
  { destruct s as [|d s']; [discriminate|]. destruct (c10k_id_start d || (d =? 96)); [|discriminate].
    intros H. injection H as <- <-. exists [c]. split; [discriminate|reflexivity]. }
  destruct (c10k_id_start c) eqn:Ei.
  { destruct (c10_take_while c10k_id_char (c :: s)) as [a b] eqn:E. intros H. injection H as <- <-.
    destruct (T.take_while_spec _ _ _ _ E) as (H1 & _ & _). exists a. split; [|exact H1].
    cbn [c10_take_while] in E. unfold c10k_id_char at 1 in E. rewrite Ei in E. cbn [orb] in E.
    destruct (c10_take_while c10k_id_char s). injection E as <- _. discriminate. }
  destruct (is_adigit c) eqn:Ed.
  { destruct (c10_take_while is_adigit (c :: s)) as [a b] eqn:E. intros H. injection H as <- <-.
    destruct (T.take_while_spec _ _ _ _ E) as (H1 & _ & _). exists a. split; [|exact H1].
    cbn [c10_take_while] in E. rewrite Ed in E. destruct (c10_take_while is_adigit s). injection E as <- _. discriminate. }
  intros H. injection H as <- <-. exists [c]. split; [discriminate|reflexivity].
Qed.

Lemma next_shorter s ot r : c10k_next s = Some (ot, r) -> (List.length r < List.length s)%nat.
Proof. intros H. destruct (next_suffix _ _ _ H) as (p & Hp & ->). apply T.app_len_lt, Hp. Qed.

(* ------------------------------------------------------------------ the fuel-free view *)
Definition Tk (s : str) (ts : list c10_tok) : Prop := forall f, (List.length s < f)%nat -> c10k_tokens f s = Some ts.

Lemma tk_nil : Tk [] [].
Proof. intros f Hf. destruct f; [cbn in Hf; lia|reflexivity]. Qed.

Lemma tk_step s ot r ts : c10k_next s = Some (ot, r) -> Tk r ts -> Tk s (c10k_otl ot ++ ts).
Proof.
  intros H Hr f Hf. destruct f as [|f]; [lia|]. cbn [c10k_tokens]. destruct s as [|c s]; [discriminate|].
  rewrite H, (Hr f); [reflexivity|]. pose proof (next_shorter _ _ _ H). lia.
Qed.

Lemma tokens_tk f : forall s ts, c10k_tokens f s = Some ts -> Tk s ts.
Proof.
  induction f as [|f IH]; intros s ts H; [discriminate|]. cbn [c10k_tokens] in H.
  destruct s as [|c s]; [injection H as <-; apply tk_nil|].
  destruct (c10k_next (c :: s)) as [[ot r]|] eqn:E; [|discriminate].
  destruct (c10k_tokens f r) as [ts'|] eqn:E2; [|discriminate]. injection H as <-.
  exact (tk_step _ _ _ _ E (IH _ _ E2)).
Qed.

(* what the recogniser runs *)
Lemma tk_run s ts : Tk s ts -> c10k_tokens (S (List.length s)) s = Some ts.
Proof. intros H. apply H. lia. Qed.

(* ------------------------------------------------------------------ the frame lemma *)
(* the follower cannot extend an identifier / a number, turn a final slash into a comment opener, or a final
   empty literal into a triple quote *)
Definition sepc (c : char) : bool := negb (c10k_id_char c) && negb (c =? 42) && negb (c =? 47) && negb (c =? ch_dq).
Definition sepb (b : str) : bool := match b with [] => true | c :: _ => sepc c end.
(* a character that ends a token whatever follows *)
Definition closedc (c : char) : bool := negb (c10k_id_char c) && negb (c =? 47) && negb (c =? ch_dq).
Definition glue (a b : str) : bool := sepb b || closedc (last a 32).

Lemma digit_id_char c : is_adigit c = true -> c10k_id_char c = true.
Proof. unfold c10k_id_char. intros ->. apply orb_true_r. Qed.

Lemma head_is_app x s b : s <> [] -> c10k_head_is x (s ++ b) = c10k_head_is x s.
Proof. destruct s; [congruence|reflexivity]. Qed.

Lemma next_frame a b ot r : c10k_next a = Some (ot, r) -> glue a b = true -> c10k_next (a ++ b) = Some (ot, r ++ b).
Proof.
  destruct a as [|c s]; [discriminate|]. intros H G. cbn [c10k_next app] in *.
  destruct (c10k_space c); [injection H as <- <-; reflexivity|].
  assert (Ec : forall x, x = 47 \/ x = 42 -> ((c =? 47) && c10k_head_is x (s ++ b)) = ((c =? 47) && c10k_head_is x s)).
  { intros x Hx. destruct s as [|d s']; [|reflexivity]. cbn [app c10k_head_is]. rewrite andb_false_r.
    unfold glue in G. cbn [last] in G. destruct b as [|d b]; [apply andb_false_r|]. cbn [c10k_head_is].
    unfold sepb, sepc, closedc in G. destruct (c =? 47); [|reflexivity]. cbn [negb andb] in G. rewrite andb_false_r, orb_false_r in G.
    destruct Hx as [-> | ->]; lia. }
  rewrite (Ec 47 (or_introl eq_refl)), (Ec 42 (or_intror eq_refl)).
  destruct ((c =? 47) && c10k_head_is 47 s).
  { destruct (c10k_skip_line s) as [r'|] eqn:E; [|discriminate]. injection H as <- <-.
    rewrite (proj2 (skip_line_frame _ _ E) b). reflexivity. }
  destruct ((c =? 47) && c10k_head_is 42 s) eqn:Ec2.
  { destruct s as [|d s']; [rewrite andb_false_r in Ec2; discriminate|]. cbn [tl app] in *.
    destruct (c10k_skip_block 0 s') as [r'|] eqn:E; [|discriminate]. injection H as <- <-.
    rewrite (proj2 (skip_block_frame _ _ _ E) b). reflexivity. }
  destruct (c =? ch_dq) eqn:Eq.
  { destruct (c10k_head_is ch_dq s && c10k_head_is ch_dq (tl s)) eqn:Et; [discriminate|].
    destruct (c10k_skip_string s) as [r'|] eqn:E; [|discriminate]. injection H as <- <-.
    assert (Et2 : c10k_head_is ch_dq (s ++ b) && c10k_head_is ch_dq (tl (s ++ b)) = false).
    { destruct s as [|d [|d2 s']]; [discriminate| |exact Et]. cbn [app tl c10k_head_is]. cbn [c10k_head_is tl] in Et.
      destruct (d =? ch_dq) eqn:Ed; [|reflexivity]. cbn [andb]. destruct b as [|e b]; [reflexivity|]. cbn [c10k_head_is].
      unfold glue in G. cbn [last] in G. unfold sepb, sepc, closedc in G. rewrite Ed in G. cbn [negb] in G.
      rewrite andb_false_r, orb_false_r in G. lia. }
    rewrite Et2, (proj2 (skip_string_frame _ _ E) b). reflexivity. }
  destruct (c =? 96).
  { destruct (c10k_skip_tick s) as [[[|a x] r']|] eqn:E; try discriminate. injection H as <- <-.
    rewrite (proj2 (skip_tick_frame _ _ _ E) b). reflexivity. }
  destruct (c =? 64).
  { destruct s as [|d s']; [discriminate|]. cbn [app]. destruct (c10k_id_start d || (d =? 96)); [|discriminate].
    injection H as <- <-. reflexivity. }
  assert (Gen : forall p, (forall x, p x = true -> c10k_id_char x = true) -> p c = true ->
                forall x y, c10_take_while p (c :: s) = (x, y) -> c10_take_while p (c :: s ++ b) = (x, y ++ b)).
  { intros p Hp Hc x y E. destruct (T.take_while_spec _ _ _ _ E) as (H1 & H2 & H3).
    change (c :: s ++ b) with ((c :: s) ++ b). rewrite H1, <- app_assoc. apply T.take_while_app; [exact H2|].
    destruct y as [|d y]; [|exact H3]. cbn [app]. destruct b as [|d b]; [exact I|].
    rewrite app_nil_r in H1. unfold glue in G. apply orb_true_iff in G as [G | G].
    - unfold sepb, sepc in G. rewrite !andb_true_iff in G. destruct G as [[[G _] _] _]. apply negb_true_iff in G.
      destruct (p d) eqn:Epd; [|reflexivity]. rewrite (Hp d Epd) in G. discriminate.
    - exfalso. unfold closedc in G. rewrite !andb_true_iff in G. destruct G as [[G _] _]. apply negb_true_iff in G.
      rewrite H1 in G. rewrite (Hp _ (T.forallb_last p x 32 ltac:(rewrite <- H1; discriminate) H2)) in G. discriminate. }
  destruct (c10k_id_start c) eqn:Ei.
  { destruct (c10_take_while c10k_id_char (c :: s)) as [x y] eqn:E. injection H as <- <-.
    rewrite (Gen c10k_id_char (fun x H => H) ltac:(unfold c10k_id_char; rewrite Ei; reflexivity) x y E). reflexivity. }
  destruct (is_adigit c) eqn:Ed.
  { destruct (c10_take_while is_adigit (c :: s)) as [x y] eqn:E. injection H as <- <-.
    rewrite (Gen is_adigit digit_id_char Ed x y E). reflexivity. }
  injection H as <- <-. reflexivity.
Qed.

Lemma tk_frame f : forall a ta, c10k_tokens f a = Some ta ->
  forall b tb, a = [] \/ glue a b = true -> Tk b tb -> Tk (a ++ b) (ta ++ tb).
Proof.
  induction f as [|f IH]; intros a ta H b tb G Hb; [discriminate|]. cbn [c10k_tokens] in H.
  destruct a as [|c s]; [injection H as <-; exact Hb|]. destruct G as [G|G]; [discriminate|].
  destruct (c10k_next (c :: s)) as [[ot r]|] eqn:E; [|discriminate].
  destruct (c10k_tokens f r) as [ts'|] eqn:E2; [|discriminate]. injection H as <-.
  rewrite <- app_assoc. apply (tk_step _ ot (r ++ b)); [exact (next_frame _ _ _ _ E G)|].
  apply IH; [exact E2| |exact Hb]. destruct r as [|d r]; [left; reflexivity|right].
  destruct (next_suffix _ _ _ E) as (p & _ & Hp). unfold glue in *. rewrite Hp in G.
  rewrite T.last_app_ne in G by discriminate. exact G.
Qed.

(* ------------------------------------------------------------------ fragments *)
(* open: the follower must start with a separating character (or be empty); closed: any follower *)
Definition Frag (a : str) (ta : list c10_tok) : Prop := forall b tb, sepb b = true -> Tk b tb -> Tk (a ++ b) (ta ++ tb).
Definition CFrag (a : str) (ta : list c10_tok) : Prop := forall b tb, Tk b tb -> Tk (a ++ b) (ta ++ tb).
(* the text starts with a separating character *)
Definition ssep (b : str) : bool := match b with c :: _ => sepc c | [] => false end.

Lemma ssep_app b c : ssep b = true -> sepb (b ++ c) = true.
Proof. destruct b; [discriminate|]. intros H. exact H. Qed.

Lemma frag_of_tk a ta : Tk a ta -> Frag a ta.
Proof.
  intros H b tb Hs Hb. apply (tk_frame _ _ _ (tk_run _ _ H)); [|exact Hb]. right. unfold glue. rewrite Hs. reflexivity.
Qed.
Lemma frag_compute a ta : c10k_tokens (S (List.length a)) a = Some ta -> Frag a ta.
Proof. intros H. apply frag_of_tk. exact (tokens_tk _ _ _ H). Qed.
Lemma cfrag_compute a ta : c10k_tokens (S (List.length a)) a = Some ta -> closedc (last a 32) = true -> CFrag a ta.
Proof. intros H Hc b tb Hb. apply (tk_frame _ _ _ H); [|exact Hb]. right. unfold glue. rewrite Hc. apply orb_true_r. Qed.

Lemma cfrag_frag a ta : CFrag a ta -> Frag a ta.
Proof. intros H b tb _ Hb. exact (H b tb Hb). Qed.
Lemma cfrag_nil : CFrag [] [].
Proof. intros b tb Hb. exact Hb. Qed.
Lemma cfrag_app a ta b tb : CFrag a ta -> CFrag b tb -> CFrag (a ++ b) (ta ++ tb).
Proof. intros Ha Hb c tc Hc. rewrite <- !app_assoc. apply Ha, Hb, Hc. Qed.
Lemma frag_cfrag_app a ta b tb : Frag a ta -> CFrag b tb -> ssep b = true -> CFrag (a ++ b) (ta ++ tb).
Proof. intros Ha Hb Hs c tc Hc. rewrite <- !app_assoc. apply Ha; [apply ssep_app, Hs|]. apply Hb, Hc. Qed.
Lemma cfrag_frag_app a ta b tb : CFrag a ta -> Frag b tb -> Frag (a ++ b) (ta ++ tb).
Proof. intros Ha Hb c tc Hs Hc. rewrite <- !app_assoc. apply Ha, Hb; [exact Hs|exact Hc]. Qed.
Lemma frag_frag_app a ta b tb : Frag a ta -> Frag b tb -> ssep b = true -> Frag (a ++ b) (ta ++ tb).
Proof. intros Ha Hb Hs c tc Hsc Hc. rewrite <- !app_assoc. apply Ha; [apply ssep_app, Hs|]. apply Hb; [exact Hsc|exact Hc]. Qed.

(* a closed fragment is a complete text *)
Lemma cfrag_tk a ta : CFrag a ta -> Tk a ta.
Proof. intros H. pose proof (H [] [] tk_nil) as G. rewrite !app_nil_r in G. exact G. Qed.

Lemma cfrag_if (c : bool) a ta : CFrag a ta -> CFrag (if c then a else []) (if c then ta else []).
Proof. destruct c; [auto|intros _; apply cfrag_nil]. Qed.

(* ------------------------------------------------------------------ holes *)
(* Kotlin-identifier-shaped *)
Definition c10k_ident_ok (s : str) : bool :=
  match s with [] => false | c :: r => c10k_id_start c && forallb c10k_id_char r end.

Lemma frag_ident n : c10k_ident_ok n = true -> Frag n [KIdent n].
Proof.
  intros H. apply frag_of_tk. destruct n as [|c r]; [discriminate|]. cbn [c10k_ident_ok] in H. apply andb_true_iff in H as [Hc Hr].
  apply (tk_step (c :: r) (Some (KIdent (c :: r))) [] []); [|apply tk_nil].
  assert (Hsp : c10k_space c = false).
  { unfold c10k_space, c10k_id_start, is_aalpha, is_alower, is_aupper, ch_us in *. lia. }
  assert (Hq : (c =? ch_dq) = false).
  { unfold c10k_id_start, is_aalpha, is_alower, is_aupper, ch_us, ch_dq in *. lia. }
  assert (H47 : (c =? 47) = false).
  { unfold c10k_id_start, is_aalpha, is_alower, is_aupper, ch_us in *. lia. }
  assert (H96 : (c =? 96) = false).
  { unfold c10k_id_start, is_aalpha, is_alower, is_aupper, ch_us in *. lia. }
  assert (H64 : (c =? 64) = false).
  { unfold c10k_id_start, is_aalpha, is_alower, is_aupper, ch_us in *. lia. }
  cbn [c10k_next]. rewrite Hsp, H47, Hq, H96, H64, Hc. cbn [andb].
  assert (E : c10_take_while c10k_id_char (c :: r) = (c :: r, [])).
  { rewrite <- (app_nil_r (c :: r)) at 1. apply T.take_while_app; [|exact I].
    cbn [forallb]. rewrite Hr. unfold c10k_id_char. rewrite Hc. reflexivity. }
  rewrite E. reflexivity.
Qed.

(* a double-quoted literal whose body is not empty and needs no escape *)
Lemma skip_string_plain body b : forallb T.c10_plain_char body = true -> c10k_skip_string (body ++ ch_dq :: b) = Some b.
Proof.
  induction body as [|c r IH]; intros H; cbn [app c10k_skip_string].
  - rewrite N.eqb_refl. reflexivity.
  - cbn [forallb] in H. apply andb_true_iff in H as [Hc Hr]. unfold T.c10_plain_char in Hc.
    apply negb_true_iff in Hc. rewrite !orb_false_iff in Hc. destruct Hc as [[[H1 H2] H3] H4].
    rewrite H1, H2, H3, H4. cbn [orb]. exact (IH Hr).
Qed.

Lemma cfrag_quoted body : body <> [] -> forallb T.c10_plain_char body = true -> CFrag (ch_dq :: body ++ [ch_dq]) [KStr].
Proof.
  intros Hne H b tb Hb. change ([KStr] ++ tb) with (c10k_otl (Some KStr) ++ tb). apply (tk_step _ (Some KStr) b); [|exact Hb].
  change ((ch_dq :: body ++ [ch_dq]) ++ b) with (ch_dq :: (body ++ [ch_dq]) ++ b). rewrite <- app_assoc.
  cbn [c10k_next app]. change (c10k_space ch_dq) with false. cbv beta iota.
  change ((ch_dq =? 47) && _) with false. cbv beta iota. change ((ch_dq =? 47) && _) with false. cbv beta iota.
  change (ch_dq =? ch_dq) with true. cbv beta iota.
  destruct body as [|c r]; [congruence|]. pose proof H as H0. cbn [forallb] in H. apply andb_true_iff in H as [Hc _].
  assert (Hcq : (c =? ch_dq) = false).
  { unfold T.c10_plain_char in Hc. apply negb_true_iff in Hc. rewrite !orb_false_iff in Hc. tauto. }
  cbn [app c10k_head_is]. rewrite Hcq. cbn [andb].
  change (c :: r ++ ch_dq :: b) with ((c :: r) ++ ch_dq :: b). rewrite (skip_string_plain (c :: r) b H0). reflexivity.
Qed.

(* line comments: [//] text without a line end, then the line end *)
Definition noeol (s : str) : bool := forallb (fun c => negb ((c =? ch_nl) || (c =? ch_cr))) s.

Lemma skip_line_pass x rest : noeol x = true -> c10k_skip_line (x ++ ch_nl :: rest) = Some rest.
Proof.
  induction x as [|c r IH]; intros H; cbn [app c10k_skip_line].
  - reflexivity.
  - cbn [noeol forallb] in H. apply andb_true_iff in H as [Hc Hr]. apply negb_true_iff in Hc. rewrite Hc. exact (IH Hr).
Qed.

Lemma cfrag_line_comment body : noeol body = true -> CFrag (47 :: 47 :: body ++ [ch_nl]) [].
Proof.
  intros H b tb Hb. change ([] ++ tb) with (c10k_otl None ++ tb). apply (tk_step _ None b); [|exact Hb].
  change ((47 :: 47 :: body ++ [ch_nl]) ++ b) with (47 :: 47 :: (body ++ [ch_nl]) ++ b). rewrite <- app_assoc.
  cbn [c10k_next c10k_head_is]. change (c10k_space 47) with false. cbv beta iota. change ((47 =? 47) && (47 =? 47)) with true. cbv beta iota.
  change (47 :: body ++ [ch_nl] ++ b) with ((47 :: body) ++ ch_nl :: b). rewrite skip_line_pass; [reflexivity|].
  cbn [noeol forallb]. exact H.
Qed.

(* block comments: a piece of comment text the scanner walks through at any depth, whatever follows *)
Definition PassAny (x : str) : Prop := forall d rest, c10k_skip_block d (x ++ rest) = c10k_skip_block d rest.

Lemma pass_nil : PassAny [].
Proof. intros d rest. reflexivity. Qed.
Lemma pass_app x y : PassAny x -> PassAny y -> PassAny (x ++ y).
Proof. intros Hx Hy d rest. rewrite <- app_assoc, Hx, Hy. reflexivity. Qed.

(* every star or slash is followed, inside the piece, by a character that is neither *)
Fixpoint pass_ok (x : str) : bool :=
  match x with
  | [] => true
  | c :: r => if (c =? 42) || (c =? 47)
              then match r with d :: _ => negb ((d =? 42) || (d =? 47)) && pass_ok r | [] => false end
              else pass_ok r
  end.

Lemma skip_block_nil d : c10k_skip_block d [] = None.
Proof. reflexivity. Qed.

Lemma pass_ok_pass x : pass_ok x = true -> PassAny x.
Proof.
  induction x as [|c r IH]; intros H; [apply pass_nil|]. intros d rest. cbn [pass_ok] in H.
  destruct ((c =? 42) || (c =? 47)) eqn:E.
  - destruct r as [|e r2]; [discriminate|]. apply andb_true_iff in H as [He Hr]. apply negb_true_iff in He.
    change ((c :: e :: r2) ++ rest) with (c :: e :: r2 ++ rest). cbn [c10k_skip_block].
    replace ((c =? 42) && (e =? 47)) with false by lia. replace ((c =? 47) && (e =? 42)) with false by lia.
    exact (IH Hr d rest).
  - cbn [app c10k_skip_block]. destruct (r ++ rest) as [|e r'] eqn:Er.
    + destruct r; [|discriminate]. cbn [app] in Er. subst rest. reflexivity.
    + replace ((c =? 42) && (e =? 47)) with false by lia. replace ((c =? 47) && (e =? 42)) with false by lia.
      rewrite <- Er. exact (IH H d rest).
Qed.

Lemma plain_pass_ok x : forallb (fun c => negb ((c =? 42) || (c =? 47))) x = true -> pass_ok x = true.
Proof.
  induction x as [|c r IH]; intros H; [reflexivity|]. cbn [forallb] in H. apply andb_true_iff in H as [Hc Hr].
  apply negb_true_iff in Hc. cbn [pass_ok]. rewrite Hc. exact (IH Hr).
Qed.

(* [/*] body [*/]: no token *)
Lemma cfrag_block_comment body : PassAny body -> CFrag (47 :: 42 :: body ++ [42; 47]) [].
Proof.
  intros H b tb Hb. change ([] ++ tb) with (c10k_otl None ++ tb). apply (tk_step _ None b); [|exact Hb].
  change ((47 :: 42 :: body ++ [42; 47]) ++ b) with (47 :: 42 :: (body ++ [42; 47]) ++ b). rewrite <- app_assoc.
  cbn [c10k_next c10k_head_is tl]. change (c10k_space 47) with false. cbv beta iota.
  change ((47 =? 47) && (42 =? 47)) with false. cbv beta iota. change ((47 =? 47) && (42 =? 42)) with true. cbv beta iota.
  rewrite H. reflexivity.
Qed.

(* blanks *)
Lemma cfrag_blank x : forallb c10k_space x = true -> CFrag x [].
Proof.
  induction x as [|c r IH]; intros H; [apply cfrag_nil|]. cbn [forallb] in H. apply andb_true_iff in H as [Hc Hr].
  intros b tb Hb. change ([] ++ tb) with (c10k_otl None ++ tb). apply (tk_step _ None (r ++ b)); [|exact (IH Hr b tb Hb)].
  cbn [app c10k_next]. rewrite Hc. reflexivity.
Qed.

(* the frame lemma in terms of the function the recogniser runs *)
Theorem tokens_frame a ta b tb :
  c10k_tokens (S (List.length a)) a = Some ta -> c10k_tokens (S (List.length b)) b = Some tb -> glue a b = true ->
  c10k_tokens (S (List.length (a ++ b))) (a ++ b) = Some (ta ++ tb).
Proof. intros Ha Hb G. apply tk_run. apply (tk_frame _ _ _ Ha); [right; exact G|exact (tokens_tk _ _ _ Hb)]. Qed.
