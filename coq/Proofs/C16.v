(* C16: typeshare's rename_all implementation agrees with serde_derive's case.rs on conventional
   identifiers of unbounded length; witnesses for the classes on which it does not. *)
From Coq Require Import String Lia ZifyBool ZifyN.
From TS Require Import Model.Str Model.Outcome Model.Unicode Model.Rename Spec.SerdeCase Spec.C16Spec.

Local Open Scope N_scope.

(* ---------- character facts ---------- *)
Lemma snake_char_ascii c : snake_char c = true -> c < 128.
Proof. unfold snake_char, is_alower, is_adigit, ch_us. lia. Qed.
Lemma snake_char_not_upper c : snake_char c = true -> is_aupper c = false.
Proof. unfold snake_char, is_alower, is_adigit, is_aupper, ch_us. lia. Qed.
Lemma snake_char_alower c : snake_char c = true -> alower c = c.
Proof. intros H. unfold alower. now rewrite snake_char_not_upper. Qed.
Lemma camel_char_ascii c : camel_char c = true -> c < 128.
Proof. unfold camel_char, is_aalpha, is_alower, is_aupper, is_adigit. lia. Qed.
Lemma camel_char_not_us c : camel_char c = true -> (c =? ch_us) = false.
Proof. unfold camel_char, is_aalpha, is_alower, is_aupper, is_adigit, ch_us. lia. Qed.
Lemma aupper_upper c : is_aupper c = true -> aupper c = c.
Proof. unfold aupper, is_alower, is_aupper. intros H. destruct ((97 <=? c) && (c <=? 122)) eqn:E; [lia|reflexivity]. Qed.
Lemma alower_not_upper c : is_aupper c = false -> alower c = c.
Proof. unfold alower. now intros ->. Qed.
Lemma aupper_ascii c : c < 128 -> aupper c < 128.
Proof. unfold aupper, is_alower. destruct ((97 <=? c) && (c <=? 122)); lia. Qed.
Lemma aupper_replace c :
  aupper (if c =? ch_us then ch_dash else c) = (if aupper c =? ch_us then ch_dash else aupper c).
Proof.
  unfold aupper, is_alower, ch_us, ch_dash.
  destruct (c =? 95) eqn:E1.
  - apply N.eqb_eq in E1; subst; reflexivity.
  - destruct ((97 <=? c) && (c <=? 122)) eqn:E2.
    + destruct (c - 32 =? 95) eqn:E3; [lia|reflexivity].
    + now rewrite E1.
Qed.
Lemma upper_replace_comm s :
  str_upper_ascii (replace_char ch_us ch_dash s) = replace_char ch_us ch_dash (str_upper_ascii s).
Proof.
  unfold str_upper_ascii, replace_char. rewrite !map_map. apply map_ext. intros c. apply aupper_replace.
Qed.

(* ---------- Unicode functions on ASCII strings ---------- *)
Section U.
Variable uc : unicode.
Hypothesis Huc : unicode_ok uc.

Lemma to_lowercase_ascii s : forallb is_ascii s = true -> str_to_lowercase uc s = str_lower_ascii s.
Proof.
  induction s as [|c r IH]; cbn [forallb str_to_lowercase flat_map str_lower_ascii map]; [reflexivity|].
  intros H. apply andb_true_iff in H as [Hc Hr]. unfold is_ascii in Hc.
  rewrite (ok_to_lower uc Huc) by lia. cbn [app]. f_equal. now apply IH.
Qed.
Lemma to_uppercase_ascii s : forallb is_ascii s = true -> str_to_uppercase uc s = str_upper_ascii s.
Proof.
  induction s as [|c r IH]; cbn [forallb str_to_uppercase flat_map str_upper_ascii map]; [reflexivity|].
  intros H. apply andb_true_iff in H as [Hc Hr]. unfold is_ascii in Hc.
  rewrite (ok_to_upper uc Huc) by lia. cbn [app]. f_equal. now apply IH.
Qed.

Lemma forallb_impl {A} (p q : A -> bool) l :
  (forall x, p x = true -> q x = true) -> forallb p l = true -> forallb q l = true.
Proof. intros H. induction l as [|x r IH]; cbn [forallb]; [reflexivity|].
  intros E. apply andb_true_iff in E as [E1 E2]. now rewrite (H _ E1), IH. Qed.

Lemma snake_is_ascii s : forallb snake_char s = true -> forallb is_ascii s = true.
Proof. apply forallb_impl. intros c H. apply snake_char_ascii in H. unfold is_ascii. lia. Qed.
Lemma camel_is_ascii s : forallb camel_char s = true -> forallb is_ascii s = true.
Proof. apply forallb_impl. intros c H. apply camel_char_ascii in H. unfold is_ascii. lia. Qed.

Lemma lower_snake_id s : forallb snake_char s = true -> str_lower_ascii s = s.
Proof.
  induction s as [|c r IH]; cbn [forallb str_lower_ascii map]; [reflexivity|].
  intros H. apply andb_true_iff in H as [Hc Hr]. rewrite snake_char_alower by assumption.
  f_equal. now apply IH.
Qed.

(* ---------- field position ---------- *)
Lemma pascal_go_field tolow cap s : forallb snake_char s = true ->
  pascal_go tolow cap s = sd_pascal_go cap s.
Proof.
  revert cap; induction s as [|c r IH]; intros cap H; cbn [pascal_go sd_pascal_go]; [reflexivity|].
  cbn [forallb] in H. apply andb_true_iff in H as [Hc Hr].
  destruct (c =? ch_us); [now apply IH|].
  destruct cap; [now rewrite IH|].
  rewrite IH by assumption. destruct tolow; [now rewrite snake_char_alower|reflexivity].
Qed.

Lemma snake_go_field allup first s : forallb snake_char s = true -> snake_go uc allup first s = s.
Proof.
  revert first; induction s as [|c r IH]; intros first H; cbn [snake_go]; [reflexivity|].
  cbn [forallb] in H. apply andb_true_iff in H as [Hc Hr].
  rewrite (ok_upper uc Huc) by now apply snake_char_ascii.
  rewrite snake_char_not_upper by assumption. rewrite andb_false_r. cbn [andb app].
  rewrite snake_char_alower by assumption. f_equal. now apply IH.
Qed.

(* first character of serde's PascalCase of a snake string is ASCII *)
Lemma sd_pascal_head_ascii cap s c r : forallb snake_char s = true ->
  sd_pascal_go cap s = c :: r -> c < 128.
Proof.
  revert cap; induction s as [|x s IH]; intros cap H E; cbn [sd_pascal_go] in E; [discriminate|].
  cbn [forallb] in H. apply andb_true_iff in H as [Hx Hs].
  destruct (x =? ch_us); [eapply IH; eassumption|].
  apply snake_char_ascii in Hx.
  destruct cap; injection E as <- _; [now apply aupper_ascii|assumption].
Qed.

(* serde's own camelCase fails (None: its byte slice panics inside the derive macro) only when the PascalCase
   form is empty; typeshare then returns the empty name (before the /repo fix of to_camel_case it panicked too) *)
Definition as_outcome (o : option str) : outcome str :=
  match o with Some x => Ok x | None => Ok [] end.

Lemma camel_field s : forallb snake_char s = true ->
  to_camel_case s = as_outcome (lower_first (sd_pascal_go true s)).
Proof.
  intros H. unfold to_camel_case, to_pascal_case. rewrite pascal_go_field by assumption.
  destruct (sd_pascal_go true s) as [|c r] eqn:E; cbn [lower_first as_outcome]; [reflexivity|].
  pose proof (sd_pascal_head_ascii _ _ _ _ H E) as Hc.
  apply N.ltb_lt in Hc. rewrite Hc. reflexivity.
Qed.

Lemma rule_from_str_cases rs r : rule_from_str rs = Some r ->
  match r with
  | LowerCase => rs = lit "lowercase" | UpperCase => rs = lit "UPPERCASE"
  | PascalCase => rs = lit "PascalCase" | CamelCase => rs = lit "camelCase"
  | SnakeCase => rs = lit "snake_case" | ScreamingSnakeCase => rs = lit "SCREAMING_SNAKE_CASE"
  | KebabCase => rs = lit "kebab-case" | ScreamingKebabCase => rs = lit "SCREAMING-KEBAB-CASE"
  end.
Proof.
  unfold rule_from_str, rule_names. cbn [rule_from_str_in].
  repeat match goal with
  | |- (if str_eqb rs ?n then _ else _) = _ -> _ =>
      let E := fresh "E" in destruct (str_eqb rs n) eqn:E;
      [apply str_eqb_eq in E; intros [= <-]; exact E | clear E]
  end.
  discriminate.
Qed.

Theorem field_agree rs r s : rule_from_str rs = Some r -> forallb snake_char s = true ->
  rename_all_to_case uc s (Some rs) = as_outcome (apply_to_field r s).
Proof.
  intros Hr Hs. apply rule_from_str_cases in Hr.
  pose proof (snake_is_ascii s Hs) as Ha.
  destruct r; subst rs; unfold rename_all_to_case;
    match goal with |- context [str_eqb (lit ?a) _] => idtac end;
    repeat match goal with
    | |- context [str_eqb (lit ?a) (lit ?b)] =>
        let v := eval vm_compute in (str_eqb (lit a) (lit b)) in
        change (str_eqb (lit a) (lit b)) with v; cbv iota
    end; cbn [apply_to_field as_outcome].
  - rewrite to_lowercase_ascii by assumption. now rewrite lower_snake_id.
  - now rewrite to_uppercase_ascii.
  - unfold to_pascal_case. now rewrite pascal_go_field.
  - now apply camel_field.
  - unfold to_snake_case. now rewrite snake_go_field.
  - unfold to_screaming_snake_case, to_snake_case. now rewrite snake_go_field.
  - unfold to_kebab_case, to_snake_case. now rewrite snake_go_field.
  - unfold to_screaming_kebab_case, to_kebab_case, to_snake_case. rewrite snake_go_field by assumption.
    now rewrite upper_replace_comm.
Qed.

(* on conventional field identifiers serde never fails, so typeshare returns Ok of serde's name *)
Lemma sd_pascal_nonempty cap s : existsb (fun c => negb (c =? ch_us)) s = true ->
  sd_pascal_go cap s <> [].
Proof.
  revert cap; induction s as [|c r IH]; intros cap H; cbn [existsb sd_pascal_go] in *; [discriminate|].
  destruct (c =? ch_us); cbn [negb orb] in H; [now apply IH|]. destruct cap; discriminate.
Qed.

Lemma field_serde_defined r s : conv_field s = true -> exists x, apply_to_field r s = Some x.
Proof.
  unfold conv_field. intros H. apply andb_true_iff in H as [Hs Hn].
  destruct r; cbn [apply_to_field]; eauto.
  destruct (sd_pascal_go true s) as [|c t] eqn:E; [now apply sd_pascal_nonempty in E|].
  pose proof (sd_pascal_head_ascii _ _ _ _ Hs E) as Hc. apply N.ltb_lt in Hc.
  cbn [lower_first]. rewrite Hc. eauto.
Qed.

(* ---------- variant position ---------- *)
Lemma pascal_go_variant tolow r : forallb camel_char r = true ->
  (tolow = false \/ existsb is_aupper r = false) -> pascal_go tolow false r = r.
Proof.
  induction r as [|c r IH]; intros H Hu; cbn [pascal_go]; [reflexivity|].
  cbn [forallb] in H. apply andb_true_iff in H as [Hc Hr].
  rewrite camel_char_not_us by assumption.
  assert (Hu' : tolow = false \/ existsb is_aupper r = false).
  { destruct Hu as [Hu|Hu]; [now left|right]. cbn [existsb] in Hu. now apply orb_false_iff in Hu. }
  rewrite IH by assumption. f_equal.
  destruct tolow; [|reflexivity].
  destruct Hu as [Hu|Hu]; [discriminate|]. cbn [existsb] in Hu. apply orb_false_iff in Hu as [Hu _].
  now apply alower_not_upper.
Qed.

Lemma snake_go_variant allup r : forallb camel_char r = true ->
  (allup = false \/ existsb is_aupper r = false) -> snake_go uc allup false r = sd_snake_go uc false r.
Proof.
  induction r as [|c r IH]; intros H Hu; cbn [snake_go sd_snake_go]; [reflexivity|].
  cbn [forallb] in H. apply andb_true_iff in H as [Hc Hr].
  assert (Hu' : allup = false \/ existsb is_aupper r = false).
  { destruct Hu as [Hu|Hu]; [now left|right]. cbn [existsb] in Hu. now apply orb_false_iff in Hu. }
  rewrite IH by assumption. f_equal.
  destruct allup; cbn [negb andb]; [|now rewrite andb_true_r].
  destruct Hu as [Hu|Hu]; [discriminate|]. cbn [existsb] in Hu. apply orb_false_iff in Hu as [Hu _].
  rewrite (ok_upper uc Huc) by now apply camel_char_ascii. rewrite Hu. reflexivity.
Qed.

Lemma allcaps_split s : allcaps s = false ->
  all_upper s = false \/ existsb is_aupper (tl s) = false.
Proof. unfold allcaps, all_upper. intros H. apply andb_false_iff in H. exact H. Qed.

Lemma pascal_variant c r : is_aupper c = true -> forallb camel_char r = true ->
  allcaps (c :: r) = false -> to_pascal_case (c :: r) = c :: r.
Proof.
  intros Hc Hr Ha. unfold to_pascal_case. cbn [pascal_go].
  assert (c =? ch_us = false) as -> by (unfold is_aupper, ch_us in *; lia).
  rewrite aupper_upper by assumption. f_equal.
  apply pascal_go_variant; [assumption|]. now apply allcaps_split in Ha.
Qed.

Lemma snake_variant c r : is_aupper c = true -> forallb camel_char r = true ->
  allcaps (c :: r) = false -> to_snake_case uc (c :: r) = sd_snake_go uc true (c :: r).
Proof.
  intros Hc Hr Ha. unfold to_snake_case. cbn [snake_go sd_snake_go negb andb app].
  f_equal. apply snake_go_variant; [assumption|]. now apply allcaps_split in Ha.
Qed.

Theorem variant_agree rs r s : rule_from_str rs = Some r -> conv_variant s = true -> allcaps s = false ->
  rename_all_to_case uc s (Some rs) = as_outcome (apply_to_variant uc r s).
Proof.
  intros Hr Hs Hcaps. apply rule_from_str_cases in Hr.
  destruct s as [|c t]; [discriminate|]. cbn [conv_variant] in Hs.
  apply andb_true_iff in Hs as [Hc Ht].
  assert (Ha : forallb is_ascii (c :: t) = true).
  { cbn [forallb]. rewrite (camel_is_ascii t Ht), andb_true_r. unfold is_ascii, is_aupper in *. lia. }
  destruct r; subst rs; unfold rename_all_to_case;
    repeat match goal with
    | |- context [str_eqb (lit ?a) (lit ?b)] =>
        let v := eval vm_compute in (str_eqb (lit a) (lit b)) in
        change (str_eqb (lit a) (lit b)) with v; cbv iota
    end; cbn [apply_to_variant as_outcome].
  - now rewrite to_lowercase_ascii.
  - now rewrite to_uppercase_ascii.
  - now rewrite pascal_variant.
  - unfold to_camel_case. rewrite pascal_variant by assumption. cbn [lower_first].
    assert (c <? 128 = true) as -> by (unfold is_aupper in Hc; lia). reflexivity.
  - now rewrite snake_variant.
  - unfold to_screaming_snake_case. now rewrite snake_variant.
  - unfold to_kebab_case. now rewrite snake_variant.
  - unfold to_screaming_kebab_case, to_kebab_case. rewrite snake_variant by assumption.
    now rewrite upper_replace_comm.
Qed.

Lemma variant_serde_defined r s : conv_variant s = true -> exists x, apply_to_variant uc r s = Some x.
Proof.
  destruct s as [|c t]; [discriminate|]. cbn [conv_variant]. intros H. apply andb_true_iff in H as [Hc _].
  destruct r; cbn [apply_to_variant lower_first]; eauto.
  assert (c <? 128 = true) as -> by (unfold is_aupper in Hc; lia). eauto.
Qed.

(* ---------- unknown rule / no rule ---------- *)
Theorem unknown_rule rs s : rule_from_str rs = None -> rename_all_to_case uc s (Some rs) = Ok s.
Proof.
  unfold rule_from_str, rule_names, rename_all_to_case. cbn [rule_from_str_in].
  repeat match goal with
  | |- (if str_eqb rs ?n then _ else _) = _ -> _ =>
      destruct (str_eqb rs n); [discriminate|]
  end.
  reflexivity.
Qed.

(* ---------- the property, in the check's dom/known/good form ---------- *)
Theorem C16_main p rule_str s : known_C16 p s = None ->
  good_C16 uc p rule_str s (rename_all_to_case uc s rule_str) = true.
Proof.
  intros Hk. unfold good_C16, serde_name.
  destruct rule_str as [rs|]; [|destruct p; cbn; apply str_eqb_refl].
  destruct p; unfold known_C16 in Hk.
  - destruct (conv_field s) eqn:Hc.
    2:{ unfold cls in Hk. destruct (negb (forallb is_ascii s)); [discriminate|].
        destruct (existsb is_aupper s); discriminate. }
    unfold serde_field_name. destruct (rule_from_str rs) as [r|] eqn:Hr.
    + destruct (field_serde_defined r s Hc) as [x Hx]. rewrite Hx.
      unfold conv_field in Hc. apply andb_true_iff in Hc as [Hs _].
      rewrite (field_agree rs r s Hr Hs), Hx. cbn. apply str_eqb_refl.
    + rewrite unknown_rule by assumption. apply str_eqb_refl.
  - destruct (conv_variant s) eqn:Hc.
    2:{ unfold cls in Hk. destruct (negb (forallb is_ascii s)); [discriminate|].
        destruct (contains_char ch_us s); [discriminate|].
        destruct (match s with c :: _ => is_alower c | [] => false end); discriminate. }
    destruct (allcaps s) eqn:Ha; [discriminate|].
    unfold serde_variant_name. destruct (rule_from_str rs) as [r|] eqn:Hr.
    + destruct (variant_serde_defined r s Hc) as [x Hx]. rewrite Hx.
      rewrite (variant_agree rs r s Hr Hc Ha), Hx. cbn. apply str_eqb_refl.
    + rewrite unknown_rule by assumption. apply str_eqb_refl.
Qed.
End U.

(* ---------- non-vacuity and refutation witnesses (executable table) ---------- *)
Example C16_nonvacuous :
  known_C16 PField (lit "address_line1") = None /\ known_C16 PVariant (lit "AddressLine1") = None /\
  rename_all_to_case uc_exec (lit "address_line1") (Some (lit "camelCase")) = Ok (lit "addressLine1") /\
  rename_all_to_case uc_exec (lit "AddressLine1") (Some (lit "SCREAMING-KEBAB-CASE")) = Ok (lit "ADDRESS-LINE1").
Proof. vm_compute. repeat split. Qed.

Definition refuted (p:position) (rs s : str) : Prop :=
  known_C16 p s <> None /\ good_C16 uc_exec p (Some rs) s (rename_all_to_case uc_exec s (Some rs)) = false.

Lemma C16_field_has_upper_refuted : refuted PField (lit "snake_case") (lit "fooBar").
Proof. split; [vm_compute; discriminate | vm_compute; reflexivity]. Qed.
Lemma C16_variant_allcaps_refuted : refuted PVariant (lit "snake_case") (lit "URL").
Proof. split; [vm_compute; discriminate | vm_compute; reflexivity]. Qed.
Lemma C16_variant_has_underscore_refuted : refuted PVariant (lit "PascalCase") (lit "Foo_Bar").
Proof. split; [vm_compute; discriminate | vm_compute; reflexivity]. Qed.
Lemma C16_variant_nonascii_refuted : refuted PVariant (lit "lowercase") [201; 97].
Proof. split; [vm_compute; discriminate | vm_compute; reflexivity]. Qed.
Lemma C16_variant_lower_first_refuted : refuted PVariant (lit "PascalCase") (lit "aB").
Proof. split; [vm_compute; discriminate | vm_compute; reflexivity]. Qed.
Lemma C16_field_nonascii_refuted : refuted PField (lit "UPPERCASE") [233; 97].
Proof. split; [vm_compute; discriminate | vm_compute; reflexivity]. Qed.
