(* C15 for Swift WITHOUT the neutrality hypothesis: for items in the class c15_sw_item_ok (Spec/C15RenderSwift.v:
   strict identifiers, plain tag key, plain decorators and generic constraints), with a prefix that may stand
   inside a string literal, plain type_mappings targets, plain default decorators and default generic constraints,
   the code sw_write_item prints around the `/// ` fragments keeps the reference lexer in code mode:
   struct heads with their generic constraints and conformance lists, stored properties, CodingKeys with raw values
   between double quotes, init, enum cases, ContainerCodingKeys, init(from:) with its "Wrong type for .." string
   literal, encode(to:), typealias.  Structure as Proofs/C15_Kotlin.v: layout lemmas over the declarations
   (sw_decl_ok), then the decisions (IR item in the class -> declarations that are sw_decl_ok). *)
From Coq Require Import List NArith Bool Lia ZifyBool ZifyN String.
From TS Require Import Model.Str Model.Outcome Model.Unicode Model.Types Model.Parse Model.Rename
                       Model.Lang.Common Model.Lang.Decl Model.Lang.Swift.
From TS Require Import Spec.Lexers Spec.C15Spec Spec.C15Render Spec.C15RenderSwift
                       Proofs.BackCommon Proofs.C15 Proofs.C15_Render Proofs.C15_Swift.
Import ListNotations.
Local Open Scope N_scope.

Notation NS := (c15_neutral C15sw).
Notation plain := (c15_plain C15sw).
Notation DS := (Decomp C15sw NS).

(* ================= the Swift reference lexer on code characters and inside "..." ================= *)
Definition sw_plain_c (c : char) : bool := negb (c =? 47) && negb (c =? 34).

Lemma sw_plain_char_iff c : c15_plain_char C15sw c = sw_plain_c c.
Proof.
  unfold c15_plain_char, lex_code, sw_plain_c. cbn [c15_cfg cfg_sw lc_slash lc_hash lc_triple lc_quotes lc_long andb].
  unfold isin, ch_slash, ch_dq. cbn [existsb].
  destruct (c =? 47), (c =? 34); reflexivity.
Qed.

Lemma sw_plain_chars s : plain s = forallb sw_plain_c s.
Proof. unfold c15_plain. induction s as [|c r IH]; [reflexivity|]. cbn [forallb]. now rewrite sw_plain_char_iff, IH. Qed.

Lemma plain_app_intro a b : plain a = true -> plain b = true -> plain (a ++ b) = true.
Proof. intros Ha Hb. now rewrite c15_plain_app, Ha, Hb. Qed.

Lemma plain_flat_map {A} (f : A -> str) xs : (forall x, In x xs -> plain (f x) = true) -> plain (flat_map f xs) = true.
Proof.
  induction xs as [|x r IH]; intros H; [reflexivity|]. cbn [flat_map].
  apply plain_app_intro; [apply H; now left|apply IH; intros y Hy; apply H; now right].
Qed.

Lemma plain_join_map {A} sep (f : A -> str) xs :
  plain sep = true -> (forall x, In x xs -> plain (f x) = true) -> plain (join sep (map f xs)) = true.
Proof.
  intros Hs H. apply c15_plain_join; [exact Hs|]. rewrite c15_forallb_map. apply forallb_forall. exact H.
Qed.

Lemma sw_raw_plain s : c15_sw_raw s = true -> plain s = true.
Proof.
  unfold c15_sw_raw, c15_plain. intros H. rewrite forallb_forall in H |- *. intros x Hx. specialize (H x Hx).
  unfold c15_sw_raw_char in H. now destruct (c15_plain_char C15sw x).
Qed.

Lemma sw_raw_app a b : c15_sw_raw (a ++ b) = c15_sw_raw a && c15_sw_raw b.
Proof. apply forallb_app. Qed.

Definition sw_in_str (S : lstate) : Prop := S = LOpen ch_dq false \/ S = LStr ch_dq false.

Lemma sw_raw_char_lex S c : sw_in_str S -> c15_sw_raw_char c = true -> lex_gen cfg_sw S c = LStr ch_dq false.
Proof.
  unfold c15_sw_raw_char. rewrite sw_plain_char_iff. unfold sw_plain_c, ch_bs, eol_lf_cr, ch_nl, ch_cr. intros HS H.
  destruct HS as [-> | ->]; cbn [lex_gen lex_quoted cfg_sw lc_eol]; unfold ch_bs, ch_dq, eol_lf_cr, ch_nl, ch_cr.
  - replace (c =? 34) with false by lia. replace (c =? 92) with false by lia.
    replace (false || ((c =? 10) || (c =? 13))) with false by lia. reflexivity.
  - replace (c =? 92) with false by lia. replace ((c =? 34) || ((c =? 10) || (c =? 13))) with false by lia. reflexivity.
Qed.

(* raw text keeps the lexer inside the literal *)
Lemma sw_raw_lex_str s : c15_sw_raw s = true -> lex_str_gen cfg_sw (LStr ch_dq false) s = LStr ch_dq false.
Proof.
  unfold c15_sw_raw. induction s as [|c r IH]; intros H; [reflexivity|].
  cbn [forallb] in H. apply andb_true_iff in H as [Hc Hr]. cbn [lex_str_gen fold_left].
  rewrite (sw_raw_char_lex _ c (or_intror eq_refl) Hc). exact (IH Hr).
Qed.
Lemma sw_raw_lex_open s : s <> [] -> c15_sw_raw s = true -> lex_str_gen cfg_sw (LOpen ch_dq false) s = LStr ch_dq false.
Proof.
  destruct s as [|c r]; [congruence|]. intros _ H. unfold c15_sw_raw in H. cbn [forallb] in H.
  apply andb_true_iff in H as [Hc Hr]. cbn [lex_str_gen fold_left].
  rewrite (sw_raw_char_lex _ c (or_introl eq_refl) Hc). exact (sw_raw_lex_str r Hr).
Qed.

(* pre opens a literal, s is written verbatim, a double quote closes it *)
Lemma sw_rawq_neutral pre s :
  lex_str_gen cfg_sw LCode pre = LOpen ch_dq false -> s <> [] -> c15_sw_raw s = true -> NS (pre ++ s ++ [ch_dq]).
Proof.
  intros Hp Hne Hs. unfold c15_neutral. change (c15_cfg C15sw) with cfg_sw.
  rewrite lex_str_app, Hp, lex_str_app, (sw_raw_lex_open s Hne Hs). reflexivity.
Qed.

(* pre ends inside a literal, s is written verbatim, post closes the literal and ends in code *)
Lemma sw_in_string_neutral pre s post :
  lex_str_gen cfg_sw LCode pre = LStr ch_dq false -> c15_sw_raw s = true ->
  lex_str_gen cfg_sw (LStr ch_dq false) post = LCode -> NS (pre ++ s ++ post).
Proof.
  intros Hp Hs Hq. unfold c15_neutral. change (c15_cfg C15sw) with cfg_sw.
  now rewrite lex_str_app, Hp, lex_str_app, (sw_raw_lex_str s Hs).
Qed.

(* {:?} of a non-empty string without control characters *)
Lemma sw_escape_lex S c : sw_in_str S -> c15_lit_char c = true ->
  lex_str_gen cfg_sw S (escape_debug_char c) = LStr ch_dq false.
Proof.
  unfold c15_lit_char, escape_debug_char, ch_dq, ch_bs, ch_nl, ch_cr, ch_tab, ch_sq. intros HS H.
  repeat match goal with |- context [if ?b then _ else _] =>
           let E := fresh in destruct b eqn:E; [try (destruct HS as [-> | ->]; reflexivity); lia|] end.
  destruct HS as [-> | ->]; cbn [lex_str_gen fold_left lex_gen lex_quoted cfg_sw lc_eol]; unfold ch_bs, ch_dq, eol_lf_cr, ch_nl, ch_cr.
  - replace (c =? 34) with false by lia. replace (c =? 92) with false by lia.
    replace (false || ((c =? 10) || (c =? 13))) with false by lia. reflexivity.
  - replace (c =? 92) with false by lia. replace ((c =? 34) || ((c =? 10) || (c =? 13))) with false by lia. reflexivity.
Qed.

Lemma sw_escapes_lex S s : sw_in_str S -> s <> [] -> c15_lit_str s = true ->
  lex_str_gen cfg_sw S (flat_map escape_debug_char s) = LStr ch_dq false.
Proof.
  unfold c15_lit_str. revert S. induction s as [|c r IH]; intros S HS Hne H; [congruence|].
  cbn [forallb] in H. apply andb_true_iff in H as [Hc Hr]. cbn [flat_map]. rewrite lex_str_app, (sw_escape_lex S c HS Hc).
  destruct r as [|c2 r2]; [reflexivity|]. apply IH; [now right|discriminate|exact Hr].
Qed.

Lemma sw_debug_neutral s : s <> [] -> c15_lit_str s = true -> NS (debug_str s).
Proof.
  intros Hne H. unfold c15_neutral, debug_str. rewrite lex_str_app.
  change (lex_str_gen (c15_cfg C15sw) LCode [ch_dq]) with (LOpen ch_dq false). rewrite lex_str_app.
  change (c15_cfg C15sw) with cfg_sw. rewrite (sw_escapes_lex (LOpen ch_dq false) s); [reflexivity|now left|exact Hne|exact H].
Qed.

(* ================= the declarations whose code is neutral ================= *)
(* a raw value: printed between double quotes verbatim (CodingKeys) or through {:?} (String-backed enum) *)
Definition sw_rawq_ok (s : str) : bool := match s with [] => false | _ => c15_sw_raw s && c15_lit_str s end.

Definition sw_generics_ok (gs : list (str * list str)) : bool :=
  forallb (fun g => plain (fst g) && forallb plain (snd g)) gs.
Definition sw_member_ok (m : sw_member) : bool :=
  plain (swm_name m) && match swm_coding_key m with Some k => sw_rawq_ok k | None => true end &&
  plain (sw_show (swm_type m)) && plain (sw_show (swm_init_type m)).
Definition sw_struct_ok (s : sw_struct) : bool :=
  plain (sws_name s) && sw_generics_ok (sws_generics s) && forallb plain (sws_decs s) && forallb sw_member_ok (sws_members s).
Definition sw_payload_ok (p : sw_payload) : bool :=
  match p with
  | SWPUnit => true
  | SWPTuple ty _ _ => plain (sw_show ty)
  | SWPInner name gs => plain name && forallb plain gs
  end.
Definition sw_variant_ok (v : sw_variant) : bool :=
  plain (swv_name v) && match swv_raw v with Some w => sw_rawq_ok w | None => true end && sw_payload_ok (swv_payload v).
Definition sw_enum_ok (e : sw_enum) : bool :=
  forallb sw_struct_ok (swe_inner e) && c15_sw_raw (swe_name e) && sw_generics_ok (swe_generics e) &&
  forallb plain (swe_decs e) &&
  match swe_tagged e with Some (tag, content) => plain tag && plain content | None => true end &&
  forallb sw_variant_ok (swe_variants e).
Definition sw_decl_ok (d : sw_decl) : bool :=
  match d with
  | SWStruct s => sw_struct_ok s
  | SWAlias _ name _ gs ty => plain name && forallb plain gs && plain (sw_show ty)
  | SWEnum e => sw_enum_ok e
  | SWCodableVoid decs => forallb plain decs
  end.

(* ================= layout: plain pieces ================= *)
Lemma sw_show_name_plain n e : plain n = true -> plain (sw_show_name n e) = true.
Proof. intros H. unfold sw_show_name. destruct e; [|exact H]. now rewrite !c15_plain_app, H. Qed.

Lemma sw_tabs_plain n : plain (sw_tabs n) = true.
Proof. unfold sw_tabs. induction n as [|n IH]; [reflexivity|]. cbn [repeat_str]. now rewrite c15_plain_app, IH. Qed.

Lemma sw_line_plain n s : plain s = true -> plain (sw_line n s) = true.
Proof. intros H. unfold sw_line. now rewrite !c15_plain_app, sw_tabs_plain, H. Qed.

(* syntactic dispatch (no conversion problems handed to the unifier: the texts are long) *)
Ltac sw_plain :=
  repeat match goal with
    | |- c15_plain _ (_ ++ _) = true => apply plain_app_intro
    | |- c15_plain _ (sw_line _ _) = true => apply sw_line_plain
    | |- c15_plain _ (sw_show_name _ _) = true => apply sw_show_name_plain
    | |- c15_plain _ (sw_tabs _) = true => apply sw_tabs_plain
    | |- c15_plain _ (generics_suffix _) = true => apply c15_plain_generics_suffix
    | |- c15_plain _ (if ?b then _ else _) = true => destruct b
    | |- c15_plain _ (lit _) = true => vm_compute; reflexivity
    | |- c15_plain _ sw_nl = true => reflexivity
    | |- c15_plain _ sw_CODABLE_VOID = true => reflexivity
    | |- c15_plain _ [] = true => reflexivity
    | |- _ => assumption
    end.
Ltac sw_atom := solve [ apply c15_neutral_plain; sw_plain ].

Lemma Decomp_sw_line n x s : DS x s -> DS (sw_line n x) s.
Proof.
  intros H. unfold sw_line. change s with ([] ++ [] ++ s).
  apply Decomp_app; [apply Decomp_code; reflexivity|].
  apply Decomp_app; [apply Decomp_code, c15_neutral_plain, sw_tabs_plain|exact H].
Qed.

(* decompose a rendered text along its ++ structure: comment fragments, sub-renderers by [tac], the rest are
   code atoms made of plain pieces *)
Ltac swn_decomp tac :=
  repeat match goal with
    | |- Decomp _ _ (sw_render_comments _ _) _ => apply (sw_comments_decomp NS)
    | |- Decomp _ _ _ _ => tac
    | |- Decomp _ _ (_ ++ _) _ => apply Decomp_app
    | |- Decomp _ _ (sw_line _ _) _ => apply Decomp_sw_line
    | |- Decomp _ _ _ _ => apply Decomp_code; sw_atom
    end.

Lemma sw_generic_header_plain gs : sw_generics_ok gs = true -> plain (sw_render_generic_header gs) = true.
Proof.
  unfold sw_generics_ok, sw_render_generic_header. intros H. destruct gs as [|g r]; [reflexivity|].
  generalize dependent (g :: r). clear g r. intros gs H.
  apply plain_app_intro; [reflexivity|]. apply plain_app_intro; [|reflexivity].
  apply plain_join_map; [reflexivity|]. intros x Hx. rewrite forallb_forall in H. specialize (H x Hx).
  apply andb_true_iff in H as [H1 H2]. apply plain_app_intro; [exact H1|]. apply plain_app_intro; [reflexivity|].
  apply c15_plain_join; [reflexivity|exact H2].
Qed.

Lemma sw_decs_join_plain ds : forallb plain ds = true -> plain (join (lit ", ") ds) = true.
Proof. intros H. apply c15_plain_join; [reflexivity|exact H]. Qed.

Lemma sw_member_ok_parts m : sw_member_ok m = true ->
  plain (swm_name m) = true /\ plain (sw_member_ident m) = true /\ plain (sw_show (swm_type m)) = true /\
  plain (sw_show (swm_init_type m)) = true /\ plain (sw_member_opt m) = true.
Proof.
  unfold sw_member_ok. intros H. c15_split_andb. repeat split; try assumption.
  - unfold sw_member_ident. now apply sw_show_name_plain.
  - unfold sw_member_opt. now destruct (swm_default_opt m).
Qed.

(* a CodingKeys case with a raw value *)
Lemma sw_key_neutral ident w : plain ident = true -> sw_rawq_ok w = true -> NS (ident ++ lit " = """ ++ w ++ lit """").
Proof.
  intros Hi Hw. apply c15_neutral_app; [now apply c15_neutral_plain|].
  unfold sw_rawq_ok in Hw. destruct w as [|c r]; [discriminate|]. apply andb_true_iff in Hw as [Hw _].
  apply sw_rawq_neutral; [reflexivity|discriminate|exact Hw].
Qed.

Lemma sw_coding_keys_block_neutral keys : Forall NS keys -> NS (sw_render_coding_keys_block keys).
Proof.
  intros H. unfold sw_render_coding_keys_block, sw_line.
  repeat first [ apply c15_neutral_join; [vm_compute; reflexivity|exact H]
               | apply c15_neutral_app
               | vm_compute; reflexivity ].
Qed.

Lemma sw_member_keys_neutral ms : forallb sw_member_ok ms = true ->
  NS (sw_render_coding_keys_block (map sw_render_member_coding_key ms)).
Proof.
  intros H. apply sw_coding_keys_block_neutral. apply Forall_map. rewrite forallb_forall in H. apply Forall_forall.
  intros m Hm. destruct (sw_member_ok_parts m (H m Hm)) as (_ & Hi & _). pose proof (H m Hm) as Hok.
  unfold sw_member_ok in Hok. c15_split_andb. unfold sw_render_member_coding_key.
  destruct (swm_coding_key m); [now apply sw_key_neutral|now apply c15_neutral_plain].
Qed.

Lemma sw_init_params_plain ms : forallb sw_member_ok ms = true ->
  plain (join (lit ", ") (map sw_render_init_param ms)) = true.
Proof.
  intros H. apply plain_join_map; [reflexivity|]. intros m Hm. rewrite forallb_forall in H.
  destruct (sw_member_ok_parts m (H m Hm)) as (Hn & _ & _ & Ht & Ho). unfold sw_render_init_param. sw_plain.
Qed.

Lemma sw_members_self_plain ms : forallb sw_member_ok ms = true ->
  plain (flat_map (fun m => sw_line 2 (lit "self." ++ swm_name m ++ lit " = " ++ sw_member_ident m)) ms) = true.
Proof.
  intros H. apply plain_flat_map. intros m Hm. rewrite forallb_forall in H.
  destruct (sw_member_ok_parts m (H m Hm)) as (Hn & Hi & _). sw_plain.
Qed.

(* ================= layout: the declarations ================= *)
Lemma swn_member_decomp m : sw_member_ok m = true -> DS (sw_render_member m) (c15_sites false (swm_docs m)).
Proof.
  intros H. destruct (sw_member_ok_parts m H) as (Hn & Hi & Ht & _ & Ho). unfold sw_render_member.
  eapply Decomp_eq; [swn_decomp ltac:(fail)|]. c15_sites_norm.
Qed.

Lemma swn_struct_decomp s : sw_struct_ok s = true -> DS (sw_render_struct s) (c15_sites false (sw_struct_docs s)).
Proof.
  unfold sw_struct_ok, sw_render_struct, sw_struct_docs. cbv zeta. intros H. c15_split_andb.
  match goal with Hm : forallb sw_member_ok _ = true |- _ => rename Hm into Hms end.
  eapply Decomp_eq;
    [swn_decomp ltac:(idtac; match goal with
       | |- Decomp _ _ (flat_map sw_render_member _) _ =>
         apply (Decomp_flat_map C15sw NS sw_render_member) with (g := fun m => c15_sites false (swm_docs m));
         intros m Hin; rewrite forallb_forall in Hms; apply swn_member_decomp, Hms, Hin
       | |- Decomp _ _ (sw_render_generic_header _) _ =>
         apply Decomp_code; apply c15_neutral_plain; apply sw_generic_header_plain; assumption
       | |- Decomp _ _ (join _ (map sw_render_init_param _)) _ =>
         apply Decomp_code; apply c15_neutral_plain; apply sw_init_params_plain; assumption
       | |- Decomp _ _ (join _ _) _ =>
         apply Decomp_code; apply c15_neutral_plain; apply sw_decs_join_plain; assumption
       | |- Decomp _ _ (flat_map _ _) _ =>
         apply Decomp_code; apply c15_neutral_plain; apply sw_members_self_plain; assumption
       | |- Decomp _ _ (if sws_coding_keys _ then _ else _) _ =>
         apply Decomp_code; destruct (sws_coding_keys s); [apply sw_member_keys_neutral; assumption|reflexivity]
       end)|].
  c15_sites_norm.
Qed.

(* ---- enums ---- *)
Lemma sw_variant_ok_parts v : sw_variant_ok v = true ->
  plain (swv_name v) = true /\ plain (sw_variant_ident v) = true.
Proof.
  unfold sw_variant_ok. intros H. c15_split_andb. split; [assumption|].
  unfold sw_variant_ident. now apply sw_show_name_plain.
Qed.

Lemma swn_unit_case_decomp v : sw_variant_ok v = true -> DS (sw_render_unit_case v) (c15_sites false (swv_docs v)).
Proof.
  intros H. destruct (sw_variant_ok_parts v H) as (Hn & Hi). unfold sw_variant_ok in H. c15_split_andb.
  unfold sw_render_unit_case. destruct (swv_raw v) as [w|].
  - assert (Hd : NS (debug_str w)).
    { match goal with Hw : sw_rawq_ok w = true |- _ => unfold sw_rawq_ok in Hw; destruct w as [|c r]; [discriminate|];
        apply andb_true_iff in Hw as [_ Hw]; apply sw_debug_neutral; [discriminate|exact Hw] end. }
    eapply Decomp_eq; [swn_decomp ltac:(idtac; match goal with |- Decomp _ _ (debug_str _) _ => apply Decomp_code; exact Hd end)|]. c15_sites_norm.
  - eapply Decomp_eq; [swn_decomp ltac:(fail)|]. c15_sites_norm.
Qed.

Lemma swn_case_decomp v : sw_variant_ok v = true -> DS (sw_render_case v) (c15_sites false (swv_docs v)).
Proof.
  intros H. destruct (sw_variant_ok_parts v H) as (Hn & Hi). unfold sw_variant_ok in H. c15_split_andb.
  unfold sw_render_case. destruct (swv_payload v) as [|ty esc opt|name gs]; cbn [sw_payload_ok] in *; c15_split_andb;
    (eapply Decomp_eq; [swn_decomp ltac:(fail)|]; c15_sites_norm).
Qed.

Lemma sw_coding_key_neutral v : sw_variant_ok v = true -> NS (sw_render_coding_key v).
Proof.
  intros H. destruct (sw_variant_ok_parts v H) as (Hn & Hi). unfold sw_variant_ok in H. c15_split_andb.
  unfold sw_render_coding_key. destruct (swv_raw v); [now apply sw_key_neutral|now apply c15_neutral_plain].
Qed.

Lemma sw_variant_keys_neutral vs : forallb sw_variant_ok vs = true ->
  NS (match vs with [] => [] | _ => sw_render_coding_keys_block (map sw_render_coding_key vs) end).
Proof.
  intros H. destruct vs as [|v r]; [reflexivity|]. apply sw_coding_keys_block_neutral, Forall_map.
  rewrite forallb_forall in H. apply Forall_forall. intros x Hx. apply sw_coding_key_neutral, H, Hx.
Qed.

Lemma sw_decoding_plain content v : plain content = true -> sw_variant_ok v = true ->
  plain (sw_render_decoding content v) = true.
Proof.
  intros Hc H. destruct (sw_variant_ok_parts v H) as (Hn & Hi). unfold sw_variant_ok in H. c15_split_andb.
  unfold sw_render_decoding. cbv zeta.
  destruct (swv_payload v) as [|ty esc opt|name gs]; cbn [sw_payload_ok] in *; c15_split_andb; [| destruct opt |]; sw_plain.
Qed.

Lemma sw_encoding_plain tag content v : plain tag = true -> plain content = true -> sw_variant_ok v = true ->
  plain (sw_render_encoding tag content v) = true.
Proof.
  intros Ht Hc H. destruct (sw_variant_ok_parts v H) as (Hn & Hi). unfold sw_variant_ok in H. c15_split_andb.
  unfold sw_render_encoding.
  destruct (swv_payload v) as [|ty esc opt|name gs]; sw_plain.
Qed.

(* the line of init(from:) that spells the enum's name inside a string literal *)
Lemma sw_wrong_type_neutral enum_name : c15_sw_raw enum_name = true ->
  NS (sw_line 2 (lit "throw DecodingError.typeMismatch(" ++ enum_name ++
                 lit ".self, DecodingError.Context(codingPath: decoder.codingPath, debugDescription: ""Wrong type for " ++
                 enum_name ++ lit """))")).
Proof.
  intros H. pose proof (sw_raw_plain _ H) as Hp. unfold sw_line.
  apply c15_neutral_app; [reflexivity|]. apply c15_neutral_app; [reflexivity|].
  apply c15_neutral_app; [reflexivity|]. apply c15_neutral_app; [now apply c15_neutral_plain|].
  apply sw_in_string_neutral; [vm_compute; reflexivity|exact H|vm_compute; reflexivity].
Qed.

Lemma sw_show_name_raw n e : c15_sw_raw n = true -> c15_sw_raw (sw_show_name n e) = true.
Proof. intros H. unfold sw_show_name. destruct e; [|exact H]. now rewrite !sw_raw_app, H. Qed.

(* swift.rs:490 / :591: the tag / content key goes through swift_keyword_aware_rename; a back tick is a plain character *)
Lemma sw_keyword_aware_plain k : plain k = true -> plain (swift_keyword_aware_rename k) = true.
Proof. intros H. unfold swift_keyword_aware_rename. apply sw_show_name_plain, H. Qed.

Lemma swn_enum_decomp e : sw_enum_ok e = true -> DS (sw_render_enum e) (c15_sites false (sw_enum_docs e)).
Proof.
  unfold sw_enum_ok, sw_render_enum, sw_enum_docs. cbv zeta. intros H. c15_split_andb.
  match goal with Hm : forallb sw_struct_ok _ = true |- _ => rename Hm into Hin end.
  match goal with Hm : forallb sw_variant_ok _ = true |- _ => rename Hm into Hvs end.
  match goal with Hm : c15_sw_raw (swe_name e) = true |- _ => rename Hm into Hraw end.
  pose proof (sw_show_name_raw _ (swe_escaped e) Hraw) as Hnr. pose proof (sw_raw_plain _ Hnr) as Hnp.
  pose proof (proj1 (forallb_forall _ _) Hin) as HinF. pose proof (proj1 (forallb_forall _ _) Hvs) as HvsF.
  pose proof (sw_variant_keys_neutral _ Hvs) as Hkeys. pose proof (sw_raw_plain _ Hraw) as Hrp.
  destruct (swe_tagged e) as [[tag_key content_key]|]; c15_split_andb.
  - match goal with Hm : plain tag_key = true |- _ => pose proof (sw_keyword_aware_plain _ Hm) as Htk end.
    match goal with Hm : plain content_key = true |- _ => pose proof (sw_keyword_aware_plain _ Hm) as Hck end.
    set (tagk := swift_keyword_aware_rename tag_key) in *. set (contentk := swift_keyword_aware_rename content_key) in *.
    eapply Decomp_eq;
      [swn_decomp ltac:(idtac; match goal with
         | |- Decomp _ _ (flat_map sw_render_struct _) _ =>
           apply (Decomp_flat_map C15sw NS sw_render_struct) with (g := fun s => c15_sites false (sw_struct_docs s));
           intros s Hs; apply swn_struct_decomp, HinF, Hs
         | |- Decomp _ _ (flat_map sw_render_case _) _ =>
           apply (Decomp_flat_map C15sw NS sw_render_case) with (g := fun v => c15_sites false (swv_docs v));
           intros v Hv; apply swn_case_decomp, HvsF, Hv
         | |- Decomp _ _ (sw_render_generic_header _) _ =>
           apply Decomp_code; apply c15_neutral_plain; apply sw_generic_header_plain; assumption
         | |- Decomp _ _ (join _ _) _ =>
           apply Decomp_code; apply c15_neutral_plain; apply sw_decs_join_plain; assumption
         | |- Decomp _ _ (match ?x with [] => ?a | _ :: _ => ?b end) _ => apply Decomp_code; exact Hkeys
         | |- Decomp _ _ (sw_line 2 (lit "throw DecodingError.typeMismatch(" ++ _)) _ =>
           apply Decomp_code; apply sw_wrong_type_neutral; assumption
         | |- Decomp _ _ (flat_map (sw_render_decoding _) _) _ =>
           apply Decomp_code; apply c15_neutral_plain; apply plain_flat_map; intros v Hv;
           apply sw_decoding_plain; [assumption|apply HvsF, Hv]
         | |- Decomp _ _ (flat_map (sw_render_encoding _ _) _) _ =>
           apply Decomp_code; apply c15_neutral_plain; apply plain_flat_map; intros v Hv;
           apply sw_encoding_plain; [assumption|assumption|apply HvsF, Hv]
         end)|].
    c15_sites_norm.
  - eapply Decomp_eq;
      [swn_decomp ltac:(idtac; match goal with
         | |- Decomp _ _ (flat_map sw_render_struct _) _ =>
           apply (Decomp_flat_map C15sw NS sw_render_struct) with (g := fun s => c15_sites false (sw_struct_docs s));
           intros s Hs; apply swn_struct_decomp, HinF, Hs
         | |- Decomp _ _ (flat_map sw_render_unit_case _) _ =>
           apply (Decomp_flat_map C15sw NS sw_render_unit_case) with (g := fun v => c15_sites false (swv_docs v));
           intros v Hv; apply swn_unit_case_decomp, HvsF, Hv
         | |- Decomp _ _ (sw_render_generic_header _) _ =>
           apply Decomp_code; apply c15_neutral_plain; apply sw_generic_header_plain; assumption
         | |- Decomp _ _ (join _ _) _ =>
           apply Decomp_code; apply c15_neutral_plain; apply sw_decs_join_plain; assumption
         end)|].
    c15_sites_norm.
Qed.

Theorem swn_decl_decomp d : sw_decl_ok d = true -> DS (sw_render_decl d) (c15_sites false (sw_decl_docs d)).
Proof.
  intros H. destruct d as [s|docs name esc gs ty|e|decs]; cbn [sw_decl_ok sw_render_decl sw_decl_docs] in *.
  - now apply swn_struct_decomp.
  - c15_split_andb. eapply Decomp_eq; [swn_decomp ltac:(fail)|]. c15_sites_norm.
  - now apply swn_enum_decomp.
  - eapply Decomp_eq;
      [swn_decomp ltac:(idtac; match goal with |- Decomp _ _ (join _ _) _ =>
                          apply Decomp_code; apply c15_neutral_plain; apply sw_decs_join_plain; assumption end)|].
    c15_sites_norm.
Qed.

(* ================= decisions: IR items of the class give declarations with neutral code ================= *)
From TS Require Proofs.C10_SWFile Proofs.C15_Kotlin.

Lemma sw_ident_parts s : c15_ident_ok C15sw s = true ->
  plain s = true /\ c15_sw_raw s = true /\ sw_rawq_ok s = true.
Proof.
  intros H0. assert (Hne : s <> []) by (intros ->; discriminate).
  assert (H : forallb (c15_ident_char C15sw) s = true) by (destruct s; [discriminate|exact H0]).
  assert (E : forall p : char -> bool, (forall x, c15_ident_char C15sw x = true -> p x = true) -> forallb p s = true).
  { intros p Hp. rewrite forallb_forall in H |- *. intros x Hx. apply Hp, H, Hx. }
  assert (E1 : forallb (c15_plain_char C15sw) s = true).
  { apply E. intros x Hx. unfold c15_ident_char in Hx. now destruct (c15_plain_char C15sw x). }
  assert (E2 : forallb c15_sw_raw_char s = true).
  { apply E. intros x Hx. unfold c15_ident_char, c15_sw_raw_char, c15_lit_char, eol_lf_cr, ch_nl, ch_cr, ch_bs in *.
    destruct (c15_plain_char C15sw x); [|discriminate]. lia. }
  assert (E3 : forallb c15_lit_char s = true).
  { apply E. intros x Hx. unfold c15_ident_char in Hx. destruct (c15_lit_char x); [reflexivity|]. now rewrite andb_false_r in Hx. }
  repeat split; try assumption. unfold sw_rawq_ok, c15_sw_raw, c15_lit_str. destruct s; [congruence|]. now rewrite E2, E3.
Qed.

Lemma sw_pascal_go_plain tolow cap s : forallb sw_plain_c s = true -> forallb sw_plain_c (pascal_go tolow cap s) = true.
Proof.
  revert cap. induction s as [|c r IH]; intros cap H; [reflexivity|].
  cbn [forallb] in H. apply andb_true_iff in H as [Hc Hr]. cbn [pascal_go].
  destruct (c =? ch_us); [now apply IH|].
  destruct cap; [|destruct tolow]; cbn [forallb]; rewrite (IH _ Hr), andb_true_r;
    unfold sw_plain_c, aupper, alower, is_alower, is_aupper in *;
    repeat match goal with |- context [if ?b then _ else _] => destruct b eqn:? end; lia.
Qed.

Lemma sw_camel_plain s r : plain s = true -> to_camel_case s = Ok r -> plain r = true.
Proof.
  rewrite !sw_plain_chars. intros H E. unfold to_camel_case in E.
  pose proof (sw_pascal_go_plain (all_upper s) true s H) as Hp. fold (to_pascal_case s) in Hp.
  destruct (to_pascal_case s) as [|c t]; injection E as <-; [reflexivity|].
  cbn [forallb] in *. apply andb_true_iff in Hp as [Hc Ht]. rewrite Ht, andb_true_r.
  unfold sw_plain_c, alower, is_aupper in *. destruct ((65 <=? c) && (c <=? 90)) eqn:E; lia.
Qed.

Lemma sw_plain_replace_dash s : plain s = true -> plain (sw_remove_dash_from_identifier s) = true.
Proof.
  unfold sw_remove_dash_from_identifier, replace_char. rewrite !sw_plain_chars, c15_forallb_map.
  intros H. rewrite forallb_forall in H |- *. intros x Hx. specialize (H x Hx). unfold ch_dash, ch_us.
  destruct (x =? 45); [reflexivity|exact H].
Qed.

Lemma sw_decs_get_of (p : str -> bool) k dm ds :
  sw_decs_get k dm = Some ds -> forallb p (c15_decs_of k dm) = true -> forallb p ds = true.
Proof.
  unfold c15_decs_of. induction dm as [|[a v] r IH]; [discriminate|]. cbn [sw_decs_get flat_map fst snd].
  rewrite forallb_app. destruct (deckind_eqb a k); intros E H; apply andb_true_iff in H as [H1 H2].
  - injection E as <-. exact H1.
  - now apply IH.
Qed.

Lemma sw_assoc_last_all (p : list str -> bool) g m cs :
  forallb (fun kv : str * list str => p (snd kv)) m = true -> sw_assoc_last g m = Some cs -> p cs = true.
Proof.
  revert cs. induction m as [|[a v] t IH]; intros cs; [discriminate|]. cbn [sw_assoc_last forallb snd]. intros Ha E.
  apply andb_true_iff in Ha as [H1 H2].
  destruct (sw_assoc_last g t) as [w|] eqn:Et; [injection E as <-; exact (IH w H2 eq_refl)|].
  destruct (str_eqb a g); [injection E as <-; exact H1|discriminate].
Qed.

Section SWStrict.
Variable uc : unicode.
Variable cfg : sw_config.
Hypothesis Hprefix : c15_sw_raw (sw_prefix cfg) = true.
Hypothesis Hmap : c15_mappings_plain C15sw (sw_type_mappings cfg) = true.
Hypothesis Hdecs : forallb plain (sw_default_decorators cfg) = true.
Hypothesis Hgcs : forallb plain (sw_default_generic_constraints cfg) = true.

Lemma sw_prefixed_plain s : plain s = true -> plain (sw_prefix cfg ++ s) = true.
Proof. intros H. now rewrite c15_plain_app, (sw_raw_plain _ Hprefix), H. Qed.

(* ---- decorators and generic constraints: pieces of plain strings ---- *)
Lemma sw_split_constraints_plain c : plain c = true -> forallb plain (sw_split_constraints uc c) = true.
Proof.
  intros H. unfold sw_split_constraints. rewrite c15_forallb_map. apply c15_Forall_forallb.
  pose proof (C10_SWFile.split_on_all (c15_plain_char C15sw) 38 c [] H eq_refl) as Hs. revert Hs.
  apply Forall_impl. intros w Hw. apply C10_SWFile.trim_all, Hw.
Qed.

Lemma sw_get_constraints_plain : forallb plain (sw_get_constraints uc cfg) = true.
Proof.
  unfold sw_get_constraints, sw_from_config. apply C10_SWFile.sset_of_all. cbn [forallb].
  apply andb_true_iff. split; [reflexivity|].
  revert Hgcs. generalize (sw_default_generic_constraints cfg). intros l. induction l as [|c r IH]; intros H; [reflexivity|].
  cbn [forallb flat_map] in *. apply andb_true_iff in H as [Hc Hr].
  now rewrite forallb_app, (sw_split_constraints_plain c Hc), (IH Hr).
Qed.

Lemma sw_generic_constraints_plain dm gs : c15_sw_decs_plain dm = true -> forallb plain gs = true ->
  sw_generics_ok (sw_generic_constraints uc cfg dm gs) = true.
Proof.
  intros Hdm Hg. unfold sw_generic_constraints. cbv zeta.
  set (annotated := match sw_decs_get DKSwiftGenericConstraints dm with None => [] | Some gcs => _ end).
  assert (Ha : forallb (fun kv : str * list str => forallb plain (snd kv)) annotated = true).
  { subst annotated. destruct (sw_decs_get DKSwiftGenericConstraints dm) as [gcs|] eqn:Eg; [|reflexivity].
    assert (Hp : forallb plain gcs = true).
    { eapply sw_decs_get_of; [exact Eg|]. unfold c15_sw_decs_plain in Hdm. now apply andb_true_iff in Hdm as [_ Hdm]. }
    clear Eg. induction gcs as [|gc r IH]; [reflexivity|]. cbn [forallb flat_map] in *. apply andb_true_iff in Hp as [Hgc Hr].
    rewrite forallb_app, (IH Hr), andb_true_r.
    pose proof (C10_SWFile.split_on_all (c15_plain_char C15sw) 58 gc [] Hgc eq_refl) as Hs.
    destruct (split_on 58 gc []) as [|gn [|cs rest]]; try reflexivity. cbn [forallb snd]. rewrite andb_true_r.
    apply C10_SWFile.sset_of_all. rewrite forallb_app, sw_get_constraints_plain, andb_true_r.
    inversion Hs as [|? ? _ Hs2]; subst. inversion Hs2 as [|? ? Hcs _]; subst.
    exact (sw_split_constraints_plain cs Hcs). }
  clearbody annotated. unfold sw_generics_ok. rewrite c15_forallb_map. cbn [fst snd].
  apply forallb_forall. intros g Hgin. rewrite forallb_forall in Hg. rewrite (Hg g Hgin). cbn [andb].
  destruct (sw_assoc_last g annotated) as [cs|] eqn:E; [|exact sw_get_constraints_plain].
  exact (sw_assoc_last_all (forallb plain) g annotated cs Ha E).
Qed.

Lemma sw_default_decorators_plain : forallb plain (sw_get_default_decorators cfg) = true.
Proof. unfold sw_get_default_decorators. cbn [forallb]. apply andb_true_iff. split; [reflexivity|exact Hdecs]. Qed.

Lemma sw_swift_decs_plain dm ds : c15_sw_decs_plain dm = true -> sw_decs_get DKSwift dm = Some ds -> forallb plain ds = true.
Proof.
  intros Hdm E. eapply sw_decs_get_of; [exact E|]. unfold c15_sw_decs_plain in Hdm. now apply andb_true_iff in Hdm as [Hdm _].
Qed.

(* ---- printed types ---- *)
Lemma sw_simple_texp_plain base gs args : plain base = true -> forallb (fun a => plain (sw_show a)) args = true ->
  plain (sw_show (sw_simple_texp cfg base gs args)) = true.
Proof.
  intros Hb Ha. unfold sw_simple_texp. destruct (tmap_get (sw_type_mappings cfg) base) eqn:E.
  - cbn [sw_show]. eapply c15_tmap_get_plain; eauto.
  - set (n := if mem_str base gs then base else sw_prefix cfg ++ base).
    assert (Hn : plain n = true). { subst n. destruct (mem_str base gs); [exact Hb|now apply sw_prefixed_plain]. }
    destruct args as [|a r]; [exact Hn|].
    change (sw_show (XName n (a :: r))) with (n ++ lit "<" ++ join (lit ", ") (map sw_show (a :: r)) ++ lit ">").
    rewrite !c15_plain_app, Hn. cbn [andb]. rewrite c15_plain_join; [reflexivity|reflexivity|].
    rewrite c15_forallb_map. exact Ha.
Qed.

Lemma sw_texp_plain gs t : c15_rtype_plain C15sw t = true ->
  forall st x st', sw_texp cfg gs t st = Ok (x, st') -> plain (sw_show x) = true.
Proof.
  induction t as [id|id ps IH|t IH|t n IH|t IH|k v IHk IHv|t IH|p] using rtype_ind'; intros Hp st x st' H;
    cbn [sw_texp c15_rtype_plain] in *.
  - unfold ret in H. injection H as <- _. apply sw_simple_texp_plain; [exact Hp|reflexivity].
  - apply andb_true_iff in Hp as [Hid Hps]. destruct (tmap_get (sw_type_mappings cfg) id) eqn:E.
    + unfold ret in H. injection H as <- _. cbn [sw_show]. eapply c15_tmap_get_plain; eauto.
    + rewrite c15_go_is_mmapM in H. apply mbind_ok in H as (params & s1 & Hparams & H). unfold ret in H. injection H as <- _.
      apply sw_simple_texp_plain; [exact Hid|]. apply c15_Forall_forallb.
      eapply c15_mmapM_Forall; [|exact Hparams]. rewrite Forall_forall in IH |- *. intros t Ht s y s' Hy.
      eapply IH; [exact Ht| |exact Hy]. rewrite forallb_forall in Hps. now apply Hps.
  - apply mbind_ok in H as (e & s1 & He & H). unfold ret in H. injection H as <- _.
    change (sw_show (XSeq e)) with (lit "[" ++ sw_show e ++ lit "]"). now rewrite !c15_plain_app, (IH Hp _ _ _ He).
  - apply mbind_ok in H as (e & s1 & He & H). unfold ret in H. injection H as <- _.
    change (sw_show (XSeq e)) with (lit "[" ++ sw_show e ++ lit "]"). now rewrite !c15_plain_app, (IH Hp _ _ _ He).
  - apply mbind_ok in H as (e & s1 & He & H). unfold ret in H. injection H as <- _.
    change (sw_show (XSeq e)) with (lit "[" ++ sw_show e ++ lit "]"). now rewrite !c15_plain_app, (IH Hp _ _ _ He).
  - apply andb_true_iff in Hp as [Hk Hv].
    apply mbind_ok in H as (ke & s1 & Hke & H). apply mbind_ok in H as (ve & s2 & Hve & H). unfold ret in H. injection H as <- _.
    change (sw_show (XMap ke ve)) with (lit "[" ++ sw_show ke ++ lit ": " ++ sw_show ve ++ lit "]").
    now rewrite !c15_plain_app, (IHk Hk _ _ _ Hke), (IHv Hv _ _ _ Hve).
  - apply mbind_ok in H as (e & s1 & He & H). unfold ret in H. injection H as <- _.
    change (sw_show (XOpt e)) with (sw_show e ++ lit "?"). now rewrite !c15_plain_app, (IH Hp _ _ _ He).
  - destruct p; cbv [mbind mput ret fail] in H; try discriminate; injection H as <- _; reflexivity.
Qed.

Lemma sw_field_texp_plain gs f st x st' :
  match type_override f Swift with Some o => plain o | None => c15_rtype_plain C15sw (fty f) end = true ->
  sw_field_texp cfg gs f st = Ok (x, st') -> plain (sw_show x) = true.
Proof.
  unfold sw_field_texp. destruct (type_override f Swift); intros Ht H.
  - unfold ret in H. injection H as <- _. exact Ht.
  - eapply sw_texp_plain; eauto.
Qed.

(* ---- structs ---- *)
Lemma sw_member_ok_ir f ty ity : c15_ident_ok C15sw (renamed (fid f)) = true ->
  plain (sw_show ty) = true -> plain (sw_show ity) = true -> sw_member_ok (sw_member_of uc f ty ity) = true.
Proof.
  intros Hid Ht Hi. destruct (sw_ident_parts _ Hid) as (Hp & Hr & Hq).
  unfold sw_member_ok, sw_member_of. cbn [swm_name swm_coding_key swm_type swm_init_type].
  rewrite Ht, Hi, !andb_true_r. apply andb_true_iff. split; [now apply sw_plain_replace_dash|].
  destruct (contains_char ch_dash (renamed (fid f))); [exact Hq|reflexivity].
Qed.

Lemma sw_fields_texp_plain gs fs st tys st' : forallb (c15_field_strict C15sw Swift) fs = true ->
  mmapM (sw_field_texp cfg gs) fs st = Ok (tys, st') -> Forall (fun x => plain (sw_show x) = true) tys.
Proof.
  intros Hf Ht. eapply c15_mmapM_Forall; [|exact Ht]. apply Forall_forall. intros f Hfin s0 y s0' Hy.
  rewrite forallb_forall in Hf. specialize (Hf f Hfin). unfold c15_field_strict in Hf. apply andb_true_iff in Hf as [_ Hty].
  eapply sw_field_texp_plain; eauto.
Qed.

Lemma sw_struct_ok_ir rs st s st' :
  plain (renamed (sid rs)) = true -> forallb plain (sgenerics rs) = true -> c15_sw_decs_plain (sdecs rs) = true ->
  forallb (c15_field_strict C15sw Swift) (sfields rs) = true ->
  sw_struct_of uc cfg rs st = Ok (s, st') -> sw_struct_ok s = true.
Proof.
  intros Hn Hg Hd Hf H. unfold sw_struct_of in H.
  apply mbind_ok in H as (tys & s1 & Ht & H). apply mbind_ok in H as (its & s2 & Hi & H). unfold ret in H. injection H as <- _.
  pose proof (sw_fields_texp_plain _ _ _ _ _ Hf Ht) as HT. pose proof (sw_fields_texp_plain _ _ _ _ _ Hf Hi) as HI.
  unfold sw_struct_ok. cbn [sws_name sws_generics sws_decs sws_members].
  apply andb_true_iff. split; [apply andb_true_iff; split; [apply andb_true_iff; split|]|].
  - now apply sw_prefixed_plain.
  - now apply sw_generic_constraints_plain.
  - destruct (sw_decs_get DKSwift (sdecs rs)) as [ds|] eqn:E; [|exact sw_default_decorators_plain].
    change (forallb plain (sw_get_default_decorators cfg ++ filter (fun d : str => negb (str_eqb d sw_CODABLE)) ds) = true).
    rewrite forallb_app, sw_default_decorators_plain. apply C10_SWFile.filter_all. eapply sw_swift_decs_plain; eauto.
  - rewrite c15_forallb_map. apply forallb_forall. intros [f [ty ity]] Hin. cbn [fst snd].
    pose proof (in_combine_l _ _ _ _ Hin) as Hf1. pose proof (in_combine_r _ _ _ _ Hin) as Hr.
    pose proof (in_combine_l _ _ _ _ Hr) as Hty1. pose proof (in_combine_r _ _ _ _ Hr) as Hty2.
    rewrite Forall_forall in HT, HI. rewrite forallb_forall in Hf. specialize (Hf f Hf1).
    unfold c15_field_strict in Hf. apply andb_true_iff in Hf as [Hid _].
    apply sw_member_ok_ir; auto.
Qed.

Lemma sw_inner_ok_ir sh vs st ss st' :
  c15_ident_ok C15sw (renamed (eid sh)) = true -> forallb plain (egenerics sh) = true ->
  c15_sw_decs_plain (edecs sh) = true -> forallb (c15_variant_strict C15sw Swift) vs = true ->
  sw_inner_structs_of uc cfg sh vs st = Ok (ss, st') -> forallb sw_struct_ok ss = true.
Proof.
  intros Hid Hg Hd. destruct (sw_ident_parts _ Hid) as (Hrp & _ & _).
  revert st ss st'. induction vs as [|v r IH]; intros st ss st' Hvs H.
  - cbn in H. unfold ret in H. injection H as <- _. reflexivity.
  - cbn [forallb] in Hvs. apply andb_true_iff in Hvs as [Hv Hr].
    destruct v as [vsh|t vsh|fs vsh]; cbn [sw_inner_structs_of] in H; try (eapply IH; eassumption).
    apply mbind_ok in H as (s & s1 & Hs & H). apply mbind_ok in H as (ss' & s2 & Hss & H). unfold ret in H. injection H as <- _.
    cbn [forallb]. rewrite (IH _ _ _ Hr Hss), andb_true_r.
    unfold c15_variant_strict in Hv. cbn [variant_shared] in Hv. c15_split_andb.
    destruct (sw_ident_parts (original (vid vsh)) ltac:(eassumption)) as (Hop & _ & _).
    eapply sw_struct_ok_ir; [| | | |exact Hs]; cbn [anon_struct sid renamed sgenerics sfields sdecs].
    + unfold sw_make_anonymous_struct_name. now rewrite !c15_plain_app, Hrp, Hop.
    + now apply C15_Kotlin.c15_anon_generics_plain.
    + exact Hd.
    + assumption.
Qed.

(* ---- enums ---- *)
Lemma sw_lift_camel_plain s st n st' : plain s = true -> sw_lift (to_camel_case s) st = Ok (n, st') -> plain n = true.
Proof.
  intros Hp H. unfold sw_lift in H. destruct (to_camel_case s) as [r| |] eqn:E; try discriminate.
  injection H as <- _. eapply sw_camel_plain; eauto.
Qed.

Lemma sw_unit_variant_ok_ir v st x st' : c15_variant_strict C15sw Swift v = true ->
  sw_unit_variant_of uc v st = Ok (x, st') -> sw_variant_ok x = true.
Proof.
  unfold sw_unit_variant_of. cbv zeta. intros Hs H. apply mbind_ok in H as (n & s1 & Hn & H). unfold ret in H. injection H as <- _.
  unfold c15_variant_strict in Hs. apply andb_true_iff in Hs as [Hs _]. apply andb_true_iff in Hs as [Hr Ho].
  destruct (sw_ident_parts _ Hr) as (_ & _ & Hq). destruct (sw_ident_parts _ Ho) as (Hop & _ & _).
  pose proof (sw_lift_camel_plain _ _ _ _ Hop Hn) as Hcp.
  (* fix 31: `_` in front of a digit-initial camelCased name, as in the algebraic arm *)
  assert (Hnp : plain (match n with c :: _ => if is_adigit c then lit "_" ++ n else n | [] => n end) = true).
  { destruct n as [|c r]; [reflexivity|]. destruct (is_adigit c); [|exact Hcp]. now rewrite c15_plain_app, Hcp. }
  unfold sw_variant_ok. cbn [swv_name swv_raw swv_payload sw_payload_ok]. rewrite andb_true_r.
  apply andb_true_iff. split; [exact Hnp|].
  match goal with |- context [str_eqb ?a ?b] => destruct (str_eqb a b) end; [reflexivity|exact Hq].
Qed.

Lemma sw_variant_ok_ir sh v st x st' :
  c15_ident_ok C15sw (renamed (eid sh)) = true -> forallb plain (egenerics sh) = true ->
  c15_variant_strict C15sw Swift v = true ->
  sw_variant_of uc cfg sh v st = Ok (x, st') -> sw_variant_ok x = true.
Proof.
  unfold sw_variant_of. cbv zeta. intros Hid Hg Hs H. destruct (sw_ident_parts _ Hid) as (Hrp & _ & _).
  apply mbind_ok in H as (camel & s1 & Hn & H). apply mbind_ok in H as (pl & s2 & Hpl & H). unfold ret in H. injection H as <- _.
  unfold c15_variant_strict in Hs. apply andb_true_iff in Hs as [Hs Hpay]. apply andb_true_iff in Hs as [Hr Ho].
  destruct (sw_ident_parts _ Hr) as (_ & _ & Hq). destruct (sw_ident_parts _ Ho) as (Hop & _ & _).
  pose proof (sw_lift_camel_plain _ _ _ _ Hop Hn) as Hcp.
  assert (Hnp : plain (match camel with c :: _ => if is_adigit c then lit "_" ++ camel else camel | [] => camel end) = true).
  { destruct camel as [|c r]; [reflexivity|]. destruct (is_adigit c); [|exact Hcp]. now rewrite c15_plain_app, Hcp. }
  unfold sw_variant_ok. cbn [swv_name swv_raw swv_payload].
  apply andb_true_iff. split; [apply andb_true_iff; split; [exact Hnp|]|].
  { match goal with |- context [str_eqb ?a ?b] => destruct (str_eqb a b) end; [reflexivity|exact Hq]. }
  destruct v as [vsh|t vsh|fs vsh]; cbn [variant_shared] in *.
  - unfold ret in Hpl. injection Hpl as <- _. reflexivity.
  - apply mbind_ok in Hpl as (ty & s3 & Hty & Hpl). unfold ret in Hpl. injection Hpl as <- _. cbn [sw_payload_ok].
    eapply sw_texp_plain; eauto.
  - unfold ret in Hpl. injection Hpl as <- _. cbn [sw_payload_ok]. apply andb_true_iff. split.
    + apply sw_prefixed_plain. unfold sw_make_anonymous_struct_name. now rewrite !c15_plain_app, Hrp, Hop.
    + now apply C15_Kotlin.c15_anon_generics_plain.
Qed.

Lemma sw_enum_ok_ir e st d st' : c15_sw_item_ok (ItEnum e) = true ->
  sw_enum_of uc cfg e st = Ok (d, st') -> sw_enum_ok d = true.
Proof.
  unfold c15_sw_item_ok. cbn [c15_item_strict]. intros Hs H. c15_split_andb.
  match goal with Hv : forallb (c15_variant_strict _ _) _ = true |- _ => rename Hv into Hvs end.
  match goal with Hv : c15_ident_ok _ (renamed _) = true |- _ => rename Hv into Hid end.
  match goal with Hv : c15_sw_decs_plain _ = true |- _ => rename Hv into Hdm end.
  match goal with Hv : forallb (c15_plain _) (egenerics _) = true |- _ => rename Hv into Hg end.
  destruct (sw_ident_parts _ Hid) as (Hrp & Hrr & _).
  unfold sw_enum_of in H. cbv zeta in H.
  apply mbind_ok in H as (inner & s1 & Hin & H). apply mbind_ok in H as (vs & s2 & Hv & H). unfold ret in H. injection H as <- _.
  unfold sw_enum_ok. cbn [swe_inner swe_name swe_generics swe_decs swe_tagged swe_variants].
  assert (Hvok : forallb sw_variant_ok vs = true).
  { apply c15_Forall_forallb. destruct e as [sh|tag content sh]; cbn [enum_shared] in *.
    - eapply c15_mmapM_Forall; [|exact Hv]. apply Forall_forall. intros v Hvin s0 y s0' Hy.
      rewrite forallb_forall in Hvs. eapply sw_unit_variant_ok_ir; [apply Hvs, Hvin|exact Hy].
    - eapply c15_mmapM_Forall; [|exact Hv]. apply Forall_forall. intros v Hvin s0 y s0' Hy.
      rewrite forallb_forall in Hvs. eapply sw_variant_ok_ir; [exact Hid|exact Hg|apply Hvs, Hvin|exact Hy]. }
  rewrite Hvok, (sw_inner_ok_ir _ _ _ _ _ Hid Hg Hdm Hvs Hin), (sw_generic_constraints_plain _ _ Hdm Hg).
  rewrite sw_raw_app, Hprefix, Hrr. cbn [andb]. rewrite andb_true_r. apply andb_true_iff. split.
  - unfold sw_determine_decorators.
    assert (Hap : forall l, forallb plain l = true ->
              forallb plain (l ++ match sw_decs_get DKSwift (edecs (enum_shared e)) with
                                  | Some ds => filter (fun d => negb (mem_str d l)) ds | None => [] end) = true).
    { intros l Hl. rewrite forallb_app, Hl. destruct (sw_decs_get DKSwift (edecs (enum_shared e))) as [ds|] eqn:E; [|reflexivity].
      apply C10_SWFile.filter_all. eapply sw_swift_decs_plain; eauto. }
    destruct e as [sh|tag content sh]; apply Hap; [|exact sw_default_decorators_plain].
    cbn [forallb]. now rewrite sw_default_decorators_plain.
  - destruct e as [sh|tag content sh]; [reflexivity|]. apply andb_true_iff. split; assumption.
Qed.

Theorem sw_decl_ok_ir it st d st' : c15_sw_item_ok it = true -> sw_decl_of uc cfg it st = Ok (d, st') -> sw_decl_ok d = true.
Proof.
  destruct it as [s|e|a|c]; intros Hs H; cbn [sw_decl_of] in H.
  - apply mbind_ok in H as (d0 & s1 & Hd & H). unfold ret in H. injection H as <- _. cbn [sw_decl_ok].
    unfold c15_sw_item_ok in Hs. cbn [c15_item_strict] in Hs. c15_split_andb.
    destruct (sw_ident_parts (renamed (sid s)) ltac:(eassumption)) as (Hp & _ & _).
    eapply sw_struct_ok_ir; eauto.
  - apply mbind_ok in H as (d0 & s1 & Hd & H). unfold ret in H. injection H as <- _. cbn [sw_decl_ok].
    eapply sw_enum_ok_ir; eauto.
  - apply mbind_ok in H as (t & s1 & Ht & H). unfold ret in H. injection H as <- _. cbn [sw_decl_ok].
    unfold c15_sw_item_ok in Hs. cbn [c15_item_strict] in Hs. c15_split_andb.
    destruct (sw_ident_parts (renamed (aid a)) ltac:(eassumption)) as (Hp & _ & _).
    rewrite (sw_prefixed_plain _ Hp). cbn [andb]. apply andb_true_iff. split; [assumption|]. eapply sw_texp_plain; eauto.
  - discriminate.
Qed.

(* one item, no neutrality hypothesis *)
Theorem swn_item_decomp it st text st' : c15_sw_item_ok it = true ->
  sw_write_item uc cfg it st = Ok (text, st') -> DS text (c15_sites false (c15_sw_item_docs uc it)).
Proof.
  unfold sw_write_item. intros Hs H. apply mbind_ok in H as (d & s1 & Hd & H). unfold ret in H. injection H as <- _.
  rewrite <- (sw_decl_docs_ir _ _ _ _ _ _ Hd). apply swn_decl_decomp. eapply sw_decl_ok_ir; eauto.
Qed.

Theorem C15_sw_item it st text st' : c15_sw_item_ok it = true ->
  sw_write_item uc cfg it st = Ok (text, st') ->
  exists parts,
    text = text_of (c15_file_pieces C15sw parts) /\
    docs_of (c15_file_pieces C15sw parts) = c15_sw_item_docs uc it /\
    c15_contained C15sw LCode (mark (c15_file_pieces C15sw parts)) = forallb safe_sw (c15_sw_item_docs uc it).
Proof.
  intros Hs H. destruct (Decomp_contained _ _ _ (swn_item_decomp _ _ _ _ Hs H)) as (ps & Ht & Hd & Hc).
  exists ps. rewrite c15_sites_text_line in Hd by discriminate. rewrite c15_sites_ok_false in Hc by discriminate. auto.
Qed.
End SWStrict.

(* ---- parsed items: doc strings free of line breaks (Proofs/C15_Front.v) stay so when their trailing white space is
   removed, the generated helper comments are built from strict identifiers: the whole item is contained ---- *)
From TS Require Proofs.C15_Front.

Lemma c15_trim_end_free uc d : C15_Front.c15_line_free d -> C15_Front.c15_line_free (c15_trim_end uc d).
Proof.
  unfold C15_Front.c15_line_free, safe_line, c15_trim_end. intros H.
  rewrite C10_SWFile.forallb_rev. apply C10_SWFile.trim_start_all. now rewrite C10_SWFile.forallb_rev.
Qed.

Theorem C15_sw_item_line_free (uc : unicode) (cfg : sw_config) :
  c15_sw_raw (sw_prefix cfg) = true -> c15_mappings_plain C15sw (sw_type_mappings cfg) = true ->
  forallb plain (sw_default_decorators cfg) = true -> forallb plain (sw_default_generic_constraints cfg) = true ->
  forall it st text st', c15_sw_item_ok it = true -> Forall C15_Front.c15_line_free (c15_item_docs it) ->
  sw_write_item uc cfg it st = Ok (text, st') ->
  exists parts,
    text = text_of (c15_file_pieces C15sw parts) /\
    docs_of (c15_file_pieces C15sw parts) = c15_sw_item_docs uc it /\
    c15_contained C15sw LCode (mark (c15_file_pieces C15sw parts)) = true.
Proof.
  intros Hp Hm Hdd Hgc it st text st' Hs Hd H.
  destruct (C15_sw_item uc cfg Hp Hm Hdd Hgc it st text st' Hs H) as (ps & Ht & Hdocs & Hc).
  exists ps. repeat split; auto. rewrite Hc. unfold c15_sw_item_docs.
  assert (Hstrict : c15_item_strict C15sw Swift it = true).
  { unfold c15_sw_item_ok in Hs. now apply andb_true_iff in Hs as [Hs _]. }
  assert (Hall : forallb (c15_safe C15sw false) (c15_item_docs_helpers_first it) = true).
  { rewrite c15_helpers_first_safe.
    rewrite (C15_Front.c15_line_free_forallb _ (C15_Front.c15_generated_free _ _ _ Hstrict) C15sw false).
    exact (C15_Front.c15_line_free_forallb _ Hd C15sw false). }
  apply forallb_forall. intros d Hin. apply in_map_iff in Hin as (d0 & <- & Hd0).
  rewrite forallb_forall in Hall. specialize (Hall d0 Hd0).
  exact (c15_trim_end_free uc d0 Hall).
Qed.

(* non-vacuity: a generic tagged enum with the three variant kinds (a unit variant, a newtype variant whose wire name has a
   dash, a struct variant with a dashed key: helper struct with CodingKeys raw values), with Swift decorators and generic
   constraints, under a configuration with a prefix, a type mapping, default decorators and default generic constraints,
   satisfies the hypotheses; the text the model prints for it - CodingKeys, init(from:) with its string literal,
   encode(to:); docs full of comment openers, quotes and backslashes - is contained *)
Definition c15_swnv_id (o r : string) : id := {| original := lit o; renamed := lit r; via_serde_rename := false |}.
Definition c15_swnv_field (o r : string) (t : rtype) (docs : list str) : rfield :=
  {| fid := c15_swnv_id o r; fty := t; fcomments := docs; has_default := false; fdecs := [] |}.
Definition c15_swnv_vsh (o r : string) (docs : list str) : vshared := {| vid := c15_swnv_id o r; vcomments := docs |}.
Definition c15_swnv_decs : decmap :=
  [(DKSwift, [lit "Equatable"; lit "Hashable"]); (DKSwiftGenericConstraints, [lit "T: Equatable & Hashable"])].
Definition c15_swnv_enum : ritem :=
  ItEnum (EAlgebraic (lit "type") (lit "content")
            {| eid := c15_swnv_id "E" "E"; egenerics := [lit "T"]; ecomments := [c15_doc_nasty_line; lit "trailing  "];
               evariants := [VUnit (c15_swnv_vsh "A" "a" [lit "unit"]);
                             VTuple (ROption (RVec (RSimple (lit "T")))) (c15_swnv_vsh "B" "b-b" [c15_doc_nasty_line]);
                             VAnon [c15_swnv_field "x_y" "x-y" (RHashMap (RPrim PString) (RSimple (lit "Foo"))) [lit "field doc */ "" \"]]
                                   (c15_swnv_vsh "C" "c" [lit "struct variant"])];
               edecs := c15_swnv_decs; erecursive := true; eredacted := false |}).
Definition c15_swnv_unit_enum : ritem :=
  ItEnum (EUnit {| eid := c15_swnv_id "Color" "Color"; egenerics := []; ecomments := [lit "colours"];
                   evariants := [VUnit (c15_swnv_vsh "Red" "red-ish" [c15_doc_nasty_line]); VUnit (c15_swnv_vsh "default" "default" [])];
                   edecs := []; erecursive := false; eredacted := false |}).
Definition c15_swnv_struct : ritem :=
  ItStruct {| sid := c15_swnv_id "Foo" "Foo"; sgenerics := [lit "T"];
              sfields := [c15_swnv_field "a" "a-b" (RGeneric (lit "Bar") [RSimple (lit "T")]) [c15_doc_nasty_line]];
              scomments := [lit "first"; lit "second"]; sdecs := c15_swnv_decs; sredacted := false |}.
Definition c15_swnv_alias : ritem :=
  ItAlias {| aid := c15_swnv_id "Ids" "Ids"; agenerics := []; atype := RVec (RPrim PU32); acomments := [c15_doc_nasty_line];
             adecs := []; aredacted := false |}.
Definition c15_swnv_cfg : sw_config :=
  {| sw_prefix := lit "My"; sw_type_mappings := [(lit "Url", lit "URL")]; sw_default_decorators := [lit "Sendable"];
     sw_default_generic_constraints := [lit "Sendable & Equatable"]; sw_codablevoid_constraints := [];
     sw_no_version_header := true; sw_version := [] |}.
Definition c15_swnv_written (it : ritem) : bool :=
  match sw_write_item uc_exec c15_swnv_cfg it false with
  | Ok (text, _) => good_C15 C15sw (c15_sw_item_docs uc_exec it) text
  | _ => false
  end.
Example C15_sw_item_nonvacuous :
  forallb c15_sw_item_ok [c15_swnv_enum; c15_swnv_unit_enum; c15_swnv_struct; c15_swnv_alias] = true /\
  c15_sw_raw (sw_prefix c15_swnv_cfg) = true /\ c15_mappings_plain C15sw (sw_type_mappings c15_swnv_cfg) = true /\
  forallb plain (sw_default_decorators c15_swnv_cfg) = true /\
  forallb plain (sw_default_generic_constraints c15_swnv_cfg) = true /\
  forallb c15_swnv_written [c15_swnv_enum; c15_swnv_unit_enum; c15_swnv_struct; c15_swnv_alias] = true.
Proof. repeat split; vm_compute; reflexivity. Qed.

(* ================================================================================================
   Swift, whole files: sw_generate = header ++ items (topological order, the flag "() was translated"
   threaded through them) ++ trailer (the CodableVoid helper struct when the flag is set).
   ================================================================================================ *)
From Coq Require Import Permutation.
From TS Require Import Model.TopsortAlgo Model.Topsort.
From TS Require Proofs.C11.

(* ---- the header: a block comment with the version, neutral when the version has no star and no slash ---- *)
Lemma sw_block_version v : c15_sw_version_ok v = true -> lex_str_gen cfg_sw (LBlock 0 PNone) v = LBlock 0 PNone.
Proof.
  unfold c15_sw_version_ok. induction v as [|c r IH]; [reflexivity|]. cbn [forallb]. intros H. apply andb_true_iff in H as [Hc Hr].
  apply andb_true_iff in Hc as [H1 H2]. apply negb_true_iff in H1, H2.
  cbn [lex_str_gen fold_left lex_gen is_star is_pslash andb cfg_sw lc_nested]. rewrite H1, H2. exact (IH Hr).
Qed.

Lemma sw_begin_neutral cfg : c15_sw_version_ok (sw_version cfg) = true -> NS (sw_begin_file cfg).
Proof.
  intros H. unfold sw_begin_file. apply c15_neutral_app; [|reflexivity].
  destruct (sw_no_version_header cfg); [reflexivity|].
  change (lit "/*" ++ sw_nl ++ lit " Generated by typeshare " ++ sw_version cfg ++ sw_nl ++ lit " */" ++ sw_nl ++ sw_nl)
    with ((lit "/*" ++ sw_nl ++ lit " Generated by typeshare ") ++ sw_version cfg ++ (sw_nl ++ lit " */" ++ sw_nl ++ sw_nl)).
  unfold c15_neutral. change (c15_cfg C15sw) with cfg_sw. rewrite lex_str_app.
  change (lex_str_gen cfg_sw LCode (lit "/*" ++ sw_nl ++ lit " Generated by typeshare ")) with (LBlock 0 PNone).
  rewrite lex_str_app, (sw_block_version _ H). reflexivity.
Qed.

Section SWFile.
Variable uc : unicode.
Variable cfg : sw_config.
Hypothesis Hprefix : c15_sw_raw (sw_prefix cfg) = true.
Hypothesis Hmap : c15_mappings_plain C15sw (sw_type_mappings cfg) = true.
Hypothesis Hdecs : forallb plain (sw_default_decorators cfg) = true.
Hypothesis Hgcs : forallb plain (sw_default_generic_constraints cfg) = true.
Hypothesis Hvoid : forallb plain (sw_codablevoid_constraints cfg) = true.
Hypothesis Hversion : c15_sw_version_ok (sw_version cfg) = true.

(* ---- the trailer ---- *)
Lemma sw_end_file_decomp st : DS (sw_end_file cfg st) (c15_sites false (if st then c15_sw_trailer_docs else [])).
Proof.
  unfold sw_end_file, sw_trailing_decls. destruct st; [|apply Decomp_nil].
  cbn [flat_map]. rewrite app_nil_r. apply (swn_decl_decomp (sw_codable_void cfg)).
  unfold sw_codable_void. cbv zeta. cbn [sw_decl_ok].
  assert (Hd : forallb plain (sw_get_default_decorators cfg ++ sw_codablevoid_constraints cfg) = true).
  { rewrite forallb_app, Hvoid, andb_true_r. unfold sw_get_default_decorators. cbn [forallb]. now rewrite Hdecs. }
  destruct (mem_str sw_CODABLE (sw_get_default_decorators cfg ++ sw_codablevoid_constraints cfg)); [exact Hd|].
  now rewrite forallb_app, Hd.
Qed.

(* ---- items in sequence ---- *)
Lemma sw_items_decomp items : forall s texts s',
  forallb c15_sw_item_ok items = true ->
  mmapM (sw_write_item uc cfg) items s = Ok (texts, s') ->
  DS (List.concat texts) (c15_sites false (flat_map (c15_sw_item_docs uc) items)).
Proof.
  induction items as [|it r IH]; intros s texts s' Hp H; cbn [mmapM] in H.
  - unfold ret in H. injection H as <- _. apply Decomp_nil.
  - cbn [forallb] in Hp. apply andb_true_iff in Hp as [Hp1 Hp2].
    apply mbind_ok in H as (t & s1 & Ht & H). apply mbind_ok in H as (ts & s2 & Hts & H).
    unfold ret in H. injection H as <- _.
    cbn [List.concat flat_map]. unfold c15_sites. rewrite map_app. apply Decomp_app; [|exact (IH _ _ _ Hp2 Hts)].
    exact (swn_item_decomp uc cfg Hprefix Hmap Hdecs Hgcs _ _ _ _ Hp1 Ht).
Qed.

(* ---- the whole file ---- *)
Theorem sw_file_decomp pd text :
  forallb c15_sw_item_ok (items_of pd) = true ->
  sw_generate uc cfg pd = Ok text ->
  exists items trailer,
    topsort (items_of pd) = Ok items /\ Permutation items (items_of pd) /\
    (trailer = [] \/ trailer = c15_sw_trailer_docs) /\
    DS text (c15_sites false (flat_map (c15_sw_item_docs uc) items ++ trailer)).
Proof.
  intros Hp H. unfold sw_generate in H. apply c15_bind_ok in H as (items & Hitems & H).
  assert (Hperm : Permutation items (items_of pd)).
  { assert (H' := Hitems). unfold topsort in H'. destruct (build_dag (items_of pd)) as [dag| |] eqn:E; cbn [bind] in H'; try discriminate.
    destruct (Proofs.C11.topsort_permutation _ _ E) as (out & Eo & P). rewrite Hitems in Eo. injection Eo as <-. exact P. }
  rewrite <- (c15_forallb_perm _ _ _ Hperm) in Hp.
  unfold mconcat, mbind in H. destruct (mmapM (sw_write_item uc cfg) items false) as [[texts st]| |] eqn:E; try discriminate.
  unfold ret in H. injection H as <-.
  exists items, (if st then c15_sw_trailer_docs else []). repeat split; auto.
  - destruct st; auto.
  - unfold c15_sites. rewrite map_app, <- (app_nil_l (map _ (flat_map _ _) ++ _)).
    apply Decomp_app; [apply Decomp_code; now apply sw_begin_neutral|].
    apply Decomp_app; [exact (sw_items_decomp items _ _ _ Hp E)|]. apply sw_end_file_decomp.
Qed.

Theorem C15_sw_file pd text :
  forallb c15_sw_item_ok (items_of pd) = true ->
  sw_generate uc cfg pd = Ok text ->
  exists items trailer parts,
    topsort (items_of pd) = Ok items /\ Permutation items (items_of pd) /\
    (trailer = [] \/ trailer = c15_sw_trailer_docs) /\
    text = text_of (c15_file_pieces C15sw parts) /\
    docs_of (c15_file_pieces C15sw parts) = flat_map (c15_sw_item_docs uc) items ++ trailer /\
    c15_contained C15sw LCode (mark (c15_file_pieces C15sw parts)) =
    forallb safe_sw (flat_map (c15_sw_item_docs uc) items).
Proof.
  intros Hp H. destruct (sw_file_decomp _ _ Hp H) as (items & trailer & Ht & Hperm & Htr & HD).
  destruct (Decomp_contained _ _ _ HD) as (ps & Htext & Hd & Hc).
  exists items, trailer, ps. rewrite c15_sites_text_line in Hd by discriminate. rewrite c15_sites_ok_false in Hc by discriminate.
  repeat split; auto. rewrite Hc, forallb_app.
  change (c15_safe C15sw false) with safe_sw.
  destruct Htr as [-> | ->]; [apply andb_true_r|]. now rewrite andb_true_r.
Qed.

(* parsed programs: all doc strings free of line breaks, the file is contained *)
Theorem C15_sw_file_line_free pd text :
  forallb c15_sw_item_ok (items_of pd) = true ->
  Forall (fun it => Forall C15_Front.c15_line_free (c15_item_docs it)) (items_of pd) ->
  sw_generate uc cfg pd = Ok text ->
  exists items trailer parts,
    topsort (items_of pd) = Ok items /\ Permutation items (items_of pd) /\
    (trailer = [] \/ trailer = c15_sw_trailer_docs) /\
    text = text_of (c15_file_pieces C15sw parts) /\
    docs_of (c15_file_pieces C15sw parts) = flat_map (c15_sw_item_docs uc) items ++ trailer /\
    c15_contained C15sw LCode (mark (c15_file_pieces C15sw parts)) = true.
Proof.
  intros Hp Hfree H. destruct (C15_sw_file _ _ Hp H) as (items & trailer & ps & Ht & Hperm & Htr & Htext & Hd & Hc).
  exists items, trailer, ps. repeat split; auto. rewrite Hc.
  apply forallb_forall. intros d Hin. apply in_flat_map in Hin as (it & Hit & Hd0).
  assert (Hin0 : In it (items_of pd)) by (eapply Permutation_in; eauto).
  rewrite Forall_forall in Hfree. rewrite forallb_forall in Hp.
  specialize (Hfree it Hin0). specialize (Hp it Hin0).
  unfold c15_sw_item_docs in Hd0. apply in_map_iff in Hd0 as (d0 & <- & Hd1).
  assert (Hstrict : c15_item_strict C15sw Swift it = true).
  { unfold c15_sw_item_ok in Hp. now apply andb_true_iff in Hp as [Hp _]. }
  assert (Hall : forallb (c15_safe C15sw false) (c15_item_docs_helpers_first it) = true).
  { rewrite c15_helpers_first_safe.
    rewrite (C15_Front.c15_line_free_forallb _ (C15_Front.c15_generated_free _ _ _ Hstrict) C15sw false).
    exact (C15_Front.c15_line_free_forallb _ Hfree C15sw false). }
  rewrite forallb_forall in Hall. exact (c15_trim_end_free uc d0 (Hall d0 Hd1)).
Qed.
End SWFile.

(* non-vacuity for whole files: a version header, the items of C15_sw_item_nonvacuous plus a struct with a () field, so that
   the CodableVoid trailer is printed *)
Definition c15_swnv_file_cfg : sw_config :=
  {| sw_prefix := lit "My"; sw_type_mappings := [(lit "Url", lit "URL")]; sw_default_decorators := [lit "Sendable"];
     sw_default_generic_constraints := [lit "Sendable & Equatable"]; sw_codablevoid_constraints := [lit "Equatable"];
     sw_no_version_header := false; sw_version := lit "1.13.2" |}.
Definition c15_swnv_pd : parsed :=
  {| p_structs := [ match c15_swnv_struct with ItStruct s => s | _ =>
                      {| sid := c15_swnv_id "X" "X"; sgenerics := []; sfields := []; scomments := []; sdecs := []; sredacted := false |} end;
                    {| sid := c15_swnv_id "Bar" "Bar"; sgenerics := [lit "T"];
                       sfields := [c15_swnv_field "nothing" "nothing" (RPrim PUnit) [c15_doc_nasty_line]];
                       scomments := [lit "has a unit"]; sdecs := []; sredacted := false |} ];
     p_enums := [ match c15_swnv_enum with ItEnum e => e | _ =>
                    EUnit {| eid := c15_swnv_id "X" "X"; egenerics := []; ecomments := []; evariants := [];
                             edecs := []; erecursive := false; eredacted := false |} end ];
     p_aliases := []; p_consts := []; p_type_names := [lit "Foo"; lit "Bar"; lit "E"]; p_errors := []; p_imports := [] |}.
Example C15_sw_file_nonvacuous :
  c15_sw_raw (sw_prefix c15_swnv_file_cfg) = true /\ c15_mappings_plain C15sw (sw_type_mappings c15_swnv_file_cfg) = true /\
  forallb plain (sw_default_decorators c15_swnv_file_cfg) = true /\
  forallb plain (sw_default_generic_constraints c15_swnv_file_cfg) = true /\
  forallb plain (sw_codablevoid_constraints c15_swnv_file_cfg) = true /\
  c15_sw_version_ok (sw_version c15_swnv_file_cfg) = true /\
  forallb c15_sw_item_ok (items_of c15_swnv_pd) = true /\
  match sw_generate uc_exec c15_swnv_file_cfg c15_swnv_pd with
  | Ok text => good_C15 C15sw (flat_map (c15_sw_item_docs uc_exec) (items_of c15_swnv_pd)) text &&
               contains_sub (lit "public struct CodableVoid: Codable, Sendable, Equatable {}") text &&
               contains_sub (lit "Generated by typeshare 1.13.2") text
  | _ => false
  end = true.
Proof. repeat split; vm_compute; reflexivity. Qed.
