(* C15 for Swift WITHOUT the neutrality hypothesis: for items in the class c15_sw_item_ok (Spec/C15RenderSwift.v:
   strict identifiers, plain tag key, plain decorators and generic constraints), with a prefix that may stand
   inside a string literal, plain type_mappings targets, plain default decorators and default generic constraints,
   the code sw_write_item prints around the `/// ` fragments keeps the reference lexer in code mode:
   struct heads with their generic constraints and conformance lists, stored properties, CodingKeys with raw values
   between double quotes, init, enum cases, ContainerCodingKeys, init(from:) with its "Wrong type for .." string
   literal, encode(to:), typealias.  Structure as Proofs/C15_Kotlin.v: layout lemmas over the declarations
   (sw_decl_ok), then the decisions (IR item in the class -> declarations that are sw_decl_ok). *)
From Coq Require Import List NArith Bool Lia ZifyBool ZifyN String.
From TS Require Import Model.Str Model.Outcome Model.Unicode Model.Types Model.Parse Model.Rename
                       Model.Lang.Common Model.Lang.Decl Model.Lang.Swift.
From TS Require Import Spec.Lexers Spec.C15Spec Spec.C15Render Spec.C15RenderSwift
                       Proofs.BackCommon Proofs.C15 Proofs.C15_Render Proofs.C15_Swift.
Import ListNotations.
Local Open Scope N_scope.

Notation NS := (c15_neutral C15sw).
Notation plain := (c15_plain C15sw).
Notation DS := (Decomp C15sw NS).

(* ================= the Swift reference lexer on code characters and inside "..." ================= *)
Definition sw_plain_c (c : char) : bool := negb (c =? 47) && negb (c =? 34).

Lemma sw_plain_char_iff c : c15_plain_char C15sw c = sw_plain_c c.
Proof.
  unfold c15_plain_char, lex_code, sw_plain_c. cbn [c15_cfg cfg_sw lc_slash lc_hash lc_triple lc_quotes lc_long andb].
  unfold isin, ch_slash, ch_dq. cbn [existsb].
  destruct (c =? 47), (c =? 34); reflexivity.
Qed.

Lemma sw_plain_chars s : plain s = forallb sw_plain_c s.
Proof. unfold c15_plain. induction s as [|c r IH]; [reflexivity|]. cbn [forallb]. now rewrite sw_plain_char_iff, IH. Qed.

Lemma plain_app_intro a b : plain a = true -> plain b = true -> plain (a ++ b) = true.
Proof. intros Ha Hb. now rewrite c15_plain_app, Ha, Hb. Qed.

Lemma plain_flat_map {A} (f : A -> str) xs : (forall x, In x xs -> plain (f x) = true) -> plain (flat_map f xs) = true.
Proof.
  induction xs as [|x r IH]; intros H; [reflexivity|]. cbn [flat_map].
  apply plain_app_intro; [apply H; now left|apply IH; intros y Hy; apply H; now right].
Qed.

Lemma plain_join_map {A} sep (f : A -> str) xs :
  plain sep = true -> (forall x, In x xs -> plain (f x) = true) -> plain (join sep (map f xs)) = true.
Proof.
  intros Hs H. apply c15_plain_join; [exact Hs|]. rewrite c15_forallb_map. apply forallb_forall. exact H.
Qed.

Lemma sw_raw_plain s : c15_sw_raw s = true -> plain s = true.
Proof.
  unfold c15_sw_raw, c15_plain. intros H. rewrite forallb_forall in H |- *. intros x Hx. specialize (H x Hx).
  unfold c15_sw_raw_char in H. now destruct (c15_plain_char C15sw x).
Qed.

Lemma sw_raw_app a b : c15_sw_raw (a ++ b) = c15_sw_raw a && c15_sw_raw b.
Proof. apply forallb_app. Qed.

Definition sw_in_str (S : lstate) : Prop := S = LOpen ch_dq false \/ S = LStr ch_dq false.

Lemma sw_raw_char_lex S c : sw_in_str S -> c15_sw_raw_char c = true -> lex_gen cfg_sw S c = LStr ch_dq false.
Proof.
  unfold c15_sw_raw_char. rewrite sw_plain_char_iff. unfold sw_plain_c, ch_bs, eol_lf_cr, ch_nl, ch_cr. intros HS H.
  destruct HS as [-> | ->]; cbn [lex_gen lex_quoted cfg_sw lc_eol]; unfold ch_bs, ch_dq, eol_lf_cr, ch_nl, ch_cr.
  - replace (c =? 34) with false by lia. replace (c =? 92) with false by lia.
    replace (false || ((c =? 10) || (c =? 13))) with false by lia. reflexivity.
  - replace (c =? 92) with false by lia. replace ((c =? 34) || ((c =? 10) || (c =? 13))) with false by lia. reflexivity.
Qed.

(* raw text keeps the lexer inside the literal *)
Lemma sw_raw_lex_str s : c15_sw_raw s = true -> lex_str_gen cfg_sw (LStr ch_dq false) s = LStr ch_dq false.
Proof.
  unfold c15_sw_raw. induction s as [|c r IH]; intros H; [reflexivity|].
  cbn [forallb] in H. apply andb_true_iff in H as [Hc Hr]. cbn [lex_str_gen fold_left].
  rewrite (sw_raw_char_lex _ c (or_intror eq_refl) Hc). exact (IH Hr).
Qed.
Lemma sw_raw_lex_open s : s <> [] -> c15_sw_raw s = true -> lex_str_gen cfg_sw (LOpen ch_dq false) s = LStr ch_dq false.
Proof.
  destruct s as [|c r]; [congruence|]. intros _ H. unfold c15_sw_raw in H. cbn [forallb] in H.
  apply andb_true_iff in H as [Hc Hr]. cbn [lex_str_gen fold_left].
  rewrite (sw_raw_char_lex _ c (or_introl eq_refl) Hc). exact (sw_raw_lex_str r Hr).
Qed.

(* pre opens a literal, s is written verbatim, a double quote closes it *)
Lemma sw_rawq_neutral pre s :
  lex_str_gen cfg_sw LCode pre = LOpen ch_dq false -> s <> [] -> c15_sw_raw s = true -> NS (pre ++ s ++ [ch_dq]).
Proof.
  intros Hp Hne Hs. unfold c15_neutral. change (c15_cfg C15sw) with cfg_sw.
  rewrite lex_str_app, Hp, lex_str_app, (sw_raw_lex_open s Hne Hs). reflexivity.
Qed.

(* pre ends inside a literal, s is written verbatim, post closes the literal and ends in code *)
Lemma sw_in_string_neutral pre s post :
  lex_str_gen cfg_sw LCode pre = LStr ch_dq false -> c15_sw_raw s = true ->
  lex_str_gen cfg_sw (LStr ch_dq false) post = LCode -> NS (pre ++ s ++ post).
Proof.
  intros Hp Hs Hq. unfold c15_neutral. change (c15_cfg C15sw) with cfg_sw.
  now rewrite lex_str_app, Hp, lex_str_app, (sw_raw_lex_str s Hs).
Qed.

(* {:?} of a non-empty string without control characters *)
Lemma sw_escape_lex S c : sw_in_str S -> c15_lit_char c = true ->
  lex_str_gen cfg_sw S (escape_debug_char c) = LStr ch_dq false.
Proof.
  unfold c15_lit_char, escape_debug_char, ch_dq, ch_bs, ch_nl, ch_cr, ch_tab, ch_sq. intros HS H.
  repeat match goal with |- context [if ?b then _ else _] =>
           let E := fresh in destruct b eqn:E; [try (destruct HS as [-> | ->]; reflexivity); lia|] end.
  destruct HS as [-> | ->]; cbn [lex_str_gen fold_left lex_gen lex_quoted cfg_sw lc_eol]; unfold ch_bs, ch_dq, eol_lf_cr, ch_nl, ch_cr.
  - replace (c =? 34) with false by lia. replace (c =? 92) with false by lia.
    replace (false || ((c =? 10) || (c =? 13))) with false by lia. reflexivity.
  - replace (c =? 92) with false by lia. replace ((c =? 34) || ((c =? 10) || (c =? 13))) with false by lia. reflexivity.
Qed.

Lemma sw_escapes_lex S s : sw_in_str S -> s <> [] -> c15_lit_str s = true ->
  lex_str_gen cfg_sw S (flat_map escape_debug_char s) = LStr ch_dq false.
Proof.
  unfold c15_lit_str. revert S. induction s as [|c r IH]; intros S HS Hne H; [congruence|].
  cbn [forallb] in H. apply andb_true_iff in H as [Hc Hr]. cbn [flat_map]. rewrite lex_str_app, (sw_escape_lex S c HS Hc).
  destruct r as [|c2 r2]; [reflexivity|]. apply IH; [now right|discriminate|exact Hr].
Qed.

Lemma sw_debug_neutral s : s <> [] -> c15_lit_str s = true -> NS (debug_str s).
Proof.
  intros Hne H. unfold c15_neutral, debug_str. rewrite lex_str_app.
  change (lex_str_gen (c15_cfg C15sw) LCode [ch_dq]) with (LOpen ch_dq false). rewrite lex_str_app.
  change (c15_cfg C15sw) with cfg_sw. rewrite (sw_escapes_lex (LOpen ch_dq false) s); [reflexivity|now left|exact Hne|exact H].
Qed.

(* ================= the declarations whose code is neutral ================= *)
(* a raw value: printed between double quotes verbatim (CodingKeys) or through {:?} (String-backed enum) *)
Definition sw_rawq_ok (s : str) : bool := match s with [] => false | _ => c15_sw_raw s && c15_lit_str s end.

Definition sw_generics_ok (gs : list (str * list str)) : bool :=
  forallb (fun g => plain (fst g) && forallb plain (snd g)) gs.
Definition sw_member_ok (m : sw_member) : bool :=
  plain (swm_name m) && match swm_coding_key m with Some k => sw_rawq_ok k | None => true end &&
  plain (sw_show (swm_type m)) && plain (sw_show (swm_init_type m)).
Definition sw_struct_ok (s : sw_struct) : bool :=
  plain (sws_name s) && sw_generics_ok (sws_generics s) && forallb plain (sws_decs s) && forallb sw_member_ok (sws_members s).
Definition sw_payload_ok (p : sw_payload) : bool :=
  match p with
  | SWPUnit => true
  | SWPTuple ty _ _ => plain (sw_show ty)
  | SWPInner name gs => plain name && forallb plain gs
  end.
Definition sw_variant_ok (v : sw_variant) : bool :=
  plain (swv_name v) && match swv_raw v with Some w => sw_rawq_ok w | None => true end && sw_payload_ok (swv_payload v).
Definition sw_enum_ok (e : sw_enum) : bool :=
  forallb sw_struct_ok (swe_inner e) && c15_sw_raw (swe_name e) && sw_generics_ok (swe_generics e) &&
  forallb plain (swe_decs e) &&
  match swe_tagged e with Some (tag, content) => plain tag && plain content | None => true end &&
  forallb sw_variant_ok (swe_variants e).
Definition sw_decl_ok (d : sw_decl) : bool :=
  match d with
  | SWStruct s => sw_struct_ok s
  | SWAlias _ name _ gs ty => plain name && forallb plain gs && plain (sw_show ty)
  | SWEnum e => sw_enum_ok e
  | SWCodableVoid decs => forallb plain decs
  end.

(* ================= layout: plain pieces ================= *)
Lemma sw_show_name_plain n e : plain n = true -> plain (sw_show_name n e) = true.
Proof. intros H. unfold sw_show_name. destruct e; [|exact H]. now rewrite !c15_plain_app, H. Qed.

Lemma sw_tabs_plain n : plain (sw_tabs n) = true.
Proof. unfold sw_tabs. induction n as [|n IH]; [reflexivity|]. cbn [repeat_str]. now rewrite c15_plain_app, IH. Qed.

Lemma sw_line_plain n s : plain s = true -> plain (sw_line n s) = true.
Proof. intros H. unfold sw_line. now rewrite !c15_plain_app, sw_tabs_plain, H. Qed.

(* syntactic dispatch (no conversion problems handed to the unifier: the texts are long) *)
Ltac sw_plain :=
  repeat match goal with
    | |- c15_plain _ (_ ++ _) = true => apply plain_app_intro
    | |- c15_plain _ (sw_line _ _) = true => apply sw_line_plain
    | |- c15_plain _ (sw_show_name _ _) = true => apply sw_show_name_plain
    | |- c15_plain _ (sw_tabs _) = true => apply sw_tabs_plain
    | |- c15_plain _ (generics_suffix _) = true => apply c15_plain_generics_suffix
    | |- c15_plain _ (if ?b then _ else _) = true => destruct b
    | |- c15_plain _ (lit _) = true => vm_compute; reflexivity
    | |- c15_plain _ sw_nl = true => reflexivity
    | |- c15_plain _ sw_CODABLE_VOID = true => reflexivity
    | |- c15_plain _ [] = true => reflexivity
    | |- _ => assumption
    end.
Ltac sw_atom := solve [ apply c15_neutral_plain; sw_plain ].

Lemma Decomp_sw_line n x s : DS x s -> DS (sw_line n x) s.
Proof.
  intros H. unfold sw_line. change s with ([] ++ [] ++ s).
  apply Decomp_app; [apply Decomp_code; reflexivity|].
  apply Decomp_app; [apply Decomp_code, c15_neutral_plain, sw_tabs_plain|exact H].
Qed.

(* decompose a rendered text along its ++ structure: comment fragments, sub-renderers by [tac], the rest are
   code atoms made of plain pieces *)
Ltac swn_decomp tac :=
  repeat match goal with
    | |- Decomp _ _ (sw_render_comments _ _) _ => apply (sw_comments_decomp NS)
    | |- Decomp _ _ _ _ => tac
    | |- Decomp _ _ (_ ++ _) _ => apply Decomp_app
    | |- Decomp _ _ (sw_line _ _) _ => apply Decomp_sw_line
    | |- Decomp _ _ _ _ => apply Decomp_code; sw_atom
    end.

Lemma sw_generic_header_plain gs : sw_generics_ok gs = true -> plain (sw_render_generic_header gs) = true.
Proof.
  unfold sw_generics_ok, sw_render_generic_header. intros H. destruct gs as [|g r]; [reflexivity|].
  generalize dependent (g :: r). clear g r. intros gs H.
  apply plain_app_intro; [reflexivity|]. apply plain_app_intro; [|reflexivity].
  apply plain_join_map; [reflexivity|]. intros x Hx. rewrite forallb_forall in H. specialize (H x Hx).
  apply andb_true_iff in H as [H1 H2]. apply plain_app_intro; [exact H1|]. apply plain_app_intro; [reflexivity|].
  apply c15_plain_join; [reflexivity|exact H2].
Qed.

Lemma sw_decs_join_plain ds : forallb plain ds = true -> plain (join (lit ", ") ds) = true.
Proof. intros H. apply c15_plain_join; [reflexivity|exact H]. Qed.

Lemma sw_member_ok_parts m : sw_member_ok m = true ->
  plain (swm_name m) = true /\ plain (sw_member_ident m) = true /\ plain (sw_show (swm_type m)) = true /\
  plain (sw_show (swm_init_type m)) = true /\ plain (sw_member_opt m) = true.
Proof.
  unfold sw_member_ok. intros H. c15_split_andb. repeat split; try assumption.
  - unfold sw_member_ident. now apply sw_show_name_plain.
  - unfold sw_member_opt. now destruct (swm_default_opt m).
Qed.

(* a CodingKeys case with a raw value *)
Lemma sw_key_neutral ident w : plain ident = true -> sw_rawq_ok w = true -> NS (ident ++ lit " = """ ++ w ++ lit """").
Proof.
  intros Hi Hw. apply c15_neutral_app; [now apply c15_neutral_plain|].
  unfold sw_rawq_ok in Hw. destruct w as [|c r]; [discriminate|]. apply andb_true_iff in Hw as [Hw _].
  apply sw_rawq_neutral; [reflexivity|discriminate|exact Hw].
Qed.

Lemma sw_coding_keys_block_neutral keys : Forall NS keys -> NS (sw_render_coding_keys_block keys).
Proof.
  intros H. unfold sw_render_coding_keys_block, sw_line.
  repeat first [ apply c15_neutral_join; [vm_compute; reflexivity|exact H]
               | apply c15_neutral_app
               | vm_compute; reflexivity ].
Qed.

Lemma sw_member_keys_neutral ms : forallb sw_member_ok ms = true ->
  NS (sw_render_coding_keys_block (map sw_render_member_coding_key ms)).
Proof.
  intros H. apply sw_coding_keys_block_neutral. apply Forall_map. rewrite forallb_forall in H. apply Forall_forall.
  intros m Hm. destruct (sw_member_ok_parts m (H m Hm)) as (_ & Hi & _). pose proof (H m Hm) as Hok.
  unfold sw_member_ok in Hok. c15_split_andb. unfold sw_render_member_coding_key.
  destruct (swm_coding_key m); [now apply sw_key_neutral|now apply c15_neutral_plain].
Qed.

Lemma sw_init_params_plain ms : forallb sw_member_ok ms = true ->
  plain (join (lit ", ") (map sw_render_init_param ms)) = true.
Proof.
  intros H. apply plain_join_map; [reflexivity|]. intros m Hm. rewrite forallb_forall in H.
  destruct (sw_member_ok_parts m (H m Hm)) as (Hn & _ & _ & Ht & Ho). unfold sw_render_init_param. sw_plain.
Qed.

Lemma sw_members_self_plain ms : forallb sw_member_ok ms = true ->
  plain (flat_map (fun m => sw_line 2 (lit "self." ++ swm_name m ++ lit " = " ++ sw_member_ident m)) ms) = true.
Proof.
  intros H. apply plain_flat_map. intros m Hm. rewrite forallb_forall in H.
  destruct (sw_member_ok_parts m (H m Hm)) as (Hn & Hi & _). sw_plain.
Qed.

(* ================= layout: the declarations ================= *)
Lemma swn_member_decomp m : sw_member_ok m = true -> DS (sw_render_member m) (c15_sites false (swm_docs m)).
Proof.
  intros H. destruct (sw_member_ok_parts m H) as (Hn & Hi & Ht & _ & Ho). unfold sw_render_member.
  eapply Decomp_eq; [swn_decomp ltac:(fail)|]. c15_sites_norm.
Qed.

Lemma swn_struct_decomp s : sw_struct_ok s = true -> DS (sw_render_struct s) (c15_sites false (sw_struct_docs s)).
Proof.
  unfold sw_struct_ok, sw_render_struct, sw_struct_docs. cbv zeta. intros H. c15_split_andb.
  match goal with Hm : forallb sw_member_ok _ = true |- _ => rename Hm into Hms end.
  eapply Decomp_eq;
    [swn_decomp ltac:(idtac; match goal with
       | |- Decomp _ _ (flat_map sw_render_member _) _ =>
         apply (Decomp_flat_map C15sw NS sw_render_member) with (g := fun m => c15_sites false (swm_docs m));
         intros m Hin; rewrite forallb_forall in Hms; apply swn_member_decomp, Hms, Hin
       | |- Decomp _ _ (sw_render_generic_header _) _ =>
         apply Decomp_code; apply c15_neutral_plain; apply sw_generic_header_plain; assumption
       | |- Decomp _ _ (join _ (map sw_render_init_param _)) _ =>
         apply Decomp_code; apply c15_neutral_plain; apply sw_init_params_plain; assumption
       | |- Decomp _ _ (join _ _) _ =>
         apply Decomp_code; apply c15_neutral_plain; apply sw_decs_join_plain; assumption
       | |- Decomp _ _ (flat_map _ _) _ =>
         apply Decomp_code; apply c15_neutral_plain; apply sw_members_self_plain; assumption
       | |- Decomp _ _ (if sws_coding_keys _ then _ else _) _ =>
         apply Decomp_code; destruct (sws_coding_keys s); [apply sw_member_keys_neutral; assumption|reflexivity]
       end)|].
  c15_sites_norm.
Qed.

(* ---- enums ---- *)
Lemma sw_variant_ok_parts v : sw_variant_ok v = true ->
  plain (swv_name v) = true /\ plain (sw_variant_ident v) = true.
Proof.
  unfold sw_variant_ok. intros H. c15_split_andb. split; [assumption|].
  unfold sw_variant_ident. now apply sw_show_name_plain.
Qed.

Lemma swn_unit_case_decomp v : sw_variant_ok v = true -> DS (sw_render_unit_case v) (c15_sites false (swv_docs v)).
Proof.
  intros H. destruct (sw_variant_ok_parts v H) as (Hn & Hi). unfold sw_variant_ok in H. c15_split_andb.
  unfold sw_render_unit_case. destruct (swv_raw v) as [w|].
  - assert (Hd : NS (debug_str w)).
    { match goal with Hw : sw_rawq_ok w = true |- _ => unfold sw_rawq_ok in Hw; destruct w as [|c r]; [discriminate|];
        apply andb_true_iff in Hw as [_ Hw]; apply sw_debug_neutral; [discriminate|exact Hw] end. }
    eapply Decomp_eq; [swn_decomp ltac:(idtac; match goal with |- Decomp _ _ (debug_str _) _ => apply Decomp_code; exact Hd end)|]. c15_sites_norm.
  - eapply Decomp_eq; [swn_decomp ltac:(fail)|]. c15_sites_norm.
Qed.

Lemma swn_case_decomp v : sw_variant_ok v = true -> DS (sw_render_case v) (c15_sites false (swv_docs v)).
Proof.
  intros H. destruct (sw_variant_ok_parts v H) as (Hn & Hi). unfold sw_variant_ok in H. c15_split_andb.
  unfold sw_render_case. destruct (swv_payload v) as [|ty esc opt|name gs]; cbn [sw_payload_ok] in *; c15_split_andb;
    (eapply Decomp_eq; [swn_decomp ltac:(fail)|]; c15_sites_norm).
Qed.

Lemma sw_coding_key_neutral v : sw_variant_ok v = true -> NS (sw_render_coding_key v).
Proof.
  intros H. destruct (sw_variant_ok_parts v H) as (Hn & Hi). unfold sw_variant_ok in H. c15_split_andb.
  unfold sw_render_coding_key. destruct (swv_raw v); [now apply sw_key_neutral|now apply c15_neutral_plain].
Qed.

Lemma sw_variant_keys_neutral vs : forallb sw_variant_ok vs = true ->
  NS (match vs with [] => [] | _ => sw_render_coding_keys_block (map sw_render_coding_key vs) end).
Proof.
  intros H. destruct vs as [|v r]; [reflexivity|]. apply sw_coding_keys_block_neutral, Forall_map.
  rewrite forallb_forall in H. apply Forall_forall. intros x Hx. apply sw_coding_key_neutral, H, Hx.
Qed.

Lemma sw_decoding_plain content v : plain content = true -> sw_variant_ok v = true ->
  plain (sw_render_decoding content v) = true.
Proof.
  intros Hc H. destruct (sw_variant_ok_parts v H) as (Hn & Hi). unfold sw_variant_ok in H. c15_split_andb.
  unfold sw_render_decoding. cbv zeta.
  destruct (swv_payload v) as [|ty esc opt|name gs]; cbn [sw_payload_ok] in *; c15_split_andb; [| destruct opt |]; sw_plain.
Qed.

Lemma sw_encoding_plain tag content v : plain tag = true -> plain content = true -> sw_variant_ok v = true ->
  plain (sw_render_encoding tag content v) = true.
Proof.
  intros Ht Hc H. destruct (sw_variant_ok_parts v H) as (Hn & Hi). unfold sw_variant_ok in H. c15_split_andb.
  unfold sw_render_encoding.
  destruct (swv_payload v) as [|ty esc opt|name gs]; sw_plain.
Qed.

(* the line of init(from:) that spells the enum's name inside a string literal *)
Lemma sw_wrong_type_neutral enum_name : c15_sw_raw enum_name = true ->
  NS (sw_line 2 (lit "throw DecodingError.typeMismatch(" ++ enum_name ++
                 lit ".self, DecodingError.Context(codingPath: decoder.codingPath, debugDescription: ""Wrong type for " ++
                 enum_name ++ lit """))")).
Proof.
  intros H. pose proof (sw_raw_plain _ H) as Hp. unfold sw_line.
  apply c15_neutral_app; [reflexivity|]. apply c15_neutral_app; [reflexivity|].
  apply c15_neutral_app; [reflexivity|]. apply c15_neutral_app; [now apply c15_neutral_plain|].
  apply sw_in_string_neutral; [vm_compute; reflexivity|exact H|vm_compute; reflexivity].
Qed.

Lemma sw_show_name_raw n e : c15_sw_raw n = true -> c15_sw_raw (sw_show_name n e) = true.
Proof. intros H. unfold sw_show_name. destruct e; [|exact H]. now rewrite !sw_raw_app, H. Qed.

Lemma swn_enum_decomp e : sw_enum_ok e = true -> DS (sw_render_enum e) (c15_sites false (sw_enum_docs e)).
Proof.
  unfold sw_enum_ok, sw_render_enum, sw_enum_docs. cbv zeta. intros H. c15_split_andb.
  match goal with Hm : forallb sw_struct_ok _ = true |- _ => rename Hm into Hin end.
  match goal with Hm : forallb sw_variant_ok _ = true |- _ => rename Hm into Hvs end.
  match goal with Hm : c15_sw_raw (swe_name e) = true |- _ => rename Hm into Hraw end.
  pose proof (sw_show_name_raw _ (swe_escaped e) Hraw) as Hnr. pose proof (sw_raw_plain _ Hnr) as Hnp.
  pose proof (proj1 (forallb_forall _ _) Hin) as HinF. pose proof (proj1 (forallb_forall _ _) Hvs) as HvsF.
  pose proof (sw_variant_keys_neutral _ Hvs) as Hkeys. pose proof (sw_raw_plain _ Hraw) as Hrp.
  destruct (swe_tagged e) as [[tag_key content_key]|]; c15_split_andb.
  - eapply Decomp_eq;
      [swn_decomp ltac:(idtac; match goal with
         | |- Decomp _ _ (flat_map sw_render_struct _) _ =>
           apply (Decomp_flat_map C15sw NS sw_render_struct) with (g := fun s => c15_sites false (sw_struct_docs s));
           intros s Hs; apply swn_struct_decomp, HinF, Hs
         | |- Decomp _ _ (flat_map sw_render_case _) _ =>
           apply (Decomp_flat_map C15sw NS sw_render_case) with (g := fun v => c15_sites false (swv_docs v));
           intros v Hv; apply swn_case_decomp, HvsF, Hv
         | |- Decomp _ _ (sw_render_generic_header _) _ =>
           apply Decomp_code; apply c15_neutral_plain; apply sw_generic_header_plain; assumption
         | |- Decomp _ _ (join _ _) _ =>
           apply Decomp_code; apply c15_neutral_plain; apply sw_decs_join_plain; assumption
         | |- Decomp _ _ (match ?x with [] => ?a | _ :: _ => ?b end) _ => apply Decomp_code; exact Hkeys
         | |- Decomp _ _ (sw_line 2 (lit "throw DecodingError.typeMismatch(" ++ _)) _ =>
           apply Decomp_code; apply sw_wrong_type_neutral; assumption
         | |- Decomp _ _ (flat_map (sw_render_decoding _) _) _ =>
           apply Decomp_code; apply c15_neutral_plain; apply plain_flat_map; intros v Hv;
           apply sw_decoding_plain; [assumption|apply HvsF, Hv]
         | |- Decomp _ _ (flat_map (sw_render_encoding _ _) _) _ =>
           apply Decomp_code; apply c15_neutral_plain; apply plain_flat_map; intros v Hv;
           apply sw_encoding_plain; [assumption|assumption|apply HvsF, Hv]
         end)|].
    c15_sites_norm.
  - eapply Decomp_eq;
      [swn_decomp ltac:(idtac; match goal with
         | |- Decomp _ _ (flat_map sw_render_struct _) _ =>
           apply (Decomp_flat_map C15sw NS sw_render_struct) with (g := fun s => c15_sites false (sw_struct_docs s));
           intros s Hs; apply swn_struct_decomp, HinF, Hs
         | |- Decomp _ _ (flat_map sw_render_unit_case _) _ =>
           apply (Decomp_flat_map C15sw NS sw_render_unit_case) with (g := fun v => c15_sites false (swv_docs v));
           intros v Hv; apply swn_unit_case_decomp, HvsF, Hv
         | |- Decomp _ _ (sw_render_generic_header _) _ =>
           apply Decomp_code; apply c15_neutral_plain; apply sw_generic_header_plain; assumption
         | |- Decomp _ _ (join _ _) _ =>
           apply Decomp_code; apply c15_neutral_plain; apply sw_decs_join_plain; assumption
         end)|].
    c15_sites_norm.
Qed.

Theorem swn_decl_decomp d : sw_decl_ok d = true -> DS (sw_render_decl d) (c15_sites false (sw_decl_docs d)).
Proof.
  intros H. destruct d as [s|docs name esc gs ty|e|decs]; cbn [sw_decl_ok sw_render_decl sw_decl_docs] in *.
  - now apply swn_struct_decomp.
  - c15_split_andb. eapply Decomp_eq; [swn_decomp ltac:(fail)|]. c15_sites_norm.
  - now apply swn_enum_decomp.
  - eapply Decomp_eq;
      [swn_decomp ltac:(idtac; match goal with |- Decomp _ _ (join _ _) _ =>
                          apply Decomp_code; apply c15_neutral_plain; apply sw_decs_join_plain; assumption end)|].
    c15_sites_norm.
Qed.
