(* C03 for Kotlin: one definition per item plus one <Enum><Variant>Inner class per struct variant, each
   listing exactly the IR's members / variants in order. *)
From Coq Require Import String List Bool Arith Lia Permutation.
From TS Require Import Model.Str Model.Outcome Model.Unicode Model.Types Model.Parse Model.TopsortAlgo Model.Topsort
                       Model.Lang.Common Model.Lang.Decl Model.Lang.Kotlin.
From TS Require Import Spec.C03Spec.
From TS Require Import Proofs.BackCommon Proofs.C03Back.
Import ListNotations.

Section KT.
Variable uc : unicode.
Variable cfg : kt_config.

Lemma kt_member_key f gs rsn vis m : kt_member_of cfg f gs rsn vis = Ok m ->
  c03_undash (mb_key (kt_obs_member m)) = c03_undash (renamed (fid f)).
Proof.
  unfold kt_member_of. destruct (match type_override f Kotlin with Some o => Ok (XRaw o) | None => kt_texp cfg gs (fty f) end) as [ty| |];
    cbn [bind]; try discriminate.
  intros [= <-]. cbn [kt_obs_member mb_key km_serial_name km_name]. destruct rsn; [reflexivity|].
  unfold kt_remove_dash_from_identifier. apply undash_idem.
Qed.

Lemma kt_struct_sig rs d : kt_struct_decl cfg rs = Ok d ->
  c03_sig_of (kt_obs d) = c03_x_struct (c03_keys_of (sfields rs)).
Proof.
  unfold kt_struct_decl. destruct (sfields rs) as [|f0 fs0] eqn:Ef.
  - intros [= <-]. reflexivity.
  - destruct (mapM _ (f0 :: fs0)) as [ms| |] eqn:Em; cbn [bind]; try discriminate. intros [= <-].
    apply sig_of_struct; [reflexivity|]. cbn [kt_obs d_members].
    apply member_keys_Forall2. eapply mapM_Forall2'; [|exact Em].
    intros f m Hf. exact (kt_member_key _ _ _ _ _ Hf).
Qed.

Lemma kt_inner_sigs e ds : kt_inner_decls cfg e = Ok ds ->
  map c03_sig_of (map kt_obs ds) = map c03_x_struct (c03_anon_keys (evariants (enum_shared e))).
Proof.
  unfold kt_inner_decls. destruct (mapM _ (evariants (enum_shared e))) as [dss| |] eqn:Em; cbn [bind]; try discriminate.
  intros [= <-]. revert dss Em. generalize (evariants (enum_shared e)) as vs.
  induction vs as [|v vs IH]; intros dss Em; cbn [mapM] in Em.
  - injection Em as <-. reflexivity.
  - destruct v as [sh|t sh|fs sh]; cbn [bind] in Em.
    + destruct (mapM _ vs) as [r| |] eqn:Er; cbn [bind] in Em; try discriminate. injection Em as <-.
      cbn [List.concat app c03_anon_keys flat_map]. exact (IH _ eq_refl).
    + destruct (mapM _ vs) as [r| |] eqn:Er; cbn [bind] in Em; try discriminate. injection Em as <-.
      cbn [List.concat app c03_anon_keys flat_map]. exact (IH _ eq_refl).
    + destruct (kt_struct_decl cfg _) as [d| |] eqn:Ed; cbn [bind] in Em; try discriminate.
      destruct (mapM _ vs) as [r| |] eqn:Er; cbn [bind] in Em; try discriminate. injection Em as <-.
      cbn [List.concat app c03_anon_keys flat_map map]. rewrite (kt_struct_sig _ _ Ed). cbn [anon_struct sfields].
      f_equal. exact (IH _ eq_refl).
Qed.

Theorem kt_item it ds : kt_decl_of cfg it = Ok ds -> dom_C03_item it = true ->
  map c03_sig_of (map kt_obs ds) = c03_expected_sigs Kotlin it /\ c03_payloads_ok Kotlin it (map kt_obs ds) = true.
Proof.
  destruct it as [s|e|a|c]; cbn [kt_decl_of]; intros H Hdom.
  - destruct (kt_struct_decl cfg s) as [d| |] eqn:Ed; cbn [bind] in H; try discriminate. injection H as <-.
    split; [|reflexivity]. cbn [map c03_expected_sigs]. now rewrite (kt_struct_sig _ _ Ed).
  - unfold kt_enum_decls in H.
    destruct (kt_inner_decls cfg e) as [anon| |] eqn:Ea; cbn [bind] in H; try discriminate.
    pose proof (kt_inner_sigs _ _ Ea) as Hin.
    destruct e as [sh|tag content sh]; cbn [enum_shared] in *.
    + destruct (mapM kt_entry_of (evariants sh)) as [es| |] eqn:Em; cbn [bind] in H; try discriminate. injection H as <-.
      rewrite map_app. cbn [map].
      apply (enum_item Kotlin (EUnit sh) (map kt_obs anon)); [reflexivity|rewrite app_nil_r; exact Hin| |reflexivity].
      cbn [kt_obs d_variants enum_shared]. apply Forall2_map_r'.
      cbn [dom_C03_item] in Hdom.
      eapply mapM_Forall2_In; [|exact Em]. intros v en Hv He. unfold kt_entry_of in He. injection He as <-.
      pose proof (proj1 (forallb_forall _ _) Hdom v Hv) as Hu. destruct v; try discriminate. repeat split.
    + destruct (mapM (kt_variant_of cfg sh) (evariants sh)) as [vs| |] eqn:Em; cbn [bind] in H; try discriminate. injection H as <-.
      rewrite map_app. cbn [map].
      apply (enum_item Kotlin (EAlgebraic tag content sh) (map kt_obs anon)); [reflexivity|rewrite app_nil_r; exact Hin| |reflexivity].
      cbn [kt_obs d_variants enum_shared]. apply Forall2_map_r'.
      eapply mapM_Forall2'; [|exact Em]. intros v kv Hv. unfold kt_variant_of in Hv.
      destruct v as [vsh|t vsh|fs vsh]; cbn [bind] in Hv.
      * injection Hv as <-. repeat split.
      * destruct (kt_texp cfg (egenerics sh) t); cbn [bind] in Hv; try discriminate. injection Hv as <-. repeat split.
      * injection Hv as <-. repeat split.
  - destruct (kt_alias_decl cfg a) as [d| |] eqn:Ed; cbn [bind] in H; try discriminate. injection H as <-.
    split; [|reflexivity]. cbn [map c03_expected_sigs]. f_equal. apply sig_of_alias.
    unfold kt_alias_decl in Ed. destruct (kt_is_inline (adecs a)).
    + destruct (kt_member_of cfg _ _ _ _); cbn [bind] in Ed; try discriminate. injection Ed as <-. reflexivity.
    + destruct (kt_texp cfg _ _); cbn [bind] in Ed; try discriminate. injection Ed as <-. reflexivity.
  - discriminate.
Qed.

Theorem kt_item_good it ds : kt_decl_of cfg it = Ok ds -> dom_C03_item it = true ->
  good_C03_item Kotlin it (map kt_obs ds) = true.
Proof. intros H Hd. destruct (kt_item it ds H Hd). now apply item_good. Qed.

Theorem kt_file pd fd : kt_file_decls uc cfg pd = Ok fd -> dom_C03_file pd = true -> good_C03_file Kotlin pd fd = true.
Proof.
  unfold kt_file_decls, kt_decls. intros H Hdom.
  destruct (topsort (items_of pd)) as [items| |] eqn:Et; cbn [bind] in H; try discriminate.
  destruct (mapM (kt_decl_of cfg) items) as [dss| |] eqn:Em; cbn [bind] in H; try discriminate.
  injection H as <-. unfold good_C03_file. cbn [fd_decls].
  pose proof (topsort_perm _ _ Et) as P.
  pose proof (file_good_decls Kotlin pd items (map (map kt_obs) dss) [] [] P) as G.
  cbn [app] in G. rewrite app_nil_r, <- concat_map_map in G. apply G; [|reflexivity|reflexivity].
  apply Forall2_map_r'. eapply mapM_Forall2_In; [|exact Em].
  intros it ds Hin Hd. exact (proj1 (kt_item it ds Hd (dom_items_perm pd items Hdom P it Hin))).
Qed.
End KT.
