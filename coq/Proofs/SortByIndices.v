(* core/src/topsort.rs sort_by_indices: for every permutation [ind] of 0..n-1 the in-place
   cycle-following loop neither panics nor runs out of fuel, and result[i] = data[ind[i]]. *)
From Coq Require Import List Arith Bool Lia Permutation.
From TS Require Import Model.Outcome Model.TopsortAlgo.
Import ListNotations.

(* ---- set_nth ---- *)
Lemma length_set_nth : forall B (l : list B) i x, length (set_nth l i x) = length l.
Proof. induction l as [|y r IH]; intros [|i] x; simpl; auto. Qed.

Lemma nth_set_nth : forall B (l : list B) i x j d, i < length l ->
  nth j (set_nth l i x) d = if Nat.eqb j i then x else nth j l d.
Proof.
  induction l as [|y r IH]; intros i x j d Hi; simpl in Hi; [lia|].
  destruct i as [|i]; destruct j as [|j]; simpl; auto.
  apply IH; lia.
Qed.

Lemma set_nth_same : forall B (l : list B) i d, i < length l -> set_nth l i (nth i l d) = l.
Proof.
  induction l as [|y r IH]; intros i d Hi; simpl in Hi; [lia|].
  destruct i as [|i]; simpl; auto.
  f_equal. apply IH; lia.
Qed.

(* ---- number of non fixed points (fuel measure) ---- *)
Fixpoint nfp (k : nat) (l : list nat) : nat :=
  match l with
  | [] => 0
  | x :: r => (if Nat.eqb x k then 0 else 1) + nfp (S k) r
  end.

Lemma nfp_le : forall l k, nfp k l <= length l.
Proof.
  induction l as [|x r IH]; intros k; simpl; auto.
  specialize (IH (S k)). destruct (Nat.eqb x k); lia.
Qed.

Lemma nfp_set : forall l k i, i < length l -> nth i l 0 <> k + i ->
  S (nfp k (set_nth l i (k + i))) = nfp k l.
Proof.
  induction l as [|x r IH]; intros k i Hi Hne; simpl in Hi; [lia|].
  destruct i as [|i]; simpl in *.
  - rewrite Nat.add_0_r in *. rewrite Nat.eqb_refl.
    destruct (Nat.eqb_spec x k); [lia|]. reflexivity.
  - replace (k + S i) with (S k + i) in * by lia.
    rewrite <- (IH (S k) i); [|lia|assumption]. lia.
Qed.

Section Spec.
Variable A : Type.
Variable d : A.
Variable D : list A.
Variable pi : list nat.
Local Notation n := (length D).

(* data[ind[i]] = D[pi[i]] *)
Definition G (data : list A) (ind : list nat) : Prop :=
  forall i, i < n -> nth (nth i ind 0) data d = nth (nth i pi 0) D d.

Definition permlike (ind : list nat) : Prop :=
  length ind = n /\
  (forall i, i < n -> nth i ind 0 < n) /\
  (forall i j, i < n -> j < n -> nth i ind 0 = nth j ind 0 -> i = j).

Lemma permlike_surj : forall ind, permlike ind ->
  forall v, v < n -> exists l, l < n /\ nth l ind 0 = v.
Proof.
  intros ind (Hlen & Hb & Hinj) v Hv.
  assert (Hnd : NoDup ind).
  { apply (NoDup_nth ind 0). intros i j Hi Hj. apply Hinj; lia. }
  assert (Hincl : incl ind (seq 0 n)).
  { intros x Hx. destruct (In_nth ind x 0 Hx) as (i & Hi & Hix).
    apply in_seq. subst x. specialize (Hb i). lia. }
  assert (Hincl' : incl (seq 0 n) ind).
  { apply NoDup_length_incl; auto. rewrite seq_length. lia. }
  assert (Hin : In v ind). { apply Hincl'. apply in_seq. lia. }
  destruct (In_nth ind v 0 Hin) as (l & Hl & Hlv).
  exists l. split; [lia|assumption].
Qed.

(* Invariant of the inner loop.  [s] is the start of the cycle, [l] the position with
   ind[l] = s (the last one of the cycle).  With ind[l] replaced by [cur], the index list is a
   permutation and satisfies G: the element that belongs to position [l] travels with [cur]. *)
Lemma follow_ok : forall s l fuel data ind cur,
  length data = n -> l < n -> s < n -> cur < n -> length ind = n ->
  nth l ind 0 = s -> l <> s -> nth cur ind 0 <> cur ->
  (cur = s \/ nth s ind 0 = s) ->
  permlike (set_nth ind l cur) -> G data (set_nth ind l cur) ->
  nfp 0 ind <= fuel ->
  exists data' ind', follow fuel data ind cur = Ok (data', ind') /\
    length data' = n /\ permlike ind' /\ G data' ind' /\ nth s ind' 0 = s.
Proof.
  intros s l fuel. induction fuel as [|f IH];
    intros data ind cur Hld Hl Hs Hcur Hli Hls Hlne Hcne Hsfix Hperm HG Hfuel.
  - exfalso. pose proof (nfp_set ind 0 cur) as Hn. simpl in Hn.
    rewrite <- Hn in Hfuel; lia.
  - simpl.
    assert (Hf : forall i, nth i (set_nth ind l cur) 0 = if Nat.eqb i l then cur else nth i ind 0).
    { intros i. apply nth_set_nth. lia. }
    destruct Hperm as (_ & Hb & Hinj).
    assert (Htgt : nth cur ind 0 < n).
    { specialize (Hb cur Hcur). rewrite Hf in Hb.
      destruct (Nat.eqb_spec cur l); [subst cur; lia|lia]. }
    rewrite (nth_error_nth' ind 0) by lia.
    rewrite (nth_error_nth' (set_nth ind cur cur) 0) by (rewrite length_set_nth; lia).
    rewrite nth_set_nth by lia.
    destruct (Nat.eq_dec cur l) as [Hcl|Hcl].
    + subst cur. rewrite Hls.
      destruct (Nat.eqb_spec s l) as [Hsl|_]; [lia|].
      destruct Hsfix as [Hsfix|Hsfix]; [lia|].
      rewrite Hsfix, Nat.eqb_refl.
      exists data, (set_nth ind l l). repeat split; auto.
      * rewrite length_set_nth; lia.
      * rewrite nth_set_nth by lia. destruct (Nat.eqb_spec s l); [lia|assumption].
    + set (tgt := nth cur ind 0) in *.
      assert (Hinj_cur : forall j, j < n -> j <> l -> nth j ind 0 = tgt -> j = cur).
      { intros j Hj Hjl Hjt. apply Hinj; auto. rewrite !Hf.
        destruct (Nat.eqb_spec j l); [lia|]. destruct (Nat.eqb_spec cur l); [lia|]. exact Hjt. }
      assert (Hinj_l : forall j, j < n -> j <> l -> nth j ind 0 <> cur).
      { intros j Hj Hjl Hjc. apply Hjl. apply Hinj; auto. rewrite !Hf.
        rewrite Nat.eqb_refl. destruct (Nat.eqb_spec j l); [lia|]. exact Hjc. }
      assert (Hinj_o : forall i j, i < n -> j < n -> i <> l -> j <> l ->
                nth i ind 0 = nth j ind 0 -> i = j).
      { intros i j Hi Hj Hil Hjl Hij. apply Hinj; auto. rewrite !Hf.
        destruct (Nat.eqb_spec i l); [lia|]. destruct (Nat.eqb_spec j l); [lia|]. exact Hij. }
      assert (Hb_o : forall i, i < n -> i <> l -> nth i ind 0 < n).
      { intros i Hi Hil. specialize (Hb i Hi). rewrite Hf in Hb.
        destruct (Nat.eqb_spec i l); [lia|exact Hb]. }
      destruct (Nat.eqb_spec tgt cur) as [Htc|Htc]; [lia|].
      assert (Htt : nth tgt ind 0 <> tgt).
      { destruct (Nat.eq_dec tgt l) as [Htl|Htl].
        - rewrite Htl. lia.
        - intro Heq. apply Htc. apply Hinj_cur; auto. }
      destruct (Nat.eqb_spec (nth tgt ind 0) tgt) as [|_]; [contradiction|].
      unfold swap.
      rewrite (nth_error_nth' data d) by lia.
      rewrite (nth_error_nth' data d) by lia.
      set (a := nth cur data d). set (b := nth tgt data d).
      assert (Hf' : forall i, nth i (set_nth (set_nth ind cur cur) l tgt) 0 =
                if Nat.eqb i l then tgt else if Nat.eqb i cur then cur else nth i ind 0).
      { intros i. rewrite nth_set_nth by (rewrite length_set_nth; lia).
        rewrite nth_set_nth by lia. reflexivity. }
      assert (Hd' : forall x, nth x (set_nth (set_nth data cur b) tgt a) d =
                if Nat.eqb x tgt then a else if Nat.eqb x cur then b else nth x data d).
      { intros x. rewrite nth_set_nth by (rewrite length_set_nth; lia).
        rewrite nth_set_nth by lia. reflexivity. }
      apply IH; clear IH; auto.
      * rewrite !length_set_nth; auto.
      * rewrite length_set_nth; auto.
      * rewrite nth_set_nth by lia. destruct (Nat.eqb_spec l cur); [lia|assumption].
      * rewrite nth_set_nth by lia. destruct (Nat.eqb_spec tgt cur); [lia|assumption].
      * right. rewrite nth_set_nth by lia. destruct (Nat.eqb_spec s cur); [lia|].
        destruct Hsfix; [lia|assumption].
      * split; [|split].
        -- rewrite !length_set_nth; lia.
        -- intros i Hi. rewrite Hf'.
           destruct (Nat.eqb_spec i l); [lia|]. destruct (Nat.eqb_spec i cur); [lia|].
           apply Hb_o; auto.
        -- intros i j Hi Hj. rewrite !Hf'.
           destruct (Nat.eqb_spec i l), (Nat.eqb_spec i cur),
                    (Nat.eqb_spec j l), (Nat.eqb_spec j cur); try lia; intro Heq;
           try (apply Hinj_o; auto; fail);
           try (exfalso; apply (Hinj_l i); auto; fail);
           try (exfalso; apply (Hinj_l j); auto; fail);
           try (assert (i = cur) by (apply Hinj_cur; auto); lia);
           try (assert (j = cur) by (apply Hinj_cur; auto); lia).
      * intros i Hi. rewrite Hf', Hd'. specialize (HG i Hi). rewrite Hf in HG.
        destruct (Nat.eqb_spec i l) as [Hil|Hil].
        -- rewrite Nat.eqb_refl. exact HG.
        -- destruct (Nat.eqb_spec i cur) as [Hic|Hic].
           ++ destruct (Nat.eqb_spec cur tgt); [lia|]. rewrite Nat.eqb_refl.
              subst i. exact HG.
           ++ destruct (Nat.eqb_spec (nth i ind 0) tgt) as [Hx|Hx].
              { exfalso. apply Hic. apply Hinj_cur; auto. }
              destruct (Nat.eqb_spec (nth i ind 0) cur) as [Hy|Hy].
              { exfalso. apply (Hinj_l i); auto. }
              exact HG.
      * pose proof (nfp_set ind 0 cur) as Hn. simpl in Hn.
        rewrite <- Hn in Hfuel; lia.
Qed.

(* fixed points of [ind] stay fixed: the loop only ever writes ind[cur] := cur *)
Lemma follow_fixed : forall fuel (data : list A) ind cur data' ind',
  follow fuel data ind cur = Ok (data', ind') ->
  forall j, nth j ind 0 = j -> nth j ind' 0 = j.
Proof.
  induction fuel as [|f IH]; intros data ind cur data' ind' Hfol j Hj; simpl in Hfol.
  - discriminate.
  - destruct (nth_error ind cur) as [tgt|] eqn:Ecur; [|discriminate].
    assert (Hcur : cur < length ind) by (apply nth_error_Some; congruence).
    assert (Hj' : nth j (set_nth ind cur cur) 0 = j).
    { rewrite nth_set_nth by lia. destruct (Nat.eqb_spec j cur); [lia|assumption]. }
    destruct (nth_error (set_nth ind cur cur) tgt) as [t2|]; [|discriminate].
    destruct (Nat.eqb t2 tgt).
    + inversion Hfol; subst; assumption.
    + destruct (swap data cur tgt) as [data1|]; [|discriminate].
      eapply IH; eauto.
Qed.

Lemma outer_ok : forall m k data ind,
  k + m = n -> length data = n -> permlike ind -> G data ind ->
  (forall j, j < k -> nth j ind 0 = j) ->
  exists data', outer (seq k m) data ind = Ok data' /\ length data' = n /\
    (forall i, i < n -> nth i data' d = nth (nth i pi 0) D d).
Proof.
  induction m as [|m IH]; intros k data ind Hkm Hld Hperm HG Hfix; cbn [outer seq].
  - exists data. repeat split; auto.
    intros i Hi. rewrite <- (HG i Hi). rewrite Hfix by lia. reflexivity.
  - pose proof Hperm as (Hli & Hb & Hinj).
    rewrite (nth_error_nth' ind 0) by lia.
    destruct (Nat.eqb_spec (nth k ind 0) k) as [Hk|Hk].
    + apply IH; auto; [lia|].
      intros j Hj. destruct (Nat.eq_dec j k); [subst; assumption|apply Hfix; lia].
    + destruct (permlike_surj ind Hperm k) as (l & Hl & Hlk); [lia|].
      assert (Hsame : set_nth ind l k = ind).
      { pose proof (set_nth_same _ ind l 0) as Hsn. rewrite Hlk in Hsn.
        apply Hsn. lia. }
      destruct (follow_ok k l (S (length data)) data ind k) as (data' & ind' & Hfol & Hld' & Hperm' & HG' & Hkfix);
        auto; try lia.
      * intro Hlk'. subst l. contradiction.
      * rewrite Hsame; assumption.
      * rewrite Hsame; assumption.
      * pose proof (nfp_le ind 0). lia.
      * rewrite Hfol. apply IH; auto; [lia|].
        intros j Hj. destruct (Nat.eq_dec j k); [subst; assumption|].
        eapply follow_fixed; eauto. apply Hfix; lia.
Qed.

End Spec.

Lemma permutation_permlike : forall (A : Type) (D : list A) (ind : list nat),
  Permutation ind (seq 0 (length D)) -> permlike A D ind.
Proof.
  intros A D ind HP.
  assert (Hlen : length ind = length D).
  { rewrite (Permutation_length HP). apply seq_length. }
  split; [assumption|split].
  - intros i Hi.
    assert (Hin : In (nth i ind 0) (seq 0 (length D))).
    { eapply Permutation_in; [exact HP|]. apply nth_In. lia. }
    apply in_seq in Hin. lia.
  - intros i j Hi Hj.
    assert (Hnd : NoDup ind).
    { eapply Permutation_NoDup; [apply Permutation_sym; exact HP|apply seq_NoDup]. }
    apply (proj1 (NoDup_nth ind 0) Hnd); lia.
Qed.

Theorem sort_by_indices_spec : forall (A : Type) (d : A) (data : list A) (ind : list nat),
  Permutation ind (seq 0 (length data)) ->
  sort_by_indices data ind = Ok (map (fun j => nth j data d) ind).
Proof.
  intros A d data ind HP. unfold sort_by_indices.
  pose proof (permutation_permlike A data ind HP) as Hperm.
  destruct (outer_ok A d data ind (length data) 0 data ind) as (data' & Hout & Hld' & Hres); auto.
  - intros i Hi. reflexivity.
  - intros j Hj. lia.
  - rewrite Hout. f_equal.
    destruct Hperm as (Hli & _).
    apply (nth_ext data' (map (fun j => nth j data d) ind) d ((fun j => nth j data d) 0)).
    + rewrite map_length. lia.
    + intros i Hi. rewrite (map_nth (fun j => nth j data d) ind 0 i). apply Hres. lia.
Qed.

Lemma map_nth_seq_id : forall (A : Type) (d : A) (data : list A),
  map (fun j => nth j data d) (seq 0 (length data)) = data.
Proof.
  intros A d data.
  apply (nth_ext _ _ ((fun j => nth j data d) 0) d).
  - rewrite map_length. apply seq_length.
  - intros i Hi. rewrite map_length, seq_length in Hi.
    rewrite (map_nth (fun j => nth j data d) (seq 0 (length data)) 0 i).
    rewrite seq_nth by assumption. reflexivity.
Qed.

Corollary sort_by_indices_perm : forall (A : Type) (data : list A) (ind : list nat),
  Permutation ind (seq 0 (length data)) ->
  exists data', sort_by_indices data ind = Ok data' /\ Permutation data' data.
Proof.
  intros A data ind HP.
  destruct data as [|a r].
  - simpl in HP. apply Permutation_sym, Permutation_nil in HP. subst ind.
    exists []. split; [reflexivity|constructor].
  - exists (map (fun j => nth j (a :: r) a) ind). split.
    + apply sort_by_indices_spec; assumption.
    + pose proof (Permutation_map (fun j => nth j (a :: r) a) HP) as HM.
      rewrite map_nth_seq_id in HM. exact HM.
Qed.

Print Assumptions sort_by_indices_spec.
Print Assumptions sort_by_indices_perm.
