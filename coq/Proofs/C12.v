(* C12: the per-language theorems restated on the observation the check compares
   ([c12_<L>_observe]), the witnesses of the recorded classes, non-vacuity examples. *)
From Coq Require Import String List Bool.
From TS Require Import Model.Str Model.Outcome Model.Unicode Model.Types Model.Parse Model.Lang.Common Model.Lang.Decl
                       Model.Lang.Swift Model.Lang.Scala Spec.C12Spec.
From TS Require Import Proofs.C12Common Proofs.C12_Swift Proofs.C12_Scala Proofs.C12Obs.
Import ListNotations.

(* ---- Swift ---- *)
Theorem c12_swift uc cfg pd uses defs :
  c12_sw_observe uc cfg pd = Ok (uses, defs) -> c12_sw_dom cfg (items_of pd) = true -> c12_good uses defs = true.
Proof.
  unfold c12_sw_observe. intros H Hdom. apply c12_bind_ok in H as ([ds st] & E & H).
  injection H as <- <-. cbn [fst snd]. eapply c12_sw_file; eauto.
Qed.

(* ---- Scala ---- *)
Theorem c12_scala uc cfg pd uses defs :
  c12_sc_observe uc cfg pd = Ok (uses, defs) -> c12_sc_dom pd = true ->
  c12_good uses defs = true.
Proof.
  unfold c12_sc_observe. intros H Hdom. apply c12_bind_ok in H as ([objs pkgs] & E & H).
  injection H as <- <-. cbn [fst snd]. eapply c12_sc_file; eauto.
Qed.

(* regression pin of the fixed finding C12-scala-unsigned-depth: `type Grid = Vec<Vec<u16>>` spells
   UShort two levels deep and now has its alias block (before the /repo fix: uses [UShort], defs []) *)
Theorem c12_scala_unsigned_depth_fixed :
  c12_sc_dom c12_sc_witness = true /\
  c12_sc_scan c12_sc_witness = true /\
  c12_sc_observe uc_exec c12_sc_cfg0 c12_sc_witness =
    Ok ([lit "UShort"], [lit "UByte"; lit "UShort"; lit "UInt"; lit "ULong"]) /\
  c12_good [lit "UShort"] [lit "UByte"; lit "UShort"; lit "UInt"; lit "ULong"] = true.
Proof. vm_compute. repeat split; reflexivity. Qed.

(* ---- non-vacuity: () and u16 three levels deep, next to a directly visible u8 ---- *)
Definition c12_fld (n : str) (t : rtype) : rfield :=
  {| fid := c12_mkid n; fty := t; fcomments := []; has_default := false; fdecs := [] |}.
Definition c12_nonvac_pd : parsed :=
  {| p_structs := [{| sid := c12_mkid (lit "S"); sgenerics := [];
                      sfields := [c12_fld (lit "a") (RVec (ROption (RVec (RPrim PUnit))));
                                  c12_fld (lit "b") (RHashMap (RPrim PString) (RVec (RArray (RPrim PU16) 3%N)));
                                  c12_fld (lit "c") (RPrim PU8)];
                      scomments := []; sdecs := []; sredacted := false |}];
     p_enums := []; p_aliases := []; p_consts := []; p_type_names := []; p_errors := []; p_imports := [] |}.
Definition c12_sw_cfg0 : sw_config :=
  {| sw_prefix := []; sw_type_mappings := []; sw_default_decorators := []; sw_default_generic_constraints := [];
     sw_codablevoid_constraints := []; sw_no_version_header := true; sw_version := [] |}.

Example c12_swift_nonvacuous :
  c12_sw_dom c12_sw_cfg0 (items_of c12_nonvac_pd) = true /\
  c12_sw_observe uc_exec c12_sw_cfg0 c12_nonvac_pd = Ok ([lit "CodableVoid"; lit "CodableVoid"], [lit "CodableVoid"]).
Proof. vm_compute. split; reflexivity. Qed.

Example c12_scala_nonvacuous :
  c12_sc_dom c12_nonvac_pd = true /\
  c12_sc_observe uc_exec c12_sc_cfg0 c12_nonvac_pd =
    Ok ([lit "UShort"; lit "UByte"], [lit "UByte"; lit "UShort"; lit "UInt"; lit "ULong"]).
Proof. vm_compute. repeat split; reflexivity. Qed.

(* ---- Kotlin: witnesses of the two classes ---- *)
From TS Require Import Model.Lang.Kotlin Model.Lang.Go Proofs.C12_Kotlin Proofs.C12_Go.
Definition c12_kt_cfg (pkg : str) : kt_config :=
  {| kt_package := pkg; kt_module_name := []; kt_prefix := []; kt_type_mappings := []; kt_no_version_header := true; kt_version := [] |}.
Definition c12_kt_inline_pd : parsed :=
  {| p_structs := []; p_enums := [];
     p_aliases := [{| aid := c12_mkid (lit "Id"); agenerics := []; atype := RPrim PString; acomments := [];
                      adecs := [(DKKotlin, [lit "JvmInline"])]; aredacted := false |}];
     p_consts := []; p_type_names := []; p_errors := []; p_imports := [] |}.

Theorem c12_kotlin_empty_package_refuted :
  c12_kt_known (c12_kt_cfg []) c12_nonvac_pd = Some "C12-kotlin-empty-package"%string /\
  c12_kt_observe uc_exec (c12_kt_cfg []) c12_nonvac_pd = Ok ([lit "Serializable"], []) /\
  c12_good [lit "Serializable"] [] = false.
Proof. vm_compute. repeat split; reflexivity. Qed.

Theorem c12_kotlin_jvminline_refuted :
  c12_kt_known (c12_kt_cfg (lit "com.p")) c12_kt_inline_pd = Some "C12-kotlin-jvminline"%string /\
  c12_kt_observe uc_exec (c12_kt_cfg (lit "com.p")) c12_kt_inline_pd =
    Ok ([lit "Serializable"; lit "JvmInline"], [lit "Serializable"; lit "SerialName"]) /\
  c12_good [lit "Serializable"; lit "JvmInline"] [lit "Serializable"; lit "SerialName"] = false.
Proof. vm_compute. repeat split; reflexivity. Qed.

Example c12_kotlin_nonvacuous :
  c12_kt_known (c12_kt_cfg (lit "com.p")) c12_nonvac_pd = None /\
  c12_kt_observe uc_exec (c12_kt_cfg (lit "com.p")) c12_nonvac_pd = Ok ([lit "Serializable"], [lit "Serializable"; lit "SerialName"]).
Proof. vm_compute. split; reflexivity. Qed.

(* ---- Go: non-vacuity (OffsetDateTime four levels deep in a payload of a tagged enum) ---- *)
Definition c12_go_cfg0 : go_config :=
  {| go_package := lit "p"; go_type_mappings := []; go_uppercase_acronyms := []; go_no_version_header := true;
     go_no_pointer_slice := false; go_version := [] |}.
Definition c12_go_pd : parsed :=
  {| p_structs := [];
     p_enums := [EAlgebraic (lit "type") (lit "content")
                   {| eid := c12_mkid (lit "E"); egenerics := []; ecomments := [];
                      evariants := [VTuple (RVec (ROption (RHashMap (RPrim PString) (RVec (RPrim PDateTime)))))
                                           {| vid := c12_mkid (lit "A"); vcomments := [] |}];
                      edecs := []; erecursive := false; eredacted := false |}];
     p_aliases := []; p_consts := []; p_type_names := []; p_errors := []; p_imports := [] |}.
(* ---- Python: witnesses of the two classes, non-vacuity ---- *)
From TS Require Import Model.Lang.Python.
Definition c12_py_cfg0 : py_config := {| py_type_mappings := []; py_no_version_header := true; py_version := [] |}.
Definition c12_py_alias_pd : parsed :=
  {| p_structs := []; p_enums := [];
     p_aliases := [{| aid := c12_mkid (lit "GA"); agenerics := [lit "T"]; atype := RVec (RSimple (lit "T"));
                      acomments := []; adecs := []; aredacted := false |}];
     p_consts := []; p_type_names := []; p_errors := []; p_imports := [] |}.
Definition c12_py_default_pd : parsed :=
  {| p_structs := [{| sid := c12_mkid (lit "S"); sgenerics := [];
                      sfields := [{| fid := c12_mkid (lit "at"); fty := RPrim PDateTime; fcomments := [];
                                     has_default := true; fdecs := [] |}];
                      scomments := []; sdecs := []; sredacted := false |}];
     p_enums := []; p_aliases := []; p_consts := []; p_type_names := []; p_errors := []; p_imports := [] |}.

(* The two classes these inputs witnessed are FIXED in /repo (write_type_alias declares the alias's parameters as
   TypeVars and prints a plain assignment; write_field registers the type the translation was found for).
   Regression pins: the exact text of each former witness through the model, its observation, the verdict. *)
Definition c12_py_alias_text : str :=
  lit "from __future__ import annotations" ++ [10; 10] ++
  lit "from typing import List, TypeVar" ++ [10; 10] ++
  lit "T = TypeVar(""T"")" ++ [10; 10; 10] ++
  lit "GA = List[T]" ++ [10; 10].
Theorem c12_python_alias_typevar_fixed :
  c12_py_known c12_py_cfg0 c12_py_alias_pd = None /\
  c12_py_dom c12_py_cfg0 (items_of c12_py_alias_pd) = true /\
  py_generate uc_exec c12_py_cfg0 c12_py_alias_pd = Ok c12_py_alias_text /\
  c12_py_observe uc_exec c12_py_cfg0 c12_py_alias_pd =
    Ok ([lit "TypeVar"; lit "List"; lit "T"], [lit "T"; lit "List"; lit "TypeVar"]) /\
  c12_good [lit "TypeVar"; lit "List"; lit "T"] [lit "T"; lit "List"; lit "TypeVar"] = true.
Proof. repeat split; vm_compute; reflexivity. Qed.

Definition c12_py_default_text : str :=
  lit "from __future__ import annotations" ++ [10; 10] ++
  lit "from datetime import datetime" ++ [10] ++
  lit "from pydantic import BaseModel, BeforeValidator, Field, PlainSerializer" ++ [10] ++
  lit "from typing import Annotated, Optional" ++ [10; 10; 10] ++
  py_ser_content py_datetime_translation ++ [10; 10] ++ py_de_content py_datetime_translation ++ [10; 10] ++
  lit "class S(BaseModel):" ++ [10] ++
  lit "    at: Annotated[Optional[datetime], BeforeValidator(parse_rfc3339), PlainSerializer(serialize_datetime_data)] = Field(default=None)" ++
  [10; 10].
Definition c12_py_default_uses : list str :=
  [lit "datetime"; lit "BaseModel"; lit "Optional"; lit "datetime"; lit "Annotated"; lit "BeforeValidator";
   lit "PlainSerializer"; lit "parse_rfc3339"; lit "serialize_datetime_data"; lit "Field"].
Definition c12_py_default_defs : list str :=
  [lit "serialize_datetime_data"; lit "parse_rfc3339"; lit "datetime"; lit "BaseModel"; lit "BeforeValidator"; lit "Field";
   lit "PlainSerializer"; lit "Annotated"; lit "Optional"].
Theorem c12_python_default_translation_fixed :
  c12_py_known c12_py_cfg0 c12_py_default_pd = None /\
  c12_py_dom c12_py_cfg0 (items_of c12_py_default_pd) = true /\
  py_generate uc_exec c12_py_cfg0 c12_py_default_pd = Ok c12_py_default_text /\
  contains_sub (lit "def parse_rfc3339(date_str: str) -> datetime:") c12_py_default_text = true /\
  contains_sub (lit "def serialize_datetime_data(utc_time: datetime) -> str:") c12_py_default_text = true /\
  c12_py_observe uc_exec c12_py_cfg0 c12_py_default_pd = Ok (c12_py_default_uses, c12_py_default_defs) /\
  c12_good c12_py_default_uses c12_py_default_defs = true.
Proof. repeat split; vm_compute; reflexivity. Qed.

Example c12_python_nonvacuous :
  c12_py_dom c12_py_cfg0 (items_of c12_nonvac_pd) = true /\
  exists uses defs, c12_py_observe uc_exec c12_py_cfg0 c12_nonvac_pd = Ok (uses, defs) /\
                    In (lit "Dict") uses /\ c12_good uses defs = true.
Proof.
  split; [vm_compute; reflexivity|].
  eexists. eexists. split; [vm_compute; reflexivity|]. split; [vm_compute; auto 20|vm_compute; reflexivity].
Qed.

(* ---- Python, the whole file: header (TypeVar lines, helper functions) + body ---- *)
From TS Require Import Proofs.C12_Python.
Theorem c12_python uc cfg pd uses defs :
  c12_py_observe uc cfg pd = Ok (uses, defs) -> c12_py_dom cfg (items_of pd) = true ->
  c12_good uses defs = true.
Proof.
  unfold c12_py_observe. intros H Hdom. apply c12_bind_ok in H as ([ds st] & E & H).
  injection H as <- <-. cbn [fst snd]. apply c12_good_spec. exact (c12_py_file uc cfg pd ds st E Hdom).
Qed.

(* non-vacuity: a generic struct S<T> next to a generic alias GA<T> (both declare T) and a generic alias GB<U> whose
   parameter nothing else declares, a serde(default) OffsetDateTime field next to a plain one (both register
   `datetime`), a serde(default) Vec<u8> field mapped to `bytes` next to one two levels deep
   (Option<Option<Vec<u8>>>, registered by the formatter itself): every half of the theorem is exercised *)
Definition c12_py_cfg1 : py_config :=
  {| py_type_mappings := [(lit "Vec<u8>", lit "bytes")]; py_no_version_header := true; py_version := [] |}.
Definition c12_py_full_pd : parsed :=
  {| p_structs := [{| sid := c12_mkid (lit "S"); sgenerics := [lit "T"];
                      sfields := [c12_fld (lit "a") (RSimple (lit "T"));
                                  {| fid := c12_mkid (lit "at"); fty := RPrim PDateTime; fcomments := [];
                                     has_default := true; fdecs := [] |};
                                  c12_fld (lit "at2") (RPrim PDateTime);
                                  {| fid := c12_mkid (lit "raw"); fty := RVec (RPrim PU8); fcomments := [];
                                     has_default := true; fdecs := [] |};
                                  c12_fld (lit "raw2") (ROption (ROption (RVec (RPrim PU8))))];
                      scomments := []; sdecs := []; sredacted := false |}];
     p_enums := [];
     p_aliases := [{| aid := c12_mkid (lit "GA"); agenerics := [lit "T"]; atype := RVec (RSimple (lit "T"));
                      acomments := []; adecs := []; aredacted := false |};
                   {| aid := c12_mkid (lit "GB"); agenerics := [lit "U"]; atype := RVec (RSimple (lit "U"));
                      acomments := []; adecs := []; aredacted := false |}];
     p_consts := []; p_type_names := []; p_errors := []; p_imports := [] |}.

Example c12_python_file_nonvacuous :
  c12_py_dom c12_py_cfg1 (items_of c12_py_full_pd) = true /\
  exists uses defs, c12_py_observe uc_exec c12_py_cfg1 c12_py_full_pd = Ok (uses, defs) /\
                    In (lit "T") uses /\ In (lit "U") uses /\ In (lit "TypeVar") uses /\ In (lit "parse_rfc3339") uses /\
                    In (lit "deserialize_binary_data") uses /\ In (lit "datetime") uses /\
                    c12_good uses defs = true.
Proof.
  split; [vm_compute; reflexivity|].
  eexists. eexists. split; [vm_compute; reflexivity|].
  repeat split; try (vm_compute; reflexivity); apply c12_mem_str_In; vm_compute; reflexivity.
Qed.

Example c12_go_nonvacuous :
  c12_go_dom c12_go_cfg0 (items_of c12_go_pd) = true /\
  c12_go_observe uc_exec c12_go_cfg0 c12_go_pd = Ok ([lit "json"; lit "time"], [lit "json"; lit "time"]).
Proof. vm_compute. split; reflexivity. Qed.
