(* C09 in folder mode composed with C14's import completeness (TypeScript): in the file generated for a crate every
   reference is spelled with the emitted name of the definition it denotes (Proofs/C09MultiTS.v), and every
   cross-crate reference in dom_C14 is imported from the crate that defines it under that very name: the name
   C14's specification expects in the import list (renamed_in) IS c9m_emitted_name. *)
From Coq Require Import List Bool String Permutation.
From TS Require Import Model.Str Model.Outcome Model.Unicode Model.Syntax Model.Types Model.Parse Model.Reconcile Model.Collect
                       Model.Lang.Common Model.Lang.Decl Model.Lang.TypeScript Model.MultiFile.
From TS Require Import Spec.C11Spec Spec.C14Spec Spec.C09Spec Spec.C09MultiSpec.
From TS Require Import Proofs.C14 Proofs.C14Front Proofs.C14Main Proofs.C14Imports Proofs.C09Multi Proofs.C09MultiTS.
Import ListNotations.

(* the TYPES among the items of some files, read as ids *)
Lemma c9m_type_item_ids fs it :
  In it (filter is_type14 (flat_map items_of fs)) -> In (item_id it) (flat_map c9m_type_ids fs).
Proof.
  intros H. apply filter_In in H as [H Ht]. apply in_flat_map in H as (f & Hf & H). apply in_flat_map. exists f. split; [exact Hf|].
  unfold items_of in H. unfold c9m_type_ids. rewrite !in_app_iff, !in_map_iff in H. rewrite !in_app_iff, !in_map_iff.
  destruct H as [(a & <- & Ha)|[(s & <- & Hs)|[(e & <- & He)|(c & <- & Hc)]]]; cbn [item_id]; [right; right|left|right; left|discriminate]; eauto.
Qed.
Lemma c9m_id_type_item fs i :
  In i (flat_map c9m_type_ids fs) -> exists it, In it (filter is_type14 (flat_map items_of fs)) /\ item_id it = i.
Proof.
  intros H. apply in_flat_map in H as (f & Hf & H). unfold c9m_type_ids in H. rewrite !in_app_iff, !in_map_iff in H.
  assert (K : forall it, is_type14 it = true -> In it (items_of f) -> In it (filter is_type14 (flat_map items_of fs))).
  { intros it Ht Hit. apply filter_In. split; [|exact Ht]. apply in_flat_map. exists f. auto. }
  unfold items_of in K.
  destruct H as [(s & <- & Hs)|[(e & <- & He)|(a & <- & Ha)]].
  - exists (ItStruct s). split; [|reflexivity]. apply K; [reflexivity|]. rewrite !in_app_iff, !in_map_iff. right. left. eauto.
  - exists (ItEnum e). split; [|reflexivity]. apply K; [reflexivity|]. rewrite !in_app_iff, !in_map_iff. right. right. left. eauto.
  - exists (ItAlias a). split; [|reflexivity]. apply K; [reflexivity|]. rewrite !in_app_iff, !in_map_iff. left. eauto.
Qed.

Section Link.
Variable uc : unicode.
Variables (T ign : list str) (ho_file : list imported -> list imported) (ws : list ws_entry) (arrivals : list (str * parsed)).
Hypothesis HW : parse_workspace uc T ign ho_file ws = Ok arrivals.

Lemma c9m_type_items d : type_items (c14_infos uc T ws) d = filter is_type14 (flat_map items_of (c9m_files arrivals d)).
Proof. unfold type_items. now rewrite (crate_items_arrivals uc T ign ho_file d ws arrivals HW). Qed.

(* the name C14's specification expects a type of crate d to be imported under is the name d's file defines it under *)
Lemma c9m_renamed_in_emitted d n : c9m_two_names arrivals d n = false ->
  renamed_in (c14_infos uc T ws) d n = c9m_emitted_name arrivals d n.
Proof.
  intros H2. unfold renamed_in. rewrite c9m_type_items.
  destruct (find (fun it => str_eqb (original (item_id it)) n) (filter is_type14 (flat_map items_of (c9m_files arrivals d)))) as [it|] eqn:F.
  - apply find_some in F as [Hit E]. apply c9m_type_item_ids in Hit.
    unfold c9m_two_names in H2. apply negb_false_iff in H2. rewrite forallb_forall in H2. specialize (H2 (item_id it) Hit).
    unfold c9m_named in H2. rewrite E in H2. cbn [negb orb] in H2. now apply str_eqb_eq in H2.
  - unfold c9m_emitted_name. destruct (find (c9m_named n) (c9m_crate_types arrivals d)) as [i|] eqn:F2; [|reflexivity].
    apply find_some in F2 as [Hi E]. apply c9m_id_type_item in Hi as (it & Hit & <-).
    eapply find_none in F; [|exact Hit]. cbn beta in F. unfold c9m_named in E. congruence.
Qed.

Lemma judge_crate_generated mapped c observed v :
  In v (judge_crate (c14_infos uc T ws) mapped c observed) ->
  rv_generated_name v = renamed_in (c14_infos uc T ws) (rv_from v) (rv_name v).
Proof.
  unfold judge_crate. intros H. apply in_flat_map in H as (s & _ & H). destruct (in_crate c s); [|destruct H].
  apply in_flat_map in H as (n & _ & H). destruct (mem_str n (tdefs_original (c14_infos uc T ws) c)); [destruct H|].
  destruct (referenced_crate (c14_infos uc T ws) s c n) as [d|]; [|destruct H]. destruct H as [<-|[]]. reflexivity.
Qed.
End Link.

(* TypeScript, the whole pipeline: a crate's file spells its references as the defining files do, and imports the
   cross-crate ones of dom_C14 under those names *)
Theorem c9m_ts_spelled_and_imported (uc : unicode) (Huc : unicode_ok uc) (cfg : ts_config) (T ign : list str)
    (ho_file ho_crate : list imported -> list imported) (hc : crate_types -> crate_types)
    (ws : list ws_entry) (arrivals : list (str * parsed)) :
  parse_workspace uc T ign ho_file ws = Ok arrivals ->
  oracle_ok ho_file -> oracle_ok ho_crate -> oracle_ok hc -> c9m_ids_wf arrivals = true ->
  forall c pd, In (c, pd) (multi_crates ho_crate arrivals) ->
  let imports := crate_imports hc (multi_crates ho_crate arrivals) c pd in
  forall st text st', ts_generate_multi uc cfg st imports pd = Ok (text, st') ->
    (exists ds : list ts_decl,
       text = ts_begin_file cfg ++ ts_write_imports imports ++ List.concat (map ts_render_decl ds) ++ ts_end_file st' /\
       Forall (fun d => (c09_is_def (ts_obs d) = true -> c9m_def_ok arrivals c [] (d_name (ts_obs d))) /\
                        (forall r, In r (c09_decl_refs TypeScript (ts_obs d)) -> c9m_ref_ok arrivals c [] r)) ds) /\
    (forall v, In v (judge_crate (c14_infos uc T ws) ign c (scoped_pairs imports)) -> rv_dom v = true ->
       rv_imported v = true /\
       (c9m_two_names arrivals (rv_from v) (rv_name v) = false ->
        rv_generated_name v = c9m_emitted_name arrivals (rv_from v) (rv_name v))).
Proof.
  intros HW Hof Hoc Hhc Hwf c pd Hin imports st text st' Hg. split.
  - exact (c9m_ts_file uc cfg ho_crate arrivals Hoc Hwf c pd Hin st imports text st' Hg).
  - intros v Hv Hd. split.
    + exact (imports_complete uc Huc T ign ho_file ho_crate hc ws arrivals HW Hof Hoc Hhc c pd v Hin Hv Hd).
    + intros H2. rewrite (judge_crate_generated uc T ws ign c _ v Hv). now apply (c9m_renamed_in_emitted uc T ign ho_file ws arrivals HW).
Qed.
