(* C03 for Swift: one definition per item plus one <Enum><Variant>Inner struct per struct variant, each
   listing exactly the IR's members / variants in order (CodableVoid is a file-level helper). *)
From Coq Require Import String List Bool Arith Lia Permutation.
From TS Require Import Model.Str Model.Outcome Model.Unicode Model.Types Model.Parse Model.TopsortAlgo Model.Topsort
                       Model.Lang.Common Model.Lang.Decl Model.Lang.Swift.
From TS Require Import Spec.C03Spec.
From TS Require Import Proofs.BackCommon Proofs.C03Back.
Import ListNotations.
Local Notation length := List.length (only parsing).

Lemma map_fst_combine' {A B} (l : list A) (r : list B) : length l = length r -> map fst (combine l r) = l.
Proof.
  revert r; induction l as [|x l IH]; intros [|y r] H; cbn in *; try discriminate; [reflexivity|].
  f_equal. apply IH. now injection H.
Qed.

Section SW.
Variable uc : unicode.
Variable cfg : sw_config.

Lemma sw_member_key f ty ity :
  c03_undash (mb_key (sw_obs_member (sw_member_of uc f ty ity))) = c03_undash (renamed (fid f)).
Proof.
  cbn [sw_obs_member sw_member_of mb_key swm_coding_key swm_name].
  destruct (contains_char ch_dash (renamed (fid f))); [reflexivity|].
  unfold sw_remove_dash_from_identifier. apply undash_idem.
Qed.

Lemma sw_struct_sig rs st s st' : sw_struct_of uc cfg rs st = Ok (s, st') ->
  c03_sig_of (sw_obs_struct s) = c03_x_struct (c03_keys_of (sfields rs)).
Proof.
  unfold sw_struct_of. intros H.
  apply mbind_ok in H as (tys & s1 & H1 & H). apply mbind_ok in H as (itys & s2 & H2 & H).
  unfold ret in H. injection H as <- _.
  apply sig_of_struct; [reflexivity|]. cbn [sw_obs_struct d_members sws_members].
  unfold c03_member_keys, c03_keys_of. rewrite !map_map.
  pose proof (mmapM_length _ _ _ _ _ H1) as L1. pose proof (mmapM_length _ _ _ _ _ H2) as L2.
  transitivity (map (fun f => c03_undash (renamed (fid f))) (map fst (combine (sfields rs) (combine tys itys)))).
  - rewrite map_map. apply map_ext. intros [f [ty ity]]. cbn [fst snd]. apply sw_member_key.
  - rewrite map_fst_combine'; [reflexivity|]. rewrite combine_length, L1, L2. now rewrite Nat.min_id.
Qed.

Lemma sw_inner_sigs sh vs : forall st ss st', sw_inner_structs_of uc cfg sh vs st = Ok (ss, st') ->
  map c03_sig_of (map sw_obs_struct ss) = map c03_x_struct (c03_anon_keys vs).
Proof.
  induction vs as [|v vs IH]; intros st ss st' H; cbn [sw_inner_structs_of] in H.
  - unfold ret in H. injection H as <- _. reflexivity.
  - destruct v as [vsh|t vsh|fs vsh].
    + cbn [c03_anon_keys flat_map app]. exact (IH _ _ _ H).
    + cbn [c03_anon_keys flat_map app]. exact (IH _ _ _ H).
    + apply mbind_ok in H as (s & s1 & Hs & H). apply mbind_ok in H as (ss' & s2 & Hss & H).
      unfold ret in H. injection H as <- _. cbn [map c03_anon_keys flat_map app].
      rewrite (sw_struct_sig _ _ _ _ Hs). cbn [anon_struct sfields]. f_equal. exact (IH _ _ _ Hss).
Qed.

Lemma sw_lift_ok {A} (o : outcome A) s a s' : sw_lift o s = Ok (a, s') -> o = Ok a.
Proof. unfold sw_lift. destruct o; try discriminate. now intros [= -> _]. Qed.

Lemma sw_unit_variant_rel v st sv st' : sw_unit_variant_of uc v st = Ok (sv, st') -> c03_is_unit_variant v = true ->
  vrel Swift v (sw_obs_variant sv).
Proof.
  unfold sw_unit_variant_of. intros H Hu. apply mbind_ok in H as (name & s1 & _ & H). unfold ret in H. injection H as <- _.
  destruct v; try discriminate. repeat split. cbn [sw_obs_variant vd_wire swv_raw swv_name variant_shared].
  match goal with |- context [str_eqb ?r ?n] => destruct (str_eqb r n) eqn:E end; [|reflexivity]. apply str_eqb_eq in E. now symmetry.
Qed.

Lemma sw_variant_rel sh v st sv st' : sw_variant_of uc cfg sh v st = Ok (sv, st') -> vrel Swift v (sw_obs_variant sv).
Proof.
  unfold sw_variant_of. intros H. apply mbind_ok in H as (camel & s1 & _ & H).
  apply mbind_ok in H as (payload & s2 & Hp & H). unfold ret in H. injection H as <- _.
  assert (Hw : forall name, (match (if str_eqb name (renamed (vid (variant_shared v))) then None else Some (renamed (vid (variant_shared v)))) with
                             | Some w => w | None => name end) = renamed (vid (variant_shared v))).
  { intros name. destruct (str_eqb name _) eqn:E; [|reflexivity]. now apply str_eqb_eq in E. }
  unfold vrel. cbn [sw_obs_variant vd_wire swv_raw swv_name]. rewrite Hw. split; [reflexivity|].
  cbn [c03_inline_keys vd_payload swv_payload c03_inlines c03_payload_ok].
  destruct v as [vsh|t vsh|fs vsh].
  - unfold ret in Hp. injection Hp as <- _. split; reflexivity.
  - apply mbind_ok in Hp as (ct & s3 & _ & Hp). unfold ret in Hp. injection Hp as <- _. split; reflexivity.
  - unfold ret in Hp. injection Hp as <- _. split; reflexivity.
Qed.

Theorem sw_item it st d st' : sw_decl_of uc cfg it st = Ok (d, st') -> dom_C03_item it = true ->
  map c03_sig_of (sw_obs d) = c03_expected_sigs Swift it /\ c03_payloads_ok Swift it (sw_obs d) = true.
Proof.
  destruct it as [s|e|a|c]; cbn [sw_decl_of]; intros H Hdom.
  - apply mbind_ok in H as (ss & s1 & Hs & H). unfold ret in H. injection H as <- _.
    split; [|reflexivity]. cbn [sw_obs map c03_expected_sigs]. now rewrite (sw_struct_sig _ _ _ _ Hs).
  - apply mbind_ok in H as (en & s1 & He & H). unfold ret in H. injection H as <- _.
    unfold sw_enum_of in He. apply mbind_ok in He as (inner & s2 & Hi & He). apply mbind_ok in He as (vs & s3 & Hv & He).
    unfold ret in He. injection He as <- _. cbn [sw_obs swe_inner].
    pose proof (sw_inner_sigs _ _ _ _ _ Hi) as Hin.
    apply (enum_item Swift e (map sw_obs_struct inner)); [reflexivity| | |reflexivity].
    + destruct e; cbn [c03_enum_helper]; rewrite app_nil_r; exact Hin.
    + cbn [sw_obs_enum d_variants swe_variants]. apply Forall2_map_r'.
      destruct e as [sh|tag content sh]; cbn [enum_shared] in *.
      * cbn [dom_C03_item] in Hdom. eapply mmapM_Forall2_In; [|exact Hv]. intros v s0 sv s0' Hin' Hsv.
        exact (sw_unit_variant_rel _ _ _ _ Hsv (proj1 (forallb_forall _ _) Hdom v Hin')).
      * eapply mmapM_Forall2; [|exact Hv]. intros v s0 sv s0' Hsv. exact (sw_variant_rel _ _ _ _ _ Hsv).
  - apply mbind_ok in H as (t & s1 & _ & H). unfold ret in H. injection H as <- _. split; reflexivity.
  - discriminate.
Qed.

Theorem sw_item_good it st d st' : sw_decl_of uc cfg it st = Ok (d, st') -> dom_C03_item it = true ->
  good_C03_item Swift it (sw_obs d) = true.
Proof. intros H Hd. destruct (sw_item it st d st' H Hd). now apply item_good. Qed.

Theorem sw_file pd fd : sw_file_decls uc cfg pd = Ok fd -> dom_C03_file pd = true -> good_C03_file Swift pd fd = true.
Proof.
  unfold sw_file_decls, sw_decls. intros H Hdom.
  destruct (topsort (items_of pd)) as [items| |] eqn:Et; cbn [bind] in H; try discriminate.
  destruct (mmapM (sw_decl_of uc cfg) items false) as [[ds st]| |] eqn:Em; cbn [bind] in H; try discriminate.
  injection H as <-. unfold good_C03_file. cbn [fd_decls].
  pose proof (topsort_perm _ _ Et) as P.
  pose proof (file_good_decls Swift pd items (map sw_obs ds) [] (flat_map sw_obs (sw_trailing_decls cfg st)) P) as G.
  cbn [app] in G. rewrite flat_map_app.
  replace (flat_map sw_obs ds) with (List.concat (map sw_obs ds)) by (symmetry; apply flat_map_concat_map).
  apply G; [|reflexivity|].
  - apply Forall2_map_r'. eapply mmapM_Forall2_In; [|exact Em].
    intros it s d s' Hin Hd. exact (proj1 (sw_item it s d s' Hd (dom_items_perm pd items Hdom P it Hin))).
  - unfold sw_trailing_decls. destruct st; reflexivity.
Qed.
End SW.
