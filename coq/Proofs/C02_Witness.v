(* C02: non-vacuity example and one refutation witness per finding class, by computation on the
   executable Unicode table.  Each witness shows: the input is inside the quantifier (dom), it is
   classified in the class, the faithful model generates the enum, and the extracted verdict fails. *)
From Coq Require Import String List Bool.
From TS Require Import Model.Str Model.Outcome Model.Unicode Model.Syntax Model.Types Model.Parse Model.Lang.Common Model.Lang.Decl
                       Model.Lang.TypeScript Model.Lang.Kotlin Model.Lang.Swift Model.Lang.Scala Model.Lang.Go Model.Lang.Python.
From TS Require Import Spec.Serde Spec.C02Spec.
Import ListNotations.
Local Open Scope string_scope.

Definition c02_w_serde (args : list meta) : attr := {| a_inner := false; a_meta := MList [lit "serde"] (Some args) None |}.
Definition c02_w_nv (n v : string) : meta := MNV [lit n] (VStr (lit v)).
Definition c02_w_ty (n : string) : ty := TPath [] (lit n) [].
Definition c02_w_unit (attrs : list attr) (id : string) : variant := {| v_attrs := attrs; v_ident := lit id; v_fields := FUnit |}.
Definition c02_w_tuple (attrs : list attr) (id t : string) : variant :=
  {| v_attrs := attrs; v_ident := lit id; v_fields := FUnnamed [{| f_attrs := []; f_ident := None; f_ty := c02_w_ty t |}] |}.
Definition c02_w_struct (attrs : list attr) (id f t : string) : variant :=
  {| v_attrs := attrs; v_ident := lit id; v_fields := FNamed [{| f_attrs := []; f_ident := Some (lit f); f_ty := c02_w_ty t |}] |}.
Definition c02_w_tstr : str -> option ty := fun _ => None.
Definition c02_w_keys : attr := c02_w_serde [c02_w_nv "tag" "type"; c02_w_nv "content" "content"].

Definition c02_w_parse (attrs : list attr) (vs : list variant) : option renum :=
  match parse_enum uc_exec c02_w_tstr [] attrs (lit "E") [] vs with Ok (ItEnum e) => Some e | _ => None end.

Definition c02_w_ts_cfg : ts_config := {| ts_type_mappings := []; ts_no_version_header := true; ts_version := [] |}.
Definition c02_w_kt_cfg : kt_config := {| kt_package := lit "p"; kt_module_name := []; kt_prefix := []; kt_type_mappings := [];
                                         kt_no_version_header := true; kt_version := [] |}.
Definition c02_w_sw_cfg : sw_config := {| sw_prefix := []; sw_type_mappings := []; sw_default_decorators := []; sw_default_generic_constraints := [];
                                         sw_codablevoid_constraints := []; sw_no_version_header := true; sw_version := [] |}.
Definition c02_w_sc_cfg : sc_config := {| sc_package := lit "a.p"; sc_module_name := []; sc_type_mappings := []; sc_no_version_header := true; sc_version := [] |}.
Definition c02_w_go_cfg (acronyms : list str) : go_config :=
  {| go_package := lit "p"; go_type_mappings := []; go_uppercase_acronyms := acronyms; go_no_version_header := true;
     go_no_pointer_slice := false; go_version := [] |}.
Definition c02_w_py_cfg : py_config := {| py_type_mappings := []; py_no_version_header := true; py_version := [] |}.

(* the Decl observation each back end's decision layer yields for one IR enum *)
Definition c02_w_obs (l : lang) (acronyms : list str) (e : renum) : option (list decl) :=
  match l with
  | TypeScript => match ts_decl_of uc_exec c02_w_ts_cfg (ItEnum e) [] with Ok (d, _) => Some [ts_obs d] | _ => None end
  | Kotlin => match kt_decl_of c02_w_kt_cfg (ItEnum e) with Ok ds => Some (map kt_obs ds) | _ => None end
  | Swift => match sw_decl_of uc_exec c02_w_sw_cfg (ItEnum e) false with Ok (d, _) => Some (sw_obs d) | _ => None end
  | Scala => match sc_decl_of c02_w_sc_cfg (ItEnum e) with Ok ds => Some (flat_map sc_obs ds) | _ => None end
  | Go => match go_decl_of uc_exec (c02_w_go_cfg acronyms) [] (ItEnum e) [] with Ok (ds, _) => Some (flat_map go_obs ds) | _ => None end
  | Python => match py_decl_of uc_exec c02_w_py_cfg (ItEnum e) py_empty_state with Ok (ds, _) => Some (flat_map py_obs ds) | _ => None end
  end.

(* source-level verdict: (dom, known, good) of the whole pipeline front end + back end [l] *)
Definition c02_w_verdict (l : lang) (acronyms : list str) (attrs : list attr) (vs : list variant) : option (bool * option string * bool) :=
  match c02_w_parse attrs vs, c02_expect_src uc_exec [] attrs vs with
  | Some e, Some x =>
    match c02_w_obs l acronyms e with
    | Some ds => Some (dom_C02 uc_exec [] attrs vs,
                       known_C02 l (match acronyms with [] => false | _ => true end) uc_exec [] attrs vs,
                       good_C02 l x ds)
    | None => None
    end
  | _, _ => None
  end.

(* ---------- non-vacuity: a mixed adjacently tagged enum, renamed variant, rename_all, all six languages ---------- *)
Definition c02_nv_attrs : list attr := [c02_w_serde [c02_w_nv "rename_all" "kebab-case"]; c02_w_keys].
Definition c02_nv_vs : list variant :=
  [c02_w_unit [] "AddressLine1"; c02_w_tuple [c02_w_serde [c02_w_nv "rename" "type"]] "Http2" "String";
   c02_w_struct [] "GreenLight" "user_id" "u32"; c02_w_unit [c02_w_serde [MPath [lit "skip"]]] "Hidden"].

Example C02_nonvacuous :
  forallb (fun l => match c02_w_verdict l [] c02_nv_attrs c02_nv_vs with Some (true, None, true) => true | _ => false end) all_langs = true /\
  option_map c02_wires (c02_expect_src uc_exec [] c02_nv_attrs c02_nv_vs) = Some [lit "address-line1"; lit "type"; lit "green-light"].
Proof. vm_compute. split; reflexivity. Qed.

(* ---------- refutation witnesses ---------- *)
Definition c02_refuted (l : lang) (acronyms : list str) (attrs : list attr) (vs : list variant) (cls : string) : Prop :=
  c02_w_verdict l acronyms attrs vs = Some (true, Some cls, false).

(* enum E { URL } under rename_all = "snake_case": typeshare "url", serde "u_r_l" - in every language *)
Definition c02_w_allcaps_attrs : list attr := [c02_w_serde [c02_w_nv "rename_all" "snake_case"]].
Lemma C02_allcaps_refuted : forall l, In l all_langs -> c02_refuted l [] c02_w_allcaps_attrs [c02_w_unit [] "URL"] "C02-allcaps".
Proof. intros l Hl. cbn in Hl. repeat (destruct Hl as [<-|Hl]; [vm_compute; reflexivity|]). destruct Hl. Qed.

(* ... and what the front end stores is not serde's name *)
Lemma C02_allcaps_front_refuted :
  option_map (fun e => c02_wires (c02_expect_ir e)) (c02_w_parse c02_w_allcaps_attrs [c02_w_unit [] "URL"]) = Some [lit "url"] /\
  option_map c02_wires (c02_expect_src uc_exec [] c02_w_allcaps_attrs [c02_w_unit [] "URL"]) = Some [lit "u_r_l"].
Proof. vm_compute. split; reflexivity. Qed.

Lemma C02_swift_case_collision_refuted : c02_refuted Swift [] [] [c02_w_unit [] "URL"; c02_w_unit [] "Url"] "C02-swift-case-collision".
Proof. vm_compute. reflexivity. Qed.
Lemma C02_kotlin_case_collision_refuted :
  c02_refuted Kotlin [] [c02_w_keys] [c02_w_unit [] "URL"; c02_w_tuple [] "Url" "u8"] "C02-kotlin-case-collision".
Proof. vm_compute. reflexivity. Qed.
Lemma C02_python_unit_member_collision_refuted :
  c02_refuted Python [] [] [c02_w_unit [] "FooBar"; c02_w_unit [] "Foobar"] "C02-python-unit-member-collision".
Proof. vm_compute. reflexivity. Qed.
Lemma C02_python_types_member_collision_refuted :
  c02_refuted Python [] [c02_w_keys] [c02_w_struct [c02_w_serde [c02_w_nv "rename" "fooBar"]] "A" "x" "u8";
                                     c02_w_unit [c02_w_serde [c02_w_nv "rename" "foo_bar"]] "B"] "C02-python-types-member-collision".
Proof. vm_compute. reflexivity. Qed.
Lemma C02_go_acronym_case_collision_refuted :
  c02_refuted Go [lit "ID"] [c02_w_keys] [c02_w_tuple [] "UserId" "u8"; c02_w_unit [] "UserID"] "C02-go-acronym-case-collision".
Proof. vm_compute. reflexivity. Qed.
