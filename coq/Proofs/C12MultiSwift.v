(* C12 in multi-file mode, Swift: no file of a multi-crate run defines CodableVoid (end_file writes it only in
   single-file mode); should_emit_codable_void lives in the language value and is never reset, so a file that
   spells CodableVoid leaves the flag set until the end of the run, and post_generation then writes the shared
   Codable.swift (Model/Writer.v write_codable_file) holding the definition. *)
From Coq Require Import List Bool Permutation String.
From TS Require Import Model.Str Model.Outcome Model.Unicode Model.Types Model.Parse Model.TopsortAlgo Model.Topsort
                       Model.Lang.Common Model.Lang.Decl Model.Lang.Swift Model.MultiFile Spec.C12Spec Spec.C17Spec.
From TS Require Model.Writer.
From TS Require Import Proofs.BackCommon Proofs.C12Common Proofs.C12Obs Proofs.C12_Swift Proofs.C12Multi.
From TS Require Proofs.C17.
Import ListNotations.
Local Notation length := List.length (only parsing).
Local Notation concat := List.concat (only parsing).
Local Open Scope list_scope.

(* the declarations of ONE file of a multi-file run and the flag afterwards, from the flag the earlier crates left *)
Definition sw_multi_decls (uc : unicode) (cfg : sw_config) (st0 : sw_state) (pd : parsed) : outcome (list sw_decl * sw_state) :=
  do items <- topsort (items_of pd);
  mmapM (sw_decl_of uc cfg) items st0.

Lemma sw_multi_decls_initial uc cfg pd : sw_multi_decls uc cfg false pd = sw_decls uc cfg pd.
Proof. reflexivity. Qed.

(* layout: begin_file's text and the rendering of exactly these declarations - NO trailing CodableVoid *)
Theorem sw_multi_layout uc cfg (st : sw_state) (pd : parsed) text st' :
  sw_generate_multi uc cfg st pd = Ok (text, st') <->
  exists ds, sw_multi_decls uc cfg st pd = Ok (ds, st') /\
             text = sw_begin_file cfg ++ concat (map (sw_render_decl) ds).
Proof.
  unfold sw_generate_multi, sw_multi_decls. destruct (topsort (items_of pd)) as [items| |]; cbn [bind].
  2,3: split; [discriminate|intros (ds & E & _); discriminate E].
  unfold mconcat, sw_write_item. split.
  - intros H. destruct (mbind _ _ st) as [[body s1]| |] eqn:Em; try discriminate H. injection H as <- <-.
    apply mbind_ok in Em as (ps & s2 & Eps & Em). unfold ret in Em. injection Em as <- <-.
    apply cm_mmapM_render in Eps as (ds & Eds & ->). exists ds. split; [exact Eds|reflexivity].
  - intros (ds & E & ->).
    assert (Eps : mmapM (fun x => mbind (sw_decl_of uc cfg x) (fun d => ret (sw_render_decl d))) items st =
                  Ok (map (sw_render_decl) ds, st')).
    { apply cm_mmapM_render. eauto. }
    rewrite (cm_mbind_intro _ _ _ _ _ Eps). reflexivity.
Qed.

(* the item writers never produce the CodableVoid declaration itself *)
Lemma c12_sw_decl_of_defs uc cfg it s d s' : sw_decl_of uc cfg it s = Ok (d, s') -> c12_sw_decl_defs d = [].
Proof.
  destruct it as [rs|e|a|c]; cbn [sw_decl_of]; intros H.
  - apply mbind_ok in H as (x & s1 & _ & H). unfold ret in H. injection H as <- _. reflexivity.
  - apply mbind_ok in H as (x & s1 & _ & H). unfold ret in H. injection H as <- _. reflexivity.
  - apply mbind_ok in H as (x & s1 & _ & H). unfold ret in H. injection H as <- _. reflexivity.
  - discriminate H.
Qed.

Lemma c12_sw_items_defs uc cfg items : forall s ds s',
  mmapM (sw_decl_of uc cfg) items s = Ok (ds, s') -> c12_sw_defs ds = [].
Proof.
  induction items as [|it items IH]; intros s ds s' H; cbn [mmapM] in H.
  - unfold ret in H. injection H as <- _. reflexivity.
  - apply mbind_ok in H as (d & s1 & Ed & H). apply mbind_ok in H as (ds1 & s2 & Eds & H).
    unfold ret in H. injection H as <- _. unfold c12_sw_defs. cbn [flat_map].
    rewrite (c12_sw_decl_of_defs _ _ _ _ _ _ Ed). exact (IH _ _ _ Eds).
Qed.

(* ONE FILE from ANY flag: the file defines nothing; the flag is never cleared; it is set afterwards when the
   file spells CodableVoid *)
Theorem c12_sw_file_from uc cfg st0 pd ds st :
  sw_multi_decls uc cfg st0 pd = Ok (ds, st) -> c12_sw_dom cfg (items_of pd) = true ->
  c12_sw_defs ds = [] /\ (st0 = true -> st = true) /\ (c12_sw_uses ds <> [] -> st = true).
Proof.
  unfold sw_multi_decls. intros H Hdom. apply c12_bind_ok in H as (items & Et & H).
  apply c12_topsort_perm in Et. apply (c12_ids_avoid_perm _ _ _ _ Et) in Hdom.
  apply c12_sw_dom_items in Hdom. destruct (c12_sw_items_flag uc cfg _ Hdom _ _ _ H) as [L Q].
  split; [exact (c12_sw_items_defs _ _ _ _ _ _ H)|]. split; [exact L|exact Q].
Qed.

(* ---- Codable.swift ---- *)
(* what the run hands the writer as `codable` (ocaml/drv_c14.ml swift_codable; swift.rs:535 post_generation):
   get_codable_contents () exactly when the run completed with should_emit_codable_void set *)
Definition sw_multi_codable (cfg : sw_config) (fin : outcome sw_state) : option str :=
  match fin with Ok true => Some (sw_codable_contents cfg) | _ => None end.

(* the bytes write_codable puts into Codable.swift are the rendering of the CodableVoid declaration *)
Lemma sw_write_codable_contents cfg :
  Writer.write_codable (sw_codable_contents cfg) = sw_render_decl (sw_codable_void cfg).
Proof.
  unfold Writer.write_codable, sw_codable_contents, sw_end_file, sw_trailing_decls. cbn [flat_map]. rewrite app_nil_r.
  unfold sw_codable_void. cbn [sw_render_decl]. unfold sw_nl at 2.
  rewrite !app_assoc. rewrite removelast_last. reflexivity.
Qed.

Lemma cm_all_generated {St} (gen : St -> str -> scoped -> parsed -> outcome (str * St)) plan st files st' :
  generate_crates gen st plan = (files, Ok st') -> all_generated files = true.
Proof.
  intros H. destruct (cm_crates_all_generated gen plan st files st' H) as [_ F].
  unfold all_generated. apply forallb_forall. rewrite Forall_forall in F. intros f Hf.
  destruct (F f Hf) as [t Et]. destruct f as [n g]. cbn [snd] in *. subst g. reflexivity.
Qed.

(* a run whose crates were all generated and that is handed Some c writes c and a newline into Codable.swift
   (or finds exactly that there) and exits with status 0 - from ANY file system *)
Lemma cm_codable_written s now folder crates c :
  all_generated crates = true ->
  Writer.content (Writer.run s now (Writer.MultiFile folder crates (Some c))) (codable_path folder) = Some (Writer.write_codable c) /\
  snd (Writer.run_full s now (Writer.MultiFile folder crates (Some c))) = Writer.ExitOk.
Proof.
  intros Hall. unfold Writer.run, Writer.run_full, Writer.write_multiple_files.
  rewrite C17.write_crates_spec, Hall. cbn [fst snd Writer.post_generation]. split; [|reflexivity].
  set (s1 := C17.exec now (C17.crate_actions folder crates) s).
  unfold Writer.write_codable_file. fold (codable_path folder).
  unfold Writer.content.
  destruct (Writer.fs_read s1 (codable_path folder)) as [[buf m]|] eqn:Er.
  - destruct (Writer.strip_suffix_nl buf) as [b|] eqn:Es.
    + destruct (str_eqb b c) eqn:Eb.
      * rewrite Er. cbn [option_map fst]. apply str_eqb_eq in Eb. subst b.
        apply C17.strip_suffix_nl_spec in Es. subst buf. reflexivity.
      * rewrite C17.read_write_same. reflexivity.
    + rewrite C17.read_write_same. reflexivity.
  - rewrite C17.read_write_same. reflexivity.
Qed.

(* THE RUN *)
Definition sw_multi_gen (uc : unicode) (cfg : sw_config) (st : sw_state) (_ : str) (_ : scoped) (pd : parsed) :=
  sw_generate_multi uc cfg st pd.
Definition sw_plan_dom (cfg : sw_config) (p : out_plan) : Prop := c12_sw_dom cfg (items_of (op_data p)) = true.

Lemma c12_sw_run_flag uc cfg : forall plan st files fin,
  Forall (sw_plan_dom cfg) plan ->
  generate_crates (sw_multi_gen uc cfg) st plan = (files, Ok fin) ->
  (st = true -> fin = true) /\
  forall i fname text, nth_error files i = Some (fname, Writer.Generated text) ->
    exists p st_i st_i' ds,
      nth_error plan i = Some p /\ fname = op_file p /\
      sw_generate_multi uc cfg st_i (op_data p) = Ok (text, st_i') /\
      sw_multi_decls uc cfg st_i (op_data p) = Ok (ds, st_i') /\
      text = sw_begin_file cfg ++ concat (map (sw_render_decl) ds) /\
      c12_sw_defs ds = [] /\
      (c12_sw_uses ds <> [] -> fin = true).
Proof.
  induction plan as [|p r IH]; intros st files fin Hdom H; cbn [generate_crates] in H.
  - injection H as <- <-. split; [auto|]. intros [|i] ? ? E; discriminate E.
  - apply Forall_cons_iff in Hdom as [Hp Hr].
    destruct (sw_multi_gen uc cfg st (op_crate p) (op_imports p) (op_data p)) as [[t st1]|e|s] eqn:Eg;
      try (injection H as _ H; discriminate H).
    destruct (generate_crates (sw_multi_gen uc cfg) st1 r) as [rest fin1] eqn:Er. injection H as <- ->.
    destruct (IH st1 rest fin Hr Er) as [Hmono Hfiles].
    unfold sw_multi_gen in Eg. pose proof Eg as Eg'. apply sw_multi_layout in Eg' as (ds & Eds & Etext).
    destruct (c12_sw_file_from uc cfg st (op_data p) ds st1 Eds Hp) as (Hdefs & Hkeep & Hset).
    split; [auto|]. intros [|i] fname text Hn; cbn [nth_error] in Hn.
    + injection Hn as <- <-. exists p, st, st1, ds. repeat split; auto.
    + destruct (Hfiles i fname text Hn) as (q & a & b & ds' & Hq & Hf & Hg & Hd & Ht & Hdf & Hu).
      exists q, a, b, ds'. cbn [nth_error]. repeat split; auto.
Qed.

Theorem c12_multi_swift uc cfg st0 plan files fin :
  Forall (sw_plan_dom cfg) plan ->
  generate_crates (sw_multi_gen uc cfg) st0 plan = (files, Ok fin) ->
  (st0 = true -> fin = true) /\
  (forall i fname text, nth_error files i = Some (fname, Writer.Generated text) ->
     exists p st_i st_i' ds,
       nth_error plan i = Some p /\ fname = op_file p /\
       sw_generate_multi uc cfg st_i (op_data p) = Ok (text, st_i') /\
       sw_multi_decls uc cfg st_i (op_data p) = Ok (ds, st_i') /\
       text = sw_begin_file cfg ++ concat (map (sw_render_decl) ds) /\
       c12_sw_defs ds = [] /\
       (c12_sw_uses ds <> [] -> fin = true)) /\
  (fin = true ->
     sw_multi_codable cfg (Ok fin) = Some (sw_codable_contents cfg) /\
     c12_sw_decl_defs (sw_codable_void cfg) = [sw_CODABLE_VOID] /\
     forall (s : Writer.fs) (now : Writer.mtime) (folder : str),
       Writer.content (Writer.run s now (multi_outputs folder files (sw_multi_codable cfg (Ok fin)))) (codable_path folder) =
         Some (sw_render_decl (sw_codable_void cfg)) /\
       snd (Writer.run_full s now (multi_outputs folder files (sw_multi_codable cfg (Ok fin)))) = Writer.ExitOk).
Proof.
  intros Hdom H. destruct (c12_sw_run_flag uc cfg plan st0 files fin Hdom H) as [Hmono Hfiles].
  split; [exact Hmono|]. split; [exact Hfiles|].
  intros ->. split; [reflexivity|]. split; [reflexivity|]. intros s now folder.
  unfold multi_outputs, sw_multi_codable. rewrite <- sw_write_codable_contents.
  apply cm_codable_written. exact (cm_all_generated _ _ _ _ _ H).
Qed.
