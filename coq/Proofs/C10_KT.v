(* C10 for Kotlin, the lexical half, complete: layout layer (every well-formed declaration prints to a neutral
   fragment), decision layer (every IR item of the domain gives well-formed declarations), whole file. *)
From Coq Require Import List Bool Lia ZifyBool ZifyN NArith Permutation.
From TS Require Import Model.Str Model.Outcome Model.Unicode Model.Types Model.Parse Model.Rename Model.TopsortAlgo Model.Topsort
                       Model.Lang.Common Model.Lang.Decl Model.Lang.TypeScript Model.Lang.Kotlin.
From TS Require Import Spec.C10Spec Proofs.BackCommon Proofs.C10Lex Proofs.C10_TSFile Proofs.C10Common.
Import ListNotations.
Local Open Scope N_scope.
Local Notation length := List.length (only parsing).

Definition nonnil (s : str) : bool := match s with [] => false | _ => true end.
Lemma nonnil_ne s : nonnil s = true -> s <> [].
Proof. destruct s; [discriminate|discriminate]. Qed.

(* ------------------------------------------------------------------ layout: comments, types *)
Lemma kt_tabs_bal n : bal c10_lex_kt (tabs n).
Proof. apply tr_repeat_str. intros st. reflexivity. Qed.

Lemma kt_comments_bal indent docs : forallb c10_line_ok docs = true -> bal c10_lex_kt (kt_write_comments indent docs).
Proof.
  intros H. unfold kt_write_comments. apply tr_concat_map. apply Forall_forall. intros c Hc.
  rewrite forallb_forall in H. pose proof (line_stay c10_lex_kt c (H c Hc)) as Hl.
  pose proof (kt_tabs_bal indent) as Ht. unfold kt_write_comment. intros st. walk. reflexivity.
Qed.

Lemma kt_show_bal x : c10_texp_ok c10_lex_kt x = true -> bal c10_lex_kt (kt_show x).
Proof.
  induction x as [n args IH | e IH | es IH | k v IHk IHv | e IH | t] using texp_ind'; intros H; cbn [c10_texp_ok] in H.
  - apply andb_true_iff in H as [Hn Ha]. pose proof (tok_bal c10_lex_kt n Hn) as Hnb.
    destruct args as [|a l]; [exact Hnb|].
    change (kt_show (XName n (a :: l))) with (n ++ lit "<" ++ join (lit ", ") (map kt_show (a :: l)) ++ lit ">").
    assert (Hj : bal c10_lex_kt (join (lit ", ") (map kt_show (a :: l)))).
    { apply tr_join_map; [intros st; reflexivity|]. exact (Forall_forallb_imp _ _ _ IH Ha). }
    intros st. set (J := join _ _) in *. walk. reflexivity.
  - change (kt_show (XSeq e)) with (lit "List<" ++ kt_show e ++ lit ">"). specialize (IH H). intros st. walk. reflexivity.
  - change (kt_show (XFixed es)) with (lit "List<" ++ join (lit ", ") (map kt_show es) ++ lit ">").
    assert (Hj : bal c10_lex_kt (join (lit ", ") (map kt_show es))).
    { apply tr_join_map; [intros st; reflexivity|]. exact (Forall_forallb_imp _ _ _ IH H). }
    intros st. set (J := join _ _) in *. walk. reflexivity.
  - apply andb_true_iff in H as [Hk Hv]. specialize (IHk Hk). specialize (IHv Hv).
    change (kt_show (XMap k v)) with (lit "HashMap<" ++ kt_show k ++ lit ", " ++ kt_show v ++ lit ">").
    intros st. walk. reflexivity.
  - change (kt_show (XOpt e)) with (kt_show e ++ lit "?"). specialize (IH H). intros st. walk. reflexivity.
  - exact (balanced_bal _ t H).
Qed.

(* ------------------------------------------------------------------ well-formed declarations *)
Definition c10_kt_member_ok (m : kt_member) : bool :=
  forallb c10_line_ok (km_docs m) && match km_serial_name m with Some k => nonnil k | None => true end &&
  c10_tok_ok (km_name m) && c10_texp_ok c10_lex_kt (km_type m).
Definition c10_kt_entry_ok (e : kt_entry) : bool := forallb c10_line_ok (ke_docs e) && c10_tok_ok (ke_name e) && nonnil (ke_wire e).
Definition c10_kt_variant_ok (v : kt_variant) : bool :=
  forallb c10_line_ok (kv_docs v) && nonnil (kv_wire v) && c10_instr_ok (kv_wire v) && c10_tok_ok (kv_name v) && c10_tok_ok (kv_parent v) &&
  match kv_payload v with
  | KTPUnit => true
  | KTPNewtype ty => c10_texp_ok c10_lex_kt ty
  | KTPInner inner gs => c10_tok_ok inner && forallb c10_tok_ok gs
  end.
Definition c10_kt_decl_ok (d : kt_decl) : bool :=
  match d with
  | KTObject docs name => forallb c10_line_ok docs && c10_tok_ok name
  | KTDataClass docs name gs ms ts =>
    forallb c10_line_ok docs && c10_tok_ok name && forallb c10_tok_ok gs && forallb c10_kt_member_ok ms &&
    match ts with Some s => nonnil s | None => true end
  | KTTypeAlias docs name gs ty => forallb c10_line_ok docs && c10_tok_ok name && forallb c10_tok_ok gs && c10_texp_ok c10_lex_kt ty
  | KTValueClass docs name m _ => forallb c10_line_ok docs && c10_tok_ok name && c10_kt_member_ok m
  | KTEnumClass docs name gs es => forallb c10_line_ok docs && c10_tok_ok name && forallb c10_tok_ok gs && forallb c10_kt_entry_ok es
  | KTSealedClass docs name gs content vs =>
    forallb c10_line_ok docs && c10_tok_ok name && forallb c10_tok_ok gs && c10_tok_ok content && forallb c10_kt_variant_ok vs
  end.

Lemma kt_render_member_bal m : c10_kt_member_ok m = true -> bal c10_lex_kt (kt_render_member m).
Proof.
  unfold c10_kt_member_ok. rewrite !andb_true_iff. intros [[[Hd Hs] Hn] Ht].
  pose proof (kt_comments_bal 1 _ Hd) as H1. pose proof (tok_bal c10_lex_kt _ Hn) as H2. pose proof (kt_show_bal _ Ht) as H3.
  unfold kt_render_member. destruct (km_serial_name m) as [k|].
  - pose proof (debug_str_bal_triple c10_lex_kt k (nonnil_ne _ Hs)) as H4.
    intros st. destruct (km_visibility m), (km_default m); walk; reflexivity.
  - intros st. destruct (km_visibility m), (km_default m); walk; reflexivity.
Qed.

Lemma kt_render_entry_bal e : c10_kt_entry_ok e = true -> bal c10_lex_kt (kt_render_entry e).
Proof.
  unfold c10_kt_entry_ok. rewrite !andb_true_iff. intros [[Hd Hn] Hw].
  pose proof (kt_comments_bal 1 _ Hd) as H1. pose proof (tok_bal c10_lex_kt _ Hn) as H2.
  pose proof (debug_str_bal_triple c10_lex_kt _ (nonnil_ne _ Hw)) as H3.
  unfold kt_render_entry. intros st. walk. reflexivity.
Qed.

Lemma kt_render_variant_bal content gs v : c10_tok_ok content = true -> forallb c10_tok_ok gs = true -> c10_kt_variant_ok v = true ->
  bal c10_lex_kt (kt_render_variant content gs v).
Proof.
  intros Hc Hg. unfold c10_kt_variant_ok. rewrite !andb_true_iff. intros [[[[[Hd Hw1] Hw2] Hn] Hp] Hpay].
  pose proof (kt_comments_bal 1 _ Hd) as H1. pose proof (tok_bal c10_lex_kt _ Hn) as H2. pose proof (tok_bal c10_lex_kt _ Hp) as H3.
  pose proof (tok_bal c10_lex_kt _ Hc) as H4. pose proof (tok_bal c10_lex_kt _ (generics_suffix_tok _ Hg)) as H5.
  pose proof (instr_q1 c10_lex_kt _ (nonnil_ne _ Hw1) Hw2) as H6.
  unfold kt_render_variant. destruct (kv_payload v) as [|ty|inner igs].
  - intros st. walk. reflexivity.
  - pose proof (kt_show_bal _ Hpay) as H7. intros st. walk. reflexivity.
  - apply andb_true_iff in Hpay as [Hi Hig]. pose proof (tok_bal c10_lex_kt _ Hi) as H7.
    pose proof (tok_bal c10_lex_kt _ (generics_suffix_tok _ Hig)) as H8. intros st. walk. reflexivity.
Qed.

Theorem kt_render_decl_bal d : c10_kt_decl_ok d = true -> bal c10_lex_kt (kt_render_decl d).
Proof.
  destruct d as [docs name | docs name gs ms ts | docs name gs ty | docs name m red | docs name gs es | docs name gs content vs];
    cbn [c10_kt_decl_ok kt_render_decl]; rewrite ?andb_true_iff; intros H.
  - destruct H as [Hd Hn]. pose proof (kt_comments_bal 0 _ Hd) as H1. pose proof (tok_bal c10_lex_kt _ Hn) as H2.
    intros st. walk. reflexivity.
  - destruct H as [[[[Hd Hn] Hg] Hm] Hts].
    pose proof (kt_comments_bal 0 _ Hd) as H1. pose proof (tok_bal c10_lex_kt _ Hn) as H2.
    pose proof (tok_bal c10_lex_kt _ (generics_suffix_tok _ Hg)) as H3.
    assert (H4 : bal c10_lex_kt (join (lit "," ++ nl) (map kt_render_member ms))).
    { apply tr_join_map; [intros st; reflexivity|]. apply Forall_forall. intros m Hin. apply kt_render_member_bal.
      rewrite forallb_forall in Hm. exact (Hm m Hin). }
    destruct ts as [s|].
    + pose proof (debug_str_bal_triple c10_lex_kt s (nonnil_ne _ Hts)) as H5. intros st. set (J := join _ _) in *. walk. reflexivity.
    + intros st. set (J := join _ _) in *. walk. reflexivity.
  - destruct H as [[[Hd Hn] Hg] Ht].
    pose proof (kt_comments_bal 0 _ Hd) as H1. pose proof (tok_bal c10_lex_kt _ Hn) as H2.
    pose proof (tok_bal c10_lex_kt _ (generics_suffix_tok _ Hg)) as H3. pose proof (kt_show_bal _ Ht) as H4.
    intros st. walk. reflexivity.
  - destruct H as [[Hd Hn] Hm].
    pose proof (kt_comments_bal 0 _ Hd) as H1. pose proof (tok_bal c10_lex_kt _ Hn) as H2. pose proof (kt_render_member_bal _ Hm) as H3.
    intros st. destruct red; walk; reflexivity.
  - destruct H as [[[Hd Hn] Hg] He].
    pose proof (kt_comments_bal 0 _ Hd) as H1. pose proof (tok_bal c10_lex_kt _ Hn) as H2.
    pose proof (tok_bal c10_lex_kt _ (generics_suffix_tok _ Hg)) as H3.
    assert (H4 : bal c10_lex_kt (List.concat (map kt_render_entry es))).
    { apply tr_concat_map. apply Forall_forall. intros e Hin. apply kt_render_entry_bal. rewrite forallb_forall in He. exact (He e Hin). }
    intros st. set (ES := List.concat _) in *. walk. reflexivity.
  - destruct H as [[[[Hd Hn] Hg] Hc] Hv].
    pose proof (kt_comments_bal 0 _ Hd) as H1. pose proof (tok_bal c10_lex_kt _ Hn) as H2.
    pose proof (tok_bal c10_lex_kt _ (generics_suffix_tok _ Hg)) as H3.
    assert (H4 : bal c10_lex_kt (List.concat (map (kt_render_variant content gs) vs))).
    { apply tr_concat_map. apply Forall_forall. intros v Hin. apply kt_render_variant_bal; auto. rewrite forallb_forall in Hv. exact (Hv v Hin). }
    intros st. set (VS := List.concat _) in *. walk. reflexivity.
Qed.

(* ================================================================== decisions *)
Definition c10_kt_cfg_ok (cfg : kt_config) : bool :=
  forallb (fun kv => c10_raw_ok c10_lex_kt (snd kv)) (kt_type_mappings cfg) && c10_dotted_ok (kt_version cfg) &&
  c10_dotted_ok (kt_package cfg) && (match kt_prefix cfg with [] => true | p => forallb c10_ident_char p end).

Section KTDecide.
Variable uc : unicode.
Variable cfg : kt_config.
Hypothesis Hcfg : c10_kt_cfg_ok cfg = true.

Lemma kt_Hmap : forallb (fun kv => c10_raw_ok c10_lex_kt (snd kv)) (kt_type_mappings cfg) = true.
Proof. unfold c10_kt_cfg_ok in Hcfg. rewrite !andb_true_iff in Hcfg. tauto. Qed.
Lemma kt_prefix_chars : forallb c10_ident_char (kt_prefix cfg) = true.
Proof. unfold c10_kt_cfg_ok in Hcfg. rewrite !andb_true_iff in Hcfg. destruct Hcfg as [_ H]. destruct (kt_prefix cfg); [reflexivity|exact H]. Qed.

Lemma kt_prefixed_tok s : forallb c10_ident_char s = true -> c10_tok_ok (kt_prefix cfg ++ s) = true.
Proof. intros H. apply ident_chars_tok. rewrite forallb_app, kt_prefix_chars, H. reflexivity. Qed.

Lemma kt_type_name_tok base gs : c10_ident_ok base = true -> c10_tok_ok (kt_type_name cfg base gs) = true.
Proof.
  intros H. unfold kt_type_name. destruct (mem_str base gs); [apply ident_tok, H|apply kt_prefixed_tok, ident_ok_chars, H].
Qed.

Lemma kt_texp_ok generics t : c10_rtype_ok t = true -> forall x, kt_texp cfg generics t = Ok x -> c10_texp_ok c10_lex_kt x = true.
Proof.
  induction t as [id | id ps IH | t IH | t n IH | t IH | k v IHk IHv | t IH | p] using rtype_ind';
    intros Hok x H; cbn [c10_rtype_ok] in Hok; cbn [kt_texp] in H.
  - injection H as <-. unfold kt_format_simple_type. destruct (tmap_get (kt_type_mappings cfg) id) eqn:E; cbn [c10_texp_ok].
    + exact (tmap_get_raw _ _ _ _ kt_Hmap E).
    + rewrite (kt_type_name_tok _ _ Hok). reflexivity.
  - apply andb_true_iff in Hok as [Hid Hps].
    destruct (tmap_get (kt_type_mappings cfg) id) eqn:E.
    + injection H as <-. exact (tmap_get_raw _ _ _ _ kt_Hmap E).
    + apply bind_ok in H as (parts & Hgo & H). injection H as <-. cbn [c10_texp_ok]. rewrite (kt_type_name_tok _ _ Hid). cbn [andb].
      clear E. revert parts Hgo. induction IH as [|a l Ha Hl IHl]; intros parts Hgo.
      * injection Hgo as <-. reflexivity.
      * cbn [forallb] in Hps. apply andb_true_iff in Hps as [Hpa Hpl].
        apply bind_ok in Hgo as (y & Hy & Hgo). apply bind_ok in Hgo as (ys & Hys & Hgo). injection Hgo as <-.
        cbn [forallb]. rewrite (Ha Hpa _ Hy), (IHl Hpl _ Hys). reflexivity.
  - apply bind_ok in H as (e & He & H). injection H as <-. cbn [c10_texp_ok forallb]. rewrite (IH Hok _ He). reflexivity.
  - apply bind_ok in H as (e & He & H). injection H as <-. cbn [c10_texp_ok forallb]. rewrite (IH Hok _ He). reflexivity.
  - apply bind_ok in H as (e & He & H). injection H as <-. cbn [c10_texp_ok forallb]. rewrite (IH Hok _ He). reflexivity.
  - apply andb_true_iff in Hok as [Hk Hv]. apply bind_ok in H as (ks & Hks & H). apply bind_ok in H as (vs & Hvs & H). injection H as <-.
    cbn [c10_texp_ok forallb]. rewrite (IHk Hk _ Hks), (IHv Hv _ Hvs). reflexivity.
  - apply bind_ok in H as (e & He & H). injection H as <-. cbn [c10_texp_ok]. exact (IH Hok _ He).
  - destruct p; try discriminate; injection H as <-; reflexivity.
Qed.

Lemma kt_member_ok f gs rs vis m : c10_field_ok CKT f = true -> kt_member_of cfg f gs rs vis = Ok m -> c10_kt_member_ok m = true.
Proof.
  intros Hf H. unfold kt_member_of in H. apply bind_ok in H as (ty & Hty & H). injection H as <-.
  pose proof Hf as Hf0. unfold c10_field_ok in Hf. rewrite !andb_true_iff in Hf. destruct Hf as [[[Hid Hrt] Hdocs] _].
  unfold c10_member_id_ok in Hid. apply andb_true_iff in Hid as [_ Hren].
  unfold c10_kt_member_ok. cbn [km_docs km_serial_name km_name km_type]. rewrite (docs_line_ok _ Hdocs). cbn [andb].
  assert (Pty : c10_texp_ok c10_lex_kt ty = true).
  { destruct (type_override f Kotlin) as [o|] eqn:Eo.
    - injection Hty as <-. exact (type_override_raw CKT f o Hf0 Eo).
    - exact (kt_texp_ok gs (fty f) Hrt _ Hty). }
  rewrite Pty. unfold kt_remove_dash_from_identifier. rewrite (replace_dash_tok _ (key_tok _ Hren)).
  destruct rs; [|reflexivity]. destruct (renamed (fid f)); [discriminate|reflexivity].
Qed.

(* write_struct on a source struct or on the helper struct of a struct variant *)
Lemma kt_struct_decl_ok rs d :
  c10_ident_ok (renamed (sid rs)) = true -> forallb c10_ident_ok (sgenerics rs) = true ->
  forallb (c10_field_ok CKT) (sfields rs) = true -> forallb c10_line_ok (scomments rs) = true ->
  kt_struct_decl cfg rs = Ok d -> c10_kt_decl_ok d = true.
Proof.
  intros Hren Hg Hf Hd H. unfold kt_struct_decl in H. destruct (sfields rs) as [|f0 fs] eqn:Ef.
  - injection H as <-. cbn [c10_kt_decl_ok]. rewrite Hd, (kt_prefixed_tok _ (ident_ok_chars _ Hren)). reflexivity.
  - apply bind_ok in H as (ms & Hms & H). injection H as <-. cbn [c10_kt_decl_ok].
    rewrite Hd, (kt_prefixed_tok _ (ident_ok_chars _ Hren)), (generics_tok _ Hg). cbn [andb].
    assert (Pm : forallb c10_kt_member_ok ms = true).
    { apply Forall_forallb. eapply mapM_Forall_in; [|apply forallb_Forall; exact Hf|exact Hms].
      intros x y Hx Hy. exact (kt_member_ok _ _ _ _ _ Hx Hy). }
    rewrite Pm. destruct (sredacted rs); [|reflexivity]. destruct (renamed (sid rs)); [discriminate|reflexivity].
Qed.

Lemma ident_ok_app a b : c10_ident_ok a = true -> forallb c10_ident_char b = true -> c10_ident_ok (a ++ b) = true.
Proof.
  destruct a as [|c r]; [discriminate|]. unfold c10_ident_ok. cbn [app forallb]. rewrite !andb_true_iff. intros [Hc Hr] Hb.
  split; [exact Hc|]. rewrite forallb_app, Hr, Hb. reflexivity.
Qed.

Lemma kt_alias_decl_ok a d : c10_item_ok CKT (ItAlias a) = true -> kt_alias_decl cfg a = Ok d -> c10_kt_decl_ok d = true.
Proof.
  cbn [c10_item_ok]. rewrite !andb_true_iff. intros [[[[Hid Hg] Ht] Hd] _] H.
  unfold c10_type_id_ok in Hid. apply andb_true_iff in Hid as [Horig Hren].
  unfold kt_alias_decl in H. destruct (kt_is_inline (adecs a)).
  - apply bind_ok in H as (m & Hm & H). injection H as <-. cbn [c10_kt_decl_ok].
    rewrite (docs_line_ok _ Hd), (kt_prefixed_tok _ (ident_ok_chars _ Hren)). cbn [andb].
    eapply kt_member_ok; [|exact Hm]. unfold c10_field_ok, c10_member_id_ok. cbn [fid fty fcomments fdecs original renamed lookup_lang forallb].
    rewrite Ht. reflexivity.
  - apply bind_ok in H as (ty & Hty & H). injection H as <-. cbn [c10_kt_decl_ok].
    rewrite (docs_line_ok _ Hd), (kt_prefixed_tok _ (ident_ok_chars _ Horig)), (generics_tok _ Hg), (kt_texp_ok _ _ Ht _ Hty). reflexivity.
Qed.

Lemma kt_variant_ok sh v kv : forallb c10_ident_ok (egenerics sh) = true -> c10_ident_ok (original (eid sh)) = true ->
  c10_variant_ok CKT v = true -> kt_variant_of cfg sh v = Ok kv -> c10_kt_variant_ok kv = true.
Proof.
  intros Hg He Hv H. unfold c10_variant_ok in Hv. rewrite !andb_true_iff in Hv. destruct Hv as [[Hid Hdocs] Hp].
  unfold c10_member_id_ok in Hid. apply andb_true_iff in Hid as [Horig Hren].
  unfold kt_variant_of in H. apply bind_ok in H as (payload & Hpay & H). injection H as <-.
  unfold c10_kt_variant_ok. cbn [kv_docs kv_wire kv_name kv_parent kv_payload]. cbv zeta.
  rewrite (docs_line_ok _ Hdocs), (key_instr _ Hren), (kt_prefixed_tok _ (ident_ok_chars _ He)). cbn [andb].
  assert (Hw : nonnil (renamed (vid (variant_shared v))) = true) by (destruct (renamed (vid (variant_shared v))); [discriminate|reflexivity]).
  rewrite Hw. cbn [andb].
  assert (Hname : forall t, t = (match to_pascal_case (original (vid (variant_shared v))) with
                              | c :: _ => if is_adigit c then lit "_" ++ to_pascal_case (original (vid (variant_shared v)))
                                          else to_pascal_case (original (vid (variant_shared v)))
                              | [] => to_pascal_case (original (vid (variant_shared v)))
                              end) -> c10_tok_ok t = true).
  { intros t ->. pose proof (to_pascal_ident _ (ident_ok_chars _ Horig)) as Hp'.
    destruct (to_pascal_case (original (vid (variant_shared v)))) as [|c r] eqn:E; [reflexivity|].
    destruct (is_adigit c); apply ident_chars_tok; [rewrite forallb_app, Hp'; reflexivity|exact Hp']. }
  match goal with |- c10_tok_ok ?t && _ && _ = true => rewrite (Hname t eq_refl) end. cbn [andb].
  destruct v as [vsh | t vsh | fs vsh]; cbn [variant_shared] in *.
  - injection Hpay as <-. reflexivity.
  - apply bind_ok in Hpay as (ty & Hty & Hpay). injection Hpay as <-. exact (kt_texp_ok _ _ Hp _ Hty).
  - injection Hpay as <-. rewrite (generics_tok _ (anon_struct_generics_ok _ _ Hg)), andb_true_r.
    apply kt_prefixed_tok. rewrite !forallb_app, (ident_ok_chars _ He), (ident_ok_chars _ Horig). reflexivity.
Qed.

Lemma kt_enum_decls_ok e ds : c10_item_ok CKT (ItEnum e) = true -> kt_enum_decls cfg e = Ok ds -> forallb c10_kt_decl_ok ds = true.
Proof.
  cbn [c10_item_ok]. rewrite !andb_true_iff. intros [[[[[Hid Hg] Hd] Hv] _] Htc] H.
  unfold c10_type_id_ok in Hid. apply andb_true_iff in Hid as [Horig Hren].
  unfold kt_enum_decls in H. apply bind_ok in H as (anon & Hanon & H). apply bind_ok in H as (d & Hd' & H). injection H as <-.
  rewrite forallb_app. apply andb_true_iff. split.
  - unfold kt_inner_decls in Hanon. apply bind_ok in Hanon as (dss & Hdss & Hanon). injection Hanon as <-.
    apply Forall_forallb. apply Forall_concat.
    eapply mapM_Forall_in; [|apply forallb_Forall; exact Hv|exact Hdss].
    intros v ds0 Hv0 Hds0. cbn beta in Hv0. destruct v as [vsh | t vsh | fs vsh]; try (injection Hds0 as <-; constructor).
    apply bind_ok in Hds0 as (d0 & Hd0 & Hds0). injection Hds0 as <-. constructor; [|constructor].
    unfold c10_variant_ok in Hv0. cbn [variant_shared] in Hv0. rewrite !andb_true_iff in Hv0. destruct Hv0 as [[Hvid _] Hfs].
    unfold c10_member_id_ok in Hvid. apply andb_true_iff in Hvid as [Hvo _].
    eapply kt_struct_decl_ok; [| | | |exact Hd0]; cbn [anon_struct sid sgenerics sfields scomments renamed].
    + apply ident_ok_app; [exact Hren|]. rewrite forallb_app, (ident_ok_chars _ Hvo). reflexivity.
    + apply anon_struct_generics_ok, Hg.
    + exact Hfs.
    + cbn [forallb]. rewrite andb_true_r. apply docsafe_line.
      rewrite !forallb_app, (ident_docsafe _ (ident_ok_chars _ Hvo)), (ident_docsafe _ (ident_ok_chars _ Horig)). reflexivity.
  - cbn [forallb]. rewrite andb_true_r. destruct e as [sh | tag content sh]; cbn [enum_shared] in *.
    + apply bind_ok in Hd' as (es & Hes & Hd'). injection Hd' as <-. cbn [c10_kt_decl_ok].
      rewrite (docs_line_ok _ Hd), (kt_prefixed_tok _ (ident_ok_chars _ Hren)), (generics_tok _ Hg). cbn [andb].
      apply Forall_forallb. eapply mapM_Forall_in; [|apply forallb_Forall; exact Hv|exact Hes].
      intros v y Hv0 Hy. cbn beta in Hv0. unfold kt_entry_of in Hy. injection Hy as <-.
      unfold c10_variant_ok in Hv0. rewrite !andb_true_iff in Hv0. destruct Hv0 as [[Hvid Hvd] _].
      unfold c10_member_id_ok in Hvid. apply andb_true_iff in Hvid as [Hvo Hvr].
      unfold c10_kt_entry_ok. cbn [ke_docs ke_name ke_wire]. rewrite (docs_line_ok _ Hvd), (ident_tok _ Hvo). cbn [andb].
      destruct (renamed (vid (variant_shared v))); [discriminate|reflexivity].
    + apply bind_ok in Hd' as (vs & Hvs & Hd'). injection Hd' as <-. cbn [c10_kt_decl_ok]. apply andb_true_iff in Htc as [_ Hcon].
      rewrite (docs_line_ok _ Hd), (kt_prefixed_tok _ (ident_ok_chars _ Hren)), (generics_tok _ Hg), (key_tok _ Hcon). cbn [andb].
      apply Forall_forallb. eapply mapM_Forall_in; [|apply forallb_Forall; exact Hv|exact Hvs].
      intros v y Hv0 Hy. cbn beta in Hv0. exact (kt_variant_ok _ _ _ Hg Horig Hv0 Hy).
Qed.

Lemma kt_decl_of_ok it ds : c10_item_ok CKT it = true -> kt_decl_of cfg it = Ok ds -> forallb c10_kt_decl_ok ds = true.
Proof.
  intros Hit H. destruct it as [rs | e | a | c]; cbn [kt_decl_of] in H.
  - apply bind_ok in H as (d & Hd & H). injection H as <-. cbn [forallb]. rewrite andb_true_r.
    cbn [c10_item_ok] in Hit. rewrite !andb_true_iff in Hit. destruct Hit as [[[[Hid Hg] Hf] Hdoc] _].
    unfold c10_type_id_ok in Hid. apply andb_true_iff in Hid as [_ Hren].
    exact (kt_struct_decl_ok _ _ Hren Hg Hf (docs_line_ok _ Hdoc) Hd).
  - exact (kt_enum_decls_ok _ _ Hit H).
  - apply bind_ok in H as (d & Hd & H). injection H as <-. cbn [forallb]. rewrite andb_true_r. exact (kt_alias_decl_ok _ _ Hit Hd).
  - discriminate.
Qed.

(* ------------------------------------------------------------------ the file *)
Lemma kt_begin_file_bal : bal c10_lex_kt (kt_begin_file cfg).
Proof.
  unfold kt_begin_file, kt_header_of. pose proof Hcfg as Hc. unfold c10_kt_cfg_ok in Hc. rewrite !andb_true_iff in Hc.
  destruct Hc as [[[_ Hv] Hp] _].
  destruct (kt_package cfg) as [|p0 pr] eqn:Ep; [apply tr_nil|]. cbn [kt_render_header kh_version kh_package kh_imports].
  pose proof (tok_bal c10_lex_kt _ (dotted_tok _ Hp)) as H1.
  destruct (kt_no_version_header cfg).
  - intros st. walk. reflexivity.
  - pose proof (nostarslash_stay c10_lex_kt 0 _ (dotted_nostarslash _ Hv)) as H2. intros st. walk. reflexivity.
Qed.

Theorem kt_generate_balanced pd text : dom_C10 CKT pd = true -> kt_generate uc cfg pd = Ok text -> c10_balanced c10_lex_kt text = true.
Proof.
  intros Hdom H. unfold kt_generate in H.
  apply bind_ok in H as (items & Et & H). apply bind_ok in H as (body & Eb & H). injection H as <-.
  assert (Hitems : Forall (fun it => c10_item_ok CKT it = true) items).
  { apply forallb_Forall in Hdom. fold (items_of pd) in Hdom.
    eapply Permutation_Forall; [apply Permutation_sym, (topsort_ok_perm _ _ Et)|exact Hdom]. }
  unfold kt_concat in Eb. apply bind_ok in Eb as (parts & Hp & Eb). injection Eb as <-.
  apply bal_balanced. eapply tr_app; [apply kt_begin_file_bal|]. apply tr_concat.
  eapply mapM_Forall_in; [|exact Hitems|exact Hp].
  intros it t Hit Ht. cbn beta in Hit. unfold kt_write_item in Ht. apply bind_ok in Ht as (ds & Hds & Ht). injection Ht as <-.
  apply tr_concat_map. pose proof (kt_decl_of_ok _ _ Hit Hds) as Hok. apply Forall_forall. intros d Hd.
  apply kt_render_decl_bal. rewrite forallb_forall in Hok. exact (Hok d Hd).
Qed.
End KTDecide.
