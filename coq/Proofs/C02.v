(* C02, front end: the enum typeshare's parser produces (Model/Parse.v parse_enum) carries, for every
   generated variant, serde's wire name (Spec/Serde.v variant_name), the variant's payload kind, and
   serde's tag / content strings. *)
From Coq Require Import String Lia ZifyBool ZifyN.
From TS Require Import Model.Str Model.Outcome Model.Unicode Model.Syntax Model.Attrs Model.TargetOs
                       Model.Rename Model.Types Model.Parse Model.Reconcile Model.Lang.Decl.
From TS Require Import Spec.SerdeCase Spec.C16Spec Spec.Serde Spec.TargetOsRule Spec.C03Spec Spec.C02Spec.
From TS Require Import Proofs.C16 Proofs.C13 Proofs.FrontAttrs Proofs.FrontTypes Proofs.FrontItems.
Local Open Scope N_scope.
Local Notation length := List.length (only parsing).

(* ---------- the key alphabet ---------- *)
Lemma c02_key_char_is c : c02_key_char c = key_char c.
Proof. reflexivity. Qed.

Lemma c02_wire_ok_key s : c02_wire_ok s = true -> forallb key_char s = true.
Proof.
  destruct s as [|c r]; [discriminate|]. cbn [c02_wire_ok forallb]. intros H.
  apply andb_true_iff in H as [Hc Hr]. apply andb_true_iff. split; [|exact Hr].
  unfold key_char. unfold is_aalpha in *. lia.
Qed.
Lemma c02_ident_ok_key s : c02_ident_ok s = true -> forallb key_char s = true.
Proof. unfold c02_ident_ok. intros H. apply andb_true_iff in H as [H _]. now apply c02_wire_ok_key. Qed.

Lemma c02_conv_no_hash s : conv_variant s = true -> no_hash s = true.
Proof.
  destruct s as [|c r]; [discriminate|]. cbn [conv_variant]. intros H. apply andb_true_iff in H as [Hc Hr].
  pose proof (camel_no_hash r Hr) as Hnr. unfold no_hash in *. cbn [forallb]. rewrite Hnr.
  unfold is_aupper in Hc. rewrite andb_true_r. lia.
Qed.

Lemma c02_conv_ascii s : conv_variant s = true -> forallb is_ascii s = true.
Proof.
  destruct s as [|c r]; [discriminate|]. cbn [conv_variant forallb]. intros H. apply andb_true_iff in H as [Hc Hr].
  rewrite (camel_is_ascii r Hr), andb_true_r. unfold is_ascii, is_aupper in *. lia.
Qed.

Section U.
Variable uc : unicode.
Hypothesis Huc : unicode_ok uc.
Variable tstr : str -> option ty.
Variable T : list str.

(* ---------- one variant ---------- *)
Lemma c02_parse_variant ra v rv : parse_enum_variant uc tstr T ra v = Ok rv ->
  get_ident uc (Some (v_ident v)) (v_attrs v) ra = Ok (vid (variant_shared rv)) /\
  c02_rvariant_kind rv = c02_variant_kind v.
Proof.
  unfold parse_enum_variant, c02_variant_kind.
  destruct (get_ident uc (Some (v_ident v)) (v_attrs v) ra) as [i| |]; cbn [bind]; try discriminate.
  destruct (v_fields v) as [l|l|].
  - destruct (mapM _ _); cbn [bind]; try discriminate. intros [= <-]. split; reflexivity.
  - destruct l as [|f [|? ?]]; try discriminate.
    destruct (field_type uc tstr f); cbn [bind]; try discriminate. intros [= <-]. split; reflexivity.
  - intros [= <-]. split; reflexivity.
Qed.

(* the two rules under which an all-upper-case identifier is treated alike by typeshare and serde *)
Lemma c02_nonsplitting rs s : forallb is_ascii s = true -> c02_splitting_rule (Some rs) = false ->
  Some (rename_all_to_case uc s (Some rs)) = option_map (@Ok str) (serde_variant_name uc (Some rs) s).
Proof.
  intros Ha. unfold c02_splitting_rule, serde_variant_name.
  destruct (rule_from_str rs) as [r|] eqn:Hr.
  - pose proof (rule_from_str_cases rs r Hr) as Hc.
    destruct r; try discriminate; intros _; subst rs; unfold rename_all_to_case;
      repeat match goal with
      | |- context [str_eqb (lit ?a) (lit ?b)] =>
          let v := eval vm_compute in (str_eqb (lit a) (lit b)) in
          change (str_eqb (lit a) (lit b)) with v; cbv iota
      end; cbn [apply_to_variant option_map].
    + now rewrite (to_lowercase_ascii uc Huc).
    + now rewrite (to_uppercase_ascii uc Huc).
  - intros _. now rewrite (unknown_rule uc rs s Hr).
Qed.

Definition c02_variant_pre (enum_attrs : list attr) (v : variant) : bool :=
  conv_variant (unraw (v_ident v)) && c02_opt_ok c02_wire_ok (serde_nv (v_attrs v) (lit "rename")).
Definition c02_variant_exposed (enum_attrs : list attr) (v : variant) : bool :=
  match serde_nv (v_attrs v) (lit "rename") with
  | Some _ => false
  | None => allcaps (unraw (v_ident v))
  end.

Lemma c02_variant_wire enum_attrs v rv :
  parse_enum_variant uc tstr T (serde_rename_all uc enum_attrs) v = Ok rv ->
  c02_variant_pre enum_attrs v = true ->
  rule_ok (serde_nv enum_attrs (lit "rename_all")) = true ->
  c02_splitting_rule (serde_nv enum_attrs (lit "rename_all")) && c02_variant_exposed enum_attrs v = false ->
  variant_name uc (serde_nv enum_attrs (lit "rename_all")) (v_attrs v) (v_ident v) = Some (renamed (vid (variant_shared rv))) /\
  original (vid (variant_shared rv)) = unraw (v_ident v) /\
  c02_rvariant_kind rv = c02_variant_kind v.
Proof.
  intros Hp Hpre Hra Hex. unfold c02_variant_pre in Hpre. apply andb_true_iff in Hpre as [Hcv Hrn].
  pose proof Hp as Hp0. apply c02_parse_variant in Hp as [Hid Hk].
  pose proof Hid as Hid0. apply get_ident_ok in Hid as (Ho & Hr).
  rewrite (unraw_model _ (c02_conv_no_hash _ Hcv)) in Ho.
  split; [|split; assumption].
  destruct (allcaps (unraw (v_ident v))) eqn:Hcaps.
  - (* all caps: either renamed, or the rule does not split words *)
    unfold variant_name. unfold c02_variant_exposed in Hex.
    destruct (serde_nv (v_attrs v) (lit "rename")) as [r|].
    + destruct Hr as [Hr _]. rewrite Hr. cbn [c02_opt_ok] in Hrn.
      now rewrite (trim_key uc Huc r (c02_wire_ok_key r Hrn)).
    + rewrite Hcaps, andb_true_r in Hex. destruct Hr as [Hr _]. rewrite Ho in Hr.
      rewrite serde_rename_all_spec in Hr.
      destruct (serde_nv enum_attrs (lit "rename_all")) as [rs|]; cbn [option_map] in Hr.
      * cbn [rule_ok] in Hra. rewrite (trim_key uc Huc rs Hra) in Hr.
        pose proof (c02_nonsplitting rs (unraw (v_ident v)) (c02_conv_ascii _ Hcv) Hex) as Hn.
        rewrite Hr in Hn. destruct (serde_variant_name uc (Some rs) (unraw (v_ident v))); cbn [option_map] in Hn; congruence.
      * cbn [rename_all_to_case] in Hr. cbn [serde_variant_name]. congruence.
  - symmetry. apply (variant_name_agrees uc Huc tstr T enum_attrs v rv Hp0).
    + unfold known_C16. now rewrite Hcv, Hcaps.
    + exact Hra.
    + destruct (serde_nv (v_attrs v) (lit "rename")) as [r|]; [|reflexivity].
      cbn [c02_opt_ok] in Hrn. cbn [rule_ok]. now apply c02_wire_ok_key.
Qed.

(* ---------- all variants ---------- *)
Lemma c02_all_some_map {A B} (f : A -> option B) (g : A -> B) l :
  (forall x, In x l -> f x = Some (g x)) -> c02_all_some (map f l) = Some (map g l).
Proof.
  induction l as [|x r IH]; intros H; cbn [map c02_all_some]; [reflexivity|].
  rewrite (H x (or_introl eq_refl)), IH; [reflexivity|]. intros y Hy. apply H. now right.
Qed.

Lemma c02_live_model vs : forallb (fun v => cfg_parsable (v_attrs v)) vs = true ->
  filter (fun v => negb (is_skipped T (v_attrs v))) vs = c02_live T vs.
Proof.
  intros H. unfold c02_live. apply filter_ext_in. intros v Hv.
  rewrite forallb_forall in H. rewrite (is_skipped_spec T (v_attrs v) (H v Hv)). reflexivity.
Qed.

Lemma c02_variants_agree enum_attrs live variants :
  mapM (parse_enum_variant uc tstr T (serde_rename_all uc enum_attrs)) live = Ok variants ->
  forallb (c02_variant_pre enum_attrs) live = true ->
  rule_ok (serde_nv enum_attrs (lit "rename_all")) = true ->
  c02_splitting_rule (serde_nv enum_attrs (lit "rename_all")) && existsb (c02_variant_exposed enum_attrs) live = false ->
  c02_all_some (map (fun v => variant_name uc (serde_nv enum_attrs (lit "rename_all")) (v_attrs v) (v_ident v)) live) =
    Some (map (fun rv => renamed (vid (variant_shared rv))) variants) /\
  map (fun v => unraw (v_ident v)) live = map (fun rv => original (vid (variant_shared rv))) variants /\
  map c02_variant_kind live = map c02_rvariant_kind variants.
Proof.
  intros Hm Hpre Hra Hex. apply mapM_Forall2 in Hm.
  induction Hm as [|v rv live' variants' Hv Hrest IH]; cbn [map c02_all_some]; [repeat split|].
  cbn [forallb] in Hpre. apply andb_true_iff in Hpre as [Hp1 Hp2].
  assert (Hex1 : c02_splitting_rule (serde_nv enum_attrs (lit "rename_all")) && c02_variant_exposed enum_attrs v = false).
  { cbn [existsb] in Hex. destruct (c02_splitting_rule _); [|reflexivity]. cbn [andb] in *.
    apply orb_false_iff in Hex as [Hex _]. exact Hex. }
  assert (Hex2 : c02_splitting_rule (serde_nv enum_attrs (lit "rename_all")) && existsb (c02_variant_exposed enum_attrs) live' = false).
  { cbn [existsb] in Hex. destruct (c02_splitting_rule _); [|reflexivity]. cbn [andb] in *.
    apply orb_false_iff in Hex as [_ Hex]. exact Hex. }
  destruct (c02_variant_wire enum_attrs v rv Hv Hp1 Hra Hex1) as (Hw & Ho & Hk).
  destruct (IH Hp2 Hex2) as (IH1 & IH2 & IH3).
  rewrite Hw, IH1, IH2, IH3, Ho, Hk. repeat split.
Qed.

(* ---------- C02 (front): the whole enum ---------- *)
Theorem C02_front attrs ident gens vs e :
  parse_enum uc tstr T attrs ident gens vs = Ok (ItEnum e) ->
  c02_lex T attrs vs = true ->
  known_C02_front T attrs vs = None ->
  c02_expect_src uc T attrs vs = Some (c02_expect_ir e).
Proof.
  intros Hp Hlex Hk.
  unfold c02_lex in Hlex. repeat (apply andb_true_iff in Hlex as [Hlex ?]).
  rename H into Hlive, H0 into Hcfg, H1 into Hboth, H2 into Hcontent, H3 into Htag.
  assert (Hra : rule_ok (serde_nv attrs (lit "rename_all")) = true).
  { destruct (serde_nv attrs (lit "rename_all")); [|reflexivity]. exact Hlex. }
  assert (Hex : c02_splitting_rule (serde_nv attrs (lit "rename_all")) && existsb (c02_variant_exposed attrs) (c02_live T vs) = false).
  { unfold known_C02_front, c02_allcaps_exposed in Hk.
    destruct (c02_splitting_rule _ && existsb _ _) eqn:E; [discriminate|].
    first [exact E | reflexivity]. }
  unfold parse_enum in Hp. destruct (get_serialized_as_type uc attrs).
  { destruct (get_ident _ _ _ _); cbn [bind] in Hp; try discriminate. destruct (parse_ty_str _ _); cbn [bind] in Hp; discriminate. }
  rewrite (c02_live_model vs Hcfg) in Hp.
  destruct (mapM _ _) as [variants| |] eqn:Em; cbn [bind] in Hp; try discriminate.
  destruct (get_ident _ _ _ _) as [i| |]; cbn [bind] in Hp; try discriminate.
  destruct (c02_variants_agree attrs (c02_live T vs) variants Em Hlive Hra Hex) as (Hw & Ho & Hkd).
  unfold c02_expect_src. rewrite Hw, Ho, Hkd.
  rewrite tag_key_spec, content_key_spec in Hp.
  destruct (forallb _ variants).
  - destruct (serde_nv attrs (lit "tag")); cbn [option_map] in Hp; try discriminate.
    destruct (serde_nv attrs (lit "content")); cbn [option_map] in Hp; try discriminate.
    injection Hp as <-. reflexivity.
  - destruct (serde_nv attrs (lit "tag")) as [t|]; cbn [option_map] in Hp; try discriminate.
    destruct (serde_nv attrs (lit "content")) as [c|]; cbn [option_map] in Hp; try discriminate.
    injection Hp as <-. cbn [c02_opt_ok] in Htag, Hcontent.
    rewrite (trim_key uc Huc t (c02_ident_ok_key t Htag)), (trim_key uc Huc c (c02_ident_ok_key c Hcontent)).
    reflexivity.
Qed.

(* the hypotheses of the source-level statement give those of the IR-level (back-end) statements *)
Theorem C02_front_bridge l acr attrs ident gens vs e :
  parse_enum uc tstr T attrs ident gens vs = Ok (ItEnum e) ->
  dom_C02 uc T attrs vs = true ->
  known_C02 l acr uc T attrs vs = None ->
  c02_expect_src uc T attrs vs = Some (c02_expect_ir e) /\
  dom_C02_back (c02_expect_ir e) = true /\ known_C02_back l acr (c02_expect_ir e) = None.
Proof.
  intros Hp Hd Hk. unfold dom_C02 in Hd. apply andb_true_iff in Hd as [Hlex Hd]. unfold known_C02 in Hk.
  destruct (known_C02_front T attrs vs) eqn:Hf; [discriminate|].
  pose proof (C02_front attrs ident gens vs e Hp Hlex Hf) as Hx. rewrite Hx in Hd, Hk. auto.
Qed.
End U.

(* reconcile (reconcile.rs: rewriting of renamed type references inside payload types) leaves the
   expectation of an enum untouched: identifiers, wire names, payload kinds and keys are not types *)
Definition c02_reconciled cn rn im (e : renum) : renum :=
  match e with
  | EUnit sh => EUnit (check_eshared cn rn im sh)
  | EAlgebraic t c sh => EAlgebraic t c (check_eshared cn rn im sh)
  end.
Theorem C02_reconcile_preserves cn rn im e : c02_expect_ir (c02_reconciled cn rn im e) = c02_expect_ir e.
Proof.
  destruct e as [sh|t c sh]; unfold c02_expect_ir; cbn [c02_reconciled enum_shared check_eshared evariants];
    rewrite !map_map; f_equal; try (apply map_ext; intros v; destruct v; reflexivity).
Qed.
