(* C19: the attribute macro of annotation/src/lib.rs is the declarative "erase the typeshare
   attributes at member positions", for every input; the clauses of the property are derived from
   that.

   What this development cannot exhibit: rustc.  "Compiles exactly when the un-annotated program
   does" and "same serialised form" follow from the token-level statement (the item rustc finally
   sees is the stripped twin, [expand_is_twin]) only by trusting rustc - and the derive macros it
   runs afterwards - to treat equal token streams equally (spans aside).  The theorem that involves
   the model of rustc's expansion loop is therefore named _partial in Props/C19.v; the compiler's
   behaviour on both twins is observed by the check (checks/c19.py), not proved. *)
From Coq Require Import Lia.
From TS Require Import Model.Str Model.Syntax Model.Annotation Spec.C19Spec.

(* ------------------------------------------------------------------ the retain predicate *)
Lemma retain_is_filter {A} (f : A -> bool) l : ann_retain f l = filter f l.
Proof. induction l as [|x r IH]; simpl; [reflexivity|]. now rewrite IH. Qed.

Definition ch_colon : char := 58.

Lemma no_colon_in_name : ~ In ch_colon CONFIG_ATTRIBUTE_NAME.
Proof.
  intro H. vm_compute in H.
  repeat (destruct H as [H|H]; [discriminate H|]). exact H.
Qed.

Lemma colon_in_join_head sp r : In ch_colon (join sp (ANN_COLON2 :: r)).
Proof.
  destruct r as [|b r]; cbn [join].
  - vm_compute. auto.
  - apply in_or_app. left. vm_compute. auto.
Qed.

Lemma colon_in_join_second sp a r : In ch_colon (join sp (a :: ANN_COLON2 :: r)).
Proof.
  change (join sp (a :: ANN_COLON2 :: r)) with (a ++ sp ++ join sp (ANN_COLON2 :: r)).
  apply in_or_app. right. apply in_or_app. right. apply colon_in_join_head.
Qed.

Lemma with_colon_not_name s : In ch_colon s -> str_eqb s CONFIG_ATTRIBUTE_NAME = false.
Proof.
  intros H. apply str_eqb_neq. intros E. subst. exact (no_colon_in_name H).
Qed.

(* `path.to_token_stream().to_string() == "typeshare"` holds exactly for the single-segment path
   `typeshare` without leading colons - whatever separator Display puts between tokens. *)
Lemma config_predicate sp p :
  str_eqb (ann_path_to_string sp p) CONFIG_ATTRIBUTE_NAME = path_is_ident p CONFIG_ATTRIBUTE_NAME.
Proof.
  destruct p as [|s1 [|s2 r]].
  - reflexivity.
  - destruct s1 as [|c s1]; reflexivity.
  - transitivity false; [|destruct s1; reflexivity].
    apply with_colon_not_name. destruct s1 as [|c s1].
    + unfold ann_path_to_string. apply colon_in_join_head.
    + unfold ann_path_to_string. cbn [ann_path_tokens]. apply colon_in_join_second.
Qed.

Lemma config_predicate_attr sp a :
  str_eqb (ann_path_to_string sp (meta_path (a_meta a))) CONFIG_ATTRIBUTE_NAME = is_typeshare_attr a.
Proof. apply config_predicate. Qed.

Lemma remove_is_other_attrs l : remove_configuration_from_attributes l = other_attrs l.
Proof.
  unfold remove_configuration_from_attributes, other_attrs. rewrite retain_is_filter.
  apply filter_ext. intros a. now rewrite config_predicate_attr.
Qed.

(* ------------------------------------------------------------------ macro = erase *)
Lemma for_fields_is_map l : ann_for_fields l = map erase_field l.
Proof.
  induction l as [|f r IH]; cbn [ann_for_fields map]; [reflexivity|].
  rewrite IH, remove_is_other_attrs. reflexivity.
Qed.

Lemma for_union_fields_is_map l : ann_for_union_fields l = map erase_field l.
Proof.
  induction l as [|f r IH]; cbn [ann_for_union_fields map]; [reflexivity|].
  rewrite IH, remove_is_other_attrs. reflexivity.
Qed.

Lemma remove_fields_is_erase fs : remove_configuration_from_fields fs = erase_fields fs.
Proof. destruct fs; cbn; now rewrite ?for_fields_is_map. Qed.

Lemma for_variants_is_map l : ann_for_variants l = map erase_variant l.
Proof.
  induction l as [|v r IH]; cbn [ann_for_variants map]; [reflexivity|].
  rewrite IH, remove_is_other_attrs, remove_fields_is_erase. reflexivity.
Qed.

Theorem macro_is_erase i : typeshare_macro i = erase i.
Proof.
  destruct i as [d|a t]; [|reflexivity].
  unfold typeshare_macro, strip_configuration_attribute, erase, erase_data.
  destruct (di_data d); now rewrite ?for_variants_is_map, ?remove_fields_is_erase, ?for_union_fields_is_map.
Qed.

(* ------------------------------------------------------------------ consequences *)
Lemma other_attrs_idem l : other_attrs (other_attrs l) = other_attrs l.
Proof.
  unfold other_attrs. induction l as [|a r IH]; cbn [filter]; [reflexivity|].
  destruct (is_typeshare_attr a) eqn:E; cbn [negb filter]; [assumption|]. rewrite E. cbn [negb]. now rewrite IH.
Qed.

Lemma typeshare_attrs_of_other l : typeshare_attrs (other_attrs l) = [].
Proof.
  unfold typeshare_attrs, other_attrs. induction l as [|a r IH]; cbn [filter]; [reflexivity|].
  destruct (is_typeshare_attr a) eqn:E; cbn [negb filter]; [assumption|]. now rewrite E.
Qed.

Definition strip_pos (p : mpos * list attr) : mpos * list attr := (fst p, other_attrs (snd p)).

Lemma fields_list_erase fs : c19_fields_list (erase_fields fs) = map erase_field (c19_fields_list fs).
Proof. destruct fs; reflexivity. Qed.

Lemma field_positions_erase mk l :
  field_positions mk (map erase_field l) = map strip_pos (field_positions mk l).
Proof. unfold field_positions. rewrite !map_map. reflexivity. Qed.

Lemma variant_positions_erase v : variant_positions (erase_variant v) = map strip_pos (variant_positions v).
Proof.
  unfold variant_positions. cbn [erase_variant dv_ident dv_attrs dv_fields map].
  now rewrite fields_list_erase, field_positions_erase.
Qed.

(* the master statement about member positions: same positions, each with its non-typeshare
   attributes only *)
Theorem positions_of_erase i : member_positions (erase i) = map strip_pos (member_positions i).
Proof.
  destruct i as [d|a t]; [|reflexivity].
  unfold member_positions, erase. cbn [di_data]. destruct (di_data d) as [fs|vs|l]; cbn [erase_data].
  - now rewrite fields_list_erase, field_positions_erase.
  - induction vs as [|v r IH]; cbn [map flat_map]; [reflexivity|].
    now rewrite map_app, IH, variant_positions_erase.
  - apply field_positions_erase.
Qed.

Theorem positions_of_macro i : member_positions (typeshare_macro i) = map strip_pos (member_positions i).
Proof. rewrite macro_is_erase. apply positions_of_erase. Qed.

Theorem same_members i : obs_members (typeshare_macro i) = obs_members i.
Proof. unfold obs_members. rewrite positions_of_macro, map_map. reflexivity. Qed.

Theorem other_attrs_preserved i : obs_other_attrs (typeshare_macro i) = obs_other_attrs i.
Proof.
  unfold obs_other_attrs. rewrite positions_of_macro, map_map. apply map_ext.
  intros p. cbn [strip_pos snd]. apply other_attrs_idem.
Qed.

Theorem other_attrs_preserved_at i p attrs :
  In (p, attrs) (member_positions i) -> In (p, other_attrs attrs) (member_positions (typeshare_macro i)).
Proof.
  intros H. rewrite positions_of_macro. change (p, other_attrs attrs) with (strip_pos (p, attrs)). now apply in_map.
Qed.

Theorem single_attr_kept a : is_typeshare_attr a = false -> remove_configuration_from_attributes [a] = [a].
Proof. intros H. rewrite remove_is_other_attrs. unfold other_attrs. cbn [filter]. now rewrite H. Qed.

Theorem single_attr_removed a : is_typeshare_attr a = true -> remove_configuration_from_attributes [a] = [].
Proof. intros H. rewrite remove_is_other_attrs. unfold other_attrs. cbn [filter]. now rewrite H. Qed.

Theorem no_typeshare_left i : obs_ts_count (typeshare_macro i) = 0%nat.
Proof.
  unfold obs_ts_count. rewrite positions_of_macro.
  induction (member_positions i) as [|p r IH]; [reflexivity|].
  cbn [map list_sum strip_pos snd]. rewrite typeshare_attrs_of_other. exact IH.
Qed.

Lemma bare_erase_field f : bare_field (erase_field f) = bare_field f.
Proof. reflexivity. Qed.
Lemma bare_erase_fields fs : bare_fields (erase_fields fs) = bare_fields fs.
Proof. destruct fs; cbn; rewrite ?map_map; reflexivity. Qed.
Lemma bare_erase_variant v : bare_variant (erase_variant v) = bare_variant v.
Proof. unfold bare_variant, erase_variant. cbn. now rewrite bare_erase_fields. Qed.

Theorem same_skeleton i : c19_skeleton (typeshare_macro i) = c19_skeleton i.
Proof.
  rewrite macro_is_erase. destruct i as [d|a t]; [|reflexivity].
  unfold c19_skeleton, erase. cbn [di_attrs di_vis di_ident di_generics di_where di_data].
  destruct (di_data d) as [fs|vs|l]; cbn [erase_data].
  - now rewrite bare_erase_fields.
  - rewrite map_map. do 3 f_equal. apply map_ext. apply bare_erase_variant.
  - rewrite map_map. reflexivity.
Qed.

Lemma erase_field_idem f : erase_field (erase_field f) = erase_field f.
Proof. unfold erase_field. cbn. now rewrite other_attrs_idem. Qed.
Lemma erase_fields_idem fs : erase_fields (erase_fields fs) = erase_fields fs.
Proof.
  destruct fs; cbn; rewrite ?map_map; try reflexivity; f_equal; apply map_ext; apply erase_field_idem.
Qed.
Lemma erase_variant_idem v : erase_variant (erase_variant v) = erase_variant v.
Proof. unfold erase_variant. cbn. now rewrite other_attrs_idem, erase_fields_idem. Qed.

Lemma erase_idem i : erase (erase i) = erase i.
Proof.
  destruct i as [d|a t]; [|reflexivity].
  unfold erase. cbn [di_attrs di_vis di_ident di_generics di_where di_data]. do 2 f_equal.
  destruct (di_data d) as [fs|vs|l]; cbn [erase_data].
  - now rewrite erase_fields_idem.
  - rewrite map_map. f_equal. apply map_ext. apply erase_variant_idem.
  - rewrite map_map. f_equal. apply map_ext. apply erase_field_idem.
Qed.

Theorem macro_idempotent i : typeshare_macro (typeshare_macro i) = typeshare_macro i.
Proof. rewrite !macro_is_erase. apply erase_idem. Qed.

Theorem other_unchanged a t : typeshare_macro (Other a t) = Other a t.
Proof. reflexivity. Qed.

Theorem item_attrs_untouched i : obs_item_attrs (typeshare_macro i) = obs_item_attrs i.
Proof. destruct i; reflexivity. Qed.

Theorem unparsed_unchanged full : typeshare_macro_on false full = full.
Proof. reflexivity. Qed.

(* ------------------------------------------------------------------ several invocations on one item *)
Lemma invocation_names a : ann_is_invocation a = names_the_macro a.
Proof. reflexivity. Qed.

Definition ninv (a : attr) : bool := negb (ann_is_invocation a).

Lemma take_spec l :
  match ann_take_invocation l with
  | None => existsb ann_is_invocation l = false
  | Some l' => existsb ann_is_invocation l = true /\ filter ninv l' = filter ninv l /\
               S (ann_count_invocations l') = ann_count_invocations l
  end.
Proof.
  unfold ann_count_invocations, ninv.
  induction l as [|a r IH]; cbn [ann_take_invocation existsb filter]; [reflexivity|].
  destruct (ann_is_invocation a) eqn:E; cbn [negb orb].
  - repeat split; reflexivity.
  - destruct (ann_take_invocation r) as [r'|]; cbn [option_map].
    + destruct IH as (H1 & H2 & H3). cbn [filter]. rewrite E. cbn [negb]. repeat split; [assumption|now rewrite H2|assumption].
    + assumption.
Qed.

Lemma filter_ninv_none l : existsb ann_is_invocation l = false -> filter ninv l = l.
Proof.
  unfold ninv. induction l as [|a r IH]; cbn [existsb filter]; [reflexivity|].
  intros H. apply orb_false_iff in H as [H1 H2]. rewrite H1. cbn [negb]. now rewrite IH.
Qed.

Definition twin_of (i : macro_input) : macro_input :=
  ann_with_item_attrs (erase i) (filter ninv (ann_item_attrs i)).

Lemma stripped_twin_is i : stripped_twin i = twin_of i.
Proof. destruct i; reflexivity. Qed.

Lemma has_invocation_is i : has_invocation i = existsb ann_is_invocation (ann_item_attrs i).
Proof. destruct i; reflexivity. Qed.

Lemma erase_with i a : erase (ann_with_item_attrs i a) = ann_with_item_attrs (erase i) a.
Proof. destruct i; reflexivity. Qed.
Lemma with_with i a b : ann_with_item_attrs (ann_with_item_attrs i a) b = ann_with_item_attrs i b.
Proof. destruct i; reflexivity. Qed.
Lemma attrs_with i a : ann_item_attrs (ann_with_item_attrs i a) = a.
Proof. destruct i; reflexivity. Qed.
Lemma attrs_erase i : ann_item_attrs (erase i) = ann_item_attrs i.
Proof. destruct i; reflexivity. Qed.

Theorem expand_item_spec : forall fuel i, (ann_count_invocations (ann_item_attrs i) < fuel)%nat ->
  rustc_expand_item fuel i = if has_invocation i then stripped_twin i else i.
Proof.
  induction fuel as [|f IH]; intros i H; [lia|].
  cbn [rustc_expand_item]. rewrite has_invocation_is, stripped_twin_is.
  pose proof (take_spec (ann_item_attrs i)) as T.
  destruct (ann_take_invocation (ann_item_attrs i)) as [a'|].
  - destruct T as (T1 & T2 & T3). rewrite T1.
    rewrite macro_is_erase, erase_with.
    rewrite IH by (rewrite attrs_with; lia).
    rewrite has_invocation_is, stripped_twin_is, attrs_with.
    unfold twin_of. rewrite erase_with, erase_idem, with_with, attrs_with, T2.
    destruct (existsb ann_is_invocation a') eqn:E; [reflexivity|].
    now rewrite <- T2, (filter_ninv_none _ E).
  - now rewrite T.
Qed.

Lemma count_le_length l : (ann_count_invocations l <= List.length l)%nat.
Proof. unfold ann_count_invocations. induction l as [|a r IH]; cbn [filter List.length]; [lia|]. destruct (ann_is_invocation a); cbn [List.length]; lia. Qed.

Theorem expand_is_twin i : has_invocation i = true -> rustc_expand i = stripped_twin i.
Proof.
  intros H. unfold rustc_expand. rewrite expand_item_spec; [now rewrite H|].
  pose proof (count_le_length (ann_item_attrs i)). lia.
Qed.

Theorem expand_without_invocation i : has_invocation i = false -> rustc_expand i = i.
Proof.
  intros H. unfold rustc_expand. rewrite expand_item_spec; [now rewrite H|].
  pose proof (count_le_length (ann_item_attrs i)). lia.
Qed.

(* ------------------------------------------------------------------ witnesses *)
Local Open Scope string_scope.
Definition mk_attr (m : meta) : attr := {| a_inner := false; a_meta := m |}.
Definition a_word (p : list string) : attr := mk_attr (MPath (map lit p)).
Definition a_list (p : list string) (args : list meta) : attr := mk_attr (MList (map lit p) (Some args) None).
Definition m_word (s : string) : meta := MPath [lit s].
Definition m_nv (k v : string) : meta := MNV [lit k] (VStr (lit v)).
Definition mk_field (a : list attr) (id : string) (ty : string) : dfield :=
  {| df_attrs := a; df_vis := lit "pub"; df_ident := Some (lit id); df_ty := lit ty |}.
Definition mk_tfield (a : list attr) (ty : string) : dfield :=
  {| df_attrs := a; df_vis := []; df_ident := None; df_ty := lit ty |}.

(* #[derive(Serialize)] #[typeshare(swift = "Codable")] #[serde(tag = "t", content = "c")] #[typeshare::typeshare]
   pub enum E<T> where T: Clone {
     #[typeshare(skip)] #[doc = " d"] A = 1,
     #[serde(rename = "bb")] B { #[typeshare(typescript(readonly))] #[serde(default)] x: T, #[typeshare::typeshare(skip)] y: u8 },
     C(#[typeshare(redacted)] #[typeshare(skip)] u8) }
   seen by the first invocation (`#[typeshare(swift = ..)]` detached) *)
Definition wit_enum_data : ddata :=
  DDEnum [
    {| dv_attrs := [a_list ["typeshare"] [m_word "skip"]; mk_attr (m_nv "doc" " d")]; dv_ident := lit "A"; dv_fields := DUnit;
       dv_discr := Some (lit "1") |};
    {| dv_attrs := [a_list ["serde"] [m_nv "rename" "bb"]]; dv_ident := lit "B";
       dv_fields := DNamed [mk_field [a_list ["typeshare"] [MList [lit "typescript"] (Some [m_word "readonly"]) None];
                                      a_list ["serde"] [m_word "default"]] "x" "T";
                            mk_field [a_list ["typeshare"; "typeshare"] [m_word "skip"]] "y" "u8"];
       dv_discr := None |};
    {| dv_attrs := []; dv_ident := lit "C";
       dv_fields := DUnnamed [mk_tfield [a_list ["typeshare"] [m_word "redacted"]; a_list ["typeshare"] [m_word "skip"]] "u8"];
       dv_discr := None |} ].
Definition wit_enum_attrs : list attr :=
  [a_list ["derive"] [m_word "Serialize"]; a_list ["typeshare"] [m_nv "swift" "Codable"];
   a_list ["serde"] [m_nv "tag" "t"; m_nv "content" "c"]; a_word ["typeshare"; "typeshare"]].
Definition wit_enum : macro_input :=
  Derive {| di_attrs := wit_enum_attrs; di_vis := lit "pub"; di_ident := lit "E"; di_generics := lit "< T >";
            di_where := lit "where T : Clone"; di_data := wit_enum_data |}.

Definition wit_enum_erased_data : ddata :=
  DDEnum [
    {| dv_attrs := [mk_attr (m_nv "doc" " d")]; dv_ident := lit "A"; dv_fields := DUnit; dv_discr := Some (lit "1") |};
    {| dv_attrs := [a_list ["serde"] [m_nv "rename" "bb"]]; dv_ident := lit "B";
       dv_fields := DNamed [mk_field [a_list ["serde"] [m_word "default"]] "x" "T";
                            mk_field [a_list ["typeshare"; "typeshare"] [m_word "skip"]] "y" "u8"];
       dv_discr := None |};
    {| dv_attrs := []; dv_ident := lit "C"; dv_fields := DUnnamed [mk_tfield [] "u8"]; dv_discr := None |} ].

(* the theorems' hypotheses are satisfiable and the macro does something: four helpers are removed,
   the serde/doc attributes and the (qualified, hence not configuration) `typeshare::typeshare(skip)`
   stay, the item attributes stay, and rustc's loop ends with the stripped twin *)
Example C19_nonvacuous :
  obs_ts_count wit_enum = 4%nat /\
  typeshare_macro wit_enum <> wit_enum /\
  typeshare_macro wit_enum =
    Derive {| di_attrs := wit_enum_attrs; di_vis := lit "pub"; di_ident := lit "E"; di_generics := lit "< T >";
              di_where := lit "where T : Clone"; di_data := wit_enum_erased_data |} /\
  has_invocation wit_enum = true /\
  rustc_expand wit_enum =
    Derive {| di_attrs := [a_list ["derive"] [m_word "Serialize"]; a_list ["serde"] [m_nv "tag" "t"; m_nv "content" "c"]];
              di_vis := lit "pub"; di_ident := lit "E"; di_generics := lit "< T >";
              di_where := lit "where T : Clone"; di_data := wit_enum_erased_data |} /\
  dom_C19 wit_enum = false /\
  rustc_macro_attrs_at_members (rustc_expand wit_enum) = 1%nat.
Proof.
  split; [vm_compute; reflexivity|]. split.
  - intro E. apply (f_equal obs_ts_count) in E. rewrite no_typeshare_left in E. vm_compute in E. discriminate.
  - repeat split; vm_compute; reflexivity.
Qed.

(* finding C19-derive-parse-needs-syn-full:
     #[typeshare] pub struct A { #[typeshare(skip)] pub a: [u8; if true { 1 } else { 2 }] }
   is valid Rust, syn without "full" cannot parse the array length, the macro hands the item back
   unchanged, the helper stays and rustc rejects the program although its stripped twin compiles. *)
Definition wit_unparsed : macro_input :=
  Derive {| di_attrs := []; di_vis := lit "pub"; di_ident := lit "A"; di_generics := []; di_where := [];
            di_data := DDStruct (DNamed [mk_field [a_list ["typeshare"] [m_word "skip"]] "a" "[u8 ; if true { 1 } else { 2 }]"]) |}.

Theorem unparsed_keeps_helpers :
  known_C19 false wit_unparsed = Some "C19-derive-parse-needs-syn-full"%string /\
  dom_C19 wit_unparsed = true /\
  typeshare_macro_on false wit_unparsed = wit_unparsed /\
  rustc_macro_attrs_at_members (typeshare_macro_on false wit_unparsed) = 1%nat /\
  rustc_macro_attrs_at_members (typeshare_macro_on true wit_unparsed) = 0%nat.
Proof. repeat split; vm_compute; reflexivity. Qed.

(* whenever the item is parsed, or carries no helper, it is outside the finding class *)
Theorem known_class_exact parses full :
  known_C19 parses full = None <-> (parses = true \/ obs_ts_count full = 0%nat \/ exists a t, full = Other a t).
Proof.
  destruct full as [d|a t]; cbn [known_C19].
  - destruct parses; cbn [negb andb].
    + split; auto.
    + destruct (obs_ts_count (Derive d)) eqn:E; cbn [Nat.eqb negb]; split; auto; try discriminate.
      intros [H|[H|(a & t & H)]]; discriminate.
  - split; eauto.
Qed.
