(* C15 for Go, whole items WITHOUT the neutrality hypothesis: on the input class c15_go_item_ok of
   Spec/C15RenderGo.v (printable ASCII identifiers without `/`, quotes and backtick; keys and wire names without
   control characters), with such type_mappings targets and ASCII acronyms, the code go_write_item prints around the
   `// ` fragments keeps the reference lexer of Go in code mode.  Structure as Proofs/C15_Kotlin.v:
   (1) lexer facts for the holes (plain names, {:?}-quoted strings in code and inside a raw string, verbatim keys
       inside a raw string), literal fragments by vm_compute;
   (2) layout: go_decl_ok d -> the rendering of d decomposes into neutral code parts and comment fragments;
   (3) decisions: c15_go_item_ok it -> every declaration go_decl_of produces is go_decl_ok (names through
       to_pascal_case / to_camel_case / the acronym rewriting stay in the class, printed types by induction). *)
From Coq Require Import List NArith Bool Lia ZifyBool ZifyN String.
From TS Require Import Model.Str Model.Outcome Model.Unicode Model.Types Model.Parse Model.Rename
                       Model.Lang.Common Model.Lang.Decl Model.Lang.Go.
From TS Require Import Spec.Lexers Spec.C15Spec Spec.C15Render Spec.C15RenderGo.
From TS Require Import Proofs.BackCommon Proofs.C15 Proofs.C15_Render Proofs.C15_Go Proofs.GoAcronyms.
From TS Require Proofs.C15_Kotlin.
Import ListNotations.
Local Open Scope N_scope.

Notation NG := (c15_neutral C15go).
Notation code := c15_go_code.

Ltac c15_sites_norm :=
  unfold c15_sites; cbn [app]; rewrite ?app_nil_r, ?map_app, ?c15_map_flat_map; cbn [app map]; rewrite ?app_nil_r; reflexivity.

(* ================= (1) the Go reference lexer on the holes ================= *)
Lemma go_plain_char_iff c :
  c15_plain_char C15go c = negb (c =? 47) && negb (c =? 34) && negb (c =? 39) && negb (c =? 96).
Proof.
  unfold c15_plain_char, lex_code. cbn [c15_cfg cfg_go lc_slash lc_hash lc_triple lc_quotes lc_long andb].
  unfold isin, ch_slash, ch_dq, ch_sq, ch_btick. cbn [existsb].
  destruct (c =? 47), (c =? 34), (c =? 39), (c =? 96); reflexivity.
Qed.

Lemma go_forallb_impl (p q : char -> bool) s : (forall c, p c = true -> q c = true) -> forallb p s = true -> forallb q s = true.
Proof. intros H Hs. rewrite forallb_forall in Hs |- *. intros x Hx. apply H, Hs, Hx. Qed.

Lemma go_code_plain s : code s = true -> c15_plain C15go s = true.
Proof.
  apply go_forallb_impl. intros c. rewrite go_plain_char_iff. unfold c15_go_code_char, ch_slash, ch_dq, ch_sq, ch_btick. lia.
Qed.
Lemma go_code_neutral s : code s = true -> NG s.
Proof. intros H. apply c15_neutral_plain, go_code_plain, H. Qed.
Lemma go_code_app a b : code (a ++ b) = code a && code b.
Proof. apply forallb_app. Qed.
Lemma go_code_tag s : code s = true -> c15_go_tag s = true.
Proof.
  apply go_forallb_impl. intros c. unfold c15_go_code_char, c15_go_tag_char, c15_lit_char, ch_slash, ch_dq, ch_sq, ch_btick. lia.
Qed.
Lemma go_code_lit s : code s = true -> c15_lit_str s = true.
Proof.
  apply go_forallb_impl. intros c. unfold c15_go_code_char, c15_lit_char. lia.
Qed.
Lemma go_tag_lit s : c15_go_tag s = true -> c15_lit_str s = true.
Proof. apply go_forallb_impl. intros c. unfold c15_go_tag_char. lia. Qed.

(* ---- {:?} in code position: an interpreted string literal ---- *)
Lemma go_escape_lex c : c15_lit_char c = true ->
  lex_str_gen cfg_go (LStr ch_dq false) (escape_debug_char c) = LStr ch_dq false.
Proof.
  unfold c15_lit_char, escape_debug_char, ch_dq, ch_bs, ch_nl, ch_cr, ch_tab, ch_sq. intros H.
  repeat match goal with |- context [if ?b then _ else _] =>
           let E := fresh in destruct b eqn:E; [try reflexivity; lia|] end.
  cbn [lex_str_gen fold_left lex_gen lex_quoted cfg_go lc_eol]. unfold ch_bs, ch_dq, eol_lf, ch_nl.
  replace (c =? 92) with false by lia. replace ((c =? 34) || (c =? 10)) with false by lia. reflexivity.
Qed.

Lemma go_escapes_lex s : c15_lit_str s = true ->
  lex_str_gen cfg_go (LStr ch_dq false) (flat_map escape_debug_char s) = LStr ch_dq false.
Proof.
  unfold c15_lit_str. induction s as [|c r IH]; intros H; [reflexivity|].
  cbn [forallb] in H. apply andb_true_iff in H as [Hc Hr]. cbn [flat_map]. rewrite lex_str_app, (go_escape_lex c Hc). now apply IH.
Qed.

Lemma go_debug_neutral s : c15_lit_str s = true -> NG (debug_str s).
Proof.
  intros H. unfold c15_neutral, debug_str. rewrite !lex_str_app. change (c15_cfg C15go) with cfg_go.
  change (lex_str_gen cfg_go LCode [ch_dq]) with (LStr ch_dq false). rewrite (go_escapes_lex s H). reflexivity.
Qed.

(* ---- inside a raw string literal only the backtick matters ---- *)
Definition go_raw (s : str) : bool := forallb (fun c => negb (c =? ch_btick)) s.
Notation RAW := (LLong ch_btick false).

Lemma go_raw_lex s : go_raw s = true -> lex_str_gen cfg_go RAW s = RAW.
Proof.
  unfold go_raw. induction s as [|c r IH]; intros H; [reflexivity|].
  cbn [forallb] in H. apply andb_true_iff in H as [Hc Hr]. cbn [lex_str_gen fold_left lex_gen cfg_go lc_long_esc andb].
  destruct (c =? ch_btick); [discriminate|]. now apply IH.
Qed.
Lemma go_raw_app a b : go_raw (a ++ b) = go_raw a && go_raw b.
Proof. apply forallb_app. Qed.
Lemma go_code_raw s : code s = true -> go_raw s = true.
Proof. apply go_forallb_impl. intros c. unfold c15_go_code_char. lia. Qed.
Lemma go_tag_raw s : c15_go_tag s = true -> go_raw (flat_map escape_debug_char s) = true.
Proof.
  unfold c15_go_tag, go_raw. induction s as [|c r IH]; intros H; [reflexivity|].
  cbn [forallb] in H. apply andb_true_iff in H as [Hc Hr]. cbn [flat_map]. rewrite forallb_app. apply andb_true_iff. split; [|exact (IH Hr)].
  unfold c15_go_tag_char, c15_lit_char, ch_btick in Hc. unfold escape_debug_char, ch_dq, ch_bs, ch_nl, ch_cr, ch_tab, ch_sq, ch_btick.
  repeat match goal with |- context [if ?b then _ else _] =>
           let E := fresh in destruct b eqn:E; [try reflexivity; lia|] end.
  cbn [forallb]. lia.
Qed.
Lemma go_tag_raw_debug s : c15_go_tag s = true -> go_raw (debug_str s) = true.
Proof. intros H. unfold debug_str. rewrite !go_raw_app, (go_tag_raw s H). reflexivity. Qed.

(* a raw string segment followed by more text: opener, one or two raw holes, closer *)
Section GOSeg.
Variable P : str -> Prop.
Hypothesis P_is : forall s, c15_neutral C15go s -> P s.
Notation D := (Decomp C15go P).

Lemma go_seg3 op k cl rest sites :
  lex_str_gen cfg_go LCode op = RAW -> go_raw k = true -> lex_str_gen cfg_go RAW cl = LCode ->
  D rest sites -> D (op ++ k ++ cl ++ rest) sites.
Proof.
  intros Ho Hk Hc Hr. replace (op ++ k ++ cl ++ rest) with ((op ++ k ++ cl) ++ rest) by now rewrite <- !app_assoc.
  change sites with ([] ++ sites). apply Decomp_app; [|exact Hr]. apply Decomp_code, P_is.
  unfold c15_neutral. change (c15_cfg C15go) with cfg_go. now rewrite !lex_str_app, Ho, (go_raw_lex k Hk), Hc.
Qed.

Lemma go_seg4 op k1 k2 cl rest sites :
  lex_str_gen cfg_go LCode op = RAW -> go_raw k1 = true -> go_raw k2 = true -> lex_str_gen cfg_go RAW cl = LCode ->
  D rest sites -> D (op ++ k1 ++ k2 ++ cl ++ rest) sites.
Proof.
  intros Ho Hk1 Hk2 Hc Hr. replace (op ++ k1 ++ k2 ++ cl ++ rest) with (op ++ (k1 ++ k2) ++ cl ++ rest) by now rewrite <- !app_assoc.
  apply go_seg3; auto. now rewrite go_raw_app, Hk1, Hk2.
Qed.
End GOSeg.

(* ================= (2) layout ================= *)
Definition go_member_ok (m : go_member) : bool :=
  code (gm_name m) && code (go_show (gm_type m)) && c15_go_tag (gm_key m).
Definition go_content_ok (c : go_content) : bool :=
  match c with GCNone => true | GCType ty _ => code (go_show ty) | GCInner r => code r end.
Definition go_variant_ok (v : go_variant) : bool :=
  code (gv_const v) && c15_lit_str (gv_wire v) && code (gv_method v) && go_content_ok (gv_content v).
Definition go_tagged_ok (e : go_tagged) : bool :=
  code (gt_name e) && code (gt_key_type e) && code (gt_tag_key e) && code (gt_content_key e) &&
  code (gt_tag_field e) && code (gt_content_field e) && code (gt_short e) && forallb go_variant_ok (gt_variants e).
Definition go_unit_ok (v : list str * str * str) : bool := code (snd (fst v)) && c15_lit_str (snd v).
Definition go_decl_ok (d : go_decl) : bool :=
  match d with
  | GOStruct _ name gs ms => code name && forallb code gs && forallb go_member_ok ms
  | GOAlias _ name ty => code name && code (go_show ty)
  | GOConst name ty value => code name && code (go_show ty) && code value
  | GOUnitEnum _ name vs => code name && forallb go_unit_ok vs
  | GOTagged e => go_tagged_ok e
  end.

Notation DG := (Decomp C15go NG).

Ltac go_atom :=
  first [ apply go_code_neutral; assumption
        | apply go_debug_neutral; assumption
        | match goal with |- c15_neutral _ (if ?b then _ else _) => destruct b end; vm_compute; reflexivity
        | vm_compute; reflexivity ].
Ltac go_rawt :=
  first [ assumption
        | apply go_code_raw; assumption
        | apply go_tag_raw; assumption
        | apply go_tag_raw_debug; apply go_code_tag; assumption
        | match goal with |- go_raw (if ?b then _ else _) = true => destruct b; reflexivity end ].
Ltac go_seg :=
  match goal with |- Decomp _ _ (lit _ ++ _ ++ _ ++ _) _ => idtac end;
  first [ apply (go_seg4 NG (fun s H => H)); [vm_compute; reflexivity | go_rawt | go_rawt | vm_compute; reflexivity | ]
        | apply (go_seg3 NG (fun s H => H)); [vm_compute; reflexivity | go_rawt | vm_compute; reflexivity | ] ].
Ltac go_quoted :=
  match goal with |- Decomp _ _ (debug_str _) _ => apply Decomp_code; apply go_debug_neutral; assumption end.
Ltac gon_decomp tac :=
  c15_decomp ltac:(apply (go_comments_decomp NG)) ltac:(first [tac | go_quoted | go_seg]) go_atom.
Ltac go_neutral tac := repeat first [ apply c15_neutral_app | tac | go_atom ].

Lemma gon_member_decomp m : go_member_ok m = true -> DG (go_render_member m) (c15_sites false (gm_docs m)).
Proof.
  unfold go_member_ok, go_render_member. intros H. c15_split_andb.
  eapply Decomp_eq; [gon_decomp ltac:(fail)|]. c15_sites_norm.
Qed.

(* the constant line of a variant, under its doc comment *)
Lemma gon_written_decomp e v : code (gt_key_type e) = true -> go_variant_ok v = true ->
  DG (go_vo_written (go_render_variant e v)) (c15_sites false (gv_docs v)).
Proof.
  unfold go_variant_ok, go_render_variant. intros Hk H. c15_split_andb.
  destruct (gv_content v); cbn [go_vo_written];
    (eapply Decomp_eq; [gon_decomp ltac:(fail)|]; c15_sites_norm).
Qed.

Lemma gon_written_all e vs : code (gt_key_type e) = true -> forallb go_variant_ok vs = true ->
  DG (flat_map go_vo_written (map (go_render_variant e) vs)) (flat_map (fun v => c15_sites false (gv_docs v)) vs).
Proof.
  intros Hk. induction vs as [|v r IH]; intros H; [apply Decomp_nil|].
  cbn [forallb] in H. apply andb_true_iff in H as [Hv Hr].
  cbn [map flat_map]. apply Decomp_app; [now apply gon_written_decomp|now apply IH].
Qed.

(* the three other contributions of a variant carry no doc text: neutral code *)
Lemma gon_variant_rest e v : go_tagged_ok e = true -> go_variant_ok v = true ->
  NG (go_vo_decoding (go_render_variant e v)) /\ NG (go_vo_accessors (go_render_variant e v)) /\
  NG (go_vo_constructors (go_render_variant e v)).
Proof.
  unfold go_tagged_ok, go_variant_ok, go_render_variant. intros He H. c15_split_andb.
  destruct (gv_content v) as [|ty p|r]; cbn [go_content_ok] in *;
    [|destruct p|]; cbn [go_vo_decoding go_vo_accessors go_vo_constructors];
    (split; [|split]); go_neutral ltac:(fail).
Qed.

Lemma gon_rest_all e vs : go_tagged_ok e = true -> forallb go_variant_ok vs = true ->
  NG (flat_map go_vo_decoding (map (go_render_variant e) vs)) /\
  NG (flat_map go_vo_accessors (map (go_render_variant e) vs)) /\
  NG (flat_map go_vo_constructors (map (go_render_variant e) vs)).
Proof.
  intros He H.
  assert (G : forall x, In x (map (go_render_variant e) vs) ->
                NG (go_vo_decoding x) /\ NG (go_vo_accessors x) /\ NG (go_vo_constructors x)).
  { intros x Hx. apply in_map_iff in Hx as (v & <- & Hv). rewrite forallb_forall in H. apply gon_variant_rest; auto. }
  repeat split; apply c15_neutral_flat_map; intros x Hx; apply (G x Hx).
Qed.

Lemma gon_generics_neutral gs : forallb code gs = true ->
  NG (match gs with
      | [] => []
      | _ => lit "[" ++ join (lit ", ") (map (fun g => g ++ lit " any") gs) ++ lit "]"
      end).
Proof.
  intros H. destruct gs as [|g r]; [reflexivity|]. generalize dependent (g :: r). intros l H.
  go_neutral ltac:(fail). apply c15_neutral_join; [vm_compute; reflexivity|].
  apply Forall_forall. intros x Hx. apply in_map_iff in Hx as (y & <- & Hy).
  rewrite forallb_forall in H. apply c15_neutral_app; [apply go_code_neutral, H, Hy|vm_compute; reflexivity].
Qed.

Theorem gon_decl_decomp d : go_decl_ok d = true -> DG (go_render_decl d) (c15_sites false (go_decl_docs d)).
Proof.
  intros H.
  destruct d as [docs name gs ms|docs name ty|name ty value|docs name vs|e]; cbn [go_decl_ok go_render_decl go_decl_docs] in *.
  - c15_split_andb. match goal with Hm : forallb go_member_ok ms = true |- _ => rename Hm into Hms end.
    eapply Decomp_eq;
      [c15_decomp ltac:(apply (go_comments_decomp NG))
                  ltac:(apply (Decomp_concat_map C15go NG) with (g := fun m => c15_sites false (gm_docs m));
                        intros m Hin; rewrite forallb_forall in Hms; apply gon_member_decomp, Hms, Hin)
                  ltac:(first [apply gon_generics_neutral; assumption | go_atom])|].
    c15_sites_norm.
  - c15_split_andb. eapply Decomp_eq; [gon_decomp ltac:(fail)|]. c15_sites_norm.
  - c15_split_andb. eapply Decomp_eq; [gon_decomp ltac:(fail)|]. c15_sites_norm.
  - c15_split_andb. match goal with Hm : forallb go_unit_ok vs = true |- _ => rename Hm into Hvs end.
    eapply Decomp_eq;
      [gon_decomp ltac:(apply (Decomp_concat_map C15go NG) with (g := fun v => c15_sites false (fst (fst v)));
                        intros [[vdocs const] wire] Hin; rewrite forallb_forall in Hvs; specialize (Hvs _ Hin);
                        unfold go_unit_ok in Hvs; cbn [fst snd] in Hvs |- *; c15_split_andb; eapply Decomp_eq)|..].
    all: c15_sites_norm.
  - pose proof H as He. unfold go_tagged_ok in H. c15_split_andb.
    match goal with Hm : forallb go_variant_ok _ = true |- _ => rename Hm into Hvs end.
    destruct (gon_rest_all e (gt_variants e) He Hvs) as (Hdec & Hacc & Hcon).
    cbv zeta.
    eapply Decomp_eq;
      [c15_decomp ltac:(apply (go_comments_decomp NG))
                  ltac:(first [apply gon_written_all; assumption | go_seg])
                  ltac:(first [assumption | go_atom])|].
    c15_sites_norm.
Qed.

(* ================= (3) decisions: items of the class give declarations with neutral code ================= *)
Lemma go_code_char_aupper c : c15_go_code_char c = true -> c15_go_code_char (aupper c) = true.
Proof.
  unfold c15_go_code_char, aupper, is_alower, ch_slash, ch_dq, ch_sq, ch_btick.
  destruct ((97 <=? c) && (c <=? 122)) eqn:E; lia.
Qed.
Lemma go_code_char_alower c : c15_go_code_char c = true -> c15_go_code_char (alower c) = true.
Proof.
  unfold c15_go_code_char, alower, is_aupper, ch_slash, ch_dq, ch_sq, ch_btick.
  destruct ((65 <=? c) && (c <=? 90)) eqn:E; lia.
Qed.

Lemma go_pascal_go_code tolow cap s : code s = true -> code (pascal_go tolow cap s) = true.
Proof.
  unfold c15_go_code. revert cap. induction s as [|c r IH]; intros cap H; [reflexivity|].
  cbn [forallb] in H. apply andb_true_iff in H as [Hc Hr]. cbn [pascal_go].
  destruct (c =? ch_us); [now apply IH|].
  destruct cap; [|destruct tolow]; cbn [forallb]; rewrite (IH _ Hr), andb_true_r;
    [now apply go_code_char_aupper|now apply go_code_char_alower|exact Hc].
Qed.
Lemma go_pascal_code s : code s = true -> code (to_pascal_case s) = true.
Proof. apply go_pascal_go_code. Qed.
Lemma go_camel_code s r : code s = true -> to_camel_case s = Ok r -> code r = true.
Proof.
  intros H. unfold to_camel_case. pose proof (go_pascal_code s H) as Hp.
  destruct (to_pascal_case s) as [|c t]; intros E; injection E as <-; [reflexivity|].
  unfold c15_go_code in *. cbn [forallb] in *. apply andb_true_iff in Hp as [Hc Ht]. now rewrite Ht, go_code_char_alower.
Qed.

Lemma go_code_ascii s : code s = true -> ga_ascii s.
Proof.
  unfold c15_go_code, ga_ascii. intros H. apply Forall_forall. intros c Hc. rewrite forallb_forall in H.
  specialize (H c Hc). unfold c15_go_code_char in H. lia.
Qed.

Lemma go_code_join sep ss : code sep = true -> forallb code ss = true -> code (join sep ss) = true.
Proof.
  intros Hs. induction ss as [|x [|y r] IH]; intros H; [reflexivity| |].
  - cbn [join]. cbn [forallb] in H. now apply andb_true_iff in H as [H _].
  - change (join sep (x :: y :: r)) with (x ++ sep ++ join sep (y :: r)).
    cbn [forallb] in H. apply andb_true_iff in H as [Hx Hr]. rewrite !go_code_app, Hx, Hs. cbn [andb]. now apply IH.
Qed.

Lemma go_code_dec_fuel f n acc : code acc = true -> code (dec_fuel f n acc) = true.
Proof.
  revert n acc. induction f as [|f IH]; intros n acc H; [exact H|].
  cbn [dec_fuel]. assert (H' : code ((48 + n mod 10) :: acc) = true).
  { unfold c15_go_code in *. cbn [forallb]. rewrite H, andb_true_r. pose proof (N.mod_upper_bound n 10).
    unfold c15_go_code_char, ch_slash, ch_dq, ch_sq, ch_btick. lia. }
  destruct (n / 10 =? 0); [exact H'|now apply IH].
Qed.
Lemma go_code_dec_N n : code (dec_of_N n) = true.
Proof. now apply go_code_dec_fuel. Qed.
Lemma go_code_dec_Z z : code (dec_of_Z z) = true.
Proof.
  destruct z as [|p|p]; cbn [dec_of_Z]; [reflexivity|apply go_code_dec_N|].
  change (code ([45] ++ dec_of_N (N.pos p)) = true). now rewrite go_code_app, go_code_dec_N.
Qed.

Lemma go_tmap_get_code m k v : c15_go_mappings_ok m = true -> tmap_get m k = Some v -> code v = true.
Proof.
  unfold c15_go_mappings_ok. induction m as [|[a b] r IH]; [discriminate|].
  cbn [forallb tmap_get snd]. intros H. apply andb_true_iff in H as [Hb Hr].
  destruct (str_eqb a k); [intros E; injection E as <-; exact Hb|now apply IH].
Qed.

Section GOStrict.
Variable uc : unicode.
Hypothesis Huc : unicode_ok uc.
Variable cfg : go_config.
Hypothesis Hmap : c15_go_mappings_ok (go_type_mappings cfg) = true.
Hypothesis Hacr : forallb (forallb is_ascii) (go_uppercase_acronyms cfg) = true.

Ltac inv_ret H := unfold ret in H; injection H as <- _.

(* the acronym rewriting: on ASCII input every character is kept or ASCII-upper-cased (Proofs/GoAcronyms.v) *)
Lemma go_convert_code name r : code name = true ->
  go_convert_acronyms_to_uppercase uc (go_uppercase_acronyms cfg) name = Ok r -> code r = true.
Proof.
  intros Hn E.
  destruct (ga_convert_ok uc Huc _ (ga_ascii_list_b _ Hacr) name (go_code_ascii _ Hn)) as (r' & E' & _ & _ & _ & F).
  rewrite E' in E. injection E as <-. clear E'. unfold c15_go_code in *.
  induction F as [|c x l l' Hcx _ IH]; [reflexivity|].
  cbn [forallb] in *. apply andb_true_iff in Hn as [Hc Hl]. rewrite (IH Hl), andb_true_r.
  destruct Hcx as [-> | ->]; [exact Hc|now apply go_code_char_aupper].
Qed.

Lemma go_acr_code name s r s' : code name = true -> go_acronyms_to_uppercase uc cfg name s = Ok (r, s') -> code r = true.
Proof.
  unfold go_acronyms_to_uppercase, go_lift. intros Hn H.
  destruct (go_convert_acronyms_to_uppercase uc (go_uppercase_acronyms cfg) name) as [x| |] eqn:E; try discriminate.
  injection H as <- _. eapply go_convert_code; eauto.
Qed.

Lemma go_texp_code g t : c15_go_rtype t = true ->
  forall s x s', go_texp cfg g t s = Ok (x, s') -> code (go_show x) = true.
Proof.
  induction t as [id|id ps IH|t IH|t n IH|t IH|k v IHk IHv|t IH|p] using rtype_ind'; intros Hid s x s' H;
    cbn [go_texp c15_go_rtype] in *.
  - inv_ret H. destruct (tmap_get (go_type_mappings cfg) id) eqn:E; cbn [go_show]; [eapply go_tmap_get_code; eauto|exact Hid].
  - apply andb_true_iff in Hid as [Hid0 Hids]. destruct (tmap_get (go_type_mappings cfg) id) eqn:E.
    + inv_ret H. eapply go_tmap_get_code; eauto.
    + rewrite c15_go_is_mmapM in H. apply mbind_ok in H as (xs & s1 & Exs & H). inv_ret H.
      assert (Hxs : Forall (fun y => code (go_show y) = true) xs).
      { eapply c15_mmapM_Forall; [|exact Exs]. rewrite Forall_forall in IH |- *. intros t Ht s0 y s0' Hy.
        eapply IH; eauto. rewrite forallb_forall in Hids. now apply Hids. }
      destruct xs as [|x0 xr]; [exact Hid0|].
      change (go_show (GName id (x0 :: xr))) with (id ++ lit "[" ++ join (lit ", ") (map go_show (x0 :: xr)) ++ lit "]").
      rewrite !go_code_app, Hid0. cbn [andb]. rewrite go_code_join; [reflexivity|reflexivity|].
      rewrite c15_forallb_map. now apply c15_Forall_forallb.
  - destruct (tmap_get (go_type_mappings cfg) _) eqn:E; [inv_ret H; eapply go_tmap_get_code; eauto|].
    apply mbind_ok in H as (e & s1 & Ee & H). inv_ret H. cbn [go_show]. now rewrite go_code_app, (IH Hid _ _ _ Ee).
  - destruct (tmap_get (go_type_mappings cfg) _) eqn:E; [inv_ret H; eapply go_tmap_get_code; eauto|].
    apply mbind_ok in H as (e & s1 & Ee & H). inv_ret H. cbn [go_show].
    now rewrite !go_code_app, go_code_dec_N, (IH Hid _ _ _ Ee).
  - destruct (tmap_get (go_type_mappings cfg) _) eqn:E; [inv_ret H; eapply go_tmap_get_code; eauto|].
    apply mbind_ok in H as (e & s1 & Ee & H). inv_ret H. cbn [go_show]. now rewrite go_code_app, (IH Hid _ _ _ Ee).
  - destruct (tmap_get (go_type_mappings cfg) _) eqn:E; [inv_ret H; eapply go_tmap_get_code; eauto|].
    apply andb_true_iff in Hid as [Hk Hv].
    apply mbind_ok in H as (ks & s1 & Ek & H). apply mbind_ok in H as (vs & s2 & Ev & H). inv_ret H. cbn [go_show].
    now rewrite !go_code_app, (IHk Hk _ _ _ Ek), (IHv Hv _ _ _ Ev).
  - destruct (tmap_get (go_type_mappings cfg) _) eqn:E; [inv_ret H; eapply go_tmap_get_code; eauto|].
    apply mbind_ok in H as (e & s1 & Ee & H). inv_ret H. pose proof (IH Hid _ _ _ Ee) as He.
    destruct (is_vec t && go_no_pointer_slice cfg); [exact He|]. cbn [go_show]. now rewrite go_code_app, He.
  - destruct (tmap_get (go_type_mappings cfg) _) eqn:E; [inv_ret H; eapply go_tmap_get_code; eauto|].
    destruct p; cbv [mbind go_add_import mget mput ret] in H; injection H as <- _; reflexivity.
Qed.

(* acronyms_to_uppercase on the text of a type: the decided type prints to the rewritten text *)
Lemma go_acr_ty_code t s r s' : code (go_show t) = true -> go_acronyms_ty uc cfg t s = Ok (r, s') -> code (go_show r) = true.
Proof.
  intros Ht H. unfold go_acronyms_ty in H. apply mbind_ok in H as (text & s1 & Et & H). inv_ret H.
  pose proof (go_acr_code _ _ _ _ Ht Et) as Hx.
  destruct (go_ty_acronyms uc cfg t) as [t'| |]; try exact Hx.
  destruct (str_eqb (go_show t') text) eqn:E; [|exact Hx]. apply str_eqb_eq in E. now rewrite E.
Qed.

Lemma go_member_ok_ir gs f s m s' : c15_go_field_ok f = true ->
  go_member_of uc cfg gs f s = Ok (m, s') -> go_member_ok m = true.
Proof.
  unfold c15_go_field_ok, go_member_of, go_format_field_name. intros Hf H. c15_split_andb.
  apply mbind_ok in H as (tn & s1 & Etn & H). apply mbind_ok in H as (gt & s2 & Egt & H).
  apply mbind_ok in H as (fname & s3 & Efn & H). inv_ret H. unfold go_member_ok. cbn [gm_name gm_type gm_key].
  assert (Htn : code (go_show tn) = true).
  { destruct (type_override f Go); [inv_ret Etn; assumption|eapply go_texp_code; eauto]. }
  assert (Hon : code (original (fid f)) = true) by assumption.
  rewrite (go_acr_code _ _ _ _ (go_pascal_code _ Hon) Efn), (go_acr_ty_code _ _ _ _ Htn Egt).
  assumption.
Qed.

Lemma go_struct_ok_ir rs s d s' :
  code (renamed (sid rs)) = true -> forallb code (sgenerics rs) = true -> forallb c15_go_field_ok (sfields rs) = true ->
  go_struct_decl_of uc cfg rs s = Ok (d, s') -> go_decl_ok d = true.
Proof.
  intros Hn Hg Hf H. unfold go_struct_decl_of in H.
  apply mbind_ok in H as (name & s1 & En & H). apply mbind_ok in H as (ms & s2 & Ems & H). inv_ret H.
  cbn [go_decl_ok]. rewrite (go_acr_code _ _ _ _ Hn En), Hg. cbn [andb].
  apply (c15_Forall2_forallb (fun f m => c15_go_field_ok f = true -> go_member_ok m = true) c15_go_field_ok _ (sfields rs) ms);
    [|auto|exact Hf].
  eapply mmapM_Forall2; [|exact Ems]. intros f s0 m s0' Hm Hfo. eapply go_member_ok_ir; eauto.
Qed.

Lemma go_concat_ok dss : Forall (fun ds => forallb go_decl_ok ds = true) dss -> forallb go_decl_ok (List.concat dss) = true.
Proof. induction 1 as [|d r Hd _ IH]; [reflexivity|]. cbn [List.concat]. now rewrite forallb_app, Hd, IH. Qed.

Lemma go_anon_ok_ir sh s ds s' :
  code (original (eid sh)) = true -> forallb code (egenerics sh) = true -> forallb c15_go_variant_ok (evariants sh) = true ->
  go_anonymous_struct_decls uc cfg sh s = Ok (ds, s') -> forallb go_decl_ok ds = true.
Proof.
  intros He Hg Hvs H. unfold go_anonymous_struct_decls in H. apply mbind_ok in H as (dss & s1 & Em & H). inv_ret H.
  apply go_concat_ok. eapply c15_mmapM_Forall; [|exact Em]. apply Forall_forall. intros v Hv s0 y s0' Hy.
  rewrite forallb_forall in Hvs. specialize (Hvs v Hv).
  destruct v as [vsh|t vsh|fs vsh]; try (inv_ret Hy; reflexivity).
  apply mbind_ok in Hy as (sn & s2 & Esn & Hy). apply mbind_ok in Hy as (d & s3 & Ed & Hy). inv_ret Hy.
  cbn [forallb]. rewrite andb_true_r. unfold c15_go_variant_ok in Hvs. cbn [variant_shared] in Hvs. c15_split_andb.
  unfold go_make_anonymous_struct_name in Esn.
  eapply go_struct_ok_ir; [| | |exact Ed]; cbn [anon_struct sid renamed sgenerics sfields].
  - eapply go_acr_code; [|exact Esn]. rewrite !go_code_app, He. cbn [andb]. apply andb_true_iff. split; [assumption|reflexivity].
  - now apply Proofs.C15_Kotlin.c15_anon_generics_plain.
  - assumption.
Qed.

Lemma go_variant_ok_ir sh cs sn tag v s x s' :
  code (original (eid sh)) = true -> code sn = true -> code tag = true -> c15_go_variant_ok v = true ->
  go_variant_of uc cfg sh cs sn tag v s = Ok (x, s') -> go_variant_ok x = true.
Proof.
  intros He Hsn Htag Hv H. unfold go_variant_of in H. unfold c15_go_variant_ok in Hv. c15_split_andb.
  apply mbind_ok in H as (vn & s1 & Evn & H). apply mbind_ok in H as (vt & s2 & Evt & H).
  apply mbind_ok in H as (tp & s3 & Etp & H). apply mbind_ok in H as (ct & s4 & Ect & H). inv_ret H.
  pose proof (go_acr_code _ _ _ _ ltac:(eassumption) Evn) as Hvn.
  pose proof (go_acr_code _ _ _ _ (go_pascal_code _ Htag) Etp) as Htp.
  unfold go_variant_ok. cbn [gv_const gv_wire gv_method gv_content].
  match goal with |- context [sn ++ tp ++ ?x] => replace x with (lit "Variant" ++ vn) by reflexivity end.
  rewrite !go_code_app, Hsn, Htp, Hvn. cbn [andb]. change (code (lit "Variant")) with true. cbn [andb].
  match goal with Hw : c15_lit_str _ = true |- _ => rewrite Hw end. cbn [andb].
  destruct v as [vsh|ty vsh|fs vsh]; cbn [variant_shared] in *.
  - inv_ret Evt. inv_ret Ect. reflexivity.
  - apply mbind_ok in Evt as (y & s5 & Ey & Evt). inv_ret Evt.
    apply mbind_ok in Ect as (fvt & s6 & Ef & Ect). inv_ret Ect. cbn [go_content_ok].
    eapply go_acr_ty_code; [|exact Ef]. eapply go_texp_code; eauto.
  - apply mbind_ok in Evt as (y & s5 & Ey & Evt). inv_ret Evt.
    apply mbind_ok in Ect as (fvt & s6 & Ef & Ect). inv_ret Ect. cbn [go_content_ok].
    eapply go_acr_code; [|exact Ef]. unfold go_make_anonymous_struct_name in Ey.
    eapply go_acr_code; [|exact Ey]. now rewrite !go_code_app, He, Hvn.
Qed.

Theorem go_decl_ok_ir cs it s ds s' : c15_go_item_ok it = true ->
  go_decl_of uc cfg cs it s = Ok (ds, s') -> forallb go_decl_ok ds = true.
Proof.
  destruct it as [rs|e|a|c]; intros Hs H; cbn [go_decl_of c15_go_item_ok] in *.
  - c15_split_andb. apply mbind_ok in H as (d & s1 & Hd & H). inv_ret H. cbn [forallb]. rewrite andb_true_r.
    eapply go_struct_ok_ir; eauto.
  - c15_split_andb. unfold go_enum_decls_of in H. apply mbind_ok in H as (anon & s1 & Ha & H).
    match goal with Hv : forallb c15_go_variant_ok _ = true |- _ => rename Hv into Hvs end.
    pose proof (go_anon_ok_ir _ _ _ _ ltac:(eassumption) ltac:(eassumption) Hvs Ha) as Hanon.
    destruct e as [sh|tag content sh]; cbn [enum_shared] in *.
    + apply mbind_ok in H as (en & s2 & Een & H). apply mbind_ok in H as (vs & s3 & Ev & H). inv_ret H.
      rewrite forallb_app, Hanon. cbn [forallb andb go_decl_ok]. rewrite andb_true_r.
      pose proof (go_acr_code (original (eid sh)) _ _ _ ltac:(assumption) Een) as Hen. rewrite Hen. cbn [andb].
      apply (c15_Forall2_forallb (fun v x => c15_go_variant_ok v = true -> go_unit_ok x = true) c15_go_variant_ok _ (evariants sh) vs);
        [|auto|exact Hvs].
      eapply mmapM_Forall2; [|exact Ev]. intros v s0 x s0' Hx Hv.
      destruct v as [vsh|t vsh|fs vsh]; cbn [go_unit_variant_of] in Hx; try discriminate.
      apply mbind_ok in Hx as (en2 & s4 & Een2 & Hx). apply mbind_ok in Hx as (vn & s5 & Evn & Hx). inv_ret Hx.
      unfold c15_go_variant_ok in Hv. cbn [variant_shared] in Hv. c15_split_andb. unfold go_unit_ok. cbn [fst snd].
      rewrite go_code_app, (go_acr_code (original (eid sh)) _ _ _ ltac:(assumption) Een2), (go_acr_code (original (vid vsh)) _ _ _ ltac:(assumption) Evn).
      assumption.
    + c15_split_andb.
      apply mbind_ok in H as (sn & s2 & Esn & H). apply mbind_ok in H as (cf & s3 & Ecf & H).
      apply mbind_ok in H as (tf & s4 & Etf & H). apply mbind_ok in H as (ssn & s5 & Essn & H).
      apply mbind_ok in H as (ta & s6 & Eta & H). apply mbind_ok in H as (vs & s7 & Ev & H). inv_ret H.
      rewrite forallb_app, Hanon. cbn [forallb andb go_decl_ok]. rewrite andb_true_r.
      pose proof (go_acr_code (original (eid sh)) _ _ _ ltac:(assumption) Esn) as Hsn.
      assert (Hcf : code cf = true).
      { unfold go_lift in Ecf. destruct (to_camel_case content) as [y| |] eqn:Ec; try discriminate.
        injection Ecf as <- _. apply (go_camel_code content); assumption. }
      assert (Htf : code tf = true).
      { unfold go_format_field_name in Etf. eapply go_acr_code; [|exact Etf]. now apply go_pascal_code. }
      assert (Hssn : code ssn = true).
      { inv_ret Essn. destruct (original (eid sh)) as [|c0 r0] eqn:Eo; [reflexivity|].
        match goal with Ho : code (c0 :: r0) = true |- _ => rename Ho into Ho0 end.
        unfold c15_go_code in Ho0. cbn [forallb] in Ho0. apply andb_true_iff in Ho0 as [Hc0 _].
        assert (c0 < 128) by (unfold c15_go_code_char in Hc0; lia).
        rewrite (ok_to_lower uc Huc c0) by assumption. unfold c15_go_code. cbn [forallb].
        now rewrite go_code_char_alower. }
      pose proof (go_acr_code tag _ _ _ ltac:(assumption) Eta) as Hta.
      unfold go_tagged_ok. cbn [gt_name gt_key_type gt_tag_key gt_content_key gt_tag_field gt_content_field gt_short gt_variants].
      rewrite !go_code_app, Hsn, (go_pascal_code _ Hta), Hcf, Htf, Hssn. cbn [andb].
      repeat (apply andb_true_iff; split); try assumption; try reflexivity.
      apply (c15_Forall2_forallb (fun v x => c15_go_variant_ok v = true -> go_variant_ok x = true) c15_go_variant_ok _ (evariants sh) vs);
        [|auto|exact Hvs].
      eapply mmapM_Forall2; [|exact Ev]. intros v s0 x s0' Hx Hv. eapply go_variant_ok_ir; [| | | |exact Hx]; assumption.
  - c15_split_andb. apply mbind_ok in H as (n & s1 & En & H). apply mbind_ok in H as (ty & s2 & Ety & H). inv_ret H.
    cbn [forallb go_decl_ok]. rewrite andb_true_r, (go_acr_code (original (aid a)) _ _ _ ltac:(assumption) En). cbn [andb].
    eapply go_texp_code; eauto.
  - c15_split_andb. apply mbind_ok in H as (ty & s1 & Ety & H). inv_ret H.
    cbn [forallb go_decl_ok]. rewrite andb_true_r, go_pascal_code by assumption. cbn [andb].
    rewrite (go_texp_code _ _ ltac:(eassumption) _ _ _ Ety). apply go_code_dec_Z.
Qed.

(* one item, no neutrality hypothesis *)
Theorem gon_item_decomp cs it st text st' : c15_go_item_ok it = true ->
  go_write_item uc cfg cs it st = Ok (text, st') -> DG text (c15_sites false (c15_item_docs_helpers_first it)).
Proof.
  unfold go_write_item. intros Hs H. apply mbind_ok in H as (ds & s1 & Hd & H). inv_ret H.
  rewrite <- (go_decl_docs_ir _ _ _ _ _ _ _ Hd). pose proof (go_decl_ok_ir _ _ _ _ _ Hs Hd) as Hok. eapply Decomp_eq.
  - apply Decomp_concat_map with (g := fun d => c15_sites false (go_decl_docs d)).
    intros d Hin. apply gon_decl_decomp. rewrite forallb_forall in Hok. now apply Hok.
  - unfold c15_sites. now rewrite c15_map_flat_map.
Qed.

Theorem C15_go_item cs it st text st' : c15_go_item_ok it = true ->
  go_write_item uc cfg cs it st = Ok (text, st') ->
  exists parts,
    text = text_of (c15_file_pieces C15go parts) /\
    docs_of (c15_file_pieces C15go parts) = c15_item_docs_helpers_first it /\
    c15_contained C15go LCode (mark (c15_file_pieces C15go parts)) =
    forallb safe_go (c15_item_docs_helpers_first it).
Proof.
  intros Hs H. destruct (Decomp_contained _ _ _ (gon_item_decomp _ _ _ _ _ Hs H)) as (ps & Ht & Hd & Hc).
  exists ps. rewrite c15_sites_text_line in Hd by discriminate. rewrite c15_sites_ok_false in Hc by discriminate. auto.
Qed.
End GOStrict.

(* the statement in the quantifier order of Props/C15.v *)
Theorem C15_go_item_all (uc : unicode) (cfg : go_config) cs :
  unicode_ok uc -> c15_go_mappings_ok (go_type_mappings cfg) = true ->
  forallb (forallb is_ascii) (go_uppercase_acronyms cfg) = true ->
  forall it st text st', c15_go_item_ok it = true ->
  go_write_item uc cfg cs it st = Ok (text, st') ->
  exists parts,
    text = text_of (c15_file_pieces C15go parts) /\
    docs_of (c15_file_pieces C15go parts) = c15_item_docs_helpers_first it /\
    c15_contained C15go LCode (mark (c15_file_pieces C15go parts)) =
    forallb safe_go (c15_item_docs_helpers_first it).
Proof. intros Huc Hm Ha it st text st'. exact (C15_go_item uc Huc cfg Hm Ha cs it st text st'). Qed.

(* ---- parsed items: doc strings free of line breaks (Proofs/C15_Front.v).  The comments typeshare generates for the
   helper structs are built from the enum's and the variant's Rust names, which are printable on the class: the
   whole item is contained ---- *)
From TS Require Import Proofs.C15_Front.

Lemma go_code_line_free s : code s = true -> c15_line_free s.
Proof.
  unfold c15_go_code, c15_line_free, safe_line. apply c15_forallb_impl.
  intros x. unfold c15_go_code_char, eol_lf_cr, ch_nl, ch_cr. lia.
Qed.

Lemma go_generated_free it : c15_go_item_ok it = true -> Forall c15_line_free (c15_item_generated it).
Proof.
  destruct it as [s|e|a|c]; try (intros _; constructor). cbn [c15_go_item_ok c15_item_generated]. set (sh := enum_shared e).
  intros H. c15_split_andb.
  assert (He : c15_line_free (original (eid sh))) by (apply go_code_line_free; assumption).
  match goal with Hv : forallb c15_go_variant_ok _ = true |- _ => rename Hv into HV end.
  induction (evariants sh) as [|v r IH]; [constructor|]. cbn [forallb] in HV. apply andb_true_iff in HV as [Hv Hr].
  cbn [flat_map]. apply Forall_app. split; [|exact (IH Hr)].
  destruct v as [vsh|t vsh|fs vsh]; try constructor; [|constructor].
  apply c15_anon_comment_free; [exact He|]. unfold c15_go_variant_ok in Hv. cbn [variant_shared] in Hv.
  c15_split_andb. apply go_code_line_free. assumption.
Qed.

Theorem C15_go_item_line_free (uc : unicode) (cfg : go_config) cs :
  unicode_ok uc -> c15_go_mappings_ok (go_type_mappings cfg) = true ->
  forallb (forallb is_ascii) (go_uppercase_acronyms cfg) = true ->
  forall it st text st', c15_go_item_ok it = true -> Forall c15_line_free (c15_item_docs it) ->
  go_write_item uc cfg cs it st = Ok (text, st') ->
  exists parts,
    text = text_of (c15_file_pieces C15go parts) /\
    docs_of (c15_file_pieces C15go parts) = c15_item_docs_helpers_first it /\
    c15_contained C15go LCode (mark (c15_file_pieces C15go parts)) = true.
Proof.
  intros Huc Hm Ha it st text st' Hs Hd H.
  destruct (C15_go_item uc Huc cfg Hm Ha cs it st text st' Hs H) as (ps & Ht & Hdocs & Hc).
  exists ps. repeat split; auto. rewrite Hc, c15_helpers_first_safe. change safe_go with (c15_safe C15go false).
  rewrite (c15_line_free_forallb _ (go_generated_free _ Hs) C15go false).
  exact (c15_line_free_forallb _ Hd C15go false).
Qed.

(* non-vacuity: a tagged enum with a unit, a tuple and a struct variant (dashed wire names and keys, a mapped type, names the
   acronym rewriting changes) and a generic struct satisfy the hypotheses; the text the model prints for the enum - helper
   struct, key type, constants, UnmarshalJSON / MarshalJSON, accessors, constructors; doc strings full of comment openers,
   quotes, backticks and backslashes - reproduces every doc string and is contained *)
Definition c15_gonv_id (o r : string) : id := {| original := lit o; renamed := lit r; via_serde_rename := false |}.
Definition c15_gonv_field (o r : string) (t : rtype) (docs : list str) : rfield :=
  {| fid := c15_gonv_id o r; fty := t; fcomments := docs; has_default := false; fdecs := [] |}.
Definition c15_gonv_vsh (o r : string) (docs : list str) : vshared := {| vid := c15_gonv_id o r; vcomments := docs |}.
Definition c15_gonv_cfg : go_config :=
  {| go_package := lit "p"; go_type_mappings := [(lit "Url", lit "string")]; go_uppercase_acronyms := [lit "id"; lit "url"];
     go_no_pointer_slice := false; go_no_version_header := true; go_version := [] |}.
Definition c15_gonv_enum : ritem :=
  ItEnum (EAlgebraic (lit "type") (lit "content")
            {| eid := c15_gonv_id "Event" "Event"; egenerics := [lit "T"]; ecomments := [c15_doc_nasty_line];
               evariants := [VUnit (c15_gonv_vsh "UserId" "user-id" [lit "unit doc */ ""x"" \"]);
                             VTuple (ROption (RVec (RSimple (lit "Url")))) (c15_gonv_vsh "B" "b-b" [c15_doc_nasty_line]);
                             VAnon [c15_gonv_field "item_id" "item-id" (RHashMap (RPrim PString) (RSimple (lit "T")))
                                                   [lit "field doc `json:""x""` \"]]
                                   (c15_gonv_vsh "C" "c" [lit "struct variant doc"])];
               edecs := []; erecursive := false; eredacted := false |}).
Definition c15_gonv_struct : ritem :=
  ItStruct {| sid := c15_gonv_id "Foo" "Foo"; sgenerics := [lit "T"];
              sfields := [c15_gonv_field "a" "a" (RGeneric (lit "Bar") [RSimple (lit "T")]) [c15_doc_nasty_line]];
              scomments := [lit "first"; lit "second"]; sdecs := []; sredacted := false |}.
Example C15_go_item_nonvacuous :
  forallb c15_go_item_ok [c15_gonv_enum; c15_gonv_struct] = true /\
  c15_go_mappings_ok (go_type_mappings c15_gonv_cfg) = true /\
  forallb (forallb is_ascii) (go_uppercase_acronyms c15_gonv_cfg) = true /\
  match go_write_item uc_exec c15_gonv_cfg [] c15_gonv_enum [] with
  | Ok (text, _) => good_C15 C15go (c15_item_docs_helpers_first c15_gonv_enum) text &&
                    contains_sub (lit "EventTypeVariantUserID EventTypes = ""user-id""") text &&
                    contains_sub (lit "ItemID map[string]T `json:""item-id""`") text
  | _ => false
  end = true.
Proof. repeat split; vm_compute; reflexivity. Qed.
