(* C12, Scala: the alias block `type UByte = Byte ...` is written iff unsigned_integer_used (a scan
   of the program made BEFORE printing - recursive since the /repo fix of C12-scala-unsigned-depth);
   the declarations spell an unsigned alias wherever an unsigned integer occurs at any depth in a
   printed position, which the recursive scan always sees: every alias used is defined, for every
   program (no recorded class left). *)
From Coq Require Import List Bool Permutation.
From TS Require Import Model.Str Model.Outcome Model.Unicode Model.Types Model.Parse
                       Model.Lang.Common Model.Lang.Decl Model.Lang.Scala Spec.C12Spec.
From TS Require Import Proofs.BackCommon Proofs.C12Common.
Import ListNotations.

(* ---- the scan of the spec is the scan of the code ---- *)
Lemma c12_existsb_flat_map {A B} (p : B -> bool) (f : A -> list B) l :
  existsb p (flat_map f l) = existsb (fun x => existsb p (f x)) l.
Proof. induction l as [|x l IH]; cbn [flat_map existsb]; [reflexivity|]. rewrite existsb_app, IH. reflexivity. Qed.

Lemma c12_existsb_ext {A} (p q : A -> bool) l : (forall x, p x = q x) -> existsb p l = existsb q l.
Proof. intros H. induction l as [|x l IH]; cbn [existsb]; [reflexivity|]. now rewrite H, IH. Qed.

Lemma c12_flat_map_map {A B C} (f : B -> list C) (g : A -> B) l : flat_map f (map g l) = flat_map (fun x => f (g x)) l.
Proof. induction l as [|x l IH]; cbn [flat_map map]; [reflexivity|]. rewrite IH. reflexivity. Qed.

Lemma c12_flat_map_singleton {A B} (g : A -> B) l : flat_map (fun x => [g x]) l = map g l.
Proof. induction l as [|x l IH]; cbn [flat_map map app]; [reflexivity|]. rewrite IH. reflexivity. Qed.

Lemma c12_sc_is_unsigned t : sc_is_unsigned t = match t with RPrim p => c12_is_unsigned p | _ => false end.
Proof. destruct t as [| | | | | | |p]; try reflexivity; destruct p; reflexivity. Qed.

Lemma c12_existsb_ext_in {A} (p q : A -> bool) l : Forall (fun x => p x = q x) l -> existsb p l = existsb q l.
Proof. induction 1 as [|x l Hx _ IH]; cbn [existsb]; [reflexivity|]. now rewrite Hx, IH. Qed.

(* the recursive scan of the spec is contains_unsigned_integer of the code *)
Lemma c12_sc_deep_is_model t : c12_sc_deep_unsigned t = sc_contains_unsigned t.
Proof.
  induction t as [id|id ps IH|t IH|t n IH|t IH|k v IHk IHv|t IH|p] using rtype_ind';
    cbn [c12_sc_deep_unsigned sc_contains_unsigned]; try assumption; try reflexivity.
  - apply c12_existsb_ext_in. exact IH.
  - now rewrite IHk, IHv.
Qed.

Lemma c12_sc_scan_is_model pd : c12_sc_scan pd = sc_unsigned_integer_used pd.
Proof.
  unfold c12_sc_scan, sc_unsigned_integer_used, c12_sc_items.
  rewrite (c12_existsb_ext _ _ _ c12_sc_deep_is_model). f_equal.
  rewrite !flat_map_app, !c12_flat_map_map. cbn [c12_item_types]. rewrite c12_flat_map_singleton.
  f_equal. f_equal.
  all: try (apply flat_map_ext; intros e; apply flat_map_ext; intros v; destruct v; reflexivity).
  induction (p_structs pd) as [|s l IH]; cbn [flat_map map]; [reflexivity|]. rewrite map_app, IH. reflexivity.
Qed.

(* whatever the translation spells, the recursive scan sees (the converse fails: a mapped generic type
   or an overridden field hides its unsigned integers from the output, not from the scan) *)
Lemma c12_sc_spells_deep tm t : c12_sc_spells_unsigned tm t = true -> c12_sc_deep_unsigned t = true.
Proof.
  induction t as [id|id ps IH|t IH|t n IH|t IH|k v IHk IHv|t IH|p] using rtype_ind';
    cbn [c12_sc_spells_unsigned c12_sc_deep_unsigned]; try assumption; try (intros H; exact H).
  - destruct (tmap_get tm id); [discriminate|]. intros H. apply existsb_exists in H as (x & Hx & H).
    apply existsb_exists. exists x. split; [exact Hx|]. rewrite Forall_forall in IH. now apply IH.
  - intros H. apply orb_true_iff in H as [H|H]; apply orb_true_iff; [left; now apply IHk|right; now apply IHv].
Qed.

Lemma c12_sc_field_spells_deep tm f : c12_sc_field_spells tm f = true -> c12_sc_deep_unsigned (fty f) = true.
Proof. unfold c12_sc_field_spells. destruct (type_override f Scala); [discriminate|apply c12_sc_spells_deep]. Qed.

Lemma c12_sc_fields_spells_deep tm fs :
  existsb (c12_sc_field_spells tm) fs = true -> existsb c12_sc_deep_unsigned (map fty fs) = true.
Proof.
  intros H. apply existsb_exists in H as (f & Hf & H). apply existsb_exists. exists (fty f).
  split; [now apply in_map|now apply (c12_sc_field_spells_deep tm)].
Qed.

Lemma c12_sc_item_spells_deep tm it :
  c12_sc_item_spells tm it = true -> existsb c12_sc_deep_unsigned (c12_item_types it) = true.
Proof.
  destruct it as [rs|e|a|c]; cbn [c12_sc_item_spells c12_item_types]; intros H.
  - now apply (c12_sc_fields_spells_deep tm).
  - rewrite c12_existsb_flat_map. apply existsb_exists in H as (v & Hv & H). apply existsb_exists. exists v.
    split; [exact Hv|]. destruct v as [vsh|t vsh|fs vsh]; cbn [c12_variant_types]; [discriminate| |].
    + destruct e; [discriminate|]. cbn [existsb]. now rewrite (c12_sc_spells_deep tm t H).
    + now apply (c12_sc_fields_spells_deep tm).
  - cbn [existsb]. now rewrite (c12_sc_spells_deep tm _ H).
  - discriminate.
Qed.

Lemma c12_sc_items_spells_scan tm pd :
  existsb (c12_sc_item_spells tm) (c12_sc_items pd) = true -> c12_sc_scan pd = true.
Proof.
  intros H. unfold c12_sc_scan. rewrite c12_existsb_flat_map.
  apply existsb_exists in H as (it & Hit & H). apply existsb_exists. exists it.
  split; [exact Hit|now apply (c12_sc_item_spells_deep tm)].
Qed.

Section SC.
Variable uc : unicode.
Variable cfg : sc_config.
Let tm := sc_type_mappings cfg.

Definition c12_sc_id_ok (id : str) : Prop := ~ In id c12_sc_vocab.

Ltac c12_notin_vocab Hv :=
  apply c12_mem_str_In in Hv; vm_compute in Hv; discriminate Hv.

(* a translated type spells an unsigned alias only if the Rust type has an unsigned integer where
   the translation descends *)
Lemma c12_sc_texp_spells gs t :
  Forall c12_sc_id_ok (c12_rtype_ids t) ->
  forall x u, sc_texp cfg gs t = Ok x -> In u (c12_vnames c12_sc_vocab x) -> c12_sc_spells_unsigned tm t = true.
Proof.
  induction t as [id|id ps IH|t IH|t n IH|t IH|k v IHk IHv|t IH|p] using rtype_ind'; intros Hid x u H Hu;
    cbn [sc_texp] in H; cbn [c12_sc_spells_unsigned]; apply c12_vnames_In in Hu as [Hn Hv].
  - exfalso. injection H as <-. destruct (tmap_get (sc_type_mappings cfg) id); cbn [texp_names flat_map] in Hn; [exact Hn|].
    destruct Hn as [<-|[]]. inversion Hid as [|? ? Hok _]. exact (Hok Hv).
  - cbn [c12_rtype_ids] in Hid. apply Forall_cons_iff in Hid as [Hid0 Hids]. unfold tm.
    destruct (tmap_get (sc_type_mappings cfg) id).
    + injection H as <-. destruct Hn.
    + rewrite c12_go_is_mapM in H. apply c12_bind_ok in H as (parts & Ep & H). injection H as <-.
      cbn [texp_names] in Hn. destruct Hn as [<-|Hn]; [exfalso; exact (Hid0 Hv)|].
      apply in_flat_map in Hn as (y & Hy & Hn).
      destruct (c12_mapM_In _ _ _ Ep y Hy) as (t & Ht & Et).
      apply existsb_exists. exists t. split; [exact Ht|].
      rewrite Forall_forall in IH. eapply (IH t Ht); [|exact Et|apply c12_vnames_In; split; eauto].
      rewrite Forall_forall in Hids |- *. intros i Hi. apply Hids. apply in_flat_map. eauto.
  - apply c12_bind_ok in H as (e & Ee & H). injection H as <-. cbn [texp_names flat_map] in Hn.
    rewrite app_nil_r in Hn. destruct Hn as [<-|Hn]; [c12_notin_vocab Hv|].
    eapply IH; [exact Hid|exact Ee|apply c12_vnames_In; split; eauto].
  - apply c12_bind_ok in H as (e & Ee & H). injection H as <-. cbn [texp_names flat_map] in Hn.
    rewrite app_nil_r in Hn. destruct Hn as [<-|Hn]; [c12_notin_vocab Hv|].
    eapply IH; [exact Hid|exact Ee|apply c12_vnames_In; split; eauto].
  - apply c12_bind_ok in H as (e & Ee & H). injection H as <-. cbn [texp_names flat_map] in Hn.
    rewrite app_nil_r in Hn. destruct Hn as [<-|Hn]; [c12_notin_vocab Hv|].
    eapply IH; [exact Hid|exact Ee|apply c12_vnames_In; split; eauto].
  - cbn [c12_rtype_ids] in Hid. apply Forall_app in Hid as [Hk Hvv].
    apply c12_bind_ok in H as (ks & Ek & H). apply c12_bind_ok in H as (vs & Ev & H). injection H as <-.
    cbn [texp_names flat_map] in Hn. rewrite app_nil_r in Hn. destruct Hn as [<-|Hn]; [c12_notin_vocab Hv|].
    apply orb_true_iff. apply in_app_iff in Hn as [Hn|Hn]; [left; eapply IHk|right; eapply IHv]; eauto;
      apply c12_vnames_In; split; eauto.
  - apply c12_bind_ok in H as (e & Ee & H). injection H as <-. cbn [texp_names] in Hn.
    eapply IH; [exact Hid|exact Ee|apply c12_vnames_In; split; eauto].
  - destruct p; try discriminate H; injection H as <-; cbn [texp_names flat_map] in Hn;
      destruct Hn as [<-|[]]; try reflexivity; c12_notin_vocab Hv.
Qed.

Definition c12_sc_fields_ok (fs : list rfield) : Prop := Forall (fun f => Forall c12_sc_id_ok (c12_rtype_ids (fty f))) fs.

Lemma c12_sc_member_spells gs f m u :
  Forall c12_sc_id_ok (c12_rtype_ids (fty f)) ->
  sc_member_of cfg gs f = Ok m -> In u (c12_vnames c12_sc_vocab (scm_type m)) -> c12_sc_field_spells tm f = true.
Proof.
  intros Hid H Hu. unfold sc_member_of in H. apply c12_bind_ok in H as (ty & Ety & H). injection H as <-.
  cbn [scm_type] in Hu. unfold c12_sc_field_spells. destruct (type_override f Scala).
  - injection Ety as <-. apply c12_vnames_In in Hu as [[] _].
  - eapply c12_sc_texp_spells; eauto.
Qed.

Lemma c12_sc_class_spells rs d u :
  c12_sc_fields_ok (sfields rs) ->
  sc_class_of cfg rs = Ok d -> In u (c12_sc_decl_uses d) -> existsb (c12_sc_field_spells tm) (sfields rs) = true.
Proof.
  intros Hid H Hu. unfold sc_class_of in H. destruct (sfields rs) as [|f0 fs] eqn:Ef.
  - injection H as <-. destruct Hu.
  - rewrite <- Ef in *. apply c12_bind_ok in H as (ms & Ems & H). injection H as <-.
    cbn [c12_sc_decl_uses] in Hu. apply in_flat_map in Hu as (m & Hm & Hu).
    destruct (c12_mapM_In _ _ _ Ems m Hm) as (f & Hf & Emf).
    apply existsb_exists. exists f. split; [exact Hf|].
    eapply c12_sc_member_spells; eauto. unfold c12_sc_fields_ok in Hid. rewrite Forall_forall in Hid. auto.
Qed.

Definition c12_sc_item_ok (it : ritem) : Prop := Forall (fun t => Forall c12_sc_id_ok (c12_rtype_ids t)) (c12_item_types it).

(* one item: a declaration written for it spells an unsigned alias only if the item has an unsigned
   integer in a position that is printed *)
Lemma c12_sc_decl_spells it ds d u :
  c12_sc_item_ok it ->
  sc_decl_of cfg it = Ok ds -> In d ds -> In u (c12_sc_decl_uses d) -> c12_sc_item_spells tm it = true.
Proof.
  intros Hid H Hd Hu. destruct it as [rs|e|a|c]; cbn [sc_decl_of] in H; cbn [c12_sc_item_spells].
  - apply c12_bind_ok in H as (d0 & E & H). injection H as <-. destruct Hd as [<-|[]].
    eapply c12_sc_class_spells; eauto. unfold c12_sc_item_ok in Hid. cbn [c12_item_types] in Hid.
    rewrite Forall_map in Hid. exact Hid.
  - apply c12_bind_ok in H as (inner & Ei & H). apply c12_bind_ok in H as (vs & Ev & H). injection H as <-.
    unfold c12_sc_item_ok in Hid. cbn [c12_item_types] in Hid. rewrite Forall_forall in Hid.
    apply in_app_iff in Hd as [Hd|[<-|[]]].
    + unfold sc_inner_decls_of in Ei. apply c12_bind_ok in Ei as (dss & Edss & Ei). injection Ei as <-.
      apply in_concat in Hd as (l & Hl & Hd).
      destruct (c12_mapM_In _ _ _ Edss l Hl) as (v & Hv & Ev').
      apply existsb_exists. exists v. split; [exact Hv|].
      destruct v as [vsh|t vsh|fs vsh]; try (injection Ev' as <-; destruct Hd).
      apply c12_bind_ok in Ev' as (d0 & Ed0 & Ev'). injection Ev' as <-. destruct Hd as [<-|[]].
      refine (c12_sc_class_spells (anon_struct _ _ _ fs) d0 u _ Ed0 Hu). unfold c12_sc_fields_ok.
      cbn [anon_struct sfields]. apply Forall_forall. intros f Hf. apply Hid.
      apply in_flat_map. exists (VAnon fs vsh). split; [exact Hv|]. cbn [c12_variant_types]. now apply in_map.
    + cbn [c12_sc_decl_uses] in Hu. apply in_flat_map in Hu as (sv & Hsv & Hu).
      unfold sc_variants_of in Ev. destruct e as [sh|tag content sh]; cbn [enum_shared] in *.
      * destruct (c12_mapM_In _ _ _ Ev sv Hsv) as (v & Hv & Ev'). unfold sc_variant_of_unit_enum in Ev'.
        injection Ev' as <-. destruct Hu.
      * destruct (c12_mapM_In _ _ _ Ev sv Hsv) as (v & Hv & Ev'). unfold sc_variant_of_algebraic in Ev'.
        apply c12_bind_ok in Ev' as (payload & Ep & Ev'). injection Ev' as <-.
        unfold c12_sc_variant_uses in Hu. cbn [scv_payload] in Hu.
        apply existsb_exists. exists v. split; [exact Hv|].
        destruct v as [vsh|t vsh|fs vsh].
        -- injection Ep as <-. destruct Hu.
        -- apply c12_bind_ok in Ep as (vt & Evt & Ep). injection Ep as <-.
           eapply c12_sc_texp_spells; [|exact Evt|exact Hu]. apply Hid.
           apply in_flat_map. exists (VTuple t vsh). split; [exact Hv|]. now left.
        -- injection Ep as <-. destruct Hu.
  - apply c12_bind_ok in H as (ty & Ety & H). injection H as <-. destruct Hd as [<-|[]].
    cbn [c12_sc_decl_uses] in Hu. eapply c12_sc_texp_spells; [|exact Ety|exact Hu].
    unfold c12_sc_item_ok in Hid. cbn [c12_item_types] in Hid. now inversion Hid.
  - discriminate H.
Qed.

Lemma c12_sc_items_spells items dss d u :
  Forall c12_sc_item_ok items ->
  mapM (sc_decl_of cfg) items = Ok dss -> In d (List.concat dss) -> In u (c12_sc_decl_uses d) ->
  existsb (c12_sc_item_spells tm) items = true.
Proof.
  intros Hid H Hd Hu. apply in_concat in Hd as (ds & Hds & Hd).
  destruct (c12_mapM_In _ _ _ H ds Hds) as (it & Hit & Eit).
  apply existsb_exists. exists it. split; [exact Hit|].
  rewrite Forall_forall in Hid. eapply c12_sc_decl_spells; eauto.
Qed.

Lemma c12_sc_dom_items pd : c12_sc_dom pd = true -> Forall c12_sc_item_ok (c12_sc_items pd).
Proof.
  intros H. apply Forall_forall. intros it Hit.
  destruct (c12_ids_avoid_spec _ _ _ H it Hit) as [Hids _].
  unfold c12_sc_item_ok. apply Forall_forall. intros t Ht. apply Forall_forall. intros id Hid.
  apply Hids. unfold c12_item_ids. apply in_flat_map. eauto.
Qed.

Lemma c12_sc_uses_in_vocab ds u : In u (c12_sc_uses ds) -> In u c12_sc_vocab.
Proof.
  unfold c12_sc_uses. intros H. apply in_flat_map in H as (d & _ & Hd).
  destruct d as [? ? ? ty|? ? ? ms|? ?|? ? ? vs|?]; cbn [c12_sc_decl_uses] in Hd.
  - now apply c12_vnames_In in Hd.
  - apply in_flat_map in Hd as (m & _ & Hm). now apply c12_vnames_In in Hm.
  - destruct Hd.
  - apply in_flat_map in Hd as (v & _ & Hv). unfold c12_sc_variant_uses in Hv.
    destruct (scv_payload v); try contradiction. now apply c12_vnames_In in Hv.
  - destruct Hd.
Qed.

(* the file: every unsigned alias the declarations spell is defined by the alias block at the head
   of the package object - for every program (no carve-out since the /repo fix) *)
Theorem c12_sc_file pd objs pkgs :
  sc_decls uc cfg pd = Ok (objs, pkgs) -> c12_sc_dom pd = true ->
  c12_good (c12_sc_uses (objs ++ pkgs)) (c12_sc_defs (objs ++ pkgs)) = true.
Proof.
  intros H Hdom. unfold sc_decls in H.
  apply c12_bind_ok in H as (hd & _ & H).
  apply c12_bind_ok in H as (aliases & Ea & H). apply c12_bind_ok in Ea as (dssa & Ea & Ea'). injection Ea' as <-.
  apply c12_bind_ok in H as (structs & Es & H). apply c12_bind_ok in Es as (dsss & Es & Es'). injection Es' as <-.
  apply c12_bind_ok in H as (enums & Ee & H). apply c12_bind_ok in Ee as (dsse & Ee & Ee'). injection Ee' as <-.
  injection H as <- <-.
  apply c12_good_spec. intros u Hu.
  assert (Hvoc := c12_sc_uses_in_vocab _ _ Hu).
  assert (Hitems := c12_sc_dom_items _ Hdom). unfold c12_sc_items in Hitems.
  apply Forall_app in Hitems as [Hia Hitems]. apply Forall_app in Hitems as [His Hie].
  assert (Hsp : existsb (c12_sc_item_spells tm) (c12_sc_items pd) = true).
  { unfold c12_sc_items. rewrite !existsb_app.
    unfold c12_sc_uses in Hu. apply in_flat_map in Hu as (d & Hd & Hu).
    rewrite !in_app_iff in Hd. destruct Hd as [[Hd|Hd]|[Hd|Hd]].
    - exfalso. destruct (sc_unsigned_integer_used pd); [|destruct Hd]. destruct Hd as [<-|[]]. destruct Hu.
    - rewrite (c12_sc_items_spells _ _ _ _ Hia Ea Hd Hu). reflexivity.
    - rewrite (c12_sc_items_spells _ _ _ _ His Es Hd Hu). now rewrite orb_true_r.
    - rewrite (c12_sc_items_spells _ _ _ _ Hie Ee Hd Hu). now rewrite !orb_true_r. }
  pose proof (c12_sc_items_spells_scan tm pd Hsp) as Escan.
  rewrite c12_sc_scan_is_model in Escan. rewrite Escan.
  unfold c12_sc_defs. rewrite !flat_map_app. apply in_app_iff. left. apply in_app_iff. left. exact Hvoc.
Qed.
End SC.

(* ---- the witness of the fixed class C12-scala-unsigned-depth: Vec<Vec<u16>> in an alias ---- *)
Definition c12_sc_cfg0 : sc_config :=
  {| sc_package := lit "com.p"; sc_module_name := []; sc_type_mappings := []; sc_no_version_header := true; sc_version := [] |}.
Definition c12_mkid (s : str) : id := {| original := s; renamed := s; via_serde_rename := false |}.
Definition c12_sc_witness : parsed :=
  {| p_structs := []; p_enums := [];
     p_aliases := [{| aid := c12_mkid (lit "Grid"); agenerics := []; atype := RVec (RVec (RPrim PU16));
                      acomments := []; adecs := []; aredacted := false |}];
     p_consts := []; p_type_names := []; p_errors := []; p_imports := [] |}.
