(* C10 for TypeScript, from the IR to the whole file: the DECISION layer (ts_texp, ts_member_of, ts_variant_of,
   ts_decl_of) produces well-formed declarations from every IR item of the domain, the printing state
   (property names collected for the Date reviver) stays printable, hence header ++ body ++ trailer of
   ts_generate is balanced for every program of dom_C10. *)
From Coq Require Import List Bool Lia ZifyBool ZifyN NArith Permutation.
From TS Require Import Model.Str Model.Outcome Model.Unicode Model.Types Model.Parse Model.Rename Model.TopsortAlgo Model.Topsort
                       Model.Lang.Common Model.Lang.Decl Model.Lang.TypeScript.
From TS Require Import Spec.C10Spec Proofs.BackCommon Proofs.C10Lex Proofs.C10_TS.
From TS Require Proofs.C11.
Import ListNotations.
Local Open Scope N_scope.
Local Notation length := List.length (only parsing).

(* configuration: every type_mappings value is balanced on its own, the version string is a safe comment line *)
Definition c10_ts_cfg_ok (cfg : ts_config) : bool :=
  forallb (fun kv => c10_raw_ok c10_lex_ts (snd kv)) (ts_type_mappings cfg) && c10_doc_ok (ts_version cfg).

(* printing state: the property names collected for the Date reviver go unescaped between double quotes *)
Definition c10_ts_state_ok (st : ts_state) : bool := forallb (fun kv => forallb c10_instr_ok (snd kv)) st.

Lemma tmap_get_raw lc (m : tmap) k v : forallb (fun kv => c10_raw_ok lc (snd kv)) m = true -> tmap_get m k = Some v ->
  c10_raw_ok lc v = true.
Proof.
  induction m as [|[a b] r IH]; cbn [tmap_get forallb]; [discriminate|]. rewrite andb_true_iff. intros [H1 H2].
  destruct (str_eqb a k); [intros E; injection E as <-; exact H1|apply IH, H2].
Qed.

Lemma tsmap_get_ok st k v : c10_ts_state_ok st = true -> tsmap_get st k = Some v -> forallb c10_instr_ok v = true.
Proof.
  unfold c10_ts_state_ok. induction st as [|[a b] r IH]; cbn [tsmap_get forallb]; [discriminate|]. rewrite andb_true_iff. intros [H1 H2].
  destruct (str_eqb a k); [intros E; injection E as <-; exact H1|apply IH, H2].
Qed.
Lemma tsmap_set_ok st k v : c10_ts_state_ok st = true -> forallb c10_instr_ok v = true -> c10_ts_state_ok (tsmap_set st k v) = true.
Proof.
  unfold c10_ts_state_ok. intros Hs Hv. induction st as [|[a b] r IH]; cbn [tsmap_set forallb]; [cbn; rewrite Hv; reflexivity|].
  cbn [forallb] in Hs. apply andb_true_iff in Hs as [H1 H2]. cbn [snd] in H1.
  destruct (str_eqb a k); [cbn [forallb snd]; rewrite Hv, H2; reflexivity|].
  destruct (str_ltb k a); cbn [forallb snd]; [rewrite Hv, H1, H2; reflexivity|]. rewrite H1, (IH H2). reflexivity.
Qed.
Lemma sset_insert_ok x l : c10_instr_ok x = true -> forallb c10_instr_ok l = true -> forallb c10_instr_ok (sset_insert x l) = true.
Proof.
  intros Hx. induction l as [|y r IH]; cbn [sset_insert forallb]; [rewrite Hx; reflexivity|]. rewrite andb_true_iff. intros [H1 H2].
  destruct (str_eqb x y); [cbn [forallb]; rewrite H1, H2; reflexivity|].
  destruct (str_ltb x y); cbn [forallb]; [rewrite Hx, H1, H2; reflexivity|]. rewrite H1, (IH H2). reflexivity.
Qed.

Lemma forallb_repeat {A} (p : A -> bool) x n : p x = true -> forallb p (repeat x n) = true.
Proof. intros H. induction n; cbn; [reflexivity|]. rewrite H, IHn. reflexivity. Qed.

Lemma key_instr k : c10_key_ok k = true -> c10_instr_ok k = true.
Proof. destruct k; [discriminate|]. unfold c10_key_ok. apply key_chars_instr. Qed.

Lemma Forall_forallb {A} (p : A -> bool) l : Forall (fun x => p x = true) l -> forallb p l = true.
Proof. induction 1; cbn; [reflexivity|]. rewrite H, IHForall. reflexivity. Qed.

(* a verbatim type override of the language at hand is balanced (from the field's domain predicate) *)
Lemma type_override_raw l f o : c10_field_ok l f = true -> type_override f (c10_lang_of l) = Some o -> c10_raw_ok (c10_cfg_of l) o = true.
Proof.
  unfold c10_field_ok, type_override. rewrite !andb_true_iff. intros [_ H].
  destruct (lookup_lang (c10_lang_of l) (fdecs f)) as [ds|]; [|discriminate].
  induction ds as [|d r IH]; [discriminate|]. cbn [forallb] in H. apply andb_true_iff in H as [Hd Hr].
  destruct d as [w | n v]; [exact (IH Hr)|]. destruct (str_eqb n (lit "type")); [|exact (IH Hr)].
  intros E. injection E as <-. cbn [c10_fdecor_ok] in Hd. apply andb_true_iff in Hd as [_ Hv]. exact Hv.
Qed.

(* names made by the Unicode-aware std calls stay neutral tokens on identifier-shaped input *)
Lemma ident_chars_tok s : forallb c10_ident_char s = true -> c10_tok_ok s = true.
Proof. unfold c10_tok_ok. apply forallb_impl. intros x Hx. apply negb_true_iff, ident_char_not_special, Hx. Qed.
Lemma ident_ok_chars s : c10_ident_ok s = true -> forallb c10_ident_char s = true.
Proof.
  destruct s as [|c r]; [discriminate|]. unfold c10_ident_ok. cbn [forallb]. rewrite !andb_true_iff. intros [Hc Hr]. split; [|exact Hr].
  unfold c10_ident_start, c10_ident_char in *. lia.
Qed.
Lemma alower_ident c : c10_ident_char c = true -> c10_ident_char (alower c) = true.
Proof. unfold c10_ident_char, alower, is_aalpha, is_alower, is_aupper, is_adigit, ch_us. intros H. destruct ((65 <=? c) && (c <=? 90)) eqn:E; lia. Qed.
Lemma aupper_ident c : c10_ident_char c = true -> c10_ident_char (aupper c) = true.
Proof. unfold c10_ident_char, aupper, is_aalpha, is_alower, is_aupper, is_adigit, ch_us. intros H. destruct ((97 <=? c) && (c <=? 122)) eqn:E; lia. Qed.
Lemma ident_char_ascii c : c10_ident_char c = true -> c < 128.
Proof. unfold c10_ident_char, is_aalpha, is_alower, is_aupper, is_adigit, ch_us. lia. Qed.

Lemma topsort_ok_perm things items : topsort things = Ok items -> Permutation items things.
Proof.
  intros H. destruct (build_dag things) as [dag| |] eqn:E; try (unfold topsort in H; rewrite E in H; discriminate).
  destruct (Proofs.C11.topsort_permutation things dag E) as (out & Eo & P). rewrite Eo in H. injection H as <-. exact P.
Qed.

Section SnakeUpper.
Variable uc : unicode.
Lemma snake_go_ident allup first s : forallb c10_ident_char s = true -> forallb c10_ident_char (snake_go uc allup first s) = true.
Proof.
  revert first. induction s as [|c r IH]; intros first H; [reflexivity|]. cbn [forallb] in H. apply andb_true_iff in H as [Hc Hr].
  cbn [snake_go]. rewrite forallb_app. cbn [forallb]. rewrite (alower_ident c Hc), (IH false Hr).
  destruct (negb first && u_is_upper uc c && negb allup); reflexivity.
Qed.
Hypothesis Huc : unicode_ok uc.
Lemma to_uppercase_ident s : forallb c10_ident_char s = true -> forallb c10_ident_char (str_to_uppercase uc s) = true.
Proof.
  unfold str_to_uppercase. induction s as [|c r IH]; intros H; [reflexivity|]. cbn [forallb flat_map] in *. apply andb_true_iff in H as [Hc Hr].
  rewrite forallb_app, (IH Hr), (ok_to_upper uc Huc c (ident_char_ascii c Hc)). cbn [forallb]. rewrite (aupper_ident c Hc). reflexivity.
Qed.
End SnakeUpper.

Section TSDecide.
Variable uc : unicode.
Hypothesis Huc : unicode_ok uc.
Variable cfg : ts_config.
Hypothesis Hcfg : c10_ts_cfg_ok cfg = true.

Lemma Hmap : forallb (fun kv => c10_raw_ok c10_lex_ts (snd kv)) (ts_type_mappings cfg) = true.
Proof. unfold c10_ts_cfg_ok in Hcfg. apply andb_true_iff in Hcfg as [H _]. exact H. Qed.

(* what a step of the printing monad must preserve / establish *)
Definition ts_post {A} (P : A -> Prop) (m : M ts_state A) : Prop :=
  forall s y s', m s = Ok (y, s') -> c10_ts_state_ok s = true -> P y /\ c10_ts_state_ok s' = true.

Lemma ts_post_mmapM {A B} (f : A -> M ts_state B) (Q : A -> Prop) (P : B -> Prop) :
  (forall x, Q x -> ts_post P (f x)) -> forall l, Forall Q l -> ts_post (Forall P) (mmapM f l).
Proof.
  intros Hf l HQ. induction HQ as [|x l Hx Hl IH]; intros s ys s' H Hs; cbn [mmapM] in H.
  - unfold ret in H. injection H as <- <-. auto.
  - apply mbind_ok in H as (y & s1 & Hy & H). apply mbind_ok in H as (ys' & s2 & Hys & H). unfold ret in H. injection H as <- <-.
    destruct (Hf x Hx s y s1 Hy Hs) as [Py Hs1]. destruct (IH s1 ys' s2 Hys Hs1) as [Pys Hs2]. auto.
Qed.

Ltac special_case H Hs :=
  let mapped := fresh "mapped" in let E := fresh "E" in
  destruct (tmap_get (ts_type_mappings cfg) _) as [mapped|] eqn:E;
  [ let a := fresh in let b := fresh in let c := fresh in let d := fresh in let Ha := fresh in let Hc := fresh in
    apply mbind_ok in H as (a & b & Ha & H); unfold mget in Ha; injection Ha as <- <-;
    apply mbind_ok in H as (c & d & Hc & H); unfold ret in H; injection H as <- <-;
    split; [cbn [c10_texp_ok]; exact (tmap_get_raw _ _ _ _ Hmap E)|];
    destruct (has_custom_translation mapped); [unfold mput in Hc; injection Hc as _ <-; apply tsmap_set_ok; [exact Hs|reflexivity]
                                              |unfold ret in Hc; injection Hc as _ <-; exact Hs]
  | ].

Lemma ts_texp_ok generics t : c10_rtype_ok t = true -> ts_post (fun x => c10_texp_ok c10_lex_ts x = true) (ts_texp cfg generics t).
Proof.
  induction t as [id | id ps IH | t IH | t n IH | t IH | k v IHk IHv | t IH | p] using rtype_ind';
    intros Hok s x s' H Hs; cbn [c10_rtype_ok] in Hok; cbn [ts_texp] in H.
  - unfold ret in H. injection H as <- <-. split; [|exact Hs].
    destruct (tmap_get (ts_type_mappings cfg) id) eqn:E; cbn [c10_texp_ok].
    + exact (tmap_get_raw _ _ _ _ Hmap E).
    + rewrite (ident_tok _ Hok). reflexivity.
  - apply andb_true_iff in Hok as [Hid Hps].
    destruct (tmap_get (ts_type_mappings cfg) id) eqn:E.
    + unfold ret in H. injection H as <- <-. split; [exact (tmap_get_raw _ _ _ _ Hmap E)|exact Hs].
    + apply mbind_ok in H as (parts & s1 & Hgo & H). unfold ret in H. injection H as <- <-.
      cbn [c10_texp_ok]. rewrite (ident_tok _ Hid). cbn [andb].
      clear E. revert s parts s1 Hgo Hs. induction IH as [|a l Ha Hl IHl]; intros s parts s1 Hgo Hs.
      * unfold ret in Hgo. injection Hgo as <- <-. auto.
      * cbn [forallb] in Hps. apply andb_true_iff in Hps as [Hpa Hpl].
        apply mbind_ok in Hgo as (y & s2 & Hy & Hgo). apply mbind_ok in Hgo as (ys & s3 & Hys & Hgo). unfold ret in Hgo. injection Hgo as <- <-.
        destruct (Ha Hpa _ _ _ Hy Hs) as [Py Hs2]. destruct (IHl Hpl _ _ _ Hys Hs2) as [Pys Hs3].
        cbn [forallb]. rewrite Py, Pys. auto.
  - special_case H Hs. apply mbind_ok in H as (e & s1 & He & H). unfold ret in H. injection H as <- <-. exact (IH Hok _ _ _ He Hs).
  - special_case H Hs. apply mbind_ok in H as (e & s1 & He & H). unfold ret in H. injection H as <- <-.
    destruct (IH Hok _ _ _ He Hs) as [Pe Hs1]. split; [|exact Hs1]. cbn [c10_texp_ok]. apply forallb_repeat, Pe.
  - special_case H Hs. apply mbind_ok in H as (e & s1 & He & H). unfold ret in H. injection H as <- <-. exact (IH Hok _ _ _ He Hs).
  - apply andb_true_iff in Hok as [Hk Hv]. special_case H Hs.
    apply mbind_ok in H as (ks & s1 & Hks & H). apply mbind_ok in H as (vs & s2 & Hvs & H). unfold ret in H. injection H as <- <-.
    assert (Hk' : ts_texp cfg generics k s = Ok (ks, s1)).
    { destruct k; try exact Hks. destruct (mem_str id generics); [discriminate|exact Hks]. }
    destruct (IHk Hk _ _ _ Hk' Hs) as [Pk Hs1]. destruct (IHv Hv _ _ _ Hvs Hs1) as [Pv Hs2].
    cbn [c10_texp_ok]. rewrite Pk, Pv. auto.
  - special_case H Hs. exact (IH Hok _ _ _ H Hs).
  - special_case H Hs. destruct p; try discriminate; unfold ret in H; injection H as <- <-; split; try exact Hs; reflexivity.
Qed.

Lemma ts_member_ok generics f : c10_field_ok CTS f = true -> ts_post (fun m => c10_ts_member_ok m = true) (ts_member_of cfg generics f).
Proof.
  intros Hf s m s' H Hs. unfold ts_member_of in H.
  apply mbind_ok in H as (ty & s1 & Hty & H). apply mbind_ok in H as (st & s2 & Hget & H). unfold mget in Hget. injection Hget as <- <-.
  apply mbind_ok in H as (u & s3 & Hput & H). unfold ret in H. injection H as <- <-.
  pose proof Hf as Hf0. unfold c10_field_ok in Hf. rewrite !andb_true_iff in Hf. destruct Hf as [[[Hid Hrt] Hdocs] _].
  unfold c10_member_id_ok in Hid. apply andb_true_iff in Hid as [_ Hren].
  assert (Pty : c10_texp_ok c10_lex_ts ty = true /\ c10_ts_state_ok s1 = true).
  { destruct (type_override f TypeScript) as [o|] eqn:Eo.
    - unfold ret in Hty. injection Hty as <- <-. split; [|exact Hs]. exact (type_override_raw CTS f o Hf0 Eo).
    - exact (ts_texp_ok generics (fty f) Hrt _ _ _ Hty Hs). }
  destruct Pty as [Pty Hs1]. split.
  - unfold c10_ts_member_ok. cbn [tm_docs tm_key tm_type]. rewrite Hdocs, (key_tok _ Hren), Pty. reflexivity.
  - destruct (has_custom_translation (ts_show ty)).
    + unfold mput in Hput. injection Hput as _ <-. apply tsmap_set_ok; [exact Hs1|].
      apply sset_insert_ok; [exact (key_instr _ Hren)|].
      destruct (tsmap_get s1 (ts_show ty)) eqn:E; [exact (tsmap_get_ok _ _ _ Hs1 E)|reflexivity].
    + unfold ret in Hput. injection Hput as _ <-. exact Hs1.
Qed.

Lemma ts_members_ok generics fs : forallb (c10_field_ok CTS) fs = true ->
  ts_post (fun ms => forallb c10_ts_member_ok ms = true) (mmapM (ts_member_of cfg generics) fs).
Proof.
  intros Hfs s ms s' H Hs.
  destruct (ts_post_mmapM (ts_member_of cfg generics) (fun f => c10_field_ok CTS f = true) (fun m => c10_ts_member_ok m = true)
              (fun f Hf => ts_member_ok generics f Hf) fs (forallb_Forall _ _ Hfs) s ms s' H Hs) as [P Hs'].
  split; [apply Forall_forallb, P|exact Hs'].
Qed.

Lemma ts_variant_ok generics b v : c10_variant_ok CTS v = true ->
  ts_post (fun tv => c10_ts_variant_ok tv = true) (ts_variant_of cfg generics b v).
Proof.
  intros Hv s tv s' H Hs. unfold c10_variant_ok in Hv. rewrite !andb_true_iff in Hv. destruct Hv as [[_ Hdocs] Hp].
  destruct v as [vsh | t vsh | fs vsh]; cbn [ts_variant_of variant_shared] in *.
  - unfold ret in H. injection H as <- <-. split; [exact Hdocs|exact Hs].
  - apply mbind_ok in H as (ty & s1 & Hty & H). unfold ret in H. injection H as <- <-.
    destruct (ts_texp_ok generics t Hp _ _ _ Hty Hs) as [Pty Hs1]. split; [|exact Hs1]. cbn [c10_ts_variant_ok]. rewrite Hdocs, Pty. reflexivity.
  - apply mbind_ok in H as (ms & s1 & Hms & H). unfold ret in H. injection H as <- <-.
    destruct (ts_members_ok generics fs Hp _ _ _ Hms Hs) as [Pms Hs1]. split; [|exact Hs1]. cbn [c10_ts_variant_ok]. rewrite Hdocs, Pms. reflexivity.
Qed.

Definition unit_variant_ok (v : list str * str * str) : Prop :=
  (let '(vdocs, case, _) := v in forallb c10_doc_ok vdocs && c10_tok_ok case) = true.

Lemma ts_unit_variant_ok v : c10_variant_ok CTS v = true ->
  ts_post unit_variant_ok (match v with
                           | VUnit vsh => ret (vcomments vsh, original (vid vsh), renamed (vid vsh))
                           | _ => mpanic "typescript.rs:276"
                           end).
Proof.
  intros Hv s y s' Hy Hs. destruct v as [vsh | t vsh | fs vsh]; try discriminate.
  unfold ret in Hy. injection Hy as <- <-. split; [|exact Hs].
  unfold c10_variant_ok, c10_member_id_ok in Hv. cbn [variant_shared] in Hv. rewrite !andb_true_iff in Hv.
  destruct Hv as [[[Ho _] Hdd] _]. unfold unit_variant_ok. rewrite Hdd, (ident_tok _ Ho). reflexivity.
Qed.

Lemma generics_tok gs : forallb c10_ident_ok gs = true -> forallb c10_tok_ok gs = true.
Proof. apply forallb_impl. apply ident_tok. Qed.

Lemma ts_decl_of_ok it : c10_item_ok CTS it = true -> ts_post (fun d => c10_ts_decl_ok d = true) (ts_decl_of uc cfg it).
Proof.
  intros Hit s d s' H Hs. destruct it as [rs | e | a | c]; cbn [c10_item_ok ts_decl_of] in *.
  - rewrite !andb_true_iff in Hit. destruct Hit as [[[[Hid Hg] Hf] Hd] _].
    unfold c10_type_id_ok in Hid. apply andb_true_iff in Hid as [_ Hren].
    apply mbind_ok in H as (ms & s1 & Hms & H). unfold ret in H. injection H as <- <-.
    destruct (ts_members_ok _ _ Hf _ _ _ Hms Hs) as [Pms Hs1]. split; [|exact Hs1].
    cbn [c10_ts_decl_ok]. rewrite Hd, (ident_tok _ Hren), Pms, (generics_tok _ Hg). reflexivity.
  - destruct e as [sh | tag content sh]; cbn [enum_shared] in Hit; rewrite !andb_true_iff in Hit.
    + destruct Hit as [[[[[Hid Hg] Hd] Hv] _] _]. unfold c10_type_id_ok in Hid. apply andb_true_iff in Hid as [_ Hren].
      apply mbind_ok in H as (vs & s1 & Hvs & H). unfold ret in H. injection H as <- <-.
      destruct (ts_post_mmapM _ (fun v => c10_variant_ok CTS v = true) unit_variant_ok ts_unit_variant_ok
                  (evariants sh) (forallb_Forall _ _ Hv) s vs s1 Hvs Hs) as [P Hs1].
      split; [|exact Hs1]. cbn [c10_ts_decl_ok]. rewrite Hd, (ident_tok _ Hren), (generics_tok _ Hg). cbn [andb].
      apply Forall_forallb. exact P.
    + destruct Hit as [[[[[Hid Hg] Hd] Hv] _] [Htag Hcon]]. unfold c10_type_id_ok in Hid. apply andb_true_iff in Hid as [_ Hren].
      apply mbind_ok in H as (vs & s1 & Hvs & H). unfold ret in H. injection H as <- <-.
      destruct (ts_post_mmapM _ (fun v => c10_variant_ok CTS v = true) (fun tv => c10_ts_variant_ok tv = true)
                  (fun v Hv' => ts_variant_ok (egenerics sh) false v Hv') (evariants sh) (forallb_Forall _ _ Hv) s vs s1 Hvs Hs) as [P Hs1].
      split; [|exact Hs1]. cbn [c10_ts_decl_ok].
      rewrite Hd, (ident_tok _ Hren), (key_tok _ Htag), (key_tok _ Hcon), (Forall_forallb _ _ P), (generics_tok _ Hg). reflexivity.
  - rewrite !andb_true_iff in Hit. destruct Hit as [[[[Hid Hg] Ht] Hd] _].
    unfold c10_type_id_ok in Hid. apply andb_true_iff in Hid as [_ Hren].
    apply mbind_ok in H as (ty & s1 & Hty & H). unfold ret in H. injection H as <- <-.
    destruct (ts_texp_ok _ _ Ht _ _ _ Hty Hs) as [Pty Hs1]. split; [|exact Hs1].
    cbn [c10_ts_decl_ok]. rewrite Hd, (ident_tok _ Hren), Pty, (generics_tok _ Hg). reflexivity.
  - rewrite !andb_true_iff in Hit. destruct Hit as [Hid Ht].
    unfold c10_type_id_ok in Hid. apply andb_true_iff in Hid as [_ Hren].
    apply mbind_ok in H as (ty & s1 & Hty & H). unfold ret in H. injection H as <- <-.
    destruct (ts_texp_ok _ _ Ht _ _ _ Hty Hs) as [Pty Hs1]. split; [|exact Hs1].
    cbn [c10_ts_decl_ok]. rewrite Pty, dec_of_Z_tok. rewrite !andb_true_r.
    apply ident_chars_tok, (to_uppercase_ident uc Huc). unfold to_snake_case. apply snake_go_ident, ident_ok_chars, Hren.
Qed.

(* ------------------------------------------------------------------ the file: header, body, trailer *)
Lemma ts_begin_file_bal : bal c10_lex_ts (ts_begin_file cfg).
Proof.
  unfold ts_begin_file. destruct (ts_no_version_header cfg); [apply tr_nil|].
  pose proof Hcfg as Hc. unfold c10_ts_cfg_ok in Hc. apply andb_true_iff in Hc as [_ Hv].
  pose proof (ts_doc_nl _ Hv) as Hn. intros st. rewrite (app_assoc (ts_version cfg) nl). set (V := ts_version cfg ++ nl) in *.
  walk. reflexivity.
Qed.

Lemma uint8_reviver_bal : bal c10_lex_ts uint8_reviver. Proof. apply balanced_bal. vm_compute. reflexivity. Qed.
Lemma uint8_replacer_bal : bal c10_lex_ts uint8_replacer. Proof. apply balanced_bal. vm_compute. reflexivity. Qed.
Lemma date_replacer_bal : bal c10_lex_ts date_replacer. Proof. apply balanced_bal. vm_compute. reflexivity. Qed.

Lemma date_reviver_bal st : c10_ts_state_ok st = true -> bal c10_lex_ts (date_reviver st).
Proof.
  intros Hst. unfold date_reviver.
  assert (Hid : tr c10_lex_ts C10LCode (match tsmap_get st DATE with
                  | Some [] | None => []
                  | Some ids => lit " && (" ++ join (lit " || ") (map (fun i => lit "key === """ ++ i ++ lit """") ids) ++ lit ")"
                  end) C10LCode).
  { destruct (tsmap_get st DATE) as [ids|] eqn:E; [|apply tr_nil]. pose proof (tsmap_get_ok _ _ _ Hst E) as Hids.
    destruct ids as [|i0 r]; [apply tr_nil|].
    assert (Hj : bal c10_lex_ts (join (lit " || ") (map (fun i => lit "key === """ ++ i ++ lit """") (i0 :: r)))).
    { apply tr_join_map; [intros st0; reflexivity|]. apply Forall_forall. intros i Hi.
      rewrite forallb_forall in Hids. pose proof (instr_stay c10_lex_ts i (Hids i Hi)) as Hs. intros st0. walk. reflexivity. }
    intros st0. set (J := join _ _) in *. walk. reflexivity. }
  intros st0. set (ID := match tsmap_get st DATE with Some _ => _ | None => _ end) in *. walk. reflexivity.
Qed.

Lemma ts_end_file_bal st : c10_ts_state_ok st = true -> bal c10_lex_ts (ts_end_file st).
Proof.
  intros Hst. unfold ts_end_file. destruct st as [|kv0 st0]; [apply tr_nil|]. set (st := kv0 :: st0) in *.
  set (contents := flat_map _ st).
  assert (Hc : Forall (fun c : str * str => bal c10_lex_ts (fst c) /\ bal c10_lex_ts (snd c)) contents).
  { unfold contents. generalize st at 2. intros l. induction l as [|kv l IH]; cbn [flat_map]; [constructor|].
    apply Forall_app. split; [|exact IH]. unfold custom_translations.
    destruct (str_eqb (fst kv) UINT8ARRAY); [constructor; [split; [apply uint8_reviver_bal|apply uint8_replacer_bal]|constructor]|].
    destruct (str_eqb (fst kv) DATE); [|constructor].
    constructor; [split; [apply date_reviver_bal, Hst|apply date_replacer_bal]|constructor]. }
  assert (H1 : bal c10_lex_ts (join (nl ++ lit "    ") (map fst contents))).
  { apply tr_join_map; [intros s; reflexivity|]. revert Hc. apply Forall_impl. intros c [H _]. exact H. }
  assert (H2 : bal c10_lex_ts (join (nl ++ lit "    ") (map snd contents))).
  { apply tr_join_map; [intros s; reflexivity|]. revert Hc. apply Forall_impl. intros c [_ H]. exact H. }
  intros s. set (J1 := join _ (map fst contents)) in *. set (J2 := join _ (map snd contents)) in *. walk. reflexivity.
Qed.

Theorem ts_generate_balanced pd text : dom_C10 CTS pd = true -> ts_generate uc cfg pd = Ok text -> c10_balanced c10_lex_ts text = true.
Proof.
  intros Hdom H. unfold ts_generate in H.
  destruct (topsort (items_of pd)) as [items| |] eqn:Et; cbn [bind] in H; try discriminate.
  destruct (mconcat (ts_write_item uc cfg) items []) as [[body st]| |] eqn:Em; try discriminate. injection H as <-.
  assert (Hitems : Forall (fun it => c10_item_ok CTS it = true) items).
  { apply forallb_Forall in Hdom. fold (items_of pd) in Hdom.
    eapply Permutation_Forall; [apply Permutation_sym, (topsort_ok_perm _ _ Et)|exact Hdom]. }
  unfold mconcat in Em. apply mbind_ok in Em as (parts & s1 & Hp & Em). unfold ret in Em. injection Em as <- <-.
  assert (Hstep : forall it, c10_item_ok CTS it = true -> ts_post (fun t => bal c10_lex_ts t) (ts_write_item uc cfg it)).
  { intros it Hit s y s' Hy Hs. unfold ts_write_item in Hy. apply mbind_ok in Hy as (d & s2 & Hd & Hy).
    unfold ret in Hy. injection Hy as <- <-. destruct (ts_decl_of_ok it Hit _ _ _ Hd Hs) as [Pd Hs2].
    split; [apply ts_render_decl_bal, Pd|exact Hs2]. }
  destruct (ts_post_mmapM (ts_write_item uc cfg) _ _ Hstep items Hitems [] parts s1 Hp eq_refl) as [Pparts Hs1].
  apply bal_balanced. eapply tr_app; [apply ts_begin_file_bal|]. eapply tr_app; [apply tr_concat, Pparts|apply ts_end_file_bal, Hs1].
Qed.
End TSDecide.
