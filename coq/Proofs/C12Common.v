(* C12: lemmas shared by the per-language proofs - the state-passing monad under a preorder on
   states ("flags only ever get set, accumulators only ever grow"), the inner argument loop of the
   format_type translations, topsort's output as a permutation of its input. *)
From Coq Require Import List Bool Permutation.
From TS Require Import Model.Str Model.Outcome Model.Types Model.Parse Model.TopsortAlgo Model.Topsort
                       Model.Lang.Common Model.Lang.Decl Spec.C12Spec.
From TS Require Import Proofs.BackCommon Proofs.C11 Proofs.C13.
Import ListNotations.

(* ---- strings ---- *)
Lemma c12_mem_str_In x l : mem_str x l = true <-> In x l.
Proof. exact (mem_str_In x l). Qed.

Lemma c12_mem_str_false x l : mem_str x l = false <-> ~ In x l.
Proof.
  split.
  - intros H Hin. apply c12_mem_str_In in Hin. congruence.
  - intros H. destruct (mem_str x l) eqn:E; [|reflexivity]. apply c12_mem_str_In in E. contradiction.
Qed.

Lemma c12_good_spec uses defs : c12_good uses defs = true <-> (forall u, In u uses -> In u defs).
Proof.
  unfold c12_good. rewrite forallb_forall. split; intros H u Hu.
  - apply c12_mem_str_In. auto.
  - apply c12_mem_str_In. auto.
Qed.

Lemma c12_vnames_In vocab t u : In u (c12_vnames vocab t) <-> In u (texp_names t) /\ In u vocab.
Proof. unfold c12_vnames. rewrite filter_In, c12_mem_str_In. reflexivity. Qed.

(* ---- outcome ---- *)
Lemma c12_bind_ok {A B} (m : outcome A) (f : A -> outcome B) r :
  bind m f = Ok r -> exists a, m = Ok a /\ f a = Ok r.
Proof. destruct m; cbn [bind]; try discriminate. eauto. Qed.

Lemma c12_mapM_In {A B} (f : A -> outcome B) l r :
  mapM f l = Ok r -> forall y, In y r -> exists x, In x l /\ f x = Ok y.
Proof.
  revert r. induction l as [|x l IH]; intros r; cbn [mapM].
  - intros [= <-] y [].
  - intros H. apply c12_bind_ok in H as (y0 & E0 & H). apply c12_bind_ok in H as (ys & Es & H).
    injection H as <-. intros y [<-|Hy].
    + exists x. split; [now left|exact E0].
    + destruct (IH ys Es y Hy) as (x' & Hx' & E'). exists x'. split; [now right|exact E'].
Qed.

Lemma c12_mapM_all {A B} (f : A -> outcome B) l r :
  mapM f l = Ok r -> forall x, In x l -> exists y, In y r /\ f x = Ok y.
Proof.
  revert r. induction l as [|x l IH]; intros r; cbn [mapM].
  - intros _ x [].
  - intros H. apply c12_bind_ok in H as (y0 & E0 & H). apply c12_bind_ok in H as (ys & Es & H).
    injection H as <-. intros x' [<-|Hx].
    + exists y0. split; [now left|exact E0].
    + destruct (IH ys Es x' Hx) as (y & Hy & E'). exists y. split; [now right|exact E'].
Qed.

(* ---- the state monad under a preorder ---- *)
Section Mono.
Context {St : Type} (le : St -> St -> Prop).
Hypothesis le_refl : forall s, le s s.
Hypothesis le_trans : forall a b c, le a b -> le b c -> le a c.

(* every element's computation only moves the state upwards and establishes Q of its result at
   the state it leaves; Q survives later upward moves: then Q holds of every result at the end *)
Lemma c12_mmapM_mono {A B} (f : A -> M St B) (Q : B -> St -> Prop) (l : list A) :
  (forall y s s', Q y s -> le s s' -> Q y s') ->
  Forall (fun x => forall s y s', f x s = Ok (y, s') -> le s s' /\ Q y s') l ->
  forall s ys s', mmapM f l s = Ok (ys, s') -> le s s' /\ Forall (fun y => Q y s') ys.
Proof.
  intros Hup. induction 1 as [|x l Hx Hl IH]; intros s ys s' H; cbn [mmapM] in H.
  - unfold ret in H. injection H as <- <-. split; [apply le_refl|constructor].
  - apply mbind_ok in H as (y & s1 & Ey & H). apply mbind_ok in H as (ys' & s2 & Es & H).
    unfold ret in H. injection H as <- <-.
    destruct (Hx _ _ _ Ey) as [L1 Q1]. destruct (IH _ _ _ Es) as [L2 Q2].
    split; [eapply le_trans; eauto|]. constructor; [eapply Hup; eauto|exact Q2].
Qed.

(* the same with a second fact R about every INPUT element (what running f on it leaves in the state) *)
Lemma c12_mmapM_mono2 {A B} (f : A -> M St B) (Q : B -> St -> Prop) (R : A -> St -> Prop) (l : list A) :
  (forall y s s', Q y s -> le s s' -> Q y s') ->
  (forall x s s', R x s -> le s s' -> R x s') ->
  Forall (fun x => forall s y s', f x s = Ok (y, s') -> le s s' /\ Q y s' /\ R x s') l ->
  forall s ys s', mmapM f l s = Ok (ys, s') ->
    le s s' /\ Forall (fun y => Q y s') ys /\ Forall (fun x => R x s') l.
Proof.
  intros Hq Hr. induction 1 as [|x l Hx Hl IH]; intros s ys s' H; cbn [mmapM] in H.
  - unfold ret in H. injection H as <- <-. split; [apply le_refl|split; constructor].
  - apply mbind_ok in H as (y & s1 & Ey & H). apply mbind_ok in H as (ys' & s2 & Es & H).
    unfold ret in H. injection H as <- <-.
    destruct (Hx _ _ _ Ey) as (L1 & Q1 & R1). destruct (IH _ _ _ Es) as (L2 & Q2 & R2).
    split; [eapply le_trans; eauto|]. split; constructor; eauto.
Qed.

Lemma c12_mmapM_le {A B} (f : A -> M St B) (l : list A) :
  Forall (fun x => forall s y s', f x s = Ok (y, s') -> le s s') l ->
  forall s ys s', mmapM f l s = Ok (ys, s') -> le s s'.
Proof.
  intros H s ys s' E.
  apply (c12_mmapM_mono f (fun _ _ => True) l) in E; [tauto|auto|].
  eapply Forall_impl; [|exact H]. cbn. intros a Ha s0 y s0' E0. split; eauto.
Qed.
End Mono.

(* the argument loop inside every format_type model is mmapM *)
Lemma c12_go_is_mmapM {St A B} (f : A -> M St B) (l : list A) :
  (fix go (l : list A) : M St (list B) :=
     match l with
     | [] => ret []
     | x :: r => mbind (f x) (fun y => mbind (go r) (fun ys => ret (y :: ys)))
     end) l = mmapM f l.
Proof. induction l as [|x r IH]; cbn [mmapM]; [reflexivity|]. rewrite IH. reflexivity. Qed.

Lemma c12_go_is_mapM {A B} (f : A -> outcome B) (l : list A) :
  (fix go (l : list A) : outcome (list B) :=
     match l with
     | [] => Ok []
     | x :: r => bind (f x) (fun y => bind (go r) (fun ys => Ok (y :: ys)))
     end) l = mapM f l.
Proof. induction l as [|x r IH]; cbn [mapM]; [reflexivity|]. rewrite IH. reflexivity. Qed.

(* ---- topsort ---- *)
Lemma c12_topsort_perm things out : topsort things = Ok out -> Permutation out things.
Proof.
  intros H. assert (H' := H). unfold topsort in H'.
  destruct (build_dag things) as [dag| |] eqn:E; cbn [bind] in H'; try discriminate.
  destruct (topsort_permutation things dag E) as (out' & Eo & P).
  rewrite H in Eo. injection Eo as <-. exact P.
Qed.

(* ---- identifiers of the program ---- *)
Lemma c12_ids_avoid_spec prefix vocab items :
  c12_ids_avoid prefix vocab items = true ->
  forall it, In it items ->
    (forall id, In id (c12_item_ids it) -> ~ In id vocab /\ ~ In (prefix ++ id) vocab) /\
    (forall g, In g (c12_item_generics it) -> ~ In g vocab /\ ~ In (prefix ++ g) vocab).
Proof.
  unfold c12_ids_avoid. rewrite forallb_forall. intros H it Hit.
  assert (K : forall id, In id (c12_item_ids it) \/ In id (c12_item_generics it) ->
                         ~ In id vocab /\ ~ In (prefix ++ id) vocab).
  { intros id Hid. specialize (H id). rewrite in_app_iff, !in_flat_map in H.
    assert (Hb : negb (mem_str id vocab) && negb (mem_str (prefix ++ id) vocab) = true).
    { apply H. destruct Hid; [left|right]; exists it; auto. }
    apply andb_true_iff in Hb as [B1 B2]. apply negb_true_iff in B1, B2.
    split; apply c12_mem_str_false; assumption. }
  split; intros id Hid; apply K; auto.
Qed.

Lemma c12_ids_avoid_perm prefix vocab a b :
  Permutation a b -> c12_ids_avoid prefix vocab b = true -> c12_ids_avoid prefix vocab a = true.
Proof.
  unfold c12_ids_avoid. rewrite !forallb_forall. intros P H id Hid. apply H.
  rewrite in_app_iff, !in_flat_map in *.
  destruct Hid as [(it & Hit & Hid)|(it & Hit & Hid)]; [left|right]; exists it; split; auto;
    eapply Permutation_in; eauto.
Qed.
