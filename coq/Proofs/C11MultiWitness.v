(* C11 multi-file: a concrete two-crate workspace evaluated inside Coq.
     alpha/src/lib.rs:  #[typeshare] type Ids = Vec<Item>;
                        #[typeshare] struct Item { kind: Kind }
                        #[typeshare] enum Kind { Big, Small }
     beta/src/lib.rs:   use alpha::Item;
                        #[typeshare] struct Holder { item: Item }
   generate_types hands topsort the items of crate alpha as aliases, structs, enums: Ids, Item, Kind - every item
   refers to the NEXT one, so this order is as far from topological as it can be; the multi-file generators must
   write Kind, Item, Ids.  A generator that did not sort in multi-file mode (ts_unsorted_multi below: the TypeScript
   multi-file generator with the call of topsort removed) writes a different alpha.ts. *)
From Coq Require Import List Bool String Permutation.
From TS Require Import Model.Str Model.Outcome Model.Unicode Model.Syntax Model.Attrs Model.Types Model.Parse
                       Model.Reconcile Model.Collect Model.TopsortAlgo Model.Topsort Model.Rename
                       Model.Lang.Common Model.Lang.TypeScript Model.Lang.Kotlin Model.Lang.Swift Model.Lang.Scala
                       Model.Lang.Go Model.Lang.Python Model.MultiFile.
From TS Require Model.Writer.
From TS Require Import Spec.C11Spec.
From TS Require Proofs.C02_Witness.
From TS Require Import Proofs.C14 Proofs.C14Front Proofs.C14Witness Proofs.C06MultiWitness Proofs.C11Multi.
Import ListNotations.
Local Open Scope string_scope.
Local Open Scope list_scope.
Local Notation concat := List.concat (only parsing).

Definition x_alias (name : str) (t : ty) : item := IType [w_ts] name [] t.
Definition x_unit_enum (name : str) (vs : list str) : item :=
  IEnum [w_ts] name [] (map (fun v => {| v_attrs := []; v_ident := v; v_fields := FUnit |}) vs).
Definition x_vec (n : str) : ty := TPath [] (lit "Vec") [Some (w_ty n)].

Definition ws_order : list ws_entry :=
  [w_entry (lit "alpha") (w_file
     [x_alias (lit "Ids") (x_vec (lit "Item"));
      w_struct [] (lit "Item") [w_fld (lit "kind") (w_ty (lit "Kind"))];
      x_unit_enum (lit "Kind") [lit "Big"; lit "Small"]]
     [[lit "typeshare"]; [lit "Vec"]; [lit "Item"]; [lit "Kind"]]);
   w_entry (lit "beta") (w_file
     [w_use (lit "alpha") (lit "Item"); w_struct [] (lit "Holder") [w_fld (lit "item") (w_ty (lit "Item"))]]
     [[lit "typeshare"]; [lit "Item"]])].

(* Rust names of a sequence of items *)
Definition x_names (its : list ritem) : list str := map (fun it => original (item_id it)) its.

(* one line of expected text *)
Definition ln (s : string) : str := lit s ++ nl.
Definition tln (s : string) : str := [ch_tab] ++ lit s ++ nl.

Definition x_ts_kind : str := ln "export enum Kind {" ++ tln "Big = ""Big""," ++ tln "Small = ""Small""," ++ ln "}" ++ nl.
Definition x_ts_item : str := ln "export interface Item {" ++ tln "kind: Kind;" ++ ln "}" ++ nl.
Definition x_ts_ids : str := ln "export type Ids = Item[];" ++ nl.
(* what the model writes: no header (no_version_header), the empty import block, then Kind, Item, Ids *)
Definition x_alpha_ts : str := nl ++ x_ts_kind ++ x_ts_item ++ x_ts_ids.
Definition x_beta_ts : str := ln "import { Item } from ""./alpha"";" ++ nl ++ ln "export interface Holder {" ++ tln "item: Item;" ++ ln "}" ++ nl.
(* the same definitions in generate_types order *)
Definition x_alpha_ts_unsorted : str := nl ++ x_ts_ids ++ x_ts_item ++ x_ts_kind.

(* the seeded change: ts_generate_multi (Model/MultiFile.v) without the sort *)
Definition ts_unsorted_multi (uc : unicode) (cfg : ts_config) (st0 : ts_state) (imports : scoped) (pd : parsed)
  : outcome (str * ts_state) :=
  match mconcat (ts_write_item uc cfg) (items_of pd) st0 with
  | Ok (body, st) => Ok (ts_begin_file cfg ++ ts_write_imports imports ++ body ++ ts_end_file st, st)
  | Err e => Err e
  | Panic p => Panic p
  end.

(* REGRESSION PIN.  Crate alpha's data is outside every finding class, its references are acyclic, its
   generate_types order Ids, Item, Kind is NOT topological; the model's multi-file TypeScript run writes
   alpha.ts with Kind, Item, Ids in this order (every definition after what it uses) and beta.ts with its import;
   the generator without the sort writes Ids, Item, Kind: a different file. *)
Example multi_ts_sort_regression :
  exists arrivals pd_alpha,
    parse_workspace uc_exec [] [] (fun l => l) ws_order = Ok arrivals /\
    crates_get (multi_crates idl arrivals) (lit "alpha") = Some pd_alpha /\
    x_names (items_of pd_alpha) = [lit "Ids"; lit "Item"; lit "Kind"] /\
    known_C11 (items_of pd_alpha) = None /\ acyclic (items_of pd_alpha) = true /\ topo_ok (items_of pd_alpha) = false /\
    generate_crates m_ts_gen [] (multi_plan TypeScript idl (multi_crates idl arrivals)) =
      ([(lit "alpha.ts", Writer.Generated x_alpha_ts); (lit "beta.ts", Writer.Generated x_beta_ts)], Ok []) /\
    ts_unsorted_multi uc_exec m_ts_cfg [] [] pd_alpha = Ok (x_alpha_ts_unsorted, []) /\
    x_alpha_ts_unsorted <> x_alpha_ts.
Proof.
  eexists. eexists. split; [vm_compute; reflexivity|]. split; [vm_compute; reflexivity|].
  split; [vm_compute; reflexivity|]. split; [vm_compute; reflexivity|]. split; [vm_compute; reflexivity|].
  split; [vm_compute; reflexivity|]. split; [vm_compute; reflexivity|]. split; [vm_compute; reflexivity|].
  vm_compute. discriminate.
Qed.

(* the generators in the shape generate_crates takes, on small fixed configurations *)
Definition x_wrap {A} (st : unit) (r : outcome A) : outcome (A * unit) :=
  match r with Ok t => Ok (t, st) | Err e => Err e | Panic s => Panic s end.
Definition x_kt_gen (st : unit) (c : str) (im : scoped) (pd : parsed) := x_wrap st (kt_generate_multi uc_exec C02_Witness.c02_w_kt_cfg c im pd).
Definition x_sw_gen (st : sw_state) (_ : str) (_ : scoped) (pd : parsed) := sw_generate_multi uc_exec C02_Witness.c02_w_sw_cfg st pd.
Definition x_go_gen (st : go_state) (_ : str) (_ : scoped) (pd : parsed) := go_generate_multi uc_exec (C02_Witness.c02_w_go_cfg []) st pd.
Definition x_py_gen (st : py_state) (_ : str) (_ : scoped) (pd : parsed) := py_generate_multi uc_exec C02_Witness.c02_w_py_cfg st pd.
Definition x_sc_gen (st : unit) (_ : str) (_ : scoped) (pd : parsed) := x_wrap st (sc_generate uc_exec C02_Witness.c02_w_sc_cfg pd).

Definition x_ok {St} (r : list (str * Writer.gen_result) * outcome St) : list str * bool :=
  (map fst (filter (fun f => match snd f with Writer.Generated _ => true | _ => false end) (fst r)),
   match snd r with Ok _ => true | _ => false end).

(* what topsort makes of each crate of a plan *)
Definition x_sorted_names (plan : list out_plan) : list (option (list str)) :=
  map (fun p => match topsort (items_of (op_data p)) with Ok out => Some (x_names out) | _ => None end) plan.

(* NON-VACUITY of the workspace theorem and of the per-generator theorems: on ws_order the multi-file front end and
   the single-file front end succeed; the plan has the two crates; every one of the six multi-file generators
   completes the run with both files generated; topsort turns alpha's items into Kind, Item, Ids; the single-file
   run has the same four definitions. *)
Example multi_workspace_nonvacuous :
  exists arrivals singles,
    parse_workspace uc_exec [] [] (fun l => l) ws_order = Ok arrivals /\
    parse_workspace_single uc_exec [] (crate_entries ws_order) = Ok singles /\
    oracle_ok (@idl imported) /\ oracle_ok (@idl (str * list str)) /\
    map op_crate (multi_plan TypeScript idl (multi_crates idl arrivals)) = [lit "alpha"; lit "beta"] /\
    x_sorted_names (multi_plan TypeScript idl (multi_crates idl arrivals)) =
      [Some [lit "Kind"; lit "Item"; lit "Ids"]; Some [lit "Holder"]] /\
    x_names (items_of (single_file_input singles)) = [lit "Ids"; lit "Holder"; lit "Item"; lit "Kind"] /\
    x_ok (generate_crates m_ts_gen [] (multi_plan TypeScript idl (multi_crates idl arrivals))) = ([lit "alpha.ts"; lit "beta.ts"], true) /\
    x_ok (generate_crates x_kt_gen tt (multi_plan Kotlin idl (multi_crates idl arrivals))) = ([lit "alpha.kt"; lit "beta.kt"], true) /\
    x_ok (generate_crates x_sw_gen false (multi_plan Swift idl (multi_crates idl arrivals))) = ([lit "Alpha.swift"; lit "Beta.swift"], true) /\
    x_ok (generate_crates x_go_gen [] (multi_plan Go idl (multi_crates idl arrivals))) = ([lit "alpha.go"; lit "beta.go"], true) /\
    x_ok (generate_crates x_py_gen py_empty_state (multi_plan Python idl (multi_crates idl arrivals))) = ([lit "alpha.py"; lit "beta.py"], true) /\
    x_ok (generate_crates x_sc_gen tt (multi_plan Scala idl (multi_crates idl arrivals))) = ([lit "alpha.scala"; lit "beta.scala"], true).
Proof.
  eexists. eexists. split; [vm_compute; reflexivity|]. split; [vm_compute; reflexivity|].
  split; [apply idl_ok|]. split; [apply idl_ok|].
  repeat (split; [vm_compute; reflexivity|]). vm_compute. reflexivity.
Qed.

(* Scala, which does not sort: alpha.scala holds the alias Ids (package object), then Item, then Kind (package) -
   generate_types order, although Ids uses Item and Item uses Kind *)
Definition x_sc_ids : str := ln "type Ids = Vector[Item]" ++ nl.
Definition x_sc_item : str := ln "case class Item (" ++ tln "kind: Kind" ++ ln ")" ++ nl.
Definition x_sc_kind : str :=
  ln "sealed trait Kind {" ++ tln "def serialName: String" ++ ln "}" ++ ln "object Kind {" ++
  tln "case object Big extends Kind {" ++ [ch_tab] ++ tln "val serialName: String = ""Big""" ++ tln "}" ++
  tln "case object Small extends Kind {" ++ [ch_tab] ++ tln "val serialName: String = ""Small""" ++ tln "}" ++ ln "}" ++ nl.
Example multi_scala_list_order :
  exists arrivals pd_alpha,
    parse_workspace uc_exec [] [] (fun l => l) ws_order = Ok arrivals /\
    crates_get (multi_crates idl arrivals) (lit "alpha") = Some pd_alpha /\
    x_names (sc_written_items pd_alpha) = [lit "Ids"; lit "Item"; lit "Kind"] /\
    sc_generate uc_exec C02_Witness.c02_w_sc_cfg pd_alpha =
      Ok (ln "package a" ++ nl ++ ln "package object p {" ++ nl ++ x_sc_ids ++ ln "}" ++
          ln "package p {" ++ nl ++ x_sc_item ++ x_sc_kind ++ ln "}").
Proof.
  eexists. eexists. split; [vm_compute; reflexivity|]. split; [vm_compute; reflexivity|].
  split; vm_compute; reflexivity.
Qed.
