(* C10, grammar half for Kotlin, part 2: the PARSER of Spec/C10KtGrammar.v is complete for a declarative token-level
   grammar, with the fuel it gives itself:
     - [Gr]: types (simpleUserType, userType, type, the tail of typeArguments) as an inductive family over token lists;
       [gr_complete]: the recursive-descent function [c10k_t] consumes exactly the tokens of a derivation, whatever follows
       (provided the follower is not one the greedy loops would eat: [<], [.], [?]);
     - token shapes of the other productions (typeParameters, valueArguments, identifier, modifiers, classParameters,
       delegation, enum entries, functions) and one lemma each: the function consumes exactly that shape;
     - [decl_alias], [decl_object], [decl_class], [decl_fun]: [c10k_decl_step] accepts each declaration form;
       [members_ok]: class bodies; [decls_ok]: sequences of declarations; [header_ok]: package header and imports. *)
From Coq Require Import List Bool Lia ZifyBool ZifyN NArith String.
From TS Require Import Model.Str Spec.C10TsGrammar Spec.C10KtGrammar.
Import ListNotations.
Local Open Scope N_scope.
Local Notation length := List.length (only parsing).

(* the first token is not the punctuation c *)
Definition nohead (c : char) (ts : list c10_tok) : Prop := match ts with t :: _ => c10_is_p c t = false | [] => True end.
Definition is_kp (t : c10_tok) : bool := match t with KP _ => true | _ => false end.

Lemma nohead_kp c d r : d <> c -> nohead c (KP d :: r).
Proof. intros H. cbn [nohead c10_is_p]. lia. Qed.
Lemma nohead_notkp c t r : is_kp t = false -> nohead c (t :: r).
Proof. destruct t; try discriminate; reflexivity. Qed.

(* ------------------------------------------------------------------ types: the grammar *)
Inductive ksort := SSimple | SUser | STy | SArgsTail.

Fixpoint quests (k : nat) : list c10_tok := match k with O => [] | S k => KP 63 :: quests k end.

Inductive Gr : ksort -> list c10_tok -> Prop :=
| G_s1 n : Gr SSimple [KIdent n]
| G_sapp n t args : Gr STy t -> Gr SArgsTail args -> Gr SSimple (KIdent n :: KP 60 :: t ++ args)
| G_at_end : Gr SArgsTail [KP 62]
| G_at_cons t args : Gr STy t -> Gr SArgsTail args -> Gr SArgsTail (KP 44 :: t ++ args)
| G_u1 s : Gr SSimple s -> Gr SUser s
| G_udot s u : Gr SSimple s -> Gr SUser u -> Gr SUser (s ++ KP 46 :: u)
| G_ty u k : Gr SUser u -> Gr STy (u ++ quests k).

(* the simpleUserType step of KUser, named *)
Definition c10k_simple (f : nat) (ts : list c10_tok) : option (list c10_tok) :=
  match ts with
  | KIdent _ :: r =>
    match r with
    | t :: r2 => if c10_is_p 60 t
                 then match c10k_t f KTy r2 with Some r3 => c10k_t f KArgsTail r3 | None => None end
                 else Some r
    | [] => Some r
    end
  | _ => None
  end.

Lemma user_unfold f ts : c10k_t (S f) KUser ts =
  match c10k_simple f ts with
  | Some (t :: r4) => if c10_is_p 46 t then c10k_t f KUser r4 else Some (t :: r4)
  | other => other
  end.
Proof.
  destruct ts as [|[n| | |c] [|t r]]; try reflexivity. cbn [c10k_t c10k_simple].
  destruct (c10_is_p 60 t); [|reflexivity]. destruct (c10k_t f KTy r) as [r3|]; [|reflexivity].
  destruct (c10k_t f KArgsTail r3) as [[|t4 r4]|]; reflexivity.
Qed.

(* followers the greedy loops of a type do not eat *)
Definition fol (rest : list c10_tok) : Prop := nohead 60 rest /\ nohead 46 rest /\ nohead 63 rest.
Lemma fol_kp c rest : c <> 60 -> c <> 46 -> c <> 63 -> fol (KP c :: rest).
Proof. intros. repeat split; apply nohead_kp; assumption. Qed.
Lemma fol_notkp t rest : is_kp t = false -> fol (t :: rest).
Proof. intros. repeat split; apply nohead_notkp; assumption. Qed.
Lemma fol_nil : fol [].
Proof. repeat split. Qed.

Lemma quests_ok k rest : nohead 63 rest -> c10k_quests (quests k ++ rest) = rest.
Proof.
  intros H. induction k as [|k IH]; cbn [quests app c10k_quests].
  - destruct rest as [|t r]; [reflexivity|]. cbn [nohead] in H. cbn [c10k_quests]. rewrite H. reflexivity.
  - change (c10_is_p 63 (KP 63)) with true. cbv beta iota. exact IH.
Qed.

Definition Head (s : ksort) (ts : list c10_tok) : Prop :=
  match s with
  | SArgsTail => exists r, ts = KP 62 :: r \/ ts = KP 44 :: r
  | _ => exists n r, ts = KIdent n :: r
  end.

Lemma gr_head s ts : Gr s ts -> Head s ts.
Proof.
  induction 1 as [n | n t args _ _ _ _ | | t args _ _ _ _ | s _ IH | s u _ IH _ _ | u k _ IH]; cbn [Head] in *.
  - eexists _, _. reflexivity.
  - eexists _, _. reflexivity.
  - exists []. left. reflexivity.
  - eexists. right. reflexivity.
  - exact IH.
  - destruct IH as (n & r & ->). eexists _, _. reflexivity.
  - destruct IH as (n & r & ->). eexists _, _. reflexivity.
Qed.

Definition Complete (s : ksort) (ts : list c10_tok) : Prop :=
  match s with
  | SSimple => forall rest f, nohead 60 rest -> (2 * List.length ts + 1 <= f)%nat -> c10k_simple f (ts ++ rest) = Some rest
  | SUser => forall rest f, nohead 60 rest -> nohead 46 rest -> (2 * List.length ts + 2 <= f)%nat -> c10k_t f KUser (ts ++ rest) = Some rest
  | STy => forall rest f, fol rest -> (2 * List.length ts + 3 <= f)%nat -> c10k_t f KTy (ts ++ rest) = Some rest
  | SArgsTail => forall rest f, (2 * List.length ts + 1 <= f)%nat -> c10k_t f KArgsTail (ts ++ rest) = Some rest
  end.

Theorem gr_complete s ts : Gr s ts -> Complete s ts.
Proof.
  induction 1 as [n | n t args Ht IHt Ha IHa | | t args Ht IHt Ha IHa | s Hs IH | s u Hs IHs Hu IHu | u k Hu IH]; cbn [Complete] in *.
  - (* ident *) intros rest f Hr _. cbn [app c10k_simple]. destruct rest as [|t r]; [reflexivity|]. cbn [nohead] in Hr. rewrite Hr. reflexivity.
  - (* ident<args> *) intros rest f _ Hf. cbn [app c10k_simple c10_is_p]. change (60 =? 60) with true. cbv beta iota.
    cbn [List.length] in Hf. rewrite app_length in Hf. rewrite <- app_assoc.
    destruct (gr_head _ _ Ha) as (r0 & Hr0).
    rewrite IHt; [apply IHa; lia| |lia].
    destruct Hr0 as [-> | ->]; apply fol_kp; lia.
  - (* > *) intros rest f Hf. destruct f as [|f]; [lia|]. reflexivity.
  - (* , type tail *) intros rest f Hf. cbn [List.length] in Hf. rewrite app_length in Hf.
    destruct f as [|f]; [lia|]. cbn [app c10k_t c10_is_p]. change (44 =? 62) with false. change (44 =? 44) with true. cbv beta iota.
    rewrite <- app_assoc. destruct (gr_head _ _ Ha) as (r0 & Hr0).
    assert (Hl : (1 <= List.length args)%nat) by (destruct Hr0 as [-> | ->]; cbn [List.length]; lia).
    rewrite IHt; [apply IHa; lia| |lia].
    destruct Hr0 as [-> | ->]; apply fol_kp; lia.
  - (* user = simple *) intros rest f H60 H46 Hf. destruct f as [|f]; [lia|]. rewrite user_unfold, IH; [|exact H60|lia].
    destruct rest as [|t r]; [reflexivity|]. cbn [nohead] in H46. rewrite H46. reflexivity.
  - (* simple . user *) intros rest f H60 H46 Hf. rewrite app_length in Hf. cbn [List.length] in Hf.
    destruct f as [|f]; [lia|]. rewrite <- app_assoc. cbn [app]. rewrite user_unfold, IHs; [|apply nohead_kp; lia|lia].
    change (c10_is_p 46 (KP 46)) with true. cbv beta iota. apply IHu; [exact H60|exact H46|].
    destruct (gr_head _ _ Hs) as (n & r & ->). cbn [List.length] in Hf. lia.
  - (* type *) intros rest f (H60 & H46 & H63) Hf. rewrite app_length in Hf. destruct f as [|f]; [lia|].
    cbn [c10k_t]. rewrite <- app_assoc. rewrite IH; [rewrite (quests_ok k rest H63); reflexivity| | |lia].
    + destruct k; [exact H60|apply nohead_kp; lia].
    + destruct k; [exact H46|apply nohead_kp; lia].
Qed.

(* the entry points *)
Lemma type_ok t rest : Gr STy t -> fol rest -> c10k_type (t ++ rest) = Some rest.
Proof. intros H Hr. unfold c10k_type. apply (gr_complete _ _ H rest); [exact Hr|]. rewrite app_length. lia. Qed.
Lemma user_ok u rest : Gr SUser u -> nohead 60 rest -> nohead 46 rest -> c10k_user (u ++ rest) = Some rest.
Proof. intros H H1 H2. unfold c10k_user. apply (gr_complete _ _ H rest); [exact H1|exact H2|]. rewrite app_length. lia. Qed.

(* closure properties used by the layout layer *)
Lemma gr_ty_user u : Gr SUser u -> Gr STy u.
Proof. intros H. rewrite <- (app_nil_r u). exact (G_ty u 0 H). Qed.
Lemma gr_ty_name n : Gr STy [KIdent n].
Proof. apply gr_ty_user, G_u1, G_s1. Qed.
Lemma quests_snoc k : quests k ++ [KP 63] = quests (S k).
Proof. induction k as [|k IH]; [reflexivity|]. cbn [quests app]. rewrite IH. reflexivity. Qed.
Lemma gr_ty_quest t : Gr STy t -> Gr STy (t ++ [KP 63]).
Proof. intros H. inversion H as [| | | | | |u k Hu]; subst. rewrite <- app_assoc, quests_snoc. apply G_ty, Hu. Qed.

(* type { ',' type } '>' *)
Fixpoint args_tail (ts : list (list c10_tok)) : list c10_tok :=
  match ts with [] => [KP 62] | t :: r => KP 44 :: t ++ args_tail r end.
Lemma gr_args_tail ts : Forall (Gr STy) ts -> Gr SArgsTail (args_tail ts).
Proof. induction 1 as [|t r Ht _ IH]; [apply G_at_end|]. cbn [args_tail]. apply G_at_cons; assumption. Qed.
(* n<t1, .., tk> *)
Lemma gr_ty_app n t ts : Gr STy t -> Forall (Gr STy) ts -> Gr STy (KIdent n :: KP 60 :: t ++ args_tail ts).
Proof. intros Ht Hts. apply gr_ty_user, G_u1, G_sapp; [exact Ht|apply gr_args_tail, Hts]. Qed.

(* ------------------------------------------------------------------ one-token lists: typeParameters, valueArguments *)
Fixpoint sep_toks (items : list c10_tok) (closer : char) : list c10_tok :=
  match items with
  | [] => []
  | [t] => [t; KP closer]
  | t :: r => t :: KP 44 :: sep_toks r closer
  end.

Lemma seplist_ok p closer items : items <> [] -> closer <> 44 -> Forall (fun t => p t = true /\ is_kp t = false) items ->
  forall rest, c10k_seplist p closer (sep_toks items closer ++ rest) = Some rest.
Proof.
  intros Hne Hc H rest. induction H as [|t r [Hp Hk] Hr IH]; [congruence|]. destruct r as [|t2 r].
  - cbn [sep_toks app c10k_seplist c10_is_p]. rewrite Hp, N.eqb_refl. reflexivity.
  - change (sep_toks (t :: t2 :: r) closer) with (t :: KP 44 :: sep_toks (t2 :: r) closer). cbn [app c10k_seplist c10_is_p].
    rewrite Hp. replace (44 =? closer) with false by lia. change (44 =? 44) with true. cbv beta iota.
    specialize (IH ltac:(discriminate)).
    assert (E : exists r3, sep_toks (t2 :: r) closer ++ rest = t2 :: r3) by (destruct r; cbn [sep_toks app]; eauto).
    destruct E as (r3 & E). rewrite E in *. inversion Hr as [|x y [_ Hk2] _]; subst.
    replace (c10_is_p closer t2) with false by (destruct t2; try discriminate; reflexivity). exact IH.
Qed.

Definition gens_toks (gs : list str) : list c10_tok := match gs with [] => [] | _ => KP 60 :: sep_toks (map KIdent gs) 62 end.

Lemma tparams_ok gs rest : (gs = [] -> nohead 60 rest) -> c10k_tparams (gens_toks gs ++ rest) = Some rest.
Proof.
  intros H. destruct gs as [|g r].
  - cbn [gens_toks app]. specialize (H eq_refl). unfold c10k_tparams. destruct rest as [|t r]; [reflexivity|]. cbn [nohead] in H. rewrite H. reflexivity.
  - cbn [gens_toks app c10k_tparams c10_is_p]. change (60 =? 60) with true. cbv beta iota.
    apply seplist_ok; [discriminate|lia|]. apply Forall_map. apply Forall_forall. intros x _. split; reflexivity.
Qed.

(* valueArguments *)
Definition args_toks (l : list c10_tok) : list c10_tok := KP 40 :: match l with [] => [KP 41] | _ => sep_toks l 41 end.
Definition oargs_toks (o : option (list c10_tok)) : list c10_tok := match o with Some l => args_toks l | None => [] end.
Definition expr_tok (t : c10_tok) : Prop := c10k_is_expr t = true.

Lemma expr_notkp t : expr_tok t -> c10k_is_expr t = true /\ is_kp t = false.
Proof. unfold expr_tok. destruct t; try discriminate; split; reflexivity. Qed.

Lemma opt_args_ok o rest : match o with Some l => Forall expr_tok l | None => nohead 40 rest end ->
  c10k_opt_args (oargs_toks o ++ rest) = Some rest.
Proof.
  intros H. destruct o as [l|].
  - cbn [oargs_toks]. unfold args_toks. cbn [app c10k_opt_args c10_is_p]. change (40 =? 40) with true. cbv beta iota.
    destruct l as [|e r]; [cbn [app c10_is_p]; change (41 =? 41) with true; reflexivity|].
    assert (E : exists t2 r2, sep_toks (e :: r) 41 ++ rest = e :: t2 :: r2) by (destruct r; cbn [sep_toks app]; eauto).
    destruct E as (t2 & r2 & E). rewrite E.
    replace (c10_is_p 41 e) with false by (inversion H as [|x y Hx _]; subst; destruct e; try discriminate; reflexivity).
    rewrite <- E. apply seplist_ok; [discriminate|lia|]. revert H. apply Forall_impl. exact expr_notkp.
  - cbn [oargs_toks app]. unfold c10k_opt_args. destruct rest as [|t r]; [reflexivity|]. cbn [nohead] in H. rewrite H. reflexivity.
Qed.

(* identifier: a . b . c *)
Fixpoint qual_toks (l : list str) : list c10_tok :=
  match l with
  | [] => []
  | [a] => [KIdent a]
  | a :: r => KIdent a :: KP 46 :: qual_toks r
  end.

Lemma qual_ok l rest : l <> [] -> nohead 46 rest -> c10k_qual (qual_toks l ++ rest) = Some rest.
Proof.
  intros Hne Hr. induction l as [|a r IH]; [congruence|]. destruct r as [|b r].
  - cbn [qual_toks app c10k_qual]. destruct rest as [|t r]; [reflexivity|]. cbn [nohead] in Hr. rewrite Hr. reflexivity.
  - change (qual_toks (a :: b :: r)) with (KIdent a :: KP 46 :: qual_toks (b :: r)). cbn [app c10k_qual c10_is_p].
    change (46 =? 46) with true. cbv beta iota. apply IH. discriminate.
Qed.

Lemma qual_toks_head l : l <> [] -> exists a r, qual_toks l = KIdent a :: r.
Proof. destruct l as [|a [|b r]]; [congruence| |]; intros _; cbn [qual_toks]; eauto. Qed.

(* ------------------------------------------------------------------ modifiers *)
Inductive kmod := MAnnot (name : list str) (args : option (list c10_tok)) | MKw (s : str).
Definition mod_toks (m : kmod) : list c10_tok :=
  match m with
  | MAnnot name args => KP 64 :: qual_toks name ++ oargs_toks args
  | MKw s => [KIdent s]
  end.
Definition mods_toks (ms : list kmod) : list c10_tok := List.concat (map mod_toks ms).
Definition mod_wf (allow : c10_tok -> bool) (m : kmod) : Prop :=
  match m with
  | MAnnot name args => name <> [] /\ match args with Some l => Forall expr_tok l | None => True end
  | MKw s => allow (KIdent s) = true
  end.
Definition mods_enum (ms : list kmod) : bool :=
  existsb (fun m => match m with MKw s => str_eqb s (lit "enum") | _ => false end) ms.

(* what follows a run of modifiers: a keyword or a name that is not itself a modifier there *)
Lemma mods_head ms k rest : exists t r, mods_toks ms ++ KIdent k :: rest = t :: r /\ (t = KP 64 \/ exists k', t = KIdent k').
Proof.
  destruct ms as [|[name args|s] ms]; cbn [mods_toks map List.concat mod_toks app].
  - exists (KIdent k), rest. split; [reflexivity|right; eauto].
  - eexists _, _. split; [reflexivity|left; reflexivity].
  - eexists _, _. split; [reflexivity|right; eauto].
Qed.

Lemma mods_ok allow ms k rest : Forall (mod_wf allow) ms -> allow (KIdent k) = false ->
  forall en f, (List.length ms + 1 <= f)%nat ->
    c10k_mods f allow en (mods_toks ms ++ KIdent k :: rest) = Some (en || mods_enum ms, KIdent k :: rest).
Proof.
  intros H Hk. induction H as [|m ms Hm _ IH]; intros en f Hf; (destruct f as [|f]; [cbn [List.length] in Hf; lia|]).
  - cbn [mods_toks map List.concat app c10k_mods c10_is_p mods_enum existsb]. rewrite Hk, orb_false_r. reflexivity.
  - cbn [List.length] in Hf. unfold mods_toks. cbn [map List.concat]. fold (mods_toks ms). rewrite <- app_assoc.
    destruct (mods_head ms k rest) as (t & r & Et & Ht).
    destruct m as [name args|s]; cbn [mod_wf] in Hm.
    + destruct Hm as [Hn Ha]. cbn [mod_toks app c10k_mods c10_is_p]. change (64 =? 64) with true. cbv beta iota.
      rewrite <- app_assoc.
      assert (Hq : c10k_qual (qual_toks name ++ oargs_toks args ++ mods_toks ms ++ KIdent k :: rest) = Some (oargs_toks args ++ mods_toks ms ++ KIdent k :: rest)).
      { apply qual_ok; [exact Hn|]. destruct args as [l|]; [reflexivity|]. cbn [oargs_toks app]. rewrite Et.
        destruct Ht as [-> | (k' & ->)]; reflexivity. }
      rewrite Hq, opt_args_ok.
      * rewrite IH by lia. cbn [mods_enum existsb orb]. reflexivity.
      * destruct args as [l|]; [exact Ha|]. rewrite Et. destruct Ht as [-> | (k' & ->)]; reflexivity.
    + cbn [mod_toks app c10k_mods c10_is_p]. rewrite Hm. rewrite IH by lia. cbn [mods_enum existsb c10_is_kw].
      rewrite orb_assoc. reflexivity.
Qed.

Lemma mods_toks_len ms : (List.length ms <= List.length (mods_toks ms))%nat.
Proof.
  unfold mods_toks. induction ms as [|m ms IH]; cbn [map List.concat List.length]; [lia|]. rewrite app_length.
  destruct m; cbn [mod_toks List.length]; lia.
Qed.

Lemma mods_len_fuel ms x : (List.length ms + 1 <= S (List.length (mods_toks ms ++ x)))%nat.
Proof. rewrite app_length. pose proof (mods_toks_len ms). lia. Qed.

(* ------------------------------------------------------------------ class parameters *)
Definition kw (w : string) : c10_tok := KIdent (lit w).

(* [modifiers] val name : type [= expression] *)
Definition param_toks (ms : list kmod) (var : bool) (name : str) (ty : list c10_tok) (dflt : option c10_tok) : list c10_tok :=
  mods_toks ms ++ kw (if var then "var" else "val") :: KIdent name :: KP 58 :: ty ++ match dflt with Some e => [KP 61; e] | None => [] end.

Lemma param_ok ms var name ty dflt c rest :
  Forall (mod_wf c10k_is_mod) ms -> Gr STy ty -> match dflt with Some e => expr_tok e | None => True end -> c = 44 \/ c = 41 ->
  c10k_param (param_toks ms var name ty dflt ++ KP c :: rest) = Some (KP c :: rest).
Proof.
  intros Hms Hty Hd Hc. unfold c10k_param, param_toks, kw. rewrite <- app_assoc. cbn [app].
  rewrite (mods_ok c10k_is_mod ms) by (try exact Hms; try (destruct var; reflexivity); apply mods_len_fuel).
  cbv beta iota.
  replace (c10_is_kw "val" (KIdent (lit (if var then "var" else "val"))) || c10_is_kw "var" (KIdent (lit (if var then "var" else "val")))) with true by (destruct var; reflexivity).
  cbn [c10_is_p]. change (58 =? 58) with true. cbv beta iota. rewrite <- app_assoc.
  destruct dflt as [e|]; cbn [app].
  - rewrite (type_ok ty _ Hty) by (apply fol_kp; lia). cbn [c10_is_p]. change (61 =? 61) with true. cbv beta iota.
    unfold expr_tok in Hd. rewrite Hd. reflexivity.
  - rewrite (type_ok ty _ Hty) by (apply fol_kp; lia). cbn [c10_is_p]. replace (c =? 61) with false by lia. reflexivity.
Qed.

(* one classParameter: its tokens, and the recogniser consumes them before a comma or a closing parenthesis *)
Definition ParamToks (p : list c10_tok) : Prop :=
  (exists t r, p = t :: r /\ c10_is_p 41 t = false) /\
  forall c rest, c = 44 \/ c = 41 -> c10k_param (p ++ KP c :: rest) = Some (KP c :: rest).

Lemma param_toks_paramtoks ms var name ty dflt :
  Forall (mod_wf c10k_is_mod) ms -> Gr STy ty -> match dflt with Some e => expr_tok e | None => True end ->
  ParamToks (param_toks ms var name ty dflt).
Proof.
  intros Hms Hty Hd. split.
  - unfold param_toks. destruct (mods_head ms (lit (if var then "var" else "val")) (KIdent name :: KP 58 :: ty ++ match dflt with Some e => [KP 61; e] | None => [] end))
      as (t & r & Et & Ht). unfold kw. exists t, r. split; [exact Et|]. destruct Ht as [-> | (k' & ->)]; reflexivity.
  - intros c rest Hc. apply param_ok; assumption.
Qed.

(* after '(' : p , p , p ) *)
Fixpoint params_toks (ps : list (list c10_tok)) : list c10_tok :=
  match ps with
  | [] => [KP 41]
  | [p] => p ++ [KP 41]
  | p :: r => p ++ KP 44 :: params_toks r
  end.

Lemma params_ok ps : Forall ParamToks ps -> forall rest f, (List.length ps + 1 <= f)%nat ->
  c10k_params f (params_toks ps ++ rest) = Some rest.
Proof.
  induction 1 as [|p ps [(t0 & r0 & Ep & Hp0) Hp] Hps IH]; intros rest f Hf; (destruct f as [|f]; [cbn [List.length] in Hf; lia|]).
  - reflexivity.
  - cbn [List.length] in Hf. destruct ps as [|p2 ps].
    + cbn [params_toks]. rewrite <- app_assoc. cbn [app]. subst p. cbn [app c10k_params]. rewrite Hp0.
      change (t0 :: r0 ++ KP 41 :: rest) with ((t0 :: r0) ++ KP 41 :: rest). rewrite (Hp 41 rest (or_intror eq_refl)).
      cbn [c10_is_p]. change (41 =? 41) with true. reflexivity.
    + change (params_toks (p :: p2 :: ps)) with (p ++ KP 44 :: params_toks (p2 :: ps)). rewrite <- app_assoc. cbn [app].
      subst p. cbn [app c10k_params]. rewrite Hp0.
      change (t0 :: r0 ++ KP 44 :: params_toks (p2 :: ps) ++ rest) with ((t0 :: r0) ++ KP 44 :: params_toks (p2 :: ps) ++ rest).
      rewrite (Hp 44 _ (or_introl eq_refl)). cbn [c10_is_p]. change (44 =? 41) with false. change (44 =? 44) with true. cbv beta iota.
      apply IH. cbn [List.length] in *. lia.
Qed.

Lemma params_toks_len ps : Forall ParamToks ps -> (List.length ps + 1 <= List.length (params_toks ps))%nat.
Proof.
  induction 1 as [|p ps [(t0 & r0 & Ep & _) _] Hps IH]; [cbn; lia|]. destruct ps as [|p2 ps].
  - cbn [params_toks]. rewrite app_length. subst p. cbn [List.length]. lia.
  - change (params_toks (p :: p2 :: ps)) with (p ++ KP 44 :: params_toks (p2 :: ps)). rewrite app_length. subst p. cbn [List.length] in *. lia.
Qed.

(* [primaryConstructor] *)
Definition octor_toks (o : option (list (list c10_tok))) : list c10_tok :=
  match o with Some ps => KP 40 :: params_toks ps | None => [] end.

Lemma opt_ctor_ok o rest : match o with Some ps => Forall ParamToks ps | None => nohead 40 rest end ->
  c10k_opt_ctor (octor_toks o ++ rest) = Some rest.
Proof.
  intros H. destruct o as [ps|].
  - cbn [octor_toks app c10k_opt_ctor c10_is_p]. change (40 =? 40) with true. cbv beta iota.
    apply params_ok; [exact H|]. rewrite app_length. pose proof (params_toks_len ps H). lia.
  - cbn [octor_toks app]. unfold c10k_opt_ctor. destruct rest as [|t r]; [reflexivity|]. cbn [nohead] in H. rewrite H. reflexivity.
Qed.

(* [ ':' userType valueArguments ] *)
Definition odeleg_toks (o : option (list c10_tok * list c10_tok)) : list c10_tok :=
  match o with Some (u, l) => KP 58 :: u ++ args_toks l | None => [] end.

Lemma opt_deleg_ok o rest : match o with Some (u, l) => Gr SUser u /\ Forall expr_tok l | None => nohead 58 rest end ->
  c10k_opt_deleg (odeleg_toks o ++ rest) = Some rest.
Proof.
  intros H. destruct o as [[u l]|].
  - destruct H as [Hu Hl]. cbn [odeleg_toks app c10k_opt_deleg c10_is_p]. change (58 =? 58) with true. cbv beta iota.
    rewrite <- app_assoc. rewrite (user_ok u _ Hu) by reflexivity. exact (opt_args_ok (Some l) rest Hl).
  - cbn [odeleg_toks app]. unfold c10k_opt_deleg. destruct rest as [|t r]; [reflexivity|]. cbn [nohead] in H. rewrite H. reflexivity.
Qed.

(* ------------------------------------------------------------------ enum entries *)
(* { annotation } name valueArguments , *)
Definition entry_toks (ms : list kmod) (name : str) (l : list c10_tok) : list c10_tok :=
  mods_toks ms ++ KIdent name :: args_toks l ++ [KP 44].
Definition EntryToks (e : list c10_tok) : Prop :=
  exists ms name l, e = entry_toks ms name l /\ Forall (mod_wf c10k_no_mod) ms /\ Forall expr_tok l.

Lemma entries_ok es : Forall EntryToks es -> forall rest f, (List.length es + 1 <= f)%nat ->
  c10k_entries f (List.concat es ++ KP 125 :: rest) = Some rest.
Proof.
  induction 1 as [|e es (ms & name & l & -> & Hms & Hl) _ IH]; intros rest f Hf; (destruct f as [|f]; [cbn [List.length] in Hf; lia|]).
  - cbn [List.concat app c10k_entries c10_is_p]. change (125 =? 125) with true. reflexivity.
  - cbn [List.length] in Hf. cbn [List.concat]. unfold entry_toks. repeat (rewrite <- app_assoc; cbn [app]).
    destruct (mods_head ms name (args_toks l ++ KP 44 :: List.concat es ++ KP 125 :: rest)) as (t & r & Et & Ht).
    cbn [c10k_entries]. rewrite Et. replace (c10_is_p 125 t) with false by (destruct Ht as [-> | (k' & ->)]; reflexivity).
    rewrite <- Et. rewrite (mods_ok c10k_no_mod ms name) by (try exact Hms; try reflexivity; rewrite app_length; pose proof (mods_toks_len ms); lia).
    cbv beta iota. rewrite (opt_args_ok (Some l) _ Hl). cbn [c10_is_p]. change (44 =? 125) with false. change (44 =? 44) with true. cbv beta iota.
    apply IH. lia.
Qed.

(* ------------------------------------------------------------------ functions *)
Definition fun_toks (name : str) (ty : option (list c10_tok)) (e : c10_tok) : list c10_tok :=
  KIdent name :: KP 40 :: KP 41 :: match ty with Some t => KP 58 :: t | None => [] end ++ [KP 61; e].

Lemma fun_ok name ty e rest : match ty with Some t => Gr STy t | None => True end -> expr_tok e ->
  c10k_fun (fun_toks name ty e ++ rest) = Some rest.
Proof.
  intros Hty He. unfold expr_tok in He. unfold fun_toks. cbn [app c10k_fun c10_is_p]. change (40 =? 40) with true. change (41 =? 41) with true. cbv beta iota.
  destruct ty as [t|]; cbn [app c10_is_p].
  - change (58 =? 58) with true. cbv beta iota. rewrite <- app_assoc. cbn [app]. rewrite (type_ok t _ Hty) by (apply fol_kp; lia).
    cbn [c10_is_p]. change (61 =? 61) with true. rewrite He. reflexivity.
  - change (61 =? 58) with false. cbv beta iota. cbn [c10_is_p]. change (61 =? 61) with true. rewrite He. reflexivity.
Qed.

(* ------------------------------------------------------------------ declarations *)
(* what may follow a declaration: nothing, the next declaration (an annotation or a keyword), a closing brace *)
Definition dfol (rest : list c10_tok) : Prop :=
  match rest with [] => True | KP c :: _ => c = 64 \/ c = 125 | _ :: _ => True end.

Lemma dfol_nohead c rest : dfol rest -> c <> 64 -> c <> 125 -> nohead c rest.
Proof. destruct rest as [|[n| | |d] r]; try reflexivity. cbn [dfol nohead c10_is_p]. lia. Qed.
Lemma dfol_fol rest : dfol rest -> fol rest.
Proof. intros H. repeat split; apply dfol_nohead; try exact H; lia. Qed.

Section DeclStep.
Variable members : list c10_tok -> option (list c10_tok).

(* [modifiers] typealias name [typeParameters] = type *)
Lemma decl_alias ms name gs ty rest : Forall (mod_wf c10k_is_mod) ms -> Gr STy ty -> dfol rest ->
  c10k_decl_step members (mods_toks ms ++ kw "typealias" :: KIdent name :: gens_toks gs ++ KP 61 :: ty ++ rest) = Some rest.
Proof.
  intros Hms Hty Hr. unfold c10k_decl_step, kw. rewrite (mods_ok c10k_is_mod ms) by (try exact Hms; try reflexivity; apply mods_len_fuel).
  cbv beta iota. change (str_eqb (lit "typealias") (lit "typealias")) with true. cbv beta iota. cbn [c10_eat_ident].
  rewrite tparams_ok by (intros _; apply nohead_kp; lia). cbn [c10_eat c10_is_p]. change (61 =? 61) with true. cbv beta iota.
  apply type_ok; [exact Hty|apply dfol_fol, Hr].
Qed.

(* [modifiers] object name [: delegation] *)
Lemma decl_object ms name d rest : Forall (mod_wf c10k_is_mod) ms ->
  match d with Some (u, l) => Gr SUser u /\ Forall expr_tok l | None => True end -> dfol rest ->
  c10k_decl_step members (mods_toks ms ++ kw "object" :: KIdent name :: odeleg_toks d ++ rest) = Some rest.
Proof.
  intros Hms Hd Hr. unfold c10k_decl_step, kw. rewrite (mods_ok c10k_is_mod ms) by (try exact Hms; try reflexivity; apply mods_len_fuel).
  cbv beta iota. change (str_eqb (lit "object") (lit "typealias")) with false. change (str_eqb (lit "object") (lit "object")) with true.
  cbv beta iota. cbn [c10_eat_ident].
  rewrite opt_deleg_ok by (destruct d as [[u l]|]; [exact Hd|apply dfol_nohead; [exact Hr|lia|lia]]).
  unfold c10k_opt_body. destruct rest as [|t r]; [reflexivity|].
  replace (c10_is_p 123 t) with false; [reflexivity|]. symmetry. apply (dfol_nohead 123 (t :: r) Hr); lia.
Qed.

(* [modifiers] fun name () [: type] = expression *)
Lemma decl_fun ms name ty e rest : Forall (mod_wf c10k_is_mod) ms ->
  match ty with Some t => Gr STy t | None => True end -> expr_tok e ->
  c10k_decl_step members (mods_toks ms ++ kw "fun" :: fun_toks name ty e ++ rest) = Some rest.
Proof.
  intros Hms Hty He. unfold c10k_decl_step, kw. rewrite (mods_ok c10k_is_mod ms) by (try exact Hms; try reflexivity; apply mods_len_fuel).
  cbv beta iota. change (str_eqb (lit "fun") (lit "typealias")) with false. change (str_eqb (lit "fun") (lit "object")) with false.
  change (str_eqb (lit "fun") (lit "class")) with false. change (str_eqb (lit "fun") (lit "fun")) with true. cbv beta iota.
  apply fun_ok; assumption.
Qed.

(* the body of a class: nothing, enum entries (enum among the modifiers), or members *)
Inductive kbody := BNone | BEntries (es : list (list c10_tok)) | BMembers (b : list c10_tok).
Definition body_toks (b : kbody) : list c10_tok :=
  match b with BNone => [] | BEntries es => KP 123 :: List.concat es ++ [KP 125] | BMembers b => KP 123 :: b end.

(* [modifiers] class name [typeParameters] [primaryConstructor] [: delegation] [body] *)
Lemma decl_class ms name gs ctor d b rest : Forall (mod_wf c10k_is_mod) ms ->
  match ctor with Some ps => Forall ParamToks ps | None => True end ->
  match d with Some (u, l) => Gr SUser u /\ Forall expr_tok l | None => True end ->
  match b with
  | BNone => True
  | BEntries es => mods_enum ms = true /\ Forall EntryToks es
  | BMembers bt => mods_enum ms = false /\ members (bt ++ rest) = Some rest
  end ->
  (* an absent part must not be mistaken for a present one *)
  (gs = [] -> nohead 60 (octor_toks ctor ++ odeleg_toks d ++ body_toks b ++ rest)) ->
  (ctor = None -> nohead 40 (odeleg_toks d ++ body_toks b ++ rest)) ->
  (d = None -> nohead 58 (body_toks b ++ rest)) ->
  (b = BNone -> nohead 123 rest) ->
  c10k_decl_step members (mods_toks ms ++ kw "class" :: KIdent name :: gens_toks gs ++ octor_toks ctor ++ odeleg_toks d ++ body_toks b ++ rest) = Some rest.
Proof.
  intros Hms Hc Hd Hb N1 N2 N3 N4. unfold c10k_decl_step, kw. rewrite (mods_ok c10k_is_mod ms) by (try exact Hms; try reflexivity; apply mods_len_fuel).
  cbv beta iota. change (str_eqb (lit "class") (lit "typealias")) with false. change (str_eqb (lit "class") (lit "object")) with false.
  change (str_eqb (lit "class") (lit "class")) with true. cbv beta iota. cbn [c10_eat_ident orb].
  rewrite tparams_ok by exact N1.
  rewrite opt_ctor_ok by (destruct ctor; [exact Hc|apply N2; reflexivity]).
  rewrite opt_deleg_ok by (destruct d as [[u l]|]; [exact Hd|apply N3; reflexivity]).
  destruct b as [|es|bt]; cbn [body_toks app].
  - specialize (N4 eq_refl). destruct (mods_enum ms).
    + unfold c10k_opt_entries. destruct rest as [|t r]; [reflexivity|]. cbn [nohead] in N4. rewrite N4. reflexivity.
    + unfold c10k_opt_body. destruct rest as [|t r]; [reflexivity|]. cbn [nohead] in N4. rewrite N4. reflexivity.
  - destruct Hb as [-> Hes]. cbn [c10k_opt_entries c10_is_p]. change (123 =? 123) with true. cbv beta iota.
    rewrite <- app_assoc. cbn [app]. apply entries_ok; [exact Hes|]. rewrite app_length.
    assert (Hl : (List.length es <= List.length (List.concat es))%nat).
    { clear -Hes. induction Hes as [|e es (ms0 & n0 & l0 & -> & _ & _) _ IH]; cbn [List.concat List.length]; [lia|].
      rewrite app_length. unfold entry_toks. rewrite app_length. cbn [List.length]. lia. }
    lia.
  - destruct Hb as [-> Hm]. cbn [c10k_opt_body c10_is_p]. change (123 =? 123) with true. cbv beta iota. exact Hm.
Qed.
End DeclStep.

(* ------------------------------------------------------------------ class bodies, sequences of declarations *)
(* the tokens of one declaration: it starts with an annotation or a keyword, and the recogniser consumes exactly them *)
Definition DeclToks (td : list c10_tok) : Prop :=
  (exists t r, td = t :: r /\ (t = KP 64 \/ exists k, t = KIdent k)) /\
  forall rest f, dfol rest -> (List.length td + 2 <= f)%nat -> c10k_d f KDecl (td ++ rest) = Some rest.

Lemma decltoks_dfol td x : DeclToks td -> dfol (td ++ x).
Proof. intros [(t & r & -> & [-> | (k & ->)]) _]; cbn [app dfol]; auto. Qed.

Lemma members_ok ms : Forall DeclToks ms -> forall rest f, (List.length (List.concat ms) + 3 <= f)%nat ->
  c10k_d f KMembers (List.concat ms ++ KP 125 :: rest) = Some rest.
Proof.
  induction 1 as [|m ms Hm Hms IH]; intros rest f Hf; (destruct f as [|f]; [lia|]).
  - cbn [List.concat app c10k_d c10_is_p]. change (125 =? 125) with true. reflexivity.
  - cbn [List.concat] in *. rewrite app_length in Hf. rewrite <- app_assoc.
    pose proof Hm as [(t & r & Em & Ht) Hd]. cbn [c10k_d]. rewrite Em. cbn [app].
    replace (c10_is_p 125 t) with false by (destruct Ht as [-> | (k' & ->)]; reflexivity).
    change (t :: r ++ List.concat ms ++ KP 125 :: rest) with ((t :: r) ++ List.concat ms ++ KP 125 :: rest). rewrite <- Em.
    assert (Hl : (1 <= List.length m)%nat) by (rewrite Em; cbn [List.length]; lia).
    rewrite Hd; [apply IH; lia| |lia].
    destruct ms as [|m2 ms2]; [cbn [List.concat app dfol]; auto|]. cbn [List.concat]. rewrite <- app_assoc.
    inversion Hms; subst. apply decltoks_dfol. assumption.
Qed.

(* a list of member declarations and the closing brace, as the [members] argument of c10k_decl_step *)
Lemma members_arg ms rest f : Forall DeclToks ms -> (List.length (List.concat ms) + 3 <= f)%nat ->
  c10k_d f KMembers ((List.concat ms ++ [KP 125]) ++ rest) = Some rest.
Proof. intros H Hf. rewrite <- app_assoc. cbn [app]. apply members_ok; assumption. Qed.

Lemma decls_ok ds : Forall DeclToks ds -> forall f, (List.length (List.concat ds) < f)%nat ->
  c10k_decls f (List.concat ds) = Some (List.length ds).
Proof.
  induction 1 as [|d ds Hd Hds IH]; intros f Hf; (destruct f as [|f]; [lia|]); [reflexivity|].
  pose proof Hd as [(t & r & Ed & _) Hdd].
  cbn [List.concat c10k_decls List.length]. destruct (d ++ List.concat ds) as [|t0 r0] eqn:E.
  { rewrite Ed in E. discriminate. }
  rewrite <- E. unfold c10k_decl. rewrite Hdd.
  - rewrite IH; [reflexivity|]. cbn [List.concat] in Hf. rewrite app_length in Hf. rewrite Ed in Hf. cbn [List.length] in Hf. lia.
  - destruct ds as [|d2 ds2]; [exact I|]. cbn [List.concat]. inversion Hds; subst. apply decltoks_dfol. assumption.
  - rewrite app_length. lia.
Qed.

(* ------------------------------------------------------------------ the declaration forms as DeclToks *)
Lemma decltoks_alias ms name gs ty : Forall (mod_wf c10k_is_mod) ms -> Gr STy ty ->
  DeclToks (mods_toks ms ++ kw "typealias" :: KIdent name :: gens_toks gs ++ KP 61 :: ty).
Proof.
  intros Hms Hty. split; [apply mods_head|].
  intros rest f Hr Hf. destruct f as [|f]; [lia|]. cbn [c10k_d]. rewrite <- app_assoc. cbn [app]. rewrite <- app_assoc. cbn [app].
  apply decl_alias; assumption.
Qed.

Lemma decltoks_object ms name d : Forall (mod_wf c10k_is_mod) ms ->
  match d with Some (u, l) => Gr SUser u /\ Forall expr_tok l | None => True end ->
  DeclToks (mods_toks ms ++ kw "object" :: KIdent name :: odeleg_toks d).
Proof.
  intros Hms Hd. split; [apply mods_head|].
  intros rest f Hr Hf. destruct f as [|f]; [lia|]. cbn [c10k_d]. rewrite <- app_assoc. cbn [app].
  apply decl_object; assumption.
Qed.

Lemma decltoks_fun ms name ty e : Forall (mod_wf c10k_is_mod) ms ->
  match ty with Some t => Gr STy t | None => True end -> expr_tok e ->
  DeclToks (mods_toks ms ++ kw "fun" :: fun_toks name ty e).
Proof.
  intros Hms Hty He. split; [apply mods_head|].
  intros rest f Hr Hf. destruct f as [|f]; [lia|]. cbn [c10k_d]. rewrite <- app_assoc. cbn [app].
  apply decl_fun; assumption.
Qed.

(* the body of a class given by its member declarations *)
Inductive kbody2 := B2None | B2Entries (es : list (list c10_tok)) | B2Members (mts : list (list c10_tok)).
Definition body2 (b : kbody2) : kbody :=
  match b with B2None => BNone | B2Entries es => BEntries es | B2Members mts => BMembers (List.concat mts ++ [KP 125]) end.

Lemma decltoks_class ms name gs ctor d b : Forall (mod_wf c10k_is_mod) ms ->
  match ctor with Some ps => Forall ParamToks ps | None => True end ->
  match d with Some (u, l) => Gr SUser u /\ Forall expr_tok l | None => True end ->
  match b with
  | B2None => True
  | B2Entries es => mods_enum ms = true /\ Forall EntryToks es
  | B2Members mts => mods_enum ms = false /\ Forall DeclToks mts
  end ->
  DeclToks (mods_toks ms ++ kw "class" :: KIdent name :: gens_toks gs ++ octor_toks ctor ++ odeleg_toks d ++ body_toks (body2 b)).
Proof.
  intros Hms Hc Hd Hb. split; [apply mods_head|].
  intros rest f Hr Hf. destruct f as [|f]; [lia|]. cbn [c10k_d].
  rewrite <- app_assoc. cbn [app]. rewrite <- !app_assoc.
  assert (Nb : forall c, c <> 64 -> c <> 125 -> c <> 123 -> nohead c (body_toks (body2 b) ++ rest)).
  { intros c H1 H2 H3. destruct b; cbn [body2 body_toks app]; [apply dfol_nohead; assumption|apply nohead_kp; lia|apply nohead_kp; lia]. }
  assert (Nd : forall c, c <> 64 -> c <> 125 -> c <> 123 -> c <> 58 -> nohead c (odeleg_toks d ++ body_toks (body2 b) ++ rest)).
  { intros c H1 H2 H3 H4. destruct d as [[u l]|]; [apply nohead_kp; lia|apply Nb; assumption]. }
  apply decl_class; try assumption.
  - destruct b as [|es|mts]; cbn [body2]; [exact I|exact Hb|]. destruct Hb as [He Hm]. split; [exact He|].
    apply members_arg; [exact Hm|]. rewrite !app_length in Hf. cbn [List.length] in Hf. rewrite !app_length in Hf.
    cbn [body2 body_toks List.length] in Hf. rewrite app_length in Hf. cbn [List.length] in Hf. lia.
  - intros _. destruct ctor; [apply nohead_kp; lia|apply Nd; lia].
  - intros _. apply Nd; lia.
  - intros _. apply Nb; lia.
  - intros E. destruct b; try discriminate. apply dfol_nohead; [exact Hr|lia|lia].
Qed.

(* ------------------------------------------------------------------ package header and imports *)
Definition import_toks (i : list str) : list c10_tok := kw "import" :: qual_toks i.
Definition opackage_toks (p : option (list str)) : list c10_tok := match p with Some l => kw "package" :: qual_toks l | None => [] end.

(* what follows the header: nothing, an annotation, or a keyword that is neither import nor package *)
Definition hfol (rest : list c10_tok) : Prop :=
  match rest with
  | [] => True
  | KP c :: _ => c = 64
  | t :: _ => c10_is_kw "import" t = false /\ c10_is_kw "package" t = false
  end.

Lemma imports_ok is : Forall (fun i => i <> []) is -> forall rest f, hfol rest -> (List.length is <= f)%nat ->
  c10k_imports f (List.concat (map import_toks is) ++ rest) = Some rest.
Proof.
  induction 1 as [|i is Hi _ IH]; intros rest f Hr Hf.
  - cbn [map List.concat app]. destruct rest as [|t r]; [destruct f; reflexivity|].
    assert (Ht : c10_is_kw "import" t = false) by (destruct t as [n| | |c]; try reflexivity; cbn [hfol] in Hr; tauto).
    destruct f; cbn [c10k_imports]; rewrite Ht; reflexivity.
  - cbn [List.length] in Hf. destruct f as [|f]; [lia|]. cbn [map List.concat]. unfold import_toks at 1. rewrite <- app_assoc.
    cbn [app c10k_imports]. change (c10_is_kw "import" (kw "import")) with true. cbv beta iota.
    rewrite qual_ok; [apply IH; [exact Hr|lia]|exact Hi|].
    destruct is as [|i2 is2]; cbn [map List.concat app].
    + destruct rest as [|[n| | |c] r]; try reflexivity. cbn [hfol] in Hr. subst c. reflexivity.
    + reflexivity.
Qed.

Lemma imports_len is : (List.length is <= List.length (List.concat (map import_toks is)))%nat.
Proof. induction is as [|i is IH]; cbn [map List.concat List.length]; [lia|]. rewrite app_length. cbn [import_toks List.length]. lia. Qed.

Lemma header_ok p is rest : match p with Some l => l <> [] | None => True end -> Forall (fun i => i <> []) is -> hfol rest ->
  c10k_header (opackage_toks p ++ List.concat (map import_toks is) ++ rest) = Some rest.
Proof.
  intros Hp His Hr. unfold c10k_header.
  assert (Hn : forall x, hfol x -> nohead 46 x).
  { intros [|[n| | |c] r]; try reflexivity. cbn [hfol nohead c10_is_p]. lia. }
  assert (E : match opackage_toks p ++ List.concat (map import_toks is) ++ rest with
              | t :: r => if c10_is_kw "package" t then c10k_qual r else Some (opackage_toks p ++ List.concat (map import_toks is) ++ rest)
              | [] => Some (opackage_toks p ++ List.concat (map import_toks is) ++ rest)
              end = Some (List.concat (map import_toks is) ++ rest)).
  { destruct p as [l|]; cbn [opackage_toks app].
    - change (c10_is_kw "package" (kw "package")) with true. cbv beta iota. apply qual_ok; [exact Hp|].
      destruct is as [|i is2]; cbn [map List.concat app]; [apply Hn, Hr|reflexivity].
    - destruct is as [|i is2]; cbn [map List.concat app].
      + destruct rest as [|t r]; [reflexivity|].
        replace (c10_is_kw "package" t) with false; [reflexivity|]. destruct t as [n| | |c]; try reflexivity. cbn [hfol] in Hr. symmetry. tauto.
      + reflexivity. }
  rewrite E. apply imports_ok; [exact His|exact Hr|]. rewrite app_length. pose proof (imports_len is). lia.
Qed.
