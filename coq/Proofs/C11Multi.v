(* C11 in multi-file (folder output, `-d`) mode.  Every crate gets its own file, produced by the multi-file
   generators of Model/MultiFile.v.  Each of them (Scala excepted) sorts the crate's items with [topsort] and
   writes exactly the sorted sequence, one piece of text per item, the printer state threaded from one item to
   the next; the file is header ++ (imports) ++ the pieces in that order (++ footer).  Stated as an equivalence
   per generator: the generator succeeds with [text] IFF topsort succeeds with [out], the item writers succeed
   on [out] in this order with pieces [parts], and [text] is that file.  Together with Proofs/C11Link.v: [out] is
   a permutation of the crate's items and, outside known_C11 on acyclic references, topologically ordered.
   Then the whole workspace: generate_crates hands every crate exactly its own data. *)
From Coq Require Import List Bool Permutation String.
From TS Require Import Model.Str Model.Outcome Model.Unicode Model.Syntax Model.Types Model.Parse Model.Reconcile Model.Collect
                       Model.TopsortAlgo Model.Topsort
                       Model.Lang.Common Model.Lang.TypeScript Model.Lang.Kotlin Model.Lang.Swift Model.Lang.Scala
                       Model.Lang.Go Model.Lang.Python Model.MultiFile.
From TS Require Model.Writer.
From TS Require Import Spec.C11Spec Spec.C14Spec.
From TS Require Import Proofs.BackCommon Proofs.C11 Proofs.C11Link.
From TS Require Proofs.C14Main.
Import ListNotations.
Local Notation length := List.length (only parsing).
Local Notation concat := List.concat (only parsing).
Local Open Scope list_scope.

(* ---------------------------------------------------------------- vocabulary *)

(* [writes_seq f items st parts st']: the writer f is run on the items one after the other, in list order, the
   printer state threaded; item number i yields piece number i; every call succeeds.  One piece per item. *)
Inductive writes_seq {St A : Type} (f : A -> M St str) : list A -> St -> list str -> St -> Prop :=
| writes_nil : forall st, writes_seq f [] st [] st
| writes_cons : forall x r st p st1 ps st2,
    f x st = Ok (p, st1) -> writes_seq f r st1 ps st2 -> writes_seq f (x :: r) st (p :: ps) st2.

(* the stateless form (Kotlin, Scala): item number i yields piece number i *)
Definition writes_list {A : Type} (f : A -> outcome str) (items : list A) (parts : list str) : Prop :=
  Forall2 (fun x p => f x = Ok p) items parts.

(* [sorted_file pd out]: out is what topsort makes of the crate's items (aliases, structs, enums, consts in
   this order - generate_types), hence a permutation of them, and - outside the finding classes, when the
   references among them are acyclic - no item of out refers to a later one *)
Definition sorted_file (pd : parsed) (out : list ritem) : Prop :=
  topsort (items_of pd) = Ok out /\
  Permutation out (items_of pd) /\
  (known_C11 (items_of pd) = None -> acyclic (items_of pd) = true -> topo_ok out = true).

Lemma sorted_file_meaning pd out :
  sorted_file pd out <->
  topsort (items_of pd) = Ok out /\ Permutation out (items_of pd) /\
  (known_C11 (items_of pd) = None -> acyclic (items_of pd) = true -> topo_ok out = true).
Proof. reflexivity. Qed.

(* ---------------------------------------------------------------- generic lemmas *)

Lemma writes_seq_length {St A} (f : A -> M St str) l st ps st' : writes_seq f l st ps st' -> length ps = length l.
Proof. induction 1; cbn; auto. Qed.

Lemma mmapM_writes_seq {St A} (f : A -> M St str) l : forall st ps st',
  mmapM f l st = Ok (ps, st') <-> writes_seq f l st ps st'.
Proof.
  induction l as [|x l IH]; intros st ps st'; cbn [mmapM].
  - unfold ret. split.
    + intros [= <- <-]. constructor.
    + intros H. inversion H; subst. reflexivity.
  - unfold mbind, ret. split.
    + destruct (f x st) as [[p s1]| |] eqn:Ex; try discriminate.
      destruct (mmapM f l s1) as [[ps' s2]| |] eqn:El; try discriminate.
      intros [= <- <-]. econstructor; [exact Ex|]. now apply IH.
    + intros H. inversion H as [|x0 r0 st0 p st1 ps0 st2 Ex Hr]; subst.
      rewrite Ex. apply IH in Hr. rewrite Hr. reflexivity.
Qed.

Lemma mconcat_writes_seq {St A} (f : A -> M St str) l st body st' :
  mconcat f l st = Ok (body, st') <-> exists parts, writes_seq f l st parts st' /\ body = concat parts.
Proof.
  unfold mconcat, mbind, ret. split.
  - destruct (mmapM f l st) as [[ps s1]| |] eqn:E; try discriminate.
    intros [= <- <-]. exists ps. split; [now apply mmapM_writes_seq|reflexivity].
  - intros (parts & Hw & ->). apply mmapM_writes_seq in Hw. rewrite Hw. reflexivity.
Qed.

Lemma mapM_writes_list {A} (f : A -> outcome str) l : forall ps, mapM f l = Ok ps <-> writes_list f l ps.
Proof.
  unfold writes_list. induction l as [|x l IH]; intros ps; cbn [mapM].
  - split; [intros [= <-]; constructor|intros H; inversion H; reflexivity].
  - split.
    + destruct (f x) as [p| |] eqn:Ex; cbn [bind]; try discriminate.
      destruct (mapM f l) as [ps'| |] eqn:El; cbn [bind]; try discriminate.
      intros [= <-]. constructor; [exact Ex|]. now apply IH.
    + intros H. inversion H as [|x0 p l0 ps0 Ex Hr]; subst. rewrite Ex. cbn [bind].
      apply IH in Hr. rewrite Hr. reflexivity.
Qed.

Lemma concat_writes_list {A} (f : A -> outcome str) l body :
  (do parts <- mapM f l; Ok (concat parts)) = Ok body <-> exists parts, writes_list f l parts /\ body = concat parts.
Proof.
  split.
  - destruct (mapM f l) as [ps| |] eqn:E; cbn [bind]; try discriminate.
    intros [= <-]. exists ps. split; [now apply mapM_writes_list|reflexivity].
  - intros (parts & Hw & ->). apply mapM_writes_list in Hw. rewrite Hw. reflexivity.
Qed.

(* whatever topsort returns is ordered as C11 demands *)
Lemma topsort_sorted_file pd out : topsort (items_of pd) = Ok out -> sorted_file pd out.
Proof.
  intros H. split; [exact H|]. split.
  - unfold topsort in H. destruct (build_dag (items_of pd)) as [dag| |] eqn:Ed; try discriminate.
    destruct (topsort_permutation (items_of pd) dag Ed) as (out' & E' & P').
    unfold topsort in E'. rewrite Ed in E'. rewrite H in E'. injection E' as <-. exact P'.
  - intros Hk Ha. destruct (topsort_topological (items_of pd) Hk Ha) as (out' & E' & _ & T').
    rewrite H in E'. injection E' as <-. exact T'.
Qed.

(* on the domain of the ordering half topsort cannot fail, so the only way a sorting generator fails there is
   a failing item writer *)
Lemma sorted_file_exists pd : known_C11 (items_of pd) = None -> exists out, sorted_file pd out.
Proof.
  intros Hk. destruct (topsort_good (items_of pd) Hk) as (out & E & _). exists out. now apply topsort_sorted_file.
Qed.

Lemma topsort_gives_sorted_file pd :
  (forall out, topsort (items_of pd) = Ok out -> sorted_file pd out) /\
  (known_C11 (items_of pd) = None -> exists out, sorted_file pd out).
Proof. split; [exact (topsort_sorted_file pd)|exact (sorted_file_exists pd)]. Qed.

Lemma writes_seq_meaning (St A : Type) (f : A -> M St str) (items : list A) (st : St) (parts : list str) (st' : St) :
  (writes_seq f items st parts st' <-> mmapM f items st = Ok (parts, st')) /\
  (writes_seq f items st parts st' -> length parts = length items).
Proof. split; [symmetry; apply mmapM_writes_seq|apply writes_seq_length]. Qed.

(* ---------------------------------------------------------------- (1) the generators, one by one *)

(* TypeScript: header, import lines, the pieces, end_file (the custom-JSON helpers of the state reached) *)
Theorem ts_multi_sorted uc cfg (st : ts_state) (im : scoped) (pd : parsed) text st' :
  ts_generate_multi uc cfg st im pd = Ok (text, st') <->
  exists out parts,
    sorted_file pd out /\ writes_seq (ts_write_item uc cfg) out st parts st' /\
    text = ts_begin_file cfg ++ ts_write_imports im ++ concat parts ++ ts_end_file st'.
Proof.
  unfold ts_generate_multi. split.
  - destruct (topsort (items_of pd)) as [out| |] eqn:Et; cbn [bind]; try discriminate.
    destruct (mconcat (ts_write_item uc cfg) out st) as [[body s1]| |] eqn:Em; try discriminate.
    intros [= <- <-]. apply mconcat_writes_seq in Em as (parts & Hw & ->).
    exists out, parts. split; [now apply topsort_sorted_file|]. split; [exact Hw|reflexivity].
  - intros (out & parts & (Et & _) & Hw & ->). rewrite Et. cbn [bind].
    assert (Em : mconcat (ts_write_item uc cfg) out st = Ok (concat parts, st')) by (apply mconcat_writes_seq; eauto).
    rewrite Em. reflexivity.
Qed.

(* Kotlin (stateless): package header of the crate, import lines, the pieces *)
Theorem kt_multi_sorted uc cfg (c : str) (im : scoped) (pd : parsed) text :
  kt_generate_multi uc cfg c im pd = Ok text <->
  exists out parts,
    sorted_file pd out /\ writes_list (kt_write_item cfg) out parts /\
    text = kt_begin_file_multi cfg c ++ kt_write_imports cfg im ++ concat parts.
Proof.
  unfold kt_generate_multi, kt_concat. split.
  - destruct (topsort (items_of pd)) as [out| |] eqn:Et; cbn [bind]; try discriminate.
    destruct (mapM (kt_write_item cfg) out) as [ps| |] eqn:Em; cbn [bind]; try discriminate.
    intros [= <-]. exists out, ps. split; [now apply topsort_sorted_file|]. split; [now apply mapM_writes_list|reflexivity].
  - intros (out & parts & (Et & _) & Hw & ->). rewrite Et. cbn [bind].
    apply mapM_writes_list in Hw. rewrite Hw. reflexivity.
Qed.

(* Swift: header, the pieces (no imports, no CodableVoid in multi-file mode) *)
Theorem sw_multi_sorted uc cfg (st : sw_state) (pd : parsed) text st' :
  sw_generate_multi uc cfg st pd = Ok (text, st') <->
  exists out parts,
    sorted_file pd out /\ writes_seq (sw_write_item uc cfg) out st parts st' /\
    text = sw_begin_file cfg ++ concat parts.
Proof.
  unfold sw_generate_multi. split.
  - destruct (topsort (items_of pd)) as [out| |] eqn:Et; cbn [bind]; try discriminate.
    destruct (mconcat (sw_write_item uc cfg) out st) as [[body s1]| |] eqn:Em; try discriminate.
    intros [= <- <-]. apply mconcat_writes_seq in Em as (parts & Hw & ->).
    exists out, parts. split; [now apply topsort_sorted_file|]. split; [exact Hw|reflexivity].
  - intros (out & parts & (Et & _) & Hw & ->). rewrite Et. cbn [bind].
    assert (Em : mconcat (sw_write_item uc cfg) out st = Ok (concat parts, st')) by (apply mconcat_writes_seq; eauto).
    rewrite Em. reflexivity.
Qed.

(* Go: begin_file (registers encoding/json in the state), then the pieces; the import block printed between the
   header and the pieces is that of the state reached AFTER the last item.  The set of names the item writers
   treat as structs is computed from the sorted sequence. *)
Theorem go_multi_sorted uc cfg (st : go_state) (pd : parsed) text st' :
  go_generate_multi uc cfg st pd = Ok (text, st') <->
  exists out header st1 parts,
    sorted_file pd out /\ go_begin_file cfg st = Ok (header, st1) /\
    writes_seq (go_write_item uc cfg (go_types_mapping_to_struct out)) out st1 parts st' /\
    text = header ++ go_write_all_imports st' ++ concat parts.
Proof.
  unfold go_generate_multi. split.
  - destruct (topsort (items_of pd)) as [out| |] eqn:Et; cbn [bind]; try discriminate.
    cbv zeta. unfold mbind at 1.
    destruct (go_begin_file cfg st) as [[header s1]| |] eqn:Eb; try discriminate.
    unfold mbind at 1.
    destruct (mconcat (go_write_item uc cfg (go_types_mapping_to_struct out)) out s1) as [[body s2]| |] eqn:Em; try discriminate.
    unfold mbind, mget, ret. intros [= <- <-]. apply mconcat_writes_seq in Em as (parts & Hw & ->).
    exists out, header, s1, parts. split; [now apply topsort_sorted_file|]. split; [reflexivity|]. split; [exact Hw|reflexivity].
  - intros (out & header & s1 & parts & (Et & _) & Eb & Hw & ->). rewrite Et. cbn [bind]. cbv zeta.
    unfold mbind at 1. rewrite Eb. unfold mbind at 1.
    assert (Em : mconcat (go_write_item uc cfg (go_types_mapping_to_struct out)) out s1 = Ok (concat parts, st'))
      by (apply mconcat_writes_seq; eauto).
    rewrite Em. reflexivity.
Qed.

(* Python: header, the import block and the custom translations of the state reached after the last item, the pieces *)
Theorem py_multi_sorted uc cfg (st : py_state) (pd : parsed) text st' :
  py_generate_multi uc cfg st pd = Ok (text, st') <->
  exists out parts,
    sorted_file pd out /\ writes_seq (py_write_item uc cfg) out st parts st' /\
    text = py_begin_file cfg ++ py_write_all_imports st' ++ py_write_custom_translations st' ++ concat parts.
Proof.
  unfold py_generate_multi. split.
  - destruct (topsort (items_of pd)) as [out| |] eqn:Et; cbn [bind]; try discriminate.
    destruct (mconcat (py_write_item uc cfg) out st) as [[body s1]| |] eqn:Em; try discriminate.
    intros [= <- <-]. apply mconcat_writes_seq in Em as (parts & Hw & ->).
    exists out, parts. split; [now apply topsort_sorted_file|]. split; [exact Hw|reflexivity].
  - intros (out & parts & (Et & _) & Hw & ->). rewrite Et. cbn [bind].
    assert (Em : mconcat (py_write_item uc cfg) out st = Ok (concat parts, st')) by (apply mconcat_writes_seq; eauto).
    rewrite Em. reflexivity.
Qed.

(* Scala overrides generate_types and does NOT sort: the aliases (inside the package object, after the unsigned
   helper aliases when an unsigned integer is used), then the structs, then the enums (inside the package), each
   list in ParsedData order; data.consts is not written at all.  So the written sequence is the crate's items in
   generate_types order with the consts removed - a permutation (the identity) of the items when the crate has no const. *)
Definition sc_written_items (pd : parsed) : list ritem :=
  map ItAlias (p_aliases pd) ++ map ItStruct (p_structs pd) ++ map ItEnum (p_enums pd).

Theorem sc_multi_list_order uc cfg (pd : parsed) :
  (forall text,
    sc_generate uc cfg pd = Ok text <->
    exists head als sts ens,
      sc_begin_file cfg = Ok head /\
      writes_list (sc_write_item cfg) (map ItAlias (p_aliases pd)) als /\
      writes_list (sc_write_item cfg) (map ItStruct (p_structs pd)) sts /\
      writes_list (sc_write_item cfg) (map ItEnum (p_enums pd)) ens /\
      text = head ++
             (if sc_unsigned_integer_used pd || negb (sc_is_empty (p_aliases pd))
              then sc_begin_package_object cfg ++
                   (if sc_unsigned_integer_used pd then sc_render_decl sc_unsigned_aliases else []) ++
                   concat als ++ sc_end_package_object cfg
              else []) ++
             (if negb (sc_is_empty (p_structs pd)) || negb (sc_is_empty (p_enums pd))
              then sc_begin_package cfg ++ concat sts ++ concat ens ++ sc_end_package cfg
              else [])) /\
  items_of pd = sc_written_items pd ++ map ItConst (p_consts pd) /\
  (p_consts pd = [] -> Permutation (sc_written_items pd) (items_of pd)).
Proof.
  split; [|split].
  - intros text. unfold sc_generate, sc_concat. cbv zeta. split.
    + destruct (sc_begin_file cfg) as [head| |] eqn:Eh; cbn [bind]; try discriminate.
      intros H.
      assert (Ha : exists als, writes_list (sc_write_item cfg) (map ItAlias (p_aliases pd)) als /\
                   (if sc_unsigned_integer_used pd || negb (sc_is_empty (p_aliases pd))
                    then do aliases <- (do parts <- mapM (sc_write_item cfg) (map ItAlias (p_aliases pd)); Ok (concat parts));
                         Ok (sc_begin_package_object cfg ++ (if sc_unsigned_integer_used pd then sc_render_decl sc_unsigned_aliases else []) ++
                             aliases ++ sc_end_package_object cfg)
                    else Ok []) =
                   Ok (if sc_unsigned_integer_used pd || negb (sc_is_empty (p_aliases pd))
                       then sc_begin_package_object cfg ++ (if sc_unsigned_integer_used pd then sc_render_decl sc_unsigned_aliases else []) ++
                            concat als ++ sc_end_package_object cfg
                       else [])).
      { destruct (sc_unsigned_integer_used pd || negb (sc_is_empty (p_aliases pd))) eqn:Eb.
        - destruct (mapM (sc_write_item cfg) (map ItAlias (p_aliases pd))) as [ps| |] eqn:Em; cbn [bind] in H; try discriminate.
          exists ps. split; [now apply mapM_writes_list|reflexivity].
        - exists []. split; [|reflexivity]. apply orb_false_iff in Eb as [_ Eb].
          destruct (p_aliases pd); [constructor|discriminate]. }
      destruct Ha as (als & Hals & Ea).
      match type of Ea with ?L = _ => match type of H with bind _ ?K = ?R => change (bind L K = R) in H end end.
      rewrite Ea in H. cbn [bind] in H.
      assert (Hb : exists sts ens, writes_list (sc_write_item cfg) (map ItStruct (p_structs pd)) sts /\
                   writes_list (sc_write_item cfg) (map ItEnum (p_enums pd)) ens /\
                   (if negb (sc_is_empty (p_structs pd)) || negb (sc_is_empty (p_enums pd))
                    then do structs <- (do parts <- mapM (sc_write_item cfg) (map ItStruct (p_structs pd)); Ok (concat parts));
                         do enums <- (do parts <- mapM (sc_write_item cfg) (map ItEnum (p_enums pd)); Ok (concat parts));
                         Ok (sc_begin_package cfg ++ structs ++ enums ++ sc_end_package cfg)
                    else Ok []) =
                   Ok (if negb (sc_is_empty (p_structs pd)) || negb (sc_is_empty (p_enums pd))
                       then sc_begin_package cfg ++ concat sts ++ concat ens ++ sc_end_package cfg else [])).
      { destruct (negb (sc_is_empty (p_structs pd)) || negb (sc_is_empty (p_enums pd))) eqn:Eb.
        - destruct (mapM (sc_write_item cfg) (map ItStruct (p_structs pd))) as [ps| |] eqn:Em; cbn [bind] in H; try discriminate.
          destruct (mapM (sc_write_item cfg) (map ItEnum (p_enums pd))) as [qs| |] eqn:En; cbn [bind] in H; try discriminate.
          exists ps, qs. split; [now apply mapM_writes_list|]. split; [now apply mapM_writes_list|reflexivity].
        - exists [], []. apply orb_false_iff in Eb as [Eb1 Eb2].
          split; [destruct (p_structs pd); [constructor|discriminate]|].
          split; [destruct (p_enums pd); [constructor|discriminate]|reflexivity]. }
      destruct Hb as (sts & ens & Hsts & Hens & Eb).
      match type of Eb with ?L = _ => match type of H with bind _ ?K = ?R => change (bind L K = R) in H end end.
      rewrite Eb in H. cbn [bind] in H. injection H as <-.
      exists head, als, sts, ens. split; [reflexivity|]. repeat (split; [assumption|]). reflexivity.
    + intros (head & als & sts & ens & Eh & Hals & Hsts & Hens & ->). rewrite Eh. cbn [bind].
      apply mapM_writes_list in Hals, Hsts, Hens. rewrite Hals, Hsts, Hens. cbn [bind].
      destruct (sc_unsigned_integer_used pd || negb (sc_is_empty (p_aliases pd))); cbn [bind];
        destruct (negb (sc_is_empty (p_structs pd)) || negb (sc_is_empty (p_enums pd))); cbn [bind]; reflexivity.
  - unfold items_of, sc_written_items. now rewrite <- !app_assoc.
  - intros Ec. unfold items_of, sc_written_items. rewrite Ec. cbn [map]. rewrite app_nil_r. apply Permutation_refl.
Qed.

(* ---------------------------------------------------------------- (2) the whole workspace *)

(* what generate_crates does with ANY generator: the crates are taken in plan order, crate number i is handed
   its own name, its own import list and its own data (nothing of another crate) and the printer state its
   predecessor left; the run stops at the first failure *)
Lemma generate_crates_trace {St : Type} (gen : St -> str -> scoped -> parsed -> outcome (str * St)) :
  forall plan st files fin, generate_crates gen st plan = (files, fin) ->
    map fst files = firstn (length files) (map op_file plan) /\
    exists states : list St,
      nth_error states 0 = Some st /\
      (forall i fname text, nth_error files i = Some (fname, Writer.Generated text) ->
         exists p st_i st_i',
           nth_error plan i = Some p /\ fname = op_file p /\
           nth_error states i = Some st_i /\ nth_error states (S i) = Some st_i' /\
           gen st_i (op_crate p) (op_imports p) (op_data p) = Ok (text, st_i')) /\
      (forall i fname, nth_error files i = Some (fname, Writer.GenFailed) ->
         S i = length files /\ forall st', fin <> Ok st') /\
      (forall st', fin = Ok st' -> length files = length plan /\ nth_error states (length plan) = Some st').
Proof.
  induction plan as [|p r IH]; intros st files fin H; cbn [generate_crates] in H.
  - injection H as <- <-. split; [reflexivity|]. exists [st]. split; [reflexivity|].
    split; [intros [|i] ? ? E; discriminate|]. split; [intros [|i] ? E; discriminate|].
    intros st' [= <-]. split; reflexivity.
  - destruct (gen st (op_crate p) (op_imports p) (op_data p)) as [[text st1]|e|s] eqn:Eg.
    + destruct (generate_crates gen st1 r) as [rest fin1] eqn:Er. injection H as <- <-.
      destruct (IH st1 rest fin1 Er) as (Hn & states & H0 & Hgen & Hfail & Hfin).
      split; [cbn [map fst length firstn]; now rewrite Hn|].
      exists (st :: states). split; [reflexivity|]. split; [|split].
      * intros [|i] fname text' E; cbn [nth_error] in E.
        -- injection E as <- <-. exists p, st, st1. repeat (split; [reflexivity|]). split; [exact H0|exact Eg].
        -- destruct (Hgen i fname text' E) as (q & a & b & Hq & Hf & Ha & Hb & Hg).
           exists q, a, b. cbn [nth_error]. auto.
      * intros [|i] fname E; cbn [nth_error] in E; [discriminate|].
        destruct (Hfail i fname E) as [HL HF]. split; [cbn [length]; now rewrite HL|exact HF].
      * intros st' E. destruct (Hfin st' E) as [HL HS]. split; [cbn [length]; now rewrite HL|exact HS].
    + injection H as <- <-. split; [reflexivity|]. exists [st]. split; [reflexivity|].
      split; [intros [|[|i]] ? ? E; discriminate|].
      split; [intros [|[|i]] ? E; try discriminate; split; [reflexivity|intros ? ?; discriminate]|].
      intros ? ?; discriminate.
    + injection H as <- <-. split; [reflexivity|]. exists [st]. split; [reflexivity|].
      split; [intros [|[|i]] ? ? E; discriminate|].
      split; [intros [|[|i]] ? E; try discriminate; split; [reflexivity|intros ? ?; discriminate]|].
      intros ? ?; discriminate.
Qed.

(* a generator that, whenever it succeeds, has sorted the items of the data it was handed *)
Definition sorts_items {St : Type} (gen : St -> str -> scoped -> parsed -> outcome (str * St)) : Prop :=
  forall st c im pd text st', gen st c im pd = Ok (text, st') -> exists out, topsort (items_of pd) = Ok out.

(* the five sorting back ends in multi-file mode, wrapped to the signature generate_crates takes (as in
   Proofs/C06Multi.v) *)
Theorem multi_generators_sort (uc : unicode) :
  (forall cfg, sorts_items (fun st (_ : str) im pd => ts_generate_multi uc cfg st im pd)) /\
  (forall cfg, sorts_items (fun (st : unit) c im pd => match kt_generate_multi uc cfg c im pd with
                                                      | Ok text => Ok (text, st) | Err e => Err e | Panic s => Panic s end)) /\
  (forall cfg, sorts_items (fun st (_ : str) (_ : scoped) pd => sw_generate_multi uc cfg st pd)) /\
  (forall cfg, sorts_items (fun st (_ : str) (_ : scoped) pd => go_generate_multi uc cfg st pd)) /\
  (forall cfg, sorts_items (fun st (_ : str) (_ : scoped) pd => py_generate_multi uc cfg st pd)).
Proof.
  repeat split; intros cfg st c im pd text st' H.
  - apply ts_multi_sorted in H as (out & _ & (E & _) & _). eauto.
  - destruct (kt_generate_multi uc cfg c im pd) as [t| |] eqn:E; try discriminate.
    apply kt_multi_sorted in E as (out & _ & (E & _) & _). eauto.
  - apply sw_multi_sorted in H as (out & _ & (E & _) & _). eauto.
  - apply go_multi_sorted in H as (out & _ & _ & _ & (E & _) & _). eauto.
  - apply py_multi_sorted in H as (out & _ & (E & _) & _). eauto.
Qed.

Lemma concat_outs_perm (plan : list out_plan) (outs : list (list ritem)) :
  Forall2 (fun p out => Permutation out (items_of (op_data p))) plan outs ->
  Permutation (map c14_decl (concat outs)) (flat_map (fun p => map c14_decl (items_of (op_data p))) plan).
Proof.
  induction 1 as [|p out plan outs Hp _ IH]; cbn [List.concat flat_map map]; [constructor|].
  rewrite map_app. apply Permutation_app; [now apply Permutation_map|exact IH].
Qed.

(* a successful run of a sorting generator has sorted every crate of the plan *)
Lemma run_ok_sorted {St : Type} (gen : St -> str -> scoped -> parsed -> outcome (str * St)) :
  sorts_items gen ->
  forall plan st files st', generate_crates gen st plan = (files, Ok st') ->
    exists outs, Forall2 (fun p out => sorted_file (op_data p) out) plan outs.
Proof.
  intros Hs. induction plan as [|p r IH]; intros st files st' H; cbn [generate_crates] in H.
  - exists []. constructor.
  - destruct (gen st (op_crate p) (op_imports p) (op_data p)) as [[text st1]|e|s] eqn:Eg.
    + destruct (generate_crates gen st1 r) as [rest fin1] eqn:Er. injection H as _ ->.
      destruct (IH st1 rest st' Er) as (outs & Ho). destruct (Hs _ _ _ _ _ _ Eg) as (out & Eo).
      exists (out :: outs). constructor; [now apply topsort_sorted_file|exact Ho].
    + injection H as _ H. discriminate.
    + injection H as _ H. discriminate.
Qed.

(* THE WORKSPACE.  For every workspace, --target-os list, language, all iteration orders of the hash containers:
   (a) one plan entry per crate, the crates pairwise different;
   (b) for every crate of the plan, what topsort makes of its data is ordered as C11 demands (sorted_file) and is -
       as a multiset of declarations (kind, Rust name, generated name) - exactly the annotated items of the source
       files whose path lies in that crate: nothing of another crate, nothing lost, nothing twice;
   (c) the sorted sequences of all crates together are exactly the declarations of the single-file run on the same
       sources: every item of the workspace lands in exactly one file, once;
   (d) for EVERY generator: generate_crates produces the files in plan order, named after the plan, file number i
       by calling the generator on crate number i's own name, imports and data (and the printer state left by
       file i-1); it stops at the first failure; if the generator sorts (the five of multi_generators_sort) and the
       run completes, every crate has been sorted, so (b), (c) speak about what was written. *)
Theorem multi_workspace
  (uc : unicode) (T ign : list str) (ho_file ho_crate : list imported -> list imported)
  (hc : crate_types -> crate_types) (l : lang) (ws : list ws_entry) (arrivals : list (str * parsed)) :
  parse_workspace uc T ign ho_file ws = Ok arrivals ->
  let plan := multi_plan l hc (multi_crates ho_crate arrivals) in
  NoDup (map op_crate plan) /\
  (forall p out, In p plan -> topsort (items_of (op_data p)) = Ok out ->
     sorted_file (op_data p) out /\
     Permutation (map c14_decl out) (map c14_decl (crate_items (Proofs.C14Main.c14_infos uc T ws) (op_crate p)))) /\
  (forall singles outs, parse_workspace_single uc T (crate_entries ws) = Ok singles ->
     Forall2 (fun p out => topsort (items_of (op_data p)) = Ok out) plan outs ->
     Permutation (map c14_decl (concat outs)) (map c14_decl (items_of (single_file_input singles)))) /\
  (forall (St : Type) (gen : St -> str -> scoped -> parsed -> outcome (str * St)) (st : St) files fin,
     generate_crates gen st plan = (files, fin) ->
     map fst files = firstn (length files) (map op_file plan) /\
     (exists states : list St,
        nth_error states 0 = Some st /\
        (forall i fname text, nth_error files i = Some (fname, Writer.Generated text) ->
           exists p st_i st_i',
             nth_error plan i = Some p /\ fname = op_file p /\
             nth_error states i = Some st_i /\ nth_error states (S i) = Some st_i' /\
             gen st_i (op_crate p) (op_imports p) (op_data p) = Ok (text, st_i')) /\
        (forall i fname, nth_error files i = Some (fname, Writer.GenFailed) ->
           S i = length files /\ forall st', fin <> Ok st') /\
        (forall st', fin = Ok st' -> length files = length plan /\ nth_error states (length plan) = Some st')) /\
     (sorts_items gen -> forall st', fin = Ok st' ->
        exists outs, Forall2 (fun p out => sorted_file (op_data p) out) plan outs)).
Proof.
  intros HW plan.
  destruct (Proofs.C14Main.partition_plan uc T ign ho_file l ho_crate hc ws arrivals HW) as (Hnd & _ & _ & Hitems).
  fold plan in Hnd, Hitems.
  split; [exact Hnd|]. split; [|split].
  - intros p out Hp Ho. pose proof (topsort_sorted_file _ _ Ho) as Hs. split; [exact Hs|].
    destruct Hs as (_ & Pm & _). etransitivity; [apply Permutation_map; exact Pm|]. now apply Hitems.
  - intros singles outs HS Ho.
    etransitivity; [|exact (Proofs.C14Main.partition_single uc T ign ho_file l ho_crate hc ws arrivals HW singles HS)].
    fold plan. apply concat_outs_perm.
    clear -Ho. induction Ho as [|p out pl os E _ IH]; constructor; [|exact IH].
    now destruct (topsort_sorted_file _ _ E) as (_ & Pm & _).
  - intros St gen st files fin H.
    destruct (generate_crates_trace gen plan st files fin H) as (Hn & Hstates).
    split; [exact Hn|]. split; [exact Hstates|].
    intros Hs st' ->. eapply run_ok_sorted; eassumption.
Qed.
