(* C15 for Swift at renderer level: what sw_write_item prints for an IR item is code parts and `/// `
   comment fragments whose doc strings are the item's doc strings, each without its trailing white
   space (write_comment: trim_end), in Swift's print order (helper structs of struct variants first,
   each under the comment typeshare generates for it, then the enum's own doc, then the cases' docs;
   nothing in CodingKeys, init(from:), encode(to:)). *)
From Coq Require Import List NArith Bool Lia String.
From TS Require Import Model.Str Model.Outcome Model.Unicode Model.Types Model.Parse
                       Model.Lang.Common Model.Lang.Decl Model.Lang.Swift.
From TS Require Import Spec.Lexers Spec.C15Spec Spec.C15Render Proofs.BackCommon Proofs.C15 Proofs.C15_Render.
Import ListNotations.
Local Open Scope N_scope.

Ltac c15_sites_norm :=
  unfold c15_sites; cbn [app]; rewrite ?app_nil_r, ?map_app, ?c15_map_flat_map; cbn [app map]; rewrite ?app_nil_r; reflexivity.

(* the doc lines of a declaration, in print order *)
Definition sw_struct_docs (s : sw_struct) : list str := sws_docs s ++ flat_map swm_docs (sws_members s).
Definition sw_enum_docs (e : sw_enum) : list str :=
  flat_map sw_struct_docs (swe_inner e) ++ swe_docs e ++ flat_map swv_docs (swe_variants e).
Definition sw_decl_docs (d : sw_decl) : list str :=
  match d with
  | SWStruct s => sw_struct_docs s
  | SWAlias docs _ _ _ _ => docs
  | SWEnum e => sw_enum_docs e
  | SWCodableVoid _ => [sw_CODABLE_VOID_DOC]
  end.

Section SWLayout.
Variable P : str -> Prop.
Hypothesis P_all : forall s, P s.
Notation D := (Decomp C15sw P).

Lemma sw_comments_decomp i ds : D (sw_render_comments i ds) (c15_sites false ds).
Proof. rewrite <- (proj1 (C15_fragment_sw i ds)). exact (Decomp_frag C15sw P false i ds). Qed.

Ltac sw_decomp tac :=
  repeat first [ apply sw_comments_decomp | tac | apply Decomp_app | apply Decomp_code; apply P_all ].

Lemma sw_member_decomp m : D (sw_render_member m) (c15_sites false (swm_docs m)).
Proof. unfold sw_render_member. eapply Decomp_eq; [sw_decomp ltac:(fail)|]. c15_sites_norm. Qed.

Lemma sw_unit_case_decomp v : D (sw_render_unit_case v) (c15_sites false (swv_docs v)).
Proof. unfold sw_render_unit_case. eapply Decomp_eq; [sw_decomp ltac:(fail)|]. c15_sites_norm. Qed.

Lemma sw_case_decomp v : D (sw_render_case v) (c15_sites false (swv_docs v)).
Proof. unfold sw_render_case. eapply Decomp_eq; [sw_decomp ltac:(fail)|]. c15_sites_norm. Qed.

Lemma sw_struct_decomp s : D (sw_render_struct s) (c15_sites false (sw_struct_docs s)).
Proof.
  unfold sw_render_struct, sw_struct_docs. cbv zeta.
  eapply Decomp_eq;
    [sw_decomp ltac:(apply (Decomp_flat_map C15sw P sw_render_member) with (g := fun m => c15_sites false (swm_docs m));
                     intros; apply sw_member_decomp)|].
  c15_sites_norm.
Qed.

Lemma sw_enum_decomp e : D (sw_render_enum e) (c15_sites false (sw_enum_docs e)).
Proof.
  unfold sw_render_enum, sw_enum_docs. cbv zeta.
  destruct (swe_tagged e) as [[tag_key content_key]|].
  - eapply Decomp_eq;
      [sw_decomp ltac:(first [ apply (Decomp_flat_map C15sw P sw_render_struct) with (g := fun s => c15_sites false (sw_struct_docs s));
                               intros; apply sw_struct_decomp
                             | apply (Decomp_flat_map C15sw P sw_render_case) with (g := fun v => c15_sites false (swv_docs v));
                               intros; apply sw_case_decomp ])|].
    c15_sites_norm.
  - eapply Decomp_eq;
      [sw_decomp ltac:(first [ apply (Decomp_flat_map C15sw P sw_render_struct) with (g := fun s => c15_sites false (sw_struct_docs s));
                               intros; apply sw_struct_decomp
                             | apply (Decomp_flat_map C15sw P sw_render_unit_case) with (g := fun v => c15_sites false (swv_docs v));
                               intros; apply sw_unit_case_decomp ])|].
    c15_sites_norm.
Qed.

Theorem sw_decl_decomp d : D (sw_render_decl d) (c15_sites false (sw_decl_docs d)).
Proof.
  destruct d as [s|docs name esc gs ty|e|decs]; cbn [sw_render_decl sw_decl_docs].
  - apply sw_struct_decomp.
  - eapply Decomp_eq; [sw_decomp ltac:(fail)|]. c15_sites_norm.
  - apply sw_enum_decomp.
  - eapply Decomp_eq; [sw_decomp ltac:(fail)|]. c15_sites_norm.
Qed.
End SWLayout.

(* ---- decisions: the declarations carry the IR's doc strings, trimmed at the end ---- *)
Section SWDocs.
Variable uc : unicode.
Variable cfg : sw_config.
Notation tr := (c15_trim_end uc).

Ltac inv_ret H := unfold ret in H; injection H as <- _.

Lemma sw_docs_tr cs : sw_docs uc cs = map tr cs.
Proof. reflexivity. Qed.

Lemma c15_map_fst_combine {A B} (a : list A) (b : list B) : List.length a = List.length b -> map fst (combine a b) = a.
Proof.
  revert b; induction a as [|x a IH]; intros [|y b] H; cbn in *; try reflexivity; try discriminate.
  f_equal. apply IH. now injection H.
Qed.

Lemma sw_struct_docs_ir rs st s st' : sw_struct_of uc cfg rs st = Ok (s, st') ->
  sw_struct_docs s = map tr (scomments rs ++ flat_map fcomments (sfields rs)).
Proof.
  unfold sw_struct_of. intros H.
  apply mbind_ok in H as (tys & s1 & Ht & H). apply mbind_ok in H as (its & s2 & Hi & H). inv_ret H.
  unfold sw_struct_docs. cbn [sws_docs sws_members]. rewrite map_app, c15_map_flat_map, sw_docs_tr. f_equal.
  apply mmapM_length in Ht. apply mmapM_length in Hi.
  set (l := combine (sfields rs) (combine tys its)).
  assert (E : map fst l = sfields rs).
  { subst l. apply c15_map_fst_combine. rewrite combine_length, Ht, Hi. lia. }
  rewrite <- E. rewrite flat_map_concat_map, flat_map_concat_map, !map_map. reflexivity.
Qed.

Lemma sw_inner_docs_ir shared vs st ss st' : sw_inner_structs_of uc cfg shared vs st = Ok (ss, st') ->
  flat_map sw_struct_docs ss = map tr (flat_map (c15_helper_docs shared) vs).
Proof.
  revert st ss st'. induction vs as [|v r IH]; intros st ss st' H.
  - cbn in H. inv_ret H. reflexivity.
  - destruct v as [vsh|t vsh|fs vsh]; cbn [sw_inner_structs_of flat_map c15_helper_docs app] in *.
    + eapply IH; exact H.
    + eapply IH; exact H.
    + apply mbind_ok in H as (s & s1 & Hs & H). apply mbind_ok in H as (ss' & s2 & Hr & H). inv_ret H.
      cbn [flat_map]. rewrite (IH _ _ _ Hr), (sw_struct_docs_ir _ _ _ _ Hs), <- map_app. reflexivity.
Qed.

Theorem sw_decl_docs_ir it st d st' : sw_decl_of uc cfg it st = Ok (d, st') ->
  sw_decl_docs d = c15_sw_item_docs uc it.
Proof.
  unfold c15_sw_item_docs.
  destruct it as [s|e|a|c]; cbn [sw_decl_of c15_item_docs_helpers_first c15_item_docs]; intros H.
  - apply mbind_ok in H as (d0 & s1 & Hd & H). inv_ret H. exact (sw_struct_docs_ir _ _ _ _ Hd).
  - apply mbind_ok in H as (d0 & s1 & Hd & H). inv_ret H. cbn [sw_decl_docs].
    unfold sw_enum_of in Hd. apply mbind_ok in Hd as (inner & s2 & Hi & Hd). apply mbind_ok in Hd as (vs & s3 & Hv & Hd).
    inv_ret Hd. unfold sw_enum_docs. cbn [swe_inner swe_docs swe_variants].
    rewrite (sw_inner_docs_ir _ _ _ _ _ Hi), !map_app, (c15_map_flat_map _ c15_variant_own_docs), sw_docs_tr. do 2 f_equal.
    apply c15_Forall2_flat_map.
    destruct e as [sh|tag content sh]; cbn [enum_shared] in *.
    + eapply mmapM_Forall2; [|exact Hv]. intros v s0 x s0' Hx. unfold sw_unit_variant_of in Hx.
      apply mbind_ok in Hx as (n & s4 & _ & Hx). inv_ret Hx. reflexivity.
    + eapply mmapM_Forall2; [|exact Hv]. intros v s0 x s0' Hx. unfold sw_variant_of in Hx.
      apply mbind_ok in Hx as (n & s4 & _ & Hx). apply mbind_ok in Hx as (pl & s5 & _ & Hx). inv_ret Hx. reflexivity.
  - apply mbind_ok in H as (t & s1 & _ & H). inv_ret H. reflexivity.
  - discriminate.
Qed.

(* one item through write_struct / write_enum (with write_types_for_anonymous_structs) / write_type_alias,
   for every printer state *)
Theorem sw_item_decomp it st text st' : sw_write_item uc cfg it st = Ok (text, st') ->
  Decomp C15sw (fun _ => True) text (c15_sites false (c15_sw_item_docs uc it)).
Proof.
  unfold sw_write_item. intros H. apply mbind_ok in H as (d & s1 & Hd & H). inv_ret H.
  rewrite <- (sw_decl_docs_ir _ _ _ _ Hd). apply sw_decl_decomp. auto.
Qed.

Theorem C15_sw_render_partial it st text st' : sw_write_item uc cfg it st = Ok (text, st') ->
  exists parts,
    text = text_of (c15_file_pieces C15sw parts) /\
    docs_of (c15_file_pieces C15sw parts) = c15_sw_item_docs uc it /\
    (Forall (c15_code_neutral C15sw) parts ->
     c15_contained C15sw LCode (mark (c15_file_pieces C15sw parts)) =
     forallb safe_sw (c15_sw_item_docs uc it)).
Proof.
  intros H. destruct (Decomp_partial _ _ _ (sw_item_decomp _ _ _ _ H)) as (ps & Ht & Hd & Hc).
  exists ps. rewrite c15_sites_text_line in Hd by discriminate. rewrite c15_sites_ok_false in Hc by discriminate. auto.
Qed.

(* the helper declaration end_file appends when () was translated: its one doc line is typeshare's own *)
Theorem sw_trailing_decomp st :
  Decomp C15sw (fun _ => True) (sw_end_file cfg st) (c15_sites false (if st then [sw_CODABLE_VOID_DOC] else [])).
Proof.
  unfold sw_end_file, sw_trailing_decls. destruct st; [|apply Decomp_nil].
  cbn [flat_map]. rewrite app_nil_r. apply (sw_decl_decomp (fun _ => True)). auto.
Qed.
End SWDocs.
