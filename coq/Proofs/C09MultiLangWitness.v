(* C09 in folder mode, the other languages: concrete workspaces evaluated inside Coq - the front end, collector,
   reconcile_aliases, the folder-mode generators - next to the boolean judgement good_C09_multi and the classes of
   Spec/C09MultiLangSpec.v.  Non-vacuity of the per-language theorems and witnesses that the new classes are needed. *)
From Coq Require Import List Bool String.
From TS Require Import Model.Str Model.Outcome Model.Unicode Model.Syntax Model.Attrs Model.Types Model.Parse
                       Model.Reconcile Model.Collect Model.Lang.Common Model.Lang.Decl Model.Lang.Kotlin
                       Model.Lang.Swift Model.Lang.Scala Model.Lang.Python Model.Lang.Go
                       Model.Rename Model.MultiFile.
From TS Require Import Spec.C09Spec Spec.C09MultiSpec Spec.C09MultiLangSpec.
From TS Require Import Proofs.C14 Proofs.C14Front Proofs.C14Witness Proofs.C09Multi Proofs.C09MultiWitness
                       Proofs.C12MultiSwift Proofs.C12Multi Proofs.C12MultiGo.
From TS Require Proofs.C09Witness.
Import ListNotations.
Local Open Scope string_scope.

Definition wl_gen (t : str) (args : list str) : ty := TPath [] t (map (fun a => Some (w_ty a)) args).
Definition wl_tagged : attr :=
  {| a_inner := false; a_meta := MList [lit "serde"] (Some [MNV [lit "tag"] (VStr (lit "type")); MNV [lit "content"] (VStr (lit "content"))]) None |}.
Definition wl_paths (l : list string) : list path := map (fun s => [lit s]) l.

(* my-crate/src/lib.rs:
     use a::A2; use a::A1;
     #[typeshare] struct G<T> { t: T, a: A2, v: Vec<A1> }
     #[typeshare] #[serde(tag = "type", content = "content")] enum E<T> { V { x: A2, y: T }, W(A2), U }
     #[typeshare] type Al = Vec<A2>;
     #[typeshare] struct H { g: G<A2>, e: E<A1> }
   next to a/src/lib.rs of Proofs/C14Witness.v (A1, A2 serde-renamed A2Renamed, A3) *)
Definition wl_my (extra : list item) : ws_entry := w_entry (lit "my-crate") (w_file
  ([w_use (lit "a") (lit "A2"); w_use (lit "a") (lit "A1");
    IStruct [w_ts] (lit "G") [GPType (lit "T")]
            (FNamed [w_fld (lit "t") (w_ty (lit "T")); w_fld (lit "a") (w_ty (lit "A2")); w_fld (lit "v") (wl_gen (lit "Vec") [lit "A1"])]);
    IEnum [w_ts; wl_tagged] (lit "E") [GPType (lit "T")]
          [{| v_attrs := []; v_ident := lit "V"; v_fields := FNamed [w_fld (lit "x") (w_ty (lit "A2")); w_fld (lit "y") (w_ty (lit "T"))] |};
           {| v_attrs := []; v_ident := lit "W"; v_fields := FUnnamed [{| f_attrs := []; f_ident := None; f_ty := w_ty (lit "A2") |}] |};
           {| v_attrs := []; v_ident := lit "U"; v_fields := FUnit |}];
    IType [w_ts] (lit "Al") [] (wl_gen (lit "Vec") [lit "A2"]);
    w_struct [] (lit "H") [w_fld (lit "g") (wl_gen (lit "G") [lit "A2"]); w_fld (lit "e") (wl_gen (lit "E") [lit "A1"])]] ++ extra)
  (wl_paths ["typeshare"; "serde"; "T"; "A2"; "A1"; "Vec"; "G"; "E"])).
Definition ws_rich : list ws_entry := [w_a; wl_my []].

(* the workspace's classes for language L under prefix pfx *)
Definition wl_dom (L : lang) (pfx : str) (ws : list ws_entry) : option (bool * option string) :=
  match parse_workspace uc_exec [] [] (fun l => l) ws with
  | Ok arrivals => Some (c9m_ids_wf arrivals, c9m_lknown_ws L pfx arrivals)
  | _ => None
  end.
(* the reconciled data of crate c *)
Definition wl_crate (ws : list ws_entry) (c : str) : option (list (str * parsed) * parsed) :=
  match parse_workspace uc_exec [] [] (fun l => l) ws with
  | Ok arrivals => match crates_get (multi_crates idl arrivals) c with Some pd => Some (arrivals, pd) | None => None end
  | _ => None
  end.
(* Kotlin: (number of definitions, number of references, the judgement) of the file of crate c *)
Definition wl_kt (pfx : str) (ws : list ws_entry) (c : str) : option (nat * nat * bool) :=
  match wl_crate ws c with
  | Some (arrivals, pd) =>
    match kt_generate_multi uc_exec (wm_kt pfx) c (crate_imports idl (multi_crates idl arrivals) c pd) pd, kt_file_decls uc_exec (wm_kt pfx) pd with
    | Ok _, Ok fd => let obs := c09_observe Kotlin fd in
                     Some (List.length (c9_defs obs), List.length (c9_refs obs), good_C09_multi Kotlin pfx arrivals c obs)
    | _, _ => None
    end
  | None => None
  end.
Definition wl_kt_refs (pfx : str) (ws : list ws_entry) (c : str) : list c09_ref :=
  match wl_crate ws c with
  | Some (arrivals, pd) => match kt_file_decls uc_exec (wm_kt pfx) pd with Ok fd => c9_refs (c09_observe Kotlin fd) | _ => [] end
  | None => []
  end.

(* a/src/lib.rs: #[typeshare] #[serde(rename = "X2")] struct A2 { x: u8 };
   my-crate/src/lib.rs: use a::A2; #[typeshare] struct G<X2> { f: A2, g: X2 }: the mention of A2 must be spelled
   <prefix>X2 (what a's file declares); the rewritten name X2 is a generic parameter of G and is printed bare *)
Definition ws_emitted_generic : list ws_entry :=
  [w_entry (lit "a") (w_file [w_struct [w_rename (lit "X2")] (lit "A2") [w_fld (lit "x") (w_ty (lit "u8"))]] (wl_paths ["typeshare"; "u8"; "serde"]));
   w_entry (lit "my-crate") (w_file [w_use (lit "a") (lit "A2");
                                     IStruct [w_ts] (lit "G") [GPType (lit "X2")] (FNamed [w_fld (lit "f") (w_ty (lit "A2")); w_fld (lit "g") (w_ty (lit "X2"))])]
                                    (wl_paths ["typeshare"; "A2"; "X2"]))].

(* the judgement on an observation in which every reference spelled `from` is respelled `to` *)
Definition wl_respell (from to : str) (obs : c09_obs) : c09_obs :=
  {| c9_defs := c9_defs obs;
     c9_refs := map (fun r => if str_eqb (c9_name r) from then {| c9_in := c9_in r; c9_pos := c9_pos r; c9_name := to |} else r) (c9_refs obs) |}.
Definition wl_kt_respelled (pfx : str) (ws : list ws_entry) (c from to : str) : option bool :=
  match wl_crate ws c with
  | Some (arrivals, pd) =>
    match kt_file_decls uc_exec (wm_kt pfx) pd with
    | Ok fd => Some (good_C09_multi Kotlin pfx arrivals c (wl_respell from to (c09_observe Kotlin fd)))
    | _ => None
    end
  | None => None
  end.

(* Kotlin, non-vacuity: the workspace is well-formed and in no class under the prefix KP (and under no prefix); the
   file of my_crate has 5 definitions and 16 references and is good; the judgement is not trivially true: the same
   observation with the references to a's A2 spelled KPA2 (the Rust name) or A2Renamed (no prefix), the generic
   parameter prefixed, or the helper struct misnamed is rejected *)
Example kt_multi_nonvacuous :
  wl_dom Kotlin (lit "KP") ws_rich = Some (true, None) /\ wl_dom Kotlin [] ws_rich = Some (true, None) /\
  wl_kt (lit "KP") ws_rich MY = Some (5, 16, true)%nat /\ wl_kt [] ws_rich MY = Some (5, 16, true)%nat /\
  wl_kt (lit "KP") ws_rich (lit "a") = Some (3, 0, true)%nat /\
  wl_kt_respelled (lit "KP") ws_rich MY (lit "KPA2Renamed") (lit "KPA2") = Some false /\
  wl_kt_respelled (lit "KP") ws_rich MY (lit "KPA2Renamed") (lit "A2Renamed") = Some false /\
  wl_kt_respelled (lit "KP") ws_rich MY (lit "T") (lit "KPT") = Some false /\
  wl_kt_respelled (lit "KP") ws_rich MY (lit "KPEVInner") (lit "KPEV") = Some false.
Proof. repeat split; vm_compute; reflexivity. Qed.

(* the class C09-multi-emitted-generic is needed (a defect of the unchanged tree under a prefix): the mention of A2
   denotes a's type, which a.kt declares - and my_crate.kt imports - as KPX2; the reference is printed `X2` *)
Example emitted_generic_refuted :
  wl_dom Kotlin (lit "KP") ws_emitted_generic = Some (true, Some "C09-multi-emitted-generic") /\
  wl_dom Kotlin [] ws_emitted_generic = Some (true, None) /\
  wm_spec ws_emitted_generic MY (lit "A2") = [(Some (lit "a"), Some (lit "X2"), None)] /\
  wm_kt_text (lit "KP") ws_emitted_generic MY =
    Some (lit "package p.my_crate" ++ NL ++ NL ++ lit "import kotlinx.serialization.Serializable" ++ NL ++
          lit "import kotlinx.serialization.SerialName" ++ NL ++ NL ++ lit "import p.a.KPX2" ++ NL ++ NL ++
          lit "@Serializable" ++ NL ++ lit "data class KPG<X2> (" ++ NL ++ TAB ++ lit "val f: X2," ++ NL ++ TAB ++ lit "val g: X2" ++ NL ++
          lit ")" ++ NL ++ NL)%list /\
  match wm_kt_text (lit "KP") ws_emitted_generic (lit "a") with Some t => contains_sub (lit "data class KPX2 (") t | None => false end = true.
Proof. repeat split; vm_compute; reflexivity. Qed.

(* ---------------------------------------------------------------- Swift, Scala, Python *)
Definition wl_verdict (L : lang) (pfx : str) (arrivals : list (str * parsed)) (c : str) (ds : list decl) (from to : str) : nat * nat * bool * bool :=
  let obs := c9m_observe_decls L ds in
  (List.length (c9_defs obs), List.length (c9_refs obs), good_C09_multi L pfx arrivals c obs,
   good_C09_multi L pfx arrivals c (wl_respell from to obs)).
Definition wl_sw_cfg (pfx : str) : sw_config :=
  {| sw_prefix := pfx; sw_type_mappings := []; sw_default_decorators := []; sw_default_generic_constraints := [];
     sw_codablevoid_constraints := []; sw_no_version_header := true; sw_version := [] |}.
(* (definitions, references, the judgement, the judgement after respelling `from` as `to`) of the file of crate c *)
Definition wl_sw (pfx : str) (ws : list ws_entry) (c from to : str) : option (nat * nat * bool * bool) :=
  match wl_crate ws c with
  | Some (arrivals, pd) =>
    match sw_generate_multi uc_exec (wl_sw_cfg pfx) false pd, sw_multi_decls uc_exec (wl_sw_cfg pfx) false pd with
    | Ok _, Ok (ds, _) => Some (wl_verdict Swift pfx arrivals c (flat_map sw_obs ds) from to)
    | _, _ => None
    end
  | None => None
  end.
Definition wl_sc (ws : list ws_entry) (c from to : str) : option (nat * nat * bool * bool) :=
  match wl_crate ws c with
  | Some (arrivals, pd) =>
    match sc_generate uc_exec Proofs.C09Witness.w_sc pd, sc_file_decls uc_exec Proofs.C09Witness.w_sc pd with
    | Ok _, Ok fd => Some (wl_verdict Scala [] arrivals c (fd_decls fd) from to)
    | _, _ => None
    end
  | None => None
  end.
Definition wl_py (ws : list ws_entry) (c from to : str) : option (nat * nat * bool * bool) :=
  match wl_crate ws c with
  | Some (arrivals, pd) =>
    match py_generate_multi uc_exec Proofs.C09Witness.w_py py_empty_state pd, py_multi_decls uc_exec Proofs.C09Witness.w_py py_empty_state pd with
    | Ok _, Ok (ds, _) => Some (wl_verdict Python [] arrivals c (flat_map py_obs ds) from to)
    | _, _ => None
    end
  | None => None
  end.

Definition wl_go (ws : list ws_entry) (c from to : str) : option (nat * nat * bool * bool) :=
  match wl_crate ws c with
  | Some (arrivals, pd) =>
    match go_generate_multi uc_exec (Proofs.C09Witness.w_go []) [] pd, go_multi_decls uc_exec (Proofs.C09Witness.w_go []) [] pd with
    | Ok _, Ok (ds, _) => Some (wl_verdict Go [] arrivals c (flat_map go_obs ds) from to)
    | _, _ => None
    end
  | None => None
  end.

(* a/src/lib.rs: #[typeshare] #[serde(rename = "AlR")] type Al = u32;  my-crate/src/lib.rs: use a::Al; #[typeshare] struct B1 { f: Al }:
   the own-crate findings about definitions carry over to folder mode - Kotlin and Scala declare the alias under its
   RUST name while my_crate refers to (and imports) AlR *)
Definition ws_alias_renamed : list ws_entry :=
  [w_entry (lit "a") (w_file [IType [w_ts; w_rename (lit "AlR")] (lit "Al") [] (w_ty (lit "u32"))] (wl_paths ["typeshare"; "u32"; "serde"]));
   w_b [w_use (lit "a") (lit "Al")] (lit "Al")].

(* Swift (prefix OP), Scala, Python on ws_rich: in no class; the file of my_crate is good (5 definitions; 13 / 16 / 12
   references), and the judgement rejects the Rust name of a's A2, a prefixed generic parameter (Swift), a misspelled
   sealed parent (Scala) and a misnamed helper class (Python) *)
Example sw_sc_py_multi_nonvacuous :
  wl_dom Swift (lit "OP") ws_rich = Some (true, None) /\ wl_dom Scala [] ws_rich = Some (true, None) /\ wl_dom Python [] ws_rich = Some (true, None) /\
  wl_sw (lit "OP") ws_rich MY (lit "OPA2Renamed") (lit "OPA2") = Some (5, 13, true, false)%nat /\
  wl_sw (lit "OP") ws_rich MY (lit "T") (lit "OPT") = Some (5, 13, true, false)%nat /\
  wl_sc ws_rich MY (lit "A2Renamed") (lit "A2") = Some (5, 16, true, false)%nat /\
  wl_sc ws_rich MY (lit "E") (lit "E2") = Some (5, 16, true, false)%nat /\
  wl_py ws_rich MY (lit "A2Renamed") (lit "A2") = Some (5, 12, true, false)%nat /\
  wl_py ws_rich MY (lit "EVInner") (lit "EV") = Some (5, 12, true, false)%nat.
Proof. repeat split; vm_compute; reflexivity. Qed.

(* Go, empty acronym list, on ws_rich: in no class; the file of my_crate is good (5 definitions, 12 references); the
   Rust name of a's A2 and a misnamed helper struct are rejected *)
Example go_multi_nonvacuous :
  wl_dom Go [] ws_rich = Some (true, None) /\
  wl_go ws_rich MY (lit "A2Renamed") (lit "A2") = Some (5, 12, true, false)%nat /\
  wl_go ws_rich MY (lit "EVInner") (lit "EV") = Some (5, 12, true, false)%nat.
Proof. repeat split; vm_compute; reflexivity. Qed.

(* the own-crate classes of definitions in folder mode: a serde-renamed alias of crate a, referred to from my_crate *)
Example alias_renamed_classes :
  wl_dom Kotlin [] ws_alias_renamed = Some (true, Some "C09-kotlin-alias") /\
  wl_dom Scala [] ws_alias_renamed = Some (true, Some "C09-scala-alias") /\
  wl_dom Go [] ws_alias_renamed = Some (true, Some "C09-go-alias") /\
  wl_dom Swift [] ws_alias_renamed = Some (true, None) /\ wl_dom Python [] ws_alias_renamed = Some (true, None).
Proof. repeat split; vm_compute; reflexivity. Qed.

