(* C04, back ends.  For each of the six printers' decision layers (Model/Lang/*.v) and each position
   the property speaks about (struct field / struct-variant field, newtype payload, alias target):
   the row the reader (Spec/C04Readers.v) sees in the declaration satisfies good_C04 against the
   expectation computed from the IR (Option depth, has_default) and the type the SAME translator
   gives for the type with one Option layer removed.
   Shape per language:  [L_texp_strip]  the translator maps Option<T> to its optional constructor
   around the translation of T, and nothing else to an optional constructor (case analysis of the
   translator, no size bound);  then the marker expressions of write_field & co are compared with
   the specification by Boolean case analysis. *)
From Coq Require Import String List Bool Arith Lia.
From TS Require Import Model.Str Model.Outcome Model.Unicode Model.Types Model.Parse Model.Lang.Common Model.Lang.Decl
                       Model.Lang.TypeScript Model.Lang.Kotlin Model.Lang.Swift Model.Lang.Scala Model.Lang.Go Model.Lang.Python.
From TS Require Import Spec.C04Spec Spec.C04Readers.
From TS Require Import Proofs.BackCommon Proofs.C04.
Import ListNotations.
Local Open Scope nat_scope.

(* the expectation at a position whose IR type is [t] *)
Definition c04_expect_of (pos : c04_pos) (t : rtype) (dflt : bool) (ref : str) : c04_expect :=
  {| c04e_pos := pos; c04e_depth := rtype_opt_depth t; c04e_default := dflt; c04e_ref := ref |}.

Lemma good_intro L e s :
  c04s_type_mark s = c04_expected_optional e -> c04s_init_mark s = c04_expected_optional e ->
  c04s_base s = c04e_ref e -> c04s_null_union s = c04_expected_null_union L e ->
  good_C04 L e s = true.
Proof.
  intros H1 H2 H3 H4. unfold good_C04. rewrite H1, H2, H3, H4, !Bool.eqb_reflx, str_eqb_refl. reflexivity.
Qed.

Lemma expected_fieldlike pos t d ref : c04_fieldlike pos = true ->
  c04_expected_optional (c04_expect_of pos t d ref) = is_optional t || d.
Proof.
  intros Hp. unfold c04_expected_optional, c04_expect_of. cbn [c04e_depth c04e_default c04e_pos].
  rewrite Hp, andb_true_r, is_optional_depth. reflexivity.
Qed.
Lemma expected_plain pos t ref : c04_expected_optional (c04_expect_of pos t false ref) = is_optional t.
Proof.
  unfold c04_expected_optional, c04_expect_of. cbn [c04e_depth c04e_default c04e_pos].
  rewrite is_optional_depth. cbn [andb]. apply orb_false_r.
Qed.
Lemma expected_null_not_ts L pos t d ref : L <> TypeScript -> c04_expected_null_union L (c04_expect_of pos t d ref) = false.
Proof. destruct L; try reflexivity. congruence. Qed.

Lemma strip_xopt_not x : c04_is_xopt x = false -> c04_strip_xopt x = x.
Proof. destruct x; try reflexivity; discriminate. Qed.
Lemma strip_not_optional t : is_optional t = false -> c04_strip t = t.
Proof. destruct t; try reflexivity; discriminate. Qed.

(* a position whose marker is the optional constructor at the head of its type: once the translator is
   known to put that constructor exactly on Option<_>, the row is good *)
Lemma typed_good L show decl member pos t x y :
  L <> TypeScript -> c04_is_xopt x = is_optional t -> c04_strip_xopt x = y ->
  good_C04 L (c04_expect_of pos t false (show y)) (c04r_seen (c04_typed show decl member pos x)) = true.
Proof.
  intros HL Hh Hs. apply good_intro; cbn [c04_typed c04_mk c04r_seen c04s_type_mark c04s_init_mark c04s_base c04s_null_union].
  - now rewrite expected_plain.
  - now rewrite expected_plain.
  - now rewrite Hs.
  - now rewrite expected_null_not_ts.
Qed.

(* ======================================================================================== Kotlin *)
Section KT.
Variable cfg : kt_config.

Lemma kt_texp_strip g t x : kt_texp cfg g t = Ok x ->
  exists y, kt_texp cfg g (c04_strip t) = Ok y /\ c04_strip_xopt x = y /\ c04_is_xopt x = is_optional t.
Proof.
  intros H. destruct t as [id|id ps|e|e n|e|k v|e|p]; cbn [c04_strip is_optional];
    try (exists x; split; [exact H|]; split; [apply strip_xopt_not|]).
  all: try (cbn [kt_texp] in H; unfold kt_format_simple_type, bind in H;
            repeat match type of H with
                   | context [match ?e with _ => _ end] => destruct e
                   end; try discriminate; injection H as <-; reflexivity).
  (* Option<e> *)
  cbn [kt_texp] in H. destruct (kt_texp cfg g e) as [y| |]; cbn [bind] in H; try discriminate.
  injection H as <-. exists y. repeat split.
Qed.

Theorem kt_field_good f g rsn vis m decl pos :
  c04_fieldlike pos = true -> type_override f Kotlin = None ->
  kt_member_of cfg f g rsn vis = Ok m ->
  exists y, kt_texp cfg g (c04_strip (fty f)) = Ok y /\
    good_C04 Kotlin (c04_expect_of pos (fty f) (has_default f) (kt_show y)) (c04r_seen (kt_c04_member decl pos m)) = true.
Proof.
  intros Hp Hov H. unfold kt_member_of in H. rewrite Hov in H.
  destruct (kt_texp cfg g (fty f)) as [x| |] eqn:Ex; cbn [bind] in H; try discriminate.
  injection H as <-. destruct (kt_texp_strip _ _ _ Ex) as (y & Hy & Hs & Hh). exists y. split; [exact Hy|].
  apply good_intro; unfold kt_c04_member; cbn [c04_mk c04r_seen c04s_type_mark c04s_init_mark c04s_base c04s_null_union km_default km_type];
    rewrite ?(expected_fieldlike _ _ _ _ Hp), ?expected_null_not_ts by discriminate; cbn [c04_expect_of c04e_ref].
  - rewrite Hh. destruct (has_default f), (is_optional (fty f)); reflexivity.
  - destruct (has_default f), (is_optional (fty f)); reflexivity.
  - destruct (has_default f) eqn:Ed, (is_optional (fty f)) eqn:Eo; cbn [andb negb]; try (now rewrite Hs).
    rewrite (strip_not_optional _ Eo) in Hy. congruence.
  - reflexivity.
Qed.

Theorem kt_payload_good sh t vsh v :
  kt_variant_of cfg sh (VTuple t vsh) = Ok v ->
  exists x y, kv_payload v = KTPNewtype x /\ kt_texp cfg (egenerics sh) (c04_strip t) = Ok y /\
    forall decl member, good_C04 Kotlin (c04_expect_of C04Payload t false (kt_show y)) (c04r_seen (c04_typed kt_show decl member C04Payload x)) = true.
Proof.
  intros H. unfold kt_variant_of in H.
  destruct (kt_texp cfg (egenerics sh) t) as [x| |] eqn:Ex; cbn [bind] in H; try discriminate.
  injection H as <-. destruct (kt_texp_strip _ _ _ Ex) as (y & Hy & Hs & Hh).
  exists x, y. repeat split; [exact Hy|]. intros. apply typed_good; [discriminate|exact Hh|exact Hs].
Qed.

Theorem kt_alias_good a d :
  kt_is_inline (adecs a) = false -> kt_alias_decl cfg a = Ok d ->
  exists x y, kt_c04_rows d = [c04_typed kt_show (kt_prefix cfg ++ original (aid a)) [] C04Alias x] /\
    kt_texp cfg (agenerics a) (c04_strip (atype a)) = Ok y /\
    good_C04 Kotlin (c04_expect_of C04Alias (atype a) false (kt_show y))
             (c04r_seen (c04_typed kt_show (kt_prefix cfg ++ original (aid a)) [] C04Alias x)) = true.
Proof.
  intros Hi H. unfold kt_alias_decl in H. rewrite Hi in H.
  destruct (kt_texp cfg (agenerics a) (atype a)) as [x| |] eqn:Ex; cbn [bind] in H; try discriminate.
  injection H as <-. destruct (kt_texp_strip _ _ _ Ex) as (y & Hy & Hs & Hh).
  exists x, y. repeat split; [exact Hy|]. apply typed_good; [discriminate|exact Hh|exact Hs].
Qed.
End KT.
