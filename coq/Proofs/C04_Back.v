(* C04, back ends.  For each of the six printers' decision layers (Model/Lang/*.v) and each position
   the property speaks about (struct field / struct-variant field, newtype payload, alias target):
   the row the reader (Spec/C04Readers.v) sees in the declaration satisfies good_C04 against the
   expectation computed from the IR (Option depth, has_default) and the type the SAME translator
   gives for the type with one Option layer removed.
   Shape per language:  [L_texp_strip]  the translator maps Option<T> to its optional constructor
   around the translation of T, and nothing else to an optional constructor (case analysis of the
   translator, no size bound);  then the marker expressions of write_field & co are compared with
   the specification by Boolean case analysis. *)
From Coq Require Import String List Bool Arith Lia.
From TS Require Import Model.Str Model.Outcome Model.Unicode Model.Types Model.Parse Model.Lang.Common Model.Lang.Decl
                       Model.Lang.TypeScript Model.Lang.Kotlin Model.Lang.Swift Model.Lang.Scala Model.Lang.Go Model.Lang.Python.
From TS Require Import Spec.C04Spec Spec.C04Readers.
From TS Require Import Proofs.BackCommon Proofs.C04 Proofs.GoAcronyms.
Import ListNotations.
Local Open Scope nat_scope.

(* the expectation at a position whose IR type is [t] *)
Definition c04_expect_of (pos : c04_pos) (t : rtype) (dflt : bool) (ref : str) : c04_expect :=
  {| c04e_pos := pos; c04e_depth := rtype_opt_depth t; c04e_default := dflt; c04e_ref := ref |}.

Lemma good_intro L e s :
  c04s_type_mark s = c04_expected_optional e -> c04s_init_mark s = c04_expected_optional e ->
  c04s_base s = c04e_ref e -> c04s_null_union s = c04_expected_null_union L e ->
  good_C04 L e s = true.
Proof.
  intros H1 H2 H3 H4. unfold good_C04. rewrite H1, H2, H3, H4, !Bool.eqb_reflx, str_eqb_refl. reflexivity.
Qed.

Lemma expected_fieldlike pos t d ref : c04_fieldlike pos = true ->
  c04_expected_optional (c04_expect_of pos t d ref) = is_optional t || d.
Proof.
  intros Hp. unfold c04_expected_optional, c04_expect_of. cbn [c04e_depth c04e_default c04e_pos].
  rewrite Hp, andb_true_r, is_optional_depth. reflexivity.
Qed.
Lemma expected_plain pos t ref : c04_expected_optional (c04_expect_of pos t false ref) = is_optional t.
Proof.
  unfold c04_expected_optional, c04_expect_of. cbn [c04e_depth c04e_default c04e_pos].
  rewrite is_optional_depth. cbn [andb]. apply orb_false_r.
Qed.
Lemma expected_null_not_ts L pos t d ref : L <> TypeScript -> c04_expected_null_union L (c04_expect_of pos t d ref) = false.
Proof. destruct L; try reflexivity. congruence. Qed.

Lemma strip_xopt_not x : c04_is_xopt x = false -> c04_strip_xopt x = x.
Proof. destruct x; try reflexivity; discriminate. Qed.
Lemma strip_not_optional t : is_optional t = false -> c04_strip t = t.
Proof. destruct t; try reflexivity; discriminate. Qed.

(* a position whose marker is the optional constructor at the head of its type: once the translator is
   known to put that constructor exactly on Option<_>, the row is good *)
Lemma typed_good L show decl member pos t x y :
  L <> TypeScript -> c04_is_xopt x = is_optional t -> c04_strip_xopt x = y ->
  good_C04 L (c04_expect_of pos t false (show y)) (c04r_seen (c04_typed show decl member pos x)) = true.
Proof.
  intros HL Hh Hs. apply good_intro; cbn [c04_typed c04_mk c04r_seen c04s_type_mark c04s_init_mark c04s_base c04s_null_union].
  - now rewrite expected_plain.
  - now rewrite expected_plain.
  - now rewrite Hs.
  - now rewrite expected_null_not_ts.
Qed.

(* ======================================================================================== Kotlin *)
Section KT.
Variable cfg : kt_config.

Lemma kt_texp_strip g t x : kt_texp cfg g t = Ok x ->
  exists y, kt_texp cfg g (c04_strip t) = Ok y /\ c04_strip_xopt x = y /\ c04_is_xopt x = is_optional t.
Proof.
  intros H. destruct t as [id|id ps|e|e n|e|k v|e|p]; cbn [c04_strip is_optional];
    try (exists x; split; [exact H|]; split; [apply strip_xopt_not|]).
  all: try (cbn [kt_texp] in H; unfold kt_format_simple_type, bind in H;
            repeat match type of H with
                   | context [match ?e with _ => _ end] => destruct e
                   end; try discriminate; injection H as <-; reflexivity).
  (* Option<e> *)
  cbn [kt_texp] in H. destruct (kt_texp cfg g e) as [y| |]; cbn [bind] in H; try discriminate.
  injection H as <-. exists y. repeat split.
Qed.

Theorem kt_field_good f g rsn vis m decl pos :
  c04_fieldlike pos = true -> type_override f Kotlin = None ->
  kt_member_of cfg f g rsn vis = Ok m ->
  exists y, kt_texp cfg g (c04_strip (fty f)) = Ok y /\
    good_C04 Kotlin (c04_expect_of pos (fty f) (has_default f) (kt_show y)) (c04r_seen (kt_c04_member decl pos m)) = true.
Proof.
  intros Hp Hov H. unfold kt_member_of in H. rewrite Hov in H.
  destruct (kt_texp cfg g (fty f)) as [x| |] eqn:Ex; cbn [bind] in H; try discriminate.
  injection H as <-. destruct (kt_texp_strip _ _ _ Ex) as (y & Hy & Hs & Hh). exists y. split; [exact Hy|].
  apply good_intro; unfold kt_c04_member; cbn [c04_mk c04r_seen c04s_type_mark c04s_init_mark c04s_base c04s_null_union km_default km_type];
    rewrite ?(expected_fieldlike _ _ _ _ Hp), ?expected_null_not_ts by discriminate; cbn [c04_expect_of c04e_ref].
  - rewrite Hh. destruct (has_default f), (is_optional (fty f)); reflexivity.
  - destruct (has_default f), (is_optional (fty f)); reflexivity.
  - destruct (has_default f) eqn:Ed, (is_optional (fty f)) eqn:Eo; cbn [andb negb]; try (now rewrite Hs).
    rewrite (strip_not_optional _ Eo) in Hy. congruence.
  - reflexivity.
Qed.

Theorem kt_payload_good sh t vsh v :
  kt_variant_of cfg sh (VTuple t vsh) = Ok v ->
  exists x y, kv_payload v = KTPNewtype x /\ kt_texp cfg (egenerics sh) (c04_strip t) = Ok y /\
    forall decl member, good_C04 Kotlin (c04_expect_of C04Payload t false (kt_show y)) (c04r_seen (c04_typed kt_show decl member C04Payload x)) = true.
Proof.
  intros H. unfold kt_variant_of in H.
  destruct (kt_texp cfg (egenerics sh) t) as [x| |] eqn:Ex; cbn [bind] in H; try discriminate.
  injection H as <-. destruct (kt_texp_strip _ _ _ Ex) as (y & Hy & Hs & Hh).
  exists x, y. repeat split; [exact Hy|]. intros. apply typed_good; [discriminate|exact Hh|exact Hs].
Qed.

Theorem kt_alias_good a d :
  kt_is_inline (adecs a) = false -> kt_alias_decl cfg a = Ok d ->
  exists x y, kt_c04_rows d = [c04_typed kt_show (kt_prefix cfg ++ original (aid a)) [] C04Alias x] /\
    kt_texp cfg (agenerics a) (c04_strip (atype a)) = Ok y /\
    good_C04 Kotlin (c04_expect_of C04Alias (atype a) false (kt_show y))
             (c04r_seen (c04_typed kt_show (kt_prefix cfg ++ original (aid a)) [] C04Alias x)) = true.
Proof.
  intros Hi H. unfold kt_alias_decl in H. rewrite Hi in H.
  destruct (kt_texp cfg (agenerics a) (atype a)) as [x| |] eqn:Ex; cbn [bind] in H; try discriminate.
  injection H as <-. destruct (kt_texp_strip _ _ _ Ex) as (y & Hy & Hs & Hh).
  exists x, y. repeat split; [exact Hy|]. apply typed_good; [discriminate|exact Hh|exact Hs].
Qed.
End KT.

(* ======================================================================================== Scala *)
Section SC.
Variable cfg : sc_config.

Lemma sc_texp_strip g t x : sc_texp cfg g t = Ok x ->
  exists y, sc_texp cfg g (c04_strip t) = Ok y /\ c04_strip_xopt x = y /\ c04_is_xopt x = is_optional t.
Proof.
  intros H. destruct t as [id|id ps|e|e n|e|k v|e|p]; cbn [c04_strip is_optional];
    try (exists x; split; [exact H|]; split; [apply strip_xopt_not|]).
  all: try (cbn [sc_texp] in H; unfold bind in H;
            repeat match type of H with
                   | context [match ?e with _ => _ end] => destruct e
                   end; try discriminate; injection H as <-; reflexivity).
  cbn [sc_texp] in H. destruct (sc_texp cfg g e) as [y| |]; cbn [bind] in H; try discriminate.
  injection H as <-. exists y. repeat split.
Qed.

(* outside the recorded class C04-scala-default: `x: Option[T] = None` iff Option (a default on a
   non-Option field is the finding) *)
Theorem sc_field_good f g m decl pos :
  c04_fieldlike pos = true -> type_override f Scala = None ->
  sc_member_of cfg g f = Ok m ->
  exists y, sc_texp cfg g (c04_strip (fty f)) = Ok y /\
    (known_C04 Scala (c04_expect_of pos (fty f) (has_default f) (sc_show y)) = None ->
     good_C04 Scala (c04_expect_of pos (fty f) (has_default f) (sc_show y)) (c04r_seen (sc_c04_member decl m)) = true).
Proof.
  intros Hp Hov H. unfold sc_member_of in H. rewrite Hov in H.
  destruct (sc_texp cfg g (fty f)) as [x| |] eqn:Ex; cbn [bind] in H; try discriminate.
  injection H as <-. destruct (sc_texp_strip _ _ _ Ex) as (y & Hy & Hs & Hh). exists y. split; [exact Hy|].
  intros Hk. unfold known_C04, c04_expect_of in Hk. cbn [c04e_pos c04e_default c04e_depth] in Hk. rewrite Hp in Hk.
  assert (Hd : has_default f && negb (is_optional (fty f)) = false).
  { rewrite is_optional_depth. destruct (has_default f); [|reflexivity].
    destruct (rtype_opt_depth (fty f)); [discriminate|reflexivity]. }
  apply good_intro; unfold sc_c04_member; cbn [c04_mk c04r_seen c04s_type_mark c04s_init_mark c04s_base c04s_null_union scm_default scm_type];
    rewrite ?(expected_fieldlike _ _ _ _ Hp), ?expected_null_not_ts by discriminate; cbn [c04_expect_of c04e_ref].
  - rewrite Hh. destruct (has_default f), (is_optional (fty f)); try reflexivity; discriminate.
  - rewrite Hd. destruct (has_default f), (is_optional (fty f)); try reflexivity; discriminate.
  - now rewrite Hs.
  - reflexivity.
Qed.

Theorem sc_payload_good content e t vsh v :
  sc_variant_of_algebraic cfg content e (VTuple t vsh) = Ok v ->
  exists x y, scv_payload v = SCPayTuple (egenerics e) content x /\ sc_texp cfg (egenerics e) (c04_strip t) = Ok y /\
    forall decl member, good_C04 Scala (c04_expect_of C04Payload t false (sc_show y)) (c04r_seen (c04_typed sc_show decl member C04Payload x)) = true.
Proof.
  intros H. unfold sc_variant_of_algebraic in H.
  destruct (sc_texp cfg (egenerics e) t) as [x| |] eqn:Ex; cbn [bind] in H; try discriminate.
  injection H as <-. destruct (sc_texp_strip _ _ _ Ex) as (y & Hy & Hs & Hh).
  exists x, y. repeat split; [exact Hy|]. intros. apply typed_good; [discriminate|exact Hh|exact Hs].
Qed.

Theorem sc_alias_good a ds :
  sc_decl_of cfg (ItAlias a) = Ok ds ->
  exists x y, flat_map sc_c04_rows ds = [c04_typed sc_show (original (aid a)) [] C04Alias x] /\
    sc_texp cfg (agenerics a) (c04_strip (atype a)) = Ok y /\
    good_C04 Scala (c04_expect_of C04Alias (atype a) false (sc_show y))
             (c04r_seen (c04_typed sc_show (original (aid a)) [] C04Alias x)) = true.
Proof.
  intros H. cbn [sc_decl_of] in H.
  destruct (sc_texp cfg (agenerics a) (atype a)) as [x| |] eqn:Ex; cbn [bind] in H; try discriminate.
  injection H as <-. destruct (sc_texp_strip _ _ _ Ex) as (y & Hy & Hs & Hh).
  exists x, y. repeat split; [exact Hy|]. apply typed_good; [discriminate|exact Hh|exact Hs].
Qed.
End SC.

(* ======================================================================================== TypeScript *)
Section TS.
Variable cfg : ts_config.

(* "We add optionality above the type formatting level": Option<T> formats as T (unless the DISPLAY of
   the Option type is itself a key of type_mappings) *)
Lemma ts_texp_strip g t s :
  (is_optional t = true -> tmap_get (ts_type_mappings cfg) (rtype_display t) = None) ->
  ts_texp cfg g t s = ts_texp cfg g (c04_strip t) s.
Proof.
  intros Hm. destruct t; try reflexivity. cbn [c04_strip]. cbn [ts_texp]. rewrite (Hm eq_refl). reflexivity.
Qed.

Theorem ts_field_good f g s m s' decl pos :
  c04_fieldlike pos = true -> type_override f TypeScript = None ->
  (is_optional (fty f) = true -> tmap_get (ts_type_mappings cfg) (rtype_display (fty f)) = None) ->
  ts_member_of cfg g f s = Ok (m, s') ->
  exists y s2, ts_texp cfg g (c04_strip (fty f)) s = Ok (y, s2) /\
    good_C04 TypeScript (c04_expect_of pos (fty f) (has_default f) (ts_show y)) (c04r_seen (ts_c04_member decl pos m)) = true.
Proof.
  intros Hp Hov Hm H. unfold ts_member_of in H. rewrite Hov in H.
  apply mbind_ok in H as (ty & s1 & Hty & H). apply mbind_ok in H as (s2 & s3 & _ & H).
  apply mbind_ok in H as (u & s4 & _ & H). unfold ret in H. injection H as <- _.
  rewrite (ts_texp_strip _ _ _ Hm) in Hty. exists ty, s1. split; [exact Hty|].
  apply good_intro; unfold ts_c04_member; cbn [c04_mk c04r_seen c04s_type_mark c04s_init_mark c04s_base c04s_null_union tm_optional tm_type tm_null_union tm_key];
    rewrite ?(expected_fieldlike _ _ _ _ Hp); cbn [c04_expect_of c04e_ref]; try reflexivity.
  unfold c04_expected_null_union. cbn [c04e_depth]. apply is_double_optional_depth.
Qed.

(* newtype payload: `content?: T`, and `content?: T | null` for Option<Option<T>> (typescript.rs:312; the former class
   C04-ts-double-nonfield is repaired, so there is no carve-out) *)
Theorem ts_payload_good g ue t vsh s v s' :
  (is_optional t = true -> tmap_get (ts_type_mappings cfg) (rtype_display t) = None) ->
  ts_variant_of cfg g ue (VTuple t vsh) s = Ok (v, s') ->
  exists y, ts_texp cfg g (c04_strip t) s = Ok (y, s') /\
    v = TVTuple (vcomments vsh) (renamed (vid vsh)) y (is_optional t) (is_double_optional t) /\
    forall docs decl gs tag content,
      ts_c04_rows (TSUnion docs decl gs tag content [v]) =
        [c04_mk decl (renamed (vid vsh)) C04Payload (is_optional t) (is_optional t) (is_double_optional t) (ts_show y) (ts_show y)] /\
      good_C04 TypeScript (c04_expect_of C04Payload t false (ts_show y))
               (c04r_seen (c04_mk decl (renamed (vid vsh)) C04Payload (is_optional t) (is_optional t) (is_double_optional t) (ts_show y) (ts_show y))) = true.
Proof.
  intros Hm H. cbn [ts_variant_of] in H. apply mbind_ok in H as (ty & s1 & Hty & H). unfold ret in H. injection H as <- <-.
  rewrite (ts_texp_strip _ _ _ Hm) in Hty. exists ty. repeat split; [exact Hty|].
  apply good_intro; cbn [c04_mk c04r_seen c04s_type_mark c04s_init_mark c04s_base c04s_null_union];
    rewrite ?expected_plain; try reflexivity.
  unfold c04_expected_null_union, c04_expect_of. cbn [c04e_depth]. apply is_double_optional_depth.
Qed.

(* alias target: `type A = T | undefined`, and `type A = T | null | undefined` for Option<Option<T>> (typescript.rs:169) *)
Theorem ts_alias_good uc a s d s' :
  (is_optional (atype a) = true -> tmap_get (ts_type_mappings cfg) (rtype_display (atype a)) = None) ->
  ts_decl_of uc cfg (ItAlias a) s = Ok (d, s') ->
  exists y, ts_texp cfg (agenerics a) (c04_strip (atype a)) s = Ok (y, s') /\
    ts_c04_rows d = [c04_mk (renamed (aid a)) [] C04Alias (is_optional (atype a)) (is_optional (atype a)) (is_double_optional (atype a)) (ts_show y) (ts_show y)] /\
    good_C04 TypeScript (c04_expect_of C04Alias (atype a) false (ts_show y))
             (c04r_seen (c04_mk (renamed (aid a)) [] C04Alias (is_optional (atype a)) (is_optional (atype a)) (is_double_optional (atype a)) (ts_show y) (ts_show y))) = true.
Proof.
  intros Hm H. cbn [ts_decl_of] in H. apply mbind_ok in H as (ty & s1 & Hty & H). unfold ret in H. injection H as <- <-.
  rewrite (ts_texp_strip _ _ _ Hm) in Hty. exists ty. repeat split; [exact Hty|].
  apply good_intro; cbn [c04_mk c04r_seen c04s_type_mark c04s_init_mark c04s_base c04s_null_union];
    rewrite ?expected_plain; try reflexivity.
  unfold c04_expected_null_union, c04_expect_of. cbn [c04e_depth]. apply is_double_optional_depth.
Qed.

(* `?` and `| null` are both printed for Option<Option<T>>, and the printed member differs from the one of
   Option<T>: the two flags are independent pieces of the line *)
Theorem ts_double_distinguishable m1 m2 :
  tm_docs m1 = tm_docs m2 -> tm_readonly m1 = tm_readonly m2 -> tm_key m1 = tm_key m2 ->
  tm_optional m1 = tm_optional m2 -> tm_type m1 = tm_type m2 ->
  ts_render_member m1 = ts_render_member m2 -> tm_null_union m1 = tm_null_union m2.
Proof.
  intros Hd Hr Hk Ho Ht H. unfold ts_render_member in H. rewrite Hd, Hr, Hk, Ho, Ht in H.
  repeat apply app_inv_head in H.
  destruct (tm_null_union m1), (tm_null_union m2); try reflexivity; discriminate.
Qed.

(* the same at a newtype payload (`{ t: "V", c?: T | null }` vs `{ t: "V", c?: T }`) and at an alias target
   (`type A = T | null | undefined;` vs `type A = T | undefined;`): two declarations that differ at most in the
   `| null` flag and are printed alike have the same flag *)
Theorem ts_double_distinguishable_payload tag content docs wire ty opt n1 n2 :
  ts_render_variant tag content (TVTuple docs wire ty opt n1) = ts_render_variant tag content (TVTuple docs wire ty opt n2) -> n1 = n2.
Proof.
  intros H. cbn [ts_render_variant] in H. repeat apply app_inv_head in H.
  destruct n1, n2; try reflexivity; discriminate.
Qed.

Theorem ts_double_distinguishable_alias docs name gs ty undef n1 n2 :
  ts_render_decl (TSAlias docs name gs ty undef n1) = ts_render_decl (TSAlias docs name gs ty undef n2) -> n1 = n2.
Proof.
  intros H. cbn [ts_render_decl] in H. repeat apply app_inv_head in H.
  destruct n1, n2, undef; try reflexivity; discriminate.
Qed.
End TS.

(* ======================================================================================== Swift *)
Section SW.
Variable uc : unicode.
Variable cfg : sw_config.

Lemma sw_texp_strip g t s x s' : sw_texp cfg g t s = Ok (x, s') ->
  exists y s1 s2, sw_texp cfg g (c04_strip t) s1 = Ok (y, s2) /\ c04_strip_xopt x = y /\ c04_is_xopt x = is_optional t.
Proof.
  intros H. destruct t as [id|id ps|e|e n|e|k v|e|p]; cbn [c04_strip is_optional];
    try (exists x, s, s'; split; [exact H|]; split; [apply strip_xopt_not|]).
  all: try (cbn [sw_texp] in H; unfold sw_simple_texp, mbind, ret, fail, mput in H;
            repeat match type of H with
                   | context [match ?e with _ => _ end] => destruct e
                   end; try discriminate; injection H as <- _; reflexivity).
  cbn [sw_texp] in H. apply mbind_ok in H as (y & s1 & Hy & H). unfold ret in H. injection H as <- _.
  exists y, s, s1. repeat split. exact Hy.
Qed.

(* the stored property and the init parameter are formatted separately (swift.rs:334, :369): both carry
   the `?` iff Option or default, and the type under it is the translation of T *)
Theorem sw_field_good f g s ty s' s2 ity s2' decl :
  type_override f Swift = None ->
  sw_field_texp cfg g f s = Ok (ty, s') -> sw_field_texp cfg g f s2 = Ok (ity, s2') ->
  exists y s3 s4, sw_texp cfg g (c04_strip (fty f)) s3 = Ok (y, s4) /\
    good_C04 Swift (c04_expect_of C04Field (fty f) (has_default f) (sw_show y))
             (c04r_seen (sw_c04_member decl (sw_member_of uc f ty ity))) = true.
Proof.
  intros Hov H1 H2. unfold sw_field_texp in H1, H2. rewrite Hov in H1, H2.
  destruct (sw_texp_strip _ _ _ _ _ H1) as (y & s3 & s4 & Hy & Hs & Hh).
  destruct (sw_texp_strip _ _ _ _ _ H2) as (y2 & _ & _ & _ & _ & Hh2).
  exists y, s3, s4. split; [exact Hy|].
  apply good_intro; unfold sw_c04_member, sw_member_of;
    cbn [c04_mk c04r_seen c04s_type_mark c04s_init_mark c04s_base c04s_null_union swm_default_opt swm_type swm_init_type];
    rewrite ?(expected_fieldlike C04Field _ _ _ eq_refl), ?expected_null_not_ts by discriminate; cbn [c04_expect_of c04e_ref].
  - rewrite Hh. destruct (has_default f), (is_optional (fty f)); reflexivity.
  - rewrite Hh2. destruct (has_default f), (is_optional (fty f)); reflexivity.
  - destruct (has_default f) eqn:Ed, (is_optional (fty f)) eqn:Eo; cbn [andb negb]; try (now rewrite Hs).
    rewrite <- Hs. rewrite strip_xopt_not by (now rewrite Hh). reflexivity.
  - reflexivity.
Qed.

(* newtype payload `case v(T?)`: the `?` and the decodeNil branch are there iff Option *)
Theorem sw_payload_good shared t vsh s v s' :
  sw_variant_of uc cfg shared (VTuple t vsh) s = Ok (v, s') ->
  exists x esc y s3 s4, swv_payload v = SWPTuple x esc (is_optional t) /\
    sw_texp cfg (egenerics shared) (c04_strip t) s3 = Ok (y, s4) /\
    forall decl member,
      good_C04 Swift (c04_expect_of C04Payload t false (sw_show y))
               (c04r_seen (c04_mk decl member C04Payload (c04_is_xopt x) (is_optional t) false (sw_show (c04_strip_xopt x)) (sw_show x))) = true.
Proof.
  intros H. unfold sw_variant_of in H. apply mbind_ok in H as (camel & s1 & _ & H).
  apply mbind_ok in H as (payload & s2 & Hp & H). unfold ret in H. injection H as <- _.
  cbn [swv_payload]. apply mbind_ok in Hp as (x & s3 & Hx & Hp). unfold ret in Hp. injection Hp as <- _.
  destruct (sw_texp_strip _ _ _ _ _ Hx) as (y & s4 & s5 & Hy & Hs & Hh).
  exists x, (sw_is_keyword (sw_show x)), y, s4, s5. repeat split; [exact Hy|].
  intros. apply good_intro; cbn [c04_mk c04r_seen c04s_type_mark c04s_init_mark c04s_base c04s_null_union];
    rewrite ?expected_plain, ?expected_null_not_ts by discriminate; cbn [c04_expect_of c04e_ref]; congruence.
Qed.

Theorem sw_alias_good a s d s' :
  sw_decl_of uc cfg (ItAlias a) s = Ok (d, s') ->
  exists x y s3 s4, sw_c04_rows d = [c04_typed sw_show (sw_prefix cfg ++ renamed (aid a)) [] C04Alias x] /\
    sw_texp cfg (agenerics a) (c04_strip (atype a)) s3 = Ok (y, s4) /\
    good_C04 Swift (c04_expect_of C04Alias (atype a) false (sw_show y))
             (c04r_seen (c04_typed sw_show (sw_prefix cfg ++ renamed (aid a)) [] C04Alias x)) = true.
Proof.
  intros H. cbn [sw_decl_of] in H. apply mbind_ok in H as (x & s1 & Hx & H). unfold ret in H. injection H as <- _.
  destruct (sw_texp_strip _ _ _ _ _ Hx) as (y & s3 & s4 & Hy & Hs & Hh).
  exists x, y, s3, s4. repeat split; [exact Hy|]. apply typed_good; [discriminate|exact Hh|exact Hs].
Qed.
End SW.

(* ======================================================================================== Python *)
Section PY.
Variable uc : unicode.
Variable cfg : py_config.

Lemma py_texp_strip g t s x s' :
  (is_optional t = true -> tmap_get (py_type_mappings cfg) (rtype_display t) = None) ->
  py_texp cfg g t s = Ok (x, s') ->
  exists y s1 s2, py_texp cfg g (c04_strip t) s1 = Ok (y, s2) /\ c04_strip_xopt x = y /\ c04_is_xopt x = is_optional t.
Proof.
  intros Hm H. destruct t as [id|id ps|e|e n|e|k v|e|p]; cbn [c04_strip is_optional];
    try (exists x, s, s'; split; [exact H|]; split; [apply strip_xopt_not|]).
  all: try (cbn [py_texp] in H; unfold mbind, ret, fail in H;
            repeat match type of H with
                   | context [match ?e with _ => _ end] => destruct e
                   end; try discriminate; injection H as <- _; reflexivity).
  cbn [py_texp] in H. rewrite (Hm eq_refl) in H.
  apply mbind_ok in H as (u & s1 & _ & H). apply mbind_ok in H as (y & s2 & Hy & H). unfold ret in H. injection H as <- _.
  exists y, s1, s2. repeat split. exact Hy.
Qed.

(* `x: Optional[T] = Field(default=None)` iff Option or default *)
Theorem py_field_good f g s m s' decl :
  (is_optional (fty f) = true -> tmap_get (py_type_mappings cfg) (rtype_display (fty f)) = None) ->
  py_member_of uc cfg g f s = Ok (m, s') ->
  exists y s3 s4, py_texp cfg g (c04_strip (fty f)) s3 = Ok (y, s4) /\
    good_C04 Python (c04_expect_of C04Field (fty f) (has_default f) (py_show y)) (c04r_seen (py_c04_member decl m)) = true.
Proof.
  intros Hm H. unfold py_member_of in H. apply mbind_ok in H as (ty & s1 & Hty & H).
  apply mbind_ok in H as (u & s2 & _ & H). apply mbind_ok in H as (ann & s3 & _ & H). unfold ret in H. injection H as <- _.
  destruct (py_texp_strip _ _ _ _ _ Hm Hty) as (y & s4 & s5 & Hy & Hs & Hh). exists y, s4, s5. split; [exact Hy|].
  apply good_intro; unfold py_c04_member;
    cbn [c04_mk c04r_seen c04s_type_mark c04s_init_mark c04s_base c04s_null_union pym_type pym_default_none];
    rewrite ?(expected_fieldlike C04Field _ _ _ eq_refl), ?expected_null_not_ts by discriminate; cbn [c04_expect_of c04e_ref].
  - destruct (has_default f), (is_optional (fty f)) eqn:Eo; cbn [negb andb c04_is_xopt]; try reflexivity; rewrite Hh; reflexivity.
  - destruct (has_default f), (is_optional (fty f)); reflexivity.
  - destruct (has_default f) eqn:Ed, (is_optional (fty f)) eqn:Eo; cbn [negb andb c04_strip_xopt]; try (now rewrite Hs).
    rewrite <- Hs. rewrite strip_xopt_not by (now rewrite Hh). reflexivity.
  - reflexivity.
Qed.

Theorem py_payload_good en tn sh t vsh s v s' :
  (is_optional t = true -> tmap_get (py_type_mappings cfg) (rtype_display t) = None) ->
  py_variant_of uc cfg en tn sh (VTuple t vsh) s = Ok (v, s') ->
  exists x y s3 s4, pyv_content v = PYCType x /\ py_texp cfg (egenerics sh) (c04_strip t) s3 = Ok (y, s4) /\
    forall decl member, good_C04 Python (c04_expect_of C04Payload t false (py_show y)) (c04r_seen (c04_typed py_show decl member C04Payload x)) = true.
Proof.
  intros Hm H. cbn [py_variant_of] in H. apply mbind_ok in H as (x & s1 & Hx & H).
  apply mbind_ok in H as (u & s2 & _ & H). unfold ret in H. injection H as <- _.
  destruct (py_texp_strip _ _ _ _ _ Hm Hx) as (y & s3 & s4 & Hy & Hs & Hh).
  exists x, y, s3, s4. repeat split; [exact Hy|]. intros. apply typed_good; [discriminate|exact Hh|exact Hs].
Qed.

Theorem py_alias_good a s ds s' :
  (is_optional (atype a) = true -> tmap_get (py_type_mappings cfg) (rtype_display (atype a)) = None) ->
  py_decl_of uc cfg (ItAlias a) s = Ok (ds, s') ->
  exists x y s3 s4, flat_map py_c04_rows ds = [c04_typed py_show (renamed (aid a)) [] C04Alias x] /\
    py_texp cfg (agenerics a) (c04_strip (atype a)) s3 = Ok (y, s4) /\
    good_C04 Python (c04_expect_of C04Alias (atype a) false (py_show y))
             (c04r_seen (c04_typed py_show (renamed (aid a)) [] C04Alias x)) = true.
Proof.
  intros Hm H. cbn [py_decl_of] in H. apply mbind_ok in H as (x & s1 & Hx & H). apply mbind_ok in H as (utv & stv & _ & H). unfold ret in H. injection H as <- _.
  destruct (py_texp_strip _ _ _ _ _ Hm Hx) as (y & s3 & s4 & Hy & Hs & Hh).
  exists x, y, s3, s4. repeat split; [exact Hy|]. apply typed_good; [discriminate|exact Hh|exact Hs].
Qed.
End PY.

(* ======================================================================================== Go *)

Section GoTyInd.
  Variable P : go_ty -> Prop.
  Hypothesis HN : forall n args, Forall P args -> P (GName n args).
  Hypothesis HS : forall e, P e -> P (GSlice e).
  Hypothesis HA : forall n e, P e -> P (GArray n e).
  Hypothesis HM : forall k v, P k -> P v -> P (GMap k v).
  Hypothesis HP : forall e, P e -> P (GPtr e).
  Hypothesis HR : forall t, P (GRaw t).
  Fixpoint go_ty_ind' (t : go_ty) : P t :=
    match t with
    | GName n args => HN n args ((fix go (l : list go_ty) : Forall P l :=
                                    match l with [] => Forall_nil P | x :: r => Forall_cons x (go_ty_ind' x) (go r) end) args)
    | GSlice e => HS e (go_ty_ind' e)
    | GArray n e => HA n e (go_ty_ind' e)
    | GMap k v => HM k v (go_ty_ind' k) (go_ty_ind' v)
    | GPtr e => HP e (go_ty_ind' e)
    | GRaw t => HR t
    end.
End GoTyInd.

Section GO.
Variable uc : unicode.
Variable cfg : go_config.
(* Option<T> is `*T` unless the display of the Option type is a type_mappings key, or T is a Vec and
   no_pointer_slice is configured (both outside the property's quantifier) *)
Hypothesis Hnps : go_no_pointer_slice cfg = false.

Lemma go_texp_strip g t s x s' :
  (is_optional t = true -> tmap_get (go_type_mappings cfg) (rtype_display t) = None) ->
  go_texp cfg g t s = Ok (x, s') ->
  exists y s1 s2, go_texp cfg g (c04_strip t) s1 = Ok (y, s2) /\ c04_strip_gptr x = y /\ c04_is_gptr x = is_optional t.
Proof.
  intros Hm H. destruct t as [id|id ps|e|e n|e|k v|e|p]; cbn [c04_strip is_optional];
    try (exists x, s, s'; split; [exact H|]; split; [destruct x; try reflexivity|]).
  all: try (cbn [go_texp] in H; unfold mbind, ret, fail, go_add_import in H;
            repeat match type of H with
                   | context [match ?e with _ => _ end] => destruct e
                   end; try discriminate; injection H as <- _; try reflexivity; discriminate).
  all: try (cbn [go_texp] in H; unfold mbind, ret, fail, go_add_import, mget, mput in H;
            repeat match type of H with
                   | context [match ?e with _ => _ end] => destruct e
                   end; try discriminate; injection H as <- _; reflexivity).
  cbn [go_texp] in H. rewrite (Hm eq_refl), Hnps, andb_false_r in H.
  apply mbind_ok in H as (y & s1 & Hy & H). unfold ret in H. injection H as <- _.
  exists y, s, s1. repeat split. exact Hy.
Qed.

(* alias target (go.rs:191: not acronym-converted): `type A *T` iff Option *)
Theorem go_alias_good cs a s ds s' :
  (is_optional (atype a) = true -> tmap_get (go_type_mappings cfg) (rtype_display (atype a)) = None) ->
  go_decl_of uc cfg cs (ItAlias a) s = Ok (ds, s') ->
  exists name x y s3 s4, flat_map go_c04_rows ds = [go_c04_typed name [] C04Alias x] /\
    go_texp cfg [] (c04_strip (atype a)) s3 = Ok (y, s4) /\
    good_C04 Go (c04_expect_of C04Alias (atype a) false (go_show y)) (c04r_seen (go_c04_typed name [] C04Alias x)) = true.
Proof.
  intros Hm H. cbn [go_decl_of] in H. apply mbind_ok in H as (name & s1 & _ & H).
  apply mbind_ok in H as (x & s2 & Hx & H). unfold ret in H. injection H as <- _.
  destruct (go_texp_strip _ _ _ _ _ Hm Hx) as (y & s3 & s4 & Hy & Hs & Hh).
  exists name, x, y, s3, s4. repeat split; [exact Hy|].
  apply good_intro; cbn [go_c04_typed c04_mk c04r_seen c04s_type_mark c04s_init_mark c04s_base c04s_null_union];
    rewrite ?expected_plain, ?expected_null_not_ts by discriminate; cbn [c04_expect_of c04e_ref]; congruence.
Qed.

(* ---- fields and payloads: their type text goes through acronyms_to_uppercase (go.rs:512, :360), a
   textual rewrite. With no uppercase_acronyms configured it is the identity. ---- *)
Hypothesis Hacr : go_uppercase_acronyms cfg = [].

Lemma go_acr_id name s : go_acronyms_to_uppercase uc cfg name s = Ok (name, s).
Proof. unfold go_acronyms_to_uppercase, go_lift. rewrite Hacr. reflexivity. Qed.

Lemma go_ty_acronyms_id t : go_ty_acronyms uc cfg t = Ok t.
Proof.
  induction t as [n args IH|e IH|n e IH|k v IHk IHv|e IH|t] using go_ty_ind'; cbn [go_ty_acronyms]; rewrite ?Hacr;
    cbn [go_convert_acronyms_to_uppercase fold_left bind]; rewrite ?IH, ?IHk, ?IHv; cbn [bind]; try reflexivity.
  assert (E : (fix go (l : list go_ty) : outcome (list go_ty) :=
                 match l with
                 | [] => Ok []
                 | x :: r => do y <- go_ty_acronyms uc cfg x; do ys <- go r; Ok (y :: ys)
                 end) args = Ok args).
  { induction IH as [|x r Hx _ IHr]; [reflexivity|]. rewrite Hx. cbn [bind]. rewrite IHr. reflexivity. }
  rewrite E. reflexivity.
Qed.

Lemma go_acronyms_ty_id t s : go_acronyms_ty uc cfg t s = Ok (t, s).
Proof.
  unfold go_acronyms_ty, mbind. rewrite go_acr_id. unfold ret. rewrite go_ty_acronyms_id, str_eqb_refl. reflexivity.
Qed.

(* `X *T` + `,omitempty` iff Option or default *)
Theorem go_field_good f g s m s' decl :
  type_override f Go = None ->
  (is_optional (fty f) = true -> tmap_get (go_type_mappings cfg) (rtype_display (fty f)) = None) ->
  go_member_of uc cfg g f s = Ok (m, s') ->
  exists y s3 s4, go_texp cfg g (c04_strip (fty f)) s3 = Ok (y, s4) /\
    good_C04 Go (c04_expect_of C04Field (fty f) (has_default f) (go_show y)) (c04r_seen (go_c04_member decl m)) = true.
Proof.
  intros Hov Hm H. unfold go_member_of in H. rewrite Hov in H.
  apply mbind_ok in H as (x & s1 & Hx & H). apply mbind_ok in H as (gt & s2 & Hgt & H).
  apply mbind_ok in H as (fname & s3 & _ & H). unfold ret in H. injection H as <- _.
  rewrite go_acronyms_ty_id in Hgt. injection Hgt as <- _.
  destruct (go_texp_strip _ _ _ _ _ Hm Hx) as (y & s4 & s5 & Hy & Hs & Hh). exists y, s4, s5. split; [exact Hy|].
  apply good_intro; unfold go_c04_member;
    cbn [c04_mk c04r_seen c04s_type_mark c04s_init_mark c04s_base c04s_null_union gm_star gm_type gm_omitempty];
    rewrite ?(expected_fieldlike C04Field _ _ _ eq_refl), ?expected_null_not_ts by discriminate; cbn [c04_expect_of c04e_ref].
  - rewrite Hh. destruct (has_default f), (is_optional (fty f)); reflexivity.
  - reflexivity.
  - destruct (has_default f) eqn:Ed, (is_optional (fty f)) eqn:Eo; cbn [andb negb]; try (now rewrite Hs).
    rewrite <- Hs. destruct x; try reflexivity; discriminate.
  - reflexivity.
Qed.

Theorem go_payload_good sh cs sn tag t vsh s v s' :
  (is_optional t = true -> tmap_get (go_type_mappings cfg) (rtype_display t) = None) ->
  go_variant_of uc cfg sh cs sn tag (VTuple t vsh) s = Ok (v, s') ->
  exists x p y s3 s4, gv_content v = GCType x p /\ go_texp cfg [] (c04_strip t) s3 = Ok (y, s4) /\
    forall decl member, good_C04 Go (c04_expect_of C04Payload t false (go_show y)) (c04r_seen (go_c04_typed decl member C04Payload x)) = true.
Proof.
  intros Hm H. unfold go_variant_of in H. apply mbind_ok in H as (vn & s1 & _ & H).
  apply mbind_ok in H as (vt & s2 & Hvt & H). apply mbind_ok in H as (tp & s3 & _ & H).
  apply mbind_ok in H as (content & s4 & Hc & H). unfold ret in H. injection H as <- _.
  cbn [gv_content]. apply mbind_ok in Hvt as (x & s5 & Hx & Hvt). unfold ret in Hvt. injection Hvt as <- _.
  apply mbind_ok in Hc as (fvt & s6 & Hf & Hc). unfold ret in Hc. injection Hc as <- _.
  rewrite go_acronyms_ty_id in Hf. injection Hf as <- _.
  destruct (go_texp_strip _ _ _ _ _ Hm Hx) as (y & s7 & s8 & Hy & Hs & Hh).
  exists x, (mem_str (go_show x) cs), y, s7, s8. repeat split; [exact Hy|].
  intros. apply good_intro; cbn [go_c04_typed c04_mk c04r_seen c04s_type_mark c04s_init_mark c04s_base c04s_null_union];
    rewrite ?expected_plain, ?expected_null_not_ts by discriminate; cbn [c04_expect_of c04e_ref]; congruence.
Qed.
End GO.

(* ======================================================================================== Go, alphanumeric acronyms *)
(* Proofs/GoAcronyms.v: for an ASCII printed type and alphanumeric acronyms the textual rewrite of go.rs:579
   distributes over the separators of the type syntax, so the decided type is the tree rewritten name by name:
   a leading `*` (and every `[`, `]`, `,`, digit) survives, and what stands under the `*` is exactly the
   rewritten translation of T. *)
Section GOACR.
Variable uc : unicode.
Hypothesis Huc : unicode_ok uc.
Variable cfg : go_config.
Hypothesis Hnps : go_no_pointer_slice cfg = false.
Hypothesis Hacr : forallb (forallb ga_alnum) (go_uppercase_acronyms cfg) = true.

Local Notation T := (ga_T cfg).

Lemma go_map_is_gptr x : c04_is_gptr (ga_ty_map T x) = c04_is_gptr x.
Proof. destruct x; reflexivity. Qed.
Lemma go_map_strip_gptr x : c04_strip_gptr (ga_ty_map T x) = ga_ty_map T (c04_strip_gptr x).
Proof. destruct x; reflexivity. Qed.
Lemma go_strip_gptr_ascii x : ga_ascii (go_show x) -> ga_ascii (go_show (c04_strip_gptr x)).
Proof. destruct x; auto. cbn [c04_strip_gptr]. change (go_show (GPtr x)) with (42%N :: go_show x). now inversion 1. Qed.

Lemma go_texp_ascii_of g t s x s1 : ga_texp_asciib cfg t = true -> go_texp cfg g t s = Ok (x, s1) -> ga_ascii (go_show x).
Proof. unfold ga_texp_asciib. intros H. apply andb_true_iff in H as [Hm Hi]. exact (ga_texp_ascii cfg g t Hm Hi s x s1). Qed.

(* `X *T` + `,omitempty` iff Option or default; the reference text is the REWRITTEN translation of T *)
Theorem go_field_good_acr f g s m s' decl :
  type_override f Go = None ->
  (is_optional (fty f) = true -> tmap_get (go_type_mappings cfg) (rtype_display (fty f)) = None) ->
  ga_texp_asciib cfg (fty f) = true ->
  go_member_of uc cfg g f s = Ok (m, s') ->
  exists y s3 s4 y', go_texp cfg g (c04_strip (fty f)) s3 = Ok (y, s4) /\
    (forall s5, go_acronyms_ty uc cfg y s5 = Ok (y', s5)) /\
    good_C04 Go (c04_expect_of C04Field (fty f) (has_default f) (go_show y')) (c04r_seen (go_c04_member decl m)) = true.
Proof.
  intros Hov Hm Hasc H. unfold go_member_of in H. rewrite Hov in H.
  apply mbind_ok in H as (x & s1 & Hx & H). apply mbind_ok in H as (gt & s2 & Hgt & H).
  apply mbind_ok in H as (fname & s3 & _ & H). unfold ret in H. injection H as <- _.
  pose proof (go_texp_ascii_of _ _ _ _ _ Hasc Hx) as Hax.
  rewrite (ga_acronyms_ty uc Huc cfg Hacr x s1 Hax) in Hgt. injection Hgt as <- _.
  destruct (go_texp_strip cfg Hnps _ _ _ _ _ Hm Hx) as (y & s4 & s5 & Hy & Hs & Hh).
  exists y, s4, s5, (ga_ty_map T y). split; [exact Hy|]. split.
  { intros s6. apply (ga_acronyms_ty uc Huc cfg Hacr). rewrite <- Hs. now apply go_strip_gptr_ascii. }
  apply good_intro; unfold go_c04_member;
    cbn [c04_mk c04r_seen c04s_type_mark c04s_init_mark c04s_base c04s_null_union gm_star gm_type gm_omitempty];
    rewrite ?(expected_fieldlike C04Field _ _ _ eq_refl), ?expected_null_not_ts by discriminate; cbn [c04_expect_of c04e_ref].
  - rewrite go_map_is_gptr, Hh. destruct (has_default f), (is_optional (fty f)); reflexivity.
  - reflexivity.
  - rewrite go_map_strip_gptr, Hs.
    destruct (has_default f) eqn:Ed, (is_optional (fty f)) eqn:Eo; cbn [andb negb]; try reflexivity.
    rewrite <- Hs. destruct x; try reflexivity; discriminate.
  - reflexivity.
Qed.

Theorem go_payload_good_acr sh cs sn tag t vsh s v s' :
  (is_optional t = true -> tmap_get (go_type_mappings cfg) (rtype_display t) = None) ->
  ga_texp_asciib cfg t = true ->
  go_variant_of uc cfg sh cs sn tag (VTuple t vsh) s = Ok (v, s') ->
  exists x p y s3 s4 y', gv_content v = GCType x p /\ go_texp cfg [] (c04_strip t) s3 = Ok (y, s4) /\
    (forall s5, go_acronyms_ty uc cfg y s5 = Ok (y', s5)) /\
    forall decl member, good_C04 Go (c04_expect_of C04Payload t false (go_show y')) (c04r_seen (go_c04_typed decl member C04Payload x)) = true.
Proof.
  intros Hm Hasc H. unfold go_variant_of in H. apply mbind_ok in H as (vn & s1 & _ & H).
  apply mbind_ok in H as (vt & s2 & Hvt & H). apply mbind_ok in H as (tp & s3 & _ & H).
  apply mbind_ok in H as (content & s4 & Hc & H). unfold ret in H. injection H as <- _.
  cbn [gv_content]. apply mbind_ok in Hvt as (x & s5 & Hx & Hvt). unfold ret in Hvt. injection Hvt as <- _.
  apply mbind_ok in Hc as (fvt & s6 & Hf & Hc). unfold ret in Hc. injection Hc as <- _.
  pose proof (go_texp_ascii_of _ _ _ _ _ Hasc Hx) as Hax.
  rewrite (ga_acronyms_ty uc Huc cfg Hacr x _ Hax) in Hf. injection Hf as <- _.
  destruct (go_texp_strip cfg Hnps _ _ _ _ _ Hm Hx) as (y & s7 & s8 & Hy & Hs & Hh).
  exists (ga_ty_map T x), (mem_str (go_show x) cs), y, s7, s8, (ga_ty_map T y). repeat split; [exact Hy| |].
  { intros s9. apply (ga_acronyms_ty uc Huc cfg Hacr). rewrite <- Hs. now apply go_strip_gptr_ascii. }
  intros. apply good_intro; cbn [go_c04_typed c04_mk c04r_seen c04s_type_mark c04s_init_mark c04s_base c04s_null_union];
    rewrite ?expected_plain, ?expected_null_not_ts by discriminate; cbn [c04_expect_of c04e_ref];
    rewrite ?go_map_is_gptr, ?go_map_strip_gptr; congruence.
Qed.
End GOACR.

(* the hypotheses are satisfiable with a real rewrite under the `*`: Option<UserId> with acronym ID is `*UserID` *)
Example go_field_good_acr_nonvacuous :
  let cfg := {| go_package := lit "p"; go_type_mappings := []; go_uppercase_acronyms := [lit "ID"]; go_no_version_header := true;
                go_no_pointer_slice := false; go_version := [] |} in
  let f := {| fid := {| original := lit "owner_id"; renamed := lit "owner_id"; via_serde_rename := false |};
              fty := ROption (RSimple (lit "UserId")); fcomments := []; has_default := false; fdecs := [] |} in
  forallb (forallb ga_alnum) (go_uppercase_acronyms cfg) = true /\ ga_texp_asciib cfg (fty f) = true /\
  exists m st, go_member_of uc_exec cfg [] f [] = Ok (m, st) /\ gm_name m = lit "OwnerID" /\
               go_show (gm_type m) = lit "*UserID".
Proof. cbv zeta. split; [reflexivity|]. split; [reflexivity|]. eexists _, _. repeat split; vm_compute; reflexivity. Qed.

(* ======================================================================================== Go, BOTH values of no_pointer_slice *)
(* go.rs:119 format_special_type: Option<T> is `*T` unless T is a Vec and no_pointer_slice is set: then it is the
   translation of T itself (`[]U`, or the mapped text of the Vec).  write_field decides `,omitempty` and its own `*`
   from the RUST type (field.ty.is_optional(), has_default), never from the printed text. *)
Lemma good_C04_go_false e s : good_C04_go false e s = good_C04 Go e s.
Proof.
  unfold good_C04_go, good_C04. cbn [negb]. rewrite andb_true_r. destruct (c04_fieldlike (c04e_pos e)); reflexivity.
Qed.

Lemma good_go_intro bare e s :
  c04s_type_mark s = (c04_expected_optional e && negb bare) ->
  c04s_init_mark s = (if c04_fieldlike (c04e_pos e) then c04_expected_optional e else c04_expected_optional e && negb bare) ->
  c04s_base s = c04e_ref e -> c04s_null_union s = false ->
  good_C04_go bare e s = true.
Proof.
  intros H1 H2 H3 H4. unfold good_C04_go. rewrite H1, H2, H3, H4, !Bool.eqb_reflx, str_eqb_refl. reflexivity.
Qed.

Lemma go_bare_optional nps t : c04_go_bare nps t = true -> is_optional t = true.
Proof. unfold c04_go_bare. destruct nps; [|discriminate]. destruct t; try discriminate. reflexivity. Qed.

Section GOALL.
Variable uc : unicode.
Hypothesis Huc : unicode_ok uc.
Variable cfg : go_config.
Hypothesis Hacr : forallb (forallb ga_alnum) (go_uppercase_acronyms cfg) = true.

Local Notation T := (ga_T cfg).
Local Notation BARE := (c04_go_bare (go_no_pointer_slice cfg)).

Lemma go_texp_strip_any g t s x s' :
  (is_optional t = true -> tmap_get (go_type_mappings cfg) (rtype_display t) = None) ->
  go_texp cfg g t s = Ok (x, s') ->
  exists y s1 s2, go_texp cfg g (c04_strip t) s1 = Ok (y, s2) /\ c04_strip_gptr x = y /\
                  c04_is_gptr x = is_optional t && negb (BARE t).
Proof.
  intros Hm H. destruct t as [id|id ps|e|e n|e|k v|e|p]; cbn [c04_strip is_optional andb];
    try (exists x, s, s'; split; [exact H|]; split; [destruct x; try reflexivity|]).
  all: try (cbn [go_texp] in H; unfold mbind, ret, fail, go_add_import in H;
            repeat match type of H with
                   | context [match ?e with _ => _ end] => destruct e
                   end; try discriminate; injection H as <- _; try reflexivity; discriminate).
  all: try (cbn [go_texp] in H; unfold mbind, ret, fail, go_add_import, mget, mput in H;
            repeat match type of H with
                   | context [match ?e with _ => _ end] => destruct e
                   end; try discriminate; injection H as <- _; reflexivity).
  cbn [go_texp] in H. rewrite (Hm eq_refl) in H.
  apply mbind_ok in H as (y & s1 & Hy & H). unfold ret in H.
  destruct (is_vec e && go_no_pointer_slice cfg) eqn:Ev.
  - injection H as <- _. apply andb_true_iff in Ev as [Ev Hn]. destruct e; try discriminate Ev.
    exists y, s, s1. split; [exact Hy|]. unfold c04_go_bare. rewrite Hn. cbn [andb negb].
    cbn [go_texp] in Hy. match type of Hy with context [tmap_get ?mm ?kk] => destruct (tmap_get mm kk) end.
    + unfold ret in Hy. injection Hy as <- _. split; reflexivity.
    + apply mbind_ok in Hy as (z & s2 & _ & Hy). unfold ret in Hy. injection Hy as <- _. split; reflexivity.
  - injection H as <- _. exists y, s, s1. split; [exact Hy|]. split; [reflexivity|].
    unfold c04_go_bare. cbn [c04_is_gptr]. destruct e; cbn [is_vec andb] in Ev |- *; rewrite ?andb_false_r; try reflexivity.
    rewrite Ev. reflexivity.
Qed.

Lemma go_texp_ascii_of' g t s x s1 : ga_texp_asciib cfg t = true -> go_texp cfg g t s = Ok (x, s1) -> ga_ascii (go_show x).
Proof. unfold ga_texp_asciib. intros H. apply andb_true_iff in H as [Hm Hi]. exact (ga_texp_ascii cfg g t Hm Hi s x s1). Qed.

(* fields: `,omitempty` iff Option or default; `*` iff Option or default, except on Option<Vec<_>> under
   no_pointer_slice; the text under the marker is the (rewritten) translation of T *)
Theorem go_field_good_all f g s m s' decl :
  type_override f Go = None ->
  (is_optional (fty f) = true -> tmap_get (go_type_mappings cfg) (rtype_display (fty f)) = None) ->
  ga_texp_asciib cfg (fty f) = true ->
  go_member_of uc cfg g f s = Ok (m, s') ->
  exists y s3 s4 y', go_texp cfg g (c04_strip (fty f)) s3 = Ok (y, s4) /\
    (forall s5, go_acronyms_ty uc cfg y s5 = Ok (y', s5)) /\
    good_C04_go (BARE (fty f)) (c04_expect_of C04Field (fty f) (has_default f) (go_show y')) (c04r_seen (go_c04_member decl m)) = true.
Proof.
  intros Hov Hm Hasc H. unfold go_member_of in H. rewrite Hov in H.
  apply mbind_ok in H as (x & s1 & Hx & H). apply mbind_ok in H as (gt & s2 & Hgt & H).
  apply mbind_ok in H as (fname & s3 & _ & H). unfold ret in H. injection H as <- _.
  pose proof (go_texp_ascii_of' _ _ _ _ _ Hasc Hx) as Hax.
  rewrite (ga_acronyms_ty uc Huc cfg Hacr x s1 Hax) in Hgt. injection Hgt as <- _.
  destruct (go_texp_strip_any _ _ _ _ _ Hm Hx) as (y & s4 & s5 & Hy & Hs & Hh).
  exists y, s4, s5, (ga_ty_map T y). split; [exact Hy|]. split.
  { intros s6. apply (ga_acronyms_ty uc Huc cfg Hacr). rewrite <- Hs. now apply go_strip_gptr_ascii. }
  pose proof (go_bare_optional (go_no_pointer_slice cfg) (fty f)) as Hb.
  apply good_go_intro; unfold go_c04_member;
    cbn [c04_mk c04r_seen c04s_type_mark c04s_init_mark c04s_base c04s_null_union gm_star gm_type gm_omitempty c04_expect_of c04e_pos c04_fieldlike];
    rewrite ?(expected_fieldlike C04Field _ _ _ eq_refl); cbn [c04_expect_of c04e_ref].
  - rewrite go_map_is_gptr, Hh. destruct (has_default f), (is_optional (fty f)), (BARE (fty f)); try reflexivity; discriminate (Hb eq_refl).
  - reflexivity.
  - rewrite go_map_strip_gptr, Hs.
    destruct (has_default f) eqn:Ed, (is_optional (fty f)) eqn:Eo; cbn [andb negb]; try reflexivity.
    rewrite <- Hs. cbn [andb] in Hh. destruct x; try reflexivity; discriminate.
  - reflexivity.
Qed.

Theorem go_payload_good_all sh cs sn tag t vsh s v s' :
  (is_optional t = true -> tmap_get (go_type_mappings cfg) (rtype_display t) = None) ->
  ga_texp_asciib cfg t = true ->
  go_variant_of uc cfg sh cs sn tag (VTuple t vsh) s = Ok (v, s') ->
  exists x p y s3 s4 y', gv_content v = GCType x p /\ go_texp cfg [] (c04_strip t) s3 = Ok (y, s4) /\
    (forall s5, go_acronyms_ty uc cfg y s5 = Ok (y', s5)) /\
    forall decl member, good_C04_go (BARE t) (c04_expect_of C04Payload t false (go_show y')) (c04r_seen (go_c04_typed decl member C04Payload x)) = true.
Proof.
  intros Hm Hasc H. unfold go_variant_of in H. apply mbind_ok in H as (vn & s1 & _ & H).
  apply mbind_ok in H as (vt & s2 & Hvt & H). apply mbind_ok in H as (tp & s3 & _ & H).
  apply mbind_ok in H as (content & s4 & Hc & H). unfold ret in H. injection H as <- _.
  cbn [gv_content]. apply mbind_ok in Hvt as (x & s5 & Hx & Hvt). unfold ret in Hvt. injection Hvt as <- _.
  apply mbind_ok in Hc as (fvt & s6 & Hf & Hc). unfold ret in Hc. injection Hc as <- _.
  pose proof (go_texp_ascii_of' _ _ _ _ _ Hasc Hx) as Hax.
  rewrite (ga_acronyms_ty uc Huc cfg Hacr x _ Hax) in Hf. injection Hf as <- _.
  destruct (go_texp_strip_any _ _ _ _ _ Hm Hx) as (y & s7 & s8 & Hy & Hs & Hh).
  exists (ga_ty_map T x), (mem_str (go_show x) cs), y, s7, s8, (ga_ty_map T y). repeat split; [exact Hy| |].
  { intros s9. apply (ga_acronyms_ty uc Huc cfg Hacr). rewrite <- Hs. now apply go_strip_gptr_ascii. }
  intros. apply good_go_intro; cbn [go_c04_typed c04_mk c04r_seen c04s_type_mark c04s_init_mark c04s_base c04s_null_union c04_expect_of c04e_pos c04_fieldlike];
    rewrite ?expected_plain; cbn [c04_expect_of c04e_ref]; rewrite ?go_map_is_gptr, ?go_map_strip_gptr; congruence.
Qed.

(* alias targets are not acronym-converted *)
Theorem go_alias_good_all cs a s ds s' :
  (is_optional (atype a) = true -> tmap_get (go_type_mappings cfg) (rtype_display (atype a)) = None) ->
  go_decl_of uc cfg cs (ItAlias a) s = Ok (ds, s') ->
  exists name x y s3 s4, flat_map go_c04_rows ds = [go_c04_typed name [] C04Alias x] /\
    go_texp cfg [] (c04_strip (atype a)) s3 = Ok (y, s4) /\
    good_C04_go (BARE (atype a)) (c04_expect_of C04Alias (atype a) false (go_show y)) (c04r_seen (go_c04_typed name [] C04Alias x)) = true.
Proof.
  intros Hm H. cbn [go_decl_of] in H. apply mbind_ok in H as (name & s1 & _ & H).
  apply mbind_ok in H as (x & s2 & Hx & H). unfold ret in H. injection H as <- _.
  destruct (go_texp_strip_any _ _ _ _ _ Hm Hx) as (y & s3 & s4 & Hy & Hs & Hh).
  exists name, x, y, s3, s4. repeat split; [exact Hy|].
  apply good_go_intro; cbn [go_c04_typed c04_mk c04r_seen c04s_type_mark c04s_init_mark c04s_base c04s_null_union c04_expect_of c04e_pos c04_fieldlike];
    rewrite ?expected_plain; cbn [c04_expect_of c04e_ref]; congruence.
Qed.
End GOALL.

(* the tag part never depends on the printed type: with or without a Go type override, for every configuration *)
Theorem go_field_tag_any uc cfg f g s m s' decl ref :
  go_member_of uc cfg g f s = Ok (m, s') ->
  gm_omitempty m = (is_optional (fty f) || has_default f) /\
  gm_star m = (has_default f && negb (is_optional (fty f))) /\
  good_C04_go_override (c04_expect_of C04Field (fty f) (has_default f) ref) (c04r_seen (go_c04_member decl m)) = true.
Proof.
  intros H. unfold go_member_of in H.
  apply mbind_ok in H as (x & s1 & Hx & H). apply mbind_ok in H as (gt & s2 & Hgt & H).
  apply mbind_ok in H as (fname & s3 & _ & H). unfold ret in H. injection H as <- _.
  cbn [gm_omitempty gm_star]. repeat split. unfold good_C04_go_override, go_c04_member.
  cbn [c04_mk c04r_seen c04s_init_mark gm_omitempty]. rewrite (expected_fieldlike C04Field _ _ _ eq_refl). apply Bool.eqb_reflx.
Qed.

(* non-vacuity under no_pointer_slice: Option<Vec<UserId>> with acronym ID is `[]UserID` + omitempty, no `*` *)
Example go_field_good_all_nonvacuous :
  let cfg := {| go_package := lit "p"; go_type_mappings := []; go_uppercase_acronyms := [lit "ID"]; go_no_version_header := true;
                go_no_pointer_slice := true; go_version := [] |} in
  let f := {| fid := {| original := lit "owner_ids"; renamed := lit "owner_ids"; via_serde_rename := false |};
              fty := ROption (RVec (RSimple (lit "UserId"))); fcomments := []; has_default := false; fdecs := [] |} in
  c04_go_bare (go_no_pointer_slice cfg) (fty f) = true /\ ga_texp_asciib cfg (fty f) = true /\
  exists m st, go_member_of uc_exec cfg [] f [] = Ok (m, st) /\ gm_omitempty m = true /\ gm_star m = false /\
               go_show (gm_type m) = lit "[]UserID".
Proof. cbv zeta. split; [reflexivity|]. split; [reflexivity|]. eexists _, _. repeat split; vm_compute; reflexivity. Qed.

(* ======================================================================================== Go, any acronyms *)
(* the two marker parts write_field decides itself do not depend on the acronym rewrite: for EVERY
   configuration `,omitempty` is written iff Option or default, write_field's own `*` iff default on a
   non-Option type, and the type handed to the rewrite is `*`-headed iff Option *)
Theorem go_field_markers uc cfg f g s m s' :
  go_no_pointer_slice cfg = false -> type_override f Go = None ->
  (is_optional (fty f) = true -> tmap_get (go_type_mappings cfg) (rtype_display (fty f)) = None) ->
  go_member_of uc cfg g f s = Ok (m, s') ->
  gm_omitempty m = (is_optional (fty f) || has_default f) /\
  gm_star m = (has_default f && negb (is_optional (fty f))) /\
  exists x s1 s2 y s3 s4, go_texp cfg g (fty f) s = Ok (x, s1) /\ go_acronyms_ty uc cfg x s1 = Ok (gm_type m, s2) /\
    go_texp cfg g (c04_strip (fty f)) s3 = Ok (y, s4) /\ c04_strip_gptr x = y /\ c04_is_gptr x = is_optional (fty f).
Proof.
  intros Hnps Hov Hm H. unfold go_member_of in H. rewrite Hov in H.
  apply mbind_ok in H as (x & s1 & Hx & H). apply mbind_ok in H as (gt & s2 & Hgt & H).
  apply mbind_ok in H as (fname & s3 & _ & H). unfold ret in H. injection H as <- _.
  cbn [gm_omitempty gm_star gm_type]. repeat split.
  destruct (go_texp_strip cfg Hnps _ _ _ _ _ Hm Hx) as (y & s4 & s5 & Hy & Hs & Hh).
  exists x, s1, s2, y, s4, s5. repeat split; assumption.
Qed.

(* ======================================================================================== source to expectation *)
(* the expectation the back-end theorems are stated against is the one the SOURCE gives (and the one
   checks/c04.py computes with Spec.C04Spec.c04_file_cells): Option depth of the declared type, bare default *)
Theorem expectation_from_source uc tstr check_flatten rename_all f rf pos ref :
  Attrs.get_field_type_override uc (Syntax.f_attrs f) = None ->
  parse_field uc tstr check_flatten rename_all f = Ok rf ->
  c04_expect_of pos (fty rf) (has_default rf) ref =
  {| c04e_pos := pos; c04e_depth := c04_opt_depth (Syntax.f_ty f); c04e_default := Serde.bare_default (Syntax.f_attrs f); c04e_ref := ref |}.
Proof.
  intros Hov H. destruct (front_field uc tstr _ _ _ _ Hov H) as [Hd Hb]. unfold c04_expect_of. now rewrite Hd, Hb.
Qed.

(* ======================================================================================== the Decl observation *)
(* Model/Lang/Decl.v's mb_optional (what the other back-end properties observe) is the reader's marker:
   the whole idiom for Python, the initialiser / tag part for Kotlin, Scala, Go, the `?` for TS and Swift *)
Theorem decl_optional_agrees :
  (forall d p m, mb_optional (ts_obs_member m) = c04s_type_mark (c04r_seen (ts_c04_member d p m))) /\
  (forall d p m, mb_optional (kt_obs_member m) = c04s_init_mark (c04r_seen (kt_c04_member d p m))) /\
  (forall d m, mb_optional (sw_obs_member m) = c04s_type_mark (c04r_seen (sw_c04_member d m))) /\
  (forall d m, mb_optional (sc_obs_member m) = c04s_init_mark (c04r_seen (sc_c04_member d m))) /\
  (forall d m, mb_optional (go_obs_member m) = c04s_init_mark (c04r_seen (go_c04_member d m))) /\
  (forall d m, mb_optional (py_obs_member m) = c04s_type_mark (c04r_seen (py_c04_member d m)) && c04s_init_mark (c04r_seen (py_c04_member d m))).
Proof.
  repeat split; intros; try reflexivity.
  destruct m as [? ? ? ? t ? b]. destruct t, b; reflexivity.
Qed.
