(* C10, grammar half for Scala, part 4: from the IR to the whole file.
     - the DECISION layer (sc_texp, sc_member_of, sc_class_of, sc_variants_of, sc_decl_of) produces declarations of
       [c10_scg_decl_ok] from every item of the grammar domain ([c10_scg_item_ok] on top of dom_C10);
     - the version header is a (nested-comment aware) block comment, `package a.b` a package clause, the package object
       and the packaging two top-level statements;
     - [sc_generate_recognised]: the recogniser accepts the whole generated file. *)
From Coq Require Import List Bool Arith Lia ZifyBool ZifyN NArith String.
From TS Require Import Model.Str Model.Outcome Model.Unicode Model.Types Model.Parse Model.Rename Model.TopsortAlgo Model.Topsort
                       Model.Lang.Common Model.Lang.Decl Model.Lang.Scala.
From TS Require Import Spec.C10Spec Spec.C10TsGrammar Spec.C10ScGrammar Proofs.BackCommon Proofs.C10Common
                       Proofs.C10_SCGrammarTok Proofs.C10_SCGrammarParse Proofs.C10_SCGrammar.
From TS Require Proofs.C10Lex Proofs.C10_TSFile Proofs.C10_SC Proofs.C05_Sites Proofs.C10_TSGrammarTok.
Import ListNotations.
Local Open Scope N_scope.
Local Notation length := List.length (only parsing).

Ltac lit_cfrag := apply cfrag_compute; vm_compute; reflexivity.

(* ------------------------------------------------------------------ the grammar domain, on top of dom_C10 *)
(* a package name is a QualId: identifiers that are not reserved words, separated by dots *)
Definition c10_scg_pkg (pkg : str) : Prop := exists segs, segs <> [] /\ Forall gname segs /\ pkg = join [46] segs.
(* every type_mappings value is a type of the grammar *)
Definition c10_scg_cfg_ok (cfg : sc_config) : Prop :=
  Forall (fun kv => TyText (snd kv)) (sc_type_mappings cfg) /\ c10_scg_pkg (sc_package cfg).

(* a case-class parameter (renamed field, dashes replaced) is a name of the grammar - C10-digit-name and
   C10-scala-keyword-name are outside -, every referenced type name is not a reserved word, a type override for Scala
   is a type of the grammar, and serde(default) only on an Option (C10-scala-default is outside) *)
Definition c10_scg_field_ok (f : rfield) : Prop :=
  gname (replace_char ch_dash ch_us (renamed (fid f))) /\ c10_sc_rtype_kw (fty f) = false /\
  (forall o, type_override f Scala = Some o -> TyText o) /\ (has_default f = true -> is_optional (fty f) = true).
Definition c10_scg_variant_dom (v : rvariant) : Prop :=
  nm (original (vid (variant_shared v))) /\
  match v with VUnit _ => True | VTuple t _ => c10_sc_rtype_kw t = false | VAnon fs _ => Forall c10_scg_field_ok fs end.
(* no declared name is a reserved word; the content key of a tagged enum is printed as the parameter name of every variant
   that carries a payload *)
Definition c10_scg_item_ok (it : ritem) : Prop :=
  match it with
  | ItStruct s => nm (renamed (sid s)) /\ Forall nm (sgenerics s) /\ Forall c10_scg_field_ok (sfields s)
  | ItEnum e =>
    let sh := enum_shared e in
    nm (renamed (eid sh)) /\ nm (original (eid sh)) /\ Forall nm (egenerics sh) /\ Forall c10_scg_variant_dom (evariants sh) /\
    match e with
    | EUnit _ => True
    | EAlgebraic _ content sh' => Forall (fun v => match v with VUnit _ => True | _ => gname content end) (evariants sh')
    end
  | ItAlias a => nm (original (aid a)) /\ Forall nm (agenerics a) /\ c10_sc_rtype_kw (atype a) = false
  | ItConst _ => True
  end.
Definition c10_scg_dom (pd : parsed) : Prop := Forall c10_scg_item_ok (items_of pd).

(* ------------------------------------------------------------------ names *)
Lemma gname_ident n : c10_ident_ok n = true -> nm n -> gname n.
Proof. intros H1 H2. split; [apply ident_sc_ident, H1|exact H2]. Qed.
Lemma gnames_ident gs : forallb c10_ident_ok gs = true -> Forall nm gs -> Forall gname gs.
Proof.
  intros H1 H2. apply Proofs.C10Lex.forallb_Forall in H1. rewrite Forall_forall in *. intros g Hg. apply gname_ident; auto.
Qed.

(* no reserved word contains a capital I *)
Lemma kw_no_I n : contains_char 73 n = true -> nm n.
Proof.
  intros H. unfold nm. destruct (c10_sc_kw n) eqn:E; [|reflexivity]. apply mem_str_true in E.
  assert (Hall : forallb (fun k => negb (contains_char 73 k)) c10_sc_keywords = true) by (vm_compute; reflexivity).
  rewrite forallb_forall in Hall. specialize (Hall n E). rewrite H in Hall. discriminate.
Qed.
Lemma inner_name_nm a : nm (a ++ lit "Inner").
Proof. apply kw_no_I. unfold contains_char. rewrite existsb_app. apply orb_true_iff. right. reflexivity. Qed.

Lemma sc_ident_app a b : c10_sc_ident_ok a = true -> forallb c10_sc_id_char b = true -> c10_sc_ident_ok (a ++ b) = true.
Proof.
  destruct a as [|c r]; [discriminate|]. unfold c10_sc_ident_ok. cbn [app]. rewrite !andb_true_iff. intros [Hc Hr] Hb.
  split; [exact Hc|]. rewrite forallb_app, Hr, Hb. reflexivity.
Qed.
Lemma sc_ident_chars a : c10_sc_ident_ok a = true -> forallb c10_sc_id_char a = true.
Proof.
  destruct a as [|c r]; [discriminate|]. unfold c10_sc_ident_ok. rewrite andb_true_iff. intros [Hc Hr]. cbn [forallb]. rewrite Hr.
  unfold c10_sc_id_char. rewrite Hc. reflexivity.
Qed.

(* ------------------------------------------------------------------ the decision layer *)
Section Decide.
Variable cfg : sc_config.
Hypothesis Gmap : Forall (fun kv => TyText (snd kv)) (sc_type_mappings cfg).

Lemma tmap_get_tytext k v : tmap_get (sc_type_mappings cfg) k = Some v -> TyText v.
Proof.
  pose proof Gmap as G. revert G. generalize (sc_type_mappings cfg). intros m G.
  induction G as [|[a b] r Hab Hr IH]; cbn [tmap_get]; [discriminate|].
  destruct (str_eqb a k); [intros E; injection E as <-; exact Hab|exact IH].
Qed.

Lemma name0 w : c10_sc_ident_ok (lit w) = true -> c10_sc_kw (lit w) = false -> c10_scg_texp (XName (lit w) []).
Proof. intros H1 H2. apply SG_name; [apply gname_lit; assumption|constructor]. Qed.

Lemma sc_texp_gram generics t : c10_rtype_ok t = true -> c10_sc_rtype_kw t = false -> forall x, sc_texp cfg generics t = Ok x -> c10_scg_texp x.
Proof.
  induction t as [id | id ps IH | t IH | t n IH | t IH | k v IHk IHv | t IH | p] using rtype_ind';
    intros Hok Hkw x H; cbn [c10_rtype_ok] in Hok; cbn [c10_sc_rtype_kw] in Hkw; cbn [sc_texp] in H.
  - injection H as <-. destruct (tmap_get (sc_type_mappings cfg) id) eqn:E; [apply SG_raw, (tmap_get_tytext _ _ E)|].
    apply SG_name; [apply gname_ident; assumption|constructor].
  - apply andb_true_iff in Hok as [Hid Hps]. apply orb_false_iff in Hkw as [Hkid Hkps].
    destruct (tmap_get (sc_type_mappings cfg) id) eqn:E.
    + injection H as <-. apply SG_raw, (tmap_get_tytext _ _ E).
    + apply bind_ok in H as (parts & Hgo & H). injection H as <-. apply SG_name; [apply gname_ident; assumption|].
      clear E. revert parts Hgo. induction IH as [|a l Ha Hl IHl]; intros parts Hgo.
      * injection Hgo as <-. constructor.
      * cbn [forallb] in Hps. apply andb_true_iff in Hps as [Hpa Hpl]. cbn [existsb] in Hkps. apply orb_false_iff in Hkps as [Hka Hkl].
        apply bind_ok in Hgo as (y & Hy & Hgo). apply bind_ok in Hgo as (ys & Hys & Hgo). injection Hgo as <-.
        constructor; [exact (Ha Hpa Hka _ Hy)|exact (IHl Hpl Hkl _ Hys)].
  - apply bind_ok in H as (e & He & H). injection H as <-. apply SG_name; [apply gname_Vector|]. constructor; [exact (IH Hok Hkw _ He)|constructor].
  - apply bind_ok in H as (e & He & H). injection H as <-. apply SG_name; [apply gname_Vector|]. constructor; [exact (IH Hok Hkw _ He)|constructor].
  - apply bind_ok in H as (e & He & H). injection H as <-. apply SG_name; [apply gname_Vector|]. constructor; [exact (IH Hok Hkw _ He)|constructor].
  - apply andb_true_iff in Hok as [Hk Hv]. apply orb_false_iff in Hkw as [Hkk Hkv].
    apply bind_ok in H as (ks & Hks & H). apply bind_ok in H as (vs & Hvs & H). injection H as <-.
    apply SG_name; [apply gname_Map|]. constructor; [exact (IHk Hk Hkk _ Hks)|]. constructor; [exact (IHv Hv Hkv _ Hvs)|constructor].
  - apply bind_ok in H as (e & He & H). injection H as <-. apply SG_opt. exact (IH Hok Hkw _ He).
  - destruct p; try discriminate; injection H as <-; apply name0; reflexivity.
Qed.

Lemma sc_member_gram gs f m : c10_field_ok CSC f = true -> c10_scg_field_ok f -> sc_member_of cfg gs f = Ok m -> c10_scg_member_ok m.
Proof.
  intros Hf (Gn & Gk & Go & Gd) H. unfold sc_member_of in H. apply bind_ok in H as (ty & Hty & H). injection H as <-.
  unfold c10_field_ok in Hf. rewrite !andb_true_iff in Hf. destruct Hf as [[[Hid Hrt] Hdocs] _].
  unfold c10_scg_member_ok. cbn [scm_docs scm_name scm_type scm_default]. split; [exact (docs_line_ok _ Hdocs)|]. split; [exact Gn|]. split.
  - destruct (type_override f Scala) as [o|] eqn:Eo.
    + injection Hty as <-. apply SG_raw, Go. reflexivity.
    + exact (sc_texp_gram gs (fty f) Hrt Gk _ Hty).
  - destruct (has_default f) eqn:Ed; cbn [andb].
    + rewrite (Gd eq_refl). cbn [negb]. discriminate.
    + destruct (is_optional (fty f)); discriminate.
Qed.

Lemma sc_class_of_gram rs d :
  gname (renamed (sid rs)) -> Forall gname (sgenerics rs) ->
  forallb (c10_field_ok CSC) (sfields rs) = true -> Forall c10_scg_field_ok (sfields rs) -> forallb Proofs.C10Lex.c10_line_ok (scomments rs) = true ->
  sc_class_of cfg rs = Ok d -> c10_scg_decl_ok d /\ decl_top d = true.
Proof.
  intros Hn Hg Hf Gf Hd H. unfold sc_class_of in H. destruct (sfields rs) as [|f0 fs] eqn:Ef.
  - injection H as <-. split; [|reflexivity]. cbn [c10_scg_decl_ok]. split; assumption.
  - apply bind_ok in H as (ms & Hms & H). injection H as <-. split; [|reflexivity]. cbn [c10_scg_decl_ok].
    split; [exact Hd|]. split; [exact Hn|]. split; [exact Hg|]. split.
    + cbn [mapM] in Hms. apply bind_ok in Hms as (y & _ & Hms). apply bind_ok in Hms as (ys & _ & Hms). injection Hms as <-. discriminate.
    + eapply (mapM_Forall_in _ (fun f => c10_field_ok CSC f = true /\ c10_scg_field_ok f)); [| |exact Hms].
      * intros x y [Hx Gx] Hy. exact (sc_member_gram _ _ _ Hx Gx Hy).
      * apply Proofs.C10Lex.forallb_Forall in Hf. rewrite Forall_forall in *. intros x Hx. split; auto.
Qed.

Lemma anon_generics_gname gens fs : Forall gname gens -> Forall gname (anon_struct_generics gens fs).
Proof.
  intros H. rewrite Forall_forall in *. intros x Hx. unfold anon_struct_generics in Hx.
  apply Proofs.C05_Sites.unique_strs_In in Hx as [Hx _]. apply in_flat_map in Hx as (f & _ & Hx). apply filter_In in Hx as [Hx _]. exact (H x Hx).
Qed.

Lemma ident_not_digit_first n : c10_ident_ok n = true ->
  match n with c :: _ => if is_adigit c then ch_us :: n else n | [] => n end = n.
Proof.
  destruct n as [|c r]; [reflexivity|]. unfold c10_ident_ok. rewrite andb_true_iff. intros [Hc _].
  replace (is_adigit c) with false; [reflexivity|]. unfold c10_ident_start, is_adigit, is_aalpha, is_alower, is_aupper, ch_us in *. lia.
Qed.

Lemma key_chars k : c10_key_ok k = true -> forallb c10_key_char k = true.
Proof. destruct k; [discriminate|]. intros H. exact H. Qed.

Lemma ident_char_sc c : c10_ident_char c = true -> c10_sc_id_char c = true.
Proof. unfold c10_ident_char, c10_sc_id_char, c10_sc_letter. lia. Qed.
Lemma ident_chars_sc s : c10_ident_ok s = true -> forallb c10_sc_id_char s = true.
Proof. intros H. apply sc_ident_chars, ident_sc_ident, H. Qed.

Lemma inner_gname a b : c10_ident_ok a = true -> c10_ident_ok b = true -> gname (a ++ b ++ lit "Inner").
Proof.
  intros Ha Hb. split.
  - apply sc_ident_app; [apply ident_sc_ident, Ha|]. rewrite forallb_app, (ident_chars_sc _ Hb). reflexivity.
  - rewrite app_assoc. apply inner_name_nm.
Qed.

Lemma sc_decl_of_gram it ds : c10_item_ok CSC it = true -> c10_scg_item_ok it -> sc_decl_of cfg it = Ok ds ->
  ds <> [] /\ Forall (fun d => c10_scg_decl_ok d /\ decl_top d = match it with ItAlias _ => false | _ => true end) ds.
Proof.
  intros Hit Git H. destruct it as [rs | e | a | c]; cbn [sc_decl_of c10_scg_item_ok] in *.
  - apply bind_ok in H as (d & Hd & H). injection H as <-. split; [discriminate|]. constructor; [|constructor].
    cbn [c10_item_ok] in Hit. rewrite !andb_true_iff in Hit. destruct Hit as [[[[Hid Hg] Hf] Hdoc] _].
    unfold c10_type_id_ok in Hid. apply andb_true_iff in Hid as [_ Hren]. destruct Git as (Gn & Gg & Gf).
    exact (sc_class_of_gram _ _ (gname_ident _ Hren Gn) (gnames_ident _ Hg Gg) Hf Gf (docs_line_ok _ Hdoc) Hd).
  - cbn [c10_item_ok] in Hit. rewrite !andb_true_iff in Hit. destruct Hit as [[[[[Hid Hg] Hd] Hv] _] Htc].
    unfold c10_type_id_ok in Hid. apply andb_true_iff in Hid as [Horig Hren].
    destruct Git as (Gren & Gorig & Gg & Gv & Gc). pose proof (gnames_ident _ Hg Gg) as Ggn.
    apply bind_ok in H as (inner & Hinner & H). apply bind_ok in H as (vs & Hvs & H). injection H as <-.
    split; [destruct inner; discriminate|]. apply Forall_app. split.
    + unfold sc_inner_decls_of in Hinner. apply bind_ok in Hinner as (dss & Hdss & Hinner). injection Hinner as <-.
      apply Forall_concat.
      eapply (mapM_Forall_in _ (fun v => c10_variant_ok CSC v = true /\ c10_scg_variant_dom v)); [| |exact Hdss].
      * intros v ds0 [Hv0 Gv0] Hds0. destruct v as [vsh | t vsh | fs vsh]; try (injection Hds0 as <-; constructor).
        apply bind_ok in Hds0 as (d0 & Hd0 & Hds0). injection Hds0 as <-. constructor; [|constructor].
        unfold c10_variant_ok in Hv0. cbn [variant_shared] in Hv0. rewrite !andb_true_iff in Hv0. destruct Hv0 as [[Hvid _] Hfs].
        unfold c10_member_id_ok in Hvid. apply andb_true_iff in Hvid as [Hvo _]. destruct Gv0 as [_ Gfs].
        eapply sc_class_of_gram; [| | | | |exact Hd0]; cbn [anon_struct sid sgenerics sfields scomments renamed].
        -- apply inner_gname; assumption.
        -- apply anon_generics_gname, Ggn.
        -- exact Hfs.
        -- exact Gfs.
        -- cbn [forallb]. rewrite andb_true_r. apply docsafe_line.
           rewrite !forallb_app, (ident_docsafe _ (Proofs.C10_TSFile.ident_ok_chars _ Hvo)), (ident_docsafe _ (Proofs.C10_TSFile.ident_ok_chars _ Horig)). reflexivity.
      * apply Proofs.C10Lex.forallb_Forall in Hv. rewrite Forall_forall in *. intros v Hin. split; auto.
    + constructor; [|constructor]. split; [|reflexivity]. cbn [c10_scg_decl_ok].
      split; [exact (docs_line_ok _ Hd)|]. split; [exact (gname_ident _ Hren Gren)|]. split; [exact Ggn|].
      destruct e as [sh | tag content sh]; cbn [enum_shared sc_variants_of] in *.
      * eapply (mapM_Forall_in _ (fun v => c10_variant_ok CSC v = true /\ c10_scg_variant_dom v)); [| |exact Hvs].
        -- intros v y [Hv0 [Gvo _]] Hy. unfold sc_variant_of_unit_enum in Hy. injection Hy as <-.
           unfold c10_variant_ok in Hv0. rewrite !andb_true_iff in Hv0. destruct Hv0 as [[Hvid Hvd] _].
           unfold c10_member_id_ok in Hvid. apply andb_true_iff in Hvid as [Hvo Hvr].
           unfold c10_scg_variant_ok. cbn [scv_docs scv_name scv_parent scv_parent_generics scv_wire scv_payload].
           split; [exact (docs_line_ok _ Hvd)|]. split; [exact (gname_ident _ Hvo Gvo)|]. split; [exact (gname_ident _ Hren Gren)|].
           split; [constructor|]. split; [exact (key_chars _ Hvr)|exact I].
        -- apply Proofs.C10Lex.forallb_Forall in Hv. rewrite Forall_forall in *. intros v Hin. split; auto.
      * eapply (mapM_Forall_in _ (fun v => c10_variant_ok CSC v = true /\ c10_scg_variant_dom v /\
                                             match v with VUnit _ => True | _ => gname content end)); [| |exact Hvs].
        -- intros v y (Hv0 & [Gvo Gp] & Gcv) Hy. unfold sc_variant_of_algebraic in Hy. apply bind_ok in Hy as (payload & Hpay & Hy). injection Hy as <-.
           unfold c10_variant_ok in Hv0. rewrite !andb_true_iff in Hv0. destruct Hv0 as [[Hvid Hvd] Hp].
           unfold c10_member_id_ok in Hvid. apply andb_true_iff in Hvid as [Hvo Hvr].
           unfold c10_scg_variant_ok. cbn [scv_docs scv_name scv_parent scv_parent_generics scv_wire scv_payload].
           rewrite (ident_not_digit_first _ Hvo).
           split; [exact (docs_line_ok _ Hvd)|]. split; [exact (gname_ident _ Hvo Gvo)|]. split; [exact (gname_ident _ Horig Gorig)|].
           split; [exact Ggn|]. split; [exact (key_chars _ Hvr)|].
           destruct v as [vsh | t vsh | fs vsh]; cbn [variant_shared] in *.
           ++ injection Hpay as <-. exact I.
           ++ apply bind_ok in Hpay as (ty & Hty & Hpay). injection Hpay as <-. split; [exact Ggn|]. split; [exact Gcv|].
              exact (sc_texp_gram _ _ Hp Gp _ Hty).
           ++ injection Hpay as <-. split; [exact Ggn|]. split; [exact Gcv|]. split; [apply inner_gname; assumption|apply anon_generics_gname, Ggn].
        -- apply Proofs.C10Lex.forallb_Forall in Hv. rewrite Forall_forall in *. intros v Hin. split; [auto|]. split; [auto|exact (Gc v Hin)].
  - cbn [c10_item_ok] in Hit. rewrite !andb_true_iff in Hit. destruct Hit as [[[[Hid Hg] Ht] Hd] _].
    unfold c10_type_id_ok in Hid. apply andb_true_iff in Hid as [Horig _]. destruct Git as (Gn & Gg & Gt).
    apply bind_ok in H as (ty & Hty & H). injection H as <-. split; [discriminate|]. constructor; [|constructor]. split; [|reflexivity].
    cbn [c10_scg_decl_ok]. split; [exact (docs_line_ok _ Hd)|]. split; [exact (gname_ident _ Horig Gn)|]. split; [exact (gnames_ident _ Hg Gg)|].
    exact (sc_texp_gram _ _ Ht Gt _ Hty).
  - discriminate.
Qed.
End Decide.

(* ------------------------------------------------------------------ the version header: a block comment *)
Definition nostarslash (c : char) : bool := negb (c =? 42) && negb (c =? 47).

Lemma skip_block_pass x : forallb nostarslash x = true -> forall d0 r', c10_sc_skip_block 0 true (x ++ d0 :: r') = c10_sc_skip_block 0 true (d0 :: r').
Proof.
  induction x as [|c x IH]; intros H d0 r'; [reflexivity|]. cbn [forallb] in H. apply andb_true_iff in H as [Hc Hx].
  unfold nostarslash in Hc. apply andb_true_iff in Hc as [H1 H2]. apply negb_true_iff in H1, H2.
  cbn [app]. destruct x as [|e x'].
  - cbn [app c10_sc_skip_block]. rewrite H1, H2. cbn [andb orb]. reflexivity.
  - specialize (IH Hx d0 r'). change ((e :: x') ++ d0 :: r') with (e :: x' ++ d0 :: r') in *.
    cbn [c10_sc_skip_block] in *. rewrite H1, H2. cbn [andb orb]. exact IH.
Qed.

Lemma dotted_nostarslash v : c10_dotted_ok v = true -> forallb nostarslash v = true.
Proof.
  unfold c10_dotted_ok. apply Proofs.C10Lex.forallb_impl. intros c. unfold c10_dotted_char, c10_key_char, nostarslash, is_aalpha, is_alower, is_aupper, is_adigit, ch_us, ch_dash. lia.
Qed.

Definition hdr_text (v : str) : str := lit "/**" ++ sc_nl ++ lit " * Generated by typeshare " ++ v ++ sc_nl ++ lit " */" ++ sc_nl.

Lemma hdr_cfrag v : c10_dotted_ok v = true -> CFrag (hdr_text v) [UNl; UNl].
Proof.
  intros Hv b tb Hb. change ([UNl; UNl] ++ tb) with (otl (Some UNl) ++ otl (Some UNl) ++ tb).
  apply (tk_step _ (Some UNl) (ch_nl :: b)); [|apply (tk_step _ (Some UNl) b); [reflexivity|exact Hb]].
  unfold hdr_text. rewrite <- ?app_assoc.
  change (lit "/**" ++ sc_nl ++ lit " * Generated by typeshare " ++ v ++ sc_nl ++ lit " */" ++ sc_nl ++ b)
    with (47 :: 42 :: (42 :: ch_nl :: lit " * Generated by typeshare ") ++ v ++ ch_nl :: 32 :: 42 :: 47 :: ch_nl :: b).
  cbn [c10_sc_next tl]. change (c10_sc_blank 47) with false. change (47 =? ch_nl) with false. cbv beta iota.
  change ((47 =? 47) && (42 =? 47)) with false. change ((47 =? 47) && (42 =? 42)) with true. cbv beta iota.
  assert (E : c10_sc_skip_block 0 false ((42 :: ch_nl :: lit " * Generated by typeshare ") ++ v ++ ch_nl :: 32 :: 42 :: 47 :: ch_nl :: b)
              = Some (true, ch_nl :: b)).
  { destruct v as [|v0 vr].
    - reflexivity.
    - transitivity (c10_sc_skip_block 0 true ((v0 :: vr) ++ ch_nl :: 32 :: 42 :: 47 :: ch_nl :: b)); [reflexivity|].
      rewrite (skip_block_pass _ (dotted_nostarslash _ Hv)). reflexivity. }
  rewrite E. reflexivity.
Qed.

(* ------------------------------------------------------------------ package names *)
Lemma L_dot : CFrag [46] [UP 46].
Proof. intros b tb Hb. change ([UP 46] ++ tb) with (otl (Some (UP 46)) ++ tb). apply (tk_step _ (Some (UP 46)) b); [reflexivity|exact Hb]. Qed.

(* an identifier followed by anything that is not an identifier character (a dot, for one) *)
Lemma ident_tk n b tb : c10_sc_ident_ok n = true -> match b with [] => True | d :: _ => c10_sc_id_char d = false end ->
  Tk b tb -> Tk (n ++ b) (UId n :: tb).
Proof.
  intros H Hs Hb. destruct n as [|c r]; [discriminate|]. cbn [c10_sc_ident_ok] in H. apply andb_true_iff in H as [Hc Hr].
  change (UId (c :: r) :: tb) with (otl (Some (UId (c :: r))) ++ tb). apply (tk_step _ _ b); [|exact Hb].
  assert (Hlt : c10_sc_blank c = false /\ (c =? ch_nl) = false /\ (c =? 47) = false /\ (c =? ch_dq) = false /\ (c =? 96) = false).
  { unfold c10_sc_blank, c10_sc_letter, is_aalpha, is_alower, is_aupper, ch_us, ch_nl, ch_dq in *. lia. }
  destruct Hlt as (H1 & H2 & H3 & H4 & H5).
  cbn [c10_sc_next app]. rewrite H1, H2, H3, H4, H5, Hc. cbn [andb].
  assert (E : c10_take_while c10_sc_id_char (c :: r ++ b) = (c :: r, b)).
  { change (c :: r ++ b) with ((c :: r) ++ b). apply Proofs.C10_TSGrammarTok.take_while_app; [|exact Hs].
    cbn [forallb]. rewrite Hr. unfold c10_sc_id_char. rewrite Hc. reflexivity. }
  rewrite E. reflexivity.
Qed.

Lemma qual_frag segs : segs <> [] -> Forall gname segs -> Frag (join [46] segs) (qual_toks segs).
Proof.
  induction segs as [|a r IH]; [congruence|]. intros _ H. inversion H as [|a0 r0 [Ha _] Hr]; subst. destruct r as [|b r].
  - cbn [join qual_toks]. apply frag_ident, Ha.
  - change (join [46] (a :: b :: r)) with (a ++ [46] ++ join [46] (b :: r)).
    change (qual_toks (a :: b :: r)) with (UId a :: UP 46 :: qual_toks (b :: r)).
    intros x tx Hs Hx. rewrite <- ?app_assoc. apply ident_tk; [exact Ha|reflexivity|]. apply (L_dot _ (qual_toks (b :: r) ++ tx)).
    exact (IH ltac:(discriminate) Hr x tx Hs Hx).
Qed.

Lemma qual_shape segs : Forall gname segs -> forallb nonl (qual_toks segs) = true /\ Bal (qual_toks segs) /\
  (segs <> [] -> forall ce, ce_after ce (qual_toks segs) = true).
Proof.
  induction 1 as [|a r [_ Ha] Hr (I1 & I2 & I3)]; [split; [reflexivity|split; [apply bal_nil|congruence]]|].
  destruct r as [|b r].
  - split; [reflexivity|]. split; [apply bal_id|]. intros _ ce. unfold ce_after. cbn [qual_toks fold_left c10_sc_can_end]. unfold nm in Ha. rewrite Ha. reflexivity.
  - change (qual_toks (a :: b :: r)) with (UId a :: UP 46 :: qual_toks (b :: r)). split; [exact I1|]. split.
    + apply bal_cons_id. apply bal_cons_p; try lia. exact I2.
    + intros _ ce. exact (I3 ltac:(discriminate) _).
Qed.

Lemma gname_nodot s : gname s -> contains_char sc_ch_dot s = false.
Proof.
  intros [H _]. apply sc_ident_chars in H. unfold contains_char. apply not_true_is_false. intros E. apply existsb_exists in E as (c & Hc & Ec).
  rewrite forallb_forall in H. specialize (H c Hc). unfold sc_ch_dot in Ec. apply N.eqb_eq in Ec. subst c. discriminate.
Qed.

Lemma rsplit_none c s : contains_char c s = false -> sc_rsplit_once c s = None.
Proof.
  induction s as [|x r IH]; intros H; [reflexivity|]. unfold contains_char in H. cbn [existsb] in H. apply orb_false_iff in H as [H1 H2].
  cbn [sc_rsplit_once]. rewrite (IH H2). rewrite N.eqb_sym, H1. reflexivity.
Qed.
Lemma rsplit_app c x l : contains_char c l = false -> sc_rsplit_once c (x ++ c :: l) = Some (x, l).
Proof.
  intros H. induction x as [|a x IH]; cbn [app sc_rsplit_once].
  - rewrite (rsplit_none c l H), N.eqb_refl. reflexivity.
  - rewrite IH. reflexivity.
Qed.

Lemma join_snoc init l : init <> [] -> join [46] (init ++ [l]) = join [46] init ++ 46 :: l.
Proof.
  induction init as [|a r IH]; [congruence|]. intros _. destruct r as [|b r]; [reflexivity|].
  change ((a :: b :: r) ++ [l]) with (a :: (b :: r) ++ [l]).
  change (join [46] (a :: (b :: r) ++ [l])) with (a ++ [46] ++ join [46] ((b :: r) ++ [l])). rewrite IH by discriminate.
  change (join [46] (a :: b :: r)) with (a ++ [46] ++ join [46] (b :: r)). rewrite <- ?app_assoc. reflexivity.
Qed.

(* the two cases of a package name: no dot (one segment), or parent.last *)
Lemma pkg_cases pkg : c10_scg_pkg pkg ->
  (sc_rsplit_once sc_ch_dot pkg = None /\ contains_char sc_ch_dot pkg = false) \/
  (exists init last, init <> [] /\ Forall gname init /\ gname last /\ sc_rsplit_once sc_ch_dot pkg = Some (join [46] init, last) /\
                     contains_char sc_ch_dot pkg = true).
Proof.
  intros (segs & Hne & Hs & ->). destruct (exists_last Hne) as (init & last & ->). apply Forall_app in Hs as [Hi Hl]. inversion Hl as [|? ? Hlast _]; subst.
  destruct init as [|a r].
  - left. cbn [app join]. pose proof (gname_nodot _ Hlast) as Hd. split; [apply rsplit_none, Hd|exact Hd].
  - right. exists (a :: r), last. split; [discriminate|]. split; [exact Hi|]. split; [exact Hlast|]. rewrite join_snoc by discriminate.
    split; [apply (rsplit_app sc_ch_dot), gname_nodot, Hlast|]. unfold contains_char. rewrite existsb_app. cbn [existsb]. unfold sc_ch_dot. rewrite N.eqb_refl. cbn [orb]. apply orb_true_r.
Qed.

(* the same split as one statement: the parent segments (none for a name without a dot) and the last segment, which is
   what scala.rs package_last_segment returns *)
Lemma pkg_split pkg : c10_scg_pkg pkg ->
  exists init last, Forall gname init /\ gname last /\
    sc_rsplit_once sc_ch_dot pkg = match init with [] => None | _ => Some (join [46] init, last) end /\
    (init = [] -> pkg = last).
Proof.
  intros (segs & Hne & Hs & ->). destruct (exists_last Hne) as (init & last & ->). apply Forall_app in Hs as [Hi Hl]. inversion Hl as [|? ? Hlast _]; subst.
  exists init, last. split; [exact Hi|]. split; [exact Hlast|]. destruct init as [|a r].
  - cbn [app join]. pose proof (gname_nodot _ Hlast) as Hd. split; [apply rsplit_none, Hd|reflexivity].
  - split; [|discriminate]. rewrite join_snoc by discriminate. apply (rsplit_app sc_ch_dot), gname_nodot, Hlast.
Qed.

(* ------------------------------------------------------------------ the package object and the packaging *)
Lemma L_pkg_obj : forall b tb, Tk b tb -> Tk (lit "package object " ++ b) (kwt "package" :: kwt "object" :: tb).
Proof. assert (H : CFrag (lit "package object ") [kwt "package"; kwt "object"]) by lit_cfrag. exact H. Qed.
Lemma L_pkg : forall b tb, Tk b tb -> Tk (lit "package " ++ b) (kwt "package" :: tb).
Proof. assert (H : CFrag (lit "package ") [kwt "package"]) by lit_cfrag. exact H. Qed.
Lemma L_open2 : forall b tb, Tk b tb -> Tk (lit " {" ++ sc_nl ++ sc_nl ++ b) (UP 123 :: UNl :: UNl :: tb).
Proof.
  assert (H : CFrag (lit " {" ++ sc_nl ++ sc_nl) [UP 123; UNl; UNl]) by lit_cfrag. intros b tb Hb. specialize (H b tb Hb). rewrite <- ?app_assoc in H. exact H.
Qed.
Lemma L_close1 : forall b tb, Tk b tb -> Tk (lit "}" ++ sc_nl ++ b) (UP 125 :: UNl :: tb).
Proof.
  assert (H : CFrag (lit "}" ++ sc_nl) [UP 125; UNl]) by lit_cfrag. intros b tb Hb. specialize (H b tb Hb). rewrite <- ?app_assoc in H. exact H.
Qed.

Ltac norm_app := repeat (progress (rewrite <- ?app_assoc; cbn [app])).

(* `package [object] last {`, the members, `}`: one top-level statement *)
Lemma ps_section (obj : bool) last text cooked ns : gname last -> PS (negb obj) text cooked ns ->
  PS true (lit "package " ++ (if obj then lit "object " else []) ++ last ++ lit " {" ++ sc_nl ++ sc_nl ++ text ++ lit "}" ++ sc_nl)
     [kwt "package" :: (if obj then [kwt "object"] else []) ++ UId last :: UP 123 :: seq_toks cooked ++ [UP 125]] [fold_right plus O ns].
Proof.
  intros Hl (raw & Hf & Hn & Hst).
  exists ((kwt "package" :: (if obj then [kwt "object"] else []) ++ [UId last]) ++ [UP 123; UNl; UNl] ++ raw ++ [UP 125; UNl]). split; [|split].
  - intros b tb Hb. norm_app. apply L_pkg.
    assert (Ho : forall b' tb', Tk b' tb' -> Tk ((if obj then lit "object " else []) ++ b') ((if obj then [kwt "object"] else []) ++ tb')).
    { destruct obj; [|intros b' tb' H; exact H]. assert (H : CFrag (lit "object ") [kwt "object"]) by lit_cfrag. exact H. }
    apply Ho. change (UId last :: ?x) with ([UId last] ++ x). apply (frag_ident last (proj1 Hl)); [reflexivity|]. apply L_open2.
    specialize (Hf (lit "}" ++ sc_nl ++ b) ([UP 125; UNl] ++ tb)). rewrite <- ?app_assoc in Hf. apply Hf. cbn [app]. apply L_close1, Hb.
  - intros regs p He rest. rewrite <- ?app_assoc. cbn [app].
    change (kwt "package" :: ?x) with ([kwt "package"] ++ x). rewrite (nr_kw (lit "package") regs p p eq_refl _).
    rewrite <- ?app_assoc.
    assert (S : forallb nonl ((if obj then [kwt "object"] else []) ++ [UId last]) = true /\ Bal ((if obj then [kwt "object"] else []) ++ [UId last]))
      by (destruct obj; split; try reflexivity; [apply bal_cons_id, bal_id|apply bal_id]).
    rewrite (app_assoc (if obj then [kwt "object"] else [])). rewrite (nr_run _ regs _ (proj1 S) (proj2 S) _).
    change (UP 123 :: UNl :: UNl :: ?x) with ([UP 123] ++ repeat UNl 2 ++ x). rewrite (nr_open123 regs _ _). rewrite (nr_nls_idle 2 (true :: regs) false _).
    rewrite <- ?app_assoc. rewrite (Hn (true :: regs) false eq_refl _). rewrite pre_false. cbn [orb].
    change (UP 125 :: UNl :: rest) with ([UP 125] ++ [UNl] ++ rest). rewrite (nr_close125 regs _ _ _). rewrite (nr_one_nl regs He _).
    cbn [pre ne seq_toks]. rewrite orb_true_r. norm_app. destruct obj; norm_app; reflexivity.
  - constructor; [|constructor]. destruct obj; cbn [negb app] in *.
    + exact (stat_package_object last cooked ns (proj2 Hl) Hst).
    + exact (stat_packaging last cooked ns (proj2 Hl) Hst).
Qed.

(* ------------------------------------------------------------------ compilation units *)
Definition TopHead (d : list c10_utok) : Prop :=
  (exists r, d = kwt "package" :: kwt "object" :: r) \/
  (exists last r, nm last /\ d = kwt "package" :: UId last :: UP 123 :: r) \/
  NoPkg d.

Lemma unit_seq f ds ns : (match ds with d :: _ => TopHead d | [] => True end) -> Forall2 (StatOk true) ds ns ->
  c10_sc_unit (S f) (seq_toks ds) = Some (fold_right plus O ns).
Proof.
  intros Hh Hds. rewrite <- (top_seq_ok ds ns Hds). destruct ds as [|d ds]; [reflexivity|].
  assert (E : exists x, seq_toks (d :: ds) = d ++ x) by (destruct ds; [exists []; cbn [seq_toks]; rewrite app_nil_r; reflexivity|eexists; reflexivity]).
  destruct E as (x & E). rewrite E. destruct Hh as [(r & ->)|[(last & r & Hl & ->)|(k & r & -> & Hk)]]; cbn [app].
  - apply unit_pkgobj.
  - apply unit_packaging, Hl.
  - apply unit_direct, Hk.
Qed.

(* header, [package parent], top-level statements *)
Lemma unit_text hdr k init body cooked ns :
  CFrag hdr (repeat UNl k) -> Forall gname init -> PS true body cooked ns ->
  (match cooked with d :: _ => TopHead d | [] => True end) ->
  c10_sc_recognise (hdr ++ (match init with [] => [] | _ => lit "package " ++ join [46] init ++ sc_nl ++ sc_nl end) ++ body)
  = Some (fold_right plus O ns).
Proof.
  intros Hh Hi (raw & Hf & Hn & Hst) Hth. unfold c10_sc_recognise. destruct init as [|a r].
  - assert (Htk : Tk (hdr ++ [] ++ body) (repeat UNl k ++ raw)) by (apply cfrag_tk; apply cfrag_app; assumption).
    rewrite (tk_run _ _ Htk).
    pose proof (nr_nls_idle k [] false) as N1. pose proof (Hn [] false eq_refl) as N2.
    pose proof (nr_app _ _ _ _ _ _ _ _ _ _ _ _ _ N1 N2 []) as N. rewrite !app_nil_r in N. rewrite N. cbn [c10_sc_nls app].
    rewrite pre_false. apply unit_seq; assumption.
  - destruct (qual_shape (a :: r) Hi) as (S1 & S2 & S3).
    assert (Htk : Tk (hdr ++ (lit "package " ++ join [46] (a :: r) ++ sc_nl ++ sc_nl) ++ body)
                     (repeat UNl k ++ (kwt "package" :: qual_toks (a :: r) ++ [UNl; UNl]) ++ raw)).
    { apply cfrag_tk. apply cfrag_app; [exact Hh|]. apply cfrag_app; [|exact Hf]. intros b tb Hb. rewrite <- ?app_assoc. cbn [app].
      apply L_pkg. rewrite <- app_assoc. apply (qual_frag (a :: r) ltac:(discriminate) Hi); [reflexivity|]. cbn [app]. apply L_nl. apply L_nl, Hb. }
    rewrite (tk_run _ _ Htk).
    assert (N : c10_sc_nls [] false false (repeat UNl k ++ (kwt "package" :: qual_toks (a :: r) ++ [UNl; UNl]) ++ raw) =
                kwt "package" :: qual_toks (a :: r) ++ pre true cooked).
    { rewrite <- (app_nil_r raw). rewrite (nr_nls_idle k [] false _). cbn [app]. rewrite <- ?app_assoc.
      change (kwt "package" :: ?x) with ([kwt "package"] ++ x). rewrite (nr_kw (lit "package") [] false false eq_refl _).
      rewrite (nr_run _ [] _ S1 S2 _). rewrite (S3 ltac:(discriminate) _). rewrite (nr_two_nl [] eq_refl _). rewrite (Hn [] true eq_refl _).
      cbn [c10_sc_nls sepnl app]. rewrite app_nil_r. reflexivity. }
    rewrite N. destruct cooked as [|d cs].
    + inversion Hst; subst. cbn [pre]. rewrite app_nil_r. apply (unit_clause_only _ a r); [exact (proj2 (Forall_inv Hi))|exact (gnames_nm _ (Forall_inv_tail Hi))].
    + change (pre true (d :: cs)) with (UNl :: seq_toks (d :: cs)).
      cbn [List.length]. rewrite (unit_clause _ a r); [|exact (proj2 (Forall_inv Hi))|exact (gnames_nm _ (Forall_inv_tail Hi))].
      rewrite app_length. cbn [List.length]. rewrite Nat.add_succ_r. apply unit_seq; assumption.
Qed.

(* ------------------------------------------------------------------ the items of one section *)
Lemma psd_concat_ne top parts : parts <> [] -> Forall (PSd top) parts -> PSd top (List.concat parts).
Proof.
  intros Hne H. destruct (ps_concat top parts H) as (c & n & Hps & _ & Hk & Hc & Hn). exists c, n. auto.
Qed.

Section Items.
Variable cfg : sc_config.
Hypothesis Gmap : Forall (fun kv => TyText (snd kv)) (sc_type_mappings cfg).

Lemma sc_items_ps (top : bool) its text :
  Forall (fun it => c10_item_ok CSC it = true /\ c10_scg_item_ok it /\ match it with ItAlias _ => false | _ => true end = top) its ->
  sc_concat (sc_write_item cfg) its = Ok text ->
  exists cooked ns, PS top text cooked ns /\ (List.length its <= fold_right plus O ns)%nat /\ Forall NoPkg cooked.
Proof.
  intros Hits H. unfold sc_concat in H. apply bind_ok in H as (parts & Hp & H). injection H as <-.
  assert (Hparts : Forall (PSd top) parts).
  { eapply mapM_Forall_in; [|exact Hits|exact Hp]. intros it t (Hit & Git & Htop) Ht. unfold sc_write_item in Ht.
    apply bind_ok in Ht as (ds & Hds & Ht). injection Ht as <-. destruct (sc_decl_of_gram cfg Gmap it ds Hit Git Hds) as [Hne Hall].
    apply psd_concat_ne; [destruct ds; [congruence|discriminate]|]. apply Forall_map. revert Hall. apply Forall_impl.
    intros d [Hd Hdt]. rewrite Htop in Hdt. rewrite <- Hdt. apply sc_render_decl_gram, Hd. }
  destruct (ps_concat top parts Hparts) as (c & n & Hps & Hlen & Hk & _ & _). exists c, n. split; [exact Hps|]. split; [|exact Hk].
  assert (Hl : List.length parts = List.length its).
  { clear -Hp. revert parts Hp. induction its as [|it r IH]; intros parts Hp; cbn [mapM] in Hp; [injection Hp as <-; reflexivity|].
    apply bind_ok in Hp as (y & _ & Hp). apply bind_ok in Hp as (ys & Hys & Hp). injection Hp as <-. cbn [List.length]. rewrite (IH _ Hys). reflexivity. }
  lia.
Qed.
End Items.

Lemma unsigned_aliases_ok : c10_scg_decl_ok sc_unsigned_aliases.
Proof.
  cbn [c10_scg_decl_ok sc_unsigned_aliases]. split; [discriminate|].
  repeat constructor; cbn [fst snd]; try reflexivity; try (apply SG_name; [apply gname_lit; reflexivity|constructor]).
Qed.

Lemma sum_app a b : fold_right plus O (a ++ b) = (fold_right plus O a + fold_right plus O b)%nat.
Proof. induction a as [|x a IH]; [reflexivity|]. cbn [app fold_right]. rewrite IH. lia. Qed.

(* ------------------------------------------------------------------ the whole file *)
Theorem sc_generate_recognised uc cfg pd text :
  Proofs.C10_SC.c10_sc_cfg_ok cfg = true -> c10_scg_cfg_ok cfg -> dom_C10 CSC pd = true -> c10_scg_dom pd ->
  sc_generate uc cfg pd = Ok text ->
  exists n, c10_sc_recognise text = Some n /\ (List.length (p_aliases pd) + List.length (p_structs pd) + List.length (p_enums pd) <= n)%nat.
Proof.
  intros Hcfg (Gmap & Gpkg) Hdom Gdom H. unfold sc_generate in H.
  apply bind_ok in H as (head & Hhead & H). apply bind_ok in H as (pobj & Hpobj & H). apply bind_ok in H as (pkg & Hpkg & H). injection H as <-.
  pose proof Hcfg as Hc. unfold Proofs.C10_SC.c10_sc_cfg_ok in Hc. rewrite !andb_true_iff in Hc. destruct Hc as [[_ Hver] _].
  unfold dom_C10 in Hdom. rewrite !forallb_app in Hdom. rewrite !andb_true_iff in Hdom. destruct Hdom as [Hal [Hst [Hen _]]].
  apply Proofs.C10Lex.forallb_Forall in Hal, Hst, Hen.
  unfold c10_scg_dom, items_of in Gdom. rewrite !Forall_app in Gdom. destruct Gdom as (Gal & Gst & Gen & _).
  assert (Ial : Forall (fun it => c10_item_ok CSC it = true /\ c10_scg_item_ok it /\ match it with ItAlias _ => false | _ => true end = false) (map ItAlias (p_aliases pd))).
  { rewrite Forall_forall in *. intros it Hin. split; [auto|]. split; [auto|]. apply in_map_iff in Hin as (a & <- & _). reflexivity. }
  assert (Ist : Forall (fun it => c10_item_ok CSC it = true /\ c10_scg_item_ok it /\ match it with ItAlias _ => false | _ => true end = true) (map ItStruct (p_structs pd))).
  { rewrite Forall_forall in *. intros it Hin. split; [auto|]. split; [auto|]. apply in_map_iff in Hin as (a & <- & _). reflexivity. }
  assert (Ien : Forall (fun it => c10_item_ok CSC it = true /\ c10_scg_item_ok it /\ match it with ItAlias _ => false | _ => true end = true) (map ItEnum (p_enums pd))).
  { rewrite Forall_forall in *. intros it Hin. split; [auto|]. split; [auto|]. apply in_map_iff in Hin as (a & <- & _). reflexivity. }
  (* the header *)
  set (hdr := if sc_no_version_header cfg then [] else hdr_text (sc_version cfg)).
  assert (Hh : exists k, CFrag hdr (repeat UNl k)).
  { unfold hdr. destruct (sc_no_version_header cfg); [exists O; apply cfrag_nil|exists 2%nat; apply hdr_cfrag, Hver]. }
  destruct Hh as (k & Hh).
  (* the body of the package section: structs then enums *)
  assert (Bpk : forall t, (do structs <- sc_concat (sc_write_item cfg) (map ItStruct (p_structs pd));
                           do enums <- sc_concat (sc_write_item cfg) (map ItEnum (p_enums pd)); Ok (structs, enums)) = Ok t ->
                exists c n, PS true (fst t ++ snd t) c n /\ (List.length (p_structs pd) + List.length (p_enums pd) <= fold_right plus O n)%nat /\ Forall NoPkg c).
  { intros [s e] Ht. apply bind_ok in Ht as (s' & Hs & Ht). apply bind_ok in Ht as (e' & He & Ht). injection Ht as <- <-.
    destruct (sc_items_ps cfg Gmap true _ _ Ist Hs) as (c1 & n1 & P1 & L1 & K1). destruct (sc_items_ps cfg Gmap true _ _ Ien He) as (c2 & n2 & P2 & L2 & K2).
    exists (c1 ++ c2), (n1 ++ n2). split; [apply ps_app; assumption|]. rewrite sum_app, !map_length in *. split; [lia|apply Forall_app; split; assumption]. }
  (* [parent.]last: a package clause when there is a parent, then the package object and the packaging, both named by the last
     segment (the whole name when it has no dot) *)
  destruct (pkg_split _ Gpkg) as (init & last & Hinit & Hlast & Er & Elast).
  assert (Eseg : sc_package_last_segment cfg = last).
  { unfold sc_package_last_segment. rewrite Er. destruct init; [apply Elast; reflexivity|reflexivity]. }
  clear Elast.
  unfold sc_begin_file in Hhead. rewrite Er in Hhead. destruct (sc_package cfg) as [|p0 pr] eqn:Ep; [discriminate|]. rewrite <- Ep in Er. injection Hhead as <-.
  {
    assert (Hobj : exists c n, PS true pobj c n /\ (List.length (p_aliases pd) <= fold_right plus O n)%nat /\
                              match c with d :: _ => TopHead d | [] => True end).
    { destruct (sc_unsigned_integer_used pd || negb (sc_is_empty (p_aliases pd))) eqn:Ec.
      - apply bind_ok in Hpobj as (al & Hal' & Hpobj). injection Hpobj as <-.
        destruct (sc_items_ps cfg Gmap false _ _ Ial Hal') as (c1 & n1 & P1 & L1 & K1).
        assert (Hu : exists c0 n0, PS false (if sc_unsigned_integer_used pd then sc_render_decl sc_unsigned_aliases else []) c0 n0).
        { destruct (sc_unsigned_integer_used pd); [|exists [], []; apply ps_nil].
          destruct (sc_render_decl_gram _ unsigned_aliases_ok) as (c0 & n0 & P0 & _). exists c0, n0. exact P0. }
        destruct Hu as (c0 & n0 & P0). pose proof (ps_app false _ _ _ _ _ _ P0 P1) as P01.
        pose proof (ps_section true last _ _ _ Hlast P01) as Psec.
        eexists; eexists. split; [|split].
        + unfold sc_begin_package_object, sc_end_package_object. rewrite Eseg. cbv zeta.
          match goal with |- PS true ?t _ _ =>
            replace t with (lit "package " ++ lit "object " ++ last ++ lit " {" ++ sc_nl ++ sc_nl ++
                  ((if sc_unsigned_integer_used pd then sc_render_decl sc_unsigned_aliases else []) ++ al) ++ lit "}" ++ sc_nl)
            by (norm_app; reflexivity) end.
          exact Psec.
        + cbn [fold_right]. rewrite sum_app, map_length in *. lia.
        + left. eexists. reflexivity.
      - injection Hpobj as <-. apply orb_false_iff in Ec as [_ E2]. exists [], []. split; [apply ps_nil|]. split; [|exact I].
        destruct (p_aliases pd); [cbn; lia|discriminate]. }
    assert (Hpk : exists c n, PS true pkg c n /\ (List.length (p_structs pd) + List.length (p_enums pd) <= fold_right plus O n)%nat /\
                             match c with d :: _ => TopHead d | [] => True end).
    { destruct (negb (sc_is_empty (p_structs pd)) || negb (sc_is_empty (p_enums pd))) eqn:Ec.
      - apply bind_ok in Hpkg as (s & Hs & Hpkg). apply bind_ok in Hpkg as (e & He & Hpkg). injection Hpkg as <-.
        destruct (Bpk (s, e)) as (c1 & n1 & P1 & L1 & K1); [rewrite Hs; cbn [bind]; rewrite He; reflexivity|]. cbn [fst snd] in P1.
        pose proof (ps_section false last _ _ _ Hlast P1) as Psec.
        eexists; eexists. split; [|split].
        + unfold sc_begin_package, sc_end_package. rewrite Eseg. cbv zeta.
          match goal with |- PS true ?t _ _ =>
            replace t with (lit "package " ++ [] ++ last ++ lit " {" ++ sc_nl ++ sc_nl ++ (s ++ e) ++ lit "}" ++ sc_nl)
            by (norm_app; reflexivity) end.
          exact Psec.
        + cbn [fold_right]. lia.
        + right; left. eexists; eexists. split; [exact (proj2 Hlast)|reflexivity].
      - injection Hpkg as <-. apply orb_false_iff in Ec as [E1 E2]. exists [], []. split; [apply ps_nil|]. split; [|exact I].
        destruct (p_structs pd); [|discriminate]. destruct (p_enums pd); [|discriminate]. cbn; lia. }
    destruct Hobj as (c1 & n1 & P1 & L1 & T1). destruct Hpk as (c2 & n2 & P2 & L2 & T2).
    exists (fold_right plus O (n1 ++ n2)). split; [|rewrite sum_app; lia].
    match goal with |- c10_sc_recognise ?t = _ =>
      replace t with (hdr ++ (match init with [] => [] | _ => lit "package " ++ join [46] init ++ sc_nl ++ sc_nl end) ++ (pobj ++ pkg))
      by (unfold hdr, hdr_text; destruct init; norm_app; reflexivity) end.
    apply (unit_text hdr k init (pobj ++ pkg) (c1 ++ c2) (n1 ++ n2) Hh Hinit (ps_app true _ _ _ _ _ _ P1 P2)).
    destruct c1 as [|d cs]; [exact T2|exact T1].
  }
Qed.

(* ------------------------------------------------------------------ the layout layer alone: lists of declarations *)
Lemma decls_ps top ds : Forall (fun d => c10_scg_decl_ok d /\ decl_top d = top) ds ->
  exists c n, PS top (List.concat (map sc_render_decl ds)) c n /\ (List.length ds <= fold_right plus O n)%nat /\ Forall NoPkg c.
Proof.
  intros H. assert (Hp : Forall (PSd top) (map sc_render_decl ds)).
  { apply Forall_map. revert H. apply Forall_impl. intros d [Hd <-]. apply sc_render_decl_gram, Hd. }
  destruct (ps_concat top _ Hp) as (c & n & Hps & Hlen & Hk & _ & _). rewrite map_length in Hlen. exists c, n. auto.
Qed.

(* classes and enums at the top level of a unit *)
Theorem sc_top_decls_recognised ds : Forall (fun d => c10_scg_decl_ok d /\ decl_top d = true) ds ->
  exists n, c10_sc_recognise (List.concat (map sc_render_decl ds)) = Some n /\ (List.length ds <= n)%nat.
Proof.
  intros H. destruct (decls_ps true ds H) as (c & n & Hps & Hlen & Hk). exists (fold_right plus O n). split; [|exact Hlen].
  pose proof (unit_text [] 0 [] _ c n cfrag_nil (Forall_nil _) Hps) as G. cbn [app repeat] in G. apply G.
  destruct c as [|d cs]; [exact I|]. right; right. exact (Forall_inv Hk).
Qed.

(* package a.b / package object c { aliases } / package c { classes and enums } *)
Theorem sc_packaged_decls_recognised init last das dps : init <> [] -> Forall gname init -> gname last ->
  Forall (fun d => c10_scg_decl_ok d /\ decl_top d = false) das -> Forall (fun d => c10_scg_decl_ok d /\ decl_top d = true) dps ->
  exists n, c10_sc_recognise (lit "package " ++ join [46] init ++ sc_nl ++ sc_nl ++
                              lit "package object " ++ last ++ lit " {" ++ sc_nl ++ sc_nl ++ List.concat (map sc_render_decl das) ++ lit "}" ++ sc_nl ++
                              lit "package " ++ last ++ lit " {" ++ sc_nl ++ sc_nl ++ List.concat (map sc_render_decl dps) ++ lit "}" ++ sc_nl) = Some n /\
            (List.length das + List.length dps <= n)%nat.
Proof.
  intros Hne Hi Hl Ha Hp. destruct (decls_ps false das Ha) as (c1 & n1 & P1 & L1 & _). destruct (decls_ps true dps Hp) as (c2 & n2 & P2 & L2 & _).
  pose proof (ps_section true last _ _ _ Hl P1) as S1. pose proof (ps_section false last _ _ _ Hl P2) as S2.
  pose proof (ps_app true _ _ _ _ _ _ S1 S2) as S12.
  exists (fold_right plus O ([fold_right plus O n1] ++ [fold_right plus O n2])). split; [|cbn [app fold_right]; lia].
  destruct init as [|i0 ir]; [congruence|].
  pose proof (unit_text [] 0 (i0 :: ir) _ _ _ cfrag_nil Hi S12) as G. cbn [repeat] in G.
  match goal with |- c10_sc_recognise ?t = _ => match type of G with _ -> c10_sc_recognise ?u = _ => replace t with u by (norm_app; reflexivity) end end.
  apply G. left. eexists. reflexivity.
Qed.

(* package object c { aliases } / package c { classes and enums } with no package clause before them: the layout under a package
   name without a dot (scala.rs after the /repo fix of C10-scala-toplevel-alias) *)
Theorem sc_dotless_decls_recognised last das dps : gname last ->
  Forall (fun d => c10_scg_decl_ok d /\ decl_top d = false) das -> Forall (fun d => c10_scg_decl_ok d /\ decl_top d = true) dps ->
  exists n, c10_sc_recognise (lit "package object " ++ last ++ lit " {" ++ sc_nl ++ sc_nl ++ List.concat (map sc_render_decl das) ++ lit "}" ++ sc_nl ++
                              lit "package " ++ last ++ lit " {" ++ sc_nl ++ sc_nl ++ List.concat (map sc_render_decl dps) ++ lit "}" ++ sc_nl) = Some n /\
            (List.length das + List.length dps <= n)%nat.
Proof.
  intros Hl Ha Hp. destruct (decls_ps false das Ha) as (c1 & n1 & P1 & L1 & _). destruct (decls_ps true dps Hp) as (c2 & n2 & P2 & L2 & _).
  pose proof (ps_section true last _ _ _ Hl P1) as S1. pose proof (ps_section false last _ _ _ Hl P2) as S2.
  pose proof (ps_app true _ _ _ _ _ _ S1 S2) as S12.
  exists (fold_right plus O ([fold_right plus O n1] ++ [fold_right plus O n2])). split; [|cbn [app fold_right]; lia].
  pose proof (unit_text [] 0 [] _ _ _ cfrag_nil (Forall_nil _) S12) as G. cbn [repeat] in G.
  match goal with |- c10_sc_recognise ?t = _ => match type of G with _ -> c10_sc_recognise ?u = _ => replace t with u by (norm_app; reflexivity) end end.
  apply G. left. eexists. reflexivity.
Qed.

(* ------------------------------------------------------------------ a computable sufficient condition for the verbatim texts *)
Definition gnameb (n : str) : bool := c10_sc_ident_ok n && negb (c10_sc_kw n).
Lemma gnameb_ok n : gnameb n = true -> gname n.
Proof. unfold gnameb. rewrite andb_true_iff, negb_true_iff. intros [H1 H2]. split; assumption. Qed.

(* ------------------------------------------------------------------ non-vacuity *)
Definition g_id (s : string) : id := {| original := lit s; renamed := lit s; via_serde_rename := false |}.
Definition g_field (name : string) (ty : rtype) : rfield :=
  {| fid := g_id name; fty := ty; fcomments := [lit "a doc line with ""quotes"", a ( paren and a // slash pair"]; has_default := false; fdecs := [] |}.
Definition g_struct : rstruct :=
  {| sid := g_id "Person"; sgenerics := [lit "T"; lit "U"];
     sfields := [g_field "name" (RPrim PString);
                 {| fid := g_id "age"; fty := ROption (RPrim PU32); fcomments := []; has_default := true; fdecs := [] |};
                 g_field "tags" (RVec (RSimple (lit "T")));
                 g_field "home" (RSimple (lit "Url"));
                 g_field "index" (RHashMap (RPrim PString) (RGeneric (lit "Box") [RSimple (lit "U"); RVec (RPrim PBool)]));
                 {| fid := {| original := lit "first_name"; renamed := lit "first-name"; via_serde_rename := true |}; fty := ROption (ROption (RPrim PString));
                    fcomments := []; has_default := false; fdecs := [] |};
                 {| fid := g_id "raw"; fty := RPrim PString; fcomments := [lit "one"; lit "two"]; has_default := false;
                    fdecs := [(Scala, [DNameValue (lit "type") (lit "Map[String, Vector[Int]]")])] |}];
     scomments := [lit "first line"; lit "second line"]; sdecs := []; sredacted := false |}.
Definition g_empty : rstruct :=
  {| sid := g_id "Nothing"; sgenerics := []; sfields := []; scomments := [lit "no fields"]; sdecs := []; sredacted := false |}.
Definition g_alias : ralias :=
  {| aid := g_id "Al"; agenerics := [lit "T"]; atype := ROption (RVec (RSimple (lit "T"))); acomments := [lit "an alias"]; adecs := []; aredacted := false |}.
Definition g_unit_enum : renum :=
  EUnit {| eid := g_id "Color"; egenerics := []; ecomments := [];
           evariants := [VUnit {| vid := g_id "Red"; vcomments := [lit "the red one"] |};
                         VUnit {| vid := {| original := lit "DarkBlue"; renamed := lit "dark-blue"; via_serde_rename := true |}; vcomments := [] |}];
           edecs := []; erecursive := false; eredacted := false |}.
Definition g_enum : renum :=
  EAlgebraic (lit "type") (lit "content")
    {| eid := g_id "E"; egenerics := [lit "T"]; ecomments := [lit "an enum"];
       evariants := [VUnit {| vid := g_id "U"; vcomments := [] |};
                     VTuple (RHashMap (RPrim PString) (ROption (RSimple (lit "T")))) {| vid := g_id "Tup"; vcomments := [lit "doc"] |};
                     VAnon [{| fid := {| original := lit "inner"; renamed := lit "in-ner"; via_serde_rename := true |}; fty := RPrim PU32; fcomments := []; has_default := false; fdecs := [] |};
                            g_field "when" (RSimple (lit "T"))] {| vid := g_id "S"; vcomments := [] |}];
       edecs := []; erecursive := false; eredacted := false |}.
Definition g_prog : parsed :=
  {| p_structs := [g_struct; g_empty]; p_enums := [g_unit_enum; g_enum]; p_aliases := [g_alias]; p_consts := [];
     p_type_names := []; p_errors := []; p_imports := [] |}.
Definition g_cfg : sc_config :=
  {| sc_package := lit "com.agilebits.onepassword"; sc_module_name := []; sc_type_mappings := [(lit "Url", lit "String")];
     sc_no_version_header := false; sc_version := lit "1.13.2" |}.

Definition g_text : str := match sc_generate uc_exec g_cfg g_prog with Ok t => t | _ => [] end.

(* mutilations: the text without its last three characters; without its first opening parenthesis; with its first [=] turned into
   [:]; without its first comma *)
Fixpoint g_drop_first (c : char) (s : str) : str :=
  match s with [] => [] | x :: r => if x =? c then r else x :: g_drop_first c r end.
Fixpoint g_subst_first (c d : char) (s : str) : str :=
  match s with [] => [] | x :: r => if x =? c then d :: r else x :: g_subst_first c d r end.

Lemma g_override_tytext : TyText (lit "Map[String, Vector[Int]]").
Proof.
  change (lit "Map[String, Vector[Int]]")
    with (lit "Map[" ++ lit "String" ++ lit ", " ++ (lit "Vector" ++ lit "[" ++ join (lit ", ") [lit "Int"] ++ lit "]") ++ lit "]").
  apply tytext_map; [apply tytext_ident, gname_lit; reflexivity|].
  apply tytext_app; [apply gname_lit; reflexivity|discriminate|]. constructor; [|constructor]. apply tytext_ident, gname_lit; reflexivity.
Qed.

Lemma g_cfg_ok : c10_scg_cfg_ok g_cfg.
Proof.
  split; [repeat constructor; apply tytext_ident, gname_lit; reflexivity|].
  exists [lit "com"; lit "agilebits"; lit "onepassword"]. split; [discriminate|]. split; [|reflexivity].
  repeat constructor; reflexivity.
Qed.

Lemma g_dom_ok : c10_scg_dom g_prog.
Proof.
  assert (Hf : forall f, gnameb (replace_char ch_dash ch_us (renamed (fid f))) = true -> c10_sc_rtype_kw (fty f) = false ->
                         type_override f Scala = None -> (has_default f = true -> is_optional (fty f) = true) -> c10_scg_field_ok f).
  { intros f H1 H2 H3 H4. split; [apply gnameb_ok, H1|]. split; [exact H2|]. split; [|exact H4]. intros o E. rewrite H3 in E. discriminate. }
  assert (Hraw : forall f, gnameb (replace_char ch_dash ch_us (renamed (fid f))) = true -> c10_sc_rtype_kw (fty f) = false ->
                           type_override f Scala = Some (lit "Map[String, Vector[Int]]") -> has_default f = false -> c10_scg_field_ok f).
  { intros f H1 H2 H3 H4. split; [apply gnameb_ok, H1|]. split; [exact H2|]. split; [|rewrite H4; discriminate].
    intros o E. rewrite H3 in E. injection E as <-. exact g_override_tytext. }
  unfold c10_scg_dom. cbn [items_of g_prog p_aliases p_structs p_enums p_consts map app].
  repeat (apply Forall_cons); try apply Forall_nil; cbn [c10_scg_item_ok enum_shared].
  - split; [reflexivity|]. split; [repeat constructor|reflexivity].
  - split; [reflexivity|]. split; [repeat constructor|].
    repeat (apply Forall_cons); try apply Forall_nil;
      try (apply Hf; [vm_compute; reflexivity|vm_compute; reflexivity|vm_compute; reflexivity|vm_compute; try discriminate; reflexivity]).
    apply Hraw; vm_compute; reflexivity.
  - split; [reflexivity|]. split; [constructor|constructor].
  - split; [reflexivity|]. split; [reflexivity|]. split; [constructor|]. split; [|exact I].
    repeat (apply Forall_cons); try apply Forall_nil; split; try reflexivity; exact I.
  - split; [reflexivity|]. split; [reflexivity|]. split; [repeat constructor|].
    split; [|repeat (apply Forall_cons); try apply Forall_nil; try exact I; apply gname_lit; reflexivity].
    repeat (apply Forall_cons); try apply Forall_nil; split; try reflexivity; try exact I.
    repeat (apply Forall_cons); try apply Forall_nil;
      (apply Hf; [vm_compute; reflexivity|vm_compute; reflexivity|vm_compute; reflexivity|vm_compute; try discriminate; reflexivity]).
Qed.

Example C10_sc_grammar_nonvacuous :
  Proofs.C10_SC.c10_sc_cfg_ok g_cfg = true /\ c10_scg_cfg_ok g_cfg /\
  dom_C10 CSC g_prog = true /\ c10_scg_dom g_prog /\
  known_C10 CSC (sc_package g_cfg) g_prog = [] /\ known_C10_sc_grammar (sc_package g_cfg) g_prog = [] /\
  sc_generate uc_exec g_cfg g_prog = Ok g_text /\
  c10_sc_recognise g_text = Some 12%nat /\
  contains_sub (lit "package com.agilebits") g_text = true /\
  contains_sub (lit "package object onepassword {") g_text = true /\
  contains_sub (lit "type ULong = Int") g_text = true /\
  contains_sub (lit "type Al[T] = Option[Vector[T]]") g_text = true /\
  contains_sub (lit "case class Person[T, U] (") g_text = true /\
  contains_sub (lit "age: Option[UInt] = None,") g_text = true /\
  contains_sub (lit "index: Map[String, Box[U, Vector[Boolean]]],") g_text = true /\
  contains_sub (lit "first_name: Option[Option[String]] = None,") g_text = true /\
  contains_sub (lit "raw: Map[String, Vector[Int]]") g_text = true /\
  contains_sub (lit "class Nothing extends Serializable") g_text = true /\
  contains_sub (lit "case object DarkBlue extends Color {") g_text = true /\
  contains_sub (lit "val serialName: String = ""dark-blue""") g_text = true /\
  contains_sub (lit "case class Tup[T](content: Map[String, Option[T]]) extends E[T] {") g_text = true /\
  contains_sub (lit "case class S[T](content: ESInner[T]) extends E[T] {") g_text = true /\
  c10_sc_recognise (firstn (List.length g_text - 3) g_text) = None /\
  c10_sc_recognise (g_drop_first 40 g_text) = None /\
  c10_sc_recognise (g_subst_first 61 58 g_text) = None /\
  c10_sc_recognise (g_drop_first 44 g_text) = None /\
  c10_sc_recognise (g_drop_first 91 g_text) = None.
Proof.
  split; [vm_compute; reflexivity|]. split; [exact g_cfg_ok|]. split; [vm_compute; reflexivity|]. split; [exact g_dom_ok|].
  repeat split; vm_compute; reflexivity.
Qed.

(* the witness, in the form stated in Props/C10.v *)
Lemma grammar_witness :
  Proofs.C10_SC.c10_sc_cfg_ok g_cfg = true /\ c10_scg_cfg_ok g_cfg /\ dom_C10 CSC g_prog = true /\ c10_scg_dom g_prog /\
  known_C10 CSC (sc_package g_cfg) g_prog = [] /\ known_C10_sc_grammar (sc_package g_cfg) g_prog = [] /\
  sc_generate uc_exec g_cfg g_prog = Ok g_text /\ c10_sc_recognise g_text = Some 12%nat /\
  contains_sub (lit "package object onepassword {") g_text = true /\
  contains_sub (lit "case class Person[T, U] (") g_text = true /\
  contains_sub (lit "first_name: Option[Option[String]] = None,") g_text = true /\
  contains_sub (lit "case class S[T](content: ESInner[T]) extends E[T] {") g_text = true /\
  c10_sc_recognise (firstn (List.length g_text - 3) g_text) = None /\
  c10_sc_recognise (g_drop_first 40 g_text) = None /\
  c10_sc_recognise (g_subst_first 61 58 g_text) = None /\
  c10_sc_recognise (g_drop_first 44 g_text) = None /\
  c10_sc_recognise (g_drop_first 91 g_text) = None.
Proof.
  destruct C10_sc_grammar_nonvacuous as (A1 & A2 & A3 & A4 & A6 & A7 & A8 & A9 & _ & B11 & _ & _ & B14 & _ & _ & B17 & _ & _ & _ & _ & _ & B23 & C1 & C2 & C3 & C4 & C5).
  repeat (split; [assumption|]). assumption.
Qed.

(* ------------------------------------------------------------------ the finding classes of the grammar half are real *)
Definition k_prog : parsed :=
  {| p_structs := [{| sid := g_id "S"; sgenerics := []; sfields := [{| fid := g_id "type"; fty := RPrim PString; fcomments := []; has_default := false; fdecs := [] |};
                                                                     {| fid := g_id "val"; fty := RPrim PI32; fcomments := []; has_default := false; fdecs := [] |}];
                      scomments := []; sdecs := []; sredacted := false |}];
     p_enums := []; p_aliases := []; p_consts := []; p_type_names := []; p_errors := []; p_imports := [] |}.
Definition t_cfg : sc_config :=
  {| sc_package := lit "p"; sc_module_name := []; sc_type_mappings := []; sc_no_version_header := true; sc_version := [] |}.
Definition t_prog : parsed :=
  {| p_structs := [{| sid := g_id "A"; sgenerics := []; sfields := [{| fid := g_id "x"; fty := RPrim PU8; fcomments := []; has_default := false; fdecs := [] |}];
                      scomments := []; sdecs := []; sredacted := false |}];
     p_enums := []; p_aliases := [{| aid := g_id "Al"; agenerics := []; atype := RVec (RPrim PU32); acomments := []; adecs := []; aredacted := false |}];
     p_consts := []; p_type_names := []; p_errors := []; p_imports := [] |}.
Definition d_prog : parsed :=
  {| p_structs := [{| sid := g_id "A"; sgenerics := []; sfields := [{| fid := g_id "x"; fty := RPrim PString; fcomments := []; has_default := true; fdecs := [] |}];
                      scomments := []; sdecs := []; sredacted := false |}];
     p_enums := []; p_aliases := []; p_consts := []; p_type_names := []; p_errors := []; p_imports := [] |}.

Lemma scala_keyword_name_refuted :
  exists text, dom_C10 CSC k_prog = true /\ known_C10 CSC (sc_package g_cfg) k_prog = [] /\
    known_C10_sc_grammar (sc_package g_cfg) k_prog = ["C10-scala-keyword-name"%string] /\
    sc_generate uc_exec g_cfg k_prog = Ok text /\ contains_sub (lit "type: String,") text = true /\ contains_sub (lit "val: Int") text = true /\
    good_C10_lex CSC text = true /\ c10_sc_recognise text = None.
Proof. eexists. repeat split; vm_compute; reflexivity. Qed.

(* the recorded class C10-scala-default is seen by the recogniser as well: `= _` is not an Expr *)
Lemma scala_default_rejected :
  exists text, dom_C10 CSC d_prog = true /\ known_C10 CSC (sc_package g_cfg) d_prog = ["C10-scala-default"%string] /\
    known_C10_sc_grammar (sc_package g_cfg) d_prog = [] /\
    sc_generate uc_exec g_cfg d_prog = Ok text /\ contains_sub (lit "x: String = _") text = true /\ c10_sc_recognise text = None.
Proof. eexists. repeat split; vm_compute; reflexivity. Qed.

Definition c_prog : parsed :=
  {| p_structs := [];
     p_enums := [EAlgebraic (lit "t") (lit "my-content")
                   {| eid := g_id "E"; egenerics := []; ecomments := [];
                      evariants := [VTuple (RPrim PString) {| vid := g_id "A"; vcomments := [] |}];
                      edecs := []; erecursive := false; eredacted := false |}];
     p_aliases := []; p_consts := []; p_type_names := []; p_errors := []; p_imports := [] |}.

Lemma scala_content_key_refuted :
  exists text, dom_C10 CSC c_prog = true /\ known_C10 CSC (sc_package g_cfg) c_prog = [] /\
    known_C10_sc_grammar (sc_package g_cfg) c_prog = ["C10-scala-content-key"%string] /\
    sc_generate uc_exec g_cfg c_prog = Ok text /\ contains_sub (lit "case class A(my-content: String) extends E {") text = true /\
    good_C10_lex CSC text = true /\ c10_sc_recognise text = None.
Proof. eexists. repeat split; vm_compute; reflexivity. Qed.

(* ------------------------------------------------------------------ the domain in terms of the recorded finding classes *)
(* what is left to assume besides "in no finding class": every Scala type override is a type of the grammar *)
Definition c10_scg_overrides_ok (pd : parsed) : Prop :=
  Forall (fun f => forall o, type_override f Scala = Some o -> TyText o) (c10_all_fields pd).

Lemma existsb_false_forall {A} (p : A -> bool) l : existsb p l = false -> forall x, In x l -> p x = false.
Proof.
  intros H x Hx. destruct (p x) eqn:E; [|reflexivity]. assert (existsb p l = true) by (apply existsb_exists; eauto). congruence.
Qed.
Lemma existsb_false_Forall {A} (p : A -> bool) l : existsb p l = false -> Forall (fun x => p x = false) l.
Proof. intros H. apply Forall_forall. exact (existsb_false_forall p l H). Qed.
Lemma existsb_flat_map {A B} (p : B -> bool) (f : A -> list B) l : existsb p (flat_map f l) = existsb (fun x => existsb p (f x)) l.
Proof. induction l as [|x l IH]; [reflexivity|]. cbn [flat_map existsb]. rewrite existsb_app, IH. reflexivity. Qed.
Lemma existsb_map_ {A B} (p : B -> bool) (f : A -> B) l : existsb p (map f l) = existsb (fun x => p (f x)) l.
Proof. induction l as [|x l IH]; [reflexivity|]. cbn [map existsb]. rewrite IH. reflexivity. Qed.
Lemma existsb_ext_ {A} (p q : A -> bool) l : (forall x, p x = q x) -> existsb p l = existsb q l.
Proof. intros H. induction l as [|x l IH]; [reflexivity|]. cbn [existsb]. rewrite H, IH. reflexivity. Qed.

(* a key-shaped name that does not start with a digit is identifier-shaped once its dashes are replaced *)
Lemma key_sc_ident k : c10_key_ok k = true -> c10_digit_first k = false -> c10_sc_ident_ok (replace_char ch_dash ch_us k) = true.
Proof.
  destruct k as [|c r]; [discriminate|]. unfold c10_key_ok, c10_digit_first, replace_char. cbn [forallb map c10_sc_ident_ok].
  rewrite andb_true_iff. intros [Hc Hr] Hd. apply andb_true_iff. split.
  - unfold c10_key_char, c10_sc_letter, is_aalpha, is_alower, is_aupper, is_adigit, ch_us, ch_dash in *. destruct (c =? 45) eqn:E; lia.
  - rewrite forallb_forall in *. intros x Hx. apply in_map_iff in Hx as (y & <- & Hy). specialize (Hr y Hy).
    unfold c10_key_char, c10_sc_id_char, c10_sc_letter, is_aalpha, is_alower, is_aupper, is_adigit, ch_us, ch_dash in *. destruct (y =? 45) eqn:E; lia.
Qed.

Lemma cls_nil (b : bool) s l : (if b then [s] else []) ++ l = @nil string -> b = false /\ l = [].
Proof. destruct b; [discriminate|]. intros H. split; [reflexivity|exact H]. Qed.

Lemma cls_nil1 (b : bool) (s : string) : (if b then [s] else []) = @nil string -> b = false.
Proof. destruct b; [discriminate|reflexivity]. Qed.

Lemma ident_shape_eq s : c10_sc_ident_shape s = c10_sc_ident_ok s.
Proof. reflexivity. Qed.

Theorem classes_dom cfg pd :
  dom_C10 CSC pd = true -> known_C10 CSC (sc_package cfg) pd = [] -> known_C10_sc_grammar (sc_package cfg) pd = [] -> c10_scg_overrides_ok pd ->
  c10_scg_dom pd.
Proof.
  intros Hdom Hk Hg Hov.
  cbn [known_C10] in Hk. unfold c10_cls10 in Hk. apply cls_nil in Hk as [Hdef Hk]. apply cls_nil1 in Hk as Hdig.
  unfold known_C10_sc_grammar in Hg. cbv zeta in Hg. apply cls_nil in Hg as [Hkw Hg]. apply cls_nil1 in Hg as Hcon.
  pose proof (existsb_false_forall _ _ Hdef) as Fdef. pose proof (existsb_false_forall _ _ Hdig) as Fdig. unfold c10_scg_overrides_ok in Hov. rewrite Forall_forall in Hov.
  unfold dom_C10 in Hdom. rewrite !forallb_app in Hdom. rewrite !andb_true_iff in Hdom. destruct Hdom as [Hal [Hst [Hen _]]].
  unfold c10_sc_kw_class in Hkw. rewrite !orb_false_iff in Hkw. destruct Hkw as [[Kst Ken] Kal].
  (* one field *)
  assert (Hfield : forall f, In f (c10_all_fields pd) -> c10_field_ok CSC f = true -> c10_sc_field_kw f = false -> c10_scg_field_ok f).
  { intros f Hin Hf Kf. unfold c10_sc_field_kw in Kf. apply orb_false_iff in Kf as [K1 K2].
    unfold c10_field_ok in Hf. rewrite !andb_true_iff in Hf. destruct Hf as [[[Hid _] _] _]. unfold c10_member_id_ok in Hid. apply andb_true_iff in Hid as [_ Hren].
    split; [split; [apply key_sc_ident; [exact Hren|exact (Fdig f Hin)]|exact K1]|]. split; [exact K2|]. split; [exact (Hov f Hin)|].
    intros Hd. specialize (Fdef f Hin). cbn beta in Fdef. rewrite Hd in Fdef. cbn [andb] in Fdef. apply negb_false_iff in Fdef. exact Fdef. }
  unfold c10_scg_dom, items_of. rewrite !Forall_app. split; [|split; [|split]].
    + apply Forall_forall. intros it Hin. apply in_map_iff in Hin as (a & <- & Ha). cbn [c10_scg_item_ok].
      pose proof (existsb_false_forall _ _ Kal a Ha) as K. cbn beta in K. rewrite !orb_false_iff in K. destruct K as [[K1 K2] K3].
      split; [exact K1|]. split; [exact (existsb_false_Forall _ _ K2)|exact K3].
    + apply Forall_forall. intros it Hin. apply in_map_iff in Hin as (s & <- & Hs). cbn [c10_scg_item_ok].
      pose proof (existsb_false_forall _ _ Kst s Hs) as K. cbn beta in K. rewrite !orb_false_iff in K. destruct K as [[K1 K2] K3].
      rewrite forallb_forall in Hst. specialize (Hst (ItStruct s) (in_map ItStruct _ _ Hs)). cbn [c10_item_ok] in Hst. rewrite !andb_true_iff in Hst.
      destruct Hst as [[[[_ _] Hf] _] _]. rewrite forallb_forall in Hf.
      split; [exact K1|]. split; [exact (existsb_false_Forall _ _ K2)|]. apply Forall_forall. intros f Hfin. apply Hfield.
      * unfold c10_all_fields. apply in_or_app. left. apply in_flat_map. exists s. split; assumption.
      * exact (Hf f Hfin).
      * exact (existsb_false_forall _ _ K3 f Hfin).
    + apply Forall_forall. intros it Hin. apply in_map_iff in Hin as (e & <- & He). cbn [c10_scg_item_ok].
      pose proof (existsb_false_forall _ _ Ken e He) as K. cbn beta zeta in K. rewrite !orb_false_iff in K. destruct K as [[[[K1 K2] K3] K4] K5].
      rewrite forallb_forall in Hen. specialize (Hen (ItEnum e) (in_map ItEnum _ _ He)). cbn [c10_item_ok] in Hen. rewrite !andb_true_iff in Hen.
      destruct Hen as [[[[[_ _] _] Hv] _] Htc]. rewrite forallb_forall in Hv.
      split; [exact K1|]. split; [exact K2|]. split; [exact (existsb_false_Forall _ _ K3)|]. split.
      * apply Forall_forall. intros v Hvin. pose proof (existsb_false_forall _ _ K5 v Hvin) as Kv. cbn beta in Kv. apply orb_false_iff in Kv as [Kv1 Kv2].
        split; [exact Kv1|]. destruct v as [vs | t vs | fs vs]; [exact I|exact Kv2|].
        specialize (Hv _ Hvin). unfold c10_variant_ok in Hv. rewrite !andb_true_iff in Hv. destruct Hv as [_ Hfs]. rewrite forallb_forall in Hfs.
        apply Forall_forall. intros f Hfin. apply Hfield.
        -- unfold c10_all_fields. apply in_or_app. right. apply in_flat_map. exists e. split; [exact He|]. apply in_flat_map. exists (VAnon fs vs). split; [exact Hvin|exact Hfin].
        -- exact (Hfs f Hfin).
        -- exact (existsb_false_forall _ _ Kv2 f Hfin).
      * destruct e as [sh | tag content sh]; [exact I|]. cbn [enum_shared] in *.
        pose proof (existsb_false_forall _ _ Hcon _ He) as Kc. cbn beta in Kc.
        apply Forall_forall. intros v Hvin. destruct v as [vs | t vs | fs vs]; [exact I| |];
          (split; [|exact K4]; apply andb_false_iff in Kc as [Kc|Kc]; [apply negb_false_iff in Kc; exact Kc|];
           pose proof (existsb_false_forall _ _ Kc _ Hvin) as Kv; discriminate).
    + apply Forall_forall. intros it Hin. apply in_map_iff in Hin as (c & <- & _). exact I.
Qed.

(* the whole-file theorem with the grammar domain spelled as "in no recorded finding class" *)
Theorem sc_generate_recognised_classes uc cfg pd text :
  Proofs.C10_SC.c10_sc_cfg_ok cfg = true -> c10_scg_cfg_ok cfg -> dom_C10 CSC pd = true ->
  known_C10 CSC (sc_package cfg) pd = [] -> known_C10_sc_grammar (sc_package cfg) pd = [] -> c10_scg_overrides_ok pd ->
  sc_generate uc cfg pd = Ok text ->
  exists n, c10_sc_recognise text = Some n /\ (List.length (p_aliases pd) + List.length (p_structs pd) + List.length (p_enums pd) <= n)%nat.
Proof.
  intros Hcfg Gcfg Hdom Hk Hg Hov H. pose proof (classes_dom cfg pd Hdom Hk Hg Hov) as Gdom.
  exact (sc_generate_recognised uc cfg pd text Hcfg Gcfg Hdom Gdom H).
Qed.

Lemma dom_fields pd : c10_scg_dom pd -> Forall c10_scg_field_ok (c10_all_fields pd).
Proof.
  unfold c10_scg_dom, items_of. rewrite !Forall_app. intros (_ & Gst & Gen & _). rewrite Forall_forall in *. intros f Hin.
  unfold c10_all_fields in Hin. apply in_app_or in Hin as [Hin|Hin].
  - apply in_flat_map in Hin as (s & Hs & Hf). specialize (Gst (ItStruct s) (in_map ItStruct _ _ Hs)). cbn [c10_scg_item_ok] in Gst.
    destruct Gst as (_ & _ & G). rewrite Forall_forall in G. exact (G f Hf).
  - apply in_flat_map in Hin as (e & He & Hf). apply in_flat_map in Hf as (v & Hv & Hf).
    specialize (Gen (ItEnum e) (in_map ItEnum _ _ He)). cbn [c10_scg_item_ok] in Gen. destruct Gen as (_ & _ & _ & G & _).
    rewrite Forall_forall in G. specialize (G v Hv). destruct v as [vs | t vs | fs vs]; try (destruct Hf; fail).
    destruct G as [_ G]. rewrite Forall_forall in G. exact (G f Hf).
Qed.

Example C10_sc_grammar_classes_nonvacuous :
  known_C10 CSC (sc_package g_cfg) g_prog = [] /\ known_C10_sc_grammar (sc_package g_cfg) g_prog = [] /\ c10_scg_overrides_ok g_prog.
Proof.
  split; [vm_compute; reflexivity|]. split; [vm_compute; reflexivity|].
  unfold c10_scg_overrides_ok. pose proof (dom_fields g_prog g_dom_ok) as G. revert G. apply Forall_impl. intros f (_ & _ & Ho & _). exact Ho.
Qed.

(* ------------------------------------------------------------------ COMPUTABLE sufficient conditions for the verbatim texts *)
(* the segments of a dotted name *)
Fixpoint c10_sc_segments (s : str) : list str :=
  match s with
  | [] => [[]]
  | c :: r => if c =? 46 then [] :: c10_sc_segments r
              else match c10_sc_segments r with h :: t => (c :: h) :: t | [] => [[c]] end
  end.
Lemma segments_ne s : c10_sc_segments s <> [].
Proof. destruct s as [|c r]; cbn [c10_sc_segments]; [discriminate|]. destruct (c =? 46); [discriminate|]. destruct (c10_sc_segments r); discriminate. Qed.
Lemma join_segments s : join [46] (c10_sc_segments s) = s.
Proof.
  induction s as [|c r IH]; [reflexivity|]. cbn [c10_sc_segments]. pose proof (segments_ne r) as Hne. destruct (c =? 46) eqn:E.
  - destruct (c10_sc_segments r) as [|h t]; [congruence|]. change (join [46] ([] :: h :: t)) with ([] ++ [46] ++ join [46] (h :: t)).
    rewrite IH. cbn [app]. f_equal. lia.
  - destruct (c10_sc_segments r) as [|h t]; [congruence|]. rewrite <- IH. destruct t as [|h2 t]; [reflexivity|].
    change (join [46] ((c :: h) :: h2 :: t)) with ((c :: h) ++ [46] ++ join [46] (h2 :: t)). reflexivity.
Qed.

(* every type_mappings value is a name of the grammar (String, Instant, BigInt ...), the package name splits at its dots into names *)
Definition c10_scg_cfg_simple (cfg : sc_config) : bool :=
  forallb (fun kv => gnameb (snd kv)) (sc_type_mappings cfg) && forallb gnameb (c10_sc_segments (sc_package cfg)).
(* every Scala type override is a name of the grammar *)
Definition c10_scg_overrides_simple (pd : parsed) : bool :=
  forallb (fun f => match type_override f Scala with Some o => gnameb o | None => true end) (c10_all_fields pd).

Lemma cfg_simple_ok cfg : c10_scg_cfg_simple cfg = true -> c10_scg_cfg_ok cfg.
Proof.
  unfold c10_scg_cfg_simple. rewrite andb_true_iff. intros [H1 H2]. split.
  - apply Proofs.C10Lex.forallb_Forall in H1. revert H1. apply Forall_impl. intros kv H. apply tytext_ident, gnameb_ok, H.
  - exists (c10_sc_segments (sc_package cfg)). split; [apply segments_ne|]. split; [|symmetry; apply join_segments].
    apply Proofs.C10Lex.forallb_Forall in H2. revert H2. apply Forall_impl. intros s H. apply gnameb_ok, H.
Qed.
Lemma overrides_simple_ok pd : c10_scg_overrides_simple pd = true -> c10_scg_overrides_ok pd.
Proof.
  unfold c10_scg_overrides_simple, c10_scg_overrides_ok. intros H. apply Proofs.C10Lex.forallb_Forall in H. revert H. apply Forall_impl.
  intros f H o E. rewrite E in H. apply tytext_ident, gnameb_ok, H.
Qed.

Theorem sc_generate_recognised_simple uc cfg pd text :
  Proofs.C10_SC.c10_sc_cfg_ok cfg = true -> c10_scg_cfg_simple cfg = true -> dom_C10 CSC pd = true ->
  known_C10 CSC (sc_package cfg) pd = [] -> known_C10_sc_grammar (sc_package cfg) pd = [] -> c10_scg_overrides_simple pd = true ->
  sc_generate uc cfg pd = Ok text ->
  exists n, c10_sc_recognise text = Some n /\ (List.length (p_aliases pd) + List.length (p_structs pd) + List.length (p_enums pd) <= n)%nat.
Proof.
  intros Hcfg Gcfg Hdom Hk Hg Hov. apply sc_generate_recognised_classes; auto using cfg_simple_ok, overrides_simple_ok.
Qed.

(* satisfiable: the witness program without its verbatim override, under the witness configuration *)
Definition s_prog : parsed :=
  {| p_structs := [{| sid := g_id "Person"; sgenerics := [lit "T"];
                      sfields := [g_field "name" (RPrim PString); g_field "home" (RSimple (lit "Url")); g_field "tags" (RVec (RSimple (lit "T")));
                                  {| fid := g_id "when"; fty := RPrim PString; fcomments := []; has_default := false;
                                     fdecs := [(Scala, [DNameValue (lit "type") (lit "Instant")])] |}];
                      scomments := []; sdecs := []; sredacted := false |}];
     p_enums := [g_unit_enum; g_enum]; p_aliases := [g_alias]; p_consts := []; p_type_names := []; p_errors := []; p_imports := [] |}.
Example C10_sc_grammar_simple_nonvacuous :
  Proofs.C10_SC.c10_sc_cfg_ok g_cfg = true /\ c10_scg_cfg_simple g_cfg = true /\ dom_C10 CSC s_prog = true /\
  known_C10 CSC (sc_package g_cfg) s_prog = [] /\ known_C10_sc_grammar (sc_package g_cfg) s_prog = [] /\ c10_scg_overrides_simple s_prog = true /\
  exists text, sc_generate uc_exec g_cfg s_prog = Ok text /\ contains_sub (lit "when: Instant") text = true /\ c10_sc_recognise text = Some 11%nat.
Proof. repeat split; try (vm_compute; reflexivity). eexists. repeat split; vm_compute; reflexivity. Qed.

(* C10-scala-toplevel-alias is repaired in /repo (scala.rs begin_package_object / begin_package always open a block named by the
   last segment of the package name): the former witness as a regression pin - the exact file under the dotless package `p` *)
Definition t_text : str :=
  lit "package object p {" ++ [10] ++ [10] ++
  lit "type UByte = Byte" ++ [10] ++ lit "type UShort = Short" ++ [10] ++ lit "type UInt = Int" ++ [10] ++ lit "type ULong = Int" ++ [10] ++ [10] ++
  lit "type Al = Vector[UInt]" ++ [10] ++ [10] ++
  lit "}" ++ [10] ++
  lit "package p {" ++ [10] ++ [10] ++
  lit "case class A (" ++ [10] ++ [9] ++ lit "x: UByte" ++ [10] ++ lit ")" ++ [10] ++ [10] ++
  lit "}" ++ [10].
Lemma scala_toplevel_alias_fixed :
  Proofs.C10_SC.c10_sc_cfg_ok t_cfg = true /\ c10_scg_cfg_simple t_cfg = true /\ contains_char sc_ch_dot (sc_package t_cfg) = false /\
  dom_C10 CSC t_prog = true /\ known_C10 CSC (sc_package t_cfg) t_prog = [] /\
  known_C10_sc_grammar (sc_package t_cfg) t_prog = [] /\ c10_scg_overrides_simple t_prog = true /\
  sc_generate uc_exec t_cfg t_prog = Ok t_text /\
  good_C10_lex CSC t_text = true /\ c10_sc_recognise t_text = Some 6%nat.
Proof. repeat split; vm_compute; reflexivity. Qed.
