(* C02 for Go: the `const ( .. )` block of a unit enum; for an algebraic enum the variant constants,
   the struct tag of the tag field and the two anonymous structs of UnmarshalJSON / MarshalJSON. *)
From Coq Require Import List Bool Lia ZifyBool ZifyN.
From TS Require Import Model.Str Model.Outcome Model.Unicode Model.Rename Model.Types Model.Parse Model.Lang.Common Model.Lang.Decl
                       Model.Lang.Go.
From TS Require Import Spec.C16Spec Spec.C02Spec Proofs.C16 Proofs.BackCommon Proofs.C02_Back Proofs.GoAcronyms.
Import ListNotations.
Local Open Scope N_scope.
Local Notation length := List.length (only parsing).

Lemma c02_mmapM_concat_Forall {St A B} (P : B -> Prop) (f : A -> M St (list B)) l s dss s' :
  mmapM f l s = Ok (dss, s') -> (forall x s0 ds s1, f x s0 = Ok (ds, s1) -> Forall P ds) -> Forall P (List.concat dss).
Proof.
  revert s dss s'. induction l as [|x r IH]; intros s dss s' H HP; cbn [mmapM] in H.
  - unfold ret in H. injection H as <- _. constructor.
  - apply mbind_ok in H as (ds & s1 & Hx & H). apply mbind_ok in H as (dss' & s2 & Hr & H).
    unfold ret in H. injection H as <- _. cbn [List.concat]. apply Forall_app. split; [eapply HP; eassumption|].
    eapply IH; eassumption.
Qed.

Section GO.
Variable uc : unicode.
Variable cfg : go_config.

Lemma c02_go_struct_plain rs s d s' : go_struct_decl_of uc cfg rs s = Ok (d, s') -> forallb c02_plain (go_obs d) = true.
Proof.
  unfold go_struct_decl_of. intros H. apply mbind_ok in H as (name & s1 & _ & H). apply mbind_ok in H as (ms & s2 & _ & H).
  unfold ret in H. injection H as <- _. reflexivity.
Qed.

Lemma c02_forallb_flat_map' {A B} (p : B -> bool) (f : A -> list B) l :
  Forall (fun x => forallb p (f x) = true) l -> forallb p (flat_map f l) = true.
Proof. induction 1; cbn [flat_map]; [reflexivity|]. rewrite forallb_app. now rewrite H, IHForall. Qed.

Lemma c02_go_anon_plain sh s anon s' : go_anonymous_struct_decls uc cfg sh s = Ok (anon, s') ->
  forallb c02_plain (flat_map go_obs anon) = true.
Proof.
  unfold go_anonymous_struct_decls. intros H. apply mbind_ok in H as (dss & s1 & Hm & H). unfold ret in H. injection H as <- _.
  apply c02_forallb_flat_map'. apply (c02_mmapM_concat_Forall _ _ _ _ _ _ Hm).
  intros v s0 ds s2 Hv. destruct v as [|? ?|fs vsh].
  - unfold ret in Hv. injection Hv as <- _. constructor.
  - unfold ret in Hv. injection Hv as <- _. constructor.
  - apply mbind_ok in Hv as (sn & s3 & _ & Hv). apply mbind_ok in Hv as (d & s4 & Hd & Hv).
    unfold ret in Hv. injection Hv as <- _. constructor; [|constructor]. exact (c02_go_struct_plain _ _ _ _ Hd).
Qed.

(* without configured acronyms the conversion is the identity *)
Lemma c02_go_acr_nil name s : go_uppercase_acronyms cfg = [] -> go_acronyms_to_uppercase uc cfg name s = Ok (name, s).
Proof. intros H. unfold go_acronyms_to_uppercase, go_convert_acronyms_to_uppercase. rewrite H. reflexivity. Qed.

Lemma c02_go_unit_variant sh v s t s' : go_unit_variant_of uc cfg sh v s = Ok (t, s') ->
  exists vsh en vn, v = VUnit vsh /\ t = (vcomments vsh, en ++ vn, renamed (vid vsh)) /\
    (go_uppercase_acronyms cfg = [] -> en = original (eid sh) /\ vn = original (vid vsh)).
Proof.
  destruct v as [vsh| |]; cbn [go_unit_variant_of]; try discriminate. intros H.
  apply mbind_ok in H as (en & s1 & He & H). apply mbind_ok in H as (vn & s2 & Hv & H).
  unfold ret in H. injection H as <- _. exists vsh, en, vn. repeat split.
  - rewrite (c02_go_acr_nil _ _ H) in He. now injection He.
  - rewrite (c02_go_acr_nil _ _ H) in Hv. now injection Hv.
Qed.

Lemma c02_go_variant sh custom sn tag v s gv s' : go_variant_of uc cfg sh custom sn tag v s = Ok (gv, s') ->
  vd_wire (go_obs_variant gv) = renamed (vid (variant_shared v)) /\
  c02_payload_kind (vd_payload (go_obs_variant gv)) = c02_rvariant_kind v /\
  (go_uppercase_acronyms cfg = [] ->
   vd_name (go_obs_variant gv) = (sn ++ to_pascal_case tag ++ lit "Variant") ++ original (vid (variant_shared v))).
Proof.
  unfold go_variant_of. intros H.
  apply mbind_ok in H as (vname & s1 & Hn & H). apply mbind_ok in H as (vt & s2 & Hvt & H).
  apply mbind_ok in H as (tp & s3 & Htp & H). apply mbind_ok in H as (content & s4 & Hc & H).
  unfold ret in H. injection H as <- _. cbn [go_obs_variant vd_wire vd_payload vd_name gv_wire gv_content gv_const].
  repeat split.
  - destruct v as [vsh|t vsh|fs vsh].
    + unfold ret in Hvt. injection Hvt as <- _. unfold ret in Hc. injection Hc as <- _. reflexivity.
    + apply mbind_ok in Hvt as (x & s5 & _ & Hvt). unfold ret in Hvt. injection Hvt as <- _.
      apply mbind_ok in Hc as (fvt & s6 & _ & Hc). unfold ret in Hc. injection Hc as <- _. reflexivity.
    + apply mbind_ok in Hvt as (x & s5 & _ & Hvt). unfold ret in Hvt. injection Hvt as <- _.
      apply mbind_ok in Hc as (fvt & s6 & _ & Hc). unfold ret in Hc. injection Hc as <- _. reflexivity.
  - intros Ha. rewrite (c02_go_acr_nil _ _ Ha) in Hn. injection Hn as <- _.
    rewrite (c02_go_acr_nil _ _ Ha) in Htp. injection Htp as <- _. now rewrite <- !app_assoc.
Qed.

Theorem C02_go_core custom e s ds s' : go_decl_of uc cfg custom (ItEnum e) s = Ok (ds, s') ->
  dom_C02_back (c02_expect_ir e) = true ->
  c02_good_core Go (c02_expect_ir e) (flat_map go_obs ds) = true /\
  (go_uppercase_acronyms cfg = [] -> c02_good_cases (flat_map go_obs ds) = true).
Proof.
  cbn [go_decl_of]. unfold go_enum_decls_of. intros H Hdom.
  apply mbind_ok in H as (anon & s1 & Ha & H).
  pose proof (c02_go_anon_plain _ _ _ _ Ha) as Hplain.
  pose proof (c02_dom_back_parts _ Hdom) as (Hconv & Hdi & _ & _ & Hdata).
  destruct e as [sh|tag content sh]; cbn [enum_shared] in *.
  - (* const block *)
    apply mbind_ok in H as (en & s2 & Hen & H). apply mbind_ok in H as (vs & s3 & Hv & H).
    unfold ret in H. injection H as <- _. rewrite flat_map_app. cbn [flat_map go_obs]. rewrite app_nil_r.
    apply (mmapM_Forall2 _ (fun v t => exists vsh en vn, v = VUnit vsh /\ t = (vcomments vsh, en ++ vn, renamed (vid vsh)) /\
                                        (go_uppercase_acronyms cfg = [] -> en = original (eid sh) /\ vn = original (vid vsh)))) in Hv.
    2:{ intros v s0 t s0' Hx. exact (c02_go_unit_variant _ _ _ _ _ Hx). }
    match goal with |- context [?pre ++ [?x]] => set (d := x) end.
    assert (Hw : map vd_wire (d_variants d) = map (fun v => renamed (vid (variant_shared v))) (evariants sh)).
    { subst d. cbn [d_variants]. rewrite map_map. eapply Forall2_map_r; [exact Hv|].
      intros v t (vsh & en' & vn & -> & -> & _). reflexivity. }
    assert (Hk : map (fun v => c02_payload_kind (vd_payload v)) (d_variants d) = map c02_rvariant_kind (evariants sh)).
    { subst d. cbn [d_variants]. rewrite map_map. eapply Forall2_map_r; [exact Hv|].
      intros v t (vsh & en' & vn & -> & -> & _). reflexivity. }
    split.
    + apply c02_good_core_intro; [now apply c02_plain_not_enum|reflexivity|].
      apply c02_good_enum_intro; [exact Hw|exact Hk|reflexivity].
    + intros Hacr. rewrite c02_good_cases_app, (c02_plain_cases _ Hplain). apply c02_good_cases_one.
      assert (Hn : map vd_name (d_variants d) = map (fun a => original (eid sh) ++ a) (map (fun v => original (vid (variant_shared v))) (evariants sh))).
      { subst d. cbn [d_variants]. rewrite !map_map. eapply Forall2_map_r; [exact Hv|].
        intros v t (vsh & en' & vn & -> & -> & Hid). destruct (Hid Hacr) as [-> ->]. reflexivity. }
      rewrite Hn. apply c02_distinct_prefix. exact Hdi.
  - (* tagged struct *)
    apply mbind_ok in H as (sn & s2 & _ & H). apply mbind_ok in H as (cf & s3 & _ & H).
    apply mbind_ok in H as (tf & s4 & _ & H). apply mbind_ok in H as (short & s5 & _ & H).
    apply mbind_ok in H as (tacr & s6 & _ & H). apply mbind_ok in H as (vs & s7 & Hv & H).
    unfold ret in H. injection H as <- _. rewrite flat_map_app. cbn [flat_map go_obs]. rewrite app_nil_r.
    apply (mmapM_Forall2 _ (fun v gv => vd_wire (go_obs_variant gv) = renamed (vid (variant_shared v)) /\
                                        c02_payload_kind (vd_payload (go_obs_variant gv)) = c02_rvariant_kind v /\
                                        (go_uppercase_acronyms cfg = [] ->
                                         vd_name (go_obs_variant gv) = (sn ++ to_pascal_case tag ++ lit "Variant") ++ original (vid (variant_shared v))))) in Hv.
    2:{ intros v s0 gv s0' Hx. exact (c02_go_variant _ _ _ _ _ _ _ _ Hx). }
    match goal with |- context [?pre ++ [?h; ?x]] => set (hd := h); set (d := x) end.
    change (flat_map go_obs anon ++ [hd; d]) with (flat_map go_obs anon ++ [hd] ++ [d]). rewrite app_assoc.
    assert (Hplain' : forallb c02_plain (flat_map go_obs anon ++ [hd]) = true).
    { rewrite forallb_app, Hplain. reflexivity. }
    assert (Hw : map vd_wire (d_variants d) = map (fun v => renamed (vid (variant_shared v))) (evariants sh)).
    { subst d. cbn [d_variants gt_variants]. rewrite map_map. eapply Forall2_map_r; [exact Hv|]. intros v gv (E & _). exact E. }
    assert (Hk : map (fun v => c02_payload_kind (vd_payload v)) (d_variants d) = map c02_rvariant_kind (evariants sh)).
    { subst d. cbn [d_variants gt_variants]. rewrite map_map. eapply Forall2_map_r; [exact Hv|]. intros v gv (_ & E & _). exact E. }
    split.
    + apply c02_good_core_intro; [now apply c02_plain_not_enum|reflexivity|].
      apply c02_good_enum_intro; [exact Hw|exact Hk|].
      unfold c02_good_keys. cbn [c02_expect_ir c02_keys]. subst d.
      cbn [d_tag_keys d_content_keys gt_tag_key gt_content_key forallb c02_tag_carried c02_content_carried c02_is_nil negb orb andb].
      now rewrite !str_eqb_refl.
    + intros Hacr. rewrite c02_good_cases_app, (c02_plain_cases _ Hplain'). apply c02_good_cases_one.
      assert (Hn : map vd_name (d_variants d) =
                   map (fun a => (sn ++ to_pascal_case tag ++ lit "Variant") ++ a) (map (fun v => original (vid (variant_shared v))) (evariants sh))).
      { subst d. cbn [d_variants gt_variants]. rewrite !map_map. eapply Forall2_map_r; [exact Hv|].
        intros v gv (_ & _ & E). exact (E Hacr). }
      rewrite Hn. apply c02_distinct_prefix. exact Hdi.
Qed.

(* Go, no uppercase_acronyms configured: no finding class inside the domain.
   PARTIAL with respect to configurations: for a non-empty acronym list the pairwise difference of the
   constants' names is not proved (class C02-go-acronym-case-collision over-approximates the failures);
   wire names, payload kinds and keys are covered for every configuration by C02_go_core. *)
Theorem C02_back_go_partial custom e s ds s' : go_decl_of uc cfg custom (ItEnum e) s = Ok (ds, s') ->
  dom_C02_back (c02_expect_ir e) = true ->
  go_uppercase_acronyms cfg = [] ->
  good_C02 Go (c02_expect_ir e) (flat_map go_obs ds) = true.
Proof.
  intros H Hd Ha. destruct (C02_go_core custom e s ds s' H Hd) as [Hc Hn]. unfold good_C02. now rewrite Hc, (Hn Ha).
Qed.
End GO.

(* ======================================================================== Go, ANY (ASCII) acronym list *)
(* Proofs/GoAcronyms.v: on ASCII input the rewriting of go.rs:579 only changes the case of letters, so two
   identifiers that get one constant name are equal up to ASCII case - the class C02-go-acronym-case-collision.
   (The class stays an over-approximation: UserId / UserID collide under ["ID"], not under ["URL"].) *)
Section GOACR.
Variable uc : unicode.
Variable cfg : go_config.
Hypothesis Huc : unicode_ok uc.
Hypothesis Hacr : Forall ga_ascii (go_uppercase_acronyms cfg).

Local Notation CONV := (go_convert_acronyms_to_uppercase uc (go_uppercase_acronyms cfg)).

Lemma c02_go_acr_conv name s r s' : go_acronyms_to_uppercase uc cfg name s = Ok (r, s') -> CONV name = Ok r.
Proof. unfold go_acronyms_to_uppercase, go_lift. destruct (CONV name); try discriminate. now intros [= -> _]. Qed.

Lemma c02_conv_variant_ascii a : conv_variant a = true -> ga_ascii a.
Proof.
  destruct a as [|c r]; [discriminate|]. cbn [conv_variant]. intros H. apply andb_true_iff in H as [Hc Hr].
  constructor; [unfold is_aupper in Hc; lia|]. apply Forall_forall. intros x Hx.
  rewrite forallb_forall in Hr. apply camel_char_ascii. now apply Hr.
Qed.

Lemma c02_go_unit_variant_acr sh v s t s' : go_unit_variant_of uc cfg sh v s = Ok (t, s') ->
  exists vsh en vn, v = VUnit vsh /\ t = (vcomments vsh, en ++ vn, renamed (vid vsh)) /\
    CONV (original (eid sh)) = Ok en /\ CONV (original (vid vsh)) = Ok vn.
Proof.
  destruct v as [vsh| |]; cbn [go_unit_variant_of]; try discriminate. intros H.
  apply mbind_ok in H as (en & s1 & He & H). apply mbind_ok in H as (vn & s2 & Hv & H).
  unfold ret in H. injection H as <- _. exists vsh, en, vn. repeat split; eapply c02_go_acr_conv; eassumption.
Qed.

Lemma c02_go_variant_acr sh custom sn tag v s gv s' : go_variant_of uc cfg sh custom sn tag v s = Ok (gv, s') ->
  exists tp vn, vd_name (go_obs_variant gv) = (sn ++ tp ++ lit "Variant") ++ vn /\
    CONV (to_pascal_case tag) = Ok tp /\ CONV (original (vid (variant_shared v))) = Ok vn.
Proof.
  unfold go_variant_of. intros H.
  apply mbind_ok in H as (vname & s1 & Hn & H). apply mbind_ok in H as (vt & s2 & _ & H).
  apply mbind_ok in H as (tp & s3 & Htp & H). apply mbind_ok in H as (content & s4 & _ & H).
  unfold ret in H. injection H as <- _. cbn [go_obs_variant vd_name gv_const].
  exists tp, vname. split; [now rewrite <- !app_assoc|]. split; eapply c02_go_acr_conv; eassumption.
Qed.

(* names built as  <one prefix> ++ convert(identifier)  are pairwise different when no two identifiers are
   equal up to ASCII case *)
Lemma c02_go_distinct_acr (R : str -> str -> Prop) idents names :
  Forall2 R idents names ->
  (forall a na, R a na -> exists pre vn, na = pre ++ vn /\ CONV a = Ok vn /\
                                        forall b nb, R b nb -> exists vn', nb = pre ++ vn' /\ CONV b = Ok vn') ->
  forallb conv_variant idents = true ->
  c02_has_pair c02_upper_eq idents = false -> c02_distinct names = true.
Proof.
  intros HF HR Hconv Hp. apply (c02_distinct_rel c02_upper_eq R idents names HF); [|exact Hp].
  intros a b na nb Ha Hb Ra Rb E. destruct (HR a na Ra) as (pre & vn & -> & Ca & Hall).
  destruct (Hall b nb Rb) as (vn' & -> & Cb). apply app_inv_head in E. subst vn'.
  rewrite forallb_forall in Hconv. unfold c02_upper_eq.
  rewrite (ga_convert_collide uc Huc _ Hacr a b vn (c02_conv_variant_ascii a (Hconv a Ha)) (c02_conv_variant_ascii b (Hconv b Hb)) Ca Cb).
  apply str_eqb_refl.
Qed.

Theorem C02_go_cases custom e s ds s' : go_decl_of uc cfg custom (ItEnum e) s = Ok (ds, s') ->
  dom_C02_back (c02_expect_ir e) = true ->
  c02_has_pair c02_upper_eq (c02_idents (c02_expect_ir e)) = false ->
  c02_good_cases (flat_map go_obs ds) = true.
Proof.
  cbn [go_decl_of]. unfold go_enum_decls_of. intros H Hdom Hpair.
  apply mbind_ok in H as (anon & s1 & Ha & H).
  pose proof (c02_go_anon_plain _ _ _ _ _ _ Ha) as Hplain.
  pose proof (c02_dom_back_parts _ Hdom) as (Hconv & _).
  destruct e as [sh|tag content sh]; cbn [enum_shared c02_expect_ir c02_idents] in *.
  - apply mbind_ok in H as (en & s2 & Hen & H). apply mbind_ok in H as (vs & s3 & Hv & H).
    unfold ret in H. injection H as <- _. rewrite flat_map_app. cbn [flat_map go_obs]. rewrite app_nil_r.
    apply (mmapM_Forall2 _ (fun v t => exists vsh en vn, v = VUnit vsh /\ t = (vcomments vsh, en ++ vn, renamed (vid vsh)) /\
                                        CONV (original (eid sh)) = Ok en /\ CONV (original (vid vsh)) = Ok vn)) in Hv.
    2:{ intros v s0 t s0' Hx. exact (c02_go_unit_variant_acr _ _ _ _ _ Hx). }
    rewrite c02_good_cases_app, (c02_plain_cases _ Hplain). apply c02_good_cases_one. cbn [d_variants]. rewrite map_map.
    set (R := fun a na => exists en vn, na = en ++ vn /\ CONV (original (eid sh)) = Ok en /\ CONV a = Ok vn).
    apply (c02_go_distinct_acr R (map (fun v => original (vid (variant_shared v))) (evariants sh))); [| |exact Hconv|exact Hpair].
    + eapply c02_Forall2_maps; [exact Hv|]. intros v t (vsh & en' & vn & -> & -> & Ce & Cv). exists en', vn. auto.
    + intros a na (en' & vn & -> & Ce & Cv). exists en', vn. repeat split; [exact Cv|].
      intros b nb (en2 & vn2 & -> & Ce2 & Cv2). rewrite Ce in Ce2. injection Ce2 as <-. exists vn2. auto.
  - apply mbind_ok in H as (sn & s2 & _ & H). apply mbind_ok in H as (cf & s3 & _ & H).
    apply mbind_ok in H as (tf & s4 & _ & H). apply mbind_ok in H as (short & s5 & _ & H).
    apply mbind_ok in H as (tacr & s6 & _ & H). apply mbind_ok in H as (vs & s7 & Hv & H).
    unfold ret in H. injection H as <- _. rewrite flat_map_app. cbn [flat_map go_obs]. rewrite app_nil_r.
    apply (mmapM_Forall2 _ (fun v gv => exists tp vn, vd_name (go_obs_variant gv) = (sn ++ tp ++ lit "Variant") ++ vn /\
                                          CONV (to_pascal_case tag) = Ok tp /\ CONV (original (vid (variant_shared v))) = Ok vn)) in Hv.
    2:{ intros v s0 gv s0' Hx. exact (c02_go_variant_acr _ _ _ _ _ _ _ _ Hx). }
    match goal with |- context [?pre ++ [?h; ?x]] => set (hd := h); set (d := x) end.
    change (flat_map go_obs anon ++ [hd; d]) with (flat_map go_obs anon ++ [hd] ++ [d]). rewrite app_assoc.
    assert (Hplain' : forallb c02_plain (flat_map go_obs anon ++ [hd]) = true).
    { rewrite forallb_app, Hplain. reflexivity. }
    rewrite c02_good_cases_app, (c02_plain_cases _ Hplain'). apply c02_good_cases_one. subst d. cbn [d_variants gt_variants]. rewrite map_map.
    set (R := fun a na => exists tp vn, na = (sn ++ tp ++ lit "Variant") ++ vn /\ CONV (to_pascal_case tag) = Ok tp /\ CONV a = Ok vn).
    apply (c02_go_distinct_acr R (map (fun v => original (vid (variant_shared v))) (evariants sh))); [| |exact Hconv|exact Hpair].
    + eapply c02_Forall2_maps; [exact Hv|]. intros v gv (tp & vn & E & Ct & Cv). exists tp, vn. auto.
    + intros a na (tp & vn & -> & Ct & Cv). exists (sn ++ tp ++ lit "Variant"), vn. repeat split; [exact Cv|].
      intros b nb (tp2 & vn2 & -> & Ct2 & Cv2). rewrite Ct in Ct2. injection Ct2 as <-. exists vn2. auto.
Qed.

(* Go, EVERY configuration with ASCII uppercase_acronyms: outside the class (no acronyms configured, or no two
   variant identifiers equal up to ASCII case) the enum is good *)
Theorem C02_back_go custom e s ds s' : go_decl_of uc cfg custom (ItEnum e) s = Ok (ds, s') ->
  dom_C02_back (c02_expect_ir e) = true ->
  known_C02_back Go (match go_uppercase_acronyms cfg with [] => false | _ => true end) (c02_expect_ir e) = None ->
  good_C02 Go (c02_expect_ir e) (flat_map go_obs ds) = true.
Proof.
  intros H Hd Hk. destruct (C02_go_core uc cfg custom e s ds s' H Hd) as [Hc Hn]. unfold good_C02. rewrite Hc. cbn [andb].
  destruct (c02_has_pair c02_upper_eq (c02_idents (c02_expect_ir e))) eqn:Ep.
  - apply Hn. clear Hacr. destruct (go_uppercase_acronyms cfg); [reflexivity|].
    cbn [known_C02_back andb] in Hk. rewrite Ep in Hk. discriminate.
  - exact (C02_go_cases custom e s ds s' H Hd Ep).
Qed.
End GOACR.

(* the hypotheses are satisfiable with a real rewrite: acronym ID, variants UserId / UrlId *)
Example C02_back_go_nonvacuous :
  let cfg := {| go_package := lit "p"; go_type_mappings := []; go_uppercase_acronyms := [lit "ID"]; go_no_version_header := true;
                go_no_pointer_slice := false; go_version := [] |} in
  let mkv n := VUnit {| vid := {| original := lit n; renamed := lit n; via_serde_rename := false |}; vcomments := [] |} in
  let e := EUnit {| eid := {| original := lit "E"; renamed := lit "E"; via_serde_rename := false |}; egenerics := []; ecomments := [];
                    evariants := [mkv "UserId"%string; mkv "UrlId"%string]; edecs := []; erecursive := false; eredacted := false |} in
  Forall ga_ascii (go_uppercase_acronyms cfg) /\ dom_C02_back (c02_expect_ir e) = true /\
  known_C02_back Go true (c02_expect_ir e) = None /\
  exists ds st, go_decl_of uc_exec cfg [] (ItEnum e) [] = Ok (ds, st) /\
    map vd_name (flat_map d_variants (flat_map go_obs ds)) = [lit "EUserID"; lit "EUrlID"].
Proof.
  cbv zeta. split; [repeat constructor|]. split; [vm_compute; reflexivity|]. split; [vm_compute; reflexivity|].
  eexists _, _. split; vm_compute; reflexivity.
Qed.

Theorem C02_back_go_b : forall uc, unicode_ok uc ->
  forall cfg, forallb (forallb is_ascii) (go_uppercase_acronyms cfg) = true ->
  forall custom e s ds s',
  go_decl_of uc cfg custom (ItEnum e) s = Ok (ds, s') ->
  dom_C02_back (c02_expect_ir e) = true ->
  known_C02_back Go (match go_uppercase_acronyms cfg with [] => false | _ => true end) (c02_expect_ir e) = None ->
  good_C02 Go (c02_expect_ir e) (flat_map go_obs ds) = true.
Proof. intros uc Huc cfg Ha custom e s ds s'. apply C02_back_go; [exact Huc|now apply ga_ascii_list_b]. Qed.

(* ======================================================================== the EXACT Go class *)
(* the Spec's c02_go_rewrite is, definition by definition, the closed form of Proofs/GoAcronyms.v *)
Lemma c02_go_rewrite_is_result acrs s : c02_go_rewrite acrs s = ga_result (map to_pascal_case acrs) s.
Proof. reflexivity. Qed.

Lemma c02_str_eqb_app_head pre x y : str_eqb (pre ++ x) (pre ++ y) = str_eqb x y.
Proof. induction pre as [|c r IH]; cbn [app str_eqb]; [reflexivity|]. now rewrite N.eqb_refl. Qed.

Lemma c02_has_pair_names (f : str -> str) pre l :
  c02_has_pair str_eqb (map (fun a => pre ++ f a) l) = c02_has_pair (fun a b => str_eqb (f a) (f b)) l.
Proof.
  induction l as [|a r IH]; cbn [map c02_has_pair]; [reflexivity|]. rewrite IH. f_equal.
  clear IH. induction r as [|b r IH]; cbn [map existsb]; [reflexivity|]. now rewrite IH, c02_str_eqb_app_head.
Qed.

Lemma c02_has_pair_mono (R Q : str -> str -> bool) l :
  (forall a b, R a b = true -> Q a b = true) -> c02_has_pair R l = true -> c02_has_pair Q l = true.
Proof.
  intros H. induction l as [|a r IH]; cbn [c02_has_pair]; [discriminate|]. intros Hp.
  apply orb_true_iff in Hp as [Hp|Hp]; apply orb_true_iff; [left|right; now apply IH].
  apply existsb_exists in Hp as (b & Hb & Hab). apply existsb_exists. exists b. auto.
Qed.

Lemma c02_Forall2_and_l {A B} (R : A -> B -> Prop) (P : A -> Prop) l r :
  Forall2 R l r -> Forall P l -> Forall2 (fun x y => R x y /\ P x) l r.
Proof. induction 1; intros HP; [constructor|]. inversion HP; subst. constructor; auto. Qed.

(* the exact class lies inside the over-approximation of known_C02_back (no hypothesis: the rewrite keeps the
   upper-cased string by construction) *)
Theorem C02_go_exact_in_class : forall acrs x c, known_C02_back_go acrs x = Some c -> known_C02_back Go true x = Some c.
Proof.
  intros acrs x c. unfold known_C02_back_go. cbn [known_C02_back andb].
  destruct (c02_has_pair (c02_go_same_name acrs) (c02_idents x)) eqn:E; [|discriminate]. intros H.
  assert (M : forall a b, c02_go_same_name acrs a b = true -> c02_upper_eq a b = true).
  { intros a b Hab. unfold c02_go_same_name in Hab. apply str_eqb_eq in Hab. rewrite !c02_go_rewrite_is_result in Hab.
    unfold c02_upper_eq, ga_result in *.
    rewrite <- (ga_apply_upper (ga_cover (map to_pascal_case acrs) a) 0 a), <- (ga_apply_upper (ga_cover (map to_pascal_case acrs) b) 0 b).
    rewrite Hab. apply str_eqb_refl. }
  rewrite (c02_has_pair_mono (c02_go_same_name acrs) c02_upper_eq _ M E). exact H.
Qed.

Section GOEXACT.
Variable uc : unicode.
Variable cfg : go_config.
Hypothesis Huc : unicode_ok uc.
Hypothesis Hacr : Forall ga_ascii (go_uppercase_acronyms cfg).

Local Notation CONV := (go_convert_acronyms_to_uppercase uc (go_uppercase_acronyms cfg)).
Local Notation RW := (c02_go_rewrite (go_uppercase_acronyms cfg)).

Lemma c02_go_conv_rw a vn : conv_variant a = true -> CONV a = Ok vn -> vn = RW a.
Proof.
  intros Ha H. rewrite (ga_convert uc Huc _ a Hacr (c02_conv_variant_ascii a Ha)) in H. injection H as <-.
  symmetry. apply c02_go_rewrite_is_result.
Qed.

Lemma c02_go_cases_exact_core pre (d : decl) prefix idents :
  forallb c02_plain pre = true ->
  map vd_name (d_variants d) = map (fun a => prefix ++ RW a) idents ->
  c02_good_cases (pre ++ [d]) = negb (c02_has_pair (c02_go_same_name (go_uppercase_acronyms cfg)) idents).
Proof.
  intros Hp Hn. rewrite c02_good_cases_app, (c02_plain_cases _ Hp). unfold c02_good_cases. cbn [forallb andb].
  rewrite andb_true_r. unfold c02_distinct. rewrite Hn, c02_has_pair_names. reflexivity.
Qed.

(* the constants' names are pairwise different EXACTLY when no two identifiers are rewritten to one string *)
Theorem C02_go_cases_exact custom e s ds s' : go_decl_of uc cfg custom (ItEnum e) s = Ok (ds, s') ->
  dom_C02_back (c02_expect_ir e) = true ->
  c02_good_cases (flat_map go_obs ds) =
  negb (c02_has_pair (c02_go_same_name (go_uppercase_acronyms cfg)) (c02_idents (c02_expect_ir e))).
Proof.
  cbn [go_decl_of]. unfold go_enum_decls_of. intros H Hdom.
  apply mbind_ok in H as (anon & s1 & Ha & H).
  pose proof (c02_go_anon_plain _ _ _ _ _ _ Ha) as Hplain.
  pose proof (c02_dom_back_parts _ Hdom) as (Hconv & _).
  assert (Hcv : Forall (fun v => conv_variant (original (vid (variant_shared v))) = true) (evariants (enum_shared e))).
  { destruct e; cbn [enum_shared c02_expect_ir c02_idents] in *; rewrite forallb_forall in Hconv; apply Forall_forall;
      intros v Hv; apply Hconv; apply in_map_iff; eauto. }
  destruct e as [sh|tag content sh]; cbn [enum_shared c02_expect_ir c02_idents] in *.
  - apply mbind_ok in H as (en & s2 & Hen & H). apply mbind_ok in H as (vs & s3 & Hv & H).
    unfold ret in H. injection H as <- _. rewrite flat_map_app. cbn [flat_map go_obs]. rewrite app_nil_r.
    apply (c02_go_acr_conv uc cfg) in Hen.
    apply (mmapM_Forall2 _ (fun v t => exists vsh en vn, v = VUnit vsh /\ t = (vcomments vsh, en ++ vn, renamed (vid vsh)) /\
                                        CONV (original (eid sh)) = Ok en /\ CONV (original (vid vsh)) = Ok vn)) in Hv.
    2:{ intros v s0 t s0' Hx. exact (c02_go_unit_variant_acr uc cfg _ _ _ _ _ Hx). }
    apply (c02_go_cases_exact_core _ _ en); [exact Hplain|]. cbn [d_variants]. rewrite !map_map.
    eapply Forall2_map_r; [exact (c02_Forall2_and_l _ _ _ _ Hv Hcv)|].
    cbn beta. intros v t [(vsh & en' & vn & -> & -> & Ce & Cv) Hc]. cbn [variant_shared vd_name] in *.
    rewrite Hen in Ce. injection Ce as <-. now rewrite (c02_go_conv_rw _ _ Hc Cv).
  - apply mbind_ok in H as (sn & s2 & _ & H). apply mbind_ok in H as (cf & s3 & _ & H).
    apply mbind_ok in H as (tf & s4 & Htf & H). apply mbind_ok in H as (short & s5 & _ & H).
    apply mbind_ok in H as (tacr & s6 & _ & H). apply mbind_ok in H as (vs & s7 & Hv & H).
    unfold ret in H. injection H as <- _. rewrite flat_map_app. cbn [flat_map go_obs]. rewrite app_nil_r.
    unfold go_format_field_name in Htf. apply (c02_go_acr_conv uc cfg) in Htf.
    apply (mmapM_Forall2 _ (fun v gv => exists tp vn, vd_name (go_obs_variant gv) = (sn ++ tp ++ lit "Variant") ++ vn /\
                                          CONV (to_pascal_case tag) = Ok tp /\ CONV (original (vid (variant_shared v))) = Ok vn)) in Hv.
    2:{ intros v s0 gv s0' Hx. exact (c02_go_variant_acr uc cfg _ _ _ _ _ _ _ _ Hx). }
    match goal with |- context [?pre ++ [?h; ?x]] => set (hd := h); set (d := x) end.
    change (flat_map go_obs anon ++ [hd; d]) with (flat_map go_obs anon ++ [hd] ++ [d]). rewrite app_assoc.
    assert (Hplain' : forallb c02_plain (flat_map go_obs anon ++ [hd]) = true).
    { rewrite forallb_app, Hplain. reflexivity. }
    apply (c02_go_cases_exact_core _ _ (sn ++ tf ++ lit "Variant")); [exact Hplain'|]. subst d. cbn [d_variants gt_variants]. rewrite !map_map.
    eapply Forall2_map_r; [exact (c02_Forall2_and_l _ _ _ _ Hv Hcv)|].
    cbn beta. intros v gv [(tp & vn & -> & Ct & Cv) Hc]. rewrite Htf in Ct. injection Ct as <-. now rewrite (c02_go_conv_rw _ _ Hc Cv).
Qed.

(* Go, every ASCII acronym list, EXACT: the enum is good if and only if it is outside the exact class *)
Theorem C02_back_go_exact custom e s ds s' : go_decl_of uc cfg custom (ItEnum e) s = Ok (ds, s') ->
  dom_C02_back (c02_expect_ir e) = true ->
  (good_C02 Go (c02_expect_ir e) (flat_map go_obs ds) = true <-> known_C02_back_go (go_uppercase_acronyms cfg) (c02_expect_ir e) = None).
Proof.
  intros H Hd. destruct (C02_go_core uc cfg custom e s ds s' H Hd) as [Hc _]. unfold good_C02, known_C02_back_go.
  rewrite Hc, (C02_go_cases_exact custom e s ds s' H Hd). cbn [andb].
  unfold c02_cls. destruct (c02_has_pair _ _); cbn [negb]; split; intros; congruence.
Qed.
End GOEXACT.

Theorem C02_back_go_exact_b : forall uc, unicode_ok uc ->
  forall cfg, forallb (forallb is_ascii) (go_uppercase_acronyms cfg) = true ->
  forall custom e s ds s',
  go_decl_of uc cfg custom (ItEnum e) s = Ok (ds, s') ->
  dom_C02_back (c02_expect_ir e) = true ->
  (good_C02 Go (c02_expect_ir e) (flat_map go_obs ds) = true <-> known_C02_back_go (go_uppercase_acronyms cfg) (c02_expect_ir e) = None).
Proof. intros uc Huc cfg Ha custom e s ds s'. apply C02_back_go_exact; [exact Huc|now apply ga_ascii_list_b]. Qed.

(* the spec's rewriting IS the model's on ASCII input *)
Theorem C02_go_rewrite_is_model : forall uc, unicode_ok uc -> forall acrs name,
  forallb (forallb is_ascii) acrs = true -> forallb is_ascii name = true ->
  go_convert_acronyms_to_uppercase uc acrs name = Ok (c02_go_rewrite acrs name).
Proof.
  intros uc Huc acrs name Ha Hn. rewrite c02_go_rewrite_is_result.
  apply (ga_convert uc Huc); [now apply ga_ascii_list_b|now apply ga_ascii_b].
Qed.

(* the two collision examples: under ["ID"] UserId / UserID collide, under ["URL"] they do not *)
Example C02_go_exact_examples :
  c02_go_same_name [lit "ID"] (lit "UserId") (lit "UserID") = true /\
  c02_go_same_name [lit "URL"] (lit "UserId") (lit "UserID") = false /\
  c02_go_rewrite [lit "id"; lit "url"] (lit "UrlIdentityId") = lit "URLIdentityID".
Proof. vm_compute. repeat split; reflexivity. Qed.
