(* C09 in folder mode, Kotlin: the declarations kt_decl_of returns for the items of ANY program pd' have the shape of
   Proofs/C09MultiLang.v (definitions prefix + (renamed | original for a typealias); references prefix + the mentioned
   id unless it is a generic parameter of the item; the sealed parent and the ...Inner helper spelled from the enum's
   ORIGINAL id); hence the file kt_generate_multi writes for a crate of a folder-mode run satisfies good_C09_multi. *)
From Coq Require Import List Bool String Permutation.
From TS Require Import Model.Str Model.Outcome Model.Unicode Model.Types Model.Parse Model.Reconcile Model.Collect Model.TopsortAlgo Model.Topsort
                       Model.Lang.Common Model.Lang.Decl Model.Lang.Kotlin Model.MultiFile.
From TS Require Import Spec.C09Spec Spec.C09MultiSpec Spec.C09MultiLangSpec.
From TS Require Import Proofs.C14Front Proofs.C09Common Proofs.C09Recon Proofs.C09Refs Proofs.C09Lang Proofs.C09_Kotlin Proofs.C09_KotlinItems
                       Proofs.C09Multi Proofs.C09MultiLang Proofs.C12MultiStateless.
Import ListNotations.

Section KTL.
Variable uc : unicode.
Variable cfg : kt_config.
Let pfx := kt_prefix cfg.
Variable pd' : parsed.

Notation shape := (c9l_ref_shape Kotlin pfx pd').
Notation decl_ok := (c9l_decl_ok Kotlin pfx pd').

Lemma ktl_defines e : c09_defines Kotlin e = true.
Proof. unfold c09_defines. now destruct (c9e_kind e). Qed.

Lemma ktl_texp_refs tp' gs owner x :
  In tp' (c09_tposs pd') -> kt_texp cfg gs (c9t_type tp') = Ok x ->
  (forall form i', In (form, i') (c09_type_ids (c9t_type tp')) -> mem_str i' gs = mem_str i' (c9t_generics tp')) ->
  forall x', texp_names x' = texp_names x ->
  forall r, In r (c09_type_refs Kotlin owner (c9t_pos tp') x') -> shape r.
Proof.
  intros Htp Hx Hgs x' Hn'. eapply (c9l_names_refs Kotlin pfx pd' tp' gs owner x'); try assumption.
  intros n Hn. rewrite Hn' in Hn. exact (kt_texp_names cfg gs _ x Hx n Hn).
Qed.

Lemma ktl_member_refs f gs tp' owner rsn vis m :
  kt_member_of cfg f gs rsn vis = Ok m -> In tp' (c09_tposs pd') -> c9t_pos tp' = C9Field -> fty f = c9t_type tp' ->
  (forall form i', In (form, i') (c09_type_ids (fty f)) -> mem_str i' gs = mem_str i' (c9t_generics tp')) ->
  forall r, In r (c09_type_refs Kotlin owner C9Field (mb_type (kt_obs_member m))) -> shape r.
Proof.
  unfold kt_member_of. intros Hm Htp Hpos Hty Hgs r Hr.
  destruct (type_override f Kotlin) as [o|]; cbn [bind] in Hm.
  - injection Hm as <-. unfold c09_type_refs in Hr. rewrite kt_names_strip in Hr. cbn in Hr. destruct Hr.
  - destruct (kt_texp cfg gs (fty f)) as [ty| |] eqn:E; cbn [bind] in Hm; try discriminate. injection Hm as <-.
    rewrite <- Hpos in Hr. rewrite Hty in E, Hgs. eapply (ktl_texp_refs tp' gs owner ty); try eassumption. apply kt_names_strip.
Qed.

Lemma ktl_struct_shape s d :
  kt_struct_decl cfg s = Ok d ->
  (forall f, In f (sfields s) -> exists tp', In tp' (c09_tposs pd') /\ c9t_pos tp' = C9Field /\ fty f = c9t_type tp' /\
      (forall form i', In (form, i') (c09_type_ids (fty f)) -> mem_str i' (sgenerics s) = mem_str i' (c9t_generics tp'))) ->
  d_name (kt_obs d) = pfx ++ renamed (sid s) /\ c09_is_def (kt_obs d) = true /\ forall r, In r (c09_decl_refs Kotlin (kt_obs d)) -> shape r.
Proof.
  unfold kt_struct_decl. intros Hd Hf. destruct (sfields s) as [|f0 fs] eqn:Efs.
  - injection Hd as <-. cbn. repeat split. intros r [].
  - rewrite <- Efs in *.
    match type of Hd with context [mapM ?f ?l] => destruct (mapM f l) as [ms| |] eqn:E end; cbn [bind] in Hd; try discriminate.
    injection Hd as <-. cbn [kt_obs d_name]. repeat split.
    intros r Hr. unfold c09_decl_refs in Hr. cbn [kt_obs d_kind d_name d_members d_variants flat_map] in Hr. rewrite app_nil_r in Hr.
    apply in_flat_map in Hr as (m' & Hm' & Hr). apply in_map_iff in Hm' as (m & <- & Hm).
    apply c09_mapM_Forall2 in E. destruct (c09_Forall2_in_r _ _ _ _ E Hm) as (f & Hf' & Em).
    destruct (Hf f Hf') as (tp' & Htp & Hpos & Hty & Hgs).
    eapply ktl_member_refs; eassumption.
Qed.

(* ---- a struct ---- *)
Lemma ktl_item_struct s d : In s (p_structs pd') -> kt_struct_decl cfg s = Ok d -> decl_ok (kt_obs d).
Proof.
  intros Hs Hd.
  destruct (ktl_struct_shape s d Hd) as (A & B & C).
  { intros f Hf. eexists. split; [exact (c09_tp_struct pd' s f Hs Hf)|]. cbn [c9t_pos c9t_generics c9t_type]. repeat split. }
  split; [|exact C]. intros _. exists (c09_ent_struct s). split; [exact (c09_in_struct pd' s Hs)|]. split; [apply ktl_defines|].
  rewrite A. unfold c09_def_name. cbn. now rewrite app_nil_r.
Qed.

(* ---- the helper struct of a struct variant ---- *)
Lemma ktl_item_inner e fs vsh d : In e (p_enums pd') -> In (VAnon fs vsh) (evariants (enum_shared e)) ->
  kt_struct_decl cfg (anon_struct (enum_shared e) (renamed (eid (enum_shared e)) ++ original (vid vsh) ++ lit "Inner") (original (vid vsh)) fs) = Ok d ->
  decl_ok (kt_obs d).
Proof.
  intros He Hv Hd.
  destruct (ktl_struct_shape _ d Hd) as (A & B & C).
  { intros f Hf. cbn [anon_struct sfields] in Hf.
    exists {| c9t_owner := eid (enum_shared e); c9t_generics := egenerics (enum_shared e); c9t_pos := C9Field; c9t_type := fty f |}.
    split; [exact (c09_tp_anon pd' e fs vsh f He Hv Hf)|]. cbn [c9t_pos c9t_generics c9t_type]. repeat split.
    intros form i' Hi. cbn [anon_struct sgenerics]. eapply c09_anon_generics_mem; [exact Hf|exact Hi]. }
  split; [|exact C]. intros _. exists (c09_ent_inner e vsh). split; [exact (c09_in_inner pd' e fs vsh He Hv)|]. split; [apply ktl_defines|].
  rewrite A. reflexivity.
Qed.

(* ---- an enum ---- *)
Lemma ktl_item_enum e ds : In e (p_enums pd') -> kt_enum_decls cfg e = Ok ds -> forall d, In d ds -> decl_ok (kt_obs d).
Proof.
  intros He Hds. unfold kt_enum_decls in Hds.
  destruct (kt_inner_decls cfg e) as [anon| |] eqn:Ea; cbn [bind] in Hds; try discriminate.
  match type of Hds with context [bind ?m _] => destruct m as [d0| |] eqn:Ed end; cbn [bind] in Hds; try discriminate.
  injection Hds as <-.
  unfold kt_inner_decls in Ea.
  match type of Ea with context [mapM ?f ?l] => destruct (mapM f l) as [dss| |] eqn:Em end; cbn [bind] in Ea; try discriminate.
  injection Ea as <-. apply c09_mapM_Forall2 in Em.
  assert (Hanon : forall d, In d (List.concat dss) -> decl_ok (kt_obs d)).
  { intros d Hd. apply in_concat in Hd as (l & Hl & Hd). destruct (c09_Forall2_in_r _ _ _ _ Em Hl) as (v & Hv & Ev).
    destruct v as [sh|t sh|fs sh].
    - injection Ev as <-. destruct Hd.
    - injection Ev as <-. destruct Hd.
    - match type of Ev with context [bind ?m _] => destruct m as [d1| |] eqn:E1 end; cbn [bind] in Ev; try discriminate.
      injection Ev as <-. destruct Hd as [<-|[]]. exact (ktl_item_inner e fs sh d1 He Hv E1). }
  assert (Hself : decl_ok (kt_obs d0)).
  { assert (Hname : c09_def_name Kotlin pfx (c09_ent_enum e) = pfx ++ renamed (eid (enum_shared e))) by (unfold c09_def_name; destruct e; cbn; rewrite app_nil_r; reflexivity).
    assert (Hj : In (c09_ent_enum e) (c09_entities pd')) by exact (c09_in_enum pd' e He).
    destruct e as [sh|tag content sh]; cbn [enum_shared] in *.
    - match type of Ed with context [mapM ?f ?l] => destruct (mapM f l) as [es| |] eqn:Ee end; cbn [bind] in Ed; try discriminate.
      injection Ed as <-. split.
      + intros _. exists (c09_ent_enum (EUnit sh)). split; [exact Hj|]. split; [apply ktl_defines|]. rewrite Hname. reflexivity.
      + intros r Hr. unfold c09_decl_refs in Hr. cbn [kt_obs d_kind d_name d_members d_variants flat_map app] in Hr.
        apply in_flat_map in Hr as (v & Hv & Hr). apply in_map_iff in Hv as (en & <- & _). cbn in Hr. destruct Hr.
    - match type of Ed with context [mapM ?f ?l] => destruct (mapM f l) as [vs| |] eqn:Ee end; cbn [bind] in Ed; try discriminate.
      injection Ed as <-. split.
      + intros _. exists (c09_ent_enum (EAlgebraic tag content sh)). split; [exact Hj|]. split; [apply ktl_defines|]. rewrite Hname. reflexivity.
      + intros r Hr. unfold c09_decl_refs in Hr. cbn [kt_obs d_kind d_name d_members d_variants flat_map app] in Hr.
        apply in_flat_map in Hr as (vd & Hvd & Hr). apply in_map_iff in Hvd as (kv & <- & Hkv).
        apply c09_mapM_Forall2 in Ee.
        destruct (c09_Forall2_in_r _ _ _ _ Ee Hkv) as (v & Hv & Ev).
        set (j := c09_ent_enum (EAlgebraic tag content sh)) in *.
        unfold kt_variant_of in Ev.
        match type of Ev with context [bind ?m _] => destruct m as [pl| |] eqn:Ep end; cbn [bind] in Ev; try discriminate.
        injection Ev as <-. cbn [kt_obs_variant vd_parent vd_payload kv_parent kv_payload] in Hr.
        apply in_app_iff in Hr as [Hr|Hr].
        * destruct Hr as [<-|[]].
          eapply C9L_parent with (e := j) (w := C9Orig); cbn [c9_in c9_pos c9_name]; try assumption; try reflexivity.
          -- rewrite Hname. reflexivity.
          -- cbn. rewrite app_nil_r. reflexivity.
        * destruct v as [vsh|t vsh|fs vsh].
          -- injection Ep as <-. destruct Hr.
          -- match type of Ep with context [bind ?m _] => destruct m as [ty| |] eqn:Et end; cbn [bind] in Ep; try discriminate.
             injection Ep as <-.
             set (tp := {| c9t_owner := eid sh; c9t_generics := egenerics sh; c9t_pos := C9Payload; c9t_type := t |}).
             eapply (ktl_texp_refs tp (egenerics sh) _ ty); [|exact Et| |reflexivity|exact Hr].
             ++ exact (c09_tp_tuple pd' (EAlgebraic tag content sh) t vsh He Hv).
             ++ reflexivity.
          -- injection Ep as <-. destruct Hr as [<-|Hr].
             ++ eapply C9L_inner with (e := c09_ent_inner (EAlgebraic tag content sh) vsh); cbn [c9_in c9_pos c9_name]; try reflexivity.
                exact (c09_in_inner pd' (EAlgebraic tag content sh) fs vsh He Hv).
             ++ apply in_map_iff in Hr as (g & <- & Hg).
                eapply C9L_arg with (e := c09_ent_inner (EAlgebraic tag content sh) vsh); cbn [c9_in c9_pos c9_name]; try reflexivity.
                ** exact (c09_in_inner pd' (EAlgebraic tag content sh) fs vsh He Hv).
                ** unfold anon_struct_generics in Hg. apply c09_unique_strs_in in Hg as [Hg _]. apply in_flat_map in Hg as (f0 & _ & Hg).
                   apply filter_In in Hg as [Hg _]. exact Hg. }
  intros d Hd. apply in_app_iff in Hd as [Hd|[<-|[]]]; [exact (Hanon d Hd)|exact Hself].
Qed.

(* ---- an alias ---- *)
Lemma ktl_item_alias a d : In a (p_aliases pd') -> kt_alias_decl cfg a = Ok d -> decl_ok (kt_obs d).
Proof.
  intros Ha Hd. unfold kt_alias_decl in Hd. rewrite kt_is_inline_spec in Hd.
  set (tp := {| c9t_owner := aid a; c9t_generics := agenerics a; c9t_pos := C9Alias; c9t_type := atype a |}).
  assert (Htp : In tp (c09_tposs pd')) by exact (c09_tp_alias pd' a Ha).
  assert (Hj : In (c09_ent_alias a) (c09_entities pd')) by exact (c09_in_alias pd' a Ha).
  destruct (c09_alias_inline a) eqn:Inl.
  - (* JvmInline value class: the member is formatted with an empty generics list *)
    unfold kt_member_of in Hd. cbn [type_override lookup_lang fdecs fty bind] in Hd.
    destruct (kt_texp cfg [] (atype a)) as [ty| |] eqn:Et; cbn [bind] in Hd; try discriminate.
    injection Hd as <-. split.
    + intros _. exists (c09_ent_alias a). split; [exact Hj|]. split; [apply ktl_defines|].
      unfold c09_def_name. cbn. rewrite Inl. cbn. now rewrite app_nil_r.
    + intros r Hr. unfold c09_decl_refs in Hr. cbn [kt_obs d_kind d_name d_type] in Hr.
      unfold c09_type_refs in Hr. rewrite kt_names_strip in Hr. cbn [km_type] in Hr.
      apply in_map_iff in Hr as (n & <- & Hn0). apply filter_In in Hn0 as [Hn0 Hb]. apply negb_true_iff in Hb.
      destruct (kt_texp_names cfg [] _ ty Et n Hn0) as [C|(form & i' & Hi & ->)]; [congruence|].
      unfold kt_ref_name. cbn [mem_str existsb].
      eapply C9L_inline with (tp' := tp) (form := form) (i' := i') (e := c09_ent_alias a); cbn [c9_in c9_pos c9_name]; try assumption; try reflexivity.
      cbn. now rewrite Inl.
  - (* typealias, declared under the original name *)
    destruct (kt_texp cfg (agenerics a) (atype a)) as [ty| |] eqn:Et; cbn [bind] in Hd; try discriminate.
    injection Hd as <-. split.
    + intros _. exists (c09_ent_alias a). split; [exact Hj|]. split; [apply ktl_defines|].
      unfold c09_def_name. cbn. rewrite Inl. cbn. now rewrite app_nil_r.
    + intros r Hr. unfold c09_decl_refs in Hr. cbn [kt_obs d_kind d_name d_type] in Hr.
      eapply (ktl_texp_refs tp (agenerics a) _ ty); [exact Htp|exact Et| |reflexivity|exact Hr]. reflexivity.
Qed.

(* ---- one item ---- *)
Lemma ktl_item it dsi : In it (items_of pd') -> kt_decl_of cfg it = Ok dsi -> forall d, In d dsi -> decl_ok (kt_obs d).
Proof.
  intros Hit Hds d Hd. unfold items_of in Hit. rewrite !in_app_iff, !in_map_iff in Hit.
  destruct Hit as [(a & <- & Ha)|[(s & <- & Hs)|[(e & <- & He)|(c & <- & _)]]]; cbn [kt_decl_of] in Hds.
  - destruct (kt_alias_decl cfg a) as [d1| |] eqn:E; cbn [bind] in Hds; try discriminate. injection Hds as <-. destruct Hd as [<-|[]].
    exact (ktl_item_alias a d1 Ha E).
  - destruct (kt_struct_decl cfg s) as [d1| |] eqn:E; cbn [bind] in Hds; try discriminate. injection Hds as <-. destruct Hd as [<-|[]].
    exact (ktl_item_struct s d1 Hs E).
  - exact (ktl_item_enum e dsi He Hds d Hd).
  - discriminate.
Qed.

(* ---- the declarations of the whole file ---- *)
Theorem ktl_decls ds : kt_decls uc cfg pd' = Ok ds -> forall d, In d ds -> decl_ok (kt_obs d).
Proof.
  unfold kt_decls. intros H.
  destruct (topsort (items_of pd')) as [items| |] eqn:Et; cbn [bind] in H; try discriminate.
  destruct (mapM (kt_decl_of cfg) items) as [dss| |] eqn:Em; cbn [bind] in H; try discriminate.
  injection H as <-. pose proof (c09_topsort_in _ _ Et) as Hperm. apply c09_mapM_Forall2 in Em.
  intros d Hd. apply in_concat in Hd as (dsi & Hdsi & Hd). destruct (c09_Forall2_in_r _ _ _ _ Em Hdsi) as (it & Hit & E).
  apply Hperm in Hit. exact (ktl_item it dsi Hit E d Hd).
Qed.
End KTL.

(* the file of crate b in a folder-mode run *)
Theorem c9m_kt_file (uc : unicode) (cfg : kt_config) (ho : list imported -> list imported) (l : list (str * parsed)) :
  oracle_ok ho -> c9m_ids_wf l = true ->
  forall b pd', In (b, pd') (multi_crates ho l) ->
  forall c im text, kt_generate_multi uc cfg c im pd' = Ok text ->
  exists ds fd,
    kt_decls uc cfg pd' = Ok ds /\ kt_file_decls uc cfg pd' = Ok fd /\ fd_decls fd = map kt_obs ds /\
    text = kt_render_header (kt_header_multi cfg c) ++ kt_write_imports cfg im ++ List.concat (map kt_render_decl ds) /\
    Forall (fun d => (c09_is_def (kt_obs d) = true -> c9m_ldef_ok Kotlin l b (kt_prefix cfg) (d_name (kt_obs d))) /\
                     (forall r, In r (c09_decl_refs Kotlin (kt_obs d)) -> c9m_lref_ok Kotlin l b (kt_prefix cfg) r)) ds /\
    good_C09_multi Kotlin (kt_prefix cfg) l b (c09_observe Kotlin fd) = true.
Proof.
  intros Hho Hwf b pd' Hin c im text Hg. apply kt_multi_layout in Hg as (ds & Ed & Et).
  exists ds. unfold kt_file_decls. rewrite Ed. cbn [bind]. eexists. split; [reflexivity|]. split; [reflexivity|]. split; [reflexivity|]. split; [exact Et|].
  split.
  - apply Forall_forall. intros d Hd. apply (c9l_decl_judged Kotlin (kt_prefix cfg) ho l Hho Hwf b pd' Hin). exact (ktl_decls uc cfg pd' ds Ed d Hd).
  - apply (c9l_file_good Kotlin (kt_prefix cfg) ho l b pd' _ Hho Hwf Hin). cbn [fd_decls]. intros d Hd. apply in_map_iff in Hd as (d0 & <- & Hd0).
    exact (ktl_decls uc cfg pd' ds Ed d0 Hd0).
Qed.
