(* C12, Kotlin: the annotations the declarations carry (@Serializable, @SerialName, @JvmInline) against
   the fixed imports begin_file writes.  Outside the two classes (empty package: no header at all;
   a JvmInline value class) everything used is imported. *)
From Coq Require Import List Bool Permutation.
From TS Require Import Model.Str Model.Outcome Model.Unicode Model.Types Model.Parse Model.TopsortAlgo Model.Topsort
                       Model.Lang.Common Model.Lang.Decl Model.Lang.Kotlin Spec.C12Spec.
From TS Require Import Proofs.BackCommon Proofs.C12Common Proofs.C12Obs.
Import ListNotations.

Definition c12_kt_is_value (d : kt_decl) : bool := match d with KTValueClass _ _ _ _ => true | _ => false end.
Definition c12_kt_is_alias (d : kt_decl) : bool := match d with KTTypeAlias _ _ _ _ => true | _ => false end.
Definition c12_kt_is_structish (d : kt_decl) : bool :=
  match d with KTObject _ _ | KTDataClass _ _ _ _ _ => true | _ => false end.

Section KT.
Variable uc : unicode.
Variable cfg : kt_config.

Lemma c12_kt_struct_shape rs d : kt_struct_decl cfg rs = Ok d -> c12_kt_is_structish d = true.
Proof.
  unfold kt_struct_decl. destruct (sfields rs).
  - intros [= <-]. reflexivity.
  - intros H. apply c12_bind_ok in H as (ms & _ & H). injection H as <-. reflexivity.
Qed.

Lemma c12_kt_decl_shape it ds d :
  kt_decl_of cfg it = Ok ds -> In d ds ->
  (c12_kt_is_value d = true -> c12_kt_item_inline it = true) /\
  (c12_kt_item_annotated it = false -> c12_kt_is_alias d = true).
Proof.
  intros H Hd. destruct it as [rs|e|a|c]; cbn [kt_decl_of] in H.
  - apply c12_bind_ok in H as (d0 & E & H). injection H as <-. destruct Hd as [<-|[]].
    apply c12_kt_struct_shape in E. destruct d0; try discriminate E; split; intros; discriminate.
  - unfold kt_enum_decls in H. apply c12_bind_ok in H as (anon & Ea & H). apply c12_bind_ok in H as (d0 & E0 & H).
    injection H as <-. split; [|intros; discriminate].
    apply in_app_iff in Hd as [Hd|[<-|[]]].
    + unfold kt_inner_decls in Ea. apply c12_bind_ok in Ea as (dss & Edss & Ea). injection Ea as <-.
      apply in_concat in Hd as (l & Hl & Hd). destruct (c12_mapM_In _ _ _ Edss l Hl) as (v & _ & Ev).
      destruct v as [vsh|t vsh|fs vsh]; try (injection Ev as <-; destruct Hd).
      apply c12_bind_ok in Ev as (d1 & E1 & Ev). injection Ev as <-. destruct Hd as [<-|[]].
      apply c12_kt_struct_shape in E1. destruct d1; try discriminate E1; intros; discriminate.
    + destruct e as [sh|tag content sh].
      * apply c12_bind_ok in E0 as (es & _ & E0). injection E0 as <-. intros; discriminate.
      * apply c12_bind_ok in E0 as (vs & _ & E0). injection E0 as <-. intros; discriminate.
  - apply c12_bind_ok in H as (d0 & E & H). injection H as <-. destruct Hd as [<-|[]].
    unfold kt_alias_decl in E. cbn [c12_kt_item_inline c12_kt_item_annotated]. destruct (kt_is_inline (adecs a)).
    + apply c12_bind_ok in E as (m & _ & E). injection E as <-. split; [reflexivity|intros; discriminate].
    + apply c12_bind_ok in E as (ty & _ & E). injection E as <-. split; [intros; discriminate|reflexivity].
  - discriminate H.
Qed.

Lemma c12_kt_uses_shape d u :
  In u (c12_kt_decl_uses d) ->
  (u = lit "Serializable" \/ u = lit "SerialName") \/ (u = lit "JvmInline" /\ c12_kt_is_value d = true).
Proof.
  assert (M : forall m, In u (c12_kt_member_uses m) -> u = lit "SerialName").
  { intros m. unfold c12_kt_member_uses. destruct (km_serial_name m); [intros [<-|[]]; reflexivity|intros []]. }
  destruct d as [? ?|? ? ? ms ?|? ? ? ?|? ? m ?|? ? ? es|? ? ? ? vs]; cbn [c12_kt_decl_uses].
  - intros [<-|[]]. auto.
  - intros [<-|H]; [auto|]. apply in_flat_map in H as (m & _ & H). left. right. eauto.
  - intros [].
  - intros [<-|[<-|H]]; [auto|right; auto|left; right; eauto].
  - intros [<-|H]; [auto|]. apply in_map_iff in H as (e & <- & _). auto.
  - intros [<-|H]; [auto|]. apply in_flat_map in H as (v & _ & [<-|[<-|[]]]); auto.
Qed.

Lemma c12_existsb_perm {A} (p : A -> bool) a b : Permutation a b -> existsb p a = existsb p b.
Proof.
  intros P. destruct (existsb p a) eqn:Ea; symmetry.
  - apply existsb_exists in Ea as (x & Hx & Px). apply existsb_exists. exists x. split; [eapply Permutation_in; eauto|exact Px].
  - destruct (existsb p b) eqn:Eb; [|reflexivity]. apply existsb_exists in Eb as (x & Hx & Px).
    assert (existsb p a = true); [|congruence]. apply existsb_exists. exists x. split; [|exact Px].
    eapply Permutation_in; [apply Permutation_sym; exact P|exact Hx].
Qed.

Theorem c12_kt_file pd ds :
  kt_decls uc cfg pd = Ok ds -> c12_kt_known cfg pd = None ->
  c12_good (c12_kt_uses ds) (c12_kt_defs (kt_header_of cfg)) = true.
Proof.
  unfold kt_decls. intros H Hk. apply c12_bind_ok in H as (items & Et & H).
  apply c12_bind_ok in H as (dss & Edss & H). injection H as <-.
  apply c12_topsort_perm in Et.
  unfold c12_kt_known in Hk.
  rewrite <- (c12_existsb_perm c12_kt_item_annotated _ _ Et), <- (c12_existsb_perm c12_kt_item_inline _ _ Et) in Hk.
  apply c12_good_spec. intros u Hu. unfold c12_kt_uses in Hu. apply in_flat_map in Hu as (d & Hd & Hu).
  apply in_concat in Hd as (l & Hl & Hd). destruct (c12_mapM_In _ _ _ Edss l Hl) as (it & Hit & Eit).
  destruct (c12_kt_decl_shape _ _ _ Eit Hd) as [Hval Hann].
  destruct (existsb c12_kt_item_inline items) eqn:Einl.
  { destruct (_ && _); discriminate Hk. }
  assert (Hni : c12_kt_item_inline it = false).
  { destruct (c12_kt_item_inline it) eqn:E; [|reflexivity].
    assert (existsb c12_kt_item_inline items = true) by (apply existsb_exists; eauto). congruence. }
  destruct (c12_kt_uses_shape _ _ Hu) as [Hs|[_ Hv]]; [|rewrite (Hval Hv) in Hni; discriminate].
  unfold kt_header_of, c12_kt_defs. destruct (kt_package cfg) as [|c r] eqn:Ep.
  - exfalso. cbn [andb] in Hk. destruct (existsb c12_kt_item_annotated items) eqn:Ean; [discriminate Hk|].
    assert (Ha : c12_kt_item_annotated it = false).
    { destruct (c12_kt_item_annotated it) eqn:E; [|reflexivity].
      assert (existsb c12_kt_item_annotated items = true) by (apply existsb_exists; eauto). congruence. }
    specialize (Hann Ha). destruct d; try discriminate Hann. destruct Hu.
  - cbn [kh_imports map snd]. destruct Hs as [->| ->]; [left|right; left]; reflexivity.
Qed.
End KT.

Theorem c12_kotlin uc cfg pd uses defs :
  c12_kt_observe uc cfg pd = Ok (uses, defs) -> c12_kt_known cfg pd = None -> c12_good uses defs = true.
Proof.
  unfold c12_kt_observe. intros H Hk. apply c12_bind_ok in H as (ds & E & H). injection H as <- <-.
  eapply c12_kt_file; eauto.
Qed.
