(* C07, go.rs:594 sharpened: convert_acronyms_to_uppercase cannot panic on an ASCII name, WHATEVER the acronym
   list (an acronym whose PascalCase form is not ASCII matches nowhere in an ASCII name; for the others
   Proofs/GoAcronyms.v has the closed form), and its result is ASCII again.  Hence go_generate reaches go.rs:594
   only if some string it converts is not ASCII (Spec/C07BackSpec.v go_input_ascii = false) - and the acronym
   list is not empty (Proofs/C07Go.v).  Hypothesis on the Unicode tables: they agree with ASCII below 128
   (unicode_ok, the standing assumption of Model/Unicode.v). *)
From Coq Require Import String List Bool Arith Lia ZifyBool ZifyN Permutation.
From TS Require Import Model.Str Model.Outcome Model.Unicode Model.Types Model.Parse Model.Rename
                       Model.TopsortAlgo Model.Topsort Model.Lang.Common Model.Lang.Decl Model.Lang.Go.
From TS Require Import Spec.C07BackSpec.
From TS Require Import Proofs.GoAcronyms Proofs.C07 Proofs.C07Monad Proofs.C07Topsort Proofs.C07TypeScript Proofs.C07Go.
Import ListNotations.
Local Open Scope N_scope.
Local Notation length := List.length (only parsing).

(* ---------- ASCII strings ---------- *)
Lemma asc_b s : str_ascii s = true -> ga_ascii s.
Proof. apply ga_ascii_b. Qed.

Lemma asc_firstn n s : ga_ascii s -> ga_ascii (firstn n s).
Proof. intros H. rewrite <- (firstn_skipn n s) in H. apply ga_ascii_app in H. apply H. Qed.

Lemma asc_join sep l : ga_ascii sep -> Forall ga_ascii l -> ga_ascii (join sep l).
Proof.
  intros Hs H. induction H as [|x r Hx Hr IH]; [constructor|]. destruct r as [|y r']; [exact Hx|].
  change (join sep (x :: y :: r')) with (x ++ sep ++ join sep (y :: r')).
  apply ga_ascii_app. split; [exact Hx|]. apply ga_ascii_app. split; [exact Hs|exact IH].
Qed.

Lemma asc_dec n : ga_ascii (dec_of_N n).
Proof.
  unfold dec_of_N. generalize 60%nat as f. intros f.
  assert (G : forall n acc, ga_ascii acc -> ga_ascii (dec_fuel f n acc)).
  { induction f as [|f IH]; intros m acc H; cbn [dec_fuel]; [exact H|].
    assert (Hd : 48 + m mod 10 < 128) by (pose proof (N.mod_upper_bound m 10); lia).
    destruct (m / 10 =? 0); [constructor; assumption|apply IH; constructor; assumption]. }
  apply G. constructor.
Qed.

Ltac asc :=
  repeat (apply ga_ascii_app; split);
  try assumption; try (apply ga_ascii_b; reflexivity).

(* ---------- a pattern that is not ASCII matches nowhere in an ASCII string ---------- *)
Lemma no_match_fuel p fuel : ~ ga_ascii p -> forall s off, ga_ascii s -> go_match_indices_fuel fuel p s off = [].
Proof.
  intros Hp. induction fuel as [|f IH]; intros s off Hs; [reflexivity|]. cbn [go_match_indices_fuel].
  destruct s as [|c r]; [reflexivity|].
  destruct (starts_with p (c :: r)) eqn:E.
  - exfalso. apply Hp. apply ga_starts_with in E. rewrite <- E. now apply asc_firstn.
  - apply IH. apply Forall_cons_iff in Hs. apply Hs.
Qed.

Lemma no_match p s : ~ ga_ascii p -> ga_ascii s -> go_match_indices p s = [].
Proof.
  intros Hp Hs. unfold go_match_indices. destruct p as [|c p']; [exfalso; apply Hp; constructor|].
  now apply no_match_fuel.
Qed.

Section Conv.
Variable uc : unicode.
Hypothesis Huc : unicode_ok uc.

Lemma conv_outer_any acrs name : ga_ascii name -> forall cov,
  exists cov',
    fold_left (fun acc a => fold_left (ga_step_fn uc name (to_pascal_case a)) (go_match_indices (to_pascal_case a) name) acc)
              acrs (Ok (ga_apply cov 0 name)) = Ok (ga_apply cov' 0 name).
Proof.
  intros Hn. induction acrs as [|a r IH]; intros cov; cbn [fold_left]; [eauto|].
  destruct (forallb is_ascii (to_pascal_case a)) eqn:Ea.
  - apply ga_ascii_b in Ea.
    rewrite (ga_idx_model _ _ Ea Hn), (ga_inner uc Huc cov name _ _ Hn Ea (ga_idx_occ _ _)). apply IH.
  - rewrite no_match; [cbn [fold_left]; apply IH| |exact Hn].
    intros H. apply ga_ascii_b in H. congruence.
Qed.

(* on an ASCII name the conversion returns, and returns an ASCII string - for every acronym list *)
Theorem conv_ascii acrs name : ga_ascii name ->
  exists r, go_convert_acronyms_to_uppercase uc acrs name = Ok r /\ ga_ascii r.
Proof.
  intros Hn. rewrite ga_convert_unfold.
  destruct (conv_outer_any acrs name Hn (fun _ => false)) as (cov' & E).
  rewrite (ga_apply_false (fun _ => false) 0%nat name) in E by reflexivity.
  rewrite E. eexists. split; [reflexivity|]. now apply ga_apply_ascii.
Qed.
End Conv.

(* ---------- postconditions in M St ---------- *)
Definition mpq {St A} (Q : A -> Prop) (m : M St A) : Prop := forall s a s', m s = Ok (a, s') -> Q a.

Lemma mpq_ret {St A} (Q : A -> Prop) a : Q a -> mpq Q (@ret St A a).
Proof. intros H s a' s' [= <- _]. exact H. Qed.

Lemma mpq_bind {St A B} (Q1 : A -> Prop) (Q : B -> Prop) (m : M St A) (f : A -> M St B) :
  mpq Q1 m -> (forall a, Q1 a -> mpq Q (f a)) -> mpq Q (mbind m f).
Proof.
  intros Hm Hf s b s' H. unfold mbind in H. destruct (m s) as [[a s1]| |] eqn:E; try discriminate.
  eapply Hf; [eapply Hm; exact E|exact H].
Qed.

Lemma mpq_true {St A} (m : M St A) : mpq (fun _ => True) m.
Proof. intros s a s' _. exact I. Qed.

Lemma mpo_bind_q {St A B} P (Q : A -> Prop) (m : M St A) (f : A -> M St B) :
  mpo P m -> mpq Q m -> (forall a, Q a -> mpo P (f a)) -> mpo P (mbind m f).
Proof.
  intros Hm Hq Hf s. unfold mbind. specialize (Hm s). destruct (m s) as [[a s1]|e|p] eqn:E; cbn in *; auto.
  apply Hf. eapply Hq. exact E.
Qed.

Section GOA.
Variable uc : unicode.
Hypothesis Huc : unicode_ok uc.
Variable cfg : go_config.
Hypothesis Hcfg : forallb (fun kv => str_ascii (snd kv)) (go_type_mappings cfg) = true.
Variable P : string -> Prop.
Notation s301 := "go.rs:301"%string.

Lemma tmap_get_ascii k m : tmap_get (go_type_mappings cfg) k = Some m -> ga_ascii m.
Proof.
  revert Hcfg. generalize (go_type_mappings cfg). intros tm. induction tm as [|[a b] r IH]; cbn [tmap_get forallb snd]; [discriminate|].
  intros H. apply andb_true_iff in H as [Hb Hr]. destruct (str_eqb a k); [intros [= <-]; now apply asc_b|now apply IH].
Qed.

(* the conversion on an ASCII name: no panic, ASCII result *)
Lemma acr_a name : ga_ascii name ->
  mpo P (go_acronyms_to_uppercase uc cfg name) /\ mpq ga_ascii (go_acronyms_to_uppercase uc cfg name).
Proof.
  intros Hn. destruct (conv_ascii uc Huc (go_uppercase_acronyms cfg) name Hn) as (r & E & Hr).
  unfold go_acronyms_to_uppercase, go_lift. rewrite E. split.
  - intros s. exact I.
  - intros s a s' [= <- _]. exact Hr.
Qed.

Lemma ffn_a name : ga_ascii name -> mpo P (go_format_field_name uc cfg name true).
Proof. intros H. unfold go_format_field_name. apply acr_a. now apply ga_pascal_ascii. Qed.

Notation show_ascii := (fun x : go_ty => ga_ascii (go_show x)).

Lemma show_name_ascii id parts : ga_ascii id -> Forall show_ascii parts -> ga_ascii (go_show (GName id parts)).
Proof.
  intros Hi Hp. cbn [go_show]. destruct parts as [|p r]; [exact Hi|].
  asc. apply asc_join; [apply ga_ascii_b; reflexivity|]. apply Forall_map. exact Hp.
Qed.

Lemma go_texp_a g t : rtype_ascii t = true -> mpq show_ascii (go_texp cfg g t).
Proof.
  induction t as [id|id ps IH|x IH|x n IH|x IH|k v IHk IHv|x IH|p] using rtype_ind'; intros H;
    cbn [go_texp]; cbn [rtype_ascii] in H.
  - apply mpq_ret. destruct (tmap_get _ id) eqn:E; cbn [go_show]; [eapply tmap_get_ascii; exact E|now apply asc_b].
  - apply andb_true_iff in H as [Hid Hps].
    destruct (tmap_get _ id) eqn:E; [apply mpq_ret; cbn [go_show]; eapply tmap_get_ascii; exact E|].
    apply mpq_bind with (Q1 := Forall show_ascii).
    + clear E. revert Hps. induction IH as [|x r Hx _ IHr]; intros Hps; [apply mpq_ret; constructor|].
      cbn [forallb] in Hps. apply andb_true_iff in Hps as [Hxa Hra].
      apply mpq_bind with (Q1 := show_ascii); [now apply Hx|]. intros y Hy.
      apply mpq_bind with (Q1 := Forall show_ascii); [now apply IHr|]. intros ys Hys. apply mpq_ret. now constructor.
    + intros parts Hp. apply mpq_ret. apply show_name_ascii; [now apply asc_b|exact Hp].
  - destruct (tmap_get _ _) eqn:E; [apply mpq_ret; cbn [go_show]; eapply tmap_get_ascii; exact E|].
    apply mpq_bind with (Q1 := show_ascii); [now apply IH|]. intros e He. apply mpq_ret. cbn [go_show]. asc.
  - destruct (tmap_get _ _) eqn:E; [apply mpq_ret; cbn [go_show]; eapply tmap_get_ascii; exact E|].
    apply mpq_bind with (Q1 := show_ascii); [now apply IH|]. intros e He. apply mpq_ret. cbn [go_show]. asc. apply asc_dec.
  - destruct (tmap_get _ _) eqn:E; [apply mpq_ret; cbn [go_show]; eapply tmap_get_ascii; exact E|].
    apply mpq_bind with (Q1 := show_ascii); [now apply IH|]. intros e He. apply mpq_ret. cbn [go_show]. asc.
  - apply andb_true_iff in H as [Hk Hv].
    destruct (tmap_get _ _) eqn:E; [apply mpq_ret; cbn [go_show]; eapply tmap_get_ascii; exact E|].
    apply mpq_bind with (Q1 := show_ascii); [now apply IHk|]. intros ke Hke.
    apply mpq_bind with (Q1 := show_ascii); [now apply IHv|]. intros ve Hve. apply mpq_ret. cbn [go_show]. asc.
  - destruct (tmap_get _ _) eqn:E; [apply mpq_ret; cbn [go_show]; eapply tmap_get_ascii; exact E|].
    apply mpq_bind with (Q1 := show_ascii); [now apply IH|]. intros e He. apply mpq_ret.
    destruct (is_vec x && go_no_pointer_slice cfg); [exact He|]. cbn [go_show]. asc.
  - destruct (tmap_get _ _) eqn:E; [apply mpq_ret; cbn [go_show]; eapply tmap_get_ascii; exact E|].
    destruct p; try (apply mpq_ret; apply ga_ascii_b; reflexivity).
    apply mpq_bind with (Q1 := fun _ => True); [apply mpq_true|]. intros _ _. apply mpq_ret. apply ga_ascii_b. reflexivity.
Qed.

Lemma acr_ty_a t : ga_ascii (go_show t) -> mpo P (go_acronyms_ty uc cfg t).
Proof. intros H. unfold go_acronyms_ty. apply mpo_bind; [now apply acr_a|]. intros; apply mpo_ret. Qed.

Lemma go_member_a g f : go_field_ascii f = true -> mpo P (go_member_of uc cfg g f).
Proof.
  unfold go_field_ascii. intros H. apply andb_true_iff in H as [Hn Ht]. unfold go_member_of.
  apply mpo_bind_q with (Q := show_ascii).
  - destruct (type_override f Go); [apply mpo_ret|apply go_texp_po].
  - destruct (type_override f Go); [apply mpq_ret; cbn [go_show]; now apply asc_b|now apply go_texp_a].
  - intros tn Htn. apply mpo_bind; [now apply acr_ty_a|]. intros gt.
    apply mpo_bind; [apply ffn_a; now apply asc_b|]. intros; apply mpo_ret.
Qed.

Lemma go_struct_a rs : ga_ascii (renamed (sid rs)) -> forallb go_field_ascii (sfields rs) = true ->
  mpo P (go_struct_decl_of uc cfg rs).
Proof.
  intros Hn Hf. unfold go_struct_decl_of. apply mpo_bind; [now apply acr_a|]. intros name.
  apply mpo_bind; [|intros; apply mpo_ret]. apply mpo_mmapM. intros f Hin. apply go_member_a.
  eapply forallb_In; eassumption.
Qed.

Lemma anon_name_a sh n : ga_ascii (original (eid sh)) -> ga_ascii n ->
  mpo P (go_make_anonymous_struct_name uc cfg sh n) /\ mpq ga_ascii (go_make_anonymous_struct_name uc cfg sh n).
Proof. intros He Hn. unfold go_make_anonymous_struct_name. apply acr_a. asc. Qed.

Lemma variant_ascii_name v : go_variant_ascii v = true -> ga_ascii (original (vid (variant_shared v))).
Proof. unfold go_variant_ascii. intros H. apply andb_true_iff in H as [H _]. now apply asc_b. Qed.

Lemma go_anon_a sh : ga_ascii (original (eid sh)) -> forallb go_variant_ascii (evariants sh) = true ->
  mpo P (go_anonymous_struct_decls uc cfg sh).
Proof.
  intros He Hv. unfold go_anonymous_struct_decls. apply mpo_bind; [|intros; apply mpo_ret].
  apply mpo_mmapM. intros v Hin. pose proof (forallb_In _ _ v Hv Hin) as Hva.
  destruct v as [vsh|t vsh|fs vsh]; [apply mpo_ret|apply mpo_ret|].
  pose proof (variant_ascii_name _ Hva) as Hn. cbn [variant_shared] in Hn.
  unfold go_variant_ascii in Hva. apply andb_true_iff in Hva as [_ Hfs].
  destruct (anon_name_a sh (original (vid vsh)) He Hn) as [Hp Hq].
  apply mpo_bind_q with (Q := ga_ascii); [exact Hp|exact Hq|]. intros sn Hsn.
  apply mpo_bind; [|intros; apply mpo_ret]. apply go_struct_a; [exact Hsn|exact Hfs].
Qed.

Lemma go_variant_a sh cs sn tk v : ga_ascii (original (eid sh)) -> ga_ascii tk -> go_variant_ascii v = true ->
  mpo P (go_variant_of uc cfg sh cs sn tk v).
Proof.
  intros He Htk Hva. pose proof (variant_ascii_name _ Hva) as Hn.
  unfold go_variant_of. cbv zeta.
  destruct (acr_a _ Hn) as [Hp Hq]. apply mpo_bind_q with (Q := ga_ascii); [exact Hp|exact Hq|]. intros vn Hvn.
  apply mpo_bind_q with (Q := fun o : option (go_ty + str) =>
                               match o with Some (inl x) => ga_ascii (go_show x) | Some (inr s) => ga_ascii s | None => True end).
  - destruct v as [vsh|t vsh|fs vsh]; [apply mpo_ret| |].
    + apply mpo_bind; [apply go_texp_po|]. intros; apply mpo_ret.
    + apply mpo_bind; [now apply anon_name_a|]. intros; apply mpo_ret.
  - destruct v as [vsh|t vsh|fs vsh]; [now apply mpq_ret| |].
    + unfold go_variant_ascii in Hva. apply andb_true_iff in Hva as [_ Ht].
      apply mpq_bind with (Q1 := show_ascii); [now apply go_texp_a|]. intros x Hx. now apply mpq_ret.
    + apply mpq_bind with (Q1 := ga_ascii); [now apply anon_name_a|]. intros s Hs. now apply mpq_ret.
  - intros vt Hvt. apply mpo_bind; [apply acr_a; now apply ga_pascal_ascii|]. intros tp.
    apply mpo_bind; [|intros; apply mpo_ret].
    destruct vt as [[x|s]|]; [| |apply mpo_ret].
    + apply mpo_bind; [now apply acr_ty_a|]. intros; apply mpo_ret.
    + apply mpo_bind; [now apply acr_a|]. intros; apply mpo_ret.
Qed.

Lemma go_enum_a cs e : go_item_ascii (ItEnum e) = true -> (item_wf (ItEnum e) = false -> P s301) ->
  mpo P (go_enum_decls_of uc cfg cs e).
Proof.
  cbn [go_item_ascii]. intros Ha H. apply andb_true_iff in Ha as [Ha Hvs]. apply andb_true_iff in Ha as [He Htag].
  apply asc_b in He.
  unfold go_enum_decls_of. cbv zeta. apply mpo_bind; [now apply go_anon_a|]. intros anon.
  destruct e as [sh|tg ct sh]; cbn [enum_shared] in *.
  - apply mpo_bind; [now apply acr_a|]. intros en. apply mpo_bind; [|intros; apply mpo_ret].
    apply mpo_mmapM. intros v Hv. unfold go_unit_variant_of.
    pose proof (variant_ascii_name _ (forallb_In _ _ v Hvs Hv)) as Hn.
    destruct v; cbn [variant_shared] in Hn.
    + apply mpo_bind; [now apply acr_a|]. intros. apply mpo_bind; [now apply acr_a|]. intros; apply mpo_ret.
    + apply mpo_mpanic; apply H; cbn [item_wf enum_wf]; eapply forallb_false_In; try eassumption; reflexivity.
    + apply mpo_mpanic; apply H; cbn [item_wf enum_wf]; eapply forallb_false_In; try eassumption; reflexivity.
  - apply asc_b in Htag.
    apply mpo_bind; [now apply acr_a|]. intros sn.
    apply mpo_bind; [apply go_lift_po; apply no_panic_is_panic; apply camel_never_panics|]. intros cf.
    apply mpo_bind; [now apply ffn_a|]. intros tf.
    apply mpo_bind; [apply mpo_ret|]. intros ssn.
    apply mpo_bind; [now apply acr_a|]. intros ta.
    apply mpo_bind; [|intros; apply mpo_ret].
    apply mpo_mmapM. intros v Hv. apply go_variant_a; [exact He|exact Htag|]. eapply forallb_In; eassumption.
Qed.

Lemma go_decl_a cs it : go_item_ascii it = true -> (item_wf it = false -> P s301) -> mpo P (go_decl_of uc cfg cs it).
Proof.
  intros Ha H. destruct it as [st|e|a|c]; cbn [go_decl_of].
  - cbn [go_item_ascii] in Ha. apply andb_true_iff in Ha as [Hn Hf].
    apply mpo_bind; [|intros; apply mpo_ret]. apply go_struct_a; [now apply asc_b|exact Hf].
  - now apply go_enum_a.
  - cbn [go_item_ascii] in Ha. apply mpo_bind; [apply acr_a; now apply asc_b|]. intros name.
    apply mpo_bind; [apply go_texp_po|]. intros; apply mpo_ret.
  - apply mpo_bind; [apply go_texp_po|]. intros; apply mpo_ret.
Qed.

Theorem go_generate_a pd : forallb go_item_ascii (items_of pd) = true -> (pd_wf pd = false -> P s301) ->
  panics_only P (go_generate uc cfg pd).
Proof.
  intros Ha H. unfold go_generate. destruct (topsort_total (items_of pd)) as (items & E & Pm). rewrite E. cbn [bind]. cbv zeta.
  match goal with |- panics_only P (match ?run [] with _ => _ end) => assert (Hm : mpo P run) end.
  { apply mpo_bind; [unfold go_begin_file; apply mpo_bind; [apply go_add_import_po|intros; apply mpo_ret]|]. intros header.
    apply mpo_bind; [|intros; apply mpo_bind; [apply mpo_mget|intros; apply mpo_ret]].
    apply mpo_mconcat. intros it Hin. unfold go_write_item. apply mpo_bind; [|intros; apply mpo_ret].
    assert (Hit : In it (items_of pd)) by (eapply Permutation_in; eassumption).
    apply go_decl_a; [eapply forallb_In; eassumption|]. intros Ef. apply H. eapply items_wf; eassumption. }
  specialize (Hm []). match goal with |- panics_only P (match ?r with _ => _ end) => destruct r as [[out st]| |]; auto end.
Qed.
End GOA.

(* ---------- the statements ---------- *)
Theorem conv_ascii_b uc : unicode_ok uc -> forall acrs name, str_ascii name = true ->
  exists r, go_convert_acronyms_to_uppercase uc acrs name = Ok r /\ str_ascii r = true.
Proof.
  intros Huc acrs name H. destruct (conv_ascii uc Huc acrs name (asc_b _ H)) as (r & E & Hr).
  exists r. split; [exact E|]. now apply ga_ascii_b.
Qed.

(* ASCII input (and the front end's shape): Go never panics, whatever the acronym list *)
Theorem go_generate_never_panics_ascii uc cfg pd : unicode_ok uc ->
  go_input_ascii (go_type_mappings cfg) pd = true -> pd_wf pd = true -> no_panic (go_generate uc cfg pd).
Proof.
  intros Huc Ha Hw. unfold go_input_ascii in Ha. apply andb_true_iff in Ha as [Hc Hp].
  apply go_generate_a; auto. rewrite Hw. discriminate.
Qed.

(* every parsed data: go.rs:594 needs an acronym AND a non-ASCII string among those converted;
   go.rs:301 needs parsed data the front end never delivers *)
Theorem go_generate_panics_only_sharp uc cfg pd : unicode_ok uc ->
  panics_only (fun s => (s = "go.rs:594"%string /\ go_uppercase_acronyms cfg <> [] /\ go_input_ascii (go_type_mappings cfg) pd = false) \/
                        (s = "go.rs:301"%string /\ pd_wf pd = false))
              (go_generate uc cfg pd).
Proof.
  intros Huc. destruct (go_input_ascii (go_type_mappings cfg) pd) eqn:Ea.
  - unfold go_input_ascii in Ea. apply andb_true_iff in Ea as [Hc Hp]. apply go_generate_a; auto.
  - eapply po_weaken; [|apply go_generate_panics_only]. cbv beta. intros s [[-> H]|H]; auto.
Qed.
